import Proofs.Lemmas.GNStep
/-!
# C07 — a GN / LM step is the documented damped, weighted linear solve on the manifold

Property theorems only (helpers are in `Proofs/Lemmas/GNStep.lean`); all statements are about the model of
`Pose/Model/GNStep.lean` at `α = ℝ`, for every number / size of parameters and residuals, every batch shape, every
number of LM trials.  `J` (the Jacobian blocks returned by `modjac`, property C04), the correctors (C09), the solver
(C10) and the accept / reject loop (C08) are parameters.

Clauses of the property and where they are:

* "R, J are first passed through the configured corrector"      — `corrector_dispatch_one`, `corrector_dispatch_many`,
                                                                  `correctAll_spec`, `gnSystem_spec`, `lmSystem_spec`
* weight block-diagonal expansion for every residual rank /
  documented weight shape                                       — `weight_blocks_documented`, `weight_blocks_documented_d1`,
                                                                  `weight_index_broadcast`, `weight_expand_general`, `weight_expand`,
                                                                  `gn_rhs_item`, `gn_A_item`
* GN: least-squares solution of `W J δ = -W R`, minimum norm
  with the default (pseudo-inverse) solver                      — `gn_system`, `gn_normal`, `gn_normal_iff`, `gn_minnorm`, `gn_pinv`
* LM: `A_0`, `A_k = A_(k-1) + λ diag A_(k-1)`, rhs `-JᵀWR`      — `lm_A0_diag`, `lm_A0_offdiag`, `lm_Ak_succ`, `lm_Ak_diag`,
                                                                  `lm_Ak_offdiag`, `lm_rhs`, `lm_rhs_trial_independent`,
                                                                  `lm_Ak_posDef`, `lm_solution_unique`
* tangent coordinates ↔ parameters: each parameter gets exactly
  its own slice; frozen parameters untouched                    — `split_concat`, `update_slices`, `frozen_untouched`,
                                                                  `step_defined`, `step_raises_iff`
* Euclidean / algebra: `+`; group: `Exp(δ[:m]) · X`              — `update_euclid`, `update_alg`, `update_SO3`, `update_SE3`,
                                                                  `update_RxSO3`, `update_Sim3`, `update_slot_ignored`
* each LM trial = minimiser of the damped weighted least squares — `lm_trial_minimises`
* hardening pass: item-wise = batched (`update_item_local`, `update_entry_local`, `normal_matrix_separable`,
  `lm_Ak_separable`), trial histories compose (`lm_Ak_append`), calls are independent (`calls_independent`)
* hardening pass 2: `failed_call_atomic`, `successful_call`, `history_without_failed_call`, `twins_independent`
* pass 3: `weightMat_documented` (documented weights never raise), `lm_normal_item` (JᵀWJ = Σ_items J_tᵀ W_t J_t),
  `gn_step_spec` (end to end), `lm_Ak_posDef_of_full_rank`, `lm_A0_indefinite_when_max_cuts`, glue: `served_default`,
  `served_one_kernel`, `served_kernel_list`, `served_user`, `step_weight_overrides`, `residuals_spec`, `lm_defaults_ok`
* pass 4: `normal_split`, `rhs_split`, `normal_split_unweighted` (whole batch = sum over pieces), `clamp_ties`
* audit round: `gn_step_end_to_end` (n, J, shapes and the updated parameters from ONE parameter list; least squares AND
  minimum norm; column / slice alignment), `lm_trial_end_to_end`, `lm_trial_solver_failure`, `reject_restores_additive`,
  `reject_restores_group`, `lm_unweighted_eq_identity` + `lm_Ak_posDef_unweighted`, `lm_Ak_posDef_of_full_rank_unweighted`,
  `lm_trial_minimises_unweighted`, `lm_Ak_separable_unweighted` (the default, unweighted LM), `minnorm_zero_on_zero_columns`,
  `zero_columns_irrelevant`, `jac_column_along_update`, `residuals_too_few_targets`.
* passes 5 / 7 / 10: the weight is used entry for entry, no tolerance — `weight_used_exactly`, `weight_used_exactly_d1` (one residual,
  documented shapes), `weight_used_exactly_general` (the whole `block_diag` of a call), `gn_rhs_determines_weight`,
  `lm_rhs_determines_weight` (stated on the right-hand sides the step hands to the solver).
  Helper statements (unfolding lemmas, call histories, `gn_step_core`, defaults) live in `Proofs/Lemmas/GNStep.lean`.

What the model does NOT cover (decided by oracles on the real code only, see harness/c07.py META): the sparse
`update_parameter` / `sparse=True` path, the `vectorize` flag of `modjac` (both settings are run and must agree with the
finite-difference Jacobian), and the atomicity of the *real* call — `gnCall` is atomic by construction, whereas the code
updates the parameters in a list comprehension (a raise on a later parameter would leave earlier ones modified) and LM
writes `self.last` / `self.loss` before the loop; that the real `step()` leaves everything untouched when it raises is what
the `atomic` oracle checks.  `weightMat` requires a block-diagonal weight of exactly the stacked residual's size for GN and
LM alike; the GN code only needs its column count to match (non-square blocks, outside the SPD domain).
-/
namespace PP.GNStep
open Finset Matrix

/-! ## corrector dispatch -/

/-- one configured corrector serves every residual -/
theorem corrector_dispatch_one {γ : Type} (c : γ) (i : Nat) : pickCorrector [c] i = some c := by
  simp [pickCorrector]

/-- several configured correctors: residual `i` is served by corrector `i` (and the step raises if there is none) -/
theorem corrector_dispatch_many {γ : Type} (cs : List γ) (h : cs.length ≠ 1) (i : Nat) :
    pickCorrector cs i = cs[i]? := by
  simp [pickCorrector, h]

/-- the corrected residual list: entry `i` is the selected corrector applied to residual `i`, for every number of
residuals; if any selection fails the whole step raises -/
theorem correctAll_spec (cs : List (Res ℝ → Res ℝ)) (rs out : List (Res ℝ)) (h : correctAll cs rs = some out) :
    out.length = rs.length ∧
    ∀ i, i < rs.length → ∃ c, pickCorrector cs i = some c ∧ out.getD i default = c (rs.getD i default) := by
  unfold correctAll at h
  have gen : ∀ (rs out : List (Res ℝ)) (k : Nat), correctFrom cs k rs = some out →
      out.length = rs.length ∧
      ∀ i, i < rs.length → ∃ c, pickCorrector cs (k + i) = some c ∧ out.getD i default = c (rs.getD i default) := by
    intro rs
    induction rs with
    | nil =>
      intro out k h
      simp only [correctFrom, Option.some.injEq] at h
      subst h
      exact ⟨rfl, fun i hi => by simp at hi⟩
    | cons r rs ih =>
      intro out k h
      simp only [correctFrom] at h
      cases hc : pickCorrector cs k with
      | none => simp [hc] at h
      | some c =>
        cases hr : correctFrom cs (k + 1) rs with
        | none => simp [hc, hr] at h
        | some out' =>
          simp only [hc, hr, Option.some.injEq] at h
          subst h
          obtain ⟨hl, hi⟩ := ih out' (k + 1) hr
          refine ⟨by simp [hl], fun i hi' => ?_⟩
          cases i with
          | zero => exact ⟨c, by simpa using hc, by simp⟩
          | succ i =>
            obtain ⟨c', h1, h2⟩ := hi i (by simpa using hi')
            exact ⟨c', by rw [← h1]; congr 1; omega, by simpa using h2⟩
  have := gen rs out 0 h
  simpa using this

/-! ## weights -/

/-- **Documented weight shapes, `d ≥ 2`.**  Residual of shape `pre ++ suf ++ [d]`, weight of shape `suf ++ [d, d]`
(any rank, `suf` any suffix of the batch shape): `normalize_RWJ` lays out `prod suf · prod pre` blocks of size `d × d`,
the `u`-th being weight matrix number `u % prod suf`. -/
theorem weight_blocks_documented (pre suf : List Nat) (d : Nat) (hd : 1 < d) (hsuf : 0 < prod suf) (wdata : Nat → ℝ) :
    ∃ B, wblocks (pre ++ suf ++ [d]) (suf ++ [d, d]) wdata = some B ∧
      B.cnt = prod suf * prod pre ∧ B.h = d ∧ B.w = d ∧ B.nb = prod suf ∧
      B.blk = fun t a b => wdata ((t * d + a) * d + b) :=
  wblocks_documented_ne1 pre suf d hd hsuf wdata

example : ∃ B : WBlocks ℝ, wblocks [2, 3, 2] [3, 2, 2] (fun i => (i : ℝ)) = some B ∧ B.cnt = 3 * 2 := by
  obtain ⟨B, h, hc, _⟩ := weight_blocks_documented [2] [3] 2 (by omega) (by simp [prod]) (fun i => (i : ℝ))
  exact ⟨B, h, by simpa [prod] using hc⟩

/-- **Documented weight shapes, `d = 1`** (the `w.view(*w.shape, 1, 1)` special case): same layout with `1 × 1` blocks. -/
theorem weight_blocks_documented_d1 (pre suf : List Nat) (hsuf : 0 < prod suf) (wdata : Nat → ℝ) :
    ∃ B, wblocks (pre ++ suf ++ [1]) (suf ++ [1, 1]) wdata = some B ∧
      B.cnt = prod suf * prod pre ∧ B.h = 1 ∧ B.w = 1 ∧ B.nb = prod suf ∧
      B.blk = fun t a b => wdata ((t * 1 + a) * 1 + b) :=
  wblocks_documented_eq1 pre suf hsuf wdata

/-- **`u % prod suf` is the broadcasting index.**  For the residual item with multi-index `ipre ++ isuf` in a batch of
shape `pre ++ suf`, its row-major flat index modulo `prod suf` is the flat index of `isuf` in the weight's batch shape
`suf` — i.e. exactly the weight PyTorch broadcasting pairs with that item (trailing dimensions aligned). -/
theorem weight_index_broadcast (pre suf ipre isuf : List Nat) (hlen : ipre.length = pre.length)
    (hsuf : List.Forall₂ (fun i b => i < b) isuf suf) :
    flatIdx (pre ++ suf) (ipre ++ isuf) % prod suf = flatIdx suf isuf := by
  rw [flatIdx_append _ _ _ _ hlen, Nat.add_comm, Nat.add_mul_mod_self_right, Nat.mod_eq_of_lt (flatIdx_lt suf isuf hsuf)]

example : flatIdx ([2] ++ [3]) ([1] ++ [2]) % prod [3] = flatIdx [3] [2] :=
  weight_index_broadcast [2] [3] [1] [2] rfl (by simp)

/-- **Block-diagonal expansion = per-item weighting** (any number of residuals, any square blocks): row `(t, a)` of
residual `i` of `block_diag(weight_diag) @ v` is `Σ_b ws_i[t % nb_i][a, b] · v[(t, b) of residual i]`; no other residual
and no other item contributes. -/
theorem weight_expand_general (bs : List (WBlocks ℝ)) (hsq : ∀ B ∈ bs, B.h = B.w ∧ 0 < B.h) (v : Nat → ℝ)
    (i t a : Nat) (hi : i < bs.length) (ht : t < (bs.getD i default).cnt) (ha : a < (bs.getD i default).h) :
    ∑ c ∈ range (wCols bs),
        blockDiag bs (offset (bs.map (·.rows)) i + (t * (bs.getD i default).h + a)) c * v c
      = ∑ b ∈ range (bs.getD i default).h,
          (bs.getD i default).blk (t % (bs.getD i default).nb) a b
            * v (offset (bs.map (·.cols)) i + (t * (bs.getD i default).h + b)) :=
  blockDiag_row_dot bs hsq v i t a hi ht ha

/-- **`weight_expand`.**  One residual of shape `pre ++ suf ++ [d]` (`d ≥ 2`) with a weight of the documented shape
`suf ++ [d, d]`: component `a` of item `t` of `(block_diag W) · vec R` is `Σ_b W_{t % prod suf}[a, b] · R_t[b]`, for
every rank and every suffix. -/
theorem weight_expand (pre suf : List Nat) (d : Nat) (hd : 1 < d) (hsuf : 0 < prod suf) (wdata v : Nat → ℝ)
    (t a : Nat) (ht : t < prod suf * prod pre) (ha : a < d) :
    ∃ B, wblocks (pre ++ suf ++ [d]) (suf ++ [d, d]) wdata = some B ∧
      ∑ c ∈ range (wCols [B]), blockDiag [B] (t * d + a) c * v c
        = ∑ b ∈ range d, wdata (((t % prod suf) * d + a) * d + b) * v (t * d + b) := by
  obtain ⟨B, hB, hcnt, hh, hw, hnb, hblk⟩ := wblocks_documented_ne1 pre suf d hd hsuf wdata
  refine ⟨B, hB, ?_⟩
  have := blockDiag_row_dot [B] (by intro B' hB'; simp at hB'; subst hB'; exact ⟨by rw [hh, hw], by omega⟩) v 0 t a
    (by simp) (by simpa [hcnt] using ht) (by simpa [hh] using ha)
  simp only [List.getD_cons_zero, List.map_cons, List.map_nil, offset, Nat.zero_add, hh, hnb, hblk] at this
  exact this

/-- the same for `d = 1` -/
theorem weight_expand_d1 (pre suf : List Nat) (hsuf : 0 < prod suf) (wdata v : Nat → ℝ)
    (t : Nat) (ht : t < prod suf * prod pre) :
    ∃ B, wblocks (pre ++ suf ++ [1]) (suf ++ [1, 1]) wdata = some B ∧
      ∑ c ∈ range (wCols [B]), blockDiag [B] t c * v c = wdata (t % prod suf) * v t := by
  obtain ⟨B, hB, hcnt, hh, hw, hnb, hblk⟩ := wblocks_documented_eq1 pre suf hsuf wdata
  refine ⟨B, hB, ?_⟩
  have := blockDiag_row_dot [B] (by intro B' hB'; simp at hB'; subst hB'; exact ⟨by rw [hh, hw], by omega⟩) v 0 t 0
    (by simp) (by simpa [hcnt] using ht) (by simp [hh])
  simp only [List.getD_cons_zero, List.map_cons, List.map_nil, offset, Nat.zero_add, hh, hnb, hblk] at this
  simpa using this

/-- **The weighted GN right-hand side, item by item.**  For any number of residuals whose weights have square blocks
matching the residuals' sizes: entry `(t, a)` of residual `i` of `b = -(block_diag W) · cat(R')` is
`-Σ_b W_i[t % nb_i][a, b] · R'_i[t, b]` — residual `i`, item `t` only, weighted by its own (broadcast) matrix. -/
theorem gn_rhs_item (rs : List (Res ℝ)) (bs : List (WBlocks ℝ)) (hsq : ∀ B ∈ bs, B.h = B.w ∧ 0 < B.h)
    (hshape : bs.map (·.cols) = rs.map (·.rows)) (i t a : Nat) (hi : i < bs.length)
    (ht : t < (bs.getD i default).cnt) (ha : a < (bs.getD i default).h) :
    gnb (totalRows rs) (some (blockDiag bs)) (catR rs)
        (offset (bs.map (·.rows)) i + (t * (bs.getD i default).h + a))
      = -∑ b ∈ range (bs.getD i default).h,
          (bs.getD i default).blk (t % (bs.getD i default).nb) a b
            * (rs.getD i default).R (t * (bs.getD i default).h + b) := by
  have hlen : rs.length = bs.length := by
    have := congrArg List.length hshape; simpa using this.symm
  have hm : totalRows rs = wCols bs := by unfold totalRows wCols; rw [hshape]
  have hmem : bs.getD i default ∈ bs := by
    simp only [List.getD_eq_getElem?_getD, List.getElem?_eq_getElem hi, Option.getD_some]; exact List.getElem_mem hi
  have hB := hsq _ hmem
  simp only [gnb, sumN_eq, hm]
  have e : ∀ s ∈ range (wCols bs), -blockDiag bs (offset (bs.map (·.rows)) i + (t * (bs.getD i default).h + a)) s * catR rs s
      = -(blockDiag bs (offset (bs.map (·.rows)) i + (t * (bs.getD i default).h + a)) s * catR rs s) := by
    intro s _; ring
  rw [sum_congr rfl e, sum_neg_distrib, blockDiag_row_dot bs hsq (catR rs) i t a hi ht ha]
  congr 1
  apply sum_congr rfl
  intro b hb
  have hb := mem_range.mp hb
  rw [hshape, catR_at rs i _ (by omega)]
  have hc : (rs.getD i default).rows = (bs.getD i default).cols := by
    have h1 := rows_getD rs i (by omega)
    rw [← hshape] at h1
    rw [← h1]
    simp [List.getD_eq_getElem?_getD, List.getElem?_map, List.getElem?_eq_getElem hi]
  rw [hc, WBlocks.cols, ← hB.1]
  exact row_lt_rows _ _ _ _ ht hb

/-- **The weighted GN matrix, item by item**: row `(t, a)` of residual `i` of `A = (block_diag W) · cat(J')` is
`Σ_b W_i[t % nb_i][a, b] · J'_i[(t, b), ·]`. -/
theorem gn_A_item (rs : List (Res ℝ)) (bs : List (WBlocks ℝ)) (hsq : ∀ B ∈ bs, B.h = B.w ∧ 0 < B.h)
    (hshape : bs.map (·.cols) = rs.map (·.rows)) (i t a c : Nat) (hi : i < bs.length)
    (ht : t < (bs.getD i default).cnt) (ha : a < (bs.getD i default).h) :
    gnA (totalRows rs) (some (blockDiag bs)) (catJ rs)
        (offset (bs.map (·.rows)) i + (t * (bs.getD i default).h + a)) c
      = ∑ b ∈ range (bs.getD i default).h,
          (bs.getD i default).blk (t % (bs.getD i default).nb) a b
            * (rs.getD i default).J (t * (bs.getD i default).h + b) c := by
  have hlen : rs.length = bs.length := by
    have := congrArg List.length hshape; simpa using this.symm
  have hm : totalRows rs = wCols bs := by unfold totalRows wCols; rw [hshape]
  have hmem : bs.getD i default ∈ bs := by
    simp only [List.getD_eq_getElem?_getD, List.getElem?_eq_getElem hi, Option.getD_some]; exact List.getElem_mem hi
  have hB := hsq _ hmem
  simp only [gnA, sumN_eq, hm]
  rw [blockDiag_row_dot bs hsq (fun s => catJ rs s c) i t a hi ht ha]
  apply sum_congr rfl
  intro b hb
  have hb := mem_range.mp hb
  rw [hshape, catJ_at rs i _ c (by omega)]
  have hc : (rs.getD i default).rows = (bs.getD i default).cols := by
    have h1 := rows_getD rs i (by omega)
    rw [← hshape] at h1
    rw [← h1]
    simp [List.getD_eq_getElem?_getD, List.getElem?_map, List.getElem?_eq_getElem hi]
  rw [hc, WBlocks.cols, ← hB.1]
  exact row_lt_rows _ _ _ _ ht hb

/-! ## Gauss–Newton -/

/-- **The GN system.**  `A = W J`, `b = -W R` (resp. `J`, `-R` without weights) as matrices. -/
theorem gn_system (m n : Nat) (W J : Nat → Nat → ℝ) (R : Nat → ℝ) :
    toMat m n (gnA m (some W) J) = toMat m m W * toMat m n J ∧
    toVec m (gnb m (some W) R) = -((toMat m m W) *ᵥ (toVec m R)) ∧
    toMat m n (gnA m none J) = toMat m n J ∧ toVec m (gnb m none R) = -toVec m R :=
  ⟨toMat_gnA_some m n W J, toVec_gnb_some m W R, rfl, rfl⟩

/-- **`gn_normal`.**  A step `δ` that satisfies the normal equations of `W J δ = -W R` is a least-squares solution:
no other step has a smaller weighted residual. -/
theorem gn_normal (m n : Nat) (W : Option (Nat → Nat → ℝ)) (J : Nat → Nat → ℝ) (R : Nat → ℝ) (δ : Fin n → ℝ)
    (h : (toMat m n (gnA m W J))ᵀ *ᵥ (toMat m n (gnA m W J) *ᵥ δ - toVec m (gnb m W R)) = 0) (δ' : Fin n → ℝ) :
    nrm2 (toMat m n (gnA m W J) *ᵥ δ - toVec m (gnb m W R)) ≤ nrm2 (toMat m n (gnA m W J) *ᵥ δ' - toVec m (gnb m W R)) :=
  ls_of_normal _ _ _ h δ'

/-- least-squares solutions are exactly the solutions of the normal equations -/
theorem gn_normal_iff (m n : Nat) (W : Option (Nat → Nat → ℝ)) (J : Nat → Nat → ℝ) (R : Nat → ℝ) (δ : Fin n → ℝ) :
    (∀ δ', nrm2 (toMat m n (gnA m W J) *ᵥ δ - toVec m (gnb m W R)) ≤ nrm2 (toMat m n (gnA m W J) *ᵥ δ' - toVec m (gnb m W R)))
      ↔ (toMat m n (gnA m W J))ᵀ *ᵥ (toMat m n (gnA m W J) *ᵥ δ - toVec m (gnb m W R)) = 0 :=
  ⟨normal_of_ls _ _ _, fun h δ' => ls_of_normal _ _ _ h δ'⟩

example : (toMat 1 1 (gnA 1 none fun _ _ => 2))ᵀ *ᵥ (toMat 1 1 (gnA 1 none fun _ _ => 2) *ᵥ (fun _ => (-1 : ℝ))
    - toVec 1 (gnb 1 none fun _ => 2)) = 0 := by
  ext i; simp [toMat, toVec, gnA, gnb, Matrix.mulVec, dotProduct]

/-- **Minimum norm.**  A least-squares step lying in the range of `(W J)ᵀ` is the one of minimum norm, and the only one
of that norm. -/
theorem gn_minnorm (m n : Nat) (W : Option (Nat → Nat → ℝ)) (J : Nat → Nat → ℝ) (R : Nat → ℝ) (δ : Fin n → ℝ)
    (w : Fin m → ℝ)
    (h : (toMat m n (gnA m W J))ᵀ *ᵥ (toMat m n (gnA m W J) *ᵥ δ - toVec m (gnb m W R)) = 0)
    (hrange : δ = (toMat m n (gnA m W J))ᵀ *ᵥ w) (δ' : Fin n → ℝ)
    (h' : (toMat m n (gnA m W J))ᵀ *ᵥ (toMat m n (gnA m W J) *ᵥ δ' - toVec m (gnb m W R)) = 0) :
    nrm2 δ ≤ nrm2 δ' ∧ (nrm2 δ' = nrm2 δ → δ' = δ) :=
  minnorm_of_range _ _ _ w h hrange δ' h'

/-- **Default solver.**  If `P` satisfies the four Moore–Penrose conditions for `A = W J` (the contract of
`torch.linalg.pinv`), then `δ = P b` is a least-squares solution of `W J δ = -W R` and has minimum norm among them. -/
theorem gn_pinv (m n : Nat) (W : Option (Nat → Nat → ℝ)) (J : Nat → Nat → ℝ) (R : Nat → ℝ)
    (P : Matrix (Fin n) (Fin m) ℝ)
    (h1 : toMat m n (gnA m W J) * P * toMat m n (gnA m W J) = toMat m n (gnA m W J))
    (h2 : P * toMat m n (gnA m W J) * P = P)
    (h3 : (toMat m n (gnA m W J) * P)ᵀ = toMat m n (gnA m W J) * P)
    (h4 : (P * toMat m n (gnA m W J))ᵀ = P * toMat m n (gnA m W J)) :
    (∀ δ', nrm2 (toMat m n (gnA m W J) *ᵥ (P *ᵥ toVec m (gnb m W R)) - toVec m (gnb m W R))
        ≤ nrm2 (toMat m n (gnA m W J) *ᵥ δ' - toVec m (gnb m W R))) ∧
    (∀ δ', (toMat m n (gnA m W J))ᵀ *ᵥ (toMat m n (gnA m W J) *ᵥ δ' - toVec m (gnb m W R)) = 0 →
        nrm2 (P *ᵥ toVec m (gnb m W R)) ≤ nrm2 δ' ∧
        (nrm2 δ' = nrm2 (P *ᵥ toVec m (gnb m W R)) → δ' = P *ᵥ toVec m (gnb m W R))) := by
  have hn := penrose_normal (toMat m n (gnA m W J)) P (toVec m (gnb m W R)) h1 h3
  refine ⟨fun δ' => ls_of_normal _ _ _ hn δ', fun δ' h' => ?_⟩
  exact minnorm_of_range _ _ _ _ hn (penrose_range _ P _ h2 h4) δ' h'

/-- for a full-column-rank toy system the pseudo-inverse exists: the hypotheses of `gn_pinv` are satisfiable -/
example : ∃ P : Matrix (Fin 1) (Fin 1) ℝ,
    toMat 1 1 (gnA 1 none fun _ _ => 2) * P * toMat 1 1 (gnA 1 none fun _ _ => 2) = toMat 1 1 (gnA 1 none fun _ _ => 2) ∧
    P * toMat 1 1 (gnA 1 none fun _ _ => 2) * P = P := by
  refine ⟨toMat 1 1 fun _ _ => 1 / 2, ?_, ?_⟩ <;>
  · ext i j
    simp only [toMat, gnA, Matrix.mul_apply, Finset.univ_unique, Finset.sum_singleton]
    norm_num

/-- **`gnSystem` is that system built from the corrected residuals.**  Whenever the step does not raise, the solver is
handed `A = W · cat(J')`, `b = -W · cat(R')` with `(R', J')` the corrector outputs and `W` the block-diagonal weight. -/
theorem gnSystem_spec (n : Nat) (cs : List (Res ℝ → Res ℝ)) (rs : List (Res ℝ)) (rshapes : List (List Nat))
    (weights : Option (List (List Nat × (Nat → ℝ)))) (S : Sys ℝ) (h : gnSystem n cs rs rshapes weights = some S) :
    ∃ rs' W, correctAll cs rs = some rs' ∧ weightMat rshapes weights (totalRows rs') = some W ∧
      S.m = totalRows rs' ∧ S.n = n ∧ S.A = gnA (totalRows rs') W (catJ rs') ∧ S.b = gnb (totalRows rs') W (catR rs') :=
  gnSystem_spec' n cs rs rshapes weights S h

/-! ## Levenberg–Marquardt -/

/-- `A_0`: diagonal of `JᵀWJ` clamped to `[lo, hi]` … -/
theorem lm_A0_diag (m : Nat) (lo hi : ℝ) (W : Option (Nat → Nat → ℝ)) (J : Nat → Nat → ℝ) (i : Nat) :
    lmA0 m lo hi W J i i = min hi (max lo (lmNormal m (lmJT m W J) J i i)) := by
  rw [lmA0, clampDiag_diag, sclamp_real]

/-- … off-diagonal entries untouched, and `JᵀWJ` is the matrix product -/
theorem lm_A0_offdiag (m n : Nat) (lo hi : ℝ) (W J : Nat → Nat → ℝ) (i j : Nat) (h : i ≠ j) :
    lmA0 m lo hi (some W) J i j = lmNormal m (lmJT m (some W) J) J i j ∧
    toMat n n (lmNormal m (lmJT m (some W) J) J) = (toMat m n J)ᵀ * toMat m m W * toMat m n J := by
  refine ⟨by rw [lmA0, clampDiag_offdiag _ _ _ _ _ h], ?_⟩
  rw [toMat_lmNormal, toMat_lmJT_some]

/-- the clamp keeps the diagonal inside `[lo, hi]` whenever `lo ≤ hi` -/
theorem lm_A0_diag_mem (m : Nat) (lo hi : ℝ) (hle : lo ≤ hi) (W : Option (Nat → Nat → ℝ)) (J : Nat → Nat → ℝ) (i : Nat) :
    lo ≤ lmA0 m lo hi W J i i ∧ lmA0 m lo hi W J i i ≤ hi := by
  rw [lmA0, clampDiag_diag]; exact sclamp_mem lo hi _ hle

/-- **The recurrence of the property**: `A_(k+1) = A_k + λ_(k+1) · diag(A_k)`, for every trial and any damping history. -/
theorem lm_Ak_succ (A0 : Nat → Nat → ℝ) (lams : List ℝ) (lam : ℝ) (i j : Nat) :
    lmAk A0 (lams ++ [lam]) i j = lmAk A0 lams i j + (if i = j then lam * lmAk A0 lams i i else 0) := by
  rw [lmAk_snoc]
  by_cases h : i = j
  · subst h; simp [dampDiag]; ring
  · simp [dampDiag, h]

/-- **`lm_Ak`, diagonal**: in trial `k` the diagonal is `clamp(diag JᵀWJ) · ∏_{i ≤ k} (1 + λ_i)` -/
theorem lm_Ak_diag (m : Nat) (lo hi : ℝ) (W : Option (Nat → Nat → ℝ)) (J : Nat → Nat → ℝ) (lams : List ℝ) (i : Nat) :
    lmAk (lmA0 m lo hi W J) lams i i
      = min hi (max lo (lmNormal m (lmJT m W J) J i i)) * (lams.map fun l => 1 + l).prod := by
  rw [lmAk_diag, lm_A0_diag]; rfl

/-- **`lm_Ak`, off-diagonal**: never touched by the clamp or by any number of dampings -/
theorem lm_Ak_offdiag (m : Nat) (lo hi : ℝ) (W : Option (Nat → Nat → ℝ)) (J : Nat → Nat → ℝ) (lams : List ℝ)
    (i j : Nat) (h : i ≠ j) :
    lmAk (lmA0 m lo hi W J) lams i j = lmNormal m (lmJT m W J) J i j := by
  rw [lmAk_offdiag _ _ _ _ h, lmA0, clampDiag_offdiag _ _ _ _ _ h]

/-- **Right-hand side**: `b = -(JᵀW) R` … -/
theorem lm_rhs (m n : Nat) (W J : Nat → Nat → ℝ) (R : Nat → ℝ) :
    toVec n (lmb m (lmJT m (some W) J) R) = -(((toMat m n J)ᵀ * toMat m m W) *ᵥ toVec m R) ∧
    toVec n (lmb m (lmJT m none J) R) = -((toMat m n J)ᵀ *ᵥ toVec m R) := by
  refine ⟨by rw [toVec_lmb, toMat_lmJT_some], by rw [toVec_lmb, toMat_lmJT_none]⟩

/-- … and it is the same in every trial of a call, whatever the damping history -/
theorem lm_rhs_trial_independent (n : Nat) (lo hi : ℝ) (cs : List (Res ℝ → Res ℝ)) (rs : List (Res ℝ))
    (rshapes : List (List Nat)) (weights : Option (List (List Nat × (Nat → ℝ)))) (lams lams' : List ℝ) (S S' : Sys ℝ)
    (h : lmSystem n lo hi cs rs rshapes weights lams = some S)
    (h' : lmSystem n lo hi cs rs rshapes weights lams' = some S') : S.b = S'.b := by
  unfold lmSystem at h h'
  cases hc : correctAll cs rs with
  | none => simp [hc] at h
  | some rs' =>
    simp only [hc] at h h'
    cases hw : weightMat rshapes weights (totalRows rs') with
    | none => simp [hw] at h
    | some W =>
      simp only [hw, Option.some.injEq] at h h'
      subst h; subst h'; rfl

/-- **`lmSystem` is that system built from the corrected residuals**, in every trial -/
theorem lmSystem_spec (n : Nat) (lo hi : ℝ) (cs : List (Res ℝ → Res ℝ)) (rs : List (Res ℝ)) (rshapes : List (List Nat))
    (weights : Option (List (List Nat × (Nat → ℝ)))) (lams : List ℝ) (S : Sys ℝ)
    (h : lmSystem n lo hi cs rs rshapes weights lams = some S) :
    ∃ rs' W, correctAll cs rs = some rs' ∧ weightMat rshapes weights (totalRows rs') = some W ∧
      S.A = lmAk (lmA0 (totalRows rs') lo hi W (catJ rs')) lams ∧
      S.b = lmb (totalRows rs') (lmJT (totalRows rs') W (catJ rs')) (catR rs') :=
  lmSystem_spec' n lo hi cs rs rshapes weights lams S h

/-- **The damped matrix is positive definite.**  For a positive-semidefinite weight, clamps `0 < lo ≤ hi` that do not
cut the diagonal from above, and a damping history with `∏(1+λ_i) > 1` (e.g. all `λ_i ≥ 0`, one `> 0`), `A_k` is
symmetric positive definite in every trial — so Cholesky succeeds and the damped system has exactly one solution. -/
theorem lm_Ak_posDef (m n : Nat) (lo hi : ℝ) (hlo : 0 < lo) (hle : lo ≤ hi) (W J : Nat → Nat → ℝ)
    (hW : (toMat m m W).PosSemidef) (lams : List ℝ) (hprod : 1 < (lams.map fun l => 1 + l).prod)
    (hdiag : ∀ i, i < n → lmNormal m (lmJT m (some W) J) J i i ≤ hi) :
    (toMat n n (lmAk (lmA0 m lo hi (some W) J) lams)).PosDef := by
  rw [toMat_lmAk, toMat_lmNormal, toMat_lmJT_some]
  apply posDef_normal_add_diag _ _ hW
  intro i
  have hc := sclamp_ge_self lo hi _ (hdiag i i.2)
  have hp := sclamp_pos lo hi (lmNormal m (lmJT m (some W) J) J i i) hlo (lt_of_lt_of_le hlo hle)
  have : dampProd lams = (lams.map fun l => 1 + l).prod := rfl
  rw [this]
  nlinarith

example : (toMat 1 1 (lmAk (lmA0 1 (1/2) 8 (some fun _ _ => 1) fun _ _ => 2) [1])).PosDef := by
  apply lm_Ak_posDef 1 1 (1/2) 8 (by norm_num) (by norm_num)
  · refine PosSemidef.of_dotProduct_mulVec_nonneg (by ext i j; simp [toMat, Matrix.conjTranspose]) fun x => ?_
    simp [toMat, Matrix.mulVec, dotProduct]; exact mul_self_nonneg _
  · norm_num
  · intro i hi
    have : i = 0 := by omega
    subst this
    simp [lmNormal, lmJT, sumN]; norm_num

/-- a positive definite system has at most one solution: every solver returns the same `δ_k` -/
theorem lm_solution_unique {n : ℕ} (A : Matrix (Fin n) (Fin n) ℝ) (hA : A.PosDef) (b x y : Fin n → ℝ)
    (hx : A *ᵥ x = b) (hy : A *ᵥ y = b) : x = y := by
  by_contra hne
  have hd : x - y ≠ 0 := sub_ne_zero.mpr hne
  have := hA.dotProduct_mulVec_pos hd
  rw [mulVec_sub, hx, hy, sub_self, dotProduct_zero] at this
  exact lt_irrefl _ this

/-- **Each LM trial is the damped, weighted least-squares step.**  With a symmetric positive-semidefinite weight, clamps
`0 < lo ≤ hi` that do not cut the diagonal from above and `∏(1+λ_i) ≥ 1`, any solution `δ` of `A_k δ = -JᵀWR` minimises
`(Jδ+R)ᵀ W (Jδ+R) + δᵀ E_k δ` over all steps, where `E_k = diag(A_k) - diag(JᵀWJ) ≥ 0` is the damping added so far. -/
theorem lm_trial_minimises (m n : Nat) (lo hi : ℝ) (hlo : 0 < lo) (hle : lo ≤ hi) (W J : Nat → Nat → ℝ)
    (hW : (toMat m m W).PosSemidef) (lams : List ℝ) (hprod : 1 ≤ (lams.map fun l => 1 + l).prod)
    (hdiag : ∀ i, i < n → lmNormal m (lmJT m (some W) J) J i i ≤ hi) (R : Nat → ℝ) (δ : Fin n → ℝ)
    (h : toMat n n (lmAk (lmA0 m lo hi (some W) J) lams) *ᵥ δ = toVec n (lmb m (lmJT m (some W) J) R))
    (δ' : Fin n → ℝ) :
    dampedObj (toMat m n J) (toMat m m W)
        (fun i : Fin n => lmAk (lmA0 m lo hi (some W) J) lams i i - lmNormal m (lmJT m (some W) J) J i i) (toVec m R) δ
      ≤ dampedObj (toMat m n J) (toMat m m W)
        (fun i : Fin n => lmAk (lmA0 m lo hi (some W) J) lams i i - lmNormal m (lmJT m (some W) J) J i i) (toVec m R) δ' := by
  have hE : (fun i : Fin n => lmAk (lmA0 m lo hi (some W) J) lams i i - lmNormal m (lmJT m (some W) J) J i i)
      = fun i : Fin n => sclamp lo hi (lmNormal m (lmJT m (some W) J) J i i) * dampProd lams
          - lmNormal m (lmJT m (some W) J) J i i := by
    funext i; rw [lmAk_diag, lmA0, clampDiag_diag]
  rw [hE]
  apply damped_minimiser _ _ hW
  · intro i
    have hc := sclamp_ge_self lo hi _ (hdiag i i.2)
    have hp := sclamp_pos lo hi (lmNormal m (lmJT m (some W) J) J i i) hlo (lt_of_lt_of_le hlo hle)
    have : dampProd lams = (lams.map fun l => 1 + l).prod := rfl
    rw [this]
    nlinarith
  · rw [toMat_lmAk, toMat_lmNormal, toMat_lmJT_some, toVec_lmb, toMat_lmJT_some] at h
    exact h

/-- the hypothesis of `lm_trial_minimises` is satisfiable: the toy system `A_1 = 8`, `b = -4` has the solution `-1/2` -/
example : toMat 1 1 (lmAk (lmA0 1 (1/2) 8 (some fun _ _ => 1) fun _ _ => 2) [1]) *ᵥ (fun _ => (-1/2 : ℝ))
    = toVec 1 (lmb 1 (lmJT 1 (some fun _ _ => 1) fun _ _ => 2) fun _ => 2) := by
  ext i
  simp [toMat, toVec, Matrix.mulVec, dotProduct, lmAk, lmA0, clampDiag, dampDiag, lmNormal, lmJT, lmb, sumN, sclamp_real]
  norm_num

/-! ## the step in the parameters' own coordinates -/

/-- **`split_concat`.**  Row `r` of the flattened Jacobian applied to a step `δ` is the sum, over the parameters with
`requires_grad=True` only, of that parameter's own Jacobian block applied to the slice of `δ` that `update_parameter`
hands to that same parameter (`trainOffset`): columns and slices are aligned for every mix of trainable and frozen
parameters. -/
theorem split_concat (ps : List (Param ℝ)) (blk : Nat → Nat → Nat → ℝ) (δ : Nat → ℝ) (r : Nat) :
    ∑ c ∈ range (trainTotal ps), flattenRowJac (jacSpec ps) blk r c * δ c
      = ∑ j ∈ range ps.length,
          if (ps.getD j default).rg then
            ∑ o ∈ range (ps.getD j default).numel, blk j r o * δ (trainOffset ps j + o)
          else 0 := by
  rw [trainTotal_eq, flattenRowJac_dot, keptSum_eq]
  simp only [jacSpec, List.length_map]
  apply sum_congr rfl
  intro j hj
  have hj := mem_range.mp hj
  have e : (List.map (fun p : Param ℝ => (p.numel, p.rg)) ps).getD j (0, false)
      = ((ps.getD j default).numel, (ps.getD j default).rg) := by
    simp [List.getD_eq_getElem?_getD, List.getElem?_map, List.getElem?_eq_getElem hj]
  simp only [e]
  have ek : keptOffset (List.map (fun p : Param ℝ => (p.numel, p.rg)) ps) j = trainOffset ps j := by
    rw [trainOffset_eq_keptOffset]; rfl
  rw [ek]

/-- with all parameters trainable the flattened Jacobian is the plain column concatenation of all blocks -/
theorem flatten_all_trainable (ns : List Nat) (blk : Nat → Nat → Nat → ℝ) :
    flattenRowJac (ns.map fun n => (n, true)) blk = hcat ns blk :=
  flattenRowJac_all ns blk

/-- **The step never raises on account of frozen parameters**: the split sizes add up to the width of the flattened
Jacobian (the length of any solution of `A δ = b`), for every parameter list. -/
theorem step_defined (eps : ℝ) (ps : List (Param ℝ)) (D : Nat → ℝ) :
    ∃ out, stepUpdate eps ps (total (keepNumels (jacSpec ps))) D = some out ∧ out.length = ps.length := by
  refine ⟨updateParams eps ps D 0, ?_, updateParams_length eps ps D 0⟩
  simp [stepUpdate, trainTotal_eq]

/-- `split` raises exactly when the step has another length -/
theorem step_raises_iff (eps : ℝ) (ps : List (Param ℝ)) (lenD : Nat) (D : Nat → ℝ) :
    stepUpdate eps ps lenD D = none ↔ trainTotal ps ≠ lenD :=
  step_raises_iff' eps ps lenD D

/-- **`update_slices`.**  After `update_parameter`, parameter `j` is `add_` of its own slice
`D[trainOffset j …]` if it requires grad, and is untouched otherwise. -/
theorem update_slices (eps : ℝ) (ps out : List (Param ℝ)) (lenD : Nat) (D : Nat → ℝ)
    (h : stepUpdate eps ps lenD D = some out) (j : Nat) (hj : j < ps.length) :
    out.getD j default =
      if (ps.getD j default).rg then addParam eps (ps.getD j default) (fun i => D (trainOffset ps j + i))
      else ps.getD j default :=
  update_slices' eps ps out lenD D h j hj

/-- **Frozen parameters are untouched**, whatever the step -/
theorem frozen_untouched (eps : ℝ) (ps out : List (Param ℝ)) (lenD : Nat) (D : Nat → ℝ)
    (h : stepUpdate eps ps lenD D = some out) (j : Nat) (hj : j < ps.length) (hf : (ps.getD j default).rg = false) :
    out.getD j default = ps.getD j default := by
  rw [update_slices eps ps out lenD D h j hj, if_neg (by rw [hf]; simp)]

/-! ## `add_` per kind -/

/-- Euclidean parameters are updated by addition -/
theorem update_euclid (eps : ℝ) (p : Param ℝ) (d : Nat → ℝ) (h : p.kind = .euclid) (i : Nat) :
    (addParam eps p d).data i = p.data i + d i := by
  simp [addParam, h]

/-- Lie-algebra parameters are updated by addition -/
theorem update_alg (eps : ℝ) (p : Param ℝ) (d : Nat → ℝ) (g : Grp) (h : p.kind = .alg g) (i : Nat) :
    (addParam eps p d).data i = p.data i + d i := by
  simp [addParam, h]

/-- SO3 parameters: item `t` becomes `Exp(δ_t[:3]) · X_t` (the 4th slot of the step is ignored) -/
theorem update_SO3 (eps : ℝ) (p : Param ℝ) (d : Nat → ℝ) (h : p.kind = .grp .SO3) (t a : Nat) (ha : a < 4) :
    (addParam eps p d).data (t * 4 + a) =
      (SO3Retr eps ⟨p.data (t*4), p.data (t*4+1), p.data (t*4+2), p.data (t*4+3)⟩
        ⟨d (t*4), d (t*4+1), d (t*4+2)⟩).toList.getD a 0 := by
  obtain ⟨e1, e2⟩ := div_mod_item 4 t a ha
  simp only [addParam, h, Grp.gdim, e1, e2, retrItem, Nat.add_zero, Nat.zero_add, k_real, Nat.cast_zero]

/-- SE3 parameters: item `t` becomes `Exp(δ_t[:6]) · X_t` (the 7th slot of the step is ignored) -/
theorem update_SE3 (eps : ℝ) (p : Param ℝ) (d : Nat → ℝ) (h : p.kind = .grp .SE3) (t a : Nat) (ha : a < 7) :
    (addParam eps p d).data (t * 7 + a) =
      (SE3Retr eps ⟨⟨p.data (t*7), p.data (t*7+1), p.data (t*7+2)⟩,
                    ⟨p.data (t*7+3), p.data (t*7+4), p.data (t*7+5), p.data (t*7+6)⟩⟩
        ⟨⟨d (t*7), d (t*7+1), d (t*7+2)⟩, ⟨d (t*7+3), d (t*7+4), d (t*7+5)⟩⟩).toList.getD a 0 := by
  obtain ⟨e1, e2⟩ := div_mod_item 7 t a ha
  simp only [addParam, h, Grp.gdim, e1, e2, retrItem, Nat.add_zero, Nat.zero_add, k_real, Nat.cast_zero]

/-- RxSO3 parameters: item `t` becomes `Exp(δ_t[:4]) · X_t` (the 5th slot of the step is ignored) -/
theorem update_RxSO3 (eps : ℝ) (p : Param ℝ) (d : Nat → ℝ) (h : p.kind = .grp .RxSO3) (t a : Nat) (ha : a < 5) :
    (addParam eps p d).data (t * 5 + a) =
      (RxSO3Retr eps ⟨⟨p.data (t*5), p.data (t*5+1), p.data (t*5+2), p.data (t*5+3)⟩, p.data (t*5+4)⟩
        ⟨⟨d (t*5), d (t*5+1), d (t*5+2)⟩, d (t*5+3)⟩).toList.getD a 0 := by
  obtain ⟨e1, e2⟩ := div_mod_item 5 t a ha
  simp only [addParam, h, Grp.gdim, e1, e2, retrItem, Nat.add_zero, Nat.zero_add, k_real, Nat.cast_zero]

/-- Sim3 parameters: item `t` becomes `Exp(δ_t[:7]) · X_t` (the 8th slot of the step is ignored) -/
theorem update_Sim3 (eps : ℝ) (p : Param ℝ) (d : Nat → ℝ) (h : p.kind = .grp .Sim3) (t a : Nat) (ha : a < 8) :
    (addParam eps p d).data (t * 8 + a) =
      (Sim3Retr eps ⟨⟨p.data (t*8), p.data (t*8+1), p.data (t*8+2)⟩,
                     ⟨p.data (t*8+3), p.data (t*8+4), p.data (t*8+5), p.data (t*8+6)⟩, p.data (t*8+7)⟩
        ⟨⟨d (t*8), d (t*8+1), d (t*8+2)⟩, ⟨d (t*8+3), d (t*8+4), d (t*8+5)⟩, d (t*8+6)⟩).toList.getD a 0 := by
  obtain ⟨e1, e2⟩ := div_mod_item 8 t a ha
  simp only [addParam, h, Grp.gdim, e1, e2, retrItem, Nat.add_zero, Nat.zero_add, k_real, Nat.cast_zero]

/-- **The unused storage slot of a group step is ignored** (`Exp(δ[..., :m])`): two steps that agree on the first
`m = adim` entries of every item give the same updated parameter. -/
theorem update_slot_ignored (eps : ℝ) (p : Param ℝ) (g : Grp) (h : p.kind = .grp g) (d d' : Nat → ℝ)
    (hd : ∀ i, i % g.gdim < g.adim → d i = d' i) : (addParam eps p d).data = (addParam eps p d').data := by
  funext i
  simp only [addParam, h]
  have hpos : 0 < g.gdim := by cases g <;> simp [Grp.gdim]
  have hlt : g.adim < g.gdim := by cases g <;> simp [Grp.gdim, Grp.adim]
  rw [retrItem_congr eps g _ (fun a => d (i / g.gdim * g.gdim + a)) (fun a => d' (i / g.gdim * g.gdim + a))]
  intro a ha
  apply hd
  rw [Nat.add_comm, Nat.add_mul_mod_self_right, Nat.mod_eq_of_lt (by omega)]
  exact ha

/-! ## hardening pass: item-wise = batched, independence of calls and of trial histories -/

/-- **The update acts item by item.**  Item `t` of a group parameter after `update_parameter` depends only on item `t` of
the parameter and on the first `adim` entries of item `t` of the step — whatever the other items of the batch are
(tiny / ordinary / large steps mixed in one batch cannot influence each other). -/
theorem update_item_local (eps : ℝ) (p p' : Param ℝ) (g : Grp) (h : p.kind = .grp g) (h' : p'.kind = .grp g)
    (d d' : Nat → ℝ) (t : Nat)
    (hX : ∀ a, a < g.gdim → p.data (t * g.gdim + a) = p'.data (t * g.gdim + a))
    (hd : ∀ a, a < g.adim → d (t * g.gdim + a) = d' (t * g.gdim + a)) (a : Nat) (ha : a < g.gdim) :
    (addParam eps p d).data (t * g.gdim + a) = (addParam eps p' d').data (t * g.gdim + a) := by
  obtain ⟨e1, e2⟩ := div_mod_item g.gdim t a ha
  simp only [addParam, h, h', e1, e2]
  rw [retrItem_congr2 eps g _ (fun a => p'.data (t * g.gdim + a)) _ (fun a => d' (t * g.gdim + a)) hX hd]

/-- Euclidean / algebra parameters: entry by entry -/
theorem update_entry_local (eps : ℝ) (p p' : Param ℝ) (hk : p.kind = p'.kind) (hg : ∀ g, p.kind ≠ .grp g)
    (d d' : Nat → ℝ) (i : Nat) (hx : p.data i = p'.data i) (hd : d i = d' i) :
    (addParam eps p d).data i = (addParam eps p' d').data i := by
  cases hkind : p.kind with
  | euclid => rw [update_euclid eps p d hkind, update_euclid eps p' d' (hk ▸ hkind), hx, hd]
  | alg g => rw [update_alg eps p d g hkind, update_alg eps p' d' g (hk ▸ hkind), hx, hd]
  | grp g => exact absurd hkind (hg g)

/-- **A batch of independent items gives a block-diagonal normal matrix**: if every residual row depends on the
parameters of its own item only (`J[r, c] = 0` unless `ritem r = citem c`) and the weight couples rows of one item only,
then `(JᵀWJ)[i, j] = 0` for columns of different items … -/
theorem normal_matrix_separable (m : Nat) (W J : Nat → Nat → ℝ) (ritem citem : Nat → Nat)
    (hJ : ∀ r c, ritem r ≠ citem c → J r c = 0) (hW : ∀ r s, ritem r ≠ ritem s → W r s = 0)
    (i j : Nat) (hij : citem i ≠ citem j) :
    lmNormal m (lmJT m (some W) J) J i j = 0 ∧
    (∀ J' : Nat → Nat → ℝ, (∀ r c, ritem r ≠ citem c → J' r c = 0) → lmNormal m (lmJT m none J') J' i j = 0) :=
  ⟨normal_separable m W J ritem citem hJ hW i j hij,
   fun J' hJ' => normal_separable_unweighted m J' ritem citem hJ' i j hij⟩

/-- … and it stays block diagonal through the clamp and through every damping history: in every LM trial the system of
a separable batch is the collection of the items' own systems (batched solve = item-wise solves). -/
theorem lm_Ak_separable (m : Nat) (lo hi : ℝ) (W J : Nat → Nat → ℝ) (ritem citem : Nat → Nat)
    (hJ : ∀ r c, ritem r ≠ citem c → J r c = 0) (hW : ∀ r s, ritem r ≠ ritem s → W r s = 0) (lams : List ℝ)
    (n i : Nat) (δ : Nat → ℝ) :
    ∑ j ∈ range n, lmAk (lmA0 m lo hi (some W) J) lams i j * δ j
      = ∑ j ∈ range n, if citem j = citem i then lmAk (lmA0 m lo hi (some W) J) lams i j * δ j else 0 := by
  apply sum_congr rfl
  intro j _
  by_cases hc : citem j = citem i
  · simp [hc]
  · have hne : i ≠ j := fun e => hc (by rw [e])
    rw [if_neg hc, lm_Ak_offdiag m lo hi (some W) J lams i j hne,
      normal_separable m W J ritem citem hJ hW i j (fun e => hc e.symm), zero_mul]

/-! ## hardening pass 2: failing calls are atomic, histories skip them, copies are independent -/

example : gnCall (α := ℝ) 1 (fun _ => none) (fun _ => none) [] = none := rfl

/-! ## pass 3: documented weights never raise; JᵀWJ item by item; end-to-end step; sharper positive definiteness; glue -/

/-- **Documented weights are always accepted** (any number of residuals, any ranks, `d ≥ 1`): for residual shapes
`pre_i ++ suf_i ++ [d_i]` with weights of shape `suf_i ++ [d_i, d_i]`, `normalize_RWJ` builds a block-diagonal weight of
exactly the size of the stacked residual, so neither the `assert` nor `weight @ J` can fail, and the blocks are square
and aligned with the residuals (the hypotheses of `weight_expand_general`, `gn_rhs_item`, `gn_A_item`, `lm_normal_item`). -/
theorem weightMat_documented (ps : List DocPair) (hv : ∀ p ∈ ps, p.valid) (wd : List (Nat → ℝ)) (hl : wd.length = ps.length) :
    ∃ bs, weightMat (ps.map (·.rshape)) (some (List.zipWith (fun p w => (p.wshape, w)) ps wd)) (total (ps.map (·.numel)))
        = some (some (blockDiag bs)) ∧
      (∀ B ∈ bs, B.h = B.w ∧ 0 < B.h) ∧ bs.map (·.cols) = ps.map (·.numel) ∧ bs.map (·.rows) = ps.map (·.numel) := by
  obtain ⟨bs, hbs, _, hsq, hr, hc⟩ := allBlocks_documented ps hv wd hl
  refine ⟨bs, ?_, hsq, hc, hr⟩
  simp only [weightMat, hbs, wRows, wCols, hr, hc, and_self, if_true]

example : (⟨[2], [3], 2⟩ : DocPair).valid := ⟨by decide, by simp [prod]⟩

/-- **`JᵀWJ` is the sum over residual items of `J_tᵀ W_t J_t`** (any number of residuals, any documented weights):
the LM normal matrix weights every item by its own (broadcast) matrix and nothing else. -/
theorem lm_normal_item (rs : List (Res ℝ)) (bs : List (WBlocks ℝ)) (hsq : ∀ B ∈ bs, B.h = B.w ∧ 0 < B.h)
    (hshape : bs.map (·.cols) = rs.map (·.rows)) (p q : Nat) :
    lmNormal (totalRows rs) (lmJT (totalRows rs) (some (blockDiag bs)) (catJ rs)) (catJ rs) p q
      = ∑ i ∈ range bs.length, ∑ t ∈ range (bs.getD i default).cnt, ∑ a ∈ range (bs.getD i default).h,
          (rs.getD i default).J (t * (bs.getD i default).h + a) p *
            ∑ b ∈ range (bs.getD i default).h,
              (bs.getD i default).blk (t % (bs.getD i default).nb) a b * (rs.getD i default).J (t * (bs.getD i default).h + b) q := by
  have hlen : rs.length = bs.length := by
    have := congrArg List.length hshape; simpa using this.symm
  have hrows : bs.map (·.rows) = rs.map (·.rows) := by
    rw [← hshape]
    apply List.map_congr_left
    intro B hB
    simp only [WBlocks.rows, WBlocks.cols, (hsq B hB).1]
  -- swap the two sums: Σ_s (Σ_r J r p W r s) J s q = Σ_r J r p (Σ_s W r s J s q)
  have swap : lmNormal (totalRows rs) (lmJT (totalRows rs) (some (blockDiag bs)) (catJ rs)) (catJ rs) p q
      = ∑ r ∈ range (totalRows rs), catJ rs r p * gnA (totalRows rs) (some (blockDiag bs)) (catJ rs) r q := by
    simp only [lmNormal, lmJT, gnA, sumN_eq, Finset.sum_mul, Finset.mul_sum]
    rw [Finset.sum_comm]
    apply sum_congr rfl; intro r _
    apply sum_congr rfl; intro s _
    ring
  rw [swap]
  have htot : totalRows rs = total (bs.map (·.rows)) := by unfold totalRows; rw [hrows]
  rw [htot, sum_segments, segSum_eq]
  simp only [List.length_map]
  apply sum_congr rfl
  intro i hi
  have hi := mem_range.mp hi
  have hmem : bs.getD i default ∈ bs := by
    simp only [List.getD_eq_getElem?_getD, List.getElem?_eq_getElem hi, Option.getD_some]; exact List.getElem_mem hi
  have hB := hsq _ hmem
  have hrow_i : (bs.map (·.rows)).getD i 0 = (bs.getD i default).cnt * (bs.getD i default).h := by
    simp [List.getD_eq_getElem?_getD, List.getElem?_map, List.getElem?_eq_getElem hi, WBlocks.rows]
  rw [hrow_i, sum_blocks]
  apply sum_congr rfl; intro t ht
  apply sum_congr rfl; intro a ha
  have ht := mem_range.mp ht
  have ha := mem_range.mp ha
  have hJ : catJ rs (offset (bs.map (·.rows)) i + (t * (bs.getD i default).h + a)) p
      = (rs.getD i default).J (t * (bs.getD i default).h + a) p := by
    rw [hrows, catJ_at rs i _ p (by omega)]
    have h1 := rows_getD rs i (by omega)
    rw [← hrows] at h1
    rw [← h1, hrow_i]
    exact row_lt_rows _ _ _ _ ht ha
  rw [hJ, ← htot, gn_A_item rs bs hsq hshape i t a q hi ht ha]


/-- **Positive definiteness without damping**: for a positive definite weight and a Jacobian of full column rank the
matrix of every trial is positive definite as soon as `∏(1+λ) ≥ 1` (in particular before any damping). -/
theorem lm_Ak_posDef_of_full_rank (m n : Nat) (lo hi : ℝ) (hlo : 0 < lo) (hle : lo ≤ hi) (W J : Nat → Nat → ℝ)
    (hW : (toMat m m W).PosDef) (hJ : Function.Injective (toMat m n J).mulVec) (lams : List ℝ)
    (hprod : 1 ≤ (lams.map fun l => 1 + l).prod)
    (hdiag : ∀ i, i < n → lmNormal m (lmJT m (some W) J) J i i ≤ hi) :
    (toMat n n (lmAk (lmA0 m lo hi (some W) J) lams)).PosDef := by
  rw [toMat_lmAk, toMat_lmNormal, toMat_lmJT_some]
  have h1 : ((toMat m n J)ᵀ * toMat m m W * toMat m n J).PosDef := by
    have := PosDef.conjTranspose_mul_mul_same hW hJ
    rwa [conjTranspose_eq_transpose_of_trivial] at this
  apply PosDef.add_posSemidef h1
  apply PosSemidef.diagonal
  intro i
  have hc := sclamp_ge_self lo hi _ (hdiag i i.2)
  have hp := sclamp_pos lo hi (lmNormal m (lmJT m (some W) J) J i i) hlo (lt_of_lt_of_le hlo hle)
  have : dampProd lams = (lams.map fun l => 1 + l).prod := rfl
  simp only [Pi.zero_apply, this]
  nlinarith

/-- **The hypothesis `diag ≤ max` is needed**: a `max` clamp that cuts the diagonal can make `A_0` indefinite
(`J = [1 1]`, `W = 1`, clamps `[1/4, 1/2]`: `A_0 = [[1/2, 1], [1, 1/2]]`, `(1,-1)ᵀ A_0 (1,-1) = -1`). -/
theorem lm_A0_indefinite_when_max_cuts :
    ¬ (toMat 2 2 (lmAk (lmA0 1 (1/4) (1/2) (some fun _ _ => 1) fun _ _ => 1) [])).PosDef := by
  intro h
  have hx : (![1, -1] : Fin 2 → ℝ) ≠ 0 := by
    intro e; have := congrFun e 0; simp at this
  have := h.dotProduct_mulVec_pos hx
  simp [toMat, lmAk, lmA0, clampDiag, lmNormal, lmJT, sumN, sclamp_real, Matrix.mulVec, dotProduct, Fin.sum_univ_two] at this
  norm_num at this


/-! ### glue -/

/-- no kernel, no corrector: every residual passes through unchanged -/
theorem served_default {κ γ : Type} (i : Nat) : servedBy (κ := κ) (γ := γ) Arg.none Arg.none i = some CorrSel.trivial := by
  simp [servedBy, configCorrectors, kernelList, pickCorrector]

/-- one kernel, no corrector: every residual is corrected by `FastTriggs` of that kernel -/
theorem served_one_kernel {κ γ : Type} (k : κ) (i : Nat) :
    servedBy (γ := γ) (Arg.one k) Arg.none i = some (CorrSel.auto (some k)) := by
  simp [servedBy, configCorrectors, kernelList, pickCorrector]

/-- a list of kernels (not of length one), no corrector: residual `i` is corrected by `FastTriggs` of *its own* kernel
(`Trivial` where the entry is `None`); with fewer kernels than residuals the step raises -/
theorem served_kernel_list {κ γ : Type} (ks : List (Option κ)) (h : ks.length ≠ 1) (i : Nat) :
    servedBy (γ := γ) (Arg.many ks) Arg.none i = (ks[i]?).map CorrSel.auto := by
  simp [servedBy, configCorrectors, kernelList, pickCorrector, h, List.getElem?_map]

/-- a corrector that is given always wins over the kernels, whatever they are -/
theorem served_user {κ γ : Type} (ka : Arg κ) (c : γ) (i : Nat) : servedBy ka (Arg.one c) i = some (CorrSel.user c) := by
  simp [servedBy, configCorrectors, pickCorrector]

/-- residual `i` is `output_i - target_i` (or `output_i` where that target is `None`), for any number of outputs; with
fewer targets than outputs the call raises (`residuals_too_few_targets`) -/
theorem residuals_spec (outs : List (Nat → ℝ)) (ts : List (Option (Nat → ℝ))) (hl : outs.length ≤ ts.length)
    (i : Nat) (hi : i < outs.length) :
    ∃ rs, residualsOf outs (some ts) = some rs ∧ rs.length = outs.length ∧
      rs[i]? = some (residualOf outs[i] (ts[i]'(by omega))) := by
  refine ⟨(outs.zip ts).map fun p => residualOf p.1 p.2, ?_, ?_, ?_⟩
  · simp [residualsOf, Nat.not_lt.mpr hl]
  · simp [List.length_zip, Nat.min_eq_left hl]
  · simp [List.getElem?_map, List.getElem?_zip_eq_some, List.getElem?_eq_getElem hi, List.getElem?_eq_getElem (show i < ts.length by omega)]

/-- the solver contract of `gn_step_spec` is satisfiable by a solver that actually answers: on the toy system
`2 δ = -2` it returns `δ = -1`, on anything else it raises -/
example : ∃ solve : Sys ℝ → Option (Nat × (Nat → ℝ)),
    (∀ S len D, solve S = some (len, D) →
      (toMat S.m S.n S.A)ᵀ *ᵥ (toMat S.m S.n S.A *ᵥ toVec S.n D - toVec S.m S.b) = 0) ∧
    solve ⟨1, 1, fun _ _ => 2, fun _ => -2⟩ = some (1, fun _ => -1) := by
  classical
  refine ⟨fun S => if S.m = 1 ∧ S.n = 1 ∧ S.A 0 0 = 2 ∧ S.b 0 = -2 then some (1, fun _ => -1) else none, ?_, by simp⟩
  intro S len D h
  by_cases hc : S.m = 1 ∧ S.n = 1 ∧ S.A 0 0 = 2 ∧ S.b 0 = -2
  · simp only [hc, and_self, if_true, Option.some.injEq, Prod.mk.injEq] at h
    obtain ⟨hm, hn, hA, hb⟩ := hc
    obtain ⟨S_m, S_n, S_A, S_b⟩ := S
    simp only at hm hn hA hb
    subst hm; subst hn
    ext i
    have hi : i = 0 := Subsingleton.elim _ _
    subst hi
    simp [toMat, toVec, Matrix.mulVec, dotProduct, ← h.2, hA, hb]
  · simp [hc] at h

/-- the hypotheses of `lm_Ak_posDef_of_full_rank` are satisfiable without any damping: `J = [2]`, `W = [1]` -/
example : (toMat 1 1 (lmAk (lmA0 1 (1/2) 8 (some fun _ _ => 1) fun _ _ => 2) [])).PosDef := by
  apply lm_Ak_posDef_of_full_rank 1 1 (1/2) 8 (by norm_num) (by norm_num)
  · refine PosDef.of_dotProduct_mulVec_pos (by ext i j; simp [toMat, Matrix.conjTranspose]) fun x hx => ?_
    have h0 : x 0 ≠ 0 := fun e => hx (by ext i; have : i = 0 := Subsingleton.elim _ _; rw [this, e]; rfl)
    simp [toMat, Matrix.mulVec, dotProduct]
    exact h0
  · intro x y h
    ext i
    have := congrFun h 0
    have hi : i = 0 := Subsingleton.elim _ _
    simp [toMat, Matrix.mulVec, dotProduct] at this
    rw [hi]; exact this
  · simp
  · intro i hi
    have : i = 0 := by omega
    subst this
    simp [lmNormal, lmJT, sumN]; norm_num

/-! ## pass 4: split consistency (large batches), exact ties at the clamp bounds -/

/-- **Split consistency of the normal matrix**: if the weight does not couple the first `m₁` rows with the remaining `m₂`
(block-diagonal weights never do across items), `JᵀWJ` of the whole batch is the sum of the two pieces' `JᵀWJ`. -/
theorem normal_split (m₁ m₂ : Nat) (W J : Nat → Nat → ℝ)
    (hW : ∀ r s, (r < m₁ ∧ m₁ ≤ s) ∨ (s < m₁ ∧ m₁ ≤ r) → W r s = 0) (i j : Nat) :
    lmNormal (m₁ + m₂) (lmJT (m₁ + m₂) (some W) J) J i j
      = lmNormal m₁ (lmJT m₁ (some W) J) J i j
        + lmNormal m₂ (lmJT m₂ (some fun r s => W (m₁ + r) (m₁ + s)) fun r c => J (m₁ + r) c) (fun r c => J (m₁ + r) c) i j := by
  simp only [lmNormal, lmJT, sumN_eq]
  rw [sum_range_add]
  congr 1
  · apply sum_congr rfl
    intro s hs
    have hs := mem_range.mp hs
    rw [sum_range_add]
    have : ∑ x ∈ range m₂, J (m₁ + x) i * W (m₁ + x) s = 0 := by
      apply sum_eq_zero; intro x _
      rw [hW (m₁ + x) s (Or.inr ⟨hs, by omega⟩), mul_zero]
    rw [this, add_zero]
  · apply sum_congr rfl
    intro s _
    rw [sum_range_add]
    have : ∑ x ∈ range m₁, J x i * W x (m₁ + s) = 0 := by
      apply sum_eq_zero; intro x hx
      rw [hW x (m₁ + s) (Or.inl ⟨mem_range.mp hx, by omega⟩), mul_zero]
    rw [this, zero_add]

/-- the same for the right-hand side `-JᵀWR` -/
theorem rhs_split (m₁ m₂ : Nat) (W J : Nat → Nat → ℝ) (R : Nat → ℝ)
    (hW : ∀ r s, (r < m₁ ∧ m₁ ≤ s) ∨ (s < m₁ ∧ m₁ ≤ r) → W r s = 0) (i : Nat) :
    lmb (m₁ + m₂) (lmJT (m₁ + m₂) (some W) J) R i
      = lmb m₁ (lmJT m₁ (some W) J) R i
        + lmb m₂ (lmJT m₂ (some fun r s => W (m₁ + r) (m₁ + s)) fun r c => J (m₁ + r) c) (fun r => R (m₁ + r)) i := by
  simp only [lmb, lmJT, sumN_eq]
  rw [sum_range_add]
  congr 1
  · apply sum_congr rfl
    intro s hs
    have hs := mem_range.mp hs
    rw [sum_range_add]
    have : ∑ x ∈ range m₂, J (m₁ + x) i * W (m₁ + x) s = 0 := by
      apply sum_eq_zero; intro x _
      rw [hW (m₁ + x) s (Or.inr ⟨hs, by omega⟩), mul_zero]
    rw [this, add_zero]
  · apply sum_congr rfl
    intro s _
    rw [sum_range_add]
    have : ∑ x ∈ range m₁, J x i * W x (m₁ + s) = 0 := by
      apply sum_eq_zero; intro x hx
      rw [hW x (m₁ + s) (Or.inl ⟨mem_range.mp hx, by omega⟩), mul_zero]
    rw [this, zero_add]

/-- unweighted: `JᵀJ` of a stacked Jacobian is the sum of the pieces' `JᵀJ`, for every cut -/
theorem normal_split_unweighted (m₁ m₂ : Nat) (J : Nat → Nat → ℝ) (i j : Nat) :
    lmNormal (m₁ + m₂) (lmJT (m₁ + m₂) none J) J i j
      = lmNormal m₁ (lmJT m₁ none J) J i j + lmNormal m₂ (lmJT m₂ none fun r c => J (m₁ + r) c) (fun r c => J (m₁ + r) c) i j := by
  simp only [lmNormal, lmJT, sumN_eq]
  rw [sum_range_add]

/-- **Exact ties at the clamp bounds**: a diagonal entry that equals `min` or `max` is left exactly as it is, and with
`min = max` every entry becomes that value -/
theorem clamp_ties (lo hi x : ℝ) (h : lo ≤ hi) :
    sclamp lo hi lo = lo ∧ sclamp lo hi hi = hi ∧ sclamp lo lo x = lo := by
  refine ⟨?_, ?_, ?_⟩
  · rw [sclamp_real, max_self, min_eq_right h]
  · rw [sclamp_real, max_eq_right h, min_self]
  · rw [sclamp_real]; exact min_eq_left (le_max_left _ _)


/-! ## audit round: everything from one parameter list, LM trials, unweighted LM, slot columns -/

/-- **No weight = identity weight**: the default (unweighted) LM builds exactly the matrices of the weighted one with
`W = I`, in every trial -/
theorem lm_unweighted_eq_identity (m : Nat) (lo hi : ℝ) (J : Nat → Nat → ℝ) (R : Nat → ℝ) (lams : List ℝ) :
    lmAk (lmA0 m lo hi none J) lams = lmAk (lmA0 m lo hi (some (idW m)) J) lams ∧
    lmb m (lmJT m none J) R = lmb m (lmJT m (some (idW m)) J) R := by
  have hN : lmNormal m (lmJT m none J) J = lmNormal m (lmJT m (some (idW m)) J) J := by
    funext i j
    simp only [lmNormal, sumN_eq]
    apply sum_congr rfl
    intro s hs
    rw [lmJT_none_eq_id m J i s (mem_range.mp hs)]
  refine ⟨by simp only [lmA0, hN], ?_⟩
  funext i
  simp only [lmb, sumN_eq]
  apply sum_congr rfl
  intro s hs
  rw [lmJT_none_eq_id m J i s (mem_range.mp hs)]


/-- the default, unweighted LM: `A_k` is positive definite under the same side conditions (`0 < min ≤ max`, no diagonal
entry above `max`, `∏(1+λ) > 1`) -/
theorem lm_Ak_posDef_unweighted (m n : Nat) (lo hi : ℝ) (hlo : 0 < lo) (hle : lo ≤ hi) (J : Nat → Nat → ℝ)
    (lams : List ℝ) (hprod : 1 < (lams.map fun l => 1 + l).prod)
    (hdiag : ∀ i, i < n → lmNormal m (lmJT m none J) J i i ≤ hi) :
    (toMat n n (lmAk (lmA0 m lo hi none J) lams)).PosDef := by
  rw [(lm_unweighted_eq_identity m lo hi J (fun _ => 0) lams).1]
  apply lm_Ak_posDef m n lo hi hlo hle (idW m) J (by rw [toMat_idW]; exact PosSemidef.one) lams hprod
  intro i hi'
  have := hdiag i hi'
  have hN : lmNormal m (lmJT m none J) J i i = lmNormal m (lmJT m (some (idW m)) J) J i i := by
    simp only [lmNormal, sumN_eq]
    apply sum_congr rfl
    intro s hs
    rw [lmJT_none_eq_id m J i s (mem_range.mp hs)]
  rw [← hN]; exact this

/-- unweighted LM, full column rank: positive definite already without damping -/
theorem lm_Ak_posDef_of_full_rank_unweighted (m n : Nat) (lo hi : ℝ) (hlo : 0 < lo) (hle : lo ≤ hi) (J : Nat → Nat → ℝ)
    (hJ : Function.Injective (toMat m n J).mulVec) (lams : List ℝ) (hprod : 1 ≤ (lams.map fun l => 1 + l).prod)
    (hdiag : ∀ i, i < n → lmNormal m (lmJT m none J) J i i ≤ hi) :
    (toMat n n (lmAk (lmA0 m lo hi none J) lams)).PosDef := by
  rw [(lm_unweighted_eq_identity m lo hi J (fun _ => 0) lams).1]
  apply lm_Ak_posDef_of_full_rank m n lo hi hlo hle (idW m) J (by rw [toMat_idW]; exact PosDef.one) hJ lams hprod
  intro i hi'
  have hN : lmNormal m (lmJT m none J) J i i = lmNormal m (lmJT m (some (idW m)) J) J i i := by
    simp only [lmNormal, sumN_eq]
    apply sum_congr rfl
    intro s hs
    rw [lmJT_none_eq_id m J i s (mem_range.mp hs)]
  rw [← hN]; exact hdiag i hi'

/-- unweighted LM: every trial minimises `‖Jδ + R‖² + δᵀ E_k δ` -/
theorem lm_trial_minimises_unweighted (m n : Nat) (lo hi : ℝ) (hlo : 0 < lo) (hle : lo ≤ hi) (J : Nat → Nat → ℝ)
    (lams : List ℝ) (hprod : 1 ≤ (lams.map fun l => 1 + l).prod)
    (hdiag : ∀ i, i < n → lmNormal m (lmJT m none J) J i i ≤ hi) (R : Nat → ℝ) (δ : Fin n → ℝ)
    (h : toMat n n (lmAk (lmA0 m lo hi none J) lams) *ᵥ δ = toVec n (lmb m (lmJT m none J) R)) (δ' : Fin n → ℝ) :
    dampedObj (toMat m n J) 1
        (fun i : Fin n => lmAk (lmA0 m lo hi none J) lams i i - lmNormal m (lmJT m none J) J i i) (toVec m R) δ
      ≤ dampedObj (toMat m n J) 1
        (fun i : Fin n => lmAk (lmA0 m lo hi none J) lams i i - lmNormal m (lmJT m none J) J i i) (toVec m R) δ' := by
  obtain ⟨hA, hb⟩ := lm_unweighted_eq_identity m lo hi J R lams
  have hN : ∀ i, lmNormal m (lmJT m none J) J i i = lmNormal m (lmJT m (some (idW m)) J) J i i := by
    intro i
    simp only [lmNormal, sumN_eq]
    apply sum_congr rfl
    intro s hs
    rw [lmJT_none_eq_id m J i s (mem_range.mp hs)]
  rw [hA, hb] at h
  have := lm_trial_minimises m n lo hi hlo hle (idW m) J (by rw [toMat_idW]; exact PosSemidef.one) lams hprod
    (fun i hi' => by rw [← hN]; exact hdiag i hi') R δ h δ'
  simp only [hA, hN]
  rw [toMat_idW] at this
  exact this

/-- unweighted LM on a batch of independent items: block diagonal in every trial -/
theorem lm_Ak_separable_unweighted (m : Nat) (lo hi : ℝ) (J : Nat → Nat → ℝ) (ritem citem : Nat → Nat)
    (hJ : ∀ r c, ritem r ≠ citem c → J r c = 0) (lams : List ℝ) (n i : Nat) (δ : Nat → ℝ) :
    ∑ j ∈ range n, lmAk (lmA0 m lo hi none J) lams i j * δ j
      = ∑ j ∈ range n, if citem j = citem i then lmAk (lmA0 m lo hi none J) lams i j * δ j else 0 := by
  apply sum_congr rfl
  intro j _
  by_cases hc : citem j = citem i
  · simp [hc]
  · have hne : i ≠ j := fun e => hc (by rw [e])
    rw [if_neg hc, lm_Ak_offdiag m lo hi none J lams i j hne,
      normal_separable_unweighted m J ritem citem hJ i j (fun e => hc e.symm), zero_mul]


/-- **End to end, Gauss–Newton** (everything derived from ONE parameter list).  If `GaussNewton.step` succeeds with a
solver that meets the pseudo-inverse contract on the system it is handed, then
* the system has exactly `Σ numel(trainable parameters)` columns and `D` has that length;
* its matrix and right-hand side are `W·cat(J')`, `-W·cat(R')` of the corrected residuals, `J` being the column
  concatenation of the Jacobian blocks of the trainable parameters of *this* list;
* `D` minimises `‖W J' δ + W R'‖` over all `δ ∈ ℝⁿ`, and among all minimisers it is the unique one of minimum norm;
* every trainable parameter is `add_` of its own slice of `D` — the same slice its Jacobian block multiplies
  (`Σ_c J_i[r,c]·δ[c] = Σ_{trainable j} Σ_o blk_j[r,o]·δ[trainOffset j + o]`) — frozen parameters are untouched. -/
theorem gn_step_end_to_end (eps : ℝ) (model : List (Param ℝ) → List (RawRes ℝ)) (cs : List (Res ℝ → Res ℝ))
    (weights : Option (List (List Nat × (Nat → ℝ)))) (solve : Sys ℝ → Option (Nat × (Nat → ℝ)))
    (ps out : List (Param ℝ))
    (hsolve : ∀ S, gnSystemOf ps (model ps) cs weights = some S → ∀ len D, solve S = some (len, D) → PinvContract S len D)
    (h : gnStep eps model cs weights solve ps = some out) :
    ∃ rs' W D,
      correctAll cs (assemble ps (model ps)) = some rs' ∧
      weightMat ((model ps).map (·.rshape)) weights (totalRows rs') = some W ∧
      (∀ δ' : Fin (trainTotal ps) → ℝ,
        nrm2 (toMat (totalRows rs') (trainTotal ps) (gnA (totalRows rs') W (catJ rs')) *ᵥ toVec (trainTotal ps) D
              - toVec (totalRows rs') (gnb (totalRows rs') W (catR rs')))
          ≤ nrm2 (toMat (totalRows rs') (trainTotal ps) (gnA (totalRows rs') W (catJ rs')) *ᵥ δ'
              - toVec (totalRows rs') (gnb (totalRows rs') W (catR rs')))) ∧
      (∀ δ' : Fin (trainTotal ps) → ℝ,
        (toMat (totalRows rs') (trainTotal ps) (gnA (totalRows rs') W (catJ rs')))ᵀ *ᵥ
            (toMat (totalRows rs') (trainTotal ps) (gnA (totalRows rs') W (catJ rs')) *ᵥ δ'
              - toVec (totalRows rs') (gnb (totalRows rs') W (catR rs'))) = 0 →
          nrm2 (toVec (trainTotal ps) D) ≤ nrm2 δ' ∧ (nrm2 δ' = nrm2 (toVec (trainTotal ps) D) → δ' = toVec (trainTotal ps) D)) ∧
      (∀ j, j < ps.length → out.getD j default =
        if (ps.getD j default).rg then addParam eps (ps.getD j default) (fun i => D (trainOffset ps j + i))
        else ps.getD j default) ∧
      (∀ i, i < (model ps).length → ∀ (δ : Nat → ℝ) (r : Nat),
        ∑ c ∈ range (trainTotal ps), ((assemble ps (model ps)).getD i default).J r c * δ c
          = ∑ j ∈ range ps.length,
              if (ps.getD j default).rg then
                ∑ o ∈ range (ps.getD j default).numel,
                  ((model ps).getD i ⟨0, fun _ => 0, fun _ _ _ => 0, []⟩).blk j r o * δ (trainOffset ps j + o)
              else 0) := by
  unfold gnStep at h
  obtain ⟨S, len, D, hS, hv, hu⟩ := successful_call eps _ solve ps out h
  obtain ⟨hlen, hne, w, hw⟩ := hsolve S hS len D hv
  unfold gnSystemOf at hS
  obtain ⟨rs', W, hc, hwm, hm, hn, hA, hb⟩ := gnSystem_spec _ cs _ _ weights S hS
  obtain ⟨Sm, Sn, SA, Sb⟩ := S
  simp only at hm hn hA hb hne hw hlen
  subst hm; subst hn; subst hA; subst hb
  refine ⟨rs', W, D, hc, hwm, ?_, ?_, ?_, ?_⟩
  · intro δ'; exact ls_of_normal _ _ _ hne δ'
  · intro δ' h'; exact minnorm_of_range _ _ _ w hne hw δ' h'
  · intro j hj; exact update_slices eps ps out len D hu j hj
  · intro i hi δ r
    rw [assemble_getD ps (model ps) i hi]
    exact split_concat ps _ δ r

/-- **One LM trial changes the parameters by the solution of `A_k δ = -JᵀWR`** (any trial `k = lams.length`, any damping
history, any mix of trainable / frozen parameters): if the trial's solver call returns `D` with `A_k D = b`, then the
system is the one of `lmSystem_spec` (diagonal `clamp(diag JᵀWJ)·∏(1+λ_i)`, `b = -JᵀWR`) for `n = Σ numel(trainable)`,
`D` has that length, and `update_parameter` gives every trainable parameter its own slice of `D`; the parameters of the
trial may be the ones the system was computed at or their restoration after a rejected trial. -/
theorem lm_trial_end_to_end (eps : ℝ) (ps0 : List (Param ℝ)) (raw : List (RawRes ℝ)) (lo hi : ℝ)
    (cs : List (Res ℝ → Res ℝ)) (weights : Option (List (List Nat × (Nat → ℝ)))) (lams : List ℝ)
    (solve : Sys ℝ → Option (Nat × (Nat → ℝ))) (ps out : List (Param ℝ))
    (hsolve : ∀ S, lmSystemOf ps0 raw lo hi cs weights lams = some S → ∀ len D, solve S = some (len, D) →
      len = S.n ∧ toMat S.n S.n S.A *ᵥ toVec S.n D = toVec S.n S.b)
    (h : lmTrial eps ps0 raw lo hi cs weights lams solve ps = some out) :
    ∃ rs' W D,
      correctAll cs (assemble ps0 raw) = some rs' ∧
      weightMat (raw.map (·.rshape)) weights (totalRows rs') = some W ∧
      toMat (trainTotal ps0) (trainTotal ps0) (lmAk (lmA0 (totalRows rs') lo hi W (catJ rs')) lams) *ᵥ toVec (trainTotal ps0) D
        = toVec (trainTotal ps0) (lmb (totalRows rs') (lmJT (totalRows rs') W (catJ rs')) (catR rs')) ∧
      trainTotal ps = trainTotal ps0 ∧
      (∀ j, j < ps.length → out.getD j default =
        if (ps.getD j default).rg then addParam eps (ps.getD j default) (fun i => D (trainOffset ps j + i))
        else ps.getD j default) := by
  unfold lmTrial at h
  obtain ⟨S, len, D, hS, hv, hu⟩ := successful_call eps _ solve ps out h
  obtain ⟨hlen, hsol⟩ := hsolve S hS len D hv
  have hS' := hS
  unfold lmSystemOf at hS'
  obtain ⟨rs', W, hc, hwm, hA, hb⟩ := lmSystem_spec _ lo hi cs _ _ weights lams S hS'
  have hn : S.n = trainTotal ps0 := by
    unfold lmSystem at hS'
    cases hcc : correctAll cs (assemble ps0 raw) with
    | none => simp [hcc] at hS'
    | some r1 =>
      simp only [hcc] at hS'
      cases hww : weightMat (raw.map (·.rshape)) weights (totalRows r1) with
      | none => simp [hww] at hS'
      | some W1 => simp only [hww, Option.some.injEq] at hS'; rw [← hS']
  have htt : trainTotal ps = len := by
    by_contra hne
    rw [(step_raises_iff eps ps len D).mpr hne] at hu
    exact absurd hu (by simp)
  refine ⟨rs', W, D, hc, hwm, ?_, by rw [htt, hlen, hn], fun j hj => update_slices eps ps out len D hu j hj⟩
  rw [← hn, ← hA, ← hb]; exact hsol

/-- a solver that raises in a trial: LM breaks, the parameters stay exactly as they were before the trial -/
theorem lm_trial_solver_failure (eps : ℝ) (ps0 : List (Param ℝ)) (raw : List (RawRes ℝ)) (lo hi : ℝ)
    (cs : List (Res ℝ → Res ℝ)) (weights : Option (List (List Nat × (Nat → ℝ)))) (lams : List ℝ)
    (solve : Sys ℝ → Option (Nat × (Nat → ℝ))) (ps : List (Param ℝ)) (S : Sys ℝ)
    (hS : lmSystemOf ps0 raw lo hi cs weights lams = some S) (hfail : solve S = none) :
    callOrKeep (lmTrial eps ps0 raw lo hi cs weights lams solve) ps = ps :=
  (failed_call_atomic eps _ solve ps (Or.inr (Or.inl ⟨S, hS, hfail⟩))).2

/-- **Rejecting a trial restores Euclidean and algebra parameters exactly**: `update_parameter(-D)` after
`update_parameter(D)` gives back every entry (`x + d - d = x`), and does not touch frozen parameters. -/
theorem reject_restores_additive (eps : ℝ) (p : Param ℝ) (d : Nat → ℝ) (hk : ∀ g, p.kind ≠ .grp g) (i : Nat) :
    (addParam eps (addParam eps p d) (fun i => -d i)).data i = p.data i := by
  cases hkind : p.kind with
  | euclid =>
    have h2 : (addParam eps p d).kind = .euclid := by simp [addParam, hkind]
    rw [update_euclid eps _ _ h2, update_euclid eps p d hkind]; ring
  | alg g =>
    have h2 : (addParam eps p d).kind = .alg g := by simp [addParam, hkind]
    rw [update_alg eps _ _ g h2, update_alg eps p d g hkind]; ring
  | grp g => exact absurd hkind (hk g)


/-- **… and group parameters up to the group law** (`Exp(-δ)·Exp(δ)·X = X`, property C03/C01, here a hypothesis on the
shared Lie model): item by item, whatever the batch. -/
theorem reject_restores_group (eps : ℝ) (p : Param ℝ) (g : Grp) (h : p.kind = .grp g) (d : Nat → ℝ)
    (hinv : ∀ (X e : Nat → ℝ) (a : Nat), a < g.gdim → retrItem eps g (retrItem eps g X e) (fun b => -e b) a = X a)
    (t a : Nat) (ha : a < g.gdim) :
    (addParam eps (addParam eps p d) (fun i => -d i)).data (t * g.gdim + a) = p.data (t * g.gdim + a) := by
  have h2 : (addParam eps p d).kind = .grp g := by simp [addParam, h]
  rw [addParam_grp_item eps _ g h2 _ t a ha,
    retrItem_congr2 eps g _ (retrItem eps g (fun c => p.data (t * g.gdim + c)) (fun c => d (t * g.gdim + c))) _
      (fun c => -d (t * g.gdim + c)) (fun b hb => addParam_grp_item eps p g h d t b hb) (fun _ _ => rfl)]
  exact hinv _ _ a ha

/-- **Zero Jacobian columns get a zero step from the minimum-norm solution**: if column `c` of `A = W J'` vanishes (the
unused storage slot of every group item, by C04; a parameter no residual depends on), any `δ` in the range of `Aᵀ` — in
particular the pseudo-inverse solution — has `δ_c = 0`. -/
theorem minnorm_zero_on_zero_columns {m n : ℕ} (M : Matrix (Fin m) (Fin n) ℝ) (w : Fin m → ℝ) (c : Fin n)
    (hc : ∀ r, M r c = 0) : (Mᵀ *ᵥ w) c = 0 := by
  simp [Matrix.mulVec, dotProduct, hc]

/-- … and whatever a solver puts there does not matter: `J δ` does not depend on `δ` at zero columns (and the update
ignores the slot, `update_slot_ignored`) -/
theorem zero_columns_irrelevant {m n : ℕ} (M : Matrix (Fin m) (Fin n) ℝ) (δ δ' : Fin n → ℝ)
    (h : ∀ c, (∀ r, M r c = 0) ∨ δ c = δ' c) : M *ᵥ δ = M *ᵥ δ' := by
  ext r
  simp only [Matrix.mulVec, dotProduct]
  apply Finset.sum_congr rfl
  intro c _
  rcases h c with h0 | he
  · simp [h0 r]
  · rw [he]

/-- the error branch of `RobustModel.residuals`: fewer targets than outputs is an `IndexError` -/
theorem residuals_too_few_targets (outs : List (Nat → ℝ)) (ts : List (Option (Nat → ℝ))) (h : ts.length < outs.length) :
    residualsOf outs (some ts) = none := by
  simp [residualsOf, h]


set_option linter.unusedSimpArgs false in
/-- **A non-toy instance of `gn_step_end_to_end`**: two parameters (the second one frozen — its Jacobian blocks `5` are
dropped), two residual tensors with real weights `2` and `3`, a rank-deficient Jacobian (`J' = [[1,1],[1,1]]`), the system
`A = [[2,2],[3,3]]`, `b = (-4, 3)`.  The pseudo-inverse solution `D = (1/26, 1/26)` meets the full contract (length,
normal equations, range of `Aᵀ`), the step succeeds, and the theorem applies. -/
example : ∀ S, gnSystemOf exPs ((fun _ => exRaw) exPs) [id] exW = some S → ∀ len D, exSolve S = some (len, D) →
    PinvContract S len D := by
  intro S hS len D hD
  obtain ⟨S0, h0, hm, hn, hA, hb0, hb1⟩ := ex_system
  have : S = S0 := by
    have := hS.symm.trans h0
    exact Option.some.inj this
  subst this
  simp only [exSolve, Option.some.injEq, Prod.mk.injEq] at hD
  obtain ⟨rfl, rfl⟩ := hD
  obtain ⟨Sm, Sn, SA, Sb⟩ := S
  simp only at hm hn hA hb0 hb1
  subst hm; subst hn
  refine ⟨rfl, ?_, ⟨fun i => if i = 0 then 1 / 52 else 0, ?_⟩⟩
  · ext i
    fin_cases i <;>
      simp [toMat, toVec, Matrix.mulVec, dotProduct, Fin.sum_univ_two, hA 0 0, hA 0 1, hA 1 0, hA 1 1, hb0, hb1] <;> norm_num
  · ext i
    fin_cases i <;>
      simp [toMat, toVec, Matrix.mulVec, dotProduct, hA 0 0, hA 0 1, hA 1 0, hA 1 1] <;> norm_num

example : ∃ out, gnStep 1 (fun _ => exRaw) [id] exW exSolve exPs = some out := by
  obtain ⟨S0, h0, _⟩ := ex_system
  refine ⟨updateParams 1 exPs (fun _ => 1 / 26) 0, ?_⟩
  simp [gnStep, gnCall, h0, exSolve, stepUpdate, ex_n]


/-- **J's convention is the update's convention.**  The curve `τ ↦ update_parameter(params, τ·e)` is, item by item,
`Exp(τ e_t[:m])·X_t` for group parameters and `x + τ e` otherwise (`update_SO3` … `update_Sim3`, `update_euclid`,
`update_alg`) — the left perturbation by which C04 defines the Jacobian.  Hence: if (C04) the residual functional `F`
has derivative `Jcol` along that left perturbation, it has the same derivative along the step the optimizer applies. -/
theorem jac_column_along_update (F : List (Param ℝ) → ℝ) (eps : ℝ) (ps : List (Param ℝ)) (e : Nat → ℝ) (Jcol : ℝ)
    (hC04 : HasDerivAt (fun τ : ℝ => F (updateParams eps ps (fun i => τ * e i) 0)) Jcol 0) :
    HasDerivAt (fun τ : ℝ => F ((stepUpdate eps ps (trainTotal ps) (fun i => τ * e i)).getD ps)) Jcol 0 := by
  simpa [stepUpdate] using hC04

example : HasDerivAt (fun τ : ℝ => (fun ps : List (Param ℝ) => (ps.getD 0 default).data 0)
    (updateParams 1 [⟨.euclid, 1, true, fun _ => 5⟩] (fun i => τ * (fun _ => 3) i) 0)) 3 0 := by
  have : (fun τ : ℝ => (fun ps : List (Param ℝ) => (ps.getD 0 default).data 0)
      (updateParams 1 [⟨.euclid, 1, true, fun _ => 5⟩] (fun i => τ * (fun _ => 3) i) 0)) = fun τ => 5 + τ * 3 := by
    funext τ; simp [updateParams, addParam]
  rw [this]
  exact (hasDerivAt_mul_const (3 : ℝ)).const_add (5 : ℝ)

/-! ## Pass 5 -/

/-- **The weight is used entry for entry — there is no tolerance.**  One residual of shape `pre ++ suf ++ [d]`
(`d ≥ 2`, at least one item) and two weights of the documented shape `suf ++ [d, d]`: if the two expanded block-diagonal
matrices act in the same way on every vector, then the two weights agree in EVERY entry of every block.  Hence a weight
that differs from the identity (or from any other matrix) by however little gives a different system: an implementation
that replaces a nearly-identity weight by the identity is not the documented step. -/
theorem weight_used_exactly (pre suf : List Nat) (d : Nat) (hd : 1 < d) (hsuf : 0 < prod suf) (hpre : 0 < prod pre)
    (w w' : Nat → ℝ)
    (h : ∀ B B', wblocks (pre ++ suf ++ [d]) (suf ++ [d, d]) w = some B →
      wblocks (pre ++ suf ++ [d]) (suf ++ [d, d]) w' = some B' →
      ∀ (v : Nat → ℝ) (r : Nat), ∑ c ∈ range (prod suf * prod pre * d), blockDiag [B] r c * v c
        = ∑ c ∈ range (prod suf * prod pre * d), blockDiag [B'] r c * v c)
    (s a b : Nat) (hs : s < prod suf) (ha : a < d) (hb : b < d) :
    w ((s * d + a) * d + b) = w' ((s * d + a) * d + b) := by
  have ht : s < prod suf * prod pre := lt_of_lt_of_le hs (Nat.le_mul_of_pos_right _ hpre)
  obtain ⟨B, hB, e⟩ := weight_expand pre suf d hd hsuf w (fun c => if c = s * d + b then 1 else 0) s a ht ha
  obtain ⟨B', hB', e'⟩ := weight_expand pre suf d hd hsuf w' (fun c => if c = s * d + b then 1 else 0) s a ht ha
  obtain ⟨B₀, hB₀, hcnt, hh, hw, -, -⟩ := wblocks_documented_ne1 pre suf d hd hsuf w
  obtain ⟨B₀', hB₀', hcnt', hh', hw', -, -⟩ := wblocks_documented_ne1 pre suf d hd hsuf w'
  have eB : B₀ = B := Option.some.inj (hB₀.symm.trans hB)
  have eB' : B₀' = B' := Option.some.inj (hB₀'.symm.trans hB')
  subst eB eB'
  have c1 : wCols [B₀] = prod suf * prod pre * d := by simp [wCols, total, WBlocks.cols, hcnt, hw]
  have c2 : wCols [B₀'] = prod suf * prod pre * d := by simp [wCols, total, WBlocks.cols, hcnt', hw']
  have key := h B₀ B₀' hB hB' (fun c => if c = s * d + b then 1 else 0) (s * d + a)
  rw [c1] at e; rw [c2] at e'
  rw [e, e'] at key
  have hmod : s % prod suf = s := Nat.mod_eq_of_lt hs
  simp only [hmod] at key
  have pick : ∀ f : Nat → ℝ, ∑ x ∈ range d, f x * (if s * d + x = s * d + b then (1:ℝ) else 0) = f b := by
    intro f
    rw [Finset.sum_eq_single b]
    · simp
    · intro x _ hx
      have hne : ¬ (s * d + x = s * d + b) := by omega
      rw [if_neg hne, mul_zero]
    · intro hnb; exact absurd (mem_range.mpr hb) hnb
  rw [pick, pick] at key
  exact key

/-! ## Pass 7 -/

/-- **…and the same for scalar residual components (`d = 1`)**, where the documented weight has shape `suf ++ [1, 1]`:
two weights whose expansions act identically on every vector agree in every entry. Together with `weight_used_exactly`
this covers every documented weight shape. -/
theorem weight_used_exactly_d1 (pre suf : List Nat) (hsuf : 0 < prod suf) (hpre : 0 < prod pre) (w w' : Nat → ℝ)
    (h : ∀ B B', wblocks (pre ++ suf ++ [1]) (suf ++ [1, 1]) w = some B →
      wblocks (pre ++ suf ++ [1]) (suf ++ [1, 1]) w' = some B' →
      ∀ (v : Nat → ℝ) (r : Nat), ∑ c ∈ range (prod suf * prod pre), blockDiag [B] r c * v c
        = ∑ c ∈ range (prod suf * prod pre), blockDiag [B'] r c * v c)
    (s : Nat) (hs : s < prod suf) : w s = w' s := by
  have ht : s < prod suf * prod pre := lt_of_lt_of_le hs (Nat.le_mul_of_pos_right _ hpre)
  obtain ⟨B, hB, e⟩ := weight_expand_d1 pre suf hsuf w (fun _ => 1) s ht
  obtain ⟨B', hB', e'⟩ := weight_expand_d1 pre suf hsuf w' (fun _ => 1) s ht
  obtain ⟨B₀, hB₀, hcnt, hh, hw, -, -⟩ := wblocks_documented_eq1 pre suf hsuf w
  obtain ⟨B₀', hB₀', hcnt', hh', hw', -, -⟩ := wblocks_documented_eq1 pre suf hsuf w'
  have eB : B₀ = B := Option.some.inj (hB₀.symm.trans hB)
  have eB' : B₀' = B' := Option.some.inj (hB₀'.symm.trans hB')
  subst eB eB'
  have c1 : wCols [B₀] = prod suf * prod pre := by simp [wCols, total, WBlocks.cols, hcnt, hw]
  have c2 : wCols [B₀'] = prod suf * prod pre := by simp [wCols, total, WBlocks.cols, hcnt', hw']
  have key := h B₀ B₀' hB hB' (fun _ => 1) s
  rw [c1] at e; rw [c2] at e'
  rw [e, e', Nat.mod_eq_of_lt hs] at key
  simpa using key

/-- non-vacuity: the hypotheses can be discharged (residual shape `[3, 2, 1]`, weight shape `[2, 1, 1]`; the premise holds
for `w' = w`), and — contrapositive — the weights `(2, 3)` and `(2, 3 + 10⁻⁶)` have expansions that act differently. -/
example (w : Nat → ℝ) : w 1 = w 1 :=
  weight_used_exactly_d1 [3] [2] (by simp [prod]) (by simp [prod]) w w
    (fun B B' h1 h2 v r => by rw [h1] at h2; cases h2; rfl) 1 (by simp [prod])

example : ¬ ∀ B B', wblocks ([3] ++ [2] ++ [1]) ([2] ++ [1, 1]) (fun s => if s = 0 then (2 : ℝ) else 3) = some B →
      wblocks ([3] ++ [2] ++ [1]) ([2] ++ [1, 1]) (fun s => if s = 0 then (2 : ℝ) else 3 + 1 / 1000000) = some B' →
      ∀ (v : Nat → ℝ) (r : Nat), ∑ c ∈ range (prod [2] * prod [3]), blockDiag [B] r c * v c
        = ∑ c ∈ range (prod [2] * prod [3]), blockDiag [B'] r c * v c := by
  intro h
  have := weight_used_exactly_d1 [3] [2] (by simp [prod]) (by simp [prod]) _ _ h 1 (by simp [prod])
  norm_num at this

/-! ## Pass 10 -/

/-- **The weight is used entry for entry — any number of residuals, any square blocks.**  Two families of weight blocks
of the same shapes (per residual: item count, block size, number of distinct blocks): if the two block-diagonal matrices
act identically on every vector, then for every residual `i`, every item `t` and every `a, b` the entries
`W_i[t % nb_i][a, b]` coincide.  (Generalises `weight_used_exactly` / `weight_used_exactly_d1` from one residual with a
documented shape to the whole `block_diag` of a call.) -/
theorem weight_used_exactly_general (bs bs' : List (WBlocks ℝ)) (hsq : ∀ B ∈ bs, B.h = B.w ∧ 0 < B.h)
    (hsq' : ∀ B ∈ bs', B.h = B.w ∧ 0 < B.h) (hlen : bs'.length = bs.length)
    (hf : ∀ j, j < bs.length → (bs'.getD j default).cnt = (bs.getD j default).cnt ∧
      (bs'.getD j default).h = (bs.getD j default).h ∧ (bs'.getD j default).w = (bs.getD j default).w ∧
      (bs'.getD j default).nb = (bs.getD j default).nb)
    (h : ∀ (v : Nat → ℝ) (r : Nat), ∑ c ∈ range (wCols bs), blockDiag bs r c * v c
        = ∑ c ∈ range (wCols bs'), blockDiag bs' r c * v c)
    (i t a b : Nat) (hi : i < bs.length) (ht : t < (bs.getD i default).cnt) (ha : a < (bs.getD i default).h)
    (hb : b < (bs.getD i default).h) :
    (bs.getD i default).blk (t % (bs.getD i default).nb) a b
      = (bs'.getD i default).blk (t % (bs.getD i default).nb) a b := by
  have hr : bs'.map (·.rows) = bs.map (·.rows) := by
    apply List.ext_getElem (by simp [hlen])
    intro j h1 h2
    have hj : j < bs.length := by simpa using h2
    have hj' : j < bs'.length := by simpa using h1
    obtain ⟨e1, e2, -, -⟩ := hf j hj
    rw [getD_eq_getElem' bs j hj, getD_eq_getElem' bs' j hj'] at e1 e2
    simp only [List.getElem_map, WBlocks.rows, e1, e2]
  have hc : bs'.map (·.cols) = bs.map (·.cols) := by
    apply List.ext_getElem (by simp [hlen])
    intro j h1 h2
    have hj : j < bs.length := by simpa using h2
    have hj' : j < bs'.length := by simpa using h1
    obtain ⟨e1, -, e3, -⟩ := hf j hj
    rw [getD_eq_getElem' bs j hj, getD_eq_getElem' bs' j hj'] at e1 e3
    simp only [List.getElem_map, WBlocks.cols, e1, e3]
  obtain ⟨f1, f2, f3, f4⟩ := hf i hi
  set v : Nat → ℝ := fun c => if c = offset (bs.map (·.cols)) i + (t * (bs.getD i default).h + b) then 1 else 0 with hv
  have e := blockDiag_row_dot bs hsq v i t a hi ht ha
  have e' := blockDiag_row_dot bs' hsq' v i t a (by rw [hlen]; exact hi) (by rw [f1]; exact ht) (by rw [f2]; exact ha)
  rw [hr, hc, f2, f4] at e'
  have key := h v (offset (bs.map (·.rows)) i + (t * (bs.getD i default).h + a))
  rw [e, e'] at key
  have pick : ∀ f : Nat → ℝ, ∑ x ∈ range (bs.getD i default).h,
      f x * v (offset (bs.map (·.cols)) i + (t * (bs.getD i default).h + x)) = f b := by
    intro f
    rw [Finset.sum_eq_single b]
    · simp [hv]
    · intro x _ hx
      have hne : ¬ (offset (bs.map (·.cols)) i + (t * (bs.getD i default).h + x)
          = offset (bs.map (·.cols)) i + (t * (bs.getD i default).h + b)) := by omega
      simp only [hv, if_neg hne, mul_zero]
    · intro hnb; exact absurd (mem_range.mpr hb) hnb
  rw [pick, pick] at key
  exact key

/-- non-vacuity: two residuals (two scalar items with their own 1×1 weights; one item with a 2×2 weight).  Replacing the
identity block by one whose off-diagonal entries are `10⁻⁹` changes the action of the block-diagonal weight. -/
example :
    let B1 : WBlocks ℝ := ⟨2, 1, 1, 2, fun t _ _ => if t = 0 then 2 else 3⟩
    let B2 : WBlocks ℝ := ⟨1, 2, 2, 1, fun _ a b => if a = b then 1 else 0⟩
    let B2' : WBlocks ℝ := ⟨1, 2, 2, 1, fun _ a b => if a = b then 1 else 1 / 1000000000⟩
    ¬ ∀ (v : Nat → ℝ) (r : Nat), ∑ c ∈ range (wCols [B1, B2]), blockDiag [B1, B2] r c * v c
        = ∑ c ∈ range (wCols [B1, B2']), blockDiag [B1, B2'] r c * v c := by
  intro B1 B2 B2' h
  have hs : ∀ B ∈ [B1, B2], B.h = B.w ∧ 0 < B.h := by
    intro B hB; simp only [List.mem_cons, List.mem_nil_iff, or_false] at hB
    rcases hB with rfl | rfl <;> simp [B1, B2]
  have hs' : ∀ B ∈ [B1, B2'], B.h = B.w ∧ 0 < B.h := by
    intro B hB; simp only [List.mem_cons, List.mem_nil_iff, or_false] at hB
    rcases hB with rfl | rfl <;> simp [B1, B2']
  have := weight_used_exactly_general [B1, B2] [B1, B2'] hs hs' rfl
    (by intro j hj
        have : j = 0 ∨ j = 1 := by simp at hj; omega
        rcases this with rfl | rfl <;> simp [B2, B2'])
    h 1 0 0 1 (by simp) (by simp [B2]) (by simp [B2]) (by simp [B2])
  simp [B2, B2'] at this

/-- **The GN right-hand side determines the weight.**  Two families of weight blocks of the same shapes whose GN
right-hand sides `b = -(block_diag W) · R` coincide for EVERY stacked residual `R` agree in every entry `W_i[t % nb_i][a, b]`:
the step of the model distinguishes any two different weights (no tolerance, no fast path for "special" weights). -/
theorem gn_rhs_determines_weight (bs bs' : List (WBlocks ℝ)) (hsq : ∀ B ∈ bs, B.h = B.w ∧ 0 < B.h)
    (hsq' : ∀ B ∈ bs', B.h = B.w ∧ 0 < B.h) (hlen : bs'.length = bs.length)
    (hf : ∀ j, j < bs.length → (bs'.getD j default).cnt = (bs.getD j default).cnt ∧
      (bs'.getD j default).h = (bs.getD j default).h ∧ (bs'.getD j default).w = (bs.getD j default).w ∧
      (bs'.getD j default).nb = (bs.getD j default).nb)
    (h : ∀ (R : Vec ℝ) (r : Nat), gnb (wCols bs) (some (blockDiag bs)) R r = gnb (wCols bs') (some (blockDiag bs')) R r)
    (i t a b : Nat) (hi : i < bs.length) (ht : t < (bs.getD i default).cnt) (ha : a < (bs.getD i default).h)
    (hb : b < (bs.getD i default).h) :
    (bs.getD i default).blk (t % (bs.getD i default).nb) a b
      = (bs'.getD i default).blk (t % (bs.getD i default).nb) a b := by
  refine weight_used_exactly_general bs bs' hsq hsq' hlen hf ?_ i t a b hi ht ha hb
  intro v r
  have := h v r
  simp only [gnb, sumN_eq, neg_mul, Finset.sum_neg_distrib, neg_inj] at this
  exact this

/-- **The LM right-hand side determines the weight.**  The same for `b = -(Jᵀ W) R` of the LM system: if it coincides
for every Jacobian `J` and every residual `R`, the two weights agree entry for entry. -/
theorem lm_rhs_determines_weight (bs bs' : List (WBlocks ℝ)) (hsq : ∀ B ∈ bs, B.h = B.w ∧ 0 < B.h)
    (hsq' : ∀ B ∈ bs', B.h = B.w ∧ 0 < B.h) (hlen : bs'.length = bs.length)
    (hf : ∀ j, j < bs.length → (bs'.getD j default).cnt = (bs.getD j default).cnt ∧
      (bs'.getD j default).h = (bs.getD j default).h ∧ (bs'.getD j default).w = (bs.getD j default).w ∧
      (bs'.getD j default).nb = (bs.getD j default).nb)
    (hm : wRows bs = wCols bs) (hm' : wRows bs' = wCols bs') (hmm : wCols bs' = wCols bs)
    (h : ∀ (J : Mat ℝ) (R : Vec ℝ) (i : Nat),
      lmb (wCols bs) (lmJT (wCols bs) (some (blockDiag bs)) J) R i
        = lmb (wCols bs') (lmJT (wCols bs') (some (blockDiag bs')) J) R i)
    (i t a b : Nat) (hi : i < bs.length) (ht : t < (bs.getD i default).cnt) (ha : a < (bs.getD i default).h)
    (hb : b < (bs.getD i default).h) :
    (bs.getD i default).blk (t % (bs.getD i default).nb) a b
      = (bs'.getD i default).blk (t % (bs.getD i default).nb) a b := by
  refine weight_used_exactly_general bs bs' hsq hsq' hlen hf ?_ i t a b hi ht ha hb
  intro v r
  by_cases hr : r < wCols bs
  · have := h (fun r' _ => if r' = r then 1 else 0) v 0
    simp only [lmb, lmJT, sumN_eq, neg_mul, Finset.sum_neg_distrib, neg_inj, hmm] at this
    have pick : ∀ W : Mat ℝ, ∀ s, ∑ x ∈ range (wCols bs), (if x = r then (1:ℝ) else 0) * W x s = W r s := by
      intro W s
      rw [Finset.sum_eq_single r]
      · simp
      · intro x _ hx; simp [hx]
      · intro hnr; exact absurd (mem_range.mpr hr) hnr
    simp only [pick] at this
    rw [hmm]; exact this
  · have hr' : wCols bs ≤ r := Nat.le_of_not_lt hr
    have z1 : ∀ c, blockDiag bs r c = 0 := fun c => blockDiag_zero_of_ge_rows bs r c (by rw [hm]; exact hr')
    have z2 : ∀ c, blockDiag bs' r c = 0 := fun c => blockDiag_zero_of_ge_rows bs' r c (by rw [hm', hmm]; exact hr')
    simp [z1, z2]

/-- non-vacuity: two residuals (two scalar items with their own weights, one item with a 2×2 weight).  A weight whose
off-diagonal entries are `10⁻⁹` instead of `0` gives a different GN right-hand side for some residual, and a different LM
right-hand side for some Jacobian and residual. -/
example :
    let B1 : WBlocks ℝ := ⟨2, 1, 1, 2, fun t _ _ => if t = 0 then 2 else 3⟩
    let B2 : WBlocks ℝ := ⟨1, 2, 2, 1, fun _ a b => if a = b then 1 else 0⟩
    let B2' : WBlocks ℝ := ⟨1, 2, 2, 1, fun _ a b => if a = b then 1 else 1 / 1000000000⟩
    (¬ ∀ (R : Vec ℝ) (r : Nat), gnb (wCols [B1, B2]) (some (blockDiag [B1, B2])) R r
        = gnb (wCols [B1, B2']) (some (blockDiag [B1, B2'])) R r) ∧
    (¬ ∀ (J : Mat ℝ) (R : Vec ℝ) (i : Nat), lmb (wCols [B1, B2]) (lmJT (wCols [B1, B2]) (some (blockDiag [B1, B2])) J) R i
        = lmb (wCols [B1, B2']) (lmJT (wCols [B1, B2']) (some (blockDiag [B1, B2'])) J) R i) := by
  intro B1 B2 B2'
  have hs : ∀ B ∈ [B1, B2], B.h = B.w ∧ 0 < B.h := by
    intro B hB; simp only [List.mem_cons, List.mem_nil_iff, or_false] at hB
    rcases hB with rfl | rfl <;> simp [B1, B2]
  have hs' : ∀ B ∈ [B1, B2'], B.h = B.w ∧ 0 < B.h := by
    intro B hB; simp only [List.mem_cons, List.mem_nil_iff, or_false] at hB
    rcases hB with rfl | rfl <;> simp [B1, B2']
  have hfld : ∀ j, j < [B1, B2].length → ([B1, B2'].getD j default).cnt = ([B1, B2].getD j default).cnt ∧
      ([B1, B2'].getD j default).h = ([B1, B2].getD j default).h ∧ ([B1, B2'].getD j default).w = ([B1, B2].getD j default).w ∧
      ([B1, B2'].getD j default).nb = ([B1, B2].getD j default).nb := by
    intro j hj
    have : j = 0 ∨ j = 1 := by simp at hj; omega
    rcases this with rfl | rfl <;> simp [B2, B2']
  constructor
  · intro h
    have := gn_rhs_determines_weight [B1, B2] [B1, B2'] hs hs' rfl hfld h 1 0 0 1
      (by simp) (by simp [B2]) (by simp [B2]) (by simp [B2])
    simp [B2, B2'] at this
  · intro h
    have := lm_rhs_determines_weight [B1, B2] [B1, B2'] hs hs' rfl hfld
      (by simp [wRows, wCols, total, WBlocks.rows, WBlocks.cols, B1, B2])
      (by simp [wRows, wCols, total, WBlocks.rows, WBlocks.cols, B1, B2'])
      (by simp [wCols, total, WBlocks.cols, B1, B2, B2']) h 1 0 0 1
      (by simp) (by simp [B2]) (by simp [B2]) (by simp [B2])
    simp [B2, B2'] at this

/-! ## Pass 11 -/

/-- **Strict minimum norm.**  Every least-squares step other than the one in the range of `(W J)ᵀ` is strictly longer.  In
particular, for a rank-deficient square `W J` an "exact" solution produced by an LU factorisation (any solution of
`W J δ' = -W R` that is not the pseudo-inverse one) is NOT the step of the default solver. -/
theorem gn_minnorm_strict (m n : Nat) (W : Option (Nat → Nat → ℝ)) (J : Nat → Nat → ℝ) (R : Nat → ℝ) (δ : Fin n → ℝ)
    (w : Fin m → ℝ)
    (h : (toMat m n (gnA m W J))ᵀ *ᵥ (toMat m n (gnA m W J) *ᵥ δ - toVec m (gnb m W R)) = 0)
    (hrange : δ = (toMat m n (gnA m W J))ᵀ *ᵥ w) (δ' : Fin n → ℝ)
    (h' : (toMat m n (gnA m W J))ᵀ *ᵥ (toMat m n (gnA m W J) *ᵥ δ' - toVec m (gnb m W R)) = 0) (hne : δ' ≠ δ) :
    nrm2 δ < nrm2 δ' := by
  obtain ⟨hle, huniq⟩ := gn_minnorm m n W J R δ w h hrange δ' h'
  exact lt_of_le_of_ne hle (fun e => hne (huniq e.symm))

/-- non-vacuity: one residual row, two unknowns, `J = (1 1)`, `R = -2`: the pseudo-inverse step is `(1, 1) = Jᵀ·1`; the exact
solution `(2, 0)` of `J δ = -R` is a different least-squares step and strictly longer. -/
example : nrm2 (![1, 1] : Fin 2 → ℝ) < nrm2 (![2, 0] : Fin 2 → ℝ) := by
  refine gn_minnorm_strict 1 2 none (fun _ _ => 1) (fun _ => -2) ![1, 1] (fun _ => 1) ?_ ?_ ![2, 0] ?_ ?_
  · ext i; fin_cases i <;> simp [toMat, toVec, gnA, gnb, Matrix.mulVec, dotProduct, Fin.sum_univ_two] <;> norm_num
  · ext i; fin_cases i <;> simp [toMat, gnA, Matrix.mulVec, dotProduct]
  · ext i; fin_cases i <;> simp [toMat, toVec, gnA, gnb, Matrix.mulVec, dotProduct, Fin.sum_univ_two]
  · intro e; have := congrFun e 1; simp at this

end PP.GNStep
