import Proofs.Lemmas.LieExp
import Proofs.Lemmas.LieExpBounds
import Proofs.Lemmas.Sim3Bounds
import Proofs.Lemmas.ExpBatch
import Proofs.Lemmas.Sim3Blocks
import Proofs.Lemmas.RoundedExp
import Proofs.Lemmas.ExpGlueReal
import Proofs.Lemmas.Blocks4
/-!
# C01 — `Exp` is the matrix exponential on so3, se3, rxso3 and sim3

All statements are about the model of `pypose/lietensor/operation.py` (`lean/Pose/Model/Lie.lean`) at
`α = ℝ`; `exp` is Mathlib's `NormedSpace.exp` on `Matrix (Fin n) (Fin n) ℝ`; `eps` is the dtype's machine
epsilon used by the code's small-angle tests (a parameter: one theorem covers float32 and float64).

The matrix of a group element is the model of `LieTensor.matrix()` (columns = images of the basis vectors
under `Act`/`Act4`), converted to a Mathlib matrix by `Mat3.toMatrix` / `DMat.toMatrix4`.

"Exact regimes": the closed-form branches (`eps < θ`, `eps < |σ|`) and the exact zeros (`θ = 0`, `σ = 0`).
In the thin Taylor bands `0 < θ ≤ eps`, `0 < |σ| ≤ eps` the code uses truncated series; there the theorems
are explicit error bounds (`*_taylor`).  IEEE rounding is outside the theorems (correspondence check).
-/
open Matrix NormedSpace

namespace PP
open Vec3 Quat Mat3
noncomputable section

/-! ## 1. Rodrigues' formula from the power series -/

/-- For a real square matrix `K` with `K^(2k+1) = (-θ²)^k K`, `K^(2k+2) = (-θ²)^k K²`, `θ ≠ 0`:
`exp K = 1 + (sin θ/θ) K + ((1 - cos θ)/θ²) K²`. -/
theorem exp_eq_rodrigues {n : Type} [Fintype n] [DecidableEq n] (K : Matrix n n ℝ) (th : ℝ) (hth : th ≠ 0)
    (hodd : ∀ k : ℕ, K ^ (2*k+1) = ((-(th*th))^k) • K)
    (_heven : ∀ k : ℕ, K ^ (2*k+2) = ((-(th*th))^k) • (K ^ 2)) :
    NormedSpace.exp K = 1 + (Real.sin th / th) • K + ((1 - Real.cos th) / (th*th)) • (K ^ 2) := by
  have h3 : K ^ 3 = (-(th*th)) • K := by simpa using hodd 1
  exact MatExp.exp_eq_rod K th hth h3

/-- generalised Rodrigues formula (`A⁴ = -θ² A²`), used for the 4×4 generator of se3:
`exp A = 1 + A + ((1 - cos θ)/θ²) A² + ((θ - sin θ)/θ³) A³`. -/
theorem exp_eq_rodrigues2 {n : Type} [Fintype n] [DecidableEq n] (A : Matrix n n ℝ) (th : ℝ) (hth : th ≠ 0)
    (h4 : A ^ 4 = (-(th*th)) • A ^ 2) :
    NormedSpace.exp A =
      1 + A + ((1 - Real.cos th) / (th*th)) • (A ^ 2) + ((th - Real.sin th) / (th*th*th)) • (A ^ 3) :=
  MatExp.exp_eq_rod2 A th hth h4

/-- the hypotheses of `exp_eq_rodrigues` hold for `K = x^`, `θ = ‖x‖` -/
theorem hat_pow_odd (x : Vec3 ℝ) (k : ℕ) : hatM x ^ (2*k+1) = ((-(x.norm * x.norm))^k) • hatM x := by
  induction k with
  | zero => simp
  | succ k ih =>
    have e : 2*(k+1)+1 = (2*k+1) + 2 := by ring
    have h32 : hatM x * hatM x ^ 2 = hatM x ^ 3 := by rw [pow_succ' (hatM x) 2]
    rw [e, pow_add, ih, smul_mul_assoc, h32, hatM_cube x, smul_smul, pow_succ]

theorem hat_pow_even (x : Vec3 ℝ) (k : ℕ) : hatM x ^ (2*k+2) = ((-(x.norm * x.norm))^k) • (hatM x ^ 2) := by
  have e : 2*k+2 = (2*k+1) + 1 := by ring
  rw [e, pow_succ, hat_pow_odd, smul_mul_assoc, pow_two]

/-- the generator matrix used in the theorems is the model's `vec2skew` -/
theorem hatM_is_model_hat (x : Vec3 ℝ) : (Mat3.hat x).toMatrix = hatM x := hat_toMatrix x

/-! ## 2. so3 -/

/-- **so3**: the 3×3 matrix of `Exp x` is the matrix exponential of `x^` — on the closed-form branch
(`eps < ‖x‖`) and at `x = 0`. -/
theorem so3Exp_matrix (eps : ℝ) (x : Vec3 ℝ) (h0 : 0 ≤ eps) (h : eps < x.norm ∨ x.norm = 0) :
    (SO3matrix (so3Exp eps x)).toMatrix = NormedSpace.exp (hatM x) :=
  so3Exp_matrix' eps x h0 h

/-- the quaternion returned on the closed-form branch is exactly unit -/
theorem so3Exp_unit (eps : ℝ) (x : Vec3 ℝ) (h0 : 0 ≤ eps) (h : eps < x.norm) : (so3Exp eps x).normSq = 1 :=
  so3Exp_normSq_closed eps x h0 h

/-- Taylor branch: `‖q‖² − 1 = t³/23040 − t⁴/245760 + t⁵/14745600`, `t = ‖x‖²` (exactly) -/
theorem so3Exp_unit_taylor (eps : ℝ) (x : Vec3 ℝ) (h : ¬ eps < x.norm) :
    (so3Exp eps x).normSq - 1 = x.normSq ^ 3 / 23040 - x.normSq ^ 4 / 245760 + x.normSq ^ 5 / 14745600 :=
  so3Exp_normSq_taylor eps x h

/-- every input, both branches: `|‖q‖² − 1| ≤ eps⁶` -/
theorem so3Exp_unit_all (eps : ℝ) (x : Vec3 ℝ) (h0 : 0 ≤ eps) (h1 : eps ≤ 1) :
    |(so3Exp eps x).normSq - 1| ≤ eps ^ 6 :=
  so3Exp_normSq_near eps x h0 h1

/-- Taylor branch (`‖x‖ ≤ eps ≤ 1`): every entry of the matrix of `Exp x` is within `‖x‖⁴/8 ≤ eps⁴/8` of
`exp (x^)` — far inside the property's `k·eps`. -/
theorem so3Exp_matrix_taylor (eps : ℝ) (x : Vec3 ℝ) (h : ¬ eps < x.norm) (h1 : eps ≤ 1) (i j : Fin 3) :
    |(SO3matrix (so3Exp eps x)).toMatrix i j - NormedSpace.exp (hatM x) i j| ≤ x.norm ^ 4 / 8 :=
  so3Exp_matrix_taylor_bound eps x h h1 i j

/-- every input, both branches: each entry of the 3×3 matrix of `Exp x` is within `eps⁴/8` of `exp (x^)` -/
theorem so3Exp_matrix_all (eps : ℝ) (x : Vec3 ℝ) (h0 : 0 ≤ eps) (h1 : eps ≤ 1) (i j : Fin 3) :
    |(SO3matrix (so3Exp eps x)).toMatrix i j - NormedSpace.exp (hatM x) i j| ≤ eps ^ 4 / 8 := by
  by_cases h : eps < x.norm
  · rw [so3Exp_matrix' eps x h0 (Or.inl h), sub_self, abs_zero]; positivity
  · refine le_trans (so3Exp_matrix_taylor_bound eps x h h1 i j) ?_
    have hn := Vec3.norm_nonneg x
    have : x.norm ^ 4 ≤ eps ^ 4 := pow_le_pow_left₀ hn (not_lt.mp h) 4
    linarith

/-! ## 3. se3 -/

/-- **se3**: `matrix(Exp ξ) = exp (ξ^)`, `ξ^ = [[φ^, τ],[0,0]]` — closed-form branch and `φ = 0`. -/
theorem se3Exp_matrix (eps : ℝ) (x : se3 ℝ) (h0 : 0 ≤ eps) (h : eps < x.phi.norm ∨ x.phi.norm = 0) :
    (SE3matrix (se3Exp eps x)).toMatrix4 = NormedSpace.exp (se3Gen x) :=
  se3Exp_matrix' eps x h0 h

/-- block form: `exp [[K, τ],[0,0]] = [[exp K, V τ],[0,1]]`, `V = 1 + ((1-cos θ)/θ²) K + ((θ-sin θ)/θ³) K²`
(the shifted series `Σ Kⁿ/(n+1)!`), `θ = ‖x‖ ≠ 0`. -/
theorem se3_exp_block (x : Vec3 ℝ) (tau : Fin 3 → ℝ) (hne : x.norm ≠ 0) :
    NormedSpace.exp (blk4 (hatM x) tau 0) =
      blk4 (NormedSpace.exp (hatM x))
        (((1 : Matrix (Fin 3) (Fin 3) ℝ) + ((1 - Real.cos x.norm) / (x.norm * x.norm)) • hatM x
          + ((x.norm - Real.sin x.norm) / (x.norm * x.norm * x.norm)) • (hatM x ^ 2)).mulVec tau) 1 :=
  exp_blk4_hat x tau hne

/-- Taylor branch of `so3_Jl` (`0 < θ ≤ eps ≤ 1`): entries of the coupling matrix within `θ³/8` of the exact
`V = 1 + ((1-cos θ)/θ²) K + ((θ-sin θ)/θ³) K²`. -/
theorem so3Jl_taylor (eps : ℝ) (x : Vec3 ℝ) (h : ¬ eps < x.norm) (h1 : eps ≤ 1) (hpos : 0 < x.norm) (i j : Fin 3) :
    |(so3Jl eps x).toMatrix i j -
      ((1 : Matrix (Fin 3) (Fin 3) ℝ) + ((1 - Real.cos x.norm) / (x.norm * x.norm)) • hatM x
          + ((x.norm - Real.sin x.norm) / (x.norm * x.norm * x.norm)) • (hatM x ^ 2)) i j| ≤ x.norm ^ 3 / 8 :=
  so3Jl_taylor_bound eps x h h1 hpos i j

/-- Taylor branch of `se3Exp` (`0 < ‖φ‖ ≤ eps ≤ 1`): every entry of the 4×4 matrix is within
`(θ³/8)(1 + |τ₀| + |τ₁| + |τ₂|)` of `exp (ξ^)`. -/
theorem se3Exp_matrix_taylor (eps : ℝ) (x : se3 ℝ) (h : ¬ eps < x.phi.norm) (h1 : eps ≤ 1) (hpos : 0 < x.phi.norm)
    (i j : Fin 4) :
    |(SE3matrix (se3Exp eps x)).toMatrix4 i j - NormedSpace.exp (se3Gen x) i j|
      ≤ x.phi.norm ^ 3 / 8 * (1 + |x.tau.x| + |x.tau.y| + |x.tau.z|) :=
  se3Exp_matrix_taylor_bound eps x h h1 hpos i j

/-- **se3, every input** (`0 ≤ eps ≤ 1`): each entry of `matrix(Exp ξ)` is within `(eps³/8)(1 + ‖τ‖₁)` of `exp (ξ^)`. -/
theorem se3Exp_matrix_all (eps : ℝ) (x : se3 ℝ) (h0 : 0 ≤ eps) (h1 : eps ≤ 1) (i j : Fin 4) :
    |(SE3matrix (se3Exp eps x)).toMatrix4 i j - NormedSpace.exp (se3Gen x) i j|
      ≤ eps ^ 3 / 8 * (1 + |x.tau.x| + |x.tau.y| + |x.tau.z|) := by
  have hs : 0 ≤ 1 + |x.tau.x| + |x.tau.y| + |x.tau.z| := by positivity
  by_cases h : eps < x.phi.norm
  · rw [se3Exp_matrix' eps x h0 (Or.inl h), sub_self, abs_zero]; positivity
  · rcases (Vec3.norm_nonneg x.phi).eq_or_lt with hz | hpos
    · rw [se3Exp_matrix' eps x h0 (Or.inr hz.symm), sub_self, abs_zero]; positivity
    · refine le_trans (se3Exp_matrix_taylor_bound eps x h h1 hpos i j) ?_
      have : x.phi.norm ^ 3 ≤ eps ^ 3 := pow_le_pow_left₀ (le_of_lt hpos) (not_lt.mp h) 3
      have := mul_le_mul_of_nonneg_right this hs
      linarith

/-- the rotation part of `se3Exp` is `so3Exp φ` (so the unit-norm theorems apply) -/
theorem se3Exp_rotation (eps : ℝ) (x : se3 ℝ) : (se3Exp eps x).q = so3Exp eps x.phi := rfl

/-! ## 4. rxso3 -/

/-- 3×3 scaled rotation: `e^σ R(Exp φ) = exp (σ·1 + φ^)` -/
theorem rxso3Exp_matrix3 (eps : ℝ) (x : rxso3 ℝ) (h0 : 0 ≤ eps) (h : eps < x.phi.norm ∨ x.phi.norm = 0) :
    (rxso3Exp eps x).s • (SO3matrix (rxso3Exp eps x).q).toMatrix
      = NormedSpace.exp (x.sigma • (1 : Matrix (Fin 3) (Fin 3) ℝ) + hatM x.phi) := by
  show Real.exp x.sigma • (SO3matrix (so3Exp eps x.phi)).toMatrix = _
  rw [so3Exp_matrix' eps x.phi h0 h, exp_scal_add_hat]

/-- **rxso3**: the 4×4 `matrix(Exp x)` is `exp` of the generator `[[σ·1 + φ^, 0],[0,0]]`. -/
theorem rxso3Exp_matrix (eps : ℝ) (x : rxso3 ℝ) (h0 : 0 ≤ eps) (h : eps < x.phi.norm ∨ x.phi.norm = 0) :
    (RxSO3matrix (rxso3Exp eps x)).toMatrix4 = NormedSpace.exp (rxso3Gen x) := by
  rw [rxso3Gen_blk, exp_blk4_scal_hat, RxSO3matrix_blk, rxso3Exp_matrix3 eps x h0 h]

/-- **rxso3, every input**: each entry of the 4×4 `matrix(Exp x)` is within `e^σ eps⁴/8` of `exp` of the generator. -/
theorem rxso3Exp_matrix_all (eps : ℝ) (x : rxso3 ℝ) (h0 : 0 ≤ eps) (h1 : eps ≤ 1) (i j : Fin 4) :
    |(RxSO3matrix (rxso3Exp eps x)).toMatrix4 i j - NormedSpace.exp (rxso3Gen x) i j|
      ≤ Real.exp x.sigma * (eps ^ 4 / 8) := by
  have he := Real.exp_pos x.sigma
  have hB : 0 ≤ Real.exp x.sigma * (eps ^ 4 / 8) := by positivity
  rw [rxso3Gen_blk, exp_blk4_scal_hat, exp_scal_add_hat, RxSO3matrix_blk]
  refine blk4_entry_bound _ _ _ _ _ ?_ (fun a => by simp; exact hB) hB i j
  intro a b
  show |(Real.exp x.sigma • (SO3matrix (so3Exp eps x.phi)).toMatrix) a b - _| ≤ _
  rw [smul_entry_diff, abs_of_pos he]
  exact mul_le_mul_of_nonneg_left (so3Exp_matrix_all eps x.phi h0 h1 a b) he.le

theorem rxso3Exp_rotation (eps : ℝ) (x : rxso3 ℝ) : (rxso3Exp eps x).q = so3Exp eps x.phi := rfl
theorem rxso3Exp_scale_pos (eps : ℝ) (x : rxso3 ℝ) : 0 < (rxso3Exp eps x).s := Real.exp_pos _

/-! ## 5. sim3 -/

/-- `Ws_mul_generator` (regime 4, both closed forms): `W·(σ·1 + K) = e^σ R − 1 = exp(σ·1 + K) − 1`. -/
theorem Ws_mul_generator (eps : ℝ) (x : rxso3 ℝ) (h0 : 0 ≤ eps) (ht : eps < x.phi.norm) (hs : eps < |x.sigma|) :
    (rxso3Ws eps x).toMatrix * (x.sigma • (1 : Matrix (Fin 3) (Fin 3) ℝ) + hatM x.phi)
      = NormedSpace.exp (x.sigma • (1 : Matrix (Fin 3) (Fin 3) ℝ) + hatM x.phi) - 1 :=
  Ws_mul_gen_regime4 eps x h0 ht hs

/-- `σ·1 + K` is invertible for `σ ≠ 0` (`det = σ(σ² + θ²)`), hence `W = (exp M − 1) M⁻¹` is determined by
`Ws_mul_generator`. -/
theorem Ws_eq_expm1_mul_inv (eps : ℝ) (x : rxso3 ℝ) (h0 : 0 ≤ eps) (ht : eps < x.phi.norm) (hs : eps < |x.sigma|) :
    (rxso3Ws eps x).toMatrix
      = (NormedSpace.exp (x.sigma • (1 : Matrix (Fin 3) (Fin 3) ℝ) + hatM x.phi) - 1)
        * (x.sigma • (1 : Matrix (Fin 3) (Fin 3) ℝ) + hatM x.phi)⁻¹ := by
  have hsne : x.sigma ≠ 0 := by intro h; rw [h, abs_zero] at hs; linarith
  have hdet : IsUnit (x.sigma • (1 : Matrix (Fin 3) (Fin 3) ℝ) + hatM x.phi).det := by
    rw [det_scal_add_hat, isUnit_iff_ne_zero]
    have h1 : 0 < x.sigma * x.sigma := mul_self_pos.mpr hsne
    have h2 := Vec3.normSq_nonneg x.phi
    exact mul_ne_zero hsne (ne_of_gt (by linarith))
  rw [← Ws_mul_gen_regime4 eps x h0 ht hs, Matrix.mul_assoc, Matrix.mul_nonsing_inv _ hdet, Matrix.mul_one]

/-- **sim3** (stretch goal of the design, proved): `matrix(Exp ξ) = exp (ξ^)`, `ξ^ = [[σ·1 + φ^, τ],[0,0]]`,
in all four exact regime combinations (`eps < θ` or `θ = 0`) × (`eps < |σ|` or `σ = 0`). -/
theorem sim3Exp_matrix (eps : ℝ) (x : sim3 ℝ) (h0 : 0 ≤ eps)
    (ht : eps < x.phi.norm ∨ x.phi.norm = 0) (hs : eps < |x.sigma| ∨ x.sigma = 0) :
    (Sim3matrix (sim3Exp eps x)).toMatrix4 = NormedSpace.exp (sim3Gen x) :=
  sim3Exp_matrix' eps x h0 ht hs

/-- exact block form of `exp (ξ^)` for every `θ ≠ 0`, `σ ≠ 0` (no reference to the code's regimes):
`exp [[σ·1 + K, τ],[0,0]] = [[e^σ exp K, W τ],[0,1]]`, `W = C·1 + A K + B K²` with the regime-4 closed forms. -/
theorem sim3_exp_block_form (x : sim3 ℝ) (ht : x.phi.norm ≠ 0) (hs : x.sigma ≠ 0) :
    NormedSpace.exp (sim3Gen x)
      = blk4 (Real.exp x.sigma • NormedSpace.exp (hatM x.phi)) ((W4mat x.phi x.sigma).mulVec x.tau.toFun) 1 :=
  sim3_exp_block x ht hs

/-- the coefficients of `W` are the integrals `θA = ∫₀¹ e^{uσ} sin(uθ) du`, `θ²B = ∫₀¹ e^{uσ}(1 − cos(uθ)) du`,
`C = ∫₀¹ e^{uσ} du`, i.e. `W = ∫₀¹ exp(u(σ·1 + K)) du` -/
theorem Ws_coefficients_as_integrals (t s : ℝ) (ht : t ≠ 0) (hs : s ≠ 0) :
    t * WsA4 t s = (∫ u in (0:ℝ)..1, Real.exp (u * s) * Real.sin (u * t)) ∧
    t * t * WsB4 t s = (∫ u in (0:ℝ)..1, Real.exp (u * s)) - (∫ u in (0:ℝ)..1, Real.exp (u * s) * Real.cos (u * t)) ∧
    WsC s = ∫ u in (0:ℝ)..1, Real.exp (u * s) :=
  ⟨WsInt.mul_WsA4 t s ht, WsInt.sq_mul_WsB4 t s ht hs, WsInt.WsC_eq_integral s hs⟩

/-- regime 2 of `rxso3_Ws` (`0 < |σ| ≤ eps < θ`): the code uses the `σ = 0` coefficients; every entry of the matrix
is within `4(e^{|σ|} − 1)‖τ‖₁ ≤ 8 eps ‖τ‖₁` of `exp (ξ^)` (rotation and scale blocks exact). -/
theorem sim3Exp_matrix_regime2 (eps : ℝ) (x : sim3 ℝ) (h0 : 0 ≤ eps) (ht : eps < x.phi.norm) (hs : ¬ eps < |x.sigma|)
    (hs0 : x.sigma ≠ 0) (i j : Fin 4) :
    |(Sim3matrix (sim3Exp eps x)).toMatrix4 i j - NormedSpace.exp (sim3Gen x) i j|
      ≤ 4 * (Real.exp |x.sigma| - 1) * (|x.tau.x| + |x.tau.y| + |x.tau.z|) :=
  sim3Exp_regime2_bound eps x h0 ht hs hs0 i j

/-- regime 3 (`0 < θ ≤ eps ≤ 1`, `eps < |σ|`): the code uses the `θ → 0` limits of `A`, `B`. -/
theorem sim3Exp_matrix_regime3 (eps : ℝ) (x : sim3 ℝ) (h1 : eps ≤ 1) (ht : ¬ eps < x.phi.norm) (hpos : 0 < x.phi.norm)
    (hs : eps < |x.sigma|) (hs0 : x.sigma ≠ 0) (i j : Fin 4) :
    |(Sim3matrix (sim3Exp eps x)).toMatrix4 i j - NormedSpace.exp (sim3Gen x) i j|
      ≤ Real.exp x.sigma * (x.phi.norm ^ 4 / 8)
        + Real.exp |x.sigma| * (x.phi.norm ^ 3 / 3) * (|x.tau.x| + |x.tau.y| + |x.tau.z|) :=
  sim3Exp_regime3_bound eps x h1 ht hpos hs hs0 i j

/-- regime 1 (`0 < θ ≤ eps`, `0 < |σ| ≤ eps ≤ 1`): constants `A = 1/2`, `B = 1/6`, `C = 1`. -/
theorem sim3Exp_matrix_regime1 (eps : ℝ) (x : sim3 ℝ) (h1 : eps ≤ 1) (ht : ¬ eps < x.phi.norm) (hpos : 0 < x.phi.norm)
    (hs : ¬ eps < |x.sigma|) (hs0 : x.sigma ≠ 0) (i j : Fin 4) :
    |(Sim3matrix (sim3Exp eps x)).toMatrix4 i j - NormedSpace.exp (sim3Gen x) i j|
      ≤ Real.exp x.sigma * (x.phi.norm ^ 4 / 8)
        + (4 * (Real.exp |x.sigma| - 1) + x.phi.norm ^ 3 / 16) * (|x.tau.x| + |x.tau.y| + |x.tau.z|) :=
  sim3Exp_regime1_bound eps x h1 ht hpos hs hs0 i j

/-- sim3, every input (`0 ≤ eps ≤ 1`, all seven regime combinations), ONE number for all entries: each entry of `matrix(Exp ξ)`
is within `9·eps·e^{|σ|}·(1 + ‖τ‖₁)` of `exp (ξ^)`.  This single bound says little about the rotation/scale block when `σ < 0`
(that block has size `e^σ`); the statement in the property's own terms is the block-wise `sim3Exp_blocks_all` below, on which
the rounded-arithmetic and public-path theorems are built. -/
theorem sim3Exp_matrix_all (eps : ℝ) (x : sim3 ℝ) (h0 : 0 ≤ eps) (h1 : eps ≤ 1) (i j : Fin 4) :
    |(Sim3matrix (sim3Exp eps x)).toMatrix4 i j - NormedSpace.exp (sim3Gen x) i j|
      ≤ 9 * eps * Real.exp |x.sigma| * (1 + (|x.tau.x| + |x.tau.y| + |x.tau.z|)) := by
  set T := |x.tau.x| + |x.tau.y| + |x.tau.z| with hT
  have hT0 : 0 ≤ T := by positivity
  have hE1 : 1 ≤ Real.exp |x.sigma| := Real.one_le_exp (abs_nonneg _)
  have hEle : Real.exp x.sigma ≤ Real.exp |x.sigma| := Real.exp_le_exp.mpr (le_abs_self _)
  have hEpos := Real.exp_pos x.sigma
  have hB : 0 ≤ 9 * eps * Real.exp |x.sigma| * (1 + T) := by positivity
  have hexact : ∀ (ht : eps < x.phi.norm ∨ x.phi.norm = 0) (hs : eps < |x.sigma| ∨ x.sigma = 0),
      |(Sim3matrix (sim3Exp eps x)).toMatrix4 i j - NormedSpace.exp (sim3Gen x) i j|
        ≤ 9 * eps * Real.exp |x.sigma| * (1 + T) := by
    intro ht hs
    rw [sim3Exp_matrix' eps x h0 ht hs, sub_self, abs_zero]; exact hB
  -- `e^{|σ|} − 1 ≤ 2|σ| ≤ 2 eps` in the small-σ regimes
  have hsmall : ¬ eps < |x.sigma| → Real.exp |x.sigma| - 1 ≤ 2 * eps := by
    intro hs
    have hle : |x.sigma| ≤ eps := not_lt.mp hs
    have h := Real.abs_exp_sub_one_le (x := |x.sigma|) (by rw [abs_abs]; linarith)
    rw [abs_abs] at h
    have := le_abs_self (Real.exp |x.sigma| - 1)
    linarith
  have hth : ¬ eps < x.phi.norm → x.phi.norm ^ 3 ≤ eps ∧ x.phi.norm ^ 4 ≤ eps := by
    intro ht
    have hle : x.phi.norm ≤ eps := not_lt.mp ht
    have hn := Vec3.norm_nonneg x.phi
    have h1' : x.phi.norm ≤ 1 := le_trans hle h1
    have h2 : x.phi.norm ^ 2 ≤ 1 := by nlinarith
    constructor <;> nlinarith [mul_nonneg hn hn, mul_nonneg (mul_nonneg hn hn) hn]
  by_cases ht : eps < x.phi.norm <;> by_cases hs : eps < |x.sigma|
  · exact hexact (Or.inl ht) (Or.inl hs)
  · by_cases hs0 : x.sigma = 0
    · exact hexact (Or.inl ht) (Or.inr hs0)
    · refine le_trans (sim3Exp_regime2_bound eps x h0 ht hs hs0 i j) ?_
      have := hsmall hs
      nlinarith [mul_nonneg h0 hT0, mul_nonneg (mul_nonneg h0 hT0) (sub_nonneg.mpr hE1)]
  · have hs0 : x.sigma ≠ 0 := by intro h; rw [h, abs_zero] at hs; linarith
    rcases (Vec3.norm_nonneg x.phi).eq_or_lt with hz | hpos
    · exact hexact (Or.inr hz.symm) (Or.inl hs)
    · refine le_trans (sim3Exp_regime3_bound eps x h1 ht hpos hs hs0 i j) ?_
      obtain ⟨h3, h4⟩ := hth ht
      have hE0 := Real.exp_pos |x.sigma|
      have a1 : Real.exp x.sigma * (x.phi.norm ^ 4 / 8) ≤ Real.exp |x.sigma| * (eps / 8) := by
        apply mul_le_mul hEle (by linarith) (by positivity) hE0.le
      have a2 : Real.exp |x.sigma| * (x.phi.norm ^ 3 / 3) * T ≤ Real.exp |x.sigma| * (eps / 3) * T := by
        apply mul_le_mul_of_nonneg_right _ hT0
        apply mul_le_mul_of_nonneg_left (by linarith) hE0.le
      nlinarith [mul_nonneg (mul_nonneg h0 hE0.le) hT0, mul_nonneg h0 hE0.le]
  · rcases (Vec3.norm_nonneg x.phi).eq_or_lt with hz | hpos
    · by_cases hs0 : x.sigma = 0
      · exact hexact (Or.inr hz.symm) (Or.inr hs0)
      · refine le_trans (sim3Exp_regime1_zero_phi_bound eps x h0 hz.symm hs hs0 i j) ?_
        have := hsmall hs
        nlinarith [mul_nonneg h0 hT0, mul_nonneg (mul_nonneg h0 hT0) (sub_nonneg.mpr hE1)]
    · obtain ⟨h3, h4⟩ := hth ht
      have hE0 := Real.exp_pos |x.sigma|
      by_cases hs0 : x.sigma = 0
      · refine le_trans (sim3Exp_regime1_zero_sigma_bound eps x h0 h1 ht hpos hs0 i j) ?_
        have a2 : x.phi.norm ^ 3 / 16 * T ≤ eps / 16 * T := mul_le_mul_of_nonneg_right (by linarith) hT0
        nlinarith [mul_nonneg (mul_nonneg h0 (sub_nonneg.mpr hE1)) hT0, mul_nonneg h0 (sub_nonneg.mpr hE1),
          mul_nonneg h0 hT0]
      · refine le_trans (sim3Exp_regime1_bound eps x h1 ht hpos hs hs0 i j) ?_
        have hsm := hsmall hs
        have a1 : Real.exp x.sigma * (x.phi.norm ^ 4 / 8) ≤ Real.exp |x.sigma| * (eps / 8) := by
          apply mul_le_mul hEle (by linarith) (by positivity) hE0.le
        have a2 : (4 * (Real.exp |x.sigma| - 1) + x.phi.norm ^ 3 / 16) * T ≤ (8 * eps + eps / 16) * T :=
          mul_le_mul_of_nonneg_right (by linarith) hT0
        nlinarith [mul_nonneg (mul_nonneg h0 (sub_nonneg.mpr hE1)) hT0, mul_nonneg h0 (sub_nonneg.mpr hE1),
          mul_nonneg h0 hT0, mul_nonneg h0 hE0.le]

theorem sim3Exp_rotation (eps : ℝ) (x : sim3 ℝ) : (sim3Exp eps x).q = so3Exp eps x.phi := rfl
theorem sim3Exp_scale (eps : ℝ) (x : sim3 ℝ) : (sim3Exp eps x).s = Real.exp x.sigma := rfl


/-! ## 5b. Batches, mixed regimes, re-reads (the code's masks are per item)

`so3ExpBatch` / `wsCoefBatch` (`lean/Pose/Model/ExpBatch.lean`, executed by the driver ops `c01.so3scatter` / `c01.wsscatter`) follow
the code's batch-level data flow: zero-initialised outputs, masks computed from the whole batch, every regime's expression
evaluated ONLY on its masked sub-batch (`maskTake`) and written by masked assignment (`indexPut`), in the code's order;
regime 4 of `rxso3_Ws` reads `C[condition4]` back from the already scattered `C`.  The generic facts about item-wise maps and
object stores that used to be listed here are lemmas in `Proofs/Lemmas/ExpBatch.lean`. -/

/-- `so3_Exp.forward` on a batch is the item-wise map of the item-level model — for every mixture of regimes -/
theorem so3ExpBatch_eq_map {α : Type} [Scalar α] (eps : α) (xs : List (Vec3 α)) :
    so3ExpBatch eps xs = xs.map (so3Exp eps) := so3ExpBatch_eq_map' eps xs

/-- the four condition masks of `rxso3_Ws` partition the batch: the scattered `(A,B,C)` are the item-wise coefficients -/
theorem wsCoefBatch_eq_map {α : Type} [Scalar α] (eps : α) (ts : List (α × α)) :
    wsCoefBatch eps ts = ts.map (fun p => rxso3WsCoef eps p.1 p.2) := wsCoefBatch_eq_map' eps ts

/-! ## 5c. Block-wise statement for every input (pass 3)

The property speaks of the rotation and scale blocks and of the translation block separately. -/

/-- **sim3, every input, block-wise** (`0 ≤ eps ≤ 1`): rotation/scale block within `e^σ·eps⁴/8` (i.e. `eps⁴/8` relative to
the scale), translation column within `(8·eps + e^{|σ|}·eps³/2)·‖τ‖₁` (homogeneous in `τ`: zero translation is exact),
bottom row exactly `(0,0,0,1)`. -/
theorem sim3Exp_blocks_all (eps : ℝ) (x : sim3 ℝ) (h0 : 0 ≤ eps) (h1 : eps ≤ 1) :
    (∀ a b : Fin 3, |(Sim3matrix (sim3Exp eps x)).toMatrix4 a.castSucc b.castSucc
        - NormedSpace.exp (sim3Gen x) a.castSucc b.castSucc| ≤ Real.exp x.sigma * (eps ^ 4 / 8)) ∧
    (∀ a : Fin 3, |(Sim3matrix (sim3Exp eps x)).toMatrix4 a.castSucc (Fin.last 3)
        - NormedSpace.exp (sim3Gen x) a.castSucc (Fin.last 3)|
        ≤ (8 * eps + Real.exp |x.sigma| * (eps ^ 3 / 2)) * (|x.tau.x| + |x.tau.y| + |x.tau.z|)) ∧
    (∀ j : Fin 4, (Sim3matrix (sim3Exp eps x)).toMatrix4 (Fin.last 3) j = NormedSpace.exp (sim3Gen x) (Fin.last 3) j) :=
  sim3_blocks_all eps x h0 h1

/-- `Blocks4Within M E BR Bt` (Lemmas/Blocks4.lean): upper-left 3×3 blocks entrywise within `BR`, translation columns within `Bt`,
bottom rows equal.  **se3, every input, block-wise**: rotation `eps⁴/8`, translation `(eps³/8)‖τ‖₁`, bottom row exact. -/
theorem se3Exp_blocks_all (eps : ℝ) (x : se3 ℝ) (h0 : 0 ≤ eps) (h1 : eps ≤ 1) :
    Blocks4Within (SE3matrix (se3Exp eps x)).toMatrix4 (NormedSpace.exp (se3Gen x)) (eps ^ 4 / 8)
      (eps ^ 3 / 8 * (|x.tau.x| + |x.tau.y| + |x.tau.z|)) := se3_blocks4_all eps x h0 h1

/-- **rxso3, every input, block-wise**: scaled rotation within `e^σ·eps⁴/8`, last column and bottom row exact -/
theorem rxso3Exp_blocks_all (eps : ℝ) (x : rxso3 ℝ) (h0 : 0 ≤ eps) (h1 : eps ≤ 1) :
    Blocks4Within (RxSO3matrix (rxso3Exp eps x)).toMatrix4 (NormedSpace.exp (rxso3Gen x)) (Real.exp x.sigma * (eps ^ 4 / 8)) 0 :=
  rxso3_blocks4_all eps x h0 h1

/-! ## 5c'. The translation block in the property's own terms: RELATIVE to the translation scale (pass 10)

The property bounds the translation block "relative to the translation scale"; the correspondence check measures it against
`sim3TransScale x = C(σ)·‖τ‖∞`, `C(σ) = (e^σ − 1)/σ` (`1` at `σ = 0`) being the eigenvalue of the coupling matrix along `φ`. -/

/-- **sim3, every input**: the translation column of `matrix(Exp ξ)` is within `(90·eps + e^{2|σ|}·eps³)·C(σ)‖τ‖∞` of that of
`exp(ξ^)` — a relative bound, uniform in `τ` and `φ` -/
theorem sim3Exp_translation_relative (eps : ℝ) (x : sim3 ℝ) (h0 : 0 ≤ eps) (h1 : eps ≤ 1) (a : Fin 3) :
    |(Sim3matrix (sim3Exp eps x)).toMatrix4 a.castSucc (Fin.last 3) - NormedSpace.exp (sim3Gen x) a.castSucc (Fin.last 3)|
      ≤ (90 * eps + Real.exp (2 * |x.sigma|) * eps ^ 3) * sim3TransScale x :=
  sim3_translation_relative eps x h0 h1 a

/-- **the property's tolerance holds over the reals on its whole stated range**: for `eps ≤ 2⁻²³` (float32 and float64) and
`|σ| ≤ 8`, the translation block is within `4·√eps` of the exact one relative to the translation scale — for every `τ`, every `φ`
(any angle), every regime.  (What the float code adds on top is the measured `γt`, `γMt` of `rounded_sim3Exp`.) -/
theorem sim3Exp_translation_sqrt_eps (eps : ℝ) (x : sim3 ℝ) (h0 : 0 ≤ eps) (he : eps ≤ 1 / 2 ^ 23) (hσ : |x.sigma| ≤ 8) (a : Fin 3) :
    |(Sim3matrix (sim3Exp eps x)).toMatrix4 a.castSucc (Fin.last 3) - NormedSpace.exp (sim3Gen x) a.castSucc (Fin.last 3)|
      ≤ 4 * Real.sqrt eps * sim3TransScale x := by
  have h1 : eps ≤ 1 := le_trans he (by norm_num)
  refine le_trans (sim3_translation_relative eps x h0 h1 a) ?_
  have hsc : 0 ≤ sim3TransScale x := by
    unfold sim3TransScale
    exact mul_nonneg (le_trans (Real.exp_pos _).le (sim3C_lower _)) (le_trans (abs_nonneg _) (le_max_left _ _))
  apply mul_le_mul_of_nonneg_right _ hsc
  -- e^{2|σ|} ≤ e^16 = (e^1)^16 ≤ 3^16
  have hE : Real.exp (2 * |x.sigma|) ≤ 3 ^ 16 := by
    have h16 : Real.exp (2 * |x.sigma|) ≤ Real.exp (((16 : ℕ) : ℝ) * 1) := Real.exp_le_exp.mpr (by push_cast; linarith)
    rw [Real.exp_nat_mul] at h16
    exact le_trans h16 (pow_le_pow_left₀ (Real.exp_pos 1).le Real.exp_one_lt_three.le 16)
  set s := Real.sqrt eps with hs
  have hs0 : 0 ≤ s := Real.sqrt_nonneg _
  have hsq : s ^ 2 = eps := Real.sq_sqrt h0
  have hsle : s ≤ 1 / 2048 := by
    by_contra hc
    push_neg at hc
    have : (1 / 2048 : ℝ) ^ 2 < s ^ 2 := by nlinarith
    rw [hsq] at this
    have : (1 / 2 ^ 23 : ℝ) < (1 / 2048) ^ 2 := by norm_num
    linarith
  have e3 : eps ^ 3 = s ^ 6 := by rw [← hsq]; ring
  rw [e3, ← hsq]
  have h5 : s ^ 5 ≤ (1 / 2048) ^ 5 := pow_le_pow_left₀ hs0 hsle 5
  have h6 : s ^ 6 ≤ (1 / 2048) ^ 5 * s := by
    have := mul_le_mul_of_nonneg_right h5 hs0
    calc s ^ 6 = s ^ 5 * s := by ring
      _ ≤ _ := this
  have h6' : 0 ≤ s ^ 6 := by positivity
  have hK : Real.exp (2 * |x.sigma|) * s ^ 6 ≤ 3 ^ 16 * ((1 / 2048) ^ 5 * s) := mul_le_mul hE h6 h6' (by norm_num)
  have hq : 90 * s ^ 2 ≤ 90 * (1 / 2048) * s := by nlinarith
  have hnum : (3 : ℝ) ^ 16 * (1 / 2048) ^ 5 ≤ 1 := by norm_num
  nlinarith

/-- **se3, every input**: translation column within `(3/8)·eps³·‖τ‖∞` of that of `exp(ξ^)` (the scale is `‖τ‖∞`, `C = 1`) -/
theorem se3Exp_translation_relative (eps : ℝ) (x : se3 ℝ) (h0 : 0 ≤ eps) (h1 : eps ≤ 1) (a : Fin 3) :
    |(SE3matrix (se3Exp eps x)).toMatrix4 a.castSucc (Fin.last 3) - NormedSpace.exp (se3Gen x) a.castSucc (Fin.last 3)|
      ≤ 3 / 8 * eps ^ 3 * max |x.tau.x| (max |x.tau.y| |x.tau.z|) := by
  refine le_trans ((se3_blocks4_all eps x h0 h1).2.1 a) ?_
  have := tau_one_le_three_inf x.tau
  have he3 : 0 ≤ eps ^ 3 := by positivity
  nlinarith

/-! ## 5d. Rounded arithmetic (pass 3, block-wise since pass 4)

The float code stores `q̃ ≈ q`, `s̃ ≈ s`, `t̃ ≈ t` and `matrix()` adds its own rounding.  Hypotheses: the distances of the
stored blocks to the model's exact blocks (`γq` componentwise up to the overall sign, `γs` relative, `γt` absolute) and of the
stored matrix to the exact matrix of the stored element (`γM` relative to the stored scale in the rotation block, `γMt` in the
translation column, bottom row equal) — these numbers are measured by the correspondence check on every sampled case.
Conclusions hold for every input and are stated block by block. -/

/-- **so3 in rounded arithmetic**: norm defect `≤ 16γq + eps⁶`, every matrix entry within `γM + 16γq + eps⁴/8` of `exp(x^)` -/
theorem rounded_so3Exp (eps γq γM : ℝ) (h0 : 0 ≤ eps) (h1 : eps ≤ 1) (hq1 : γq ≤ 1) (x : Vec3 ℝ) (p : Quat ℝ)
    (M : Matrix (Fin 3) (Fin 3) ℝ)
    (hq : QuatNear γq p (so3Exp eps x) ∨ QuatNear γq p (so3Exp eps x).neg)
    (hM : ∀ i j, |M i j - (SO3matrix p).toMatrix i j| ≤ γM) :
    |p.normSq - 1| ≤ 16 * γq + eps ^ 6 ∧
    ∀ i j, |M i j - NormedSpace.exp (hatM x) i j| ≤ γM + 16 * γq + eps ^ 4 / 8 := by
  obtain ⟨hn, hR⟩ := rounded_so3_core eps γq h0 h1 hq1 x p hq
  refine ⟨hn, fun i j => ?_⟩
  have e : M i j - NormedSpace.exp (hatM x) i j = (M i j - (SO3matrix p).toMatrix i j)
      + ((SO3matrix p).toMatrix i j - (SO3matrix (so3Exp eps x)).toMatrix i j)
      + ((SO3matrix (so3Exp eps x)).toMatrix i j - NormedSpace.exp (hatM x) i j) := by ring
  rw [e]
  have := so3Exp_matrix_all eps x h0 h1 i j
  exact le_trans (abs_add_three _ _ _) (by linarith [hM i j, hR i j])

/-- **unit norm of the stored quaternion** (the quantity the check measures is `‖q̃‖`, not `‖q̃‖²`): `|‖q̃‖ − 1| ≤ 16γq + eps⁶`
for every input, whenever the stored quaternion is within `γq ≤ 1` (componentwise, up to the overall sign) of the model's -/
theorem rounded_so3Exp_norm (eps γq : ℝ) (h0 : 0 ≤ eps) (h1 : eps ≤ 1) (hq1 : γq ≤ 1) (x : Vec3 ℝ) (p : Quat ℝ)
    (hq : QuatNear γq p (so3Exp eps x) ∨ QuatNear γq p (so3Exp eps x).neg) :
    |Real.sqrt p.normSq - 1| ≤ 16 * γq + eps ^ 6 := by
  obtain ⟨hn, _⟩ := rounded_so3_core eps γq h0 h1 hq1 x p hq
  have ha : 0 ≤ p.normSq := by unfold Quat.normSq; nlinarith [mul_self_nonneg p.x, mul_self_nonneg p.y, mul_self_nonneg p.z, mul_self_nonneg p.w]
  have hs := Real.sqrt_nonneg p.normSq
  have hsq : Real.sqrt p.normSq * Real.sqrt p.normSq = p.normSq := Real.mul_self_sqrt ha
  -- |√a − 1| ≤ |√a − 1|(√a + 1) = |a − 1|
  have key : |Real.sqrt p.normSq - 1| ≤ |p.normSq - 1| := by
    have e : p.normSq - 1 = (Real.sqrt p.normSq - 1) * (Real.sqrt p.normSq + 1) := by linear_combination (-1 : ℝ) * hsq
    rw [e, abs_mul, abs_of_pos (by linarith : 0 < Real.sqrt p.normSq + 1)]
    nlinarith [abs_nonneg (Real.sqrt p.normSq - 1)]
  linarith

/-- **sim3 in rounded arithmetic, block-wise**: rotation/scale block within `e^σ·((1+γs)(γM + 16γq) + 3γs + eps⁴/8)` — every
term relative to the scale `e^σ` —, translation column within `γMt + γt + (8eps + e^{|σ|}eps³/2)‖τ‖₁`, bottom row exact. -/
theorem rounded_sim3Exp (eps γq γs γt γM γMt : ℝ) (h0 : 0 ≤ eps) (h1 : eps ≤ 1) (hq1 : γq ≤ 1) (hs0 : 0 ≤ γs) (hM0 : 0 ≤ γM)
    (x : sim3 ℝ) (Y : Sim3 ℝ) (M : Matrix (Fin 4) (Fin 4) ℝ)
    (hq : QuatNear γq Y.q (so3Exp eps x.phi) ∨ QuatNear γq Y.q (so3Exp eps x.phi).neg)
    (hs : |Y.s - Real.exp x.sigma| ≤ γs * Real.exp x.sigma)
    (ht : ∀ i, |Y.t.toFun i - (sim3Exp eps x).t.toFun i| ≤ γt)
    (hM : Blocks4Within M (Sim3matrix Y).toMatrix4 (γM * |Y.s|) γMt) :
    Blocks4Within M (NormedSpace.exp (sim3Gen x))
      (Real.exp x.sigma * ((1 + γs) * (γM + 16 * γq) + 3 * γs + eps ^ 4 / 8))
      (γMt + γt + (8 * eps + Real.exp |x.sigma| * (eps ^ 3 / 2)) * (|x.tau.x| + |x.tau.y| + |x.tau.z|)) := by
  have he := Real.exp_pos x.sigma
  have hYs : |Y.s| ≤ Real.exp x.sigma * (1 + γs) := by
    have : |Y.s| ≤ |Y.s - Real.exp x.sigma| + |Real.exp x.sigma| := by
      have := abs_add_le (Y.s - Real.exp x.sigma) (Real.exp x.sigma); simpa using this
    rw [abs_of_pos he] at this; nlinarith
  have a := rounded_sim3_blocks eps γq γs γt h0 h1 hq1 hs0 x Y hq hs ht
  have b := sim3_blocks4_all eps x h0 h1
  refine ((hM.trans a).trans b).mono ?_ (by linarith)
  have : γM * |Y.s| ≤ γM * (Real.exp x.sigma * (1 + γs)) := mul_le_mul_of_nonneg_left hYs hM0
  nlinarith

/-- **the property's translation clause for the float result** (pass 11): with the measured per-call accuracies `γt` (stored
translation against the model's) and `γMt` (translation column of the stored matrix against the exact matrix of the stored element),
for `eps ≤ 2⁻²³` and `|σ| ≤ 8` the translation column of the stored matrix is within `γMt + γt + 4·√eps·C(σ)‖τ‖∞` of that of
`exp(ξ^)` — every input, every regime, any rotation angle -/
theorem rounded_sim3Exp_translation (eps γq γs γt γM γMt : ℝ) (x : sim3 ℝ) (h0 : 0 ≤ eps) (he : eps ≤ 1 / 2 ^ 23)
    (hσ : |x.sigma| ≤ 8) (hq1 : γq ≤ 1) (hs0 : 0 ≤ γs) (Y : Sim3 ℝ) (M : Matrix (Fin 4) (Fin 4) ℝ)
    (hq : QuatNear γq Y.q (so3Exp eps x.phi) ∨ QuatNear γq Y.q (so3Exp eps x.phi).neg)
    (hs : |Y.s - Real.exp x.sigma| ≤ γs * Real.exp x.sigma)
    (ht : ∀ i, |Y.t.toFun i - (sim3Exp eps x).t.toFun i| ≤ γt)
    (hM : Blocks4Within M (Sim3matrix Y).toMatrix4 (γM * |Y.s|) γMt) (a : Fin 3) :
    |M a.castSucc (Fin.last 3) - NormedSpace.exp (sim3Gen x) a.castSucc (Fin.last 3)|
      ≤ γMt + γt + 4 * Real.sqrt eps * sim3TransScale x := by
  have h1 : eps ≤ 1 := le_trans he (by norm_num)
  have a1 := hM.2.1 a
  have a2 := (rounded_sim3_blocks eps γq γs γt h0 h1 hq1 hs0 x Y hq hs ht).2.1 a
  have a3 := sim3Exp_translation_sqrt_eps eps x h0 he hσ a
  have e : M a.castSucc (Fin.last 3) - NormedSpace.exp (sim3Gen x) a.castSucc (Fin.last 3)
      = (M a.castSucc (Fin.last 3) - (Sim3matrix Y).toMatrix4 a.castSucc (Fin.last 3))
        + ((Sim3matrix Y).toMatrix4 a.castSucc (Fin.last 3) - (Sim3matrix (sim3Exp eps x)).toMatrix4 a.castSucc (Fin.last 3))
        + ((Sim3matrix (sim3Exp eps x)).toMatrix4 a.castSucc (Fin.last 3) - NormedSpace.exp (sim3Gen x) a.castSucc (Fin.last 3)) := by
    ring
  rw [e]
  exact le_trans (abs_add_three _ _ _) (by linarith)

/-- **se3 in rounded arithmetic, block-wise** (pass 7): stored rotation within `γq` (componentwise, up to the overall sign), stored
translation within `γt`, stored matrix within (`γM`, `γMt`, bottom row equal) of the exact matrix of the stored element ⟹ rotation
block within `γM + 16γq + eps⁴/8`, translation column within `γMt + γt + (eps³/8)‖τ‖₁`, bottom row exact — for every input -/
theorem rounded_se3Exp (eps γq γt γM γMt : ℝ) (h0 : 0 ≤ eps) (h1 : eps ≤ 1) (hq1 : γq ≤ 1)
    (x : se3 ℝ) (Y : SE3 ℝ) (M : Matrix (Fin 4) (Fin 4) ℝ)
    (hq : QuatNear γq Y.q (so3Exp eps x.phi) ∨ QuatNear γq Y.q (so3Exp eps x.phi).neg)
    (ht : ∀ i, |Y.t.toFun i - (se3Exp eps x).t.toFun i| ≤ γt)
    (hM : Blocks4Within M (SE3matrix Y).toMatrix4 γM γMt) :
    Blocks4Within M (NormedSpace.exp (se3Gen x)) (γM + 16 * γq + eps ^ 4 / 8)
      (γMt + γt + eps ^ 3 / 8 * (|x.tau.x| + |x.tau.y| + |x.tau.z|)) :=
  ((hM.trans (rounded_se3_blocks eps γq γt h0 h1 hq1 x Y hq ht)).trans (se3_blocks4_all eps x h0 h1)).mono le_rfl le_rfl

/-- **rxso3 in rounded arithmetic, block-wise** (pass 7): scaled-rotation block within
`e^σ·((1+γs)(γM + 16γq) + 3γs + eps⁴/8)` (every term relative to the scale), last column within `γMt` of zero, bottom row exact -/
theorem rounded_rxso3Exp (eps γq γs γM γMt : ℝ) (h0 : 0 ≤ eps) (h1 : eps ≤ 1) (hq1 : γq ≤ 1) (hs0 : 0 ≤ γs) (hM0 : 0 ≤ γM)
    (x : rxso3 ℝ) (Y : RxSO3 ℝ) (M : Matrix (Fin 4) (Fin 4) ℝ)
    (hq : QuatNear γq Y.q (so3Exp eps x.phi) ∨ QuatNear γq Y.q (so3Exp eps x.phi).neg)
    (hs : |Y.s - Real.exp x.sigma| ≤ γs * Real.exp x.sigma)
    (hM : Blocks4Within M (RxSO3matrix Y).toMatrix4 (γM * |Y.s|) γMt) :
    Blocks4Within M (NormedSpace.exp (rxso3Gen x))
      (Real.exp x.sigma * ((1 + γs) * (γM + 16 * γq) + 3 * γs + eps ^ 4 / 8)) γMt := by
  have he := Real.exp_pos x.sigma
  have hYs : |Y.s| ≤ Real.exp x.sigma * (1 + γs) := by
    have : |Y.s| ≤ |Y.s - Real.exp x.sigma| + |Real.exp x.sigma| := by
      have := abs_add_le (Y.s - Real.exp x.sigma) (Real.exp x.sigma); simpa using this
    rw [abs_of_pos he] at this; nlinarith
  have a := rounded_rxso3_blocks eps γq γs h0 h1 hq1 hs0 x Y hq hs
  have b := rxso3_blocks4_all eps x h0 h1
  refine ((hM.trans a).trans b).mono ?_ (by linarith)
  have : γM * |Y.s| ≤ γM * (Real.exp x.sigma * (1 + γs)) := mul_le_mul_of_nonneg_left hYs hM0
  nlinarith

/-! ## 5e. The public path: dispatch, shapes, dtype-dependent eps (pass 3)

`ppExp lt dt shape data` (`lean/Pose/Model/ExpGlue.lean`) models `pp.Exp(pp.LieTensor(data, ltype=lt))` for a tensor of dtype
`dt`: constructor check, type dispatch, `lshape` handling, `eps = finfo(dt).eps`, kernels row by row. -/

/-- accepted exactly for the four algebra types with matching last dimension (any rank ≥ 1, any batch extents incl. 0) -/
theorem ppExp_accepts_iff {α : Type} [Scalar α] (lt : LType) (dt : DType) (shape : List Nat) (data : List α)
    (hn : data.length = numel shape) :
    (∃ X, ppExp lt dt shape data = .ok X) ↔ (lt.onManifold = true ∧ shape.getLast? = some lt.dim) :=
  ppExp_ok_iff lt dt shape data hn

/-- a group-type argument is rejected ("Lie Group has no Exp attribute") -/
theorem ppExp_group_raises {α : Type} [Scalar α] (lt : LType) (dt : DType) (shape : List Nat) (data : List α)
    (hd : shape.getLast? = some lt.dim) (hn : data.length = numel shape) (hg : lt.onManifold = false) :
    ppExp lt dt shape data = .error .noExp := ppExp_group lt dt shape data hd hn hg

/-- a last dimension that does not match the type is rejected by the constructor -/
theorem ppExp_lastDim_raises {α : Type} [Scalar α] (lt : LType) (dt : DType) (shape : List Nat) (data : List α)
    (h : shape.getLast? ≠ some lt.dim) : ppExp lt dt shape data = .error .lastDim := ppExp_lastDim lt dt shape data h

/-- on a well-formed batch (any `lshape`, rows of the type's width): group type, shape `lshape ++ [embedding]`, size, and row `i`
of the result is the kernel applied to row `i` of the argument with `eps = finfo(dtype).eps` -/
theorem ppExp_shape_and_items {α : Type} [Scalar α] (lt g : LType) (dt : DType) (lshape : List Nat) (rows : List (List α))
    (hg : lt.expTarget = some g) (hlen : rows.length = numel lshape) (hrow : ∀ r ∈ rows, r.length = lt.dim) :
    ∃ X, ppExp lt dt (lshape ++ [lt.dim]) rows.flatten = .ok X ∧ X.ltype = g ∧ X.shape = lshape ++ [g.dim] ∧
      X.data.length = numel X.shape ∧ chunks g.dim X.data = rows.map (itemExp dt.eps lt) :=
  ppExp_rows lt g dt lshape rows hg hlen hrow

/-- every dtype's threshold satisfies the hypotheses `0 < eps ≤ 1` of the `*_all` theorems -/
theorem dtype_eps_range (d : DType) : 0 < (d.eps : ℝ) ∧ (d.eps : ℝ) ≤ 1 ∧ (d.eps : ℝ) = 1 / 2 ^ d.mant :=
  ⟨DType.eps_pos d, DType.eps_le_one d, DType.eps_real d⟩

/-- the plain-`Tensor` branch of `<lt>_type.Exp(x)` (`x = x.tensor() if isinstance(x, LieTensor) else x`) and the LieTensor
branch coincide for every algebra type and every (shape, data), including the rejected ones; a group type is rejected on both -/
theorem typeExp_plain_eq_lietensor {α : Type} [Scalar α] (lt : LType) (dt : DType) (shape : List Nat) (data : List α) :
    (lt.onManifold = true → typeExp lt dt shape data = ppExp lt dt shape data) ∧
    (lt.onManifold = false → typeExp lt dt shape data = .error .noExp) :=
  ⟨typeExp_eq_ppExp lt dt shape data, typeExp_group lt dt shape data⟩

/-- `pp.Exp(x).matrix()` through the public path, any well-formed batch: shape `lshape ++ [n, n]`; the `i`-th `n×n` block of the
flat result is `matrix` of the kernel applied to row `i` -/
theorem ppExp_matrix_shape_and_items {α : Type} [Scalar α] (lt g : LType) (dt : DType) (lshape : List Nat) (rows : List (List α))
    (hg : lt.expTarget = some g) (hlen : rows.length = numel lshape) (hrow : ∀ r ∈ rows, r.length = lt.dim) :
    ∃ X, ppExp lt dt (lshape ++ [lt.dim]) rows.flatten = .ok X ∧
      (X.matrix dt).1 = lshape ++ [g.matN, g.matN] ∧
      chunks (g.matN * g.matN) (X.matrix dt).2 = rows.map (fun r => itemMatrix g (itemExp dt.eps lt r)) :=
  ppExp_matrix_rows lt g dt lshape rows hg hlen hrow

/-- **through the public path, so3**: for every dtype, every batch shape `lshape` (rank ≥ 0, extents ≥ 0) and every
well-formed list of rows (`rows.length = ∏ lshape`, every row of width 3), `pp.Exp(LieTensor(rows, so3)).matrix()` is accepted,
has shape `lshape ++ [3,3]`, and its `i`-th block is within `eps(dtype)⁴/8` of `exp` of the generator of row `i` -/
theorem pipeline_so3 (dt : DType) (lshape : List Nat) (rows : List (List ℝ))
    (hlen : rows.length = numel lshape) (hrow : ∀ r ∈ rows, r.length = 3) :
    ∃ X, ppExp .so3 dt (lshape ++ [3]) rows.flatten = .ok X ∧ (X.matrix dt).1 = lshape ++ [3, 3] ∧
      ∀ (i : Nat) (r : List ℝ), rows[i]? = some r → ∃ m, (chunks 9 (X.matrix dt).2)[i]? = some m ∧
        ∀ a b : Fin 3, |flat3 m a b - NormedSpace.exp (hatM (rowToSo3 r)) a b| ≤ (dt.eps : ℝ) ^ 4 / 8 := by
  obtain ⟨X, hX, hs, hc⟩ := ppExp_matrix_rows .so3 .SO3 dt lshape rows rfl hlen hrow
  refine ⟨X, hX, hs, fun i r hr => ⟨_, by
    have : (3 * 3 : Nat) = 9 := rfl
    simp only [LType.matN, this] at hc
    rw [hc, List.getElem?_map, hr]; rfl, fun a b => ?_⟩⟩
  rw [glue_so3_matrix]; exact so3Exp_matrix_all _ _ (DType.eps_pos dt).le (DType.eps_le_one dt) a b

/-- **through the public path, se3** (block-wise) -/
theorem pipeline_se3 (dt : DType) (lshape : List Nat) (rows : List (List ℝ))
    (hlen : rows.length = numel lshape) (hrow : ∀ r ∈ rows, r.length = 6) :
    ∃ X, ppExp .se3 dt (lshape ++ [6]) rows.flatten = .ok X ∧ (X.matrix dt).1 = lshape ++ [4, 4] ∧
      ∀ (i : Nat) (r : List ℝ), rows[i]? = some r → ∃ m, (chunks 16 (X.matrix dt).2)[i]? = some m ∧
        Blocks4Within (flat4 m) (NormedSpace.exp (se3Gen (rowToSe3 r))) ((dt.eps : ℝ) ^ 4 / 8)
          ((dt.eps : ℝ) ^ 3 / 8 * (|(rowToSe3 r).tau.x| + |(rowToSe3 r).tau.y| + |(rowToSe3 r).tau.z|)) := by
  obtain ⟨X, hX, hs, hc⟩ := ppExp_matrix_rows .se3 .SE3 dt lshape rows rfl hlen hrow
  refine ⟨X, hX, hs, fun i r hr => ⟨_, by
    have : (4 * 4 : Nat) = 16 := rfl
    simp only [LType.matN, this] at hc
    rw [hc, List.getElem?_map, hr]; rfl, ?_⟩⟩
  rw [glue_se3_matrix]; exact se3_blocks4_all _ _ (DType.eps_pos dt).le (DType.eps_le_one dt)

/-- **through the public path, rxso3** (block-wise) -/
theorem pipeline_rxso3 (dt : DType) (lshape : List Nat) (rows : List (List ℝ))
    (hlen : rows.length = numel lshape) (hrow : ∀ r ∈ rows, r.length = 4) :
    ∃ X, ppExp .rxso3 dt (lshape ++ [4]) rows.flatten = .ok X ∧ (X.matrix dt).1 = lshape ++ [4, 4] ∧
      ∀ (i : Nat) (r : List ℝ), rows[i]? = some r → ∃ m, (chunks 16 (X.matrix dt).2)[i]? = some m ∧
        Blocks4Within (flat4 m) (NormedSpace.exp (rxso3Gen (rowToRxso3 r)))
          (Real.exp (rowToRxso3 r).sigma * ((dt.eps : ℝ) ^ 4 / 8)) 0 := by
  obtain ⟨X, hX, hs, hc⟩ := ppExp_matrix_rows .rxso3 .RxSO3 dt lshape rows rfl hlen hrow
  refine ⟨X, hX, hs, fun i r hr => ⟨_, by
    have : (4 * 4 : Nat) = 16 := rfl
    simp only [LType.matN, this] at hc
    rw [hc, List.getElem?_map, hr]; rfl, ?_⟩⟩
  rw [glue_rxso3_matrix]; exact rxso3_blocks4_all _ _ (DType.eps_pos dt).le (DType.eps_le_one dt)

/-- **through the public path, sim3** (block-wise): rotation/scale block within `e^σ·eps⁴/8`, translation column within
`(8eps + e^{|σ|}eps³/2)‖τ‖₁`, bottom row exact — for every dtype, every batch shape, every row -/
theorem pipeline_sim3 (dt : DType) (lshape : List Nat) (rows : List (List ℝ))
    (hlen : rows.length = numel lshape) (hrow : ∀ r ∈ rows, r.length = 7) :
    ∃ X, ppExp .sim3 dt (lshape ++ [7]) rows.flatten = .ok X ∧ (X.matrix dt).1 = lshape ++ [4, 4] ∧
      ∀ (i : Nat) (r : List ℝ), rows[i]? = some r → ∃ m, (chunks 16 (X.matrix dt).2)[i]? = some m ∧
        Blocks4Within (flat4 m) (NormedSpace.exp (sim3Gen (rowToSim3 r)))
          (Real.exp (rowToSim3 r).sigma * ((dt.eps : ℝ) ^ 4 / 8))
          ((8 * (dt.eps : ℝ) + Real.exp |(rowToSim3 r).sigma| * ((dt.eps : ℝ) ^ 3 / 2))
            * (|(rowToSim3 r).tau.x| + |(rowToSim3 r).tau.y| + |(rowToSim3 r).tau.z|)) := by
  obtain ⟨X, hX, hs, hc⟩ := ppExp_matrix_rows .sim3 .Sim3 dt lshape rows rfl hlen hrow
  refine ⟨X, hX, hs, fun i r hr => ⟨_, by
    have : (4 * 4 : Nat) = 16 := rfl
    simp only [LType.matN, this] at hc
    rw [hc, List.getElem?_map, hr]; rfl, ?_⟩⟩
  rw [glue_sim3_matrix]; exact sim3_blocks4_all _ _ (DType.eps_pos dt).le (DType.eps_le_one dt)

/-! ## 6. Non-vacuity: the hypotheses are satisfiable by non-trivial values -/

-- witnesses `eps64`, `x0 = (0.3,-0.2,0.5)`, `xtiny = (1e-17,0,0)` and their elementary facts live in Lemmas/Sim3Bounds.lean
-- Rodrigues: the power hypotheses hold for `K = x0^`, `θ = ‖x0‖ ≠ 0`
example : NormedSpace.exp (hatM x0) = 1 + (Real.sin x0.norm / x0.norm) • hatM x0
    + ((1 - Real.cos x0.norm) / (x0.norm * x0.norm)) • (hatM x0 ^ 2) :=
  exp_eq_rodrigues (hatM x0) x0.norm (ne_of_gt (lt_trans eps64_pos x0_norm_large)) (hat_pow_odd x0) (hat_pow_even x0)
-- closed-form branch, all four types, at x = (0.3,-0.2,0.5), σ = 0.7, τ = (1,2,3)
example : (SO3matrix (so3Exp eps64 x0)).toMatrix = NormedSpace.exp (hatM x0) :=
  so3Exp_matrix eps64 x0 eps64_pos.le (Or.inl x0_norm_large)
example : (so3Exp eps64 x0).normSq = 1 := so3Exp_unit eps64 x0 eps64_pos.le x0_norm_large
example : (SE3matrix (se3Exp eps64 ⟨⟨1, 2, 3⟩, x0⟩)).toMatrix4 = NormedSpace.exp (se3Gen ⟨⟨1, 2, 3⟩, x0⟩) :=
  se3Exp_matrix eps64 _ eps64_pos.le (Or.inl x0_norm_large)
example : (RxSO3matrix (rxso3Exp eps64 ⟨x0, 7 / 10⟩)).toMatrix4 = NormedSpace.exp (rxso3Gen ⟨x0, 7 / 10⟩) :=
  rxso3Exp_matrix eps64 _ eps64_pos.le (Or.inl x0_norm_large)
example : (rxso3Ws eps64 ⟨x0, 7 / 10⟩).toMatrix * ((7 / 10 : ℝ) • (1 : Matrix (Fin 3) (Fin 3) ℝ) + hatM x0)
    = NormedSpace.exp ((7 / 10 : ℝ) • (1 : Matrix (Fin 3) (Fin 3) ℝ) + hatM x0) - 1 :=
  Ws_mul_generator eps64 ⟨x0, 7 / 10⟩ eps64_pos.le x0_norm_large sigma_large
example : (Sim3matrix (sim3Exp eps64 ⟨⟨1, 2, 3⟩, x0, 7 / 10⟩)).toMatrix4 = NormedSpace.exp (sim3Gen ⟨⟨1, 2, 3⟩, x0, 7 / 10⟩) :=
  sim3Exp_matrix eps64 _ eps64_pos.le (Or.inl x0_norm_large) (Or.inl sigma_large)
-- Taylor branches / thin regimes are inhabited
example (i j : Fin 3) : |(SO3matrix (so3Exp eps64 xtiny)).toMatrix i j - NormedSpace.exp (hatM xtiny) i j| ≤ xtiny.norm ^ 4 / 8 :=
  so3Exp_matrix_taylor eps64 xtiny xtiny_small eps64_le_one i j
example (i j : Fin 4) : |(SE3matrix (se3Exp eps64 ⟨⟨1, 2, 3⟩, xtiny⟩)).toMatrix4 i j - NormedSpace.exp (se3Gen ⟨⟨1, 2, 3⟩, xtiny⟩) i j|
    ≤ xtiny.norm ^ 3 / 8 * (1 + |(1:ℝ)| + |(2:ℝ)| + |(3:ℝ)|) :=
  se3Exp_matrix_taylor eps64 ⟨⟨1, 2, 3⟩, xtiny⟩ xtiny_small eps64_le_one xtiny_pos i j
example (i j : Fin 4) :
    |(Sim3matrix (sim3Exp eps64 ⟨⟨1, 2, 3⟩, x0, 1 / 10 ^ 17⟩)).toMatrix4 i j - NormedSpace.exp (sim3Gen ⟨⟨1, 2, 3⟩, x0, 1 / 10 ^ 17⟩) i j|
      ≤ 4 * (Real.exp |(1 / 10 ^ 17 : ℝ)| - 1) * (|(1:ℝ)| + |(2:ℝ)| + |(3:ℝ)|) :=
  sim3Exp_matrix_regime2 eps64 ⟨⟨1, 2, 3⟩, x0, 1 / 10 ^ 17⟩ eps64_pos.le x0_norm_large sigma_small (by norm_num) i j
example (i j : Fin 4) :
    |(Sim3matrix (sim3Exp eps64 ⟨⟨1, 2, 3⟩, xtiny, 7 / 10⟩)).toMatrix4 i j - NormedSpace.exp (sim3Gen ⟨⟨1, 2, 3⟩, xtiny, 7 / 10⟩) i j|
      ≤ Real.exp (7 / 10) * (xtiny.norm ^ 4 / 8) + Real.exp |(7 / 10 : ℝ)| * (xtiny.norm ^ 3 / 3) * (|(1:ℝ)| + |(2:ℝ)| + |(3:ℝ)|) :=
  sim3Exp_matrix_regime3 eps64 ⟨⟨1, 2, 3⟩, xtiny, 7 / 10⟩ eps64_le_one xtiny_small xtiny_pos sigma_large (by norm_num) i j
example (i j : Fin 4) :
    |(Sim3matrix (sim3Exp eps64 ⟨⟨1, 2, 3⟩, xtiny, 1 / 10 ^ 17⟩)).toMatrix4 i j - NormedSpace.exp (sim3Gen ⟨⟨1, 2, 3⟩, xtiny, 1 / 10 ^ 17⟩) i j|
      ≤ Real.exp (1 / 10 ^ 17) * (xtiny.norm ^ 4 / 8)
        + (4 * (Real.exp |(1 / 10 ^ 17 : ℝ)| - 1) + xtiny.norm ^ 3 / 16) * (|(1:ℝ)| + |(2:ℝ)| + |(3:ℝ)|) :=
  sim3Exp_matrix_regime1 eps64 ⟨⟨1, 2, 3⟩, xtiny, 1 / 10 ^ 17⟩ eps64_le_one xtiny_small xtiny_pos sigma_small (by positivity) i j


-- pass 3: the rounded-arithmetic hypotheses are satisfiable (a stored quaternion off by 1e-3 in one component), the glue accepts
-- a (2,3)-batch of se3 rows and rejects a group type
example : QuatNear (1 / 1000) ⟨(so3Exp eps64 x0).x + 1 / 1000, (so3Exp eps64 x0).y, (so3Exp eps64 x0).z, (so3Exp eps64 x0).w⟩
    (so3Exp eps64 x0) := by
  refine ⟨?_, ?_, ?_, ?_⟩ <;> simp
example : |(⟨(so3Exp eps64 x0).x + 1 / 1000, (so3Exp eps64 x0).y, (so3Exp eps64 x0).z, (so3Exp eps64 x0).w⟩ : Quat ℝ).normSq - 1|
    ≤ 16 * (1 / 1000) + eps64 ^ 6 :=
  (rounded_so3Exp eps64 (1 / 1000) 0 eps64_pos.le eps64_le_one (by norm_num) x0
    ⟨(so3Exp eps64 x0).x + 1 / 1000, (so3Exp eps64 x0).y, (so3Exp eps64 x0).z, (so3Exp eps64 x0).w⟩
    (SO3matrix ⟨(so3Exp eps64 x0).x + 1 / 1000, (so3Exp eps64 x0).y, (so3Exp eps64 x0).z, (so3Exp eps64 x0).w⟩).toMatrix
    (Or.inl (by refine ⟨?_, ?_, ?_, ?_⟩ <;> simp)) (by intro i j; simp)).1
example : ∃ X, ppExp (α := ℝ) .se3 .f32 [2, 3, 6] (List.replicate 36 0) = .ok X :=
  (ppExp_accepts_iff .se3 .f32 [2, 3, 6] _ (by simp [numel])).mpr ⟨rfl, rfl⟩
example : ppExp (α := ℝ) .SE3 .f64 [0, 7] [] = .error .noExp := ppExp_group_raises _ _ _ _ rfl (by simp [numel]) rfl


-- pass 4: the block-wise rounded-arithmetic hypotheses are satisfiable (exact storage: all γ = 0), and the public path accepts a
-- (2,)-batch of sim3 rows
example : Blocks4Within (Sim3matrix (sim3Exp eps64 ⟨⟨1, 2, 3⟩, x0, 7 / 10⟩)).toMatrix4
    (NormedSpace.exp (sim3Gen ⟨⟨1, 2, 3⟩, x0, 7 / 10⟩))
    (Real.exp (7 / 10) * ((1 + 0) * (0 + 16 * 0) + 3 * 0 + eps64 ^ 4 / 8))
    (0 + 0 + (8 * eps64 + Real.exp |(7 / 10 : ℝ)| * (eps64 ^ 3 / 2)) * (|(1 : ℝ)| + |(2 : ℝ)| + |(3 : ℝ)|)) :=
  rounded_sim3Exp eps64 0 0 0 0 0 eps64_pos.le eps64_le_one (by norm_num) le_rfl le_rfl ⟨⟨1, 2, 3⟩, x0, 7 / 10⟩
    (sim3Exp eps64 ⟨⟨1, 2, 3⟩, x0, 7 / 10⟩) _
    (Or.inl ⟨by simp [sim3Exp, rxso3Exp], by simp [sim3Exp, rxso3Exp], by simp [sim3Exp, rxso3Exp], by simp [sim3Exp, rxso3Exp]⟩)
    (by simp [sim3Exp, rxso3Exp]) (fun i => by simp)
    ⟨fun a b => by simp, fun a => by simp, fun j => rfl⟩
example : ∃ X, ppExp (α := ℝ) .sim3 .f64 ([2] ++ [7]) ([[1, 2, 3, 0.3, -0.2, 0.5, 0.7], [0, 0, 0, 0, 0, 0, 0]] : List (List ℝ)).flatten = .ok X :=
  let ⟨X, h, _⟩ := pipeline_sim3 .f64 [2] [[1, 2, 3, 0.3, -0.2, 0.5, 0.7], [0, 0, 0, 0, 0, 0, 0]] (by simp [numel]) (by simp)
  ⟨X, h⟩


-- pass 7: the se3 / rxso3 rounded-arithmetic hypotheses are satisfiable (exact storage, all γ = 0)
example : Blocks4Within (SE3matrix (se3Exp eps64 ⟨⟨1, 2, 3⟩, x0⟩)).toMatrix4 (NormedSpace.exp (se3Gen ⟨⟨1, 2, 3⟩, x0⟩))
    (0 + 16 * 0 + eps64 ^ 4 / 8) (0 + 0 + eps64 ^ 3 / 8 * (|(1 : ℝ)| + |(2 : ℝ)| + |(3 : ℝ)|)) :=
  rounded_se3Exp eps64 0 0 0 0 eps64_pos.le eps64_le_one (by norm_num) ⟨⟨1, 2, 3⟩, x0⟩ (se3Exp eps64 ⟨⟨1, 2, 3⟩, x0⟩) _
    (Or.inl ⟨by simp [se3Exp], by simp [se3Exp], by simp [se3Exp], by simp [se3Exp]⟩) (fun i => by simp)
    ⟨fun a b => by simp, fun a => by simp, fun j => rfl⟩
example : Blocks4Within (RxSO3matrix (rxso3Exp eps64 ⟨x0, 7 / 10⟩)).toMatrix4 (NormedSpace.exp (rxso3Gen ⟨x0, 7 / 10⟩))
    (Real.exp (7 / 10) * ((1 + 0) * (0 + 16 * 0) + 3 * 0 + eps64 ^ 4 / 8)) 0 :=
  rounded_rxso3Exp eps64 0 0 0 0 eps64_pos.le eps64_le_one (by norm_num) le_rfl le_rfl ⟨x0, 7 / 10⟩ (rxso3Exp eps64 ⟨x0, 7 / 10⟩) _
    (Or.inl ⟨by simp [rxso3Exp], by simp [rxso3Exp], by simp [rxso3Exp], by simp [rxso3Exp]⟩) (by simp [rxso3Exp])
    ⟨fun a b => by simp, fun a => by simp, fun j => rfl⟩


-- pass 10: the relative translation bound at a concrete element (σ = −0.7: the scale C(σ) < 1), eps = 2⁻⁵²
example (a : Fin 3) :
    |(Sim3matrix (sim3Exp eps64 ⟨⟨1, 2, 3⟩, xtiny, -(7 / 10)⟩)).toMatrix4 a.castSucc (Fin.last 3)
        - NormedSpace.exp (sim3Gen ⟨⟨1, 2, 3⟩, xtiny, -(7 / 10)⟩) a.castSucc (Fin.last 3)|
      ≤ 4 * Real.sqrt eps64 * sim3TransScale ⟨⟨1, 2, 3⟩, xtiny, -(7 / 10)⟩ :=
  sim3Exp_translation_sqrt_eps eps64 _ eps64_pos.le (by unfold eps64; norm_num) (by rw [abs_neg, abs_of_pos (by norm_num)]; norm_num) a

example : |Real.sqrt (so3Exp eps64 x0).normSq - 1| ≤ 16 * 0 + eps64 ^ 6 :=
  rounded_so3Exp_norm eps64 0 eps64_pos.le eps64_le_one (by norm_num) x0 (so3Exp eps64 x0) (Or.inl ⟨by simp, by simp, by simp, by simp⟩)

-- pass 11: exact storage (all γ = 0) satisfies the hypotheses of `rounded_sim3Exp_translation`
example (a : Fin 3) :
    |(Sim3matrix (sim3Exp eps64 ⟨⟨1, 2, 3⟩, x0, 7 / 10⟩)).toMatrix4 a.castSucc (Fin.last 3)
        - NormedSpace.exp (sim3Gen ⟨⟨1, 2, 3⟩, x0, 7 / 10⟩) a.castSucc (Fin.last 3)|
      ≤ 0 + 0 + 4 * Real.sqrt eps64 * sim3TransScale ⟨⟨1, 2, 3⟩, x0, 7 / 10⟩ :=
  rounded_sim3Exp_translation eps64 0 0 0 0 0 ⟨⟨1, 2, 3⟩, x0, 7 / 10⟩ eps64_pos.le (by unfold eps64; norm_num)
    (by rw [abs_of_pos (by norm_num)]; norm_num) (by norm_num) le_rfl (sim3Exp eps64 ⟨⟨1, 2, 3⟩, x0, 7 / 10⟩) _
    (Or.inl ⟨by simp [sim3Exp, rxso3Exp], by simp [sim3Exp, rxso3Exp], by simp [sim3Exp, rxso3Exp], by simp [sim3Exp, rxso3Exp]⟩)
    (by simp [sim3Exp, rxso3Exp]) (fun i => by simp) ⟨fun a b => by simp, fun a => by simp, fun j => rfl⟩ a

end
end PP
