"""C06, pass 3: more of the dispatch inside the model — torch's own broadcast loop, the op signature table
(result kind / ltype / full shape / raising branch of every op on every ltype), the memory effect of every handled
function, and the tables regenerated from the source (LieType table, syntactic purity table).  Deterministic."""
from __future__ import annotations

import warnings

import torch

from . import common, extract
from .util_batch import ALGEBRA, DIM, DT, GROUPS, LTYPES, ltype_name, ltype_of, numel, parse_out, pp, py_broadcast, wl


def C():
    from . import c06
    return c06


# ============================================================================= regenerated tables

def stream_static(ctx):
    """LieType table and syntactic purity table, re-read from the source with `ast` (harness/extract.py) at every run.
    Called by stream_regen's successor: rebuilds C06's targets when a generated file changed."""
    c06 = C()
    try:
        gen = extract.regenerate_all()
    except extract.ExtractError as e:
        ctx.disagree("static", {"kind": "static"}, f"the source cannot be read: {e}")
        return None
    if gen["changed"]:
        ctx.notes.append(f"generated files rewritten from the source: {gen['changed']}; rebuilding Proofs.Props.C06 drv_c06")
        ok, log = common.lake_build(["Proofs.Props.C06", "drv_c06"])
        if not ok:
            import re
            bad = re.findall(r"error: (\S+\.lean:\d+:\d+: .*)", log)
            ctx.disagree("static", {"kind": "static", "changed": gen["changed"]},
                         "obligations over the regenerated tables no longer check: " + "; ".join(bad[:4]) + log[-300:])
    # --- LieType table: source literal == runtime objects == table compiled into the driver
    rows = gen["ltypes"]
    rep = ctx.driver.run(["c06.ltypes"])[0]
    st, toks = common.parse_reply(rep)
    want = [f"{n}:{d}:{e}:{m}" for n, d, e, m in rows]
    if st != "ok" or toks != want:
        ctx.disagree("static", {"kind": "static", "what": "ltypes"}, f"LieType table compiled into the driver {toks} differs from the source {want}")
    by_class = {n: (d, e, m) for n, d, e, m in rows}
    for lt in LTYPES:
        t = ltype_of(lt)
        got = (t.dimension[0], t.embedding[0], t.manifold[0])
        cn = type(t).__name__
        ctx.note_case(("static", "ltype", lt), True)
        ctx.count("static.ltype")
        grp = lt if lt in GROUPS else [g for g, a in ALGEBRA.items() if a == lt][0]
        documented = (DIM[lt], DIM[grp], DIM[ALGEBRA[grp]])          # tables of pypose.LieTensor: embedding = the group's width, manifold = the algebra's
        if by_class.get(cn) != got or got != documented or t.on_manifold != (lt not in GROUPS):
            ctx.fail({"kind": "static", "what": "ltype", "lt": lt},
                     f"ltype-table: pp.{lt}_type is a {cn} with (dimension, embedding, manifold) = {got}, on_manifold={t.on_manifold}; "
                     f"source literal {by_class.get(cn)}, documented {documented}")
    # --- purity table
    flagged = [(f, q, s) for f, q, pub, und, s in gen["purity"] if pub and not und and s]
    ctx.count("static.functions", len(gen["purity"]))
    ctx.count("static.inplace_functions_seen", len([1 for r in gen["purity"] if r[4]]))
    for f, q, s in flagged:
        ctx.disagree("static", {"kind": "static", "what": "purity", "function": q, "file": f},
                     f"source purity: `{q}` ({f}) has no trailing underscore but writes in place through a possible alias of an argument at {s}")
    # --- module-level state (round 5, classes 32 / 29): mirrors the Lean obligation `shared_state_clean` so that it is also decided with --no-lean
    g = gen["globals"]
    REVIEWED_DEFAULTS = {("lietensor/lietensor.py", "LieTensor.__torch_function__", "kwargs={}")}      # never written: only forwarded as **kwargs
    ctx.count("static.cached_functions", len(g["cached"]))
    ctx.count("static.tensor_constants", len(g["consts"]))
    for f, q, d in g["cached"]:
        ctx.disagree("static", {"kind": "static", "what": "cached", "function": q, "file": f},
                     f"shared state: `{q}` ({f}) is decorated with `{d}`: every caller receives the SAME object; not in the reviewed list")
    for f, q, site in g["writes"]:
        ctx.disagree("static", {"kind": "static", "what": "shared-write", "function": q, "file": f},
                     f"shared state: `{q}` ({f}) writes in place through a possible alias of module-level / cached state at {site} "
                     f"(`.expand(...)` / `.contiguous()` / `.view` of a constant make no copy for single-item shapes)")
    for f, q, d in g["defaults"]:
        if (f, q, d) not in REVIEWED_DEFAULTS:
            ctx.disagree("static", {"kind": "static", "what": "mutable-default", "function": q, "file": f},
                         f"shared state: `{q}` ({f}) has the mutable default `{d}` — shared by every call that omits the argument")
    # --- pass 8 (50): creations that name no device
    REVIEWED_NO_DEVICE = {
        ("lietensor/lietensor.py", "Parameter.__new__", "torch.tensor([])"),              # `pp.Parameter()` without data: as `nn.Parameter()`
        ("lietensor/convert.py", "mat2SO3", "torch.tensor(mat)"), ("lietensor/convert.py", "mat2SE3", "torch.tensor(mat)"),      # conversion of a NON-tensor
        ("lietensor/convert.py", "mat2Sim3", "torch.tensor(mat)"), ("lietensor/convert.py", "mat2RxSO3", "torch.tensor(mat)"),  # argument (lists / numpy):
        ("lietensor/convert.py", "from_matrix", "torch.tensor(mat)"), ("lietensor/convert.py", "euler2SO3", "torch.tensor(euler)"),  # no operand device exists
        # OBSERVATION (not exercisable on this CPU-only box, metric code): `torch.zeros(1, dtype=trans.dtype)` is concatenated with
        # tensors on the trajectory's device — on CUDA trajectories `torch.cat` raises; recorded in notes/C06.md, pass 8
        ("metric/ape_rpe.py", "StampedSE3.accumulated_distances", "torch.zeros(1, dtype=trans.dtype)"),
    }
    nodev = extract.read_nodevice()
    ctx.count("static.creations_without_device", len(nodev))
    # OBSERVATIONS only (pass 9): a creator without `device=` / `dtype=` may be a 0-dim constant used as a scalar (device- and dtype-neutral);
    # the `devices` and `defaults` streams decide on real calls
    for f, q, call in nodev:
        if (f, q, call) not in REVIEWED_NO_DEVICE:
            ctx.count("static.observation.no_device")
            ctx.notes.append(f"observation (syntactic, not an obligation): `{q}` ({f}) creates a tensor with `{call}` — neither `device=` nor **kwargs; "
                             f"decided by stream `devices`")
    REVIEWED_CREATIONS = {("lietensor/lietensor.py", "LieTensor.__new__", "Tensor(*data)"), ("lietensor/lietensor.py", "Parameter.__new__", "torch.tensor([])"),
                          ("lietensor/convert.py", "mat2SO3", "torch.tensor(mat)"), ("lietensor/convert.py", "mat2SE3", "torch.tensor(mat)"),
                          ("lietensor/convert.py", "mat2Sim3", "torch.tensor(mat)"), ("lietensor/convert.py", "mat2RxSO3", "torch.tensor(mat)"),
                          ("lietensor/convert.py", "from_matrix", "torch.tensor(mat)"), ("lietensor/convert.py", "euler2SO3", "torch.tensor(euler)"),
                          ("metric/ape_rpe.py", "matching_time_indices", "torch.arange(len(stamps_1), device=stamps_1.device)")}
    for f, q, call, kind in gen["creations"]:
        if kind == "implicit" and (f, q, call) not in REVIEWED_CREATIONS:
            ctx.count("static.observation.implicit_dtype")
            ctx.notes.append(f"observation (syntactic, not an obligation): `{q}` ({f}) creates a tensor with `{call}` whose dtype is the process default; "
                             f"decided by stream `defaults` (float64 default dtype)")
    if not any(q == "LieTensor.add_" and s for _, q, _, _, s in gen["purity"]):
        ctx.disagree("static", {"kind": "static", "what": "purity-vacuous"}, "the purity analyser no longer sees the in-place API (LieTensor.add_)")
    return gen


# ============================================================================= torch's broadcast loop

def stream_torchb(ctx):
    c06 = C()
    shapes = c06.SHAPES
    pairs = [(a, b) for a in shapes for b in shapes]
    extra = c06.BIG + c06.CORE[:6]
    pairs += [(a, b) for a in extra for b in c06.BIG] + [(b, a) for a in c06.CORE[:6] for b in c06.BIG]
    if ctx.quick:
        pairs = [p for k, p in enumerate(pairs) if k % 3 == 0 or py_broadcast(*p) is not None and k % 2 == 0] + pairs[-150:]
    reps = ctx.driver.run([f"c06.torchbshape {wl(a)} {wl(b)}" for a, b in pairs])
    for (a, b), rep in zip(pairs, reps):
        m = parse_out(rep)
        try:
            t = tuple(torch.broadcast_shapes(a, b))
        except RuntimeError:
            t = None
        ctx.count("torchb")
        if (m["shape"] if m else None) != t:
            ctx.disagree("torchb", {"kind": "torchb", "sa": list(a), "sb": list(b)},
                         f"torch.broadcast_shapes{a, b} = {t}, model of torch's loop gives {m and m['shape']}")
    ctx.note_case(("torchb", len(pairs)), True)


# ============================================================================= op signature table

OPS = ["Exp", "Log", "Inv", "Mul", "Act3", "Act4", "Retr", "Adj", "AdjT", "Jinvp", "add", "matrix", "rotation", "translation", "scale",
       "euler", "tensor", "Jr", "quat2unit", "identityLike", "randnLike"]


def _call_op(op, X, lt, ls, dtype):
    P = pp()
    c06 = C()
    alg = ALGEBRA.get(lt, lt)

    def pool(kind, width=None):
        t = c06.POOLS.get(kind, dtype)
        n = max(numel(ls), 1)
        idx = torch.arange(n) % t.shape[0]
        return t[idx].reshape(tuple(ls) + (t.shape[1],)).clone() if numel(ls) or not ls else t[:0].reshape(tuple(ls) + (t.shape[1],)).clone()
    if op in ("Exp", "Log", "Inv", "matrix", "rotation", "translation", "scale", "euler", "tensor", "Jr"):
        return getattr(X, op)()
    if op == "quat2unit":
        return P.quat2unit(X)
    if op == "identityLike":
        return P.identity_like(X, dtype=X.dtype)
    if op == "randnLike":
        return P.randn_like(X)
    if op == "Mul":
        return X @ X.clone()
    if op == "Act3":
        return X.Act(pool("p3"))
    if op == "Act4":
        return X.Act(pool("p4"))
    if op == "Retr":
        return X.Retr(c06._lie(pool(alg), alg))
    if op in ("Adj", "AdjT", "Jinvp"):
        return getattr(X, op)(c06._lie(pool(alg), alg))
    if op == "add":
        return X + pool(alg)
    raise KeyError(op)


def stream_sig(ctx):
    """every op x every ltype x several lshapes: result kind, ltype, FULL shape and the raising branch, implementation vs
    the model's signature table (`sig`, `Res.shape`, `initOk`)"""
    P = pp()
    c06 = C()
    cases, lines = [], []
    for lt in LTYPES:
        for li, ls in enumerate([(), (3,), (2, 0), (DIM[lt],), (2, 1, 3)]):
            for oi, op in enumerate(OPS):
                if ctx.quick and li >= 2 and (li + oi) % 2:
                    continue
                cases.append((lt, ls, op, ["float64", "float32"][(li + oi) % 2]))
                lines.append(f"c06.sig {op} {lt} {wl(ls)}")
    reps = ctx.driver.run(lines)
    with warnings.catch_warnings():
        warnings.simplefilter("ignore")
        for (lt, ls, op, dtype), rep in zip(cases, reps):
            case = {"kind": "sig", "lt": lt, "s": list(ls), "op": op, "dtype": dtype}
            ctx.note_case(("sig", lt, ls, op), True)
            ctx.count("sig")
            n = numel(ls)
            base = c06.POOLS.get(lt, dtype)
            xt = base[torch.arange(max(n, 1)) % base.shape[0]][:n if ls else 1].reshape(tuple(ls) + (DIM[lt],)).clone()
            X = c06._lie(xt, lt)
            st, toks = common.parse_reply(rep)
            try:
                r = _call_op(op, X, lt, ls, dtype)
                got = ("lie", ltype_name(r.ltype), tuple(r.shape)) if isinstance(r, P.LieTensor) else ("tensor", "-", tuple(r.shape))
            except (AttributeError, NotImplementedError, AssertionError) as e:
                got = ("raise", type(e).__name__)
            except Exception as e:
                ctx.fail(case, f"raises: {lt}.{op} on lshape {ls} raises {type(e).__name__}: {str(e)[:80]}")
                continue
            if st != "ok":
                want = ("raise",)
            else:
                r_ = toks.index("S")
                rank = int(toks[r_ + 1])
                want = (toks[0], toks[1], tuple(int(t) for t in toks[r_ + 2:r_ + 2 + rank]))
                if toks[0] == "lie" and toks[-1] != "init-ok":
                    ctx.disagree("sig", case, f"model: the result of {lt}.{op} would fail LieTensor.__init__'s shape assertion: {rep}")
            if got[0] != want[0] or (got[0] != "raise" and got != want):
                ctx.disagree("sig", case, f"{lt}.{op} on lshape {ls}: implementation {got}, model signature {want}")
                # the documented result (tables of pypose.LieTensor / the op's docstring) is what the model holds
                if got[0] != "raise" and want[0] != "raise":
                    ctx.fail(case, f"signature: {lt}.{op} on lshape {ls} returns {got[0]} {got[1]} of shape {got[2]}, documented {want[0]} {want[1]} of shape {want[2]}")
                elif want[0] != "raise":
                    ctx.fail(case, f"signature: {lt}.{op} on lshape {ls} raises {got[1]}, documented result {want[0]} {want[1]} of shape {want[2]}")
                else:
                    ctx.fail(case, f"signature: {lt}.{op} on lshape {ls} returns a value ({got}) where the ltype documents no such operation")


# ============================================================================= memory effects of the handled functions

def stream_effects(ctx, names=None):
    """every handled function on real tensors: does the result share memory with the first operand, is it the first
    operand, were operands written?  vs the model's effect table (`effectOf ∘ semOf`): `fresh` ⇒ no sharing; `inplace` ⇒
    the result is the first operand (or None) and only it was written; everything else ⇒ no operand written."""
    P = pp()
    c06 = C()
    from . import util_handled as UH
    if names is None:
        from pypose.lietensor import lietensor as L
        names = list(L.HANDLED_FUNCTIONS)
    todo = [n for n in sorted(set(names)) if n in c06.RECIPES and n not in c06.NO_CALLABLE and not (n == "cuda" and not torch.cuda.is_available())]
    reps = ctx.driver.run([f"c06.effect {n}" for n in todo])
    rng = c06.det_rng()
    UH.EXTENTS = [1, 2, 3, 2, 3]
    try:
        with warnings.catch_warnings():
            warnings.simplefilter("ignore")
            for n, rep in zip(todo, reps):
                st, toks = common.parse_reply(rep)
                if st != "ok":
                    ctx.disagree("effects", {"kind": "effects", "name": n}, f"handled function `{n}` has no memory effect in the model: {rep}")
                    continue
                eff, conv = toks[0], toks[1]
                py_conv = "underscore" if ((n.endswith("_") and not n.endswith("__")) or n == "__setitem__") else "plain"
                if conv != py_conv or (eff == "inplace") != (py_conv == "underscore"):
                    ctx.disagree("effects", {"kind": "effects", "name": n}, f"`{n}`: model effect {eff}/{conv}, naming convention says {py_conv}")
                for k in range(ctx.pick(3, 12)):
                    c = UH.gen(rng, n)
                    c.update({"kind": "effects", "lt": LTYPES[(k + len(n)) % 8], "dtype": "float64", "param": False})
                    if numel(c["s"]) == 0:
                        continue
                    b = UH.build(c)
                    ins = [t for t, _ in b["inputs"]]
                    before = [c06._plain(t).clone() for t in ins]
                    ctx.note_case(("effects", n, k), True)
                    ctx.count(f"effects.{eff}")
                    try:
                        r = b["call"](ins)
                    except Exception as e:
                        ctx.fail(c, f"handled-raises: {n} raises {type(e).__name__}: {str(e)[:80]}")
                        continue
                    outs = c06._flatten_result(r)
                    written = [k2 for k2, (t, t0) in enumerate(zip(ins, before)) if not torch.equal(c06._plain(t), t0)]
                    if eff == "inplace":
                        if r is not None and r is not ins[0]:
                            ctx.fail(c, f"effects: in-place {n} did not return its first operand")
                        if any(k2 != 0 for k2 in written):
                            ctx.fail(c, f"mutation: in-place {n} wrote into operand #{[k2 for k2 in written if k2][0]} (only `self` may change)")
                    else:
                        if written:
                            ctx.fail(c, f"mutation: {n} (no trailing underscore) wrote into its operand #{written[0]}")
                        if eff == "fresh":
                            for o in outs:
                                if o.numel() and any(t.numel() and c06._plain(o).untyped_storage().data_ptr() == c06._plain(t).untyped_storage().data_ptr() for t in ins):
                                    ctx.fail(c, f"effects: the result of {n} shares memory with an operand; the model (and torch's documentation) say it is new memory")
    finally:
        UH.EXTENTS = [0, 1, 2, 3, 2, 3]


# ============================================================================= deep nesting of retain_ltype

def deep_bodies():
    out = []
    for depth in (5, 12, 40):
        for inner in (["r"], ["x"], ["c0", "c1", "c2", "r"], ["c2", "x"]):
            out.append(["n"] * depth + inner + ["r"] * depth)
        out.append(["n"] * depth + ["c1", "r"] + ["c0", "x"] + ["r"] * (depth - 1))       # raises on the way out, one level up
    return out


# ============================================================================= audit M2 / M4: dispatch details

def stream_dispatch(ctx):
    """M4: what `*` / `@` / `.mul` / `pp.mul` return for every KIND of partner (group LieTensor, algebra LieTensor, plain tensor
    of width 3 / 4 / other, python scalar) vs the model's `mulSig`;  M2: which python object a handled function returns when a
    pp.Parameter is among the operands (`cls = Parameter` ⇒ a LieTensor result is wrapped again) vs `torchFunctionCls`."""
    P = pp()
    c06 = C()
    cases, lines = [], []
    for lt in LTYPES:
        d = DIM[lt]
        grp = lt in GROUPS
        partners = [("same", 0, lambda dt, ls, lt=lt: c06._lie(_fill(c06.POOLS.get(lt, dt), ls), lt))]
        for a in ("so3", "rxso3", "se3"):
            partners.append(("lie", a, (lambda dt, ls, a=a: c06._lie(_fill(c06.POOLS.get(a, dt), ls), a))))
        for w, kind in ((3, "p3"), (4, "p4")):
            partners.append(("tensor", w, (lambda dt, ls, kind=kind: _fill(c06.POOLS.get(kind, dt), ls))))
        partners.append(("tensor", 5, lambda dt, ls: torch.ones(tuple(ls) + (5,), dtype=DT[dt])))
        partners.append(("scalar", 0, lambda dt, ls: 2.5))
        if not grp:      # algebra: element-wise product, partner widths d (same) or 1
            partners = [("same", 0, partners[0][2]), ("tensor", 1, lambda dt, ls: torch.full(tuple(ls) + (1,), 2.0, dtype=DT[dt])), ("scalar", 0, lambda dt, ls: 2.5)]
        for ls in [(), (3,), (2, 0)]:
            for kind, w, mkp in partners:
                for spell, f in (("*", lambda X, y: X * y), ("@", lambda X, y: X @ y), ("pp.mul", lambda X, y: P.mul(X, y))):
                    if spell == "@" and kind != "same" and kind != "lie":
                        continue          # `@` with a non-LieTensor is documented as Act: covered by the act sites
                    cases.append((lt, ls, kind, w, mkp, spell, f))
                    lines.append(f"c06.mulsig {lt} {kind} {w} {wl(ls)}")
    reps = ctx.driver.run(lines)
    with warnings.catch_warnings():
        warnings.simplefilter("ignore")
        for (lt, ls, kind, w, mkp, spell, f), rep in zip(cases, reps):
            case = {"kind": "dispatch", "what": "mul", "lt": lt, "s": list(ls), "partner": kind, "width": w, "spelling": spell}
            ctx.note_case(("dispatch", lt, ls, kind, w, spell), True)
            ctx.count("dispatch.mul")
            X = c06._lie(_fill(c06.POOLS.get(lt, "float64"), ls), lt)
            st, toks = common.parse_reply(rep)
            try:
                r = f(X, mkp("float64", ls))
                got = ("lie", ltype_name(r.ltype), tuple(r.shape)) if isinstance(r, P.LieTensor) else ("tensor", "-", tuple(r.shape))
            except (AssertionError, NotImplementedError, AttributeError, TypeError) as e:
                got = ("raise", type(e).__name__)
            except Exception as e:
                got = ("raise", type(e).__name__)
            if st != "ok":
                want = ("raise",)
            else:
                i = toks.index("S")
                want = (toks[0], toks[1], tuple(int(t) for t in toks[i + 2:i + 2 + int(toks[i + 1])]))
            if kind == "lie" and lt in GROUPS and got[0] != "raise" and want[0] != "raise":
                # an algebra LieTensor taken for points (exotic; scope rule): only the shape is modelled — SO3 tags the result with the
                # partner's ltype, the other groups return a plain tensor
                ctx.count("dispatch.observation.algebra_partner_taken_for_points." + got[0])
                got, want = ("any", "-", got[2]), ("any", "-", want[2])
            if got[0] != want[0] or (got[0] != "raise" and got != want):
                ctx.disagree("dispatch", case, f"{lt} {spell} ({kind} partner, width {w}) on lshape {ls}: implementation {got}, model mulSig {want}")
    # ---- M2
    idx = torch.tensor([1, 0])
    recipes = [("copy_", lambda X, Pm: (torch.Tensor.copy_, (X, Pm))), ("copy_", lambda X, Pm: (torch.Tensor.copy_, (X, Pm.detach()))),
               ("index_copy_", lambda X, Pm: (torch.Tensor.index_copy_, (X, 0, idx, Pm))), ("cat", lambda X, Pm: (torch.cat, ([X, Pm],))),
               ("cat", lambda X, Pm: (torch.cat, ([Pm, X],))), ("clone", lambda X, Pm: (torch.clone, (Pm,))), ("detach", lambda X, Pm: (torch.detach, (Pm,))),
               ("index_select", lambda X, Pm: (torch.index_select, (Pm, 0, idx))), ("copy_", lambda X, Pm: (torch.Tensor.copy_, (Pm, X))),
               ("sum", lambda X, Pm: (torch.sum, (Pm, 0))), ("unbind", lambda X, Pm: (torch.unbind, (Pm, 0)))]
    lines, metas = [], []
    with warnings.catch_warnings():
        warnings.simplefilter("ignore")
        for lt in LTYPES:
            k = LTYPES.index(lt)
            for name, rec in recipes:
                X = c06._lie(c06.POOLS.get(lt, "float64")[:2].clone(), lt)
                Pm = P.Parameter(c06._lie(c06.POOLS.get(lt, "float64")[2:4].clone(), lt), requires_grad=False)
                fn, args = rec(X, Pm)
                flat = c06.flat_leaves(list(args))

                def code(o):
                    if type(o) is P.Parameter:
                        return f"P{k}"
                    if isinstance(o, P.LieTensor):
                        return f"L{k}"
                    return "T" if isinstance(o, torch.Tensor) else "O"
                acodes = [code(a) for a in flat]
                case = {"kind": "dispatch", "what": "cls", "lt": lt, "name": name, "args": acodes}
                ctx.note_case(("dispatch", "cls", lt, name, tuple(acodes)), True)
                ctx.count("dispatch.cls")
                try:
                    r = fn(*args)
                except Exception as e:
                    ctx.fail(case, f"tf-raises: torch.{name} with operand kinds {acodes} raises {type(e).__name__}: {str(e)[:80]}")
                    continue
                outs = c06.flat_leaves(r)
                pre, got = [], []
                for o in outs:
                    same = [a for a in flat if a is o]
                    share = [a for a in flat if isinstance(a, torch.Tensor) and isinstance(o, torch.Tensor) and o.numel() and a.data_ptr() == o.data_ptr() and a.shape == o.shape]
                    # what Tensor.__torch_function__ handed back: the operand itself for in-place functions, else a plain tensor
                    src = same[0] if same else (share[0] if share and name.endswith("_") else None)
                    pre.append(code(src) if src is not None else ("T" if isinstance(o, torch.Tensor) else "O"))
                    got.append(code(o) + ("" if same or src is None or not name.endswith("_") else "!"))
                lines.append(f"c06.tfc {name} {' '.join(acodes)} | {' '.join(pre)}")
                metas.append((case, got, pre))
                for o in outs:
                    if isinstance(o, torch.Tensor) and name in ("copy_", "index_copy_", "cat", "clone", "detach", "index_select", "unbind") and \
                            (not isinstance(o, P.LieTensor) or o.ltype is not ltype_of(lt)):
                        ctx.fail(case, f"ltype: handled {name} with a pp.Parameter operand returned {type(o).__name__} / {ltype_name(getattr(o, 'ltype', None))}")
    for rep, (case, got, pre) in zip(ctx.driver.run(lines), metas):
        st, toks = common.parse_reply(rep)
        # identity is only observable for in-place functions (result shares the operand's storage): compare kinds always, `!` there
        want = toks if st == "ok" else None
        g2 = [g.rstrip("!") for g in got]
        w2 = [w.rstrip("!") for w in want] if want else None
        if g2 != w2 or (case["name"].endswith("_") and got != want):
            ctx.disagree("dispatch", case, f"torch.{case['name']} {case['args']}: implementation returns {got} (`!` = a new python object), model torchFunctionCls {want}")
        if any(g.endswith("!") for g in got):
            ctx.count("dispatch.observation.inplace_result_is_not_self_with_Parameter_operand")


def _fill(pool, ls):
    n = numel(ls)
    if n == 0:
        return pool[:0].reshape(tuple(ls) + (pool.shape[1],)).clone()
    return pool[torch.arange(n) % pool.shape[0]].reshape(tuple(ls) + (pool.shape[1],)).clone()
