import Proofs.Lemmas.Lqr
import Mathlib.Analysis.Calculus.Deriv.Pow
import Mathlib.Analysis.Calculus.Deriv.Mul
import Mathlib.Analysis.Calculus.Deriv.Add
/-!
# C14 — LQR returns the feasible global minimiser of the LQ problem; MPC agrees with it

Property theorems only (helpers: `Proofs/Lemmas/Lqr.lean`).  The model is `Pose/Model/Lqr.lean` at `α = ℝ`.
`simulate S P t x us` is the *specification*: the states reached and the summed stage costs
`Σ ½ τᵀQ_tτ + p_tᵀτ` when the inputs `us` are applied from `x` at time `t`.
All theorems hold for every state/input dimension, every horizon, time-varying data, every nominal
trajectory and every clock value at entry; the Cholesky solve is a contract parameter (`SolverOK`).

SCOPE of the optimality family (`hlin`): the backward pass linearises at time `s·dt` (`set_refpoint(t=t*dt)`), the roll-outs
advance the clock by one per step. The theorems therefore assume `A (s·dt) = A s ∧ B (s·dt) = B s` for the steps the
backward pass reads (`s + 1 < T`): true for LTI systems with any `dt` and for LTV systems with `dt = 1`
(`hlin_lti`, `hlin_dt_one`, and the hypothesis-free corollaries `*_ltv`). For an indexed LTV with `dt ≠ 1` the real code
is NOT optimal (observed: T = 4, dt = 2: gradient 53, cost 45.4 vs ≈ 3.7) — the property text does not mention `dt`;
recorded as an observation in notes/C14.md. The model has `dt : Nat`; real `dt` may be a float (LTI: irrelevant;
`LTV.set_refpoint` truncates a float time into its int64 clock).

Statements that are true by construction of the model (clock / history / copies) and bookkeeping lemmas live in
`Proofs/Lemmas/Lqr.lean`, Part 9; independence of earlier calls is decided by the harness' history stream.
-/
open PP PP.Lqr Matrix

namespace PP.Lqr
variable {ns nc : Nat}

/-! ### what `simulate` means -/

theorem simulate_length (S : Sys ℝ ns nc) (P : Prob ℝ ns nc) (us : List (Vec ℝ nc)) : ∀ (t : Nat) (x : Vec ℝ ns),
    (simulate S P t x us).1.length = us.length := by
  induction us with
  | nil => intro t x; rfl
  | cons u us ih => intro t x; rw [simulate_cons]; simp [ih]

/-- every simulated state is the system's transition of the previous one -/
theorem simulate_transition (S : Sys ℝ ns nc) (P : Prob ℝ ns nc) (us : List (Vec ℝ nc)) :
    ∀ (t : Nat) (x : Vec ℝ ns) (j : Nat), j < us.length →
      nth (x :: (simulate S P t x us).1) (j+1)
        = S.f (t + j) (nth (x :: (simulate S P t x us).1) j) (nth us j) := by
  induction us with
  | nil => intro t x j h; simp at h
  | cons u us ih =>
    intro t x j h
    rw [simulate_cons]
    cases j with
    | zero => simp [nth]
    | succ j =>
      have := ih (t+1) (S.f t x u) j (by simpa using h)
      rw [nth_cons_succ, this, nth_cons_succ, nth_cons_succ]
      have e : t + 1 + j = t + (j + 1) := by omega
      rw [e]

/-- the simulated cost is the sum of the stage costs along the simulated trajectory -/
theorem simulate_cost (S : Sys ℝ ns nc) (P : Prob ℝ ns nc) (us : List (Vec ℝ nc)) :
    ∀ (t : Nat) (x : Vec ℝ ns),
      (simulate S P t x us).2
        = ∑ j ∈ Finset.range us.length, stageCost P (t + j) (nth (x :: (simulate S P t x us).1) j) (nth us j) := by
  induction us with
  | nil => intro t x; simp [simulate]
  | cons u us ih =>
    intro t x
    have e := ih (t+1) (S.f t x u)
    rw [simulate_cons]
    simp only [List.length_cons]
    rw [Finset.sum_range_succ', e, add_comm]
    refine congrArg₂ (fun a b : ℝ => a + b) ?_ ?_
    · apply Finset.sum_congr rfl
      intro j _
      rw [nth_cons_succ, nth_cons_succ, show t + 1 + j = t + (j + 1) by omega]
    · rw [nth_cons_zero, nth_cons_zero, Nat.add_zero]

/-- the stage cost of the model is `½ τᵀ Q_t τ + p_tᵀ τ` with `τ = (x, u)` (Mathlib `dotProduct` / `mulVec`) -/
theorem stageCost_meaning (P : Prob ℝ ns nc) (t : Nat) (x : Vec ℝ ns) (u : Vec ℝ nc) :
    stageCost P t x u
      = (1:ℝ)/2 * (app (toFn x) (toFn u) ⬝ᵥ toM (P.Q t) *ᵥ app (toFn x) (toFn u)) + app (toFn x) (toFn u) ⬝ᵥ toFn (P.p t) :=
  stageCost_eq P t x u

/-! ### clause 1–3: starts at `x_init`, satisfies the transition, reported cost = sum of stage costs
(ANY system — linear or nonlinear —, any solver, any nominal trajectory) -/

theorem cost_reported (sol : Solver ℝ ns nc) (S : Sys ℝ ns nc) (P : Prob ℝ ns nc) (dt : Nat) (x0 : Vec ℝ ns)
    (ubar : Nat → Vec ℝ nc) :
    (lqr sol S P dt x0 ubar).x = x0 :: (simulate S P 0 x0 (lqr sol S P dt x0 ubar).u).1 ∧
    (lqr sol S P dt x0 ubar).cost = (simulate S P 0 x0 (lqr sol S P dt x0 ubar).u).2 ∧
    (lqr sol S P dt x0 ubar).u.length = P.T := by
  unfold lqr lqrAt resetClock
  simp only
  set xbar := nth (rollFrom S ubar 0 0 P.T x0)
  set gs := (bwFrom sol S P dt xbar ubar 0 P.T).2 with hgs
  have h := fwFrom_sim S P xbar ubar gs 0 x0
  refine ⟨?_, ?_, ?_⟩
  · rw [h]
  · rw [h]
  · rw [fwFrom_length, hgs, bwFrom_length]

/-- explicit form: `x[0] = x_init`, `x[t+1] = f_t(x[t], u[t])` for every `t < T`, and the reported cost is
`Σ_{t<T} ½ τ_tᵀQ_tτ_t + p_tᵀτ_t` along the returned sequences -/
theorem lqr_feasible (sol : Solver ℝ ns nc) (S : Sys ℝ ns nc) (P : Prob ℝ ns nc) (dt : Nat) (x0 : Vec ℝ ns)
    (ubar : Nat → Vec ℝ nc) :
    let o := lqr sol S P dt x0 ubar
    nth o.x 0 = x0 ∧ (∀ t, t < P.T → nth o.x (t+1) = S.f t (nth o.x t) (nth o.u t)) ∧
    o.cost = ∑ t ∈ Finset.range P.T, stageCost P t (nth o.x t) (nth o.u t) := by
  intro o
  obtain ⟨hx, hc, hl⟩ := cost_reported sol S P dt x0 ubar
  refine ⟨?_, ?_, ?_⟩
  · show nth o.x 0 = x0
    rw [show o.x = _ from hx, nth_cons_zero]
  · intro t ht
    have := simulate_transition S P o.u 0 x0 t (by rw [show o.u.length = _ from hl]; exact ht)
    rw [show o.x = _ from hx]
    simpa using this
  · have := simulate_cost S P o.u 0 x0
    rw [show o.cost = _ from hc, this, show o.u.length = _ from hl, show o.x = _ from hx]
    simp
    rfl

/-! ### clause 4: global minimiser (linear time-varying systems, PD `Q_t`, all dimensions and horizons) -/

/-! ### the gain matrices belong to the problem -/

/-- **`K_t` (and the `Quu_t`, `Qux_t` handed to Cholesky) do not depend on the nominal trajectory nor on the start**: for every linear
(time-varying) system, every cost, every solver — no positivity, no contract, no scope hypothesis needed — two solves with different
`u_traj` and different `x_init` compute the same list of `(K_t, Quu_t, Qux_t)`. Only `k_t` carries the nominal (the delta formulation);
this is what lets the `gains` stream compare `K` across nominals and what makes `cholesky_precondition` a statement about the problem. -/
theorem gains_independent_of_nominal_and_start (sol : Solver ℝ ns nc)
    (A : Nat → Mat ℝ ns ns) (B : Nat → Mat ℝ ns nc) (c : Nat → Vec ℝ ns) (P : Prob ℝ ns nc) (dt : Nat)
    (x0 x0' : Vec ℝ ns) (ubar ubar' : Nat → Vec ℝ nc) :
    (lqr sol (Sys.linear A B c) P dt x0' ubar').gains.map (fun g => (g.K, g.Quu, g.Qux))
      = (lqr sol (Sys.linear A B c) P dt x0 ubar).gains.map (fun g => (g.K, g.Quu, g.Qux)) := by
  unfold lqr lqrAt
  simp only
  exact (bwFrom_KV_indep sol A B c P dt _ _ ubar' ubar P.T 0).2

/-- hence the final solve of `MPC.forward` on a linear system uses the gain matrices of the plain LQR solve, whatever the loop did -/
theorem mpc_linear_gains (sol : Solver ℝ ns nc)
    (A : Nat → Mat ℝ ns ns) (B : Nat → Mat ℝ ns nc) (c : Nat → Vec ℝ ns) (P : Prob ℝ ns nc) (dt : Nat)
    (x0 : Vec ℝ ns) (fuel : Nat) (st : Stepper ℝ) (uinit : Option (List (Vec ℝ nc))) (ubar : Nat → Vec ℝ nc) :
    (mpc sol (Sys.linear A B c) P dt x0 fuel st uinit).1.gains.map (fun g => (g.K, g.Quu, g.Qux))
      = (lqr sol (Sys.linear A B c) P dt x0 ubar).gains.map (fun g => (g.K, g.Quu, g.Qux)) := by
  rw [mpc_is_lqr]
  exact gains_independent_of_nominal_and_start sol A B c P dt x0 x0 ubar _

/-- non-vacuity: the statement has no hypotheses; a concrete instance (identity costs, `dt = 3`, two different constant nominals) -/
example (sol : Solver ℝ ns nc) (A : Nat → Mat ℝ ns ns) (B : Nat → Mat ℝ ns nc) (c : Nat → Vec ℝ ns) (x0 x0' : Vec ℝ ns)
    (u1 u2 : Vec ℝ nc) :
    (lqr sol (Sys.linear A B c) ⟨5, fun _ => idMat (ns + nc), fun _ => vzero⟩ 3 x0' (fun _ => u2)).gains.map (fun g => (g.K, g.Quu, g.Qux))
      = (lqr sol (Sys.linear A B c) ⟨5, fun _ => idMat (ns + nc), fun _ => vzero⟩ 3 x0 (fun _ => u1)).gains.map (fun g => (g.K, g.Quu, g.Qux)) :=
  gains_independent_of_nominal_and_start sol A B c _ 3 x0 x0' _ _

/-- **the gain matrices are a function of `(A_t, B_t, Q_t, T, dt)` alone** (generalises `gains_independent_of_nominal_and_start`): two
solves that share the dynamics matrices, the horizon and the quadratic weights compute the same `(K_t, Quu_t, Qux_t)` whatever the
linear cost terms `p_t`, `p'_t`, the affine system offsets `c1_t`, `c1'_t`, the nominals and the starts are — no positivity, no solver
contract, no scope hypothesis. All of `p`, `c1`, `u_traj`, `x_init` enter through the feed-forward `k_t` only; in particular the
`Quu_t` handed to `cholesky` (hence whether the solve raises) is decided by `(A, B, Q)`. -/
theorem gains_depend_only_on_A_B_Q (sol : Solver ℝ ns nc)
    (A : Nat → Mat ℝ ns ns) (B : Nat → Mat ℝ ns nc) (c c' : Nat → Vec ℝ ns) (P P' : Prob ℝ ns nc) (dt : Nat)
    (hT : P'.T = P.T) (hQ : P'.Q = P.Q)
    (x0 x0' : Vec ℝ ns) (ubar ubar' : Nat → Vec ℝ nc) :
    (lqr sol (Sys.linear A B c') P' dt x0' ubar').gains.map (fun g => (g.K, g.Quu, g.Qux))
      = (lqr sol (Sys.linear A B c) P dt x0 ubar).gains.map (fun g => (g.K, g.Quu, g.Qux)) := by
  unfold lqr lqrAt
  simp only
  rw [hT]
  exact (bwFrom_KV_ABQ sol A B dt c' c P' P hQ _ _ ubar' ubar P.T 0).2

/-- non-vacuity: no hypotheses beyond sharing `T` and `Q`; a concrete instance with different `p`, different `c1`, different nominals
and starts (identity weights, `T = 5`, `dt = 3`) -/
example (sol : Solver ℝ ns nc) (A : Nat → Mat ℝ ns ns) (B : Nat → Mat ℝ ns nc) (c c' : Nat → Vec ℝ ns) (x0 x0' : Vec ℝ ns)
    (u1 u2 : Vec ℝ nc) (p1 p2 : Vec ℝ (ns + nc)) :
    (lqr sol (Sys.linear A B c') ⟨5, fun _ => idMat (ns + nc), fun _ => p2⟩ 3 x0' (fun _ => u2)).gains.map (fun g => (g.K, g.Quu, g.Qux))
      = (lqr sol (Sys.linear A B c) ⟨5, fun _ => idMat (ns + nc), fun _ => p1⟩ 3 x0 (fun _ => u1)).gains.map (fun g => (g.K, g.Quu, g.Qux)) :=
  gains_depend_only_on_A_B_Q sol A B c c' ⟨5, fun _ => idMat (ns + nc), fun _ => p1⟩ ⟨5, fun _ => idMat (ns + nc), fun _ => p2⟩ 3
    rfl rfl x0 x0' (fun _ => u1) (fun _ => u2)

/-! ### the error path: `cholesky` is never called outside its domain -/

/-- **accepted inputs satisfy the solver's precondition** (ANY system — linear or not —, any nominal, any clock): when
every `Q_t` is symmetric PSD with positive definite input block, every matrix `Quu` handed to `cholesky` in the
backward loop is symmetric positive definite, and every stored gain solves its stage system
`Quu K = -Qux`, `Quu k = -qu` (what the driver re-checks on its stand-in). -/
theorem cholesky_precondition (sol : Solver ℝ ns nc) (hsol : SolverOK sol) (S : Sys ℝ ns nc) (P : Prob ℝ ns nc) (dt : Nat)
    (x0 : Vec ℝ ns) (ubar : Nat → Vec ℝ nc) (hQ : ∀ s, s < P.T → CostOK (toM (P.Q s))) :
    ∀ g ∈ (lqr sol S P dt x0 ubar).gains, GainOK g := by
  unfold lqr lqrAt
  simp only
  exact (bwFrom_gains_ok sol S P dt _ ubar hsol P.T 0 (fun s _ h => hQ s (by omega))).2

/-! ### clause 4 at the exact guard of the code: `Q_t` symmetric positive SEMI-definite with positive definite input
block (`CostOK`; the classical `Q ⪰ 0, R ≻ 0` with cross terms) — every dimension, every horizon, time-varying
`A_t, B_t, c_t, Q_t, p_t`, any nominal. The `Q_t ≻ 0` theorems of the property are corollaries. -/

section optimalPSD
variable (sol : Solver ℝ ns nc) (hsol : SolverOK sol)
  (A : Nat → Mat ℝ ns ns) (B : Nat → Mat ℝ ns nc) (c : Nat → Vec ℝ ns) (P : Prob ℝ ns nc) (dt : Nat)
  (hQ : ∀ s, s < P.T → CostOK (toM (P.Q s)))
  (hlin : ∀ s, s + 1 < P.T → A (s * dt) = A s ∧ B (s * dt) = B s)
include hsol hQ hlin

/-- the exact cost gap: any other input sequence costs `Σ ½ dτᵀQ dτ ≥ 0` more -/
theorem lqr_gap_psd (x0 : Vec ℝ ns) (ubar : Nat → Vec ℝ nc) (us' : List (Vec ℝ nc)) (hl : us'.length = P.T) :
    (simulate (Sys.linear A B c) P 0 x0 us').2 - (lqr sol (Sys.linear A B c) P dt x0 ubar).cost
      = gap (Sys.linear A B c) P 0 x0 (lqr sol (Sys.linear A B c) P dt x0 ubar).u x0 us' := by
  unfold lqr lqrAt resetClock
  simp only
  set S := Sys.linear A B c
  set xbar := nth (rollFrom S ubar 0 0 P.T x0)
  have hnom : ∀ s, 0 ≤ s → s + 1 < 0 + P.T → xbar (s+1) = S.f s (xbar s) (ubar s) := by
    intro s _ h
    have := rollFrom_step S ubar P.T 0 0 x0 s (by omega)
    simpa using this
  obtain ⟨_, hid⟩ := opt_identity sol P dt xbar ubar hsol A B c P.T 0
    (fun s _ h => hQ s (by omega)) (fun s _ h => hlin s (by omega)) hnom
  have := hid x0 x0 us' hl
  rw [this]; simp
  rfl

/-- **LQR minimises the cost over all input sequences** -/
theorem lqr_optimal_psd (x0 : Vec ℝ ns) (ubar : Nat → Vec ℝ nc) (us' : List (Vec ℝ nc)) (hl : us'.length = P.T) :
    (lqr sol (Sys.linear A B c) P dt x0 ubar).cost ≤ (simulate (Sys.linear A B c) P 0 x0 us').2 := by
  have h := lqr_gap_psd sol hsol A B c P dt hQ hlin x0 ubar us' hl
  have hn := gap_nonneg (Sys.linear A B c) P (lqr sol (Sys.linear A B c) P dt x0 ubar).u us' 0 x0 x0
    (fun s _ h => (hQ s (by
      have := (cost_reported sol (Sys.linear A B c) P dt x0 ubar).2.2
      omega)).2.1)
  linarith

/-- the minimiser is unique: any input sequence with the same cost IS the returned one -/
theorem lqr_unique_psd (x0 : Vec ℝ ns) (ubar : Nat → Vec ℝ nc) (us' : List (Vec ℝ nc)) (hl : us'.length = P.T)
    (hc : (simulate (Sys.linear A B c) P 0 x0 us').2 ≤ (lqr sol (Sys.linear A B c) P dt x0 ubar).cost) :
    us' = (lqr sol (Sys.linear A B c) P dt x0 ubar).u := by
  have h := lqr_gap_psd sol hsol A B c P dt hQ hlin x0 ubar us' hl
  have hlen := (cost_reported sol (Sys.linear A B c) P dt x0 ubar).2.2
  have hn := gap_nonneg (Sys.linear A B c) P (lqr sol (Sys.linear A B c) P dt x0 ubar).u us' 0 x0 x0
    (fun s _ h => (hQ s (by omega)).2.1)
  apply gap_eq_zero (Sys.linear A B c) P _ us' 0 x0 (by omega) (fun s _ h => hQ s (by omega))
  linarith

/-- **independent of the nominal trajectory**: inputs, states and cost do not depend on `u_traj` -/
theorem nominal_independent_psd (x0 : Vec ℝ ns) (ubar ubar' : Nat → Vec ℝ nc) :
    (lqr sol (Sys.linear A B c) P dt x0 ubar').u = (lqr sol (Sys.linear A B c) P dt x0 ubar).u ∧
    (lqr sol (Sys.linear A B c) P dt x0 ubar').x = (lqr sol (Sys.linear A B c) P dt x0 ubar).x ∧
    (lqr sol (Sys.linear A B c) P dt x0 ubar').cost = (lqr sol (Sys.linear A B c) P dt x0 ubar).cost := by
  obtain ⟨hx', hc', hl'⟩ := cost_reported sol (Sys.linear A B c) P dt x0 ubar'
  obtain ⟨hx, hc, hl⟩ := cost_reported sol (Sys.linear A B c) P dt x0 ubar
  have h1 := lqr_optimal_psd sol hsol A B c P dt hQ hlin x0 ubar' _ hl
  rw [← hc] at h1
  have hu := lqr_unique_psd sol hsol A B c P dt hQ hlin x0 ubar _ hl' (by rw [← hc']; exact h1)
  refine ⟨hu, ?_, ?_⟩
  · rw [hx', hx, hu]
  · rw [hc', hc, hu]

/-- **the cost along any line through the returned inputs has no first-order term**:
`J(u* + ε·δ) = J(u*) + ε² · G(δ)` for every direction list `δ` and every `ε` -/
theorem lqr_line_psd (x0 : Vec ℝ ns) (ubar : Nat → Vec ℝ nc) (ds : List (Fin nc → ℝ)) (hd : ds.length = P.T) (e : ℝ) :
    (simulate (Sys.linear A B c) P 0 x0 (perturb (lqr sol (Sys.linear A B c) P dt x0 ubar).u ds e)).2
      = (lqr sol (Sys.linear A B c) P dt x0 ubar).cost + e ^ 2 * gapLin A B P 0 0 ds := by
  have hlen := (cost_reported sol (Sys.linear A B c) P dt x0 ubar).2.2
  have hl : (perturb (lqr sol (Sys.linear A B c) P dt x0 ubar).u ds e).length = P.T := by
    rw [perturb_length _ _ _ (by omega), hlen]
  have h := lqr_gap_psd sol hsol A B c P dt hQ hlin x0 ubar _ hl
  rw [gap_eq_gapLin A B c P _ _ 0 x0 x0 (by omega), udiff_perturb e _ ds (by omega), sub_self] at h
  have hz : (0 : Fin ns → ℝ) = e • (0 : Fin ns → ℝ) := by simp
  rw [hz, gapLin_smul] at h
  linarith

/-- **zero gradient with respect to every input**: the derivative of the total cost along every direction
(in particular along every single input coordinate) vanishes at the returned inputs -/
theorem lqr_stationary_psd (x0 : Vec ℝ ns) (ubar : Nat → Vec ℝ nc) (ds : List (Fin nc → ℝ)) (hd : ds.length = P.T) :
    HasDerivAt (fun e : ℝ => (simulate (Sys.linear A B c) P 0 x0 (perturb (lqr sol (Sys.linear A B c) P dt x0 ubar).u ds e)).2)
      0 0 := by
  have hf : (fun e : ℝ => (simulate (Sys.linear A B c) P 0 x0 (perturb (lqr sol (Sys.linear A B c) P dt x0 ubar).u ds e)).2)
      = fun e : ℝ => (lqr sol (Sys.linear A B c) P dt x0 ubar).cost + e ^ 2 * gapLin A B P 0 0 ds := by
    funext e; exact lqr_line_psd sol hsol A B c P dt hQ hlin x0 ubar ds hd e
  rw [hf]
  have h1 : HasDerivAt (fun e : ℝ => e ^ 2) ((2:ℕ) * (0:ℝ) ^ (2 - 1)) 0 := hasDerivAt_pow 2 (0:ℝ)
  have h2 : HasDerivAt (fun e : ℝ => e ^ 2 * gapLin A B P 0 0 ds) ((2:ℕ) * (0:ℝ) ^ (2 - 1) * gapLin A B P 0 0 ds) 0 :=
    HasDerivAt.mul_const h1 _
  have h3 := (hasDerivAt_const_add_iff ((lqr sol (Sys.linear A B c) P dt x0 ubar).cost)).mpr h2
  have e0 : ((2:ℕ):ℝ) * (0:ℝ) ^ (2 - 1) * gapLin A B P 0 0 ds = 0 := by norm_num
  rw [e0] at h3
  exact h3

/-- **principle of optimality** (Bellman): from every intermediate state of the returned trajectory the remaining
returned inputs minimise the remaining cost over all input sequences of the remaining length — the Riccati solution is
globally optimal at every stage, not only from `x_init` -/
theorem lqr_tail_optimal (x0 : Vec ℝ ns) (ubar : Nat → Vec ℝ nc) (t : Nat) (ht : t ≤ P.T)
    (us' : List (Vec ℝ nc)) (hl : us'.length = P.T - t) :
    (simulate (Sys.linear A B c) P t (nth (lqr sol (Sys.linear A B c) P dt x0 ubar).x t)
        ((lqr sol (Sys.linear A B c) P dt x0 ubar).u.drop t)).2
      ≤ (simulate (Sys.linear A B c) P t (nth (lqr sol (Sys.linear A B c) P dt x0 ubar).x t) us').2 := by
  unfold lqr lqrAt resetClock
  simp only
  set xbar := nth (rollFrom (Sys.linear A B c) ubar 0 0 P.T x0) with hxb
  set gs := (bwFrom sol (Sys.linear A B c) P dt xbar ubar 0 P.T).2 with hgs
  have hlen : gs.length = P.T := by rw [hgs, bwFrom_length]
  have hdrop := fwFrom_drop (Sys.linear A B c) P xbar ubar t 0 x0 gs (by omega)
  have hgd : gs.drop t = (bwFrom sol (Sys.linear A B c) P dt xbar ubar t (P.T - t)).2 := by
    have := bwFrom_drop sol (Sys.linear A B c) P dt xbar ubar t 0 P.T ht
    simpa using this
  simp only [Nat.zero_add] at hdrop
  rw [hdrop, hgd]
  set xt := nth (x0 :: (fwFrom (Sys.linear A B c) P xbar ubar 0 0 x0 gs).1) t
  have hnom : ∀ s, t ≤ s → s + 1 < t + (P.T - t) → xbar (s+1) = (Sys.linear A B c).f s (xbar s) (ubar s) := by
    intro s _ h
    have := rollFrom_step (Sys.linear A B c) ubar P.T 0 0 x0 s (by omega)
    simpa using this
  obtain ⟨_, hid⟩ := opt_identity sol P dt xbar ubar hsol A B c (P.T - t) t
    (fun s _ h => hQ s (by omega)) (fun s _ h => hlin s (by omega)) hnom
  have h1 := hid xt xt us' hl
  have h2 := fwFrom_sim (Sys.linear A B c) P xbar ubar (bwFrom sol (Sys.linear A B c) P dt xbar ubar t (P.T - t)).2 t xt
  have h3 := gap_nonneg (Sys.linear A B c) P
    (fwFrom (Sys.linear A B c) P xbar ubar t t xt (bwFrom sol (Sys.linear A B c) P dt xbar ubar t (P.T - t)).2).2.1 us' t xt xt
    (fun s a b => (hQ s (by
      have := fwFrom_length (Sys.linear A B c) P xbar ubar (bwFrom sol (Sys.linear A B c) P dt xbar ubar t (P.T - t)).2 t t xt
      rw [bwFrom_length] at this
      omega)).2.1)
  rw [h2]
  simp only [sub_self, dotProduct_zero] at h1
  linarith

/-- **the backward value recursion (K_t, k_t, V_t, v_t) computes the value function**: the optimal cost as a function of the
start is quadratic with Hessian `V_0` and gradient `V_0 (x_init - x̄_0) + v_0 = v_0` — for any two starts `x0, x0'` (and any
nominals), with `V_0, v_0` the values the backward loop of the solve from `x0` ends with:
`cost*(x0') - cost*(x0) = v_0·(x0'-x0) + ½ (x0'-x0)ᵀ V_0 (x0'-x0)`.
(`value_function` in Lemmas is the same statement at every stage `t` for the cost-to-go.) -/
theorem lqr_value_function (x0 x0' : Vec ℝ ns) (ubar ubar' : Nat → Vec ℝ nc) :
    let xbar := nth (rollFrom (Sys.linear A B c) ubar 0 0 P.T x0)
    let w := (bwFrom sol (Sys.linear A B c) P dt xbar ubar 0 P.T).1
    (lqr sol (Sys.linear A B c) P dt x0' ubar').cost - (lqr sol (Sys.linear A B c) P dt x0 ubar).cost
      = lam xbar w 0 x0 ⬝ᵥ (toFn x0' - toFn x0) + (1:ℝ)/2 * ((toFn x0' - toFn x0) ⬝ᵥ Vp w *ᵥ (toFn x0' - toFn x0)) := by
  intro xbar w
  have hnom : ∀ s, 0 ≤ s → s + 1 < 0 + P.T → xbar (s+1) = (Sys.linear A B c).f s (xbar s) (ubar s) := by
    intro s _ h
    have := rollFrom_step (Sys.linear A B c) ubar P.T 0 0 x0 s (by omega)
    simpa using this
  have hQ' : ∀ s, 0 ≤ s → s < 0 + P.T → CostOK (toM (P.Q s)) := fun s _ h => hQ s (by omega)
  have hlin' : ∀ s, 0 ≤ s → s + 1 < 0 + P.T → A (s * dt) = A s ∧ B (s * dt) = B s := fun s _ h => hlin s (by omega)
  have hv := value_function sol P dt xbar ubar hsol A B c P.T 0 hQ' hlin' hnom x0 x0'
  set gs := (bwFrom sol (Sys.linear A B c) P dt xbar ubar 0 P.T).2 with hgs
  -- the solve from x0 IS the policy roll-out from x0
  have h0 : (lqr sol (Sys.linear A B c) P dt x0 ubar).cost = (fwFrom (Sys.linear A B c) P xbar ubar 0 0 x0 gs).2.2 := rfl
  -- the policy (gains of the x0-solve) started at x0' costs exactly the optimum from x0'
  have hpol : (fwFrom (Sys.linear A B c) P xbar ubar 0 0 x0' gs).2.2 = (lqr sol (Sys.linear A B c) P dt x0' ubar').cost := by
    obtain ⟨hx', hc', hl'⟩ := cost_reported sol (Sys.linear A B c) P dt x0' ubar'
    have hlen : (fwFrom (Sys.linear A B c) P xbar ubar 0 0 x0' gs).2.1.length = P.T := by
      rw [fwFrom_length, hgs, bwFrom_length]
    have hsim := fwFrom_sim (Sys.linear A B c) P xbar ubar gs 0 x0'
    have ha := lqr_optimal_psd sol hsol A B c P dt hQ hlin x0' ubar' _ hlen
    rw [hsim] at ha
    obtain ⟨_, hid⟩ := opt_identity sol P dt xbar ubar hsol A B c P.T 0 hQ' hlin' hnom
    have hb := hid x0' x0' _ hl'
    have hg := gap_nonneg (Sys.linear A B c) P (fwFrom (Sys.linear A B c) P xbar ubar 0 0 x0' gs).2.1
      (lqr sol (Sys.linear A B c) P dt x0' ubar').u 0 x0' x0' (fun s _ h => (hQ s (by omega)).2.1)
    rw [← hc'] at hb
    simp only [sub_self, dotProduct_zero, zero_add] at hb
    have ha' : (lqr sol (Sys.linear A B c) P dt x0' ubar').cost ≤ (fwFrom (Sys.linear A B c) P xbar ubar 0 0 x0' gs).2.2 := ha
    linarith
  rw [h0, ← hpol]
  exact hv

/-- **the feedback POLICY is independent of the nominal** (the delta formulation collapses at the level of the control law, not only of
the returned trajectory): writing the forward pass as `u_t = K_t x_t + κ_t` with `κ_t = k_t − K_t x̄_t + ū_t`, both `K_t`
(`gains_independent_of_nominal_and_start`) and the offset `κ_t` are the same for every nominal trajectory `u_traj`, at every step `t < T`. -/
theorem feedback_law_nominal_independent (x0 : Vec ℝ ns) (ubar ubar' : Nat → Vec ℝ nc) (g0 : Gain ℝ ns nc) (t : Nat) (ht : t < P.T) :
    let xbar := nth (rollFrom (Sys.linear A B c) ubar 0 0 P.T x0)
    let xbar' := nth (rollFrom (Sys.linear A B c) ubar' 0 0 P.T x0)
    let g := (lqr sol (Sys.linear A B c) P dt x0 ubar).gains.getD t g0
    let g' := (lqr sol (Sys.linear A B c) P dt x0 ubar').gains.getD t g0
    toM g'.K = toM g.K ∧
    toFn g'.k - toM g'.K *ᵥ toFn (xbar' t) + toFn (ubar' t) = toFn g.k - toM g.K *ᵥ toFn (xbar t) + toFn (ubar t) := by
  intro xbar xbar' g g'
  obtain ⟨hu, hx, _⟩ := nominal_independent_psd sol hsol A B c P dt hQ hlin x0 ubar ubar'
  have hKm := gains_independent_of_nominal_and_start sol A B c P dt x0 x0 ubar ubar'
  have hK : g'.K = g.K := by
    have := congrArg (fun m => (m.getD t (g0.K, g0.Quu, g0.Qux)).1) hKm
    simpa [g, g', List.getD_eq_getElem?_getD] using this
  have hlen : ∀ ub : Nat → Vec ℝ nc, (lqr sol (Sys.linear A B c) P dt x0 ub).gains.length = P.T := by
    intro ub; unfold lqr lqrAt; simp only; rw [bwFrom_length]
  -- the t-th input as the feedback law at the t-th state, for both nominals
  have hin : ∀ ub : Nat → Vec ℝ nc,
      nth (lqr sol (Sys.linear A B c) P dt x0 ub).u t
        = ctrl (nth (rollFrom (Sys.linear A B c) ub 0 0 P.T x0)) ub ((lqr sol (Sys.linear A B c) P dt x0 ub).gains.getD t g0) t
            (nth (lqr sol (Sys.linear A B c) P dt x0 ub).x t) := by
    intro ub
    have hl := hlen ub
    unfold lqr lqrAt resetClock at hl ⊢
    simp only at hl ⊢
    have := fwFrom_input (Sys.linear A B c) P (nth (rollFrom (Sys.linear A B c) ub 0 0 P.T x0)) ub g0 t 0 x0 _ (by rw [hl]; exact ht)
    simpa using this
  have h1 := congrArg toFn (hin ubar)
  have h2 := congrArg toFn (hin ubar')
  rw [ctrl_eq] at h1 h2
  rw [hu, hx] at h2
  refine ⟨by rw [hK], ?_⟩
  have hK' : toM g'.K = toM g.K := by rw [hK]
  have e : toM g'.K *ᵥ (toFn (nth (lqr sol (Sys.linear A B c) P dt x0 ubar).x t) - toFn (xbar' t)) + toFn g'.k + toFn (ubar' t)
      = toM g.K *ᵥ (toFn (nth (lqr sol (Sys.linear A B c) P dt x0 ubar).x t) - toFn (xbar t)) + toFn g.k + toFn (ubar t) := by
    rw [← h1]; exact h2.symm
  rw [hK'] at e ⊢
  simp only [Matrix.mulVec_sub] at e
  have := e
  -- cancel K x_t on both sides
  have hc : ∀ (a b k1 k2 u1 u2 z : Fin nc → ℝ), z - a + k1 + u1 = z - b + k2 + u2 → k1 - a + u1 = k2 - b + u2 := by
    intro a b k1 k2 u1 u2 z h
    have : k1 - a + u1 = (z - a + k1 + u1) - z := by abel
    rw [this, h]; abel
  exact hc _ _ _ _ _ _ _ this

end optimalPSD

section optimal
variable (sol : Solver ℝ ns nc) (hsol : SolverOK sol)
  (A : Nat → Mat ℝ ns ns) (B : Nat → Mat ℝ ns nc) (c : Nat → Vec ℝ ns) (P : Prob ℝ ns nc) (dt : Nat)
  (hQ : ∀ s, s < P.T → IsSym (toM (P.Q s)) ∧ IsPD (toM (P.Q s)))
  (hlin : ∀ s, s + 1 < P.T → A (s * dt) = A s ∧ B (s * dt) = B s)
include hsol hQ hlin

/-- the exact cost gap: any other input sequence costs `Σ ½ dτᵀQ dτ ≥ 0` more -/
theorem lqr_gap (x0 : Vec ℝ ns) (ubar : Nat → Vec ℝ nc) (us' : List (Vec ℝ nc)) (hl : us'.length = P.T) :
    (simulate (Sys.linear A B c) P 0 x0 us').2 - (lqr sol (Sys.linear A B c) P dt x0 ubar).cost
      = gap (Sys.linear A B c) P 0 x0 (lqr sol (Sys.linear A B c) P dt x0 ubar).u x0 us' :=
  lqr_gap_psd sol hsol A B c P dt (fun s h => CostOK.of_pd (hQ s h).1 (hQ s h).2) hlin x0 ubar us' hl


/-- **LQR minimises the cost over all input sequences** -/
theorem lqr_optimal (x0 : Vec ℝ ns) (ubar : Nat → Vec ℝ nc) (us' : List (Vec ℝ nc)) (hl : us'.length = P.T) :
    (lqr sol (Sys.linear A B c) P dt x0 ubar).cost ≤ (simulate (Sys.linear A B c) P 0 x0 us').2 :=
  lqr_optimal_psd sol hsol A B c P dt (fun s h => CostOK.of_pd (hQ s h).1 (hQ s h).2) hlin x0 ubar us' hl


/-- the minimiser is unique: any input sequence with the same cost IS the returned one -/
theorem lqr_unique (x0 : Vec ℝ ns) (ubar : Nat → Vec ℝ nc) (us' : List (Vec ℝ nc)) (hl : us'.length = P.T)
    (hc : (simulate (Sys.linear A B c) P 0 x0 us').2 ≤ (lqr sol (Sys.linear A B c) P dt x0 ubar).cost) :
    us' = (lqr sol (Sys.linear A B c) P dt x0 ubar).u :=
  lqr_unique_psd sol hsol A B c P dt (fun s h => CostOK.of_pd (hQ s h).1 (hQ s h).2) hlin x0 ubar us' hl hc


/-- **independent of the nominal trajectory**: inputs, states and cost do not depend on `u_traj` -/
theorem nominal_independent (x0 : Vec ℝ ns) (ubar ubar' : Nat → Vec ℝ nc) :
    (lqr sol (Sys.linear A B c) P dt x0 ubar').u = (lqr sol (Sys.linear A B c) P dt x0 ubar).u ∧
    (lqr sol (Sys.linear A B c) P dt x0 ubar').x = (lqr sol (Sys.linear A B c) P dt x0 ubar).x ∧
    (lqr sol (Sys.linear A B c) P dt x0 ubar').cost = (lqr sol (Sys.linear A B c) P dt x0 ubar).cost :=
  nominal_independent_psd sol hsol A B c P dt (fun s h => CostOK.of_pd (hQ s h).1 (hQ s h).2) hlin x0 ubar ubar'


/-- **the cost along any line through the returned inputs has no first-order term**:
`J(u* + ε·δ) = J(u*) + ε² · G(δ)` for every direction list `δ` and every `ε` -/
theorem lqr_line (x0 : Vec ℝ ns) (ubar : Nat → Vec ℝ nc) (ds : List (Fin nc → ℝ)) (hd : ds.length = P.T) (e : ℝ) :
    (simulate (Sys.linear A B c) P 0 x0 (perturb (lqr sol (Sys.linear A B c) P dt x0 ubar).u ds e)).2
      = (lqr sol (Sys.linear A B c) P dt x0 ubar).cost + e ^ 2 * gapLin A B P 0 0 ds :=
  lqr_line_psd sol hsol A B c P dt (fun s h => CostOK.of_pd (hQ s h).1 (hQ s h).2) hlin x0 ubar ds hd e


/-- **zero gradient with respect to every input**: the derivative of the total cost along every direction
(in particular along every single input coordinate) vanishes at the returned inputs -/
theorem lqr_stationary (x0 : Vec ℝ ns) (ubar : Nat → Vec ℝ nc) (ds : List (Fin nc → ℝ)) (hd : ds.length = P.T) :
    HasDerivAt (fun e : ℝ => (simulate (Sys.linear A B c) P 0 x0 (perturb (lqr sol (Sys.linear A B c) P dt x0 ubar).u ds e)).2)
      0 0 :=
  lqr_stationary_psd sol hsol A B c P dt (fun s h => CostOK.of_pd (hQ s h).1 (hQ s h).2) hlin x0 ubar ds hd
end optimal

/-! ### `rollout_affine`: the states are an affine function of (start, input sequence) -/

/-! ### `quadratic_stationary_global`: for a convex quadratic, a stationary point is a global minimiser
(this is why "zero gradient w.r.t. every input" certifies optimality in the harness) -/

/-! ### independence of the clock at entry and of earlier calls on the same system object -/

/-- the per-call argument `dt` is irrelevant for systems whose linearisation does not depend on time (LTI):
calls with different `dt` on one object return the same result -/
theorem lqr_dt_irrelevant (sol : Solver ℝ ns nc) (S : Sys ℝ ns nc) (P : Prob ℝ ns nc) (dt dt' : Nat) (x0 : Vec ℝ ns)
    (ubar : Nat → Vec ℝ nc)
    (hA : ∀ t t' x u, S.A t x u = S.A t' x u) (hB : ∀ t t' x u, S.B t x u = S.B t' x u) :
    lqr sol S P dt x0 ubar = lqr sol S P dt' x0 ubar := by
  unfold lqr lqrAt
  simp only [bwFrom_dt sol S P dt dt' _ ubar hA hB P.T 0]

/-! ### MPC -/

/-- **iterative loop with best-so-far**: the loop runs at least once; every inner solve is linearised around
the inputs of the previous one (`iterate`); the final solve is linearised around the inputs of an iteration
whose cost is minimal among all iterations performed — for every stepper and any system -/
theorem mpc_best_so_far (sol : Solver ℝ ns nc) (S : Sys ℝ ns nc) (P : Prob ℝ ns nc) (dt : Nat) (x0 : Vec ℝ ns)
    (fuel : Nat) (st : Stepper ℝ) (uinit : Option (List (Vec ℝ nc))) :
    let n := (mpc sol S P dt x0 (fuel+1) st uinit).2.2
    1 ≤ n ∧ ∃ j, j < n ∧
      (∀ i, i < n → (iterate sol S P dt x0 uinit j).cost ≤ (iterate sol S P dt x0 uinit i).cost) ∧
      (mpc sol S P dt x0 (fuel+1) st uinit).1 = lqr sol S P dt x0 (nomOf (some (iterate sol S P dt x0 uinit j).u)) := by
  intro n
  have h1 : 1 ≤ n := mpcLoop_ge_one sol S P dt x0 uinit fuel st
  have hb := (mpcLoop_best sol S P dt x0 uinit (fuel+1) st.reset 0).1
  simp only [uAt, bestOf] at hb
  obtain ⟨m, hm⟩ : ∃ m, n = m + 1 := ⟨n - 1, by omega⟩
  obtain ⟨j, hj, hbj, hmin⟩ := bestOf_min sol S P dt x0 uinit m
  refine ⟨h1, j, by omega, fun i hi => hmin i (by omega), ?_⟩
  rw [mpc_is_lqr]
  have hn : (mpcLoop sol S P dt x0 (fuel+1) st.reset uinit ⟨uinit, none⟩ 0).2.2 = m + 1 := hm
  rw [hb, hn, hbj]

/-- the `ReduceToBason` stepper ends the loop after at most `max(max_steps, 1)` iterations, so any larger
iteration budget gives the same result (the driver runs the model with `max_steps + 2`) -/
theorem mpc_fuel_irrelevant (sol : Solver ℝ ns nc) (S : Sys ℝ ns nc) (P : Prob ℝ ns nc) (dt : Nat) (x0 : Vec ℝ ns)
    (fuel k : Nat) (st : Stepper ℝ) (uinit : Option (List (Vec ℝ nc))) (hf : max st.maxSteps 1 ≤ (fuel : Int)) :
    mpc sol S P dt x0 fuel st uinit = mpc sol S P dt x0 (fuel + k) st uinit := by
  unfold mpc
  have h := mpcLoop_fuel sol S P dt x0 fuel k st.reset uinit ⟨uinit, none⟩ 0 (by
    intro _
    simp only [Stepper.reset]
    constructor
    · have : (1:Int) ≤ max st.maxSteps 1 := le_max_right _ _
      push_cast; omega
    · push_cast; omega)
  simp only [h]

/-- the state a stepper carries (`last`, `steps`, `_continual`, `patience_count`) is irrelevant to a call: two
steppers with the same constructor arguments give the same result, iteration count and final stepper -/
theorem mpc_stepper_state_irrelevant (sol : Solver ℝ ns nc) (S : Sys ℝ ns nc) (P : Prob ℝ ns nc) (dt : Nat) (x0 : Vec ℝ ns)
    (fuel : Nat) (st st' : Stepper ℝ) (uinit : Option (List (Vec ℝ nc))) (h : SameParams st st') :
    mpc sol S P dt x0 fuel st uinit = mpc sol S P dt x0 fuel st' uinit := by
  unfold mpc
  rw [reset_eq_of_sameParams h]

/-- **re-using one MPC object**: any sequence of calls (each with its own problem, start, initial inputs)
threading one stepper object returns, call by call, what a fresh stepper would return — outputs and iteration
counts; nothing leaks from call to call (any system) -/
theorem mpc_sequence_independent (sol : Solver ℝ ns nc) (S : Sys ℝ ns nc) (calls : List (MpcCall ns nc)) :
    ∀ (st st0 : Stepper ℝ), SameParams st st0 →
      mpcSeq sol S calls st
        = calls.map fun c => ((mpc sol S c.P c.dt c.x0 c.fuel st0 c.uinit).1, (mpc sol S c.P c.dt c.x0 c.fuel st0 c.uinit).2.2) := by
  induction calls with
  | nil => intro st st0 _; rfl
  | cons c rest ih =>
    intro st st0 h
    simp only [mpcSeq, List.map_cons]
    rw [mpc_stepper_state_irrelevant sol S c.P c.dt c.x0 c.fuel st st0 c.uinit h]
    congr 1
    apply ih
    have h1 : SameParams (mpc sol S c.P c.dt c.x0 c.fuel st0 c.uinit).2.1 st0 := by
      unfold mpc
      exact (mpcLoop_sameParams sol S c.P c.dt c.x0 c.fuel _ _ _ _).trans (reset_sameParams st0)
    exact h1

/-- the loop performs at most `max(max_steps, 1)` iterations, whatever the costs and the iteration budget `fuel` -/
theorem mpc_iterations_bound (sol : Solver ℝ ns nc) (S : Sys ℝ ns nc) (P : Prob ℝ ns nc) (dt : Nat) (x0 : Vec ℝ ns)
    (fuel : Nat) (st : Stepper ℝ) (uinit : Option (List (Vec ℝ nc))) :
    ((mpc sol S P dt x0 fuel st uinit).2.2 : Int) ≤ max st.maxSteps 1 := by
  unfold mpc
  have h := mpcLoop_count sol S P dt x0 fuel st.reset uinit ⟨uinit, none⟩ 0 (by
    intro _
    simp only [Stepper.reset]
    have : (1:Int) ≤ max st.maxSteps 1 := le_max_right _ _
    push_cast; omega)
  simpa [Stepper.reset] using h

/-- hence an `MPC` object built with `stepper=None` runs at most 9 inner iterations per call, and one built around
`ReduceToBason(steps=n)` at most `max(n-1, 1)` -/
theorem mpc_object_iterations (sol : Solver ℝ ns nc) (S : Sys ℝ ns nc) (P : Prob ℝ ns nc) (dt : Nat) (x0 : Vec ℝ ns)
    (fuel : Nat) (arg : Option (Stepper ℝ)) (uinit : Option (List (Vec ℝ nc))) :
    ((mpc sol S P dt x0 fuel (mpcInit arg) uinit).2.2 : Int) ≤ max ((arg.getD Stepper.default).maxSteps - 1) 1 :=
  mpc_iterations_bound sol S P dt x0 fuel (mpcInit arg) uinit

/-- **MPC on a nonlinear (or any) system**: the returned trajectory starts at `x_init`, satisfies the system's
own transition at every step, and the returned cost is the sum of the stage costs along it — for every
stepper, every number of iterations, every initial input guess -/
theorem mpc_feasible (sol : Solver ℝ ns nc) (S : Sys ℝ ns nc) (P : Prob ℝ ns nc) (dt : Nat) (x0 : Vec ℝ ns)
    (fuel : Nat) (st : Stepper ℝ) (uinit : Option (List (Vec ℝ nc))) :
    let o := (mpc sol S P dt x0 fuel st uinit).1
    nth o.x 0 = x0 ∧ (∀ t, t < P.T → nth o.x (t+1) = S.f t (nth o.x t) (nth o.u t)) ∧
    o.cost = ∑ t ∈ Finset.range P.T, stageCost P t (nth o.x t) (nth o.u t) := by
  rw [mpc_is_lqr]
  exact lqr_feasible sol S P dt x0 _

/-- **MPC on a linear system returns the LQR optimum** (same inputs, states, cost as `LQR` with any nominal
trajectory), whatever the stepper does and whatever `u_init` is -/
theorem mpc_linear_eq_lqr (sol : Solver ℝ ns nc) (hsol : SolverOK sol)
    (A : Nat → Mat ℝ ns ns) (B : Nat → Mat ℝ ns nc) (c : Nat → Vec ℝ ns) (P : Prob ℝ ns nc) (dt : Nat)
    (hQ : ∀ s, s < P.T → IsSym (toM (P.Q s)) ∧ IsPD (toM (P.Q s)))
    (hlin : ∀ s, s + 1 < P.T → A (s * dt) = A s ∧ B (s * dt) = B s)
    (x0 : Vec ℝ ns) (fuel : Nat) (st : Stepper ℝ) (uinit : Option (List (Vec ℝ nc))) (ubar : Nat → Vec ℝ nc) :
    (mpc sol (Sys.linear A B c) P dt x0 fuel st uinit).1.u = (lqr sol (Sys.linear A B c) P dt x0 ubar).u ∧
    (mpc sol (Sys.linear A B c) P dt x0 fuel st uinit).1.x = (lqr sol (Sys.linear A B c) P dt x0 ubar).x ∧
    (mpc sol (Sys.linear A B c) P dt x0 fuel st uinit).1.cost = (lqr sol (Sys.linear A B c) P dt x0 ubar).cost := by
  rw [mpc_is_lqr]
  exact nominal_independent sol hsol A B c P dt hQ hlin x0 ubar _

/-- hence MPC on a linear system is optimal as well -/
theorem mpc_linear_optimal (sol : Solver ℝ ns nc) (hsol : SolverOK sol)
    (A : Nat → Mat ℝ ns ns) (B : Nat → Mat ℝ ns nc) (c : Nat → Vec ℝ ns) (P : Prob ℝ ns nc) (dt : Nat)
    (hQ : ∀ s, s < P.T → IsSym (toM (P.Q s)) ∧ IsPD (toM (P.Q s)))
    (hlin : ∀ s, s + 1 < P.T → A (s * dt) = A s ∧ B (s * dt) = B s)
    (x0 : Vec ℝ ns) (fuel : Nat) (st : Stepper ℝ) (uinit : Option (List (Vec ℝ nc)))
    (us' : List (Vec ℝ nc)) (hl : us'.length = P.T) :
    (mpc sol (Sys.linear A B c) P dt x0 fuel st uinit).1.cost ≤ (simulate (Sys.linear A B c) P 0 x0 us').2 := by
  rw [mpc_is_lqr]
  exact lqr_optimal sol hsol A B c P dt hQ hlin x0 _ us' hl

/-- MPC = LQR optimum on linear systems at the exact guard (`Q_t ⪰ 0` with `R_t ≻ 0`) -/
theorem mpc_linear_eq_lqr_psd (sol : Solver ℝ ns nc) (hsol : SolverOK sol)
    (A : Nat → Mat ℝ ns ns) (B : Nat → Mat ℝ ns nc) (c : Nat → Vec ℝ ns) (P : Prob ℝ ns nc) (dt : Nat)
    (hQ : ∀ s, s < P.T → CostOK (toM (P.Q s)))
    (hlin : ∀ s, s + 1 < P.T → A (s * dt) = A s ∧ B (s * dt) = B s)
    (x0 : Vec ℝ ns) (fuel : Nat) (st : Stepper ℝ) (uinit : Option (List (Vec ℝ nc))) (ubar : Nat → Vec ℝ nc) :
    (mpc sol (Sys.linear A B c) P dt x0 fuel st uinit).1.u = (lqr sol (Sys.linear A B c) P dt x0 ubar).u ∧
    (mpc sol (Sys.linear A B c) P dt x0 fuel st uinit).1.x = (lqr sol (Sys.linear A B c) P dt x0 ubar).x ∧
    (mpc sol (Sys.linear A B c) P dt x0 fuel st uinit).1.cost = (lqr sol (Sys.linear A B c) P dt x0 ubar).cost := by
  rw [mpc_is_lqr]
  exact nominal_independent_psd sol hsol A B c P dt hQ hlin x0 ubar _

/-- **MPC on a linear system reaches the optimum in its FIRST iteration**: every inner solve of the loop already returns
the LQR optimum (inputs, states, cost), so the cost sequence is constant, `best` stays the first iterate, and the
final solve returns the same again — for every stepper, every `u_init`, every number of iterations -/
theorem mpc_linear_one_iteration (sol : Solver ℝ ns nc) (hsol : SolverOK sol)
    (A : Nat → Mat ℝ ns ns) (B : Nat → Mat ℝ ns nc) (c : Nat → Vec ℝ ns) (P : Prob ℝ ns nc) (dt : Nat)
    (hQ : ∀ s, s < P.T → CostOK (toM (P.Q s)))
    (hlin : ∀ s, s + 1 < P.T → A (s * dt) = A s ∧ B (s * dt) = B s)
    (x0 : Vec ℝ ns) (uinit : Option (List (Vec ℝ nc))) (ubar : Nat → Vec ℝ nc) (i : Nat) :
    (iterate sol (Sys.linear A B c) P dt x0 uinit i).u = (lqr sol (Sys.linear A B c) P dt x0 ubar).u ∧
    (iterate sol (Sys.linear A B c) P dt x0 uinit i).x = (lqr sol (Sys.linear A B c) P dt x0 ubar).x ∧
    (iterate sol (Sys.linear A B c) P dt x0 uinit i).cost = (lqr sol (Sys.linear A B c) P dt x0 ubar).cost ∧
    bestOf sol (Sys.linear A B c) P dt x0 uinit (i+1)
      = ⟨some (iterate sol (Sys.linear A B c) P dt x0 uinit 0).u, some (iterate sol (Sys.linear A B c) P dt x0 uinit 0).cost⟩ := by
  have hit : ∀ j, (iterate sol (Sys.linear A B c) P dt x0 uinit j).u = (lqr sol (Sys.linear A B c) P dt x0 ubar).u ∧
      (iterate sol (Sys.linear A B c) P dt x0 uinit j).x = (lqr sol (Sys.linear A B c) P dt x0 ubar).x ∧
      (iterate sol (Sys.linear A B c) P dt x0 uinit j).cost = (lqr sol (Sys.linear A B c) P dt x0 ubar).cost := by
    intro j
    cases j with
    | zero => exact nominal_independent_psd sol hsol A B c P dt hQ hlin x0 ubar _
    | succ j => exact nominal_independent_psd sol hsol A B c P dt hQ hlin x0 ubar _
  refine ⟨(hit i).1, (hit i).2.1, (hit i).2.2, ?_⟩
  induction i with
  | zero => simp [bestOf]
  | succ i ih =>
    rw [bestOf, ih]
    have e : (iterate sol (Sys.linear A B c) P dt x0 uinit (i+1)).cost = (iterate sol (Sys.linear A B c) P dt x0 uinit 0).cost := by
      rw [(hit (i+1)).2.2, (hit 0).2.2]
    simp [e]

/-- **the call as the user writes it** (`LQR(system, Q, p, T)(x_init, dt, u_traj)` with `Q`, `p` given once or per step,
`c1` given or `None`, `u_traj` given or `None`): the constructor / defaulting glue of the model composed with the core —
feasible, cost reported, globally optimal, unique -/
theorem lqr_user_call_optimal (sol : Solver ℝ ns nc) (hsol : SolverOK sol)
    (A : Nat → Mat ℝ ns ns) (B : Nat → Mat ℝ ns nc) (c1 : Option (Nat → Vec ℝ ns))
    (T : Nat) (Q : PerStep (Mat ℝ (ns + nc) (ns + nc))) (p : PerStep (Vec ℝ (ns + nc))) (dt : Nat)
    (hQ : ∀ s, s < T → CostOK (toM (Q.get s)))
    (hlin : ∀ s, s + 1 < T → A (s * dt) = A s ∧ B (s * dt) = B s)
    (x0 : Vec ℝ ns) (utraj : Option (List (Vec ℝ nc))) (us' : List (Vec ℝ nc)) (hl : us'.length = T) :
    let S := Sys.linearOpt A B c1
    let P := Prob.ofArgs T Q p
    let o := lqr sol S P dt x0 (nomOf utraj)
    nth o.x 0 = x0 ∧ (∀ t, t < T → nth o.x (t+1) = S.f t (nth o.x t) (nth o.u t)) ∧
    o.cost = ∑ t ∈ Finset.range T, stageCost P t (nth o.x t) (nth o.u t) ∧
    o.cost ≤ (simulate S P 0 x0 us').2 ∧
    ((simulate S P 0 x0 us').2 ≤ o.cost → us' = o.u) := by
  intro S P o
  have hf := lqr_feasible sol S P dt x0 (nomOf utraj)
  have hS : S = Sys.linear A B (c1.getD fun _ => vzero) := linearOpt_eq A B c1
  refine ⟨hf.1, hf.2.1, hf.2.2, ?_, ?_⟩
  · show (lqr sol S P dt x0 (nomOf utraj)).cost ≤ (simulate S P 0 x0 us').2
    rw [hS]
    exact lqr_optimal_psd sol hsol A B _ P dt hQ hlin x0 _ us' hl
  · show (simulate S P 0 x0 us').2 ≤ (lqr sol S P dt x0 (nomOf utraj)).cost → us' = (lqr sol S P dt x0 (nomOf utraj)).u
    rw [hS]
    exact lqr_unique_psd sol hsol A B _ P dt hQ hlin x0 _ us' hl

/-- `Q` given once: the guard on the single matrix is the guard at every step (any horizon) -/
theorem costOK_once (Q : Mat ℝ (ns + nc) (ns + nc)) (h : CostOK (toM Q)) (T : Nat) :
    ∀ s, s < T → CostOK (toM ((PerStep.once Q).get s)) := fun _ _ => h

/-! ### the scope hypothesis `hlin` discharged: LTI with any `dt`, LTV with `dt = 1` -/

/-- `dt = 1` (the LTV clause of the property): the backward pass reads the matrices of the step it is at -/
theorem hlin_dt_one (A : Nat → Mat ℝ ns ns) (B : Nat → Mat ℝ ns nc) (T : Nat) :
    ∀ s, s + 1 < T → A (s * 1) = A s ∧ B (s * 1) = B s := fun s _ => by simp

/-- time-invariant matrices (LTI), any `dt` -/
theorem hlin_lti (A0 : Mat ℝ ns ns) (B0 : Mat ℝ ns nc) (dt T : Nat) :
    ∀ s, s + 1 < T → (fun _ : Nat => A0) (s * dt) = (fun _ : Nat => A0) s ∧ (fun _ : Nat => B0) (s * dt) = (fun _ : Nat => B0) s :=
  fun _ _ => ⟨rfl, rfl⟩

/-- **the property's LTV clause without any scope hypothesis** (`dt = 1`, arbitrary time-varying `A_t, B_t, c_t, Q_t, p_t`):
global optimality, uniqueness, independence of the nominal -/
theorem lqr_optimal_ltv (sol : Solver ℝ ns nc) (hsol : SolverOK sol)
    (A : Nat → Mat ℝ ns ns) (B : Nat → Mat ℝ ns nc) (c : Nat → Vec ℝ ns) (P : Prob ℝ ns nc)
    (hQ : ∀ s, s < P.T → CostOK (toM (P.Q s))) (x0 : Vec ℝ ns) (ubar ubar' : Nat → Vec ℝ nc)
    (us' : List (Vec ℝ nc)) (hl : us'.length = P.T) :
    (lqr sol (Sys.linear A B c) P 1 x0 ubar).cost ≤ (simulate (Sys.linear A B c) P 0 x0 us').2 ∧
    ((simulate (Sys.linear A B c) P 0 x0 us').2 ≤ (lqr sol (Sys.linear A B c) P 1 x0 ubar).cost → us' = (lqr sol (Sys.linear A B c) P 1 x0 ubar).u) ∧
    (lqr sol (Sys.linear A B c) P 1 x0 ubar').u = (lqr sol (Sys.linear A B c) P 1 x0 ubar).u :=
  ⟨lqr_optimal_psd sol hsol A B c P 1 hQ (hlin_dt_one A B P.T) x0 ubar us' hl,
   lqr_unique_psd sol hsol A B c P 1 hQ (hlin_dt_one A B P.T) x0 ubar us' hl,
   (nominal_independent_psd sol hsol A B c P 1 hQ (hlin_dt_one A B P.T) x0 ubar ubar').1⟩

/-- MPC on an LTV system with `dt = 1`: the LQR optimum, no scope hypothesis -/
theorem mpc_linear_eq_lqr_ltv (sol : Solver ℝ ns nc) (hsol : SolverOK sol)
    (A : Nat → Mat ℝ ns ns) (B : Nat → Mat ℝ ns nc) (c : Nat → Vec ℝ ns) (P : Prob ℝ ns nc)
    (hQ : ∀ s, s < P.T → CostOK (toM (P.Q s)))
    (x0 : Vec ℝ ns) (fuel : Nat) (st : Stepper ℝ) (uinit : Option (List (Vec ℝ nc))) (ubar : Nat → Vec ℝ nc) :
    (mpc sol (Sys.linear A B c) P 1 x0 fuel st uinit).1.u = (lqr sol (Sys.linear A B c) P 1 x0 ubar).u ∧
    (mpc sol (Sys.linear A B c) P 1 x0 fuel st uinit).1.x = (lqr sol (Sys.linear A B c) P 1 x0 ubar).x ∧
    (mpc sol (Sys.linear A B c) P 1 x0 fuel st uinit).1.cost = (lqr sol (Sys.linear A B c) P 1 x0 ubar).cost :=
  mpc_linear_eq_lqr_psd sol hsol A B c P 1 hQ (hlin_dt_one A B P.T) x0 fuel st uinit ubar

/-! ### the error branches of `LQR.forward` (`lqrChecked`) -/

/-- a `u_traj` with a number of steps other than `T` raises (the model never pads a short nominal with zeros here) -/
theorem lqrChecked_nominal_error (sol : Solver ℝ ns nc) (S : Sys ℝ ns nc) (P : Prob ℝ ns nc) (dt : Nat) (x0 : Vec ℝ ns)
    (l : List (Vec ℝ nc)) (h : l.length ≠ P.T) :
    lqrChecked sol S P dt x0 (some l) = .error .nominalLength := by
  unfold lqrChecked nominalOK
  simp [h]

/-- with a nominal of the right length (or none) the call raises exactly when `cholesky` rejects the `Quu` of some step -/
theorem lqrChecked_notPD_iff (sol : Solver ℝ ns nc) (S : Sys ℝ ns nc) (P : Prob ℝ ns nc) (dt : Nat) (x0 : Vec ℝ ns)
    (utraj : Option (List (Vec ℝ nc))) (hlen : ∀ l, utraj = some l → l.length = P.T) :
    (lqrChecked sol S P dt x0 utraj = .error .notPD ↔ ∃ g ∈ (lqr sol S P dt x0 (nomOf utraj)).gains, sol.accepts g.Quu = false) ∧
    (lqrChecked sol S P dt x0 utraj = .ok (lqr sol S P dt x0 (nomOf utraj)) ↔
      ∀ g ∈ (lqr sol S P dt x0 (nomOf utraj)).gains, sol.accepts g.Quu = true) := by
  have hl : nominalOK P.T utraj = true := by
    cases utraj with
    | none => rfl
    | some l => simp [nominalOK, hlen l rfl]
  unfold lqrChecked
  simp only [hl, if_true]
  by_cases hall : (lqr sol S P dt x0 (nomOf utraj)).gains.all (fun g => sol.accepts g.Quu) = true
  · simp only [hall, if_true]
    rw [List.all_eq_true] at hall
    constructor
    · constructor
      · intro h; cases h
      · rintro ⟨g, hg, hf⟩; have := hall g hg; simp [hf] at this
    · exact ⟨fun _ => hall, fun _ => by trivial⟩
  · simp only [hall]
    have hex : ∃ g ∈ (lqr sol S P dt x0 (nomOf utraj)).gains, sol.accepts g.Quu = false := by
      by_contra hne
      apply hall
      rw [List.all_eq_true]
      intro g hg
      by_contra hf
      exact hne ⟨g, hg, by simpa using hf⟩
    constructor
    · exact ⟨fun _ => hex, fun _ => by trivial⟩
    · constructor
      · intro h; cases h
      · intro h; obtain ⟨g, hg, hf⟩ := hex; have := h g hg; simp [hf] at this

/-- **accepted inputs never take an error branch**: `Q_t` within the guard, a nominal of the right length (or none), a
Cholesky that accepts symmetric PD matrices — for ANY system `LQR.forward` returns (the value of `lqr`) -/
theorem lqrChecked_ok (sol : Solver ℝ ns nc) (hsol : SolverOK sol) (hacc : AcceptsOK sol) (S : Sys ℝ ns nc) (P : Prob ℝ ns nc)
    (dt : Nat) (x0 : Vec ℝ ns) (utraj : Option (List (Vec ℝ nc))) (hlen : ∀ l, utraj = some l → l.length = P.T)
    (hQ : ∀ s, s < P.T → CostOK (toM (P.Q s))) :
    lqrChecked sol S P dt x0 utraj = .ok (lqr sol S P dt x0 (nomOf utraj)) := by
  rw [(lqrChecked_notPD_iff sol S P dt x0 utraj hlen).2]
  intro g hg
  have := cholesky_precondition sol hsol S P dt x0 (nomOf utraj) hQ g hg
  exact hacc g.Quu this.1 this.2.1

/-! ### non-vacuity: the hypotheses are satisfiable (every dimension, every horizon) -/

/-- a solver satisfying the Cholesky contract exists for all dimensions (exact inverse) -/
example : SolverOK (invSolver ns nc) := invSolver_ok ns nc

/-- identity costs, arbitrary time-varying `A_t, B_t, c_t`, `dt = 1`: all hypotheses of `lqr_optimal`,
`lqr_unique`, `nominal_independent`, `lqr_stationary`, `mpc_linear_eq_lqr` hold -/
example (A : Nat → Mat ℝ ns ns) (B : Nat → Mat ℝ ns nc) (T : Nat) (p : Nat → Vec ℝ (ns + nc)) :
    let P : Prob ℝ ns nc := ⟨T, fun _ => idMat (ns + nc), p⟩
    (∀ s, s < P.T → IsSym (toM (P.Q s)) ∧ IsPD (toM (P.Q s))) ∧ (∀ s, s < P.T → A (s * 1) = A s ∧ B (s * 1) = B s) := by
  intro P
  exact ⟨fun s _ => idMat_sym_pd (ns + nc), fun s _ => by simp⟩

/-- the exact guard is strictly weaker than `Q_t ≻ 0`: "no state cost, unit input cost" satisfies `CostOK` in every
dimension and is not positive definite as soon as there is a state — the `_psd` theorems, `cholesky_precondition`,
`mpc_linear_one_iteration`, `lqr_user_call_optimal` apply to it, the `Q_t ≻ 0` ones do not -/
example : CostOK (toM (rMat ns nc)) ∧ (0 < ns → ¬ IsPD (toM (rMat ns nc))) :=
  ⟨rMat_costOK ns nc, rMat_not_pd ns nc⟩

/-- `Q` given once with the guard, any horizon, time-invariant `A`, `B`, any `dt`, `c1 = None`, `u_traj = None`:
all hypotheses of `lqr_user_call_optimal` hold -/
example (A0 : Mat ℝ ns ns) (B0 : Mat ℝ ns nc) (dt T : Nat) :
    (∀ s, s < T → CostOK (toM ((PerStep.once (rMat ns nc)).get s))) ∧
    (∀ s, s < T → (fun _ : Nat => A0) (s * dt) = (fun _ : Nat => A0) s ∧ (fun _ : Nat => B0) (s * dt) = (fun _ : Nat => B0) s) :=
  ⟨costOK_once _ (rMat_costOK ns nc) T, fun _ _ => ⟨rfl, rfl⟩⟩

/-- steppers exist for every budget: `mpcInit` of a given stepper and of `None` -/
example : (mpcInit (some (Stepper.new 3 2 (1/2 : ℝ) 0))).maxSteps = 2 ∧ (mpcInit (none : Option (Stepper ℝ))).maxSteps = 9 := by
  constructor <;> simp [mpcInit, Stepper.new, Stepper.default]

/-- `lqr_value_function` / `value_function`: the hypotheses are those of `lqr_optimal_psd` (satisfiable, see above); a concrete
non-trivial instance of the conclusion's right-hand side: with `V_0 = 1` (1×1) and gradient `v_0 = 2`, moving the start by
`d = 3` changes the optimal cost by `2·3 + ½·3·1·3 = 10.5` -/
example : ((fun _ : Fin 1 => (2:ℝ)) ⬝ᵥ fun _ => (3:ℝ)) + (1:ℝ)/2 * ((fun _ : Fin 1 => (3:ℝ)) ⬝ᵥ (1 : Matrix (Fin 1) (Fin 1) ℝ) *ᵥ fun _ => (3:ℝ)) = 10.5 := by
  simp [dotProduct]; norm_num

/-- `feedback_law_nominal_independent`: its hypotheses are exactly those of `lqr_optimal_psd` / `nominal_independent_psd`; they hold e.g.
for "no state cost, unit input cost", any time-invariant `A, B`, any `dt`, any horizon (a non-trivial instance: `K_t ≠ 0` in general) -/
example (A0 : Mat ℝ ns ns) (B0 : Mat ℝ ns nc) (dt T : Nat) (p : Nat → Vec ℝ (ns + nc)) :
    let P : Prob ℝ ns nc := ⟨T, fun _ => rMat ns nc, p⟩
    (∀ s, s < P.T → CostOK (toM (P.Q s))) ∧
    (∀ s, s + 1 < P.T → (fun _ : Nat => A0) (s * dt) = (fun _ : Nat => A0) s ∧ (fun _ : Nat => B0) (s * dt) = (fun _ : Nat => B0) s) := by
  intro P
  exact ⟨fun _ _ => rMat_costOK ns nc, fun _ _ => ⟨rfl, rfl⟩⟩

/-- time-invariant systems satisfy `hlin` for every `dt` -/
example (A0 : Mat ℝ ns ns) (B0 : Mat ℝ ns nc) (dt T : Nat) :
    ∀ s, s < T → (fun _ : Nat => A0) (s * dt) = (fun _ : Nat => A0) s ∧ (fun _ : Nat => B0) (s * dt) = (fun _ : Nat => B0) s :=
  fun _ _ => ⟨rfl, rfl⟩

end PP.Lqr
