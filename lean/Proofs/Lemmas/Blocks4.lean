import Proofs.Lemmas.Sim3Blocks
import Proofs.Lemmas.RoundedExp
import Proofs.Lemmas.ExpGlueReal
import Mathlib.Analysis.Complex.ExponentialBounds
/-!
# Block-wise statements for all four types, in rounded arithmetic, and through the public path (C01 pass 4)

`Blocks4Within M E BR Bt`: the upper-left 3×3 block of `M` is entrywise within `BR` of that of `E`, the translation column within
`Bt`, the bottom rows are equal.
-/
open Matrix NormedSpace
namespace PP
open Vec3 Quat Mat3
noncomputable section

def Blocks4Within (M E : Matrix (Fin 4) (Fin 4) ℝ) (BR Bt : ℝ) : Prop :=
  (∀ a b : Fin 3, |M a.castSucc b.castSucc - E a.castSucc b.castSucc| ≤ BR) ∧
  (∀ a : Fin 3, |M a.castSucc (Fin.last 3) - E a.castSucc (Fin.last 3)| ≤ Bt) ∧
  (∀ j : Fin 4, M (Fin.last 3) j = E (Fin.last 3) j)

theorem Blocks4Within.mono {M E : Matrix (Fin 4) (Fin 4) ℝ} {BR Bt BR' Bt' : ℝ} (h : Blocks4Within M E BR Bt)
    (h1 : BR ≤ BR') (h2 : Bt ≤ Bt') : Blocks4Within M E BR' Bt' :=
  ⟨fun a b => le_trans (h.1 a b) h1, fun a => le_trans (h.2.1 a) h2, h.2.2⟩

/-- triangle inequality block by block -/
theorem Blocks4Within.trans {M N E : Matrix (Fin 4) (Fin 4) ℝ} {BR Bt BR' Bt' : ℝ} (h : Blocks4Within M N BR Bt)
    (h' : Blocks4Within N E BR' Bt') : Blocks4Within M E (BR + BR') (Bt + Bt') := by
  refine ⟨fun a b => ?_, fun a => ?_, fun j => (h.2.2 j).trans (h'.2.2 j)⟩
  · have := abs_sub_le (M a.castSucc b.castSucc) (N a.castSucc b.castSucc) (E a.castSucc b.castSucc)
    linarith [h.1 a b, h'.1 a b]
  · have := abs_sub_le (M a.castSucc (Fin.last 3)) (N a.castSucc (Fin.last 3)) (E a.castSucc (Fin.last 3))
    linarith [h.2.1 a, h'.2.1 a]

theorem blk4_blocks (M M' : Matrix (Fin 3) (Fin 3) ℝ) (v v' : Fin 3 → ℝ) (BR Bt : ℝ)
    (hM : ∀ a b, |M a b - M' a b| ≤ BR) (hv : ∀ a, |v a - v' a| ≤ Bt) :
    Blocks4Within (blk4 M v 1) (blk4 M' v' 1) BR Bt := by
  refine ⟨fun a b => ?_, fun a => ?_, fun j => ?_⟩
  · rw [blk4_apply_cc, blk4_apply_cc]; exact hM a b
  · rw [blk4_apply_cl, blk4_apply_cl]; exact hv a
  · rw [blk4_apply_last, blk4_apply_last]

theorem sim3_blocks4_all (eps : ℝ) (x : sim3 ℝ) (h0 : 0 ≤ eps) (h1 : eps ≤ 1) :
    Blocks4Within (Sim3matrix (sim3Exp eps x)).toMatrix4 (NormedSpace.exp (sim3Gen x)) (Real.exp x.sigma * (eps ^ 4 / 8))
      ((8 * eps + Real.exp |x.sigma| * (eps ^ 3 / 2)) * (|x.tau.x| + |x.tau.y| + |x.tau.z|)) :=
  sim3_blocks_all eps x h0 h1

/-- se3, every input, block-wise: rotation block within `eps⁴/8`, translation column within `(eps³/8)‖τ‖₁`, bottom row exact -/
theorem se3_blocks4_all (eps : ℝ) (x : se3 ℝ) (h0 : 0 ≤ eps) (h1 : eps ≤ 1) :
    Blocks4Within (SE3matrix (se3Exp eps x)).toMatrix4 (NormedSpace.exp (se3Gen x)) (eps ^ 4 / 8)
      (eps ^ 3 / 8 * (|x.tau.x| + |x.tau.y| + |x.tau.z|)) := by
  have hT : 0 ≤ |x.tau.x| + |x.tau.y| + |x.tau.z| := by positivity
  have hexact : (eps < x.phi.norm ∨ x.phi.norm = 0) →
      Blocks4Within (SE3matrix (se3Exp eps x)).toMatrix4 (NormedSpace.exp (se3Gen x)) (eps ^ 4 / 8)
        (eps ^ 3 / 8 * (|x.tau.x| + |x.tau.y| + |x.tau.z|)) := fun h => by
    rw [se3Exp_matrix' eps x h0 h]
    exact ⟨fun a b => by simp; positivity, fun a => by simp; positivity, fun j => rfl⟩
  by_cases h : eps < x.phi.norm
  · exact hexact (Or.inl h)
  · rcases (Vec3.norm_nonneg x.phi).eq_or_lt with hz | hpos
    · exact hexact (Or.inr hz.symm)
    · have hle : x.phi.norm ≤ eps := not_lt.mp h
      have h3 : x.phi.norm ^ 3 ≤ eps ^ 3 := pow_le_pow_left₀ hpos.le hle 3
      have h4 : x.phi.norm ^ 4 ≤ eps ^ 4 := pow_le_pow_left₀ hpos.le hle 4
      rw [se3Gen_blk, exp_blk4_hat x.phi _ (ne_of_gt hpos), SE3matrix_blk]
      refine (blk4_blocks _ _ _ _ (x.phi.norm ^ 4 / 8) (x.phi.norm ^ 3 / 8 * (|x.tau.x| + |x.tau.y| + |x.tau.z|))
        (so3Exp_matrix_taylor_bound eps x.phi h h1) ?_).mono (by linarith) (by nlinarith)
      intro a
      show |((so3Jl eps x.phi).mulVec x.tau).toFun a - _| ≤ _
      rw [← mulVec_toFun]
      refine le_trans (mulVec_entry_diff _ _ _ _ (so3Jl_taylor_bound eps x.phi h h1 hpos) a) ?_
      have e : |x.tau.toFun 0| + |x.tau.toFun 1| + |x.tau.toFun 2| = |x.tau.x| + |x.tau.y| + |x.tau.z| := by
        simp [Vec3.toFun]
      rw [e]

/-- rxso3, every input, block-wise: scaled rotation within `e^σ·eps⁴/8`, last column and bottom row exact -/
theorem rxso3_blocks4_all (eps : ℝ) (x : rxso3 ℝ) (h0 : 0 ≤ eps) (h1 : eps ≤ 1) :
    Blocks4Within (RxSO3matrix (rxso3Exp eps x)).toMatrix4 (NormedSpace.exp (rxso3Gen x)) (Real.exp x.sigma * (eps ^ 4 / 8)) 0 := by
  have he := Real.exp_pos x.sigma
  rw [rxso3Gen_blk, exp_blk4_scal_hat, exp_scal_add_hat, RxSO3matrix_blk]
  refine blk4_blocks _ _ _ _ _ _ ?_ (fun a => by simp)
  intro a b
  show |(Real.exp x.sigma • (SO3matrix (so3Exp eps x.phi)).toMatrix) a b - _| ≤ _
  rw [smul_entry_diff, abs_of_pos he]
  have := so3Exp_matrix_taylor_bound
  by_cases h : eps < x.phi.norm
  · rw [so3Exp_matrix' eps x.phi h0 (Or.inl h), sub_self, abs_zero, mul_zero]; positivity
  · refine mul_le_mul_of_nonneg_left (le_trans (so3Exp_matrix_taylor_bound eps x.phi h h1 a b) ?_) he.le
    have : x.phi.norm ^ 4 ≤ eps ^ 4 := pow_le_pow_left₀ (Vec3.norm_nonneg _) (not_lt.mp h) 4
    linarith

/-- exact matrices of a stored Sim3 element and of the model's element, block by block (all relative to `e^σ` in the rotation
block) -/
theorem rounded_sim3_blocks (eps γq γs γt : ℝ) (h0 : 0 ≤ eps) (h1 : eps ≤ 1) (hq1 : γq ≤ 1) (hs0 : 0 ≤ γs)
    (x : sim3 ℝ) (Y : Sim3 ℝ)
    (hq : QuatNear γq Y.q (so3Exp eps x.phi) ∨ QuatNear γq Y.q (so3Exp eps x.phi).neg)
    (hs : |Y.s - Real.exp x.sigma| ≤ γs * Real.exp x.sigma)
    (ht : ∀ i, |Y.t.toFun i - (sim3Exp eps x).t.toFun i| ≤ γt) :
    Blocks4Within (Sim3matrix Y).toMatrix4 (Sim3matrix (sim3Exp eps x)).toMatrix4
      (Real.exp x.sigma * ((1 + γs) * (16 * γq) + 3 * γs)) γt := by
  have he := Real.exp_pos x.sigma
  have hgq : 0 ≤ γq := by rcases hq with h | h <;> exact le_trans (abs_nonneg _) h.1
  obtain ⟨_, hR⟩ := rounded_so3_core eps γq h0 h1 hq1 x.phi Y.q hq
  have hR3 := SO3matrix_entry_le (so3Exp eps x.phi) (so3Exp_normSq_le_two eps x.phi h0 h1)
  rw [Sim3matrix_blk, Sim3matrix_blk]
  refine blk4_blocks _ _ _ _ _ _ ?_ ht
  intro a b
  show |(Y.s • (SO3matrix Y.q).toMatrix) a b - (Real.exp x.sigma • (SO3matrix (so3Exp eps x.phi)).toMatrix) a b| ≤ _
  simp only [Matrix.smul_apply, smul_eq_mul]
  set R' := (SO3matrix Y.q).toMatrix a b
  set R := (SO3matrix (so3Exp eps x.phi)).toMatrix a b
  have e : Y.s * R' - Real.exp x.sigma * R = Y.s * (R' - R) + (Y.s - Real.exp x.sigma) * R := by ring
  have hYs : |Y.s| ≤ Real.exp x.sigma * (1 + γs) := by
    have : |Y.s| ≤ |Y.s - Real.exp x.sigma| + |Real.exp x.sigma| := by
      have := abs_add_le (Y.s - Real.exp x.sigma) (Real.exp x.sigma); simpa using this
    rw [abs_of_pos he] at this; nlinarith
  rw [e]
  calc _ ≤ |Y.s * (R' - R)| + |(Y.s - Real.exp x.sigma) * R| := abs_add_le _ _
    _ = |Y.s| * |R' - R| + |Y.s - Real.exp x.sigma| * |R| := by rw [abs_mul, abs_mul]
    _ ≤ Real.exp x.sigma * (1 + γs) * (16 * γq) + γs * Real.exp x.sigma * 3 := by
        gcongr
        · exact hR a b
        · exact hR3 a b
    _ = _ := by ring

/-- exact matrices of a stored SE3 element and of the model's element, block by block (no scale: `γs = 0`, `s = 1`) -/
theorem rounded_se3_blocks (eps γq γt : ℝ) (h0 : 0 ≤ eps) (h1 : eps ≤ 1) (hq1 : γq ≤ 1)
    (x : se3 ℝ) (Y : SE3 ℝ)
    (hq : QuatNear γq Y.q (so3Exp eps x.phi) ∨ QuatNear γq Y.q (so3Exp eps x.phi).neg)
    (ht : ∀ i, |Y.t.toFun i - (se3Exp eps x).t.toFun i| ≤ γt) :
    Blocks4Within (SE3matrix Y).toMatrix4 (SE3matrix (se3Exp eps x)).toMatrix4 (16 * γq) γt := by
  obtain ⟨_, hR⟩ := rounded_so3_core eps γq h0 h1 hq1 x.phi Y.q hq
  rw [SE3matrix_blk, SE3matrix_blk]
  exact blk4_blocks _ _ _ _ _ _ hR ht

/-- exact matrices of a stored RxSO3 element and of the model's element: scaled rotation block relative to `e^σ`, last column
and bottom row equal -/
theorem rounded_rxso3_blocks (eps γq γs : ℝ) (h0 : 0 ≤ eps) (h1 : eps ≤ 1) (hq1 : γq ≤ 1) (hs0 : 0 ≤ γs)
    (x : rxso3 ℝ) (Y : RxSO3 ℝ)
    (hq : QuatNear γq Y.q (so3Exp eps x.phi) ∨ QuatNear γq Y.q (so3Exp eps x.phi).neg)
    (hs : |Y.s - Real.exp x.sigma| ≤ γs * Real.exp x.sigma) :
    Blocks4Within (RxSO3matrix Y).toMatrix4 (RxSO3matrix (rxso3Exp eps x)).toMatrix4
      (Real.exp x.sigma * ((1 + γs) * (16 * γq) + 3 * γs)) 0 := by
  -- reuse the sim3 statement with zero translation
  have h := rounded_sim3_blocks eps γq γs 0 h0 h1 hq1 hs0 ⟨⟨0, 0, 0⟩, x.phi, x.sigma⟩ ⟨(sim3Exp eps ⟨⟨0, 0, 0⟩, x.phi, x.sigma⟩).t, Y.q, Y.s⟩
    hq hs (fun i => by simp)
  rw [Sim3matrix_blk, Sim3matrix_blk] at h
  rw [RxSO3matrix_blk, RxSO3matrix_blk]
  refine ⟨fun a b => ?_, fun a => ?_, fun j => ?_⟩
  · have := h.1 a b
    rw [blk4_apply_cc, blk4_apply_cc] at this ⊢
    exact this
  · rw [blk4_apply_cl, blk4_apply_cl]; simp
  · rw [blk4_apply_last, blk4_apply_last]

/-- `C(σ) = (e^σ − 1)/σ` (`1` at `σ = 0`): the eigenvalue of the coupling matrix `W(φ,σ)` along `φ` -/
def sim3C (s : ℝ) : ℝ := if s = 0 then 1 else WsC s

/-- the translation scale the property's relative error refers to (and the harness uses): `C(σ)·‖τ‖∞` -/
def sim3TransScale (x : sim3 ℝ) : ℝ := sim3C x.sigma * max |x.tau.x| (max |x.tau.y| |x.tau.z|)

theorem sim3C_lower (s : ℝ) : Real.exp (-|s|) ≤ sim3C s := by
  unfold sim3C
  split_ifs with h
  · rw [h]; simp
  · exact WsC_lower s h

theorem tau_one_le_three_inf (v : Vec3 ℝ) : |v.x| + |v.y| + |v.z| ≤ 3 * max |v.x| (max |v.y| |v.z|) := by
  have h1 := le_max_left |v.x| (max |v.y| |v.z|)
  have h2 := le_trans (le_max_left |v.y| |v.z|) (le_max_right |v.x| (max |v.y| |v.z|))
  have h3 := le_trans (le_max_right |v.y| |v.z|) (le_max_right |v.x| (max |v.y| |v.z|))
  linarith

/-- translation column of `matrix(Exp ξ)` against `exp(ξ^)`, RELATIVE to the translation scale `C(σ)‖τ‖∞`:
`≤ 90·eps + e^{2|σ|}·eps³` for every input -/
theorem sim3_translation_relative (eps : ℝ) (x : sim3 ℝ) (h0 : 0 ≤ eps) (h1 : eps ≤ 1) (a : Fin 3) :
    |(Sim3matrix (sim3Exp eps x)).toMatrix4 a.castSucc (Fin.last 3) - NormedSpace.exp (sim3Gen x) a.castSucc (Fin.last 3)|
      ≤ (90 * eps + Real.exp (2 * |x.sigma|) * eps ^ 3) * sim3TransScale x := by
  unfold sim3TransScale
  set T1 := |x.tau.x| + |x.tau.y| + |x.tau.z| with hT1
  set Ti := max |x.tau.x| (max |x.tau.y| |x.tau.z|) with hTi
  have hT : T1 ≤ 3 * Ti := tau_one_le_three_inf x.tau
  have hTi0 : 0 ≤ Ti := le_trans (abs_nonneg _) (le_max_left _ _)
  have hC := sim3C_lower x.sigma
  have hCpos : 0 < sim3C x.sigma := lt_of_lt_of_le (Real.exp_pos _) hC
  have he3 : 0 ≤ eps ^ 3 := by positivity
  have hE := Real.exp_pos |x.sigma|
  have hsplit : Real.exp (2 * |x.sigma|) * Real.exp (-|x.sigma|) = Real.exp |x.sigma| := by
    rw [← Real.exp_add]; congr 1; ring
  by_cases hs : eps < |x.sigma|
  · have h := (sim3_blocks_large_sigma eps x h0 h1 hs).2.1 a
    refine le_trans h ?_
    -- e^{|σ|}(eps³/3)·T1 ≤ e^{|σ|} eps³ Ti ≤ e^{2|σ|} eps³ · C · Ti
    have s1 : Real.exp |x.sigma| * (eps ^ 3 / 3) * T1 ≤ Real.exp |x.sigma| * eps ^ 3 * Ti := by
      have : Real.exp |x.sigma| * (eps ^ 3 / 3) * T1 ≤ Real.exp |x.sigma| * (eps ^ 3 / 3) * (3 * Ti) :=
        mul_le_mul_of_nonneg_left hT (by positivity)
      linarith
    have s2 : Real.exp |x.sigma| ≤ Real.exp (2 * |x.sigma|) * sim3C x.sigma := by
      rw [← hsplit]; exact mul_le_mul_of_nonneg_left hC (Real.exp_pos _).le
    have s3 : Real.exp |x.sigma| * eps ^ 3 * Ti ≤ Real.exp (2 * |x.sigma|) * sim3C x.sigma * eps ^ 3 * Ti := by
      have := mul_le_mul_of_nonneg_right s2 (mul_nonneg he3 hTi0)
      nlinarith
    have s4 : 0 ≤ 90 * eps * (sim3C x.sigma * Ti) := by positivity
    nlinarith
  · have hle : |x.sigma| ≤ eps := not_lt.mp hs
    have h := (sim3_blocks_all eps x h0 h1).2.1 a
    refine le_trans h ?_
    have hE3 : Real.exp |x.sigma| ≤ 3 := by
      have : Real.exp |x.sigma| ≤ Real.exp 1 := Real.exp_le_exp.mpr (by linarith)
      have := Real.exp_one_lt_three
      linarith
    have hC3 : 1 ≤ 3 * sim3C x.sigma := by
      have hm : Real.exp (-1) ≤ Real.exp (-|x.sigma|) := Real.exp_le_exp.mpr (by linarith)
      have hp : Real.exp 1 * Real.exp (-1) = 1 := by rw [← Real.exp_add]; simp
      have := Real.exp_one_lt_three
      have hpos := Real.exp_pos (-1)
      nlinarith
    have e3le : eps ^ 3 ≤ eps := by
      have : eps ^ 2 ≤ 1 := by nlinarith
      nlinarith
    -- (8 eps + e^{|σ|} eps³/2)·T1 ≤ (8 eps + 1.5 eps)·3 Ti ≤ 30 eps Ti ≤ 90 eps C Ti
    have s1 : (8 * eps + Real.exp |x.sigma| * (eps ^ 3 / 2)) ≤ 10 * eps := by nlinarith
    have s2 : (8 * eps + Real.exp |x.sigma| * (eps ^ 3 / 2)) * T1 ≤ 10 * eps * (3 * Ti) := by
      have hnn : 0 ≤ 8 * eps + Real.exp |x.sigma| * (eps ^ 3 / 2) := by positivity
      calc _ ≤ (8 * eps + Real.exp |x.sigma| * (eps ^ 3 / 2)) * (3 * Ti) := mul_le_mul_of_nonneg_left hT hnn
        _ ≤ 10 * eps * (3 * Ti) := mul_le_mul_of_nonneg_right s1 (by positivity)
    have s3 : 30 * eps * Ti ≤ 90 * eps * (sim3C x.sigma * Ti) := by
      have : Ti ≤ 3 * sim3C x.sigma * Ti := by nlinarith
      nlinarith
    have s4 : 0 ≤ Real.exp (2 * |x.sigma|) * eps ^ 3 * (sim3C x.sigma * Ti) := by positivity
    nlinarith
end
end PP
