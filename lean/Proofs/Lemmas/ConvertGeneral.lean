import Proofs.Lemmas.Convert
namespace PP
open Vec3 Quat Mat3

macro "lie_unfold_at" h:ident : tactic =>
  `(tactic| simp only [Quat.mul, Quat.act, Quat.conj, Quat.neg, Quat.vec, Quat.mk', Quat.one, Quat.normSq,
      Vec3.add, Vec3.sub, Vec3.neg, Vec3.smul, Vec3.dot, Vec3.cross, Vec3.normSq, Vec3.zero, Vec3.e0, Vec3.e1,
      Vec3.e2, Mat3.mulVec, Mat3.vecMul, Mat3.mul, Mat3.add, Mat3.sub, Mat3.neg, Mat3.smul, Mat3.one, Mat3.zero,
      Mat3.hat, Mat3.outer, Mat3.transpose, Mat3.c0, Mat3.c1, Mat3.c2, Mat3.ofCols, Mat3.ofRows, Mat3.det,
      Mat3.trace, Mat3.adjugate, k_real, q_real, Nat.cast_ofNat, Nat.cast_zero, Nat.cast_one] at $h:ident)

/-! ## arbitrary proper rotation matrices (not assumed to come from a quaternion) -/

theorem Mat3.adj_mul (R : Mat3 ℝ) : R.adjugate.mul R = Mat3.smul R.det Mat3.one := by
  ext <;> lie_unfold <;> ring
theorem Mat3.mul_assoc' (A B C : Mat3 ℝ) : (A.mul B).mul C = A.mul (B.mul C) := by
  ext <;> lie_unfold <;> ring
theorem Mat3.mul_one' (A : Mat3 ℝ) : A.mul Mat3.one = A := by ext <;> lie_unfold <;> ring
theorem Mat3.one_smul_mul (A : Mat3 ℝ) : (Mat3.smul 1 Mat3.one).mul A = A := by ext <;> lie_unfold <;> ring

/-- for `R Rᵀ = 1`, `det R = 1` the adjugate is the transpose (rows are a right-handed orthonormal frame) -/
theorem Mat3.adj_eq_transpose (R : Mat3 ℝ) (hO : R.mul R.transpose = Mat3.one) (hD : R.det = 1) :
    R.adjugate = R.transpose := by
  calc R.adjugate = R.adjugate.mul Mat3.one := (Mat3.mul_one' _).symm
    _ = R.adjugate.mul (R.mul R.transpose) := by rw [hO]
    _ = (R.adjugate.mul R).mul R.transpose := (Mat3.mul_assoc' _ _ _).symm
    _ = (Mat3.smul 1 Mat3.one).mul R.transpose := by rw [Mat3.adj_mul, hD]
    _ = R.transpose := Mat3.one_smul_mul _

/-- … and `Rᵀ R = 1` as well -/
theorem Mat3.transpose_mul_self (R : Mat3 ℝ) (hO : R.mul R.transpose = Mat3.one) (hD : R.det = 1) :
    R.transpose.mul R = Mat3.one := by
  rw [← Mat3.adj_eq_transpose R hO hD, Mat3.adj_mul, hD]; ext <;> lie_unfold <;> ring


/-- candidate 0 on an arbitrary rotation matrix: scaled by `i` with `4·t0·i² = 1` it is a unit quaternion whose
matrix is `R` (certificates: constant-coefficient combinations of the 21 relations, found by linear algebra) -/
theorem cand0_general (R : Mat3 ℝ) (hO : R.mul R.transpose = Mat3.one) (hD : R.det = 1) (i : ℝ)
    (hi : 4 * (cand0 R.transpose).t * i * i = 1) :
    (⟨(cand0 R.transpose).x * i, (cand0 R.transpose).y * i, (cand0 R.transpose).z * i,
        (cand0 R.transpose).w * i⟩ : Quat ℝ).normSq = 1 ∧
    SO3matrix ⟨(cand0 R.transpose).x * i, (cand0 R.transpose).y * i, (cand0 R.transpose).z * i,
        (cand0 R.transpose).w * i⟩ = R := by
  have hC := Mat3.transpose_mul_self R hO hD
  have hA := Mat3.adj_eq_transpose R hO hD
  have o00 : R.r0.x^2 + R.r0.y^2 + R.r0.z^2 - 1 = 0 := by
    have := congrArg (fun M : Mat3 ℝ => M.r0.x) hO
    lie_unfold_at this
    linear_combination this
  have o01 : R.r0.x*R.r1.x + R.r0.y*R.r1.y + R.r0.z*R.r1.z = 0 := by
    have := congrArg (fun M : Mat3 ℝ => M.r0.y) hO
    lie_unfold_at this
    linear_combination this
  have o02 : R.r0.x*R.r2.x + R.r0.y*R.r2.y + R.r0.z*R.r2.z = 0 := by
    have := congrArg (fun M : Mat3 ℝ => M.r0.z) hO
    lie_unfold_at this
    linear_combination this
  have o11 : R.r1.x^2 + R.r1.y^2 + R.r1.z^2 - 1 = 0 := by
    have := congrArg (fun M : Mat3 ℝ => M.r1.y) hO
    lie_unfold_at this
    linear_combination this
  have o12 : R.r1.x*R.r2.x + R.r1.y*R.r2.y + R.r1.z*R.r2.z = 0 := by
    have := congrArg (fun M : Mat3 ℝ => M.r1.z) hO
    lie_unfold_at this
    linear_combination this
  have o22 : R.r2.x^2 + R.r2.y^2 + R.r2.z^2 - 1 = 0 := by
    have := congrArg (fun M : Mat3 ℝ => M.r2.z) hO
    lie_unfold_at this
    linear_combination this
  have c00 : R.r0.x^2 + R.r1.x^2 + R.r2.x^2 - 1 = 0 := by
    have := congrArg (fun M : Mat3 ℝ => M.r0.x) hC
    lie_unfold_at this
    linear_combination this
  have c01 : R.r0.x*R.r0.y + R.r1.x*R.r1.y + R.r2.x*R.r2.y = 0 := by
    have := congrArg (fun M : Mat3 ℝ => M.r0.y) hC
    lie_unfold_at this
    linear_combination this
  have c02 : R.r0.x*R.r0.z + R.r1.x*R.r1.z + R.r2.x*R.r2.z = 0 := by
    have := congrArg (fun M : Mat3 ℝ => M.r0.z) hC
    lie_unfold_at this
    linear_combination this
  have c11 : R.r0.y^2 + R.r1.y^2 + R.r2.y^2 - 1 = 0 := by
    have := congrArg (fun M : Mat3 ℝ => M.r1.y) hC
    lie_unfold_at this
    linear_combination this
  have c12 : R.r0.y*R.r0.z + R.r1.y*R.r1.z + R.r2.y*R.r2.z = 0 := by
    have := congrArg (fun M : Mat3 ℝ => M.r1.z) hC
    lie_unfold_at this
    linear_combination this
  have c22 : R.r0.z^2 + R.r1.z^2 + R.r2.z^2 - 1 = 0 := by
    have := congrArg (fun M : Mat3 ℝ => M.r2.z) hC
    lie_unfold_at this
    linear_combination this
  have x00 : -R.r0.x + R.r1.y*R.r2.z - R.r1.z*R.r2.y = 0 := by
    have := congrArg (fun M : Mat3 ℝ => M.r0.x) hA
    lie_unfold_at this
    linear_combination this
  have x01 : -R.r0.y - R.r1.x*R.r2.z + R.r1.z*R.r2.x = 0 := by
    have := congrArg (fun M : Mat3 ℝ => M.r1.x) hA
    lie_unfold_at this
    linear_combination this
  have x02 : -R.r0.z + R.r1.x*R.r2.y - R.r1.y*R.r2.x = 0 := by
    have := congrArg (fun M : Mat3 ℝ => M.r2.x) hA
    lie_unfold_at this
    linear_combination this
  have x10 : -R.r0.y*R.r2.z + R.r0.z*R.r2.y - R.r1.x = 0 := by
    have := congrArg (fun M : Mat3 ℝ => M.r0.y) hA
    lie_unfold_at this
    linear_combination this
  have x11 : R.r0.x*R.r2.z - R.r0.z*R.r2.x - R.r1.y = 0 := by
    have := congrArg (fun M : Mat3 ℝ => M.r1.y) hA
    lie_unfold_at this
    linear_combination this
  have x12 : -R.r0.x*R.r2.y + R.r0.y*R.r2.x - R.r1.z = 0 := by
    have := congrArg (fun M : Mat3 ℝ => M.r2.y) hA
    lie_unfold_at this
    linear_combination this
  have x20 : R.r0.y*R.r1.z - R.r0.z*R.r1.y - R.r2.x = 0 := by
    have := congrArg (fun M : Mat3 ℝ => M.r0.z) hA
    lie_unfold_at this
    linear_combination this
  have x21 : -R.r0.x*R.r1.z + R.r0.z*R.r1.x - R.r2.y = 0 := by
    have := congrArg (fun M : Mat3 ℝ => M.r1.z) hA
    lie_unfold_at this
    linear_combination this
  have x22 : R.r0.x*R.r1.y - R.r0.y*R.r1.x - R.r2.z = 0 := by
    have := congrArg (fun M : Mat3 ℝ => M.r2.z) hA
    lie_unfold_at this
    linear_combination this
  simp only [cand0] at hi ⊢
  lie_unfold_at hi
  constructor
  · lie_unfold
    linear_combination (-(-1)) * hi + (i * i) * ((1) * o00 + (1) * o11 + (1) * o22 + (2) * x00 + (-2) * x11 + (-2) * x22)
  · unfold SO3matrix
    ext <;> lie_unfold
    · linear_combination (-(1 - R.r0.x)) * hi + (i * i) * ((-2) * o00 + (-2) * c00 + (4) * x11 + (4) * x22)
    · linear_combination (-(-R.r0.y)) * hi + (i * i) * ((2) * o01 + (-2) * c01 + (2) * x01 + (-2) * x10)
    · linear_combination (-(-R.r0.z)) * hi + (i * i) * ((2) * o02 + (-2) * c02 + (2) * x02 + (-2) * x20)
    · linear_combination (-(-R.r1.x)) * hi + (i * i) * ((-2) * o01 + (2) * c01 + (-2) * x01 + (2) * x10)
    · linear_combination (-(1 - R.r1.y)) * hi + (i * i) * ((-2) * o00 + (-2) * o22 + (2) * c11 + (4) * x11)
    · linear_combination (-(-R.r1.z)) * hi + (i * i) * ((2) * o12 + (2) * c12 + (2) * x12 + (2) * x21)
    · linear_combination (-(-R.r2.x)) * hi + (i * i) * ((-2) * o02 + (2) * c02 + (-2) * x02 + (2) * x20)
    · linear_combination (-(-R.r2.y)) * hi + (i * i) * ((2) * o12 + (2) * c12 + (2) * x12 + (2) * x21)
    · linear_combination (-(1 - R.r2.z)) * hi + (i * i) * ((2) * o22 + (-2) * c00 + (-2) * c11 + (4) * x22)

/-- candidate 1 on an arbitrary rotation matrix: scaled by `i` with `4·t1·i² = 1` it is a unit quaternion whose
matrix is `R` (certificates: constant-coefficient combinations of the 21 relations, found by linear algebra) -/
theorem cand1_general (R : Mat3 ℝ) (hO : R.mul R.transpose = Mat3.one) (hD : R.det = 1) (i : ℝ)
    (hi : 4 * (cand1 R.transpose).t * i * i = 1) :
    (⟨(cand1 R.transpose).x * i, (cand1 R.transpose).y * i, (cand1 R.transpose).z * i,
        (cand1 R.transpose).w * i⟩ : Quat ℝ).normSq = 1 ∧
    SO3matrix ⟨(cand1 R.transpose).x * i, (cand1 R.transpose).y * i, (cand1 R.transpose).z * i,
        (cand1 R.transpose).w * i⟩ = R := by
  have hC := Mat3.transpose_mul_self R hO hD
  have hA := Mat3.adj_eq_transpose R hO hD
  have o00 : R.r0.x^2 + R.r0.y^2 + R.r0.z^2 - 1 = 0 := by
    have := congrArg (fun M : Mat3 ℝ => M.r0.x) hO
    lie_unfold_at this
    linear_combination this
  have o01 : R.r0.x*R.r1.x + R.r0.y*R.r1.y + R.r0.z*R.r1.z = 0 := by
    have := congrArg (fun M : Mat3 ℝ => M.r0.y) hO
    lie_unfold_at this
    linear_combination this
  have o02 : R.r0.x*R.r2.x + R.r0.y*R.r2.y + R.r0.z*R.r2.z = 0 := by
    have := congrArg (fun M : Mat3 ℝ => M.r0.z) hO
    lie_unfold_at this
    linear_combination this
  have o11 : R.r1.x^2 + R.r1.y^2 + R.r1.z^2 - 1 = 0 := by
    have := congrArg (fun M : Mat3 ℝ => M.r1.y) hO
    lie_unfold_at this
    linear_combination this
  have o12 : R.r1.x*R.r2.x + R.r1.y*R.r2.y + R.r1.z*R.r2.z = 0 := by
    have := congrArg (fun M : Mat3 ℝ => M.r1.z) hO
    lie_unfold_at this
    linear_combination this
  have o22 : R.r2.x^2 + R.r2.y^2 + R.r2.z^2 - 1 = 0 := by
    have := congrArg (fun M : Mat3 ℝ => M.r2.z) hO
    lie_unfold_at this
    linear_combination this
  have c00 : R.r0.x^2 + R.r1.x^2 + R.r2.x^2 - 1 = 0 := by
    have := congrArg (fun M : Mat3 ℝ => M.r0.x) hC
    lie_unfold_at this
    linear_combination this
  have c01 : R.r0.x*R.r0.y + R.r1.x*R.r1.y + R.r2.x*R.r2.y = 0 := by
    have := congrArg (fun M : Mat3 ℝ => M.r0.y) hC
    lie_unfold_at this
    linear_combination this
  have c02 : R.r0.x*R.r0.z + R.r1.x*R.r1.z + R.r2.x*R.r2.z = 0 := by
    have := congrArg (fun M : Mat3 ℝ => M.r0.z) hC
    lie_unfold_at this
    linear_combination this
  have c11 : R.r0.y^2 + R.r1.y^2 + R.r2.y^2 - 1 = 0 := by
    have := congrArg (fun M : Mat3 ℝ => M.r1.y) hC
    lie_unfold_at this
    linear_combination this
  have c12 : R.r0.y*R.r0.z + R.r1.y*R.r1.z + R.r2.y*R.r2.z = 0 := by
    have := congrArg (fun M : Mat3 ℝ => M.r1.z) hC
    lie_unfold_at this
    linear_combination this
  have c22 : R.r0.z^2 + R.r1.z^2 + R.r2.z^2 - 1 = 0 := by
    have := congrArg (fun M : Mat3 ℝ => M.r2.z) hC
    lie_unfold_at this
    linear_combination this
  have x00 : -R.r0.x + R.r1.y*R.r2.z - R.r1.z*R.r2.y = 0 := by
    have := congrArg (fun M : Mat3 ℝ => M.r0.x) hA
    lie_unfold_at this
    linear_combination this
  have x01 : -R.r0.y - R.r1.x*R.r2.z + R.r1.z*R.r2.x = 0 := by
    have := congrArg (fun M : Mat3 ℝ => M.r1.x) hA
    lie_unfold_at this
    linear_combination this
  have x02 : -R.r0.z + R.r1.x*R.r2.y - R.r1.y*R.r2.x = 0 := by
    have := congrArg (fun M : Mat3 ℝ => M.r2.x) hA
    lie_unfold_at this
    linear_combination this
  have x10 : -R.r0.y*R.r2.z + R.r0.z*R.r2.y - R.r1.x = 0 := by
    have := congrArg (fun M : Mat3 ℝ => M.r0.y) hA
    lie_unfold_at this
    linear_combination this
  have x11 : R.r0.x*R.r2.z - R.r0.z*R.r2.x - R.r1.y = 0 := by
    have := congrArg (fun M : Mat3 ℝ => M.r1.y) hA
    lie_unfold_at this
    linear_combination this
  have x12 : -R.r0.x*R.r2.y + R.r0.y*R.r2.x - R.r1.z = 0 := by
    have := congrArg (fun M : Mat3 ℝ => M.r2.y) hA
    lie_unfold_at this
    linear_combination this
  have x20 : R.r0.y*R.r1.z - R.r0.z*R.r1.y - R.r2.x = 0 := by
    have := congrArg (fun M : Mat3 ℝ => M.r0.z) hA
    lie_unfold_at this
    linear_combination this
  have x21 : -R.r0.x*R.r1.z + R.r0.z*R.r1.x - R.r2.y = 0 := by
    have := congrArg (fun M : Mat3 ℝ => M.r1.z) hA
    lie_unfold_at this
    linear_combination this
  have x22 : R.r0.x*R.r1.y - R.r0.y*R.r1.x - R.r2.z = 0 := by
    have := congrArg (fun M : Mat3 ℝ => M.r2.z) hA
    lie_unfold_at this
    linear_combination this
  simp only [cand1] at hi ⊢
  lie_unfold_at hi
  constructor
  · lie_unfold
    linear_combination (-(-1)) * hi + (i * i) * ((1) * o00 + (1) * o11 + (1) * o22 + (-2) * x00 + (2) * x11 + (-2) * x22)
  · unfold SO3matrix
    ext <;> lie_unfold
    · linear_combination (-(1 - R.r0.x)) * hi + (i * i) * ((-2) * o11 + (-2) * o22 + (2) * c00 + (4) * x00)
    · linear_combination (-(-R.r0.y)) * hi + (i * i) * ((-2) * o01 + (2) * c01 + (2) * x01 + (-2) * x10)
    · linear_combination (-(-R.r0.z)) * hi + (i * i) * ((2) * o02 + (2) * c02 + (2) * x02 + (2) * x20)
    · linear_combination (-(-R.r1.x)) * hi + (i * i) * ((2) * o01 + (-2) * c01 + (-2) * x01 + (2) * x10)
    · linear_combination (-(1 - R.r1.y)) * hi + (i * i) * ((-2) * o11 + (-2) * c11 + (4) * x00 + (4) * x22)
    · linear_combination (-(-R.r1.z)) * hi + (i * i) * ((2) * o12 + (-2) * c12 + (2) * x12 + (-2) * x21)
    · linear_combination (-(-R.r2.x)) * hi + (i * i) * ((2) * o02 + (2) * c02 + (2) * x02 + (2) * x20)
    · linear_combination (-(-R.r2.y)) * hi + (i * i) * ((-2) * o12 + (2) * c12 + (-2) * x12 + (2) * x21)
    · linear_combination (-(1 - R.r2.z)) * hi + (i * i) * ((2) * o22 + (-2) * c00 + (-2) * c11 + (4) * x22)

/-- candidate 2 on an arbitrary rotation matrix: scaled by `i` with `4·t2·i² = 1` it is a unit quaternion whose
matrix is `R` (certificates: constant-coefficient combinations of the 21 relations, found by linear algebra) -/
theorem cand2_general (R : Mat3 ℝ) (hO : R.mul R.transpose = Mat3.one) (hD : R.det = 1) (i : ℝ)
    (hi : 4 * (cand2 R.transpose).t * i * i = 1) :
    (⟨(cand2 R.transpose).x * i, (cand2 R.transpose).y * i, (cand2 R.transpose).z * i,
        (cand2 R.transpose).w * i⟩ : Quat ℝ).normSq = 1 ∧
    SO3matrix ⟨(cand2 R.transpose).x * i, (cand2 R.transpose).y * i, (cand2 R.transpose).z * i,
        (cand2 R.transpose).w * i⟩ = R := by
  have hC := Mat3.transpose_mul_self R hO hD
  have hA := Mat3.adj_eq_transpose R hO hD
  have o00 : R.r0.x^2 + R.r0.y^2 + R.r0.z^2 - 1 = 0 := by
    have := congrArg (fun M : Mat3 ℝ => M.r0.x) hO
    lie_unfold_at this
    linear_combination this
  have o01 : R.r0.x*R.r1.x + R.r0.y*R.r1.y + R.r0.z*R.r1.z = 0 := by
    have := congrArg (fun M : Mat3 ℝ => M.r0.y) hO
    lie_unfold_at this
    linear_combination this
  have o02 : R.r0.x*R.r2.x + R.r0.y*R.r2.y + R.r0.z*R.r2.z = 0 := by
    have := congrArg (fun M : Mat3 ℝ => M.r0.z) hO
    lie_unfold_at this
    linear_combination this
  have o11 : R.r1.x^2 + R.r1.y^2 + R.r1.z^2 - 1 = 0 := by
    have := congrArg (fun M : Mat3 ℝ => M.r1.y) hO
    lie_unfold_at this
    linear_combination this
  have o12 : R.r1.x*R.r2.x + R.r1.y*R.r2.y + R.r1.z*R.r2.z = 0 := by
    have := congrArg (fun M : Mat3 ℝ => M.r1.z) hO
    lie_unfold_at this
    linear_combination this
  have o22 : R.r2.x^2 + R.r2.y^2 + R.r2.z^2 - 1 = 0 := by
    have := congrArg (fun M : Mat3 ℝ => M.r2.z) hO
    lie_unfold_at this
    linear_combination this
  have c00 : R.r0.x^2 + R.r1.x^2 + R.r2.x^2 - 1 = 0 := by
    have := congrArg (fun M : Mat3 ℝ => M.r0.x) hC
    lie_unfold_at this
    linear_combination this
  have c01 : R.r0.x*R.r0.y + R.r1.x*R.r1.y + R.r2.x*R.r2.y = 0 := by
    have := congrArg (fun M : Mat3 ℝ => M.r0.y) hC
    lie_unfold_at this
    linear_combination this
  have c02 : R.r0.x*R.r0.z + R.r1.x*R.r1.z + R.r2.x*R.r2.z = 0 := by
    have := congrArg (fun M : Mat3 ℝ => M.r0.z) hC
    lie_unfold_at this
    linear_combination this
  have c11 : R.r0.y^2 + R.r1.y^2 + R.r2.y^2 - 1 = 0 := by
    have := congrArg (fun M : Mat3 ℝ => M.r1.y) hC
    lie_unfold_at this
    linear_combination this
  have c12 : R.r0.y*R.r0.z + R.r1.y*R.r1.z + R.r2.y*R.r2.z = 0 := by
    have := congrArg (fun M : Mat3 ℝ => M.r1.z) hC
    lie_unfold_at this
    linear_combination this
  have c22 : R.r0.z^2 + R.r1.z^2 + R.r2.z^2 - 1 = 0 := by
    have := congrArg (fun M : Mat3 ℝ => M.r2.z) hC
    lie_unfold_at this
    linear_combination this
  have x00 : -R.r0.x + R.r1.y*R.r2.z - R.r1.z*R.r2.y = 0 := by
    have := congrArg (fun M : Mat3 ℝ => M.r0.x) hA
    lie_unfold_at this
    linear_combination this
  have x01 : -R.r0.y - R.r1.x*R.r2.z + R.r1.z*R.r2.x = 0 := by
    have := congrArg (fun M : Mat3 ℝ => M.r1.x) hA
    lie_unfold_at this
    linear_combination this
  have x02 : -R.r0.z + R.r1.x*R.r2.y - R.r1.y*R.r2.x = 0 := by
    have := congrArg (fun M : Mat3 ℝ => M.r2.x) hA
    lie_unfold_at this
    linear_combination this
  have x10 : -R.r0.y*R.r2.z + R.r0.z*R.r2.y - R.r1.x = 0 := by
    have := congrArg (fun M : Mat3 ℝ => M.r0.y) hA
    lie_unfold_at this
    linear_combination this
  have x11 : R.r0.x*R.r2.z - R.r0.z*R.r2.x - R.r1.y = 0 := by
    have := congrArg (fun M : Mat3 ℝ => M.r1.y) hA
    lie_unfold_at this
    linear_combination this
  have x12 : -R.r0.x*R.r2.y + R.r0.y*R.r2.x - R.r1.z = 0 := by
    have := congrArg (fun M : Mat3 ℝ => M.r2.y) hA
    lie_unfold_at this
    linear_combination this
  have x20 : R.r0.y*R.r1.z - R.r0.z*R.r1.y - R.r2.x = 0 := by
    have := congrArg (fun M : Mat3 ℝ => M.r0.z) hA
    lie_unfold_at this
    linear_combination this
  have x21 : -R.r0.x*R.r1.z + R.r0.z*R.r1.x - R.r2.y = 0 := by
    have := congrArg (fun M : Mat3 ℝ => M.r1.z) hA
    lie_unfold_at this
    linear_combination this
  have x22 : R.r0.x*R.r1.y - R.r0.y*R.r1.x - R.r2.z = 0 := by
    have := congrArg (fun M : Mat3 ℝ => M.r2.z) hA
    lie_unfold_at this
    linear_combination this
  simp only [cand2] at hi ⊢
  lie_unfold_at hi
  constructor
  · lie_unfold
    linear_combination (-(-1)) * hi + (i * i) * ((1) * o00 + (1) * o11 + (1) * o22 + (-2) * x00 + (-2) * x11 + (2) * x22)
  · unfold SO3matrix
    ext <;> lie_unfold
    · linear_combination (-(1 - R.r0.x)) * hi + (i * i) * ((-2) * o11 + (-2) * o22 + (2) * c00 + (4) * x00)
    · linear_combination (-(-R.r0.y)) * hi + (i * i) * ((2) * o01 + (2) * c01 + (2) * x01 + (2) * x10)
    · linear_combination (-(-R.r0.z)) * hi + (i * i) * ((-2) * o02 + (2) * c02 + (2) * x02 + (-2) * x20)
    · linear_combination (-(-R.r1.x)) * hi + (i * i) * ((2) * o01 + (2) * c01 + (2) * x01 + (2) * x10)
    · linear_combination (-(1 - R.r1.y)) * hi + (i * i) * ((-2) * o00 + (-2) * o22 + (2) * c11 + (4) * x11)
    · linear_combination (-(-R.r1.z)) * hi + (i * i) * ((-2) * o12 + (2) * c12 + (2) * x12 + (-2) * x21)
    · linear_combination (-(-R.r2.x)) * hi + (i * i) * ((2) * o02 + (-2) * c02 + (-2) * x02 + (2) * x20)
    · linear_combination (-(-R.r2.y)) * hi + (i * i) * ((2) * o12 + (-2) * c12 + (-2) * x12 + (2) * x21)
    · linear_combination (-(1 - R.r2.z)) * hi + (i * i) * ((-2) * o00 + (-2) * o11 + (-4) * o22 + (2) * c00 + (2) * c11 + (4) * x00 + (4) * x11)

/-- candidate 3 on an arbitrary rotation matrix: scaled by `i` with `4·t3·i² = 1` it is a unit quaternion whose
matrix is `R` (certificates: constant-coefficient combinations of the 21 relations, found by linear algebra) -/
theorem cand3_general (R : Mat3 ℝ) (hO : R.mul R.transpose = Mat3.one) (hD : R.det = 1) (i : ℝ)
    (hi : 4 * (cand3 R.transpose).t * i * i = 1) :
    (⟨(cand3 R.transpose).x * i, (cand3 R.transpose).y * i, (cand3 R.transpose).z * i,
        (cand3 R.transpose).w * i⟩ : Quat ℝ).normSq = 1 ∧
    SO3matrix ⟨(cand3 R.transpose).x * i, (cand3 R.transpose).y * i, (cand3 R.transpose).z * i,
        (cand3 R.transpose).w * i⟩ = R := by
  have hC := Mat3.transpose_mul_self R hO hD
  have hA := Mat3.adj_eq_transpose R hO hD
  have o00 : R.r0.x^2 + R.r0.y^2 + R.r0.z^2 - 1 = 0 := by
    have := congrArg (fun M : Mat3 ℝ => M.r0.x) hO
    lie_unfold_at this
    linear_combination this
  have o01 : R.r0.x*R.r1.x + R.r0.y*R.r1.y + R.r0.z*R.r1.z = 0 := by
    have := congrArg (fun M : Mat3 ℝ => M.r0.y) hO
    lie_unfold_at this
    linear_combination this
  have o02 : R.r0.x*R.r2.x + R.r0.y*R.r2.y + R.r0.z*R.r2.z = 0 := by
    have := congrArg (fun M : Mat3 ℝ => M.r0.z) hO
    lie_unfold_at this
    linear_combination this
  have o11 : R.r1.x^2 + R.r1.y^2 + R.r1.z^2 - 1 = 0 := by
    have := congrArg (fun M : Mat3 ℝ => M.r1.y) hO
    lie_unfold_at this
    linear_combination this
  have o12 : R.r1.x*R.r2.x + R.r1.y*R.r2.y + R.r1.z*R.r2.z = 0 := by
    have := congrArg (fun M : Mat3 ℝ => M.r1.z) hO
    lie_unfold_at this
    linear_combination this
  have o22 : R.r2.x^2 + R.r2.y^2 + R.r2.z^2 - 1 = 0 := by
    have := congrArg (fun M : Mat3 ℝ => M.r2.z) hO
    lie_unfold_at this
    linear_combination this
  have c00 : R.r0.x^2 + R.r1.x^2 + R.r2.x^2 - 1 = 0 := by
    have := congrArg (fun M : Mat3 ℝ => M.r0.x) hC
    lie_unfold_at this
    linear_combination this
  have c01 : R.r0.x*R.r0.y + R.r1.x*R.r1.y + R.r2.x*R.r2.y = 0 := by
    have := congrArg (fun M : Mat3 ℝ => M.r0.y) hC
    lie_unfold_at this
    linear_combination this
  have c02 : R.r0.x*R.r0.z + R.r1.x*R.r1.z + R.r2.x*R.r2.z = 0 := by
    have := congrArg (fun M : Mat3 ℝ => M.r0.z) hC
    lie_unfold_at this
    linear_combination this
  have c11 : R.r0.y^2 + R.r1.y^2 + R.r2.y^2 - 1 = 0 := by
    have := congrArg (fun M : Mat3 ℝ => M.r1.y) hC
    lie_unfold_at this
    linear_combination this
  have c12 : R.r0.y*R.r0.z + R.r1.y*R.r1.z + R.r2.y*R.r2.z = 0 := by
    have := congrArg (fun M : Mat3 ℝ => M.r1.z) hC
    lie_unfold_at this
    linear_combination this
  have c22 : R.r0.z^2 + R.r1.z^2 + R.r2.z^2 - 1 = 0 := by
    have := congrArg (fun M : Mat3 ℝ => M.r2.z) hC
    lie_unfold_at this
    linear_combination this
  have x00 : -R.r0.x + R.r1.y*R.r2.z - R.r1.z*R.r2.y = 0 := by
    have := congrArg (fun M : Mat3 ℝ => M.r0.x) hA
    lie_unfold_at this
    linear_combination this
  have x01 : -R.r0.y - R.r1.x*R.r2.z + R.r1.z*R.r2.x = 0 := by
    have := congrArg (fun M : Mat3 ℝ => M.r1.x) hA
    lie_unfold_at this
    linear_combination this
  have x02 : -R.r0.z + R.r1.x*R.r2.y - R.r1.y*R.r2.x = 0 := by
    have := congrArg (fun M : Mat3 ℝ => M.r2.x) hA
    lie_unfold_at this
    linear_combination this
  have x10 : -R.r0.y*R.r2.z + R.r0.z*R.r2.y - R.r1.x = 0 := by
    have := congrArg (fun M : Mat3 ℝ => M.r0.y) hA
    lie_unfold_at this
    linear_combination this
  have x11 : R.r0.x*R.r2.z - R.r0.z*R.r2.x - R.r1.y = 0 := by
    have := congrArg (fun M : Mat3 ℝ => M.r1.y) hA
    lie_unfold_at this
    linear_combination this
  have x12 : -R.r0.x*R.r2.y + R.r0.y*R.r2.x - R.r1.z = 0 := by
    have := congrArg (fun M : Mat3 ℝ => M.r2.y) hA
    lie_unfold_at this
    linear_combination this
  have x20 : R.r0.y*R.r1.z - R.r0.z*R.r1.y - R.r2.x = 0 := by
    have := congrArg (fun M : Mat3 ℝ => M.r0.z) hA
    lie_unfold_at this
    linear_combination this
  have x21 : -R.r0.x*R.r1.z + R.r0.z*R.r1.x - R.r2.y = 0 := by
    have := congrArg (fun M : Mat3 ℝ => M.r1.z) hA
    lie_unfold_at this
    linear_combination this
  have x22 : R.r0.x*R.r1.y - R.r0.y*R.r1.x - R.r2.z = 0 := by
    have := congrArg (fun M : Mat3 ℝ => M.r2.z) hA
    lie_unfold_at this
    linear_combination this
  simp only [cand3] at hi ⊢
  lie_unfold_at hi
  constructor
  · lie_unfold
    linear_combination (-(-1)) * hi + (i * i) * ((1) * o00 + (1) * o11 + (1) * o22 + (2) * x00 + (2) * x11 + (2) * x22)
  · unfold SO3matrix
    ext <;> lie_unfold
    · linear_combination (-(1 - R.r0.x)) * hi + (i * i) * ((-2) * o00 + (-2) * c00 + (-4) * x11 + (-4) * x22)
    · linear_combination (-(-R.r0.y)) * hi + (i * i) * ((-2) * o01 + (-2) * c01 + (2) * x01 + (2) * x10)
    · linear_combination (-(-R.r0.z)) * hi + (i * i) * ((-2) * o02 + (-2) * c02 + (2) * x02 + (2) * x20)
    · linear_combination (-(-R.r1.x)) * hi + (i * i) * ((-2) * o01 + (-2) * c01 + (2) * x01 + (2) * x10)
    · linear_combination (-(1 - R.r1.y)) * hi + (i * i) * ((-2) * o11 + (-2) * c11 + (-4) * x00 + (-4) * x22)
    · linear_combination (-(-R.r1.z)) * hi + (i * i) * ((-2) * o12 + (-2) * c12 + (2) * x12 + (2) * x21)
    · linear_combination (-(-R.r2.x)) * hi + (i * i) * ((-2) * o02 + (-2) * c02 + (2) * x02 + (2) * x20)
    · linear_combination (-(-R.r2.y)) * hi + (i * i) * ((-2) * o12 + (-2) * c12 + (2) * x12 + (2) * x21)
    · linear_combination (-(1 - R.r2.z)) * hi + (i * i) * ((-2) * o00 + (-2) * o11 + (-4) * o22 + (2) * c00 + (2) * c11 + (-4) * x00 + (-4) * x11)

theorem Cand.toQuat_scaled_inv (c : Cand ℝ) (ht : 0 < c.t) :
    c.toQuat = ⟨c.x * (1 / (2 * Real.sqrt c.t)), c.y * (1 / (2 * Real.sqrt c.t)), c.z * (1 / (2 * Real.sqrt c.t)),
        c.w * (1 / (2 * Real.sqrt c.t))⟩ ∧
      4 * c.t * (1 / (2 * Real.sqrt c.t)) * (1 / (2 * Real.sqrt c.t)) = 1 := by
  have hs : 0 < Real.sqrt c.t := Real.sqrt_pos.mpr ht
  have hss : Real.sqrt c.t * Real.sqrt c.t = c.t := Real.mul_self_sqrt (le_of_lt ht)
  constructor
  · unfold Cand.toQuat
    simp only [sqrt_real, k_real, Nat.cast_ofNat]
    ext <;> simp only [] <;> field_simp
  · field_simp; linear_combination (-4 : ℝ) * hss

/-- the selected `t_i` is positive on **any** matrix with `R22`, `R00 ± R11` in the selected mask region, as soon
as the four `t_i` sum to 4 — pure linear arithmetic on the diagonal -/
theorem selected_t_pos_general (R : Mat3 ℝ) (atol : ℝ) (ha : |atol| < 1) :
    0 < (candOf R.transpose (mat2SO3Region atol R.transpose)).t := by
  obtain ⟨h1, h2⟩ := abs_lt.mp ha
  simp only [mat2SO3Region, lt_real]
  by_cases c2 : R.transpose.r2.z < atol
  · by_cases c01 : R.transpose.r1.y < R.transpose.r0.x
    · simp only [c2, c01, decide_true, ↓reduceIte, candOf, cand0, k_real, Nat.cast_one]; linarith
    · simp only [c2, c01, decide_true, decide_false, ↓reduceIte, Bool.false_eq_true, candOf, cand1, k_real, Nat.cast_one]
      linarith
  · by_cases c0n1 : R.transpose.r0.x < -R.transpose.r1.y
    · simp only [c2, c0n1, decide_true, decide_false, ↓reduceIte, Bool.false_eq_true, candOf, cand2, k_real, Nat.cast_one]
      linarith
    · simp only [c2, c0n1, decide_false, ↓reduceIte, Bool.false_eq_true, candOf, cand3, k_real, Nat.cast_one]
      linarith

/-- **general form**: on *any* proper rotation matrix (`R Rᵀ = 1`, `det R = 1`; not assumed to be produced by
`matrix()`) the branch-selected conversion returns a unit quaternion whose matrix is `R`. -/
theorem mat2SO3Raw_general (R : Mat3 ℝ) (hO : R.mul R.transpose = Mat3.one) (hD : R.det = 1) (atol : ℝ)
    (ha : |atol| < 1) : (mat2SO3Raw atol R).normSq = 1 ∧ SO3matrix (mat2SO3Raw atol R) = R := by
  have ht := selected_t_pos_general R atol ha
  unfold mat2SO3Raw
  simp only []
  obtain ⟨e, hi⟩ := Cand.toQuat_scaled_inv _ ht
  rw [e]
  generalize hr : mat2SO3Region atol R.transpose = r at hi ht ⊢
  match r with
  | 0 => exact cand0_general R hO hD _ hi
  | 1 => exact cand1_general R hO hD _ hi
  | 2 => exact cand2_general R hO hD _ hi
  | (n+3) => exact cand3_general R hO hD _ hi

end PP
