import Proofs.Lemmas.LinSolve
import Proofs.Lemmas.CGKrylov
import Mathlib.LinearAlgebra.Matrix.PosDef
import Mathlib.LinearAlgebra.Matrix.DotProduct
import Mathlib.Algebra.Order.Star.Real
/-!
# Bridge between the index-function model (`Nat → ℝ`, sums over `range n`) and Mathlib matrices
(`Matrix (Fin n) (Fin m) ℝ`), least-squares certificates, and exact-arithmetic convergence of the CG model.
-/
namespace PP.LinSolve
open Finset Matrix

/-- the `m × n` Mathlib matrix of an index function -/
def toMat (m n : Nat) (A : Nat → Nat → ℝ) : Matrix (Fin m) (Fin n) ℝ := fun i j => A i j
/-- the Mathlib vector of an index function -/
def toVec (n : Nat) (v : Nat → ℝ) : Fin n → ℝ := fun i => v i

theorem toVec_matVec (m n : Nat) (A : Nat → Nat → ℝ) (v : Nat → ℝ) :
    toVec m (matVec n A v) = toMat m n A *ᵥ toVec n v := by
  funext i
  simp only [toVec, toMat, matVec_eq, mulVec, dotProduct]
  rw [Finset.sum_range]

theorem dot_toVec (n : Nat) (u v : Nat → ℝ) : dot n u v = toVec n u ⬝ᵥ toVec n v := by
  simp only [toVec, dot_eq, dotProduct]
  rw [Finset.sum_range]

theorem toVec_eq_zero_iff (n : Nat) (v : Nat → ℝ) : toVec n v = 0 ↔ ∀ i, i < n → v i = 0 := by
  constructor
  · intro h i hi
    have := congrFun h ⟨i, hi⟩
    simpa [toVec] using this
  · intro h
    funext i
    simp [toVec, h i.val i.isLt]

/-- extension of a `Fin n` vector by zeros -/
noncomputable def ofVec (n : Nat) (x : Fin n → ℝ) : Nat → ℝ := fun j => if h : j < n then x ⟨j, h⟩ else 0

theorem toVec_ofVec (n : Nat) (x : Fin n → ℝ) : toVec n (ofVec n x) = x := by
  funext i
  simp [toVec, ofVec, i.isLt]

theorem quad_toVec (n : Nat) (A : Nat → Nat → ℝ) (v : Nat → ℝ) :
    ∑ i ∈ range n, ∑ j ∈ range n, v i * A i j * v j = toVec n v ⬝ᵥ (toMat n n A *ᵥ toVec n v) := by
  simp only [toVec, toMat, mulVec, dotProduct]
  rw [Finset.sum_range]
  apply Finset.sum_congr rfl
  intro i _
  rw [Finset.sum_range, Finset.mul_sum]
  apply Finset.sum_congr rfl
  intro j _
  ring

/-- the elementary definition of SPD used for the model is Mathlib's `Matrix.PosDef` -/
theorem isSPD_iff_posDef (n : Nat) (A : Nat → Nat → ℝ) : IsSPD n A ↔ (toMat n n A).PosDef := by
  constructor
  · intro h
    refine Matrix.PosDef.of_dotProduct_mulVec_pos ?_ ?_
    · ext i j
      simp only [conjTranspose_apply, toMat, star_trivial]
      exact h.symm j i j.isLt i.isLt
    · intro x hx
      rw [star_trivial]
      have hv : ∃ i, i < n ∧ ofVec n x i ≠ 0 := by
        by_contra hc
        push Not at hc
        apply hx
        rw [← toVec_ofVec n x]
        exact (toVec_eq_zero_iff n _).mpr hc
      have := h.pos (ofVec n x) hv
      rwa [quad_toVec, toVec_ofVec] at this
  · intro h
    refine ⟨?_, ?_⟩
    · intro i j hi hj
      have := congrFun (congrFun h.isHermitian.eq ⟨j, hj⟩) ⟨i, hi⟩
      simpa [toMat, conjTranspose_apply] using this
    · intro v hv
      rw [quad_toVec]
      have hx : toVec n v ≠ 0 := by
        intro h0
        obtain ⟨i, hi, hvi⟩ := hv
        exact hvi ((toVec_eq_zero_iff n v).mp h0 i hi)
      have := h.dotProduct_mulVec_pos hx
      rwa [star_trivial] at this

theorem toVec_tab (n : Nat) (f : Nat → ℝ) : toVec n (tab n f).get = toVec n f := by
  funext i
  simp only [toVec]
  exact tab_get_lt f i.isLt

/-- correspondence between a state of the executable model and a state of the abstract recurrence -/
def Rel (n : Nat) (s : CGState ℝ) (S : CGAbs.St n) : Prop :=
  toVec n s.x.get = S.x ∧ toVec n s.r.get = S.r ∧ toVec n s.p.get = S.p ∧ s.rhoPrev = S.rho

/-- the preconditioner matrix (`M = None` is the identity) -/
def precMat (n : Nat) (M : Option (Nat → Nat → ℝ)) : Matrix (Fin n) (Fin n) ℝ :=
  match M with | some M => toMat n n M | none => 1

/-! the intermediate quantities of one pass, as functions of the state -/
noncomputable def cgZ (n : Nat) (M : Option (Nat → Nat → ℝ)) (s : CGState ℝ) : Tab ℝ :=
  match M with | some M => tab n (matVec n M s.r.get) | none => s.r
noncomputable def cgRho (n : Nat) (M : Option (Nat → Nat → ℝ)) (s : CGState ℝ) : ℝ := dot n s.r.get (cgZ n M s).get
noncomputable def cgP (n : Nat) (M : Option (Nat → Nat → ℝ)) (s : CGState ℝ) : Tab ℝ :=
  if s.iter = 0 then cgZ n M s
  else tab n fun i => s.p.get i * (cgRho n M s / s.rhoPrev) + (cgZ n M s).get i
noncomputable def cgQ (n : Nat) (A : Nat → Nat → ℝ) (M : Option (Nat → Nat → ℝ)) (s : CGState ℝ) : Tab ℝ :=
  tab n (matVec n A (cgP n M s).get)
noncomputable def cgAlpha (n : Nat) (A : Nat → Nat → ℝ) (M : Option (Nat → Nat → ℝ)) (s : CGState ℝ) : ℝ :=
  cgRho n M s / dot n (cgP n M s).get (cgQ n A M s).get

theorem cgStep_eq (n : Nat) (A : Nat → Nat → ℝ) (M : Option (Nat → Nat → ℝ)) (s : CGState ℝ) :
    cgStep n A M s =
      { x := tab n fun i => s.x.get i + cgAlpha n A M s * (cgP n M s).get i
        r := tab n fun i => s.r.get i - cgAlpha n A M s * (cgQ n A M s).get i
        p := cgP n M s, rhoPrev := cgRho n M s, iter := s.iter + 1, stopped := false } := by
  cases M <;> rfl

theorem cgStep_rel (n : Nat) (A : Nat → Nat → ℝ) (M : Option (Nat → Nat → ℝ)) (s : CGState ℝ) (S : CGAbs.St n)
    (h : Rel n s S) :
    Rel n (cgStep n A M s) (CGAbs.step (toMat n n A) (precMat n M) (s.iter == 0) S) := by
  obtain ⟨hx, hr, hp, hrho⟩ := h
  have hzv : toVec n (cgZ n M s).get = precMat n M *ᵥ S.r := by
    unfold cgZ
    cases M with
    | none => simp only [precMat, one_mulVec]; exact hr
    | some M' => simp only [precMat]; rw [toVec_tab, toVec_matVec, hr]
  have hrhoc : cgRho n M s = S.r ⬝ᵥ (precMat n M *ᵥ S.r) := by
    unfold cgRho; rw [dot_toVec, hr, hzv]
  have hpv : toVec n (cgP n M s).get = (if (s.iter == 0) = true then precMat n M *ᵥ S.r
      else (S.r ⬝ᵥ (precMat n M *ᵥ S.r) / S.rho) • S.p + precMat n M *ᵥ S.r) := by
    unfold cgP
    by_cases hit : s.iter = 0
    · simp only [hit, if_true, beq_self_eq_true]; exact hzv
    · have hb : ¬ ((s.iter == 0) = true) := by simpa using hit
      rw [if_neg hit, if_neg hb, toVec_tab, ← hrhoc, ← hrho, ← hzv, ← hp]
      funext i
      simp only [toVec, Pi.add_apply, Pi.smul_apply, smul_eq_mul]
      ring
  have hqv : toVec n (cgQ n A M s).get = toMat n n A *ᵥ toVec n (cgP n M s).get := by
    unfold cgQ; rw [toVec_tab, toVec_matVec]
  have halpha : cgAlpha n A M s = (S.r ⬝ᵥ (precMat n M *ᵥ S.r)) /
      (toVec n (cgP n M s).get ⬝ᵥ (toMat n n A *ᵥ toVec n (cgP n M s).get)) := by
    unfold cgAlpha; rw [dot_toVec, hqv, hrhoc]
  rw [cgStep_eq]
  unfold CGAbs.step
  simp only []
  rw [← hpv, ← halpha]
  refine ⟨?_, ?_, rfl, hrhoc⟩
  · rw [toVec_tab, ← hx]
    funext i
    simp only [toVec, Pi.add_apply, Pi.smul_apply, smul_eq_mul]
  · rw [toVec_tab, ← hr, ← hqv]
    funext i
    simp only [toVec, Pi.sub_apply, Pi.smul_apply, smul_eq_mul]

theorem norm_zero_of_toVec (n : Nat) (v : Nat → ℝ) (h : toVec n v = 0) : norm n v = 0 :=
  norm_zero_of n v ((toVec_eq_zero_iff n v).mp h)

/-- if the abstract recurrence reaches a zero residual at pass `j` within the budget, the loop takes its early
return at or before pass `j` -/
theorem cgLoop_stops (n : Nat) (A : Nat → Nat → ℝ) (M : Option (Nat → Nat → ℝ)) (atol : ℝ) (hat : 0 < atol)
    (b' x0' : Fin n → ℝ) :
    ∀ (fuel k : Nat) (s : CGState ℝ),
      Rel n s (CGAbs.seq (toMat n n A) (precMat n M) b' x0' k) → s.iter = k →
      ∀ j, k ≤ j → j < k + fuel → (CGAbs.seq (toMat n n A) (precMat n M) b' x0' j).r = 0 →
        (cgLoop n A M atol fuel s).stopped = true ∧ (cgLoop n A M atol fuel s).iter ≤ j := by
  intro fuel
  induction fuel with
  | zero => intro k s _ _ j h1 h2 _; omega
  | succ f ih =>
    intro k s hrel hk j h1 h2 hz
    unfold cgLoop
    by_cases htest : Scalar.lt (norm n s.r.get) atol = true
    · rw [if_pos htest]
      exact ⟨rfl, by simp only []; omega⟩
    · rw [if_neg htest]
      have hjk : j ≠ k := by
        intro hjk
        subst hjk
        apply htest
        have : norm n s.r.get = 0 := norm_zero_of_toVec n _ (by rw [hrel.2.1, hz])
        simp only [lt_real, decide_eq_true_eq, this]
        exact hat
      have hrel' : Rel n (cgStep n A M s) (CGAbs.seq (toMat n n A) (precMat n M) b' x0' (k+1)) := by
        have := cgStep_rel n A M s _ hrel
        rw [hk] at this
        exact this
      exact ih (k+1) (cgStep n A M s) hrel' (by rw [cgStep_iter, hk]) j (by omega) (by omega) hz

theorem cgInit_rel (n : Nat) (A : Nat → Nat → ℝ) (M : Option (Nat → Nat → ℝ)) (b : Nat → ℝ) (x0 : Option (Nat → ℝ)) :
    Rel n (cgInit n A b x0)
      (CGAbs.seq (toMat n n A) (precMat n M) (toVec n b) (toVec n (cgInit n A b x0).x.get) 0) := by
  refine ⟨rfl, ?_, ?_, ?_⟩
  · funext i
    have := cgInit_resid n A b x0 i.val i.isLt
    simp only [CGAbs.seq, toVec, Pi.sub_apply, mulVec, dotProduct, toMat]
    rw [this, Finset.sum_range]
  · funext i
    simp only [CGAbs.seq, toVec, cgInit, Pi.zero_apply]
    rw [tab_get_lt _ i.isLt]; simp
  · show (k 0 : ℝ) = 0
    simp

/-- **Exact-arithmetic convergence of `CG.forward`**: on a symmetric positive definite system (with a symmetric
positive definite preconditioner, or none) and `b ≠ 0`, `tol > 0`, a budget of at least `n + 1` passes (the default
`10 n` qualifies) the loop takes its early return after at most `n` passes, and the returned `x` satisfies
`‖b - A x‖ < tol ‖b‖`. -/
theorem cg_exact_convergence (n : Nat) (tol : ℝ) (maxiter : Option Nat) (A : Nat → Nat → ℝ) (b : Nat → ℝ)
    (x0 : Option (Nat → ℝ)) (M : Option (Nat → Nat → ℝ))
    (hA : IsSPD n A) (hM : ∀ M', M = some M' → IsSPD n M') (htol : 0 < tol)
    (hb : ∃ i, i < n ∧ b i ≠ 0) (hbud : n + 1 ≤ cgBudget n maxiter) :
    (cgForward n tol maxiter A b x0 M).stopped = true ∧ (cgForward n tol maxiter A b x0 M).iter ≤ n ∧
    norm n (fun i => b i - ∑ j ∈ range n, A i j * (cgForward n tol maxiter A b x0 M).x.get j) < tol * norm n b := by
  have hpos := (norm_pos_iff n b).mpr hb
  have hApd := (isSPD_iff_posDef n A).mp hA
  have hMpd : (precMat n M).PosDef := by
    cases M with
    | none => exact Matrix.PosDef.one
    | some M' => exact (isSPD_iff_posDef n M').mp (hM M' rfl)
  obtain ⟨j, hjn, hjz⟩ := CGAbs.cg_exact_termination (toMat n n A) (precMat n M) hApd hMpd (toVec n b)
    (toVec n (cgInit n A b x0).x.get)
  have hstop := cgLoop_stops n A M (tol * norm n b) (mul_pos htol hpos) (toVec n b) (toVec n (cgInit n A b x0).x.get)
    (cgBudget n maxiter) 0 (cgInit n A b x0) (cgInit_rel n A M b x0) rfl j (Nat.zero_le j) (by omega) hjz
  have hs : (cgForward n tol maxiter A b x0 M).stopped = true := by
    rw [cgForward_pos _ _ _ _ _ _ _ hpos]; exact hstop.1
  refine ⟨hs, ?_, cgForward_certified n tol maxiter A b x0 M hb hs⟩
  rw [cgForward_pos _ _ _ _ _ _ _ hpos]
  exact le_trans hstop.2 hjn

section certificates
variable {m n : ℕ}

/-- squared Euclidean norm -/
def nrm2 {k : ℕ} (v : Fin k → ℝ) : ℝ := v ⬝ᵥ v

theorem nrm2_nonneg {k : ℕ} (v : Fin k → ℝ) : 0 ≤ nrm2 v := by
  unfold nrm2 dotProduct
  exact Finset.sum_nonneg fun i _ => mul_self_nonneg (v i)

theorem nrm2_eq_zero {k : ℕ} (v : Fin k → ℝ) : nrm2 v = 0 ↔ v = 0 := by
  unfold nrm2
  exact dotProduct_self_eq_zero

theorem nrm2_add {k : ℕ} (u v : Fin k → ℝ) : nrm2 (u + v) = nrm2 u + 2 * (u ⬝ᵥ v) + nrm2 v := by
  unfold nrm2
  rw [add_dotProduct, dotProduct_add, dotProduct_add, dotProduct_comm v u]
  ring

/-- **Least-squares certificate**: if the normal equations `Aᵀ (A x - b) = 0` hold, `x` minimises `‖A y - b‖`
over all `y`. -/
theorem ls_certificate (A : Matrix (Fin m) (Fin n) ℝ) (b : Fin m → ℝ) (x : Fin n → ℝ)
    (h : Aᵀ *ᵥ (A *ᵥ x - b) = 0) (y : Fin n → ℝ) : nrm2 (A *ᵥ x - b) ≤ nrm2 (A *ᵥ y - b) := by
  have e : A *ᵥ y - b = (A *ᵥ x - b) + A *ᵥ (y - x) := by
    rw [mulVec_sub]; abel
  have cross : (A *ᵥ x - b) ⬝ᵥ (A *ᵥ (y - x)) = 0 := by
    rw [dotProduct_mulVec, ← mulVec_transpose, h, zero_dotProduct]
  rw [e, nrm2_add, cross]
  have := nrm2_nonneg (A *ᵥ (y - x))
  linarith

/-- **Minimum-norm certificate**: a least-squares solution lying in the range of `Aᵀ` has the smallest norm
among all least-squares solutions, and is the only one of that norm. -/
theorem minnorm_certificate (A : Matrix (Fin m) (Fin n) ℝ) (b : Fin m → ℝ) (x : Fin n → ℝ) (w : Fin m → ℝ)
    (hx : Aᵀ *ᵥ (A *ᵥ x - b) = 0) (hrange : x = Aᵀ *ᵥ w) (y : Fin n → ℝ) (hy : Aᵀ *ᵥ (A *ᵥ y - b) = 0) :
    nrm2 x ≤ nrm2 y ∧ (nrm2 y = nrm2 x → y = x) := by
  have h1 : Aᵀ *ᵥ (A *ᵥ (y - x)) = 0 := by
    have : A *ᵥ (y - x) = (A *ᵥ y - b) - (A *ᵥ x - b) := by rw [mulVec_sub]; abel
    rw [this, mulVec_sub, hx, hy, sub_zero]
  have h2 : A *ᵥ (y - x) = 0 := by
    rw [← nrm2_eq_zero]
    unfold nrm2
    rw [dotProduct_mulVec, ← mulVec_transpose, h1, zero_dotProduct]
  have h3 : x ⬝ᵥ (y - x) = 0 := by
    have key : ∀ v : Fin n → ℝ, (Aᵀ *ᵥ w) ⬝ᵥ v = w ⬝ᵥ (A *ᵥ v) := by
      intro v
      rw [dotProduct_comm, dotProduct_mulVec, vecMul_transpose, dotProduct_comm]
    have : x ⬝ᵥ (y - x) = (Aᵀ *ᵥ w) ⬝ᵥ (y - x) := by rw [← hrange]
    rw [this, key, h2, dotProduct_zero]
  have e : y = x + (y - x) := by abel
  have hn : nrm2 y = nrm2 x + nrm2 (y - x) := by
    conv_lhs => rw [e]
    rw [nrm2_add, h3]; ring
  refine ⟨by have := nrm2_nonneg (y - x); linarith, fun heq => ?_⟩
  have : nrm2 (y - x) = 0 := by linarith
  have := (nrm2_eq_zero _).mp this
  exact sub_eq_zero.mp this

/-- Moore–Penrose conditions 1 and 3 give the normal equations for `x = P b` -/
theorem penrose_normal (A : Matrix (Fin m) (Fin n) ℝ) (P : Matrix (Fin n) (Fin m) ℝ) (b : Fin m → ℝ)
    (h1 : A * P * A = A) (h3 : (A * P)ᵀ = A * P) : Aᵀ *ᵥ (A *ᵥ (P *ᵥ b) - b) = 0 := by
  have e : Aᵀ * (A * P) = Aᵀ := by
    rw [← h3, ← transpose_mul, h1]
  rw [mulVec_sub, mulVec_mulVec, mulVec_mulVec, Matrix.mul_assoc Aᵀ A P, e, sub_self]

/-- Moore–Penrose conditions 2 and 4 put `x = P b` into the range of `Aᵀ` -/
theorem penrose_range (A : Matrix (Fin m) (Fin n) ℝ) (P : Matrix (Fin n) (Fin m) ℝ) (b : Fin m → ℝ)
    (h2 : P * A * P = P) (h4 : (P * A)ᵀ = P * A) : P *ᵥ b = Aᵀ *ᵥ (Pᵀ *ᵥ (P *ᵥ b)) := by
  have e : Aᵀ * Pᵀ * P = P := by
    rw [← transpose_mul, h4, h2]
  rw [mulVec_mulVec, mulVec_mulVec, e]

end certificates

theorem toMat_tab2 (a b : Nat) (f : Nat → Nat → ℝ) : toMat a b (tab2 a b f).get = toMat a b f := by
  funext i j
  simp only [toMat]
  rw [tab2_get, if_pos ⟨i.isLt, j.isLt⟩]

theorem toMat_matMul (a c b : Nat) (X Y : Nat → Nat → ℝ) :
    toMat a b (matMul c X Y) = toMat a c X * toMat c b Y := by
  funext i j
  simp only [toMat, matMul_eq, Matrix.mul_apply]
  rw [Finset.sum_range]

theorem toMat_transpose (a b : Nat) (X : Nat → Nat → ℝ) : toMat a b (transpose X) = (toMat b a X)ᵀ := rfl

/-- `A x = b` on the indices `< n`, in matrix form -/
theorem solves_toVec (n : Nat) (A : Nat → Nat → ℝ) (x b : Nat → ℝ)
    (h : ∀ i, i < n → ∑ j ∈ range n, A i j * x j = b i) : toMat n n A *ᵥ toVec n x = toVec n b := by
  rw [← toVec_matVec]
  funext i
  simp only [toVec, matVec_eq]
  exact h i.val i.isLt

/-! ## `PINV.forward`, `LSTSQ.forward` -/

theorem toVec_pinvForward (m n : Nat) (P : Nat → Nat → ℝ) (b : Nat → ℝ) :
    toVec n (pinvForward m n P b).get = toMat n m P *ᵥ toVec m b := by
  unfold pinvForward
  rw [toVec_tab, toVec_matVec]

/-- contract of `torch.linalg.pinv`: the four Moore–Penrose conditions -/
structure IsPinv {m n : ℕ} (A : Matrix (Fin m) (Fin n) ℝ) (P : Matrix (Fin n) (Fin m) ℝ) : Prop where
  h1 : A * P * A = A
  h2 : P * A * P = P
  h3 : (A * P)ᵀ = A * P
  h4 : (P * A)ᵀ = P * A

theorem lstsqForward_ok (n : Nat) (sol : Option (Nat → ℝ)) (x : Tab ℝ) (h : lstsqForward n sol = .ok x) :
    ∃ xs, sol = some xs ∧ x = tab n xs := by
  unfold lstsqForward at h
  cases sol with
  | none => simp at h
  | some xs => simp only [Except.ok.injEq] at h; exact ⟨xs, rfl, h.symm⟩

theorem lstsqForward_none (n : Nat) : ∃ e, lstsqForward (α := ℝ) n none = .error e := ⟨_, rfl⟩

/-! ## the model's own reference solution -/

theorem lsRef_ok (m r n : Nat) (B C : Nat → Nat → ℝ) (b : Nat → ℝ) (x : Tab ℝ)
    (h : lsRef m r n B C b = .ok x) :
    let A := toMat m r B * toMat r n C
    Aᵀ *ᵥ (A *ᵥ toVec n x.get - toVec m b) = 0 ∧ ∃ w, toVec n x.get = Aᵀ *ᵥ w := by
  unfold lsRef at h
  simp only [] at h
  cases h1 : chol (tab2 r r (matMul m (transpose B) B)).get r with
  | error e => rw [h1] at h; simp at h
  | ok L1 =>
    cases h2 : chol (tab2 r r (matMul n C (transpose C))).get r with
    | error e => rw [h1, h2] at h; simp at h
    | ok L2 =>
      rw [h1, h2] at h
      simp only [Except.ok.injEq] at h
      subst h
      set Bm := toMat m r B with hBm
      set Cm := toMat r n C with hCm
      have hG1 : toMat r r (tab2 r r (matMul m (transpose B) B)).get = Bmᵀ * Bm := by
        rw [toMat_tab2, toMat_matMul, toMat_transpose]
      have hG2 : toMat r r (tab2 r r (matMul n C (transpose C))).get = Cm * Cmᵀ := by
        rw [toMat_tab2, toMat_matMul, toMat_transpose]
      have hs1 : IsSymm r (tab2 r r (matMul m (transpose B) B)).get := by
        intro i j hi hj
        rw [tab2_get, tab2_get, if_pos ⟨hi, hj⟩, if_pos ⟨hj, hi⟩, matMul_eq, matMul_eq]
        exact Finset.sum_congr rfl fun t _ => by unfold transpose; ring
      have hs2 : IsSymm r (tab2 r r (matMul n C (transpose C))).get := by
        intro i j hi hj
        rw [tab2_get, tab2_get, if_pos ⟨hi, hj⟩, if_pos ⟨hj, hi⟩, matMul_eq, matMul_eq]
        exact Finset.sum_congr rfl fun t _ => by unfold transpose; ring
      have c1 := chol_sound _ r L1 h1
      have c2 := chol_sound _ r L2 h2
      -- the three solves
      set y := tab r (matVec m (transpose B) b) with hy
      set u := cholSolve r L1.get y.get with hu
      set v := cholSolve r L2.get u.get with hv
      have eu : (Bmᵀ * Bm) *ᵥ toVec r u.get = Bmᵀ *ᵥ toVec m b := by
        rw [← hG1, solves_toVec r _ u.get y.get (fun i hi => cholSolve_correct r _ L1.get y.get c1 hs1 i hi),
          hy, toVec_tab, toVec_matVec, toMat_transpose]
      have ev : (Cm * Cmᵀ) *ᵥ toVec r v.get = toVec r u.get := by
        rw [← hG2]
        exact solves_toVec r _ v.get u.get (fun i hi => cholSolve_correct r _ L2.get u.get c2 hs2 i hi)
      -- s with G1 s = v, for the range statement
      set s := cholSolve r L1.get v.get with hs
      have es : (Bmᵀ * Bm) *ᵥ toVec r s.get = toVec r v.get := by
        rw [← hG1]
        exact solves_toVec r _ s.get v.get (fun i hi => cholSolve_correct r _ L1.get v.get c1 hs1 i hi)
      have ex : toVec n (tab n (matVec r (transpose C) v.get)).get = Cmᵀ *ᵥ toVec r v.get := by
        rw [toVec_tab, toVec_matVec, toMat_transpose]
      refine ⟨?_, Bm *ᵥ toVec r s.get, ?_⟩
      · rw [ex, transpose_mul, mulVec_sub]
        have e1 : (Cmᵀ * Bmᵀ) *ᵥ ((Bm * Cm) *ᵥ (Cmᵀ *ᵥ toVec r v.get)) = Cmᵀ *ᵥ ((Bmᵀ * Bm) *ᵥ ((Cm * Cmᵀ) *ᵥ toVec r v.get)) := by
          simp only [mulVec_mulVec, Matrix.mul_assoc]
        rw [e1, ev, eu, ← mulVec_mulVec, sub_self]
      · rw [ex, transpose_mul, ← es]
        simp only [mulVec_mulVec, Matrix.mul_assoc]

/-- converse of the certificate: a minimiser of `‖A y - b‖` satisfies the normal equations -/
theorem ls_certificate_converse {m n : ℕ} (A : Matrix (Fin m) (Fin n) ℝ) (b : Fin m → ℝ) (x : Fin n → ℝ)
    (hmin : ∀ y, nrm2 (A *ᵥ x - b) ≤ nrm2 (A *ᵥ y - b)) : Aᵀ *ᵥ (A *ᵥ x - b) = 0 := by
  set r := A *ᵥ x - b with hr
  set g := Aᵀ *ᵥ r with hg
  by_contra hne
  have hgpos : 0 < nrm2 g := lt_of_le_of_ne (nrm2_nonneg g) (fun h => hne ((nrm2_eq_zero g).mp h.symm))
  have hq := nrm2_nonneg (A *ᵥ g)
  -- step of length t along -g
  set t : ℝ := nrm2 g / (nrm2 (A *ᵥ g) + 1) with ht
  have htpos : 0 < t := div_pos hgpos (by linarith)
  have key := hmin (x - t • g)
  have e : A *ᵥ (x - t • g) - b = r + (-t) • (A *ᵥ g) := by
    rw [mulVec_sub, mulVec_smul, hr]; simp only [neg_smul]; abel
  have cross : r ⬝ᵥ (A *ᵥ g) = nrm2 g := by
    rw [dotProduct_mulVec, ← mulVec_transpose]; rfl
  rw [e, nrm2_add] at key
  have e2 : nrm2 ((-t) • (A *ᵥ g)) = t * t * nrm2 (A *ᵥ g) := by
    unfold nrm2; rw [smul_dotProduct, dotProduct_smul, smul_eq_mul, smul_eq_mul]; ring
  rw [e2, dotProduct_smul, cross, smul_eq_mul] at key
  -- key : ‖r‖² ≤ ‖r‖² + 2(-t‖g‖²) + t²‖Ag‖²
  have h1 : t * nrm2 (A *ᵥ g) < nrm2 g := by
    rw [ht, div_mul_eq_mul_div, div_lt_iff₀ (by linarith)]
    nlinarith
  nlinarith

/-- with full column rank (`AᵀA` positive definite) the least-squares solution is unique -/
theorem ls_unique_of_full_rank {m n : ℕ} (A : Matrix (Fin m) (Fin n) ℝ) (b : Fin m → ℝ)
    (hfull : ∀ v : Fin n → ℝ, A *ᵥ v = 0 → v = 0) (x y : Fin n → ℝ)
    (hx : Aᵀ *ᵥ (A *ᵥ x - b) = 0) (hy : Aᵀ *ᵥ (A *ᵥ y - b) = 0) : y = x := by
  have h1 : Aᵀ *ᵥ (A *ᵥ (y - x)) = 0 := by
    have : A *ᵥ (y - x) = (A *ᵥ y - b) - (A *ᵥ x - b) := by rw [mulVec_sub]; abel
    rw [this, mulVec_sub, hx, hy, sub_zero]
  have h2 : A *ᵥ (y - x) = 0 := by
    rw [← nrm2_eq_zero]
    unfold nrm2
    rw [dotProduct_mulVec, ← mulVec_transpose, h1, zero_dotProduct]
  exact sub_eq_zero.mp (hfull _ h2)

/-- meaning of `info`: the factorisation of the leading block of order `info - 1` succeeds, the one of order `info`
fails -/
theorem chol_info_meaning (A : Nat → Nat → ℝ) : ∀ n e, chol A n = .error e →
    (∃ L, chol A (e - 1) = .ok L) ∧ chol A e = .error e := by
  intro n
  induction n with
  | zero => intro e h; simp [chol] at h
  | succ n ih =>
    intro e h
    have hcopy := h
    rw [chol] at h
    cases hc : chol A n with
    | error e' =>
      rw [hc] at h
      simp only [Except.error.injEq] at h
      subst h
      exact ih e' hc
    | ok L =>
      rw [hc] at h
      simp only [] at h
      split at h
      · cases h
      · simp only [Except.error.injEq] at h
        subst h
        exact ⟨⟨L, by simpa using hc⟩, hcopy⟩

/-- state after `k` unconditional passes through the loop body -/
noncomputable def cgIter (n : Nat) (A : Nat → Nat → ℝ) (M : Option (Nat → Nat → ℝ)) (s0 : CGState ℝ) : Nat → CGState ℝ
  | 0 => s0
  | k+1 => cgStep n A M (cgIter n A M s0 k)

theorem cgIter_iter (n : Nat) (A : Nat → Nat → ℝ) (M : Option (Nat → Nat → ℝ)) (s0 : CGState ℝ) (k : Nat) :
    (cgIter n A M s0 k).iter = s0.iter + k := by
  induction k with
  | zero => rfl
  | succ k ih => rw [cgIter, cgStep_iter, ih]; omega

theorem cgIter_rel (n : Nat) (A : Nat → Nat → ℝ) (M : Option (Nat → Nat → ℝ)) (b : Nat → ℝ) (x0 : Option (Nat → ℝ)) (k : Nat) :
    Rel n (cgIter n A M (cgInit n A b x0) k)
      (CGAbs.seq (toMat n n A) (precMat n M) (toVec n b) (toVec n (cgInit n A b x0).x.get) k) := by
  induction k with
  | zero => exact cgInit_rel n A M b x0
  | succ k ih =>
    have h := cgStep_rel n A M _ _ ih
    have hit : (cgIter n A M (cgInit n A b x0) k).iter = k := by
      rw [cgIter_iter]; simp [cgInit]
    rw [hit] at h
    exact h

/-- **no breakdown before convergence**: on an SPD system with SPD (or no) preconditioner, as long as the residuals
of passes `0..k` are non-zero, both denominators of pass `k` (`rho_prev` of the next pass and `pᵀ A p`) are positive —
the model's totalised division is never used at `0` on the property's domain. -/
theorem cg_no_breakdown_model (n : Nat) (A : Nat → Nat → ℝ) (b : Nat → ℝ)
    (x0 : Option (Nat → ℝ)) (M : Option (Nat → Nat → ℝ))
    (hA : IsSPD n A) (hM : ∀ M', M = some M' → IsSPD n M') (k : Nat)
    (hne : ∀ j, j ≤ k → ∃ i, i < n ∧ (cgIter n A M (cgInit n A b x0) j).r.get i ≠ 0) :
    0 < cgRho n M (cgIter n A M (cgInit n A b x0) k) ∧
    0 < dot n (cgP n M (cgIter n A M (cgInit n A b x0) k)).get (cgQ n A M (cgIter n A M (cgInit n A b x0) k)).get := by
  have hApd := (isSPD_iff_posDef n A).mp hA
  have hMpd : (precMat n M).PosDef := by
    cases M with
    | none => exact Matrix.PosDef.one
    | some M' => exact (isSPD_iff_posDef n M').mp (hM M' rfl)
  have hne' : ∀ j, j ≤ k → (CGAbs.seq (toMat n n A) (precMat n M) (toVec n b) (toVec n (cgInit n A b x0).x.get) j).r ≠ 0 := by
    intro j hj h0
    obtain ⟨i, hi, hri⟩ := hne j hj
    have hrel := cgIter_rel n A M b x0 j
    rw [← hrel.2.1] at h0
    exact hri ((toVec_eq_zero_iff n _).mp h0 i hi)
  have hnb := CGAbs.cg_no_breakdown (toMat n n A) (precMat n M) hApd hMpd (toVec n b)
    (toVec n (cgInit n A b x0).x.get) k hne'
  have hrel := cgIter_rel n A M b x0 (k+1)
  -- state k+1 of the model is cgStep of state k: read rho and p off cgStep_eq
  have e : cgIter n A M (cgInit n A b x0) (k+1) = cgStep n A M (cgIter n A M (cgInit n A b x0) k) := rfl
  rw [e, cgStep_eq] at hrel
  obtain ⟨_, _, hp, hrho⟩ := hrel
  simp only [] at hp hrho
  constructor
  · rw [hrho]; exact hnb.1
  · have hq : toVec n (cgQ n A M (cgIter n A M (cgInit n A b x0) k)).get
        = toMat n n A *ᵥ toVec n (cgP n M (cgIter n A M (cgInit n A b x0) k)).get := by
      unfold cgQ; rw [toVec_tab, toVec_matVec]
    rw [dot_toVec, hq, hp]; exact hnb.2

theorem cgHistory_eq (o : CGObj ℝ) (cs : List (CGCall ℝ)) :
    cgHistory o cs = (o, cs.map fun c => cgForward c.n o.tol o.maxiter c.A c.b c.x0 c.M) := by
  induction cs with
  | nil => rfl
  | cons c cs ih =>
    unfold cgHistory
    simp only [cgCall, ih, List.map_cons]

theorem cgHistoryE_eq (o : CGObj ℝ) (cs : List (Option (CGCall ℝ))) :
    cgHistoryE o cs = (o, cs.map fun c => c.map fun c => cgForward c.n o.tol o.maxiter c.A c.b c.x0 c.M) := by
  induction cs with
  | nil => rfl
  | cons c cs ih =>
    cases c with
    | none => simp only [cgHistoryE, ih, List.map_cons, Option.map_none]
    | some c => simp only [cgHistoryE, cgCall, ih, List.map_cons, Option.map_some]

theorem cgHistory2_eq (o1 o2 : CGObj ℝ) (cs : List (Bool × CGCall ℝ)) :
    cgHistory2 o1 o2 cs = ((o1, o2), cs.map fun wc =>
      let o := if wc.1 then o1 else o2
      cgForward wc.2.n o.tol o.maxiter wc.2.A wc.2.b wc.2.x0 wc.2.M) := by
  induction cs with
  | nil => rfl
  | cons wc cs ih =>
    obtain ⟨w, c⟩ := wc
    cases w with
    | true => simp only [cgHistory2, cgCall, ih, List.map_cons, if_true]
    | false => simp only [cgHistory2, cgCall, ih, List.map_cons, Bool.false_eq_true, if_false]

section tsvd
variable {m n r : ℕ}

/-- kept singular values `σ > cut`, others replaced by `0` -/
noncomputable def svKeep (σ : Fin r → ℝ) (cut : ℝ) : Fin r → ℝ := fun i => if cut < σ i then σ i else 0
/-- reciprocals of the kept singular values, `0` for the discarded ones -/
noncomputable def svInv (σ : Fin r → ℝ) (cut : ℝ) : Fin r → ℝ := fun i => if cut < σ i then (σ i)⁻¹ else 0
/-- indicator of the kept indices -/
noncomputable def svProj (σ : Fin r → ℝ) (cut : ℝ) : Fin r → ℝ := fun i => if cut < σ i then 1 else 0

theorem svKeep_mul_svInv (σ : Fin r → ℝ) (cut : ℝ) (hc : 0 ≤ cut) :
    diagonal (svKeep σ cut) * diagonal (svInv σ cut) = diagonal (svProj σ cut) := by
  rw [diagonal_mul_diagonal]
  congr 1
  funext i
  unfold svKeep svInv svProj
  by_cases h : cut < σ i
  · have : σ i ≠ 0 := by linarith
    simp [h, this]
  · simp [h]

theorem svInv_mul_svKeep (σ : Fin r → ℝ) (cut : ℝ) (hc : 0 ≤ cut) :
    diagonal (svInv σ cut) * diagonal (svKeep σ cut) = diagonal (svProj σ cut) := by
  rw [diagonal_mul_diagonal]
  congr 1
  funext i
  unfold svKeep svInv svProj
  by_cases h : cut < σ i
  · have : σ i ≠ 0 := by linarith
    simp [h, this]
  · simp [h]

theorem svProj_mul_svKeep (σ : Fin r → ℝ) (cut : ℝ) :
    diagonal (svProj σ cut) * diagonal (svKeep σ cut) = diagonal (svKeep σ cut) := by
  rw [diagonal_mul_diagonal]
  congr 1
  funext i
  unfold svKeep svProj
  by_cases h : cut < σ i <;> simp [h]

theorem svProj_mul_svInv (σ : Fin r → ℝ) (cut : ℝ) :
    diagonal (svProj σ cut) * diagonal (svInv σ cut) = diagonal (svInv σ cut) := by
  rw [diagonal_mul_diagonal]
  congr 1
  funext i
  unfold svInv svProj
  by_cases h : cut < σ i <;> simp [h]

/-- `(X D Yᵀ)(Y E Zᵀ) = X (D E) Zᵀ` when `Y` has orthonormal columns -/
theorem sandwich {a b c : ℕ} (X : Matrix (Fin a) (Fin r) ℝ) (Y : Matrix (Fin b) (Fin r) ℝ) (Z : Matrix (Fin c) (Fin r) ℝ)
    (D E : Matrix (Fin r) (Fin r) ℝ) (hY : Yᵀ * Y = 1) :
    (X * D * Yᵀ) * (Y * E * Zᵀ) = X * (D * E) * Zᵀ := by
  calc (X * D * Yᵀ) * (Y * E * Zᵀ) = X * D * (Yᵀ * Y) * E * Zᵀ := by simp only [Matrix.mul_assoc]
    _ = X * (D * E) * Zᵀ := by rw [hY]; simp only [Matrix.mul_assoc, Matrix.mul_one]

/-- **Truncated-SVD law**: from ANY singular value decomposition `A = U Σ Vᵀ` (orthonormal columns) and any cut-off
`≥ 0`, the matrix `P = V Σ⁺_cut Uᵀ` (reciprocals of the singular values above the cut-off, zero for the others) is THE
Moore–Penrose inverse of the truncated matrix `A_cut = U Σ_cut Vᵀ`. -/
theorem tsvd_isPinv (U : Matrix (Fin m) (Fin r) ℝ) (V : Matrix (Fin n) (Fin r) ℝ) (σ : Fin r → ℝ) (cut : ℝ)
    (hU : Uᵀ * U = 1) (hV : Vᵀ * V = 1) (hc : 0 ≤ cut) :
    IsPinv (U * diagonal (svKeep σ cut) * Vᵀ) (V * diagonal (svInv σ cut) * Uᵀ) := by
  have hAP : (U * diagonal (svKeep σ cut) * Vᵀ) * (V * diagonal (svInv σ cut) * Uᵀ) = U * diagonal (svProj σ cut) * Uᵀ := by
    rw [sandwich U V U _ _ hV, svKeep_mul_svInv σ cut hc]
  have hPA : (V * diagonal (svInv σ cut) * Uᵀ) * (U * diagonal (svKeep σ cut) * Vᵀ) = V * diagonal (svProj σ cut) * Vᵀ := by
    rw [sandwich V U V _ _ hU, svInv_mul_svKeep σ cut hc]
  refine ⟨?_, ?_, ?_, ?_⟩
  · rw [hAP, sandwich U U V _ _ hU, svProj_mul_svKeep]
  · rw [hPA, sandwich V V U _ _ hV, svProj_mul_svInv]
  · rw [hAP]
    simp only [transpose_mul, diagonal_transpose, Matrix.mul_assoc]
    rfl
  · rw [hPA]
    simp only [transpose_mul, diagonal_transpose, Matrix.mul_assoc]
    rfl

/-- if every discarded singular value is zero (cut-off below the smallest non-zero one) nothing is truncated -/
theorem tsvd_no_truncation (U : Matrix (Fin m) (Fin r) ℝ) (V : Matrix (Fin n) (Fin r) ℝ) (σ : Fin r → ℝ) (cut : ℝ)
    (h0 : ∀ i, ¬ cut < σ i → σ i = 0) :
    U * diagonal (svKeep σ cut) * Vᵀ = U * diagonal σ * Vᵀ := by
  have : svKeep σ cut = σ := by
    funext i
    unfold svKeep
    by_cases h : cut < σ i
    · simp [h]
    · simp [h0 i h]
  rw [this]

end tsvd

/-- the model's `pinvOfSvd` is `V Σ⁺_cut Uᵀ` -/
theorem toMat_pinvOfSvd (m n r : Nat) (U V : Nat → Nat → ℝ) (σ : Nat → ℝ) (cut : ℝ) :
    toMat n m (pinvOfSvd r U V σ cut)
      = toMat n r V * diagonal (svInv (toVec r σ) cut) * (toMat m r U)ᵀ := by
  funext i j
  rw [Matrix.mul_apply]
  simp only [Matrix.mul_diagonal, transpose_apply, toMat, svInv, toVec, pinvOfSvd, sumN_eq]
  rw [Finset.sum_range]
  apply Finset.sum_congr rfl
  intro t _
  simp only [lt_real, k_real, Nat.cast_one, Nat.cast_zero, decide_eq_true_eq]
  by_cases h : cut < σ t <;> simp [h]

theorem smax_real (x y : ℝ) : smax x y = max x y := by
  unfold smax
  simp only [lt_real]
  by_cases h : x < y
  · simp [h, max_eq_right (le_of_lt h)]
  · simp [h, max_eq_left (not_lt.mp h)]

theorem pinvCutoff_nonneg (atol rtol : Option ℝ) (m n : Nat) (eps s1 : ℝ)
    (ha : ∀ a, atol = some a → 0 ≤ a) : 0 ≤ pinvCutoff atol rtol m n eps s1 := by
  unfold pinvCutoff
  simp only [smax_real]
  apply le_max_of_le_left
  cases atol with
  | none => simp
  | some a => exact ha a rfl

/-- the tolerance defaulting of `torch.linalg.pinv`, case by case -/
theorem pinvCutoff_cases (m n : Nat) (eps s1 a r : ℝ) :
    pinvCutoff none none m n eps s1 = max 0 ((max m n : ℕ) * eps * s1) ∧
    pinvCutoff none (some r) m n eps s1 = max 0 (r * s1) ∧
    (0 < a → pinvCutoff (some a) none m n eps s1 = a) ∧
    (a ≤ 0 → pinvCutoff (some a) none m n eps s1 = max a ((max m n : ℕ) * eps * s1)) ∧
    pinvCutoff (some a) (some r) m n eps s1 = max a (r * s1) := by
  refine ⟨?_, ?_, ?_, ?_, ?_⟩
  · unfold pinvCutoff; simp [smax_real]
  · unfold pinvCutoff; simp [smax_real]
  · intro ha
    unfold pinvCutoff
    simp [smax_real, ha, le_of_lt ha]
  · intro ha
    unfold pinvCutoff
    simp [smax_real, not_lt.mpr ha]
  · unfold pinvCutoff; simp [smax_real]

theorem isPinv_minnorm {m n : ℕ} (A : Matrix (Fin m) (Fin n) ℝ) (P : Matrix (Fin n) (Fin m) ℝ) (b : Fin m → ℝ)
    (hP : IsPinv A P) :
    (∀ y, nrm2 (A *ᵥ (P *ᵥ b) - b) ≤ nrm2 (A *ᵥ y - b)) ∧
    (∀ y, Aᵀ *ᵥ (A *ᵥ y - b) = 0 → nrm2 (P *ᵥ b) ≤ nrm2 y ∧ (nrm2 y = nrm2 (P *ᵥ b) → y = P *ᵥ b)) := by
  have hn := penrose_normal A P b hP.h1 hP.h3
  have hr := penrose_range A P b hP.h2 hP.h4
  exact ⟨ls_certificate _ _ _ hn, fun y hy => minnorm_certificate _ _ _ _ hn hr y hy⟩

/-! ## the loop of `CG.forward` as "first pass at which the stopping test holds, or the budget" -/

theorem cgIter_shift (n : Nat) (A : Nat → Nat → ℝ) (M : Option (Nat → Nat → ℝ)) (s : CGState ℝ) (k : Nat) :
    cgIter n A M (cgStep n A M s) k = cgIter n A M s (k+1) := by
  induction k with
  | zero => rfl
  | succ k ih => rw [cgIter, ih]; rfl

theorem cgIter_stopped (n : Nat) (A : Nat → Nat → ℝ) (M : Option (Nat → Nat → ℝ)) (s : CGState ℝ) (hs : s.stopped = false)
    (k : Nat) : (cgIter n A M s k).stopped = false := by
  cases k with
  | zero => exact hs
  | succ k => rfl

/-- **The loop, completely**: started from a state `s`, with a budget of `fuel` passes, the loop returns the state after
`k ≤ fuel` unconditional passes, where `k` is the FIRST index at which the stopping test `‖r‖ < atol` holds — or `fuel` if
it never holds among the states `0 … fuel-1` (the state after the last pass is returned untested). -/
theorem cgLoop_spec (n : Nat) (A : Nat → Nat → ℝ) (M : Option (Nat → Nat → ℝ)) (atol : ℝ) :
    ∀ (fuel : Nat) (s : CGState ℝ), s.stopped = false →
      ∃ k, k ≤ fuel ∧
        cgLoop n A M atol fuel s = { cgIter n A M s k with stopped := (cgLoop n A M atol fuel s).stopped } ∧
        (∀ j, j < k → ¬ norm n (cgIter n A M s j).r.get < atol) ∧
        ((cgLoop n A M atol fuel s).stopped = true → k < fuel ∧ norm n (cgIter n A M s k).r.get < atol) ∧
        ((cgLoop n A M atol fuel s).stopped = false → k = fuel) := by
  intro fuel
  induction fuel with
  | zero =>
    intro s hs
    refine ⟨0, le_refl 0, ?_, fun j hj => by omega, ?_, fun _ => rfl⟩
    · simp only [cgLoop, cgIter]
    · intro h; simp only [cgLoop] at h; rw [hs] at h; cases h
  | succ f ih =>
    intro s hs
    by_cases ht : Scalar.lt (norm n s.r.get) atol = true
    · have e : cgLoop n A M atol (f+1) s = { s with stopped := true } := by
        rw [cgLoop, if_pos ht]
      refine ⟨0, Nat.zero_le _, ?_, fun j hj => by omega, ?_, ?_⟩
      · rw [e]; rfl
      · intro _
        refine ⟨Nat.succ_pos f, ?_⟩
        show norm n s.r.get < atol
        simpa using ht
      · intro h; rw [e] at h; cases h
    · have e : cgLoop n A M atol (f+1) s = cgLoop n A M atol f (cgStep n A M s) := by
        rw [cgLoop, if_neg ht]
      obtain ⟨k, hk, heq, hmin, hstop, hbud⟩ := ih (cgStep n A M s) rfl
      refine ⟨k+1, by omega, ?_, ?_, ?_, ?_⟩
      · rw [e, ← cgIter_shift]; exact heq
      · intro j hj
        cases j with
        | zero =>
          show ¬ norm n s.r.get < atol
          simpa using ht
        | succ j => rw [← cgIter_shift]; exact hmin j (by omega)
      · intro h; rw [e] at h; rw [← cgIter_shift]; exact ⟨by have := (hstop h).1; omega, (hstop h).2⟩
      · intro h; rw [e] at h; rw [hbud h]

/-- the stopping decision and the returned values depend only on the values of the state on the indices `< n` -/
theorem cgForward_spec (n : Nat) (tol : ℝ) (maxiter : Option Nat) (A : Nat → Nat → ℝ) (b : Nat → ℝ)
    (x0 : Option (Nat → ℝ)) (M : Option (Nat → Nat → ℝ)) (hb : 0 < norm n b) :
    ∃ k, k ≤ cgBudget n maxiter ∧
      cgForward n tol maxiter A b x0 M =
        { cgIter n A M (cgInit n A b x0) k with stopped := (cgForward n tol maxiter A b x0 M).stopped } ∧
      (∀ j, j < k → ¬ norm n (cgIter n A M (cgInit n A b x0) j).r.get < tol * norm n b) ∧
      ((cgForward n tol maxiter A b x0 M).stopped = true →
        k < cgBudget n maxiter ∧ norm n (cgIter n A M (cgInit n A b x0) k).r.get < tol * norm n b) ∧
      ((cgForward n tol maxiter A b x0 M).stopped = false → k = cgBudget n maxiter) := by
  rw [cgForward_pos _ _ _ _ _ _ _ hb]
  exact cgLoop_spec n A M (tol * norm n b) (cgBudget n maxiter) (cgInit n A b x0) rfl

/-- the identity matrix as an index function -/
def idMat : Nat → Nat → ℝ := fun i j => if i = j then 1 else 0

theorem toMat_idMat (n : Nat) : toMat n n idMat = 1 := by
  funext i j
  simp only [toMat, idMat, Matrix.one_apply, Fin.ext_iff]

/-- after any number of passes, `M = None` and `M = identity` give the same iterate and residual -/
theorem cgIter_M_identity (n : Nat) (A : Nat → Nat → ℝ) (b : Nat → ℝ) (x0 : Option (Nat → ℝ)) (k : Nat) :
    toVec n (cgIter n A none (cgInit n A b x0) k).x.get = toVec n (cgIter n A (some idMat) (cgInit n A b x0) k).x.get ∧
    toVec n (cgIter n A none (cgInit n A b x0) k).r.get = toVec n (cgIter n A (some idMat) (cgInit n A b x0) k).r.get := by
  have h1 := cgIter_rel n A none b x0 k
  have h2 := cgIter_rel n A (some idMat) b x0 k
  have e : precMat n (some idMat) = precMat n none := by
    simp only [precMat, toMat_idMat]
  rw [e] at h2
  exact ⟨h1.1.trans h2.1.symm, h1.2.1.trans h2.2.1.symm⟩

theorem norm_toVec_congr (n : Nat) (u v : Nat → ℝ) (h : toVec n u = toVec n v) : norm n u = norm n v :=
  norm_congr n u v fun i hi => by
    have := congrFun h ⟨i, hi⟩
    simpa [toVec] using this

/-- **`M = None` is the identity preconditioner**: same stopping decision, same number of passes, same returned `x`. -/
theorem cgForward_M_identity (n : Nat) (tol : ℝ) (maxiter : Option Nat) (A : Nat → Nat → ℝ) (b : Nat → ℝ)
    (x0 : Option (Nat → ℝ)) :
    (cgForward n tol maxiter A b x0 none).stopped = (cgForward n tol maxiter A b x0 (some idMat)).stopped ∧
    (cgForward n tol maxiter A b x0 none).iter = (cgForward n tol maxiter A b x0 (some idMat)).iter ∧
    ∀ i, i < n → (cgForward n tol maxiter A b x0 none).x.get i = (cgForward n tol maxiter A b x0 (some idMat)).x.get i := by
  by_cases hb : 0 < norm n b
  · obtain ⟨k1, hk1, e1, m1, s1, f1⟩ := cgForward_spec n tol maxiter A b x0 none hb
    obtain ⟨k2, hk2, e2, m2, s2, f2⟩ := cgForward_spec n tol maxiter A b x0 (some idMat) hb
    have T : ∀ j, norm n (cgIter n A none (cgInit n A b x0) j).r.get
        = norm n (cgIter n A (some idMat) (cgInit n A b x0) j).r.get :=
      fun j => norm_toVec_congr n _ _ (cgIter_M_identity n A b x0 j).2
    have hk : k1 = k2 := by
      rcases Nat.lt_trichotomy k1 k2 with h | h | h
      · exfalso
        have hn := m2 k1 h
        rw [← T] at hn
        cases hst : (cgForward n tol maxiter A b x0 none).stopped with
        | true => exact hn (s1 hst).2
        | false => have := f1 hst; omega
      · exact h
      · exfalso
        have hn := m1 k2 h
        rw [T] at hn
        cases hst : (cgForward n tol maxiter A b x0 (some idMat)).stopped with
        | true => exact hn (s2 hst).2
        | false => have := f2 hst; omega
    subst hk
    have hstop : (cgForward n tol maxiter A b x0 none).stopped = (cgForward n tol maxiter A b x0 (some idMat)).stopped := by
      cases h1 : (cgForward n tol maxiter A b x0 none).stopped with
      | true =>
        cases h2 : (cgForward n tol maxiter A b x0 (some idMat)).stopped with
        | true => rfl
        | false => have := (s1 h1).1; have := f2 h2; omega
      | false =>
        cases h2 : (cgForward n tol maxiter A b x0 (some idMat)).stopped with
        | false => rfl
        | true => have := (s2 h2).1; have := f1 h1; omega
    refine ⟨hstop, ?_, ?_⟩
    · rw [e1, e2]
      simp only [cgIter_iter]
    · intro i hi
      rw [e1, e2]
      have := congrFun (cgIter_M_identity n A b x0 k1).1 ⟨i, hi⟩
      simpa [toVec] using this
  · rw [cgForward_zero' _ _ _ _ _ _ _ hb, cgForward_zero' _ _ _ _ _ _ _ hb]
    exact ⟨rfl, rfl, fun _ _ => rfl⟩

/-! ## where the model and the code coincide: no vanishing denominator -/

/-- both divisions of the pass that starts from state `s` have a non-zero denominator (`pᵀAp` for `alpha`, `rho_prev`
for `beta` from the second pass on).  In the real code a zero denominator produces `inf`/`NaN`; in the model `x/0 = 0`. -/
def StepOK (n : Nat) (A : Nat → Nat → ℝ) (M : Option (Nat → Nat → ℝ)) (s : CGState ℝ) : Prop :=
  dot n (cgP n M s).get (cgQ n A M s).get ≠ 0 ∧ (s.iter ≠ 0 → s.rhoPrev ≠ 0)

/-- no breakdown in the first `k` passes started from `s0` -/
def NoBreakdown (n : Nat) (A : Nat → Nat → ℝ) (M : Option (Nat → Nat → ℝ)) (s0 : CGState ℝ) (k : Nat) : Prop :=
  ∀ j, j < k → StepOK n A M (cgIter n A M s0 j)

theorem cgIter_rhoPrev_succ (n : Nat) (A : Nat → Nat → ℝ) (M : Option (Nat → Nat → ℝ)) (s0 : CGState ℝ) (j : Nat) :
    (cgIter n A M s0 (j+1)).rhoPrev = cgRho n M (cgIter n A M s0 j) := by
  show (cgStep n A M (cgIter n A M s0 j)).rhoPrev = _
  rw [cgStep_eq]

/-- on the property's domain (SPD `A`, SPD or no `M`) there is no breakdown as long as the residuals are non-zero -/
theorem spd_noBreakdown (n : Nat) (A : Nat → Nat → ℝ) (b : Nat → ℝ) (x0 : Option (Nat → ℝ)) (M : Option (Nat → Nat → ℝ))
    (hA : IsSPD n A) (hM : ∀ M', M = some M' → IsSPD n M') (k : Nat)
    (hne : ∀ j, j < k → ∃ i, i < n ∧ (cgIter n A M (cgInit n A b x0) j).r.get i ≠ 0) :
    NoBreakdown n A M (cgInit n A b x0) k := by
  intro j hj
  have h := cg_no_breakdown_model n A b x0 M hA hM j (fun i hi => hne i (by omega))
  refine ⟨h.2.ne', fun hit => ?_⟩
  cases j with
  | zero => simp [cgIter, cgInit] at hit
  | succ j =>
    rw [cgIter_rhoPrev_succ]
    exact (cg_no_breakdown_model n A b x0 M hA hM j (fun i hi => hne i (by omega))).1.ne'

/-- with `tol > 0` every pass the loop actually makes starts from a non-zero residual: on SPD systems the whole run is
free of breakdown -/
theorem spd_run_noBreakdown (n : Nat) (tol : ℝ) (maxiter : Option Nat) (A : Nat → Nat → ℝ) (b : Nat → ℝ)
    (x0 : Option (Nat → ℝ)) (M : Option (Nat → Nat → ℝ))
    (hA : IsSPD n A) (hM : ∀ M', M = some M' → IsSPD n M') (htol : 0 < tol) :
    NoBreakdown n A M (cgInit n A b x0) (cgForward n tol maxiter A b x0 M).iter := by
  by_cases hb : 0 < norm n b
  · obtain ⟨k, _, e, hmin, _, _⟩ := cgForward_spec n tol maxiter A b x0 M hb
    have hit : (cgForward n tol maxiter A b x0 M).iter = k := by
      rw [e]; simp [cgIter_iter, cgInit]
    rw [hit]
    apply spd_noBreakdown n A b x0 M hA hM k
    intro j hj
    have hn := hmin j hj
    by_contra hc
    push Not at hc
    apply hn
    rw [norm_zero_of n _ hc]
    exact mul_pos htol hb
  · rw [cgForward_zero' _ _ _ _ _ _ _ hb]
    intro j hj
    simp at hj

/-- the truncated-SVD law about `A` ITSELF: if `A = U Σ Vᵀ` and every singular value is either above the cut-off or
zero, then `P = V Σ⁺_cut Uᵀ` is the Moore–Penrose inverse of `A` -/
theorem tsvd_isPinv_exact {m n r : ℕ} (A : Matrix (Fin m) (Fin n) ℝ) (U : Matrix (Fin m) (Fin r) ℝ)
    (V : Matrix (Fin n) (Fin r) ℝ) (σ : Fin r → ℝ) (cut : ℝ)
    (hA : A = U * diagonal σ * Vᵀ) (hU : Uᵀ * U = 1) (hV : Vᵀ * V = 1) (hc : 0 ≤ cut)
    (hgap : ∀ i, cut < σ i ∨ σ i = 0) :
    IsPinv A (V * diagonal (svInv σ cut) * Uᵀ) := by
  have h := tsvd_isPinv U V σ cut hU hV hc
  rw [tsvd_no_truncation U V σ cut (fun i hi => (hgap i).resolve_left hi), ← hA] at h
  exact h

/-! ## `pinv(A, hermitian=True)`: eigendecomposition instead of SVD -/

/-- sign with `sgn 0 = +1` -/
noncomputable def sgn (x : ℝ) : ℝ := if x < 0 then -1 else 1

theorem spm_real (x : ℝ) : spm x = sgn x := by
  unfold spm sgn
  simp only [lt_real, k_real, Nat.cast_zero, Nat.cast_one]
  by_cases h : x < 0 <;> simp [h]

theorem sgn_mul_abs (x : ℝ) : sgn x * |x| = x := by
  unfold sgn
  by_cases h : x < 0
  · simp [h, abs_of_neg h]
  · simp [h, abs_of_nonneg (not_lt.mp h)]

theorem sgn_mul_sgn (x : ℝ) : sgn x * sgn x = 1 := by
  unfold sgn; by_cases h : x < 0 <;> simp [h]

/-- the model's hermitian branch is `Q Λ⁺_cut Qᵀ`, and it is the Moore–Penrose inverse of `Q Λ_cut Qᵀ` (eigenvalues of
modulus `≤ cut` replaced by zero) for every orthogonal `Q`: the truncated-SVD law with `U = Q·sign(Λ)`, `Σ = |Λ|`, `V = Q`. -/
theorem eigh_isPinv (n : Nat) (Q : Nat → Nat → ℝ) (lam : Nat → ℝ) (cut : ℝ)
    (hQ : (toMat n n Q)ᵀ * toMat n n Q = 1) (hc : 0 ≤ cut) :
    IsPinv (toMat n n Q * diagonal (fun i : Fin n => if cut < |lam i| then lam i else 0) * (toMat n n Q)ᵀ)
      (toMat n n (pinvOfEigh n Q lam cut)) := by
  set Qm := toMat n n Q with hQm
  set s : Fin n → ℝ := fun i => sgn (lam i) with hs
  set σ : Fin n → ℝ := fun i => |lam i| with hσ
  have hU : (Qm * diagonal s)ᵀ * (Qm * diagonal s) = 1 := by
    rw [transpose_mul, diagonal_transpose, Matrix.mul_assoc, ← Matrix.mul_assoc Qmᵀ, hQ, Matrix.one_mul,
      diagonal_mul_diagonal]
    have : (fun i => s i * s i) = fun _ => (1:ℝ) := by funext i; exact sgn_mul_sgn _
    rw [this, diagonal_one]
  have h := tsvd_isPinv (Qm * diagonal s) Qm σ cut hU hQ hc
  have hf : (fun i => s i * svKeep σ cut i) = fun i : Fin n => if cut < |lam i| then lam i else 0 := by
    funext i
    simp only [hs, hσ, svKeep]
    by_cases hh : cut < |lam i|
    · rw [if_pos hh, if_pos hh]; exact sgn_mul_abs _
    · rw [if_neg hh, if_neg hh]; ring
  have eA : Qm * diagonal s * diagonal (svKeep σ cut) * Qmᵀ
      = Qm * diagonal (fun i : Fin n => if cut < |lam i| then lam i else 0) * Qmᵀ := by
    rw [Matrix.mul_assoc Qm, diagonal_mul_diagonal, hf]
  have hσ' : toVec n (fun t => sabs (lam t)) = σ := by
    funext i
    simp only [toVec, hσ, sabs_real]
  have hUm : toMat n n (fun i t => Q i t * spm (lam t)) = Qm * diagonal s := by
    funext i j
    simp only [toMat, Matrix.mul_diagonal, hs, spm_real, hQm]
  have eP : toMat n n (pinvOfEigh n Q lam cut) = Qm * diagonal (svInv σ cut) * (Qm * diagonal s)ᵀ := by
    unfold pinvOfEigh
    rw [toMat_pinvOfSvd, hσ', hUm]
  rw [eA] at h
  rw [eP]
  exact h

/-- trichotomy of the MODEL's `cgForward` (total division `x/0 = 0`; it describes the code while no denominator
vanishes, see `NoBreakdown`) -/
theorem cgForward_trichotomy_model (n : Nat) (tol : ℝ) (maxiter : Option Nat) (A : Nat → Nat → ℝ) (b : Nat → ℝ)
    (x0 : Option (Nat → ℝ)) (M : Option (Nat → Nat → ℝ)) :
    ((∀ i, i < n → b i = 0) ∧ ∀ i, (cgForward n tol maxiter A b x0 M).x.get i = 0) ∨
    ((cgForward n tol maxiter A b x0 M).stopped = true ∧
      norm n (fun i => b i - ∑ j ∈ range n, A i j * (cgForward n tol maxiter A b x0 M).x.get j) < tol * norm n b) ∨
    ((cgForward n tol maxiter A b x0 M).stopped = false ∧
      (cgForward n tol maxiter A b x0 M).iter = cgBudget n maxiter ∧
      ∀ j, j < cgBudget n maxiter → ¬ norm n (cgIter n A M (cgInit n A b x0) j).r.get < tol * norm n b) := by
  by_cases hb : ∃ i, i < n ∧ b i ≠ 0
  · right
    cases hst : (cgForward n tol maxiter A b x0 M).stopped with
    | true => exact Or.inl ⟨rfl, cgForward_certified n tol maxiter A b x0 M hb hst⟩
    | false =>
      obtain ⟨k, _, e, hmin, _, hf⟩ := cgForward_spec n tol maxiter A b x0 M ((norm_pos_iff n b).mpr hb)
      have hk := hf hst
      subst hk
      refine Or.inr ⟨rfl, ?_, hmin⟩
      rw [e]
      simp [cgIter_iter, cgInit]
  · left
    push Not at hb
    exact ⟨hb, (cgForward_zero n tol maxiter A b x0 M hb).1⟩

/-! ## the effective-rank threshold of `lstsq` (SVD drivers) -/

/-- the `rcond` defaulting of `torch.linalg.lstsq` with an SVD driver, case by case -/
theorem lstsqCutoff_cases (m n : Nat) (eps mach s1 r : ℝ) :
    lstsqCutoff none m n eps mach s1 = (max m n : ℕ) * eps * s1 ∧
    (r < 0 → lstsqCutoff (some r) m n eps mach s1 = mach * s1) ∧
    (0 ≤ r → lstsqCutoff (some r) m n eps mach s1 = r * s1) := by
  refine ⟨?_, ?_, ?_⟩
  · unfold lstsqCutoff; simp
  · intro h; unfold lstsqCutoff; simp [h]
  · intro h; unfold lstsqCutoff; simp [not_lt.mpr h]

theorem lstsqCutoff_nonneg (rcond : Option ℝ) (m n : Nat) (eps mach s1 : ℝ) (he : 0 ≤ eps) (hm : 0 ≤ mach)
    (hs : 0 ≤ s1) : 0 ≤ lstsqCutoff rcond m n eps mach s1 := by
  cases rcond with
  | none => rw [(lstsqCutoff_cases m n eps mach s1 0).1]; positivity
  | some r =>
    rcases lt_or_ge r 0 with h | h
    · rw [(lstsqCutoff_cases m n eps mach s1 r).2.1 h]; positivity
    · rw [(lstsqCutoff_cases m n eps mach s1 r).2.2 h]; positivity

/-- the value returned by `lstsqForwardSvd` (the NaN assertion never fires in the model) -/
theorem lstsqForwardSvd_ok (m n r : Nat) (U V : Nat → Nat → ℝ) (σ : Nat → ℝ) (rcond : Option ℝ) (eps mach : ℝ)
    (b : Nat → ℝ) :
    ∃ x, lstsqForwardSvd m n r U V σ rcond eps mach b = .ok x ∧
      toVec n x.get = (toMat n r V * diagonal (svInv (toVec r σ) (lstsqCutoff rcond m n eps mach (σ 0)))
        * (toMat m r U)ᵀ) *ᵥ toVec m b := by
  refine ⟨_, rfl, ?_⟩
  have h : ∀ f : Nat → ℝ, toVec n (tab n f).get = toVec n f := by
    intro f; funext i; simp [toVec, tab_get, i.isLt]
  rw [h, toVec_pinvForward, toMat_pinvOfSvd]

/-! ## complete orthogonal decomposition (the factorisation behind `lstsq`'s default driver `gelsy`) -/

section cod
variable {m n r : ℕ}

/-- **Complete-orthogonal-decomposition law**: for ANY `Q : m × r`, `Z : n × r` with orthonormal columns and ANY invertible
`T : r × r` (triangular in LAPACK — not needed), `Z T⁻¹ Qᵀ` is THE Moore–Penrose inverse of `Q T Zᵀ`.  (The truncated SVD is
the special case of a diagonal `T`.) -/
theorem cod_isPinv (Q : Matrix (Fin m) (Fin r) ℝ) (Z : Matrix (Fin n) (Fin r) ℝ) (T Ti : Matrix (Fin r) (Fin r) ℝ)
    (hQ : Qᵀ * Q = 1) (hZ : Zᵀ * Z = 1) (hT : T * Ti = 1) :
    IsPinv (Q * T * Zᵀ) (Z * Ti * Qᵀ) := by
  have hT' : Ti * T = 1 := (mul_eq_one_comm_of_card_eq (Fin r) (Fin r) ℝ rfl).mp hT
  have hAP : (Q * T * Zᵀ) * (Z * Ti * Qᵀ) = Q * (1 : Matrix (Fin r) (Fin r) ℝ) * Qᵀ := by
    rw [sandwich Q Z Q _ _ hZ, hT]
  have hPA : (Z * Ti * Qᵀ) * (Q * T * Zᵀ) = Z * (1 : Matrix (Fin r) (Fin r) ℝ) * Zᵀ := by
    rw [sandwich Z Q Z _ _ hQ, hT']
  refine ⟨?_, ?_, ?_, ?_⟩
  · rw [hAP, sandwich Q Q Z _ _ hQ, Matrix.one_mul]
  · rw [hPA, sandwich Z Z Q _ _ hZ, Matrix.one_mul]
  · rw [hAP]; simp [transpose_mul]
  · rw [hPA]; simp [transpose_mul]

end cod

/-! ## a consistent system: the pseudo-inverse solves it, and every other solution is longer -/

/-- If `A y = b` has a solution at all, then `x = P b` (`P` the Moore–Penrose inverse) solves it exactly, is no longer than
any solution `y`, and is the only solution of that length. -/
theorem isPinv_consistent {m n : ℕ} (A : Matrix (Fin m) (Fin n) ℝ) (P : Matrix (Fin n) (Fin m) ℝ) (b : Fin m → ℝ)
    (hP : IsPinv A P) (y : Fin n → ℝ) (hy : A *ᵥ y = b) :
    A *ᵥ (P *ᵥ b) = b ∧ nrm2 (P *ᵥ b) ≤ nrm2 y ∧ (nrm2 y = nrm2 (P *ᵥ b) → y = P *ᵥ b) := by
  have h := isPinv_minnorm A P b hP
  have h0 : nrm2 (A *ᵥ (P *ᵥ b) - b) = 0 := by
    have := h.1 y
    rw [hy, sub_self] at this
    have z : nrm2 (0 : Fin m → ℝ) = 0 := by simp [nrm2]
    rw [z] at this
    exact le_antisymm this (nrm2_nonneg _)
  have hy' : Aᵀ *ᵥ (A *ᵥ y - b) = 0 := by rw [hy, sub_self, mulVec_zero]
  exact ⟨sub_eq_zero.mp ((nrm2_eq_zero _).mp h0), h.2 y hy'⟩

/-- a square system with an invertible matrix: the pseudo-inverse returns THE solution (`P b = A⁻¹ b`) -/
theorem isPinv_nonsingular {n : ℕ} (A Ai P : Matrix (Fin n) (Fin n) ℝ) (b : Fin n → ℝ)
    (hP : IsPinv A P) (hA : Ai * A = 1) : P *ᵥ b = Ai *ᵥ b := by
  have hA' : A * Ai = 1 := (mul_eq_one_comm_of_card_eq (Fin n) (Fin n) ℝ rfl).mp hA
  have hy : A *ᵥ (Ai *ᵥ b) = b := by rw [mulVec_mulVec, hA', one_mulVec]
  have h := (isPinv_consistent A P b hP (Ai *ᵥ b) hy).1
  have : Ai *ᵥ (A *ᵥ (P *ᵥ b)) = Ai *ᵥ b := by rw [h]
  rwa [mulVec_mulVec, hA, one_mulVec] at this

/-- the model's `lstsqOfCod` is `Z T⁻¹ Qᵀ b`, and `lstsqForwardCod` returns it (the NaN assertion never fires in the model) -/
theorem lstsqForwardCod_ok (m n r : Nat) (Q Z Ti : Nat → Nat → ℝ) (b : Nat → ℝ) :
    ∃ x, lstsqForwardCod m n r Q Z Ti b = .ok x ∧
      toVec n x.get = (toMat n r Z * toMat r r Ti * (toMat m r Q)ᵀ) *ᵥ toVec m b := by
  refine ⟨_, rfl, ?_⟩
  rw [toVec_tab]
  unfold lstsqOfCod
  rw [toVec_pinvForward, toVec_pinvForward, toVec_pinvForward, toMat_transpose, mulVec_mulVec, mulVec_mulVec]

/-! ## uniqueness: every kernel that satisfies the Moore–Penrose contract returns the same vector -/

/-- two Moore–Penrose inverses of the same matrix give the same solution vector for every right-hand side -/
theorem isPinv_solution_unique {m n : ℕ} (A : Matrix (Fin m) (Fin n) ℝ) (P₁ P₂ : Matrix (Fin n) (Fin m) ℝ) (b : Fin m → ℝ)
    (h₁ : IsPinv A P₁) (h₂ : IsPinv A P₂) : P₁ *ᵥ b = P₂ *ᵥ b := by
  have n₁ := penrose_normal A P₁ b h₁.h1 h₁.h3
  have n₂ := penrose_normal A P₂ b h₂.h1 h₂.h3
  have a := (isPinv_minnorm A P₁ b h₁).2 (P₂ *ᵥ b) n₂
  have c := (isPinv_minnorm A P₂ b h₂).2 (P₁ *ᵥ b) n₁
  exact (a.2 (le_antisymm c.1 a.1)).symm

/-- … hence the Moore–Penrose inverse itself is unique -/
theorem isPinv_unique {m n : ℕ} (A : Matrix (Fin m) (Fin n) ℝ) (P₁ P₂ : Matrix (Fin n) (Fin m) ℝ)
    (h₁ : IsPinv A P₁) (h₂ : IsPinv A P₂) : P₁ = P₂ := by
  ext i j
  have h := congrFun (isPinv_solution_unique A P₁ P₂ (Pi.single j 1) h₁ h₂) i
  simpa [mulVec_single_one] using h

end PP.LinSolve
