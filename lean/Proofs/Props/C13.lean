import Proofs.Lemmas.Filter
import Mathlib.MeasureTheory.Measure.Lebesgue.Basic
/-!
# C13 — EKF / UKF equal the Kalman filter on linear-Gaussian systems; covariances valid; PF skeleton

Property theorems only (definitions of the specification `kfStep`, `kalman` and helpers are in
`Proofs/Lemmas/Filter.lean`; the model is `Pose/Model/Filter.lean`).

Contracts of external kernels appear as hypotheses:
`hpinv : ∀ S, IsUnit S.det → pinv S = S⁻¹`  (`torch.linalg.pinv` of an invertible matrix is its inverse),
`hsqrt : ∀ M, M.PosSemidef → msqrt M * (msqrt M)ᵀ = M`  (`UKF.msqrt`, default Cholesky).
-/
open Matrix MeasureTheory
namespace PP.Filter

variable {n m p : Nat}

/-- **EKF on any system = the documented recursion**: Kalman recursion applied to the linearisation
`A = ∂f/∂x`, `C = ∂g/∂x` at the *prior* mean, with the innovation taken at the *predicted* state
`g(f(x,u),u)`. No assumption on `f`, `g`. -/
theorem ekf_eq_linearised (pinv : Mat ℝ p p → Mat ℝ p p)
    (hpinv : ∀ S : Matrix (Fin p) (Fin p) ℝ, IsUnit S.det → pinv S = S⁻¹)
    (f : (Fin n → ℝ) → (Fin m → ℝ) → Fin n → ℝ) (g : (Fin n → ℝ) → (Fin m → ℝ) → Fin p → ℝ)
    (jf : (Fin n → ℝ) → (Fin m → ℝ) → Matrix (Fin n) (Fin n) ℝ)
    (jg : (Fin n → ℝ) → (Fin m → ℝ) → Matrix (Fin p) (Fin n) ℝ)
    (u : Fin m → ℝ) (y : Fin p → ℝ) (Q : Matrix (Fin n) (Fin n) ℝ) (R : Matrix (Fin p) (Fin p) ℝ)
    (x : Fin n → ℝ) (P : Matrix (Fin n) (Fin n) ℝ)
    (hP : P.PosSemidef) (hQ : Q.PosSemidef) (hR : R.PosDef) :
    let po := ekf pinv ⟨⟨f, g, jf, jg⟩, u, y, Q, R⟩ ⟨x, P⟩
    let b := kfStep (jf x u) (jg x u) (f x u) (g (f x u) u) Q R P y
    po.x = b.mean ∧ po.P = b.cov := by
  intro po b
  have hS := PosDef.isUnit_det' (innovCov_pd (C := jg x u) (predCov_psd (A := jf x u) hP hQ) hR)
  constructor
  · simp only [po, ekf, MemoV.fn_of, MemoM.mfn_of, MemoM.mfn_of', b, kfStep]
    simp only [mmul_eq', transpose_eq', madd_eq', mulVec_eq', vadd_eq, vsub_eq, hpinv _ hS]
  · simp only [po, ekf, MemoV.fn_of, MemoM.mfn_of, MemoM.mfn_of', b, kfStep]
    simp only [mmul_eq', transpose_eq', madd_eq', msub_eq', eye_eq', hpinv _ hS]
    rw [Matrix.sub_mul, Matrix.one_mul]

/-- The same statement as a Kalman filter on a linear-Gaussian system: the EKF posterior of an arbitrary
system is the exact Kalman posterior of its linearisation
`x' = f(x̂,u) + A (x − x̂) + w`, `y = g(x̂⁻,u) + C (x' − x̂⁻) + v` with `x̂⁻ = f(x̂,u)`,
`A = ∂f/∂x (x̂,u)`, `C = ∂g/∂x (x̂,u)` (the Jacobian of the observation is taken at the prior mean). -/
theorem ekf_eq_kf_of_linearisation (pinv : Mat ℝ p p → Mat ℝ p p)
    (hpinv : ∀ S : Matrix (Fin p) (Fin p) ℝ, IsUnit S.det → pinv S = S⁻¹)
    (f : (Fin n → ℝ) → (Fin m → ℝ) → Fin n → ℝ) (g : (Fin n → ℝ) → (Fin m → ℝ) → Fin p → ℝ)
    (jf : (Fin n → ℝ) → (Fin m → ℝ) → Matrix (Fin n) (Fin n) ℝ)
    (jg : (Fin n → ℝ) → (Fin m → ℝ) → Matrix (Fin p) (Fin n) ℝ)
    (u : Fin m → ℝ) (y : Fin p → ℝ) (Q : Matrix (Fin n) (Fin n) ℝ) (R : Matrix (Fin p) (Fin p) ℝ)
    (x : Fin n → ℝ) (P : Matrix (Fin n) (Fin n) ℝ)
    (hP : P.PosSemidef) (hQ : Q.PosSemidef) (hR : R.PosDef) :
    let po := ekf pinv ⟨⟨f, g, jf, jg⟩, u, y, Q, R⟩ ⟨x, P⟩
    let b := kalman (jf x u) (0 : Matrix (Fin n) (Fin m) ℝ) (jg x u) (0 : Matrix (Fin p) (Fin m) ℝ)
      (f x u - jf x u *ᵥ x) (g (f x u) u - jg x u *ᵥ f x u) Q R x P u y
    po.x = b.mean ∧ po.P = b.cov := by
  intro po b
  have h := ekf_eq_linearised pinv hpinv f g jf jg u y Q R x P hP hQ hR
  have e1 : jf x u *ᵥ x + (0 : Matrix (Fin n) (Fin m) ℝ) *ᵥ u + (f x u - jf x u *ᵥ x) = f x u := by
    rw [Matrix.zero_mulVec, add_zero, add_sub_cancel]
  have e2 : jg x u *ᵥ f x u + (0 : Matrix (Fin p) (Fin m) ℝ) *ᵥ u + (g (f x u) u - jg x u *ᵥ f x u) = g (f x u) u := by
    rw [Matrix.zero_mulVec, add_zero, add_sub_cancel]
  simp only [b, kalman, e1, e2]
  exact h

/-- **EKF = KF on linear-Gaussian systems.** For every affine system, every prior `(x, P)` with `P ⪰ 0`,
every `Q ⪰ 0`, `R ≻ 0`, all dimensions and all inputs / measurements, one EKF step returns exactly the mean
and covariance of the Kalman predict-then-update posterior. -/
theorem ekf_linear_eq_kf (pinv : Mat ℝ p p → Mat ℝ p p)
    (hpinv : ∀ S : Matrix (Fin p) (Fin p) ℝ, IsUnit S.det → pinv S = S⁻¹)
    (l : LinStep n m p) (hl : l.ok) (b : Belief n) (hb : b.cov.PosSemidef) :
    (ekf pinv l.toStep ⟨b.mean, b.cov⟩).x = (l.kalman b).mean ∧
    (ekf pinv l.toStep ⟨b.mean, b.cov⟩).P = (l.kalman b).cov := by
  have h := ekf_eq_linearised pinv hpinv (affSys l.A l.B l.C l.D l.c1 l.c2).f (affSys l.A l.B l.C l.D l.c1 l.c2).g
    (fun _ _ => l.A) (fun _ _ => l.C) l.u l.y l.Q l.R b.mean b.cov hb hl.1 hl.2
  simp only [LinStep.kalman, kalman, LinStep.toStep, affSys, mulVec_eq', vadd_eq] at h ⊢
  exact h

/-- **EKF covariance is valid, always**: for an arbitrary (non-linear) system and arbitrary Jacobians the
returned covariance is symmetric and positive semidefinite. -/
theorem ekf_cov_psd (pinv : Mat ℝ p p → Mat ℝ p p)
    (hpinv : ∀ S : Matrix (Fin p) (Fin p) ℝ, IsUnit S.det → pinv S = S⁻¹)
    (f : (Fin n → ℝ) → (Fin m → ℝ) → Fin n → ℝ) (g : (Fin n → ℝ) → (Fin m → ℝ) → Fin p → ℝ)
    (jf : (Fin n → ℝ) → (Fin m → ℝ) → Matrix (Fin n) (Fin n) ℝ)
    (jg : (Fin n → ℝ) → (Fin m → ℝ) → Matrix (Fin p) (Fin n) ℝ)
    (u : Fin m → ℝ) (y : Fin p → ℝ) (Q : Matrix (Fin n) (Fin n) ℝ) (R : Matrix (Fin p) (Fin p) ℝ)
    (x : Fin n → ℝ) (P : Matrix (Fin n) (Fin n) ℝ)
    (hP : P.PosSemidef) (hQ : Q.PosSemidef) (hR : R.PosDef) :
    Matrix.PosSemidef (ekf pinv ⟨⟨f, g, jf, jg⟩, u, y, Q, R⟩ ⟨x, P⟩).P := by
  rw [(ekf_eq_linearised pinv hpinv f g jf jg u y Q R x P hP hQ hR).2]
  exact kfStep_cov_psd _ _ _ _ _ hP hQ hR

/-- the Jacobians carried by `affSys` are exact: an affine system is its own linearisation at every point -/
theorem affSys_is_own_linearisation (A : Matrix (Fin n) (Fin n) ℝ) (B : Matrix (Fin n) (Fin m) ℝ)
    (C : Matrix (Fin p) (Fin n) ℝ) (D : Matrix (Fin p) (Fin m) ℝ) (c1 : Fin n → ℝ) (c2 : Fin p → ℝ)
    (x d : Fin n → ℝ) (u : Fin m → ℝ) :
    (affSys A B C D c1 c2).f (x + d) u = (affSys A B C D c1 c2).f x u + (affSys A B C D c1 c2).jf x u *ᵥ d ∧
    (affSys A B C D c1 c2).g (x + d) u = (affSys A B C D c1 c2).g x u + (affSys A B C D c1 c2).jg x u *ᵥ d := by
  simp only [affSys, mulVec_eq', vadd_eq, Matrix.mulVec_add]
  constructor <;> abel

/-- **Histories.** A run of any length of EKF calls on a (possibly time-varying) linear-Gaussian system,
each call receiving the previous posterior, equals the Kalman filter run; and the covariance stays
symmetric positive semidefinite along the whole run (so every call's hypotheses hold). -/
theorem ekf_run_eq_kf_run (pinv : Mat ℝ p p → Mat ℝ p p)
    (hpinv : ∀ S : Matrix (Fin p) (Fin p) ℝ, IsUnit S.det → pinv S = S⁻¹)
    (steps : List (LinStep n m p)) (hs : ∀ l ∈ steps, l.ok) (b : Belief n) (hb : b.cov.PosSemidef) :
    (runEKF pinv (steps.map LinStep.toStep) ⟨b.mean, b.cov⟩).x = (kalmanRun steps b).mean ∧
    (runEKF pinv (steps.map LinStep.toStep) ⟨b.mean, b.cov⟩).P = (kalmanRun steps b).cov ∧
    (kalmanRun steps b).cov.PosSemidef := by
  induction steps generalizing b with
  | nil => exact ⟨rfl, rfl, hb⟩
  | cons l rest ih =>
    have hl : l.ok := hs l (by simp)
    have h1 := ekf_linear_eq_kf pinv hpinv l hl b hb
    have hpost : ekf pinv l.toStep ⟨b.mean, b.cov⟩ = ⟨(l.kalman b).mean, (l.kalman b).cov⟩ := by
      rcases h : ekf pinv l.toStep ⟨b.mean, b.cov⟩ with ⟨x', P'⟩
      rw [h] at h1
      simp only at h1
      rw [h1.1, h1.2]
    have := ih (fun l' hl' => hs l' (by simp [hl'])) (l.kalman b) (l.kalman_cov_psd hl hb)
    simpa only [runEKF, kalmanRun, List.map_cons, List.foldl_cons, hpost] using this

/-- **UKF = KF on linear-Gaussian systems**, for every sigma-point parameter `k > -n` and every TOTAL matrix square root
(`L Lᵀ = M` for every positive semidefinite `M`, e.g. the symmetric eigen-decomposition root a user may pass as `msqrt`),
prior covariance positive semidefinite. For the default `torch.linalg.cholesky`, which exists only for positive definite
matrices, see `ukf_linear_eq_kf_chol`. -/
theorem ukf_linear_eq_kf (pinv : Mat ℝ p p → Mat ℝ p p)
    (hpinv : ∀ S : Matrix (Fin p) (Fin p) ℝ, IsUnit S.det → pinv S = S⁻¹)
    (msqrt : Matrix (Fin n) (Fin n) ℝ → Matrix (Fin n) (Fin n) ℝ)
    (hsqrt : ∀ M : Matrix (Fin n) (Fin n) ℝ, M.PosSemidef → msqrt M * (msqrt M)ᵀ = M)
    (kk : ℝ) (hk : -(n : ℝ) < kk)
    (l : LinStep n m p) (hl : l.ok) (b : Belief n) (hb : b.cov.PosSemidef) :
    (ukf pinv msqrt kk l.toStep ⟨b.mean, b.cov⟩).x = (l.kalman b).mean ∧
    (ukf pinv msqrt kk l.toStep ⟨b.mean, b.cov⟩).P = (l.kalman b).cov :=
  have hN : 0 ≤ (n : ℝ) + kk := by linarith
  ukf_linear_eq_kf_of_factors pinv hpinv msqrt kk hk l hl b hb (hsqrt _ (hb.smul hN))
    (hsqrt _ ((predCov_psd hb hl.1).smul hN))

/-- **UKF = KF with the default Cholesky root**: the contract is only `L Lᵀ = M` for positive DEFINITE `M` (what
`torch.linalg.cholesky` offers); with `P ≻ 0`, `Q ≻ 0`, `R ≻ 0` both matrices the call factorises are positive definite, and
the posterior covariance is positive definite again (so the next call can factorise it). -/
theorem ukf_linear_eq_kf_chol (pinv : Mat ℝ p p → Mat ℝ p p)
    (hpinv : ∀ S : Matrix (Fin p) (Fin p) ℝ, IsUnit S.det → pinv S = S⁻¹)
    (msqrt : Matrix (Fin n) (Fin n) ℝ → Matrix (Fin n) (Fin n) ℝ)
    (hchol : ∀ M : Matrix (Fin n) (Fin n) ℝ, M.PosDef → msqrt M * (msqrt M)ᵀ = M)
    (kk : ℝ) (hk : -(n : ℝ) < kk)
    (l : LinStep n m p) (hl : l.okPD) (b : Belief n) (hb : b.cov.PosDef) :
    (ukf pinv msqrt kk l.toStep ⟨b.mean, b.cov⟩).x = (l.kalman b).mean ∧
    (ukf pinv msqrt kk l.toStep ⟨b.mean, b.cov⟩).P = (l.kalman b).cov ∧
    (l.kalman b).cov.PosDef :=
  have hN : 0 < (n : ℝ) + kk := by linarith
  have h := ukf_linear_eq_kf_of_factors pinv hpinv msqrt kk hk l hl.ok b hb.posSemidef (hchol _ (hb.smul hN))
    (hchol _ ((predCov_pd hb.posSemidef hl.1).smul hN))
  ⟨h.1, h.2, l.kalman_cov_pd hl hb.posSemidef⟩

/-- **Histories, UKF.** A run of any length of UKF calls on one filter object, on a (possibly time-varying)
linear-Gaussian system, **each call with its own sigma-point parameter `k > -n`** (and its own `u, y, Q, R`),
equals the Kalman filter run; the covariance stays positive semidefinite, so the square-root contract is
applicable at every call. In particular the result of a call does not depend on the `k` of earlier calls. -/
theorem ukf_run_eq_kf_run (pinv : Mat ℝ p p → Mat ℝ p p)
    (hpinv : ∀ S : Matrix (Fin p) (Fin p) ℝ, IsUnit S.det → pinv S = S⁻¹)
    (msqrt : Matrix (Fin n) (Fin n) ℝ → Matrix (Fin n) (Fin n) ℝ)
    (hsqrt : ∀ M : Matrix (Fin n) (Fin n) ℝ, M.PosSemidef → msqrt M * (msqrt M)ᵀ = M)
    (calls : List (ℝ × LinStep n m p)) (hs : ∀ c ∈ calls, -(n : ℝ) < c.1 ∧ c.2.ok)
    (b : Belief n) (hb : b.cov.PosSemidef) :
    (runUKF pinv msqrt (calls.map fun c => (c.1, c.2.toStep)) ⟨b.mean, b.cov⟩).x
        = (kalmanRun (calls.map Prod.snd) b).mean ∧
    (runUKF pinv msqrt (calls.map fun c => (c.1, c.2.toStep)) ⟨b.mean, b.cov⟩).P
        = (kalmanRun (calls.map Prod.snd) b).cov ∧
    (kalmanRun (calls.map Prod.snd) b).cov.PosSemidef := by
  induction calls generalizing b with
  | nil => exact ⟨rfl, rfl, hb⟩
  | cons c rest ih =>
    obtain ⟨hk, hl⟩ := hs c (by simp)
    have h1 := ukf_linear_eq_kf pinv hpinv msqrt hsqrt c.1 hk c.2 hl b hb
    have hpost : ukf pinv msqrt c.1 c.2.toStep ⟨b.mean, b.cov⟩ = ⟨(c.2.kalman b).mean, (c.2.kalman b).cov⟩ := by
      rcases h : ukf pinv msqrt c.1 c.2.toStep ⟨b.mean, b.cov⟩ with ⟨x', P'⟩
      rw [h] at h1
      simp only at h1
      rw [h1.1, h1.2]
    have := ih (fun c' hc' => hs c' (by simp [hc'])) (c.2.kalman b) (c.2.kalman_cov_psd hl hb)
    simpa only [runUKF, kalmanRun, List.map_cons, List.foldl_cons, hpost] using this

/-- **Histories with the default Cholesky root.** Contract only for positive definite matrices; prior `≻ 0`, every call's
`Q ≻ 0`, `R ≻ 0`, every call its own `k > −n`: the run equals the Kalman filter run and every posterior covariance along the
run is positive definite — so every factorisation the run makes exists. -/
theorem ukf_run_eq_kf_run_chol (pinv : Mat ℝ p p → Mat ℝ p p)
    (hpinv : ∀ S : Matrix (Fin p) (Fin p) ℝ, IsUnit S.det → pinv S = S⁻¹)
    (msqrt : Matrix (Fin n) (Fin n) ℝ → Matrix (Fin n) (Fin n) ℝ)
    (hchol : ∀ M : Matrix (Fin n) (Fin n) ℝ, M.PosDef → msqrt M * (msqrt M)ᵀ = M)
    (calls : List (ℝ × LinStep n m p)) (hs : ∀ c ∈ calls, -(n : ℝ) < c.1 ∧ c.2.okPD)
    (b : Belief n) (hb : b.cov.PosDef) :
    (runUKF pinv msqrt (calls.map fun c => (c.1, c.2.toStep)) ⟨b.mean, b.cov⟩).x
        = (kalmanRun (calls.map Prod.snd) b).mean ∧
    (runUKF pinv msqrt (calls.map fun c => (c.1, c.2.toStep)) ⟨b.mean, b.cov⟩).P
        = (kalmanRun (calls.map Prod.snd) b).cov ∧
    (kalmanRun (calls.map Prod.snd) b).cov.PosDef := by
  induction calls generalizing b with
  | nil => exact ⟨rfl, rfl, hb⟩
  | cons c rest ih =>
    obtain ⟨hk, hl⟩ := hs c (by simp)
    have h1 := ukf_linear_eq_kf_chol pinv hpinv msqrt hchol c.1 hk c.2 hl b hb
    have hpost : ukf pinv msqrt c.1 c.2.toStep ⟨b.mean, b.cov⟩ = ⟨(c.2.kalman b).mean, (c.2.kalman b).cov⟩ := by
      rcases h : ukf pinv msqrt c.1 c.2.toStep ⟨b.mean, b.cov⟩ with ⟨x', P'⟩
      rw [h] at h1
      simp only at h1
      rw [h1.1, h1.2.1]
    have := ih (fun c' hc' => hs c' (by simp [hc'])) (c.2.kalman b) h1.2.2
    simpa only [runUKF, kalmanRun, List.map_cons, List.foldl_cons, hpost] using this

/-- **UKF with a root that can fail (the default Cholesky).** `chol` returns a factor exactly for positive definite matrices.
On a linear-Gaussian system with `P ≻ 0`, `Q ≻ 0`, `R ≻ 0` both factorisations exist and the call returns the Kalman
posterior (whose covariance is again `≻ 0`); if the prior covariance has no factor the call raises (`none`). -/
theorem ukfO_linear (pinv : Mat ℝ p p → Mat ℝ p p)
    (hpinv : ∀ S : Matrix (Fin p) (Fin p) ℝ, IsUnit S.det → pinv S = S⁻¹)
    (chol : Matrix (Fin n) (Fin n) ℝ → Option (Matrix (Fin n) (Fin n) ℝ))
    (hchol : ∀ M : Matrix (Fin n) (Fin n) ℝ, M.PosDef → ∃ L, chol M = some L ∧ L * Lᵀ = M)
    (kk : ℝ) (hk : -(n : ℝ) < kk) (l : LinStep n m p) (hl : l.okPD) (b : Belief n) :
    (b.cov.PosDef → ukfO pinv chol kk l.toStep ⟨b.mean, b.cov⟩ = some ⟨(l.kalman b).mean, (l.kalman b).cov⟩ ∧
        (l.kalman b).cov.PosDef) ∧
    (chol (((n : ℝ) + kk) • b.cov) = none → ukfO pinv chol kk l.toStep ⟨b.mean, b.cov⟩ = none) := by
  have hN : 0 < (n : ℝ) + kk := by linarith
  constructor
  · intro hb
    set ms : Matrix (Fin n) (Fin n) ℝ → Matrix (Fin n) (Fin n) ℝ := rootOr0 chol with hms
    have hmsPD : ∀ M : Matrix (Fin n) (Fin n) ℝ, M.PosDef → chol M = some (ms M) ∧ ms M * (ms M)ᵀ = M := by
      intro M hM
      obtain ⟨L, hL, hLL⟩ := hchol M hM
      have : ms M = L := by simp only [hms, rootOr0, hL]
      rw [this]; exact ⟨hL, hLL⟩
    have hP1 := hmsPD _ (hb.smul hN)
    have hPm := predCov_pd (A := l.A) hb.posSemidef hl.1
    have hP2 := hmsPD _ (hPm.smul hN)
    have hpred := ukfPredCov_linear ms kk hk l b hP1.2
    have hcore := ukf_linear_eq_kf_of_factors pinv hpinv ms kk hk l hl.ok b hb.posSemidef hP1.2 hP2.2
    refine ⟨?_, l.kalman_cov_pd hl hb.posSemidef⟩
    have e1 : chol (msmul (k n + kk) (⟨b.mean, b.cov⟩ : Post ℝ n).P) = some (ms (((n : ℝ) + kk) • b.cov)) := by
      simp only [msmul_eq', k_real]; exact hP1.1
    have e2 : chol (msmul (k n + kk) (ukfPredCov ms kk l.toStep ⟨b.mean, b.cov⟩))
        = some (ms (((n : ℝ) + kk) • (l.A * b.cov * l.Aᵀ + l.Q))) := by
      rw [hpred]; simp only [msmul_eq', k_real]; exact hP2.1
    simp only [ukfO, ← hms, e1, e2]
    rcases h : ukf pinv ms kk l.toStep ⟨b.mean, b.cov⟩ with ⟨x', P'⟩
    rw [h] at hcore
    simp only at hcore
    simp only [hcore.1, hcore.2]
  · intro hnone
    have e1 : chol (msmul (k n + kk) (⟨b.mean, b.cov⟩ : Post ℝ n).P) = none := by
      simp only [msmul_eq', k_real]; exact hnone
    simp only [ukfO, e1]

/-- **Histories on one UKF object over linear-Gaussian systems, with per-call sources of `Q`, `R` and per-call `k`**
(each passed or defaulted): equal to the Kalman filter run with the covariances in force at each call. -/
theorem ukf_obj_run_eq_kf_run (pinv : Mat ℝ p p → Mat ℝ p p)
    (hpinv : ∀ S : Matrix (Fin p) (Fin p) ℝ, IsUnit S.det → pinv S = S⁻¹)
    (msqrt : Matrix (Fin n) (Fin n) ℝ → Matrix (Fin n) (Fin n) ℝ)
    (hsqrt : ∀ M : Matrix (Fin n) (Fin n) ℝ, M.PosSemidef → msqrt M * (msqrt M)ᵀ = M)
    (stQ : Matrix (Fin n) (Fin n) ℝ) (stR : Matrix (Fin p) (Fin p) ℝ)
    (calls : List (LinCall n m p))
    (hs : ∀ c ∈ calls, -(n : ℝ) < resolveK n c.kk ∧ (c.eff stQ stR).ok)
    (b : Belief n) (hb : b.cov.PosSemidef) :
    (runUKFobj pinv msqrt (some stQ) (some stR) (calls.map LinCall.toCall) ⟨b.mean, b.cov⟩).x
        = (kalmanRun (calls.map (LinCall.eff stQ stR)) b).mean ∧
    (runUKFobj pinv msqrt (some stQ) (some stR) (calls.map LinCall.toCall) ⟨b.mean, b.cov⟩).P
        = (kalmanRun (calls.map (LinCall.eff stQ stR)) b).cov ∧
    (kalmanRun (calls.map (LinCall.eff stQ stR)) b).cov.PosSemidef := by
  have hmap : (calls.map LinCall.toCall).filterMap (fun c => (c.toStep (some stQ) (some stR)).map fun s => (resolveK n c.kk, s))
      = (calls.map fun c => (resolveK n c.kk, c.eff stQ stR)).map fun c => (c.1, c.2.toStep) := by
    induction calls with
    | nil => rfl
    | cons c rest ih =>
      simp only [List.map_cons, List.filterMap_cons, LinCall.toStep_eq, Option.map_some]
      rw [ih (fun c' hc' => hs c' (by simp [hc']))]
      rfl
  have e := runUKFobj_eq pinv msqrt (some stQ) (some stR) (calls.map LinCall.toCall) ⟨b.mean, b.cov⟩
  rw [hmap] at e
  have h := ukf_run_eq_kf_run pinv hpinv msqrt hsqrt (calls.map fun c => (resolveK n c.kk, c.eff stQ stR))
    (by
      intro c hc
      simp only [List.mem_map] at hc
      obtain ⟨c', hc', rfl⟩ := hc
      exact hs c' hc') b hb
  simp only [List.map_map, Function.comp_def] at h e
  exact ⟨(congrArg Post.x e).trans h.1, (congrArg Post.P e).trans h.2.1, h.2.2⟩


/-- the same for one EKF object -/
theorem ekf_obj_run_eq_kf_run (pinv : Mat ℝ p p → Mat ℝ p p)
    (hpinv : ∀ S : Matrix (Fin p) (Fin p) ℝ, IsUnit S.det → pinv S = S⁻¹)
    (stQ : Matrix (Fin n) (Fin n) ℝ) (stR : Matrix (Fin p) (Fin p) ℝ)
    (calls : List (LinCall n m p))
    (hs : ∀ c ∈ calls, (c.eff stQ stR).ok)
    (b : Belief n) (hb : b.cov.PosSemidef) :
    (runEKFobj pinv (some stQ) (some stR) (calls.map LinCall.toCall) ⟨b.mean, b.cov⟩).x
        = (kalmanRun (calls.map (LinCall.eff stQ stR)) b).mean ∧
    (runEKFobj pinv (some stQ) (some stR) (calls.map LinCall.toCall) ⟨b.mean, b.cov⟩).P
        = (kalmanRun (calls.map (LinCall.eff stQ stR)) b).cov ∧
    (kalmanRun (calls.map (LinCall.eff stQ stR)) b).cov.PosSemidef := by
  have hmap : (calls.map LinCall.toCall).filterMap (Call.toStep (some stQ) (some stR))
      = (calls.map (LinCall.eff stQ stR)).map LinStep.toStep := by
    induction calls with
    | nil => rfl
    | cons c rest ih =>
      simp only [List.map_cons, List.filterMap_cons, LinCall.toStep_eq]
      rw [ih (fun c' hc' => hs c' (by simp [hc']))]
  have e := runEKFobj_eq pinv (some stQ) (some stR) (calls.map LinCall.toCall) ⟨b.mean, b.cov⟩
  rw [hmap] at e
  have h := ekf_run_eq_kf_run pinv hpinv (calls.map (LinCall.eff stQ stR))
    (by
      intro c hc
      simp only [List.mem_map] at hc
      obtain ⟨c', hc', rfl⟩ := hc
      exact hs c' hc') b hb
  exact ⟨(congrArg Post.x e).trans h.1, (congrArg Post.P e).trans h.2.1, h.2.2⟩


/-- **UKF covariance is valid whenever the centre weight is non-negative** (`k ≥ 0`, `n + k > 0`), for an
arbitrary non-linear system: the returned covariance is symmetric positive semidefinite. Nothing is assumed
about the prior covariance or the first square root. -/
theorem ukf_cov_psd (pinv : Matrix (Fin p) (Fin p) ℝ → Matrix (Fin p) (Fin p) ℝ)
    (hpinv : ∀ S : Matrix (Fin p) (Fin p) ℝ, IsUnit S.det → pinv S = S⁻¹)
    (msqrt : Matrix (Fin n) (Fin n) ℝ → Matrix (Fin n) (Fin n) ℝ)
    (hsqrt : ∀ M : Matrix (Fin n) (Fin n) ℝ, M.PosSemidef → msqrt M * (msqrt M)ᵀ = M)
    (kk : ℝ) (hk0 : 0 ≤ kk) (hn : 0 < (n : ℝ) + kk)
    (f : (Fin n → ℝ) → (Fin m → ℝ) → Fin n → ℝ) (g : (Fin n → ℝ) → (Fin m → ℝ) → Fin p → ℝ)
    (jf : (Fin n → ℝ) → (Fin m → ℝ) → Matrix (Fin n) (Fin n) ℝ)
    (jg : (Fin n → ℝ) → (Fin m → ℝ) → Matrix (Fin p) (Fin n) ℝ)
    (u : Fin m → ℝ) (y : Fin p → ℝ) (Q : Matrix (Fin n) (Fin n) ℝ) (R : Matrix (Fin p) (Fin p) ℝ)
    (x : Fin n → ℝ) (P : Matrix (Fin n) (Fin n) ℝ) (hQ : Q.PosSemidef) (hR : R.PosDef) :
    Matrix.PosSemidef (ukf pinv msqrt kk ⟨⟨f, g, jf, jg⟩, u, y, Q, R⟩ ⟨x, P⟩).P := by
  have ha : 0 ≤ w0 n kk := by simp only [w0, k_real]; exact div_nonneg hk0 hn.le
  have hb : 0 ≤ wr n kk := by simp only [wr, k_real]; positivity
  have h2b : 2 * wr n kk * ((n : ℝ) + kk) = 1 := by
    simp only [wr, k_real]; field_simp; push_cast; ring
  simp only [ukf, MemoV.fn_of, MemoM.mfn_of', sigmaPoints_eq, cov_eq_covM, madd_eq', dev_sig, mmul_eq',
    msub_eq', transpose_eq']
  -- E1 = deviations of the propagated first sigma set, E2 = deviations of the observed second sigma set;
  -- the second set's own deviations are `devSig L2`
  generalize Sigma.dev _ (Sigma.map (fun pt => f pt u) _) = E1
  generalize Sigma.dev _ (Sigma.map (fun pt => g pt u) _) = E2
  have hPm : (Q + covM (w0 n kk) (wr n kk) E1 E1).PosSemidef := hQ.add (covM_self_psd _ _ ha hb E1)
  set Pm := Q + covM (w0 n kk) (wr n kk) E1 E1
  have hL2 := hsqrt _ (hPm.smul hn.le)
  set L2 := msqrt (((n : ℝ) + kk) • Pm)
  have hss : covM (w0 n kk) (wr n kk) (devSig L2) (devSig L2) = Pm := by
    have h : covM (w0 n kk) (wr n kk) (devSig L2) (devSig L2) = (2 * wr n kk) • (L2 * L2ᵀ) := cov_devSig _ _ L2 L2
    rw [h, hL2, smul_smul, h2b, one_smul]
  have hPy : (R + covM (w0 n kk) (wr n kk) E2 E2).PosDef := hR.add_posSemidef (covM_self_psd _ _ ha hb E2)
  have hS := PosDef.isUnit_det' hPy
  have hsym : (R + covM (w0 n kk) (wr n kk) E2 E2)ᵀ = R + covM (w0 n kk) (wr n kk) E2 E2 := hPy.isHermitian
  have key := schur_cov_psd (w0 n kk) (wr n kk) ha hb (devSig L2) E2 hR
  rw [hss] at key
  rw [hpinv _ hS, Matrix.nonsing_inv_mul_cancel_right _ _ hS, Matrix.transpose_mul, Matrix.transpose_nonsing_inv, hsym,
    ← Matrix.mul_assoc]
  exact key

/-- Value of the UKF on the witness: one state, `f(x,u) = x`, `g(x,u) = x² + x`, prior `N(0, 1/2)`, `Q = 3/2`, `R = 1`,
`y = 0`, sigma-point parameter `k = −1/2` (admissible: `k > −n = −1`, centre weight `k/(n+k) = −1`). For EVERY `pinv`
and `msqrt` meeting their contracts the call returns the "covariance" `−2` (and the mean `−4`): both Cholesky factors exist
(`P = 1/2`, `P⁻ = 2` are positive), the innovation covariance is `1`, so the real code returns this value without raising. -/
theorem ukf_negative_centre_witness_value
    (pinv : M1 → M1) (hpinv : ∀ S : M1, IsUnit S.det → pinv S = S⁻¹)
    (msqrt : M1 → M1) (hsqrt : ∀ M : M1, M.PosSemidef → msqrt M * (msqrt M)ᵀ = M) :
    (ukf pinv msqrt (-(1/2) : ℝ) ⟨witnessSys, 0, 0, ((3/2 : ℝ) • (1 : M1)), (1 : M1)⟩
      ⟨0, ((1/2 : ℝ) • (1 : M1))⟩).P 0 0 = -2 ∧
    (ukf pinv msqrt (-(1/2) : ℝ) ⟨witnessSys, 0, 0, ((3/2 : ℝ) • (1 : M1)), (1 : M1)⟩
      ⟨0, ((1/2 : ℝ) • (1 : M1))⟩).x 0 = -4 := by
  have hab : w0 1 (-(1/2) : ℝ) + 2 * (1 : ℕ) * wr 1 (-(1/2) : ℝ) = 1 := by
    simp only [w0, wr, k_real]; norm_num
  have hw0 : w0 1 (-(1/2) : ℝ) = -1 := by simp only [w0, k_real]; norm_num
  have hwr : wr 1 (-(1/2) : ℝ) = 1 := by simp only [wr, k_real]; norm_num
  have hN : ((1 : ℕ) : ℝ) + -(1/2) = 1/2 := by norm_num
  have hP1 : ((1/2 : ℝ) • ((1/2 : ℝ) • (1 : M1))).PosSemidef := (PosSemidef.one.smul (by norm_num)).smul (by norm_num)
  have hL1 := hsqrt _ hP1
  set L1 := msqrt ((1/2 : ℝ) • ((1/2 : ℝ) • (1 : M1))) with hL1def
  have e1 : (2 * wr 1 (-(1/2) : ℝ)) • ((1 : M1) * L1 * ((1 : M1) * L1)ᵀ) = (1/2 : ℝ) • (1 : M1) := by
    rw [hwr, Matrix.one_mul, hL1, smul_smul]; norm_num
  have e2 : (3/2 : ℝ) • (1 : M1) + (1/2 : ℝ) • (1 : M1) = (2 : ℝ) • (1 : M1) := by rw [← add_smul]; norm_num
  have hP2 : ((1/2 : ℝ) • ((2 : ℝ) • (1 : M1))).PosSemidef := (PosSemidef.one.smul (by norm_num)).smul (by norm_num)
  have hL2 := hsqrt _ hP2
  set L2 := msqrt ((1/2 : ℝ) • ((2 : ℝ) • (1 : M1))) with hL2def
  simp only [ukf, witnessSys, MemoV.fn_of, MemoM.mfn_of, MemoM.mfn_of', sigmaPoints_eq, mulVec_eq', vadd_eq, vsub_eq,
    wsum_affine _ _ hab, dev_map_affine, cov_devSig, madd_eq', hN, ← hL1def, e1, e2, ← hL2def]
  have hl : L2 0 0 * L2 0 0 = 1 := by
    have := congrFun (congrFun hL2 0) 0
    simpa [Matrix.mul_apply] using this
  simp only [Sigma.dev, Sigma.map, Sigma.memo_eq, sig, colv, hw0, hwr, vsub_eq,
    Matrix.mulVec_zero, add_zero, Pi.zero_apply, Pi.add_apply, zero_add, zero_sub, Pi.neg_apply]
  generalize hS : (madd (1 : M1) _ : M1) = S
  have h11 : (1 : M1) 0 0 = 1 := by simp
  have hS1 : S = (1 : M1) := by
    rw [← hS]
    ext i j
    obtain rfl : i = 0 := Subsingleton.elim _ _
    obtain rfl : j = 0 := Subsingleton.elim _ _
    simp only [madd, Sigma.cov, Sigma.wsum, fsum_one, Pi.sub_apply]
    show _ = (1 : M1) 0 0
    rw [h11]
    set l := L2 0 0
    linear_combination (-2 * l * l) * hl
  rw [hS1]
  have hp1 : pinv (1 : M1) = 1 := by rw [hpinv 1 (by simp), inv_one]
  rw [hp1]
  simp only [msub, mmul, Filter.transpose, Filter.mulVec, Sigma.cov, Sigma.wsum, fsum_one, Pi.sub_apply, Pi.add_apply, h11,
    Matrix.smul_apply, smul_eq_mul, Pi.zero_apply, Pi.neg_apply, colv]
  set l := L2 0 0
  constructor
  · linear_combination (-4 * (l * l + 1)) * hl
  · linear_combination (-4 * (l * l + 1)) * hl

/-- **The guard "whenever its centre weight is non-negative" is sharp**: with a negative centre weight (`k = −1/2 > −n`)
the UKF returns a matrix that is not positive semidefinite, although `P ≻ 0`, `Q ≻ 0`, `R ≻ 0` and every kernel meets
its contract. (`ukf_cov_psd` needs `0 ≤ k`; this is the matching counterexample for `−n < k < 0`.) -/
theorem ukf_negative_centre_not_psd
    (pinv : M1 → M1) (hpinv : ∀ S : M1, IsUnit S.det → pinv S = S⁻¹)
    (msqrt : M1 → M1) (hsqrt : ∀ M : M1, M.PosSemidef → msqrt M * (msqrt M)ᵀ = M) :
    -((1 : ℕ) : ℝ) < -(1/2 : ℝ) ∧ ((1/2 : ℝ) • (1 : M1)).PosDef ∧ ((3/2 : ℝ) • (1 : M1)).PosDef ∧ (1 : M1).PosDef ∧
    ¬ Matrix.PosSemidef (ukf pinv msqrt (-(1/2) : ℝ) ⟨witnessSys, 0, 0, ((3/2 : ℝ) • (1 : M1)), (1 : M1)⟩
      ⟨0, ((1/2 : ℝ) • (1 : M1))⟩).P := by
  refine ⟨by norm_num, PosDef.one.smul (by norm_num), PosDef.one.smul (by norm_num), PosDef.one, fun h => ?_⟩
  have h0 := h.diag_nonneg (i := 0)
  rw [(ukf_negative_centre_witness_value pinv hpinv msqrt hsqrt).1] at h0
  norm_num at h0

/-- **What "the Kalman posterior" means without measure theory**: among all linear updates
`x⁺ = x⁻ + G (y − ŷ)`, whose error covariance is `(1 − G C) P⁻ (1 − G C)ᵀ + G R Gᵀ`, the covariance returned by
the Kalman recursion (hence by EKF / UKF on linear systems) is attained at the Kalman gain and is the smallest
in the Loewner order: the difference is `(G − K) S (G − K)ᵀ ⪰ 0`. -/
theorem kalman_cov_is_minimal (A : Matrix (Fin n) (Fin n) ℝ) (C : Matrix (Fin p) (Fin n) ℝ)
    (xm : Fin n → ℝ) (ym y : Fin p → ℝ) (Q : Matrix (Fin n) (Fin n) ℝ) (R : Matrix (Fin p) (Fin p) ℝ)
    (P : Matrix (Fin n) (Fin n) ℝ) (hP : P.PosSemidef) (hQ : Q.PosSemidef) (hR : R.PosDef)
    (G : Matrix (Fin n) (Fin p) ℝ) :
    let Pm := A * P * Aᵀ + Q
    let K := Pm * Cᵀ * (C * Pm * Cᵀ + R)⁻¹
    updateCov Pm C R K = (kfStep A C xm ym Q R P y).cov ∧
    (updateCov Pm C R G - (kfStep A C xm ym Q R P y).cov).PosSemidef := by
  intro Pm K
  have hPm : Pm.PosSemidef := predCov_psd hP hQ
  have hSpd := innovCov_pd (C := C) hPm hR
  constructor
  · simp only [updateCov, kfStep, K]
    exact (joseph_identity Pm C R (PosDef.isUnit_det' hSpd)).symm
  · have h := updateCov_sub_kalman Pm C R hPm hR G
    simp only [kfStep]
    rw [h]
    have := hSpd.posSemidef.mul_mul_conjTranspose_same (G - Pm * Cᵀ * (C * Pm * Cᵀ + R)⁻¹)
    rwa [conjTranspose_eq_transpose_of_trivial] at this

/-! ## Particle filter: the deterministic skeleton (the random draws are inputs) -/

section PF
variable {N : Nat}

/-- **Importance weights.** `relative_likelihood` returns, for every particle,
`exp(−½ eᵢᵀ R⁻¹ eᵢ) / Σⱼ exp(−½ eⱼᵀ R⁻¹ eⱼ)` with `eᵢ = y − g(xᵢ,u)` (the Gaussian likelihood of `y`, the normalising
constant `lz` and the max-shift of the softmax cancel); the weights are positive and sum to one. -/
theorem pf_weights (Rinv : Matrix (Fin p) (Fin p) ℝ) (lz : ℝ)
    (f : (Fin n → ℝ) → (Fin m → ℝ) → Fin n → ℝ) (g : (Fin n → ℝ) → (Fin m → ℝ) → Fin p → ℝ)
    (jf : (Fin n → ℝ) → (Fin m → ℝ) → Matrix (Fin n) (Fin n) ℝ)
    (jg : (Fin n → ℝ) → (Fin m → ℝ) → Matrix (Fin p) (Fin n) ℝ)
    (u : Fin m → ℝ) (y : Fin p → ℝ) (Q : Matrix (Fin n) (Fin n) ℝ) (R : Matrix (Fin p) (Fin p) ℝ)
    (xp : Fin N → Fin n → ℝ) (hN : 0 < N) :
    let w := (pfWeights Rinv lz ⟨⟨f, g, jf, jg⟩, u, y, Q, R⟩ xp).fn
    let ll : Fin N → ℝ := fun i => -(1 / 2 * ((y - g (xp i) u) ⬝ᵥ Rinv *ᵥ (y - g (xp i) u)))
    (∀ i, w i = Real.exp (ll i) / ∑ j, Real.exp (ll j)) ∧ (∀ i, 0 < w i) ∧ ∑ i, w i = 1 := by
  intro w ll
  have hw : w = (softmax fun i => ll i - lz).fn := by
    simp only [w, pfWeights, MemoV.fn_of, logLik, q_real, dot_eq, mulVec_eq', vsub_eq, ll]
    norm_num
  refine ⟨fun i => ?_, fun i => ?_, ?_⟩
  · rw [hw, softmax_shift, softmax_fn]
  · rw [hw]; exact softmax_pos _ i
  · rw [hw]; exact softmax_sum _ hN

/-- **Resampling rule.** For positive weights that sum to one and a draw `r ∈ (0,1)`:
`searchsorted(cumsum w, r)` is a valid index (the clamp is inactive) and it equals `i` exactly when
`cumsum w i − w i < r ≤ cumsum w i` — an interval of length `w i`, so a uniform draw selects particle `i`
with probability `w i`. A draw `r ≤ 0` selects particle `0`. -/
theorem pf_resample_rule (w : Fin N → ℝ) (hw : ∀ i, 0 < w i) (hsum : ∑ i, w i = 1) (r : ℝ) (hr1 : r < 1)
    (hN : 0 < N) :
    searchsorted (cumsum w) r < N ∧
    pfIndices (cumsum w) (fun _ : Fin N => r) ⟨0, hN⟩ = searchsorted (cumsum w) r ∧
    (0 < r → ∀ i : Fin N, searchsorted (cumsum w) r = i.val ↔ cumsum w i - w i < r ∧ r ≤ cumsum w i) ∧
    (r ≤ 0 → searchsorted (cumsum w) r = 0) := by
  have hmono := cumsum_mono w fun i => (hw i).le
  have hle := fun i => searchsorted_le_iff (cumsum w) hmono r i
  have hlast : searchsorted (cumsum w) r ≤ N - 1 := by
    have := (hle ⟨N - 1, by omega⟩).2 (by rw [cumsum_last w ⟨N - 1, by omega⟩ (by simp; omega), hsum]; exact hr1.le)
    simpa using this
  refine ⟨by omega, ?_, ?_, ?_⟩
  · simp only [pfIndices]; omega
  · intro hr0 i
    rcases Nat.eq_zero_or_pos i.val with h0 | hpos
    · rw [h0, cumsum_zero w i h0, sub_self]
      constructor
      · intro h; exact ⟨hr0, by rw [← cumsum_zero w i h0]; exact (hle i).1 (by omega)⟩
      · intro h
        have := (hle i).2 (by rw [cumsum_zero w i h0]; exact h.2)
        omega
    · have hi := i.isLt
      set j : Fin N := ⟨i.val - 1, by omega⟩ with hj
      have hs := cumsum_succ w j i (by simp [hj]; omega)
      rw [hs, add_sub_cancel_right]
      have hjle := hle j
      constructor
      · intro h
        refine ⟨?_, by rw [← hs]; exact (hle i).1 (by omega)⟩
        by_contra hc
        rw [not_lt] at hc
        have := hjle.2 hc
        simp only [hj] at this
        omega
      · rintro ⟨h1, h2⟩
        have h3 := (hle i).2 (by rw [hs]; exact h2)
        have h4 : ¬ searchsorted (cumsum w) r ≤ j.val := fun hh => absurd (hjle.1 hh) (not_le.mpr h1)
        simp only [hj] at h4
        omega
  · intro hr0
    have := (hle ⟨0, hN⟩).2 (by rw [cumsum_zero w ⟨0, hN⟩ rfl]; exact hr0.trans (hw _).le)
    simpa using this

/-- **Resampling probabilities.** For positive weights summing to one, the set of draws `r ∈ (0,1)` that select
particle `i` has Lebesgue measure `w i`: a uniform draw picks particle `i` with probability `w i`. -/
theorem pf_resample_prob (w : Fin N → ℝ) (hw : ∀ i, 0 < w i) (hsum : ∑ i, w i = 1) (hN : 0 < N) (i : Fin N) :
    volume {r : ℝ | 0 < r ∧ r < 1 ∧ searchsorted (cumsum w) r = i.val} = ENNReal.ofReal (w i) := by
  have hmono := cumsum_mono w fun i => (hw i).le
  have hB : cumsum w i ≤ 1 := by
    have h := hmono (show i ≤ ⟨N - 1, by omega⟩ from Fin.le_def.2 (by have := i.isLt; simp only; omega))
    rwa [cumsum_last w ⟨N - 1, by omega⟩ (by simp only; omega), hsum] at h
  have hA : 0 ≤ cumsum w i - w i := by
    rw [cumsum_eq, sub_nonneg]
    exact Finset.single_le_sum (f := w) (fun j _ => (hw j).le) (by simp)
  have rule := fun r (h1 : r < 1) => (pf_resample_rule w hw hsum r h1 hN).2.2.1
  have h1 : Set.Ioo (cumsum w i - w i) (cumsum w i) ⊆ {r : ℝ | 0 < r ∧ r < 1 ∧ searchsorted (cumsum w) r = i.val} := by
    intro r hr
    have hr0 : 0 < r := lt_of_le_of_lt hA hr.1
    have hr1 : r < 1 := lt_of_lt_of_le hr.2 hB
    exact ⟨hr0, hr1, (rule r hr1 hr0 i).2 ⟨hr.1, hr.2.le⟩⟩
  have h2 : {r : ℝ | 0 < r ∧ r < 1 ∧ searchsorted (cumsum w) r = i.val} ⊆ Set.Ioc (cumsum w i - w i) (cumsum w i) := by
    rintro r ⟨hr0, hr1, hi⟩
    exact (rule r hr1 hr0 i).1 hi
  apply le_antisymm
  · calc _ ≤ volume (Set.Ioc (cumsum w i - w i) (cumsum w i)) := measure_mono h2
      _ = ENNReal.ofReal (w i) := by rw [Real.volume_Ioc]; congr 1; ring
  · calc ENNReal.ofReal (w i) = volume (Set.Ioo (cumsum w i - w i) (cumsum w i)) := by
          rw [Real.volume_Ioo]; congr 1; ring
      _ ≤ _ := measure_mono h1

/-- **Resampling stage at the Monte-Carlo rate** (finite sums, no measure theory). When the `N` indices are selected
independently, index `i` with probability `w i` — which is what uniform draws do (`pf_resample_prob`) — the mean of the resampled
values `h (idx j)` (a component of the PF estimate `pfMoments.x`) has expectation `Σ w h` (unbiased), variance
`Σ w (h − Σ w h)² / N`, hence root-mean-square error `≤ sqrt(Σ w h²) / sqrt N`. -/
theorem pf_resample_mean_var {M N n : Nat} (w : Fin M → ℝ) (hw : ∑ i, w i = 1) (hN : 0 < N)
    (xs : Fin M → Fin n → ℝ) (Q : Matrix (Fin n) (Fin n) ℝ) (a : Fin n) :
    let μ := ∑ i, w i * xs i a
    expectIdx (N := N) w (fun f => (pfMoments Q (fun j => xs (f j))).x a) = μ ∧
    expectIdx (N := N) w (fun f => ((pfMoments Q (fun j => xs (f j))).x a - μ) ^ 2) = (∑ i, w i * (xs i a - μ) ^ 2) / N ∧
    (∑ i, w i * (xs i a - μ) ^ 2) / N ≤ (∑ i, w i * xs i a ^ 2) / N := by
  intro μ
  simp only [pfMoments_x]
  refine ⟨resample_mean_expect w hw hN (fun i => xs i a), resample_mean_variance w hw hN (fun i => xs i a), ?_⟩
  apply div_le_div_of_nonneg_right _ (by positivity)
  have : ∑ i, w i * (xs i a - μ) ^ 2 = (∑ i, w i * xs i a ^ 2) - μ ^ 2 := by
    have e : ∀ i, w i * (xs i a - μ) ^ 2 = w i * xs i a ^ 2 - 2 * μ * (w i * xs i a) + μ ^ 2 * w i := fun i => by ring
    simp only [e, Finset.sum_add_distrib, Finset.sum_sub_distrib, ← Finset.mul_sum, hw]
    ring
  rw [this]
  nlinarith [sq_nonneg μ]

/-- **What the PF composite computes** (`R ≻ 0`, `pinv` = inverse): the importance weights are the normalised Gaussian
likelihoods `exp(−½ eᵢᵀ R⁻¹ eᵢ)` of `y` at `g(xᵢ,u)` with the call's own `R`; draw `j` selects the particle
`sel j = min(searchsorted(cumsum w, r j), N − 1)` computed from exactly these weights; the result is the mean and
`Q +` covariance of the selected propagated particles `f(x_{sel j}, u)`. -/
theorem pf_spec (pinv : Matrix (Fin p) (Fin p) ℝ → Matrix (Fin p) (Fin p) ℝ)
    (hpinv : ∀ S : Matrix (Fin p) (Fin p) ℝ, IsUnit S.det → pinv S = S⁻¹) (lz : ℝ)
    (f : (Fin n → ℝ) → (Fin m → ℝ) → Fin n → ℝ) (g : (Fin n → ℝ) → (Fin m → ℝ) → Fin p → ℝ)
    (jf : (Fin n → ℝ) → (Fin m → ℝ) → Matrix (Fin n) (Fin n) ℝ)
    (jg : (Fin n → ℝ) → (Fin m → ℝ) → Matrix (Fin p) (Fin n) ℝ)
    (u : Fin m → ℝ) (y : Fin p → ℝ) (Q : Matrix (Fin n) (Fin n) ℝ) (R : Matrix (Fin p) (Fin p) ℝ) (hR : R.PosDef)
    (xp : Fin N → Fin n → ℝ) (r : Fin N → ℝ) (hN : 0 < N) :
    let ll : Fin N → ℝ := fun i => -(1 / 2 * ((y - g (xp i) u) ⬝ᵥ R⁻¹ *ᵥ (y - g (xp i) u)))
    let w : Fin N → ℝ := fun i => Real.exp (ll i) / ∑ j, Real.exp (ll j)
    let sel : Fin N → Fin N := fun j => ⟨min (searchsorted (cumsum w) (r j)) (N - 1), by omega⟩
    pf hN pinv lz ⟨⟨f, g, jf, jg⟩, u, y, Q, R⟩ xp r = pfMoments Q (fun j => f (xp (sel j)) u) := by
  intro ll w sel
  have hw : (pfWeights (pinv R) lz ⟨⟨f, g, jf, jg⟩, u, y, Q, R⟩ xp).fn = w := by
    funext i
    have h := (pf_weights (pinv R) lz f g jf jg u y Q R xp hN).1 i
    simp only at h
    rw [h, hpinv R (PosDef.isUnit_det' hR)]
  simp only [pf, MemoV.fn_of, MemoM.mfn_of, MemoM.mfn_of', hw, pfIndices]
  congr 1
  funext j
  congr 2
  ext
  simp only [sel, Nat.min_assoc, Nat.min_self]

/-- **PF output.** The particles entering the moments are propagated prior particles `f(xp (idx j), u)`
(resampling picks existing particles), the mean is their average, and the covariance
`Q + mean((xr − x)(xr − x)ᵀ)` is symmetric positive semidefinite — for every system, every draw. -/
theorem pf_cov_psd (pinv : Mat ℝ p p → Mat ℝ p p) (lz : ℝ)
    (f : (Fin n → ℝ) → (Fin m → ℝ) → Fin n → ℝ) (g : (Fin n → ℝ) → (Fin m → ℝ) → Fin p → ℝ)
    (jf : (Fin n → ℝ) → (Fin m → ℝ) → Matrix (Fin n) (Fin n) ℝ)
    (jg : (Fin n → ℝ) → (Fin m → ℝ) → Matrix (Fin p) (Fin n) ℝ)
    (u : Fin m → ℝ) (y : Fin p → ℝ) (Q : Matrix (Fin n) (Fin n) ℝ) (R : Matrix (Fin p) (Fin p) ℝ)
    (xp : Fin N → Fin n → ℝ) (r : Fin N → ℝ) (hN : 0 < N) (hQ : Q.PosSemidef) :
    ∃ idx : Fin N → Fin N,
      (pf hN pinv lz ⟨⟨f, g, jf, jg⟩, u, y, Q, R⟩ xp r).x = (fun a => (∑ j, f (xp (idx j)) u a) / N) ∧
      Matrix.PosSemidef (pf hN pinv lz ⟨⟨f, g, jf, jg⟩, u, y, Q, R⟩ xp r).P := by
  simp only [pf, MemoV.fn_of, MemoM.mfn_of]
  exact ⟨_, pfMoments_x Q _, pfMoments_P_psd hQ _⟩

/-- **What the PF weights target on a linear-Gaussian observation (importance stage).** Observation
`y = C x + D u + c2 + v`, `v ~ N(0,R)`, particles `xp` regarded as a sample of any Gaussian proposal `N(xm, P⁻)`, `P⁻ ≻ 0`
(for the PF call: the propagated particle cloud). Let `b` be the Kalman measurement update of `N(xm, P⁻)` by `y`
(`kfStep` with identity transition and zero process noise). Then the model's weight of particle `i` is the
**self-normalised importance ratio of the Kalman posterior density to the proposal density** at the particles:
`w i = ρ(xp i) / Σ_j ρ(xp j)`, `ρ(z) = exp(−½ (z−b.mean)ᵀ b.cov⁻¹ (z−b.mean)) / exp(−½ (z−xm)ᵀ P⁻⁻¹ (z−xm))`
(the normalising constants of the two densities and the evidence `N(y; C xm + …, S)` cancel in the ratio). This is Bayes' rule
`prior × likelihood ∝ posterior` for the Gaussian pair, proved by completing the square (`bayes_complete_square`); it is the exact,
finite-`N` content of "the PF estimates the same posterior as the Kalman filter". It holds for every particle set, and for
every `f`, `jf`, `jg`, `Q`, `lz` (the weights do not look at them). The `N → ∞` limit itself (law of large numbers for the
self-normalised estimator) stays with the statistical stream. -/
theorem pf_weights_target_kalman (lz : ℝ)
    (f : (Fin n → ℝ) → (Fin m → ℝ) → Fin n → ℝ)
    (jf : (Fin n → ℝ) → (Fin m → ℝ) → Matrix (Fin n) (Fin n) ℝ)
    (jg : (Fin n → ℝ) → (Fin m → ℝ) → Matrix (Fin p) (Fin n) ℝ)
    (C : Matrix (Fin p) (Fin n) ℝ) (D : Matrix (Fin p) (Fin m) ℝ) (c2 : Fin p → ℝ)
    (u : Fin m → ℝ) (y : Fin p → ℝ) (Q : Matrix (Fin n) (Fin n) ℝ) (R : Matrix (Fin p) (Fin p) ℝ) (hR : R.PosDef)
    (xm : Fin n → ℝ) (Pm : Matrix (Fin n) (Fin n) ℝ) (hPm : Pm.PosDef)
    (xp : Fin N → Fin n → ℝ) (hN : 0 < N) :
    let g : (Fin n → ℝ) → (Fin m → ℝ) → Fin p → ℝ := fun x u => C *ᵥ x + D *ᵥ u + c2
    let w := (pfWeights (R⁻¹ : Matrix (Fin p) (Fin p) ℝ) lz ⟨⟨f, g, jf, jg⟩, u, y, Q, R⟩ xp).fn
    let b := kfStep 1 C xm (g xm u) 0 R Pm y
    let ρ : (Fin n → ℝ) → ℝ := fun z =>
      Real.exp (-(1 / 2 * ((z - b.mean) ⬝ᵥ b.cov⁻¹ *ᵥ (z - b.mean)))) /
        Real.exp (-(1 / 2 * ((z - xm) ⬝ᵥ Pm⁻¹ *ᵥ (z - xm))))
    ∀ i, w i = ρ (xp i) / ∑ j, ρ (xp j) := by
  intro g w b ρ i
  obtain ⟨h1, -, -⟩ := pf_weights R⁻¹ lz f g jf jg u y Q R xp hN
  have hb : b = ⟨xm + (Pm * Cᵀ * (C * Pm * Cᵀ + R)⁻¹) *ᵥ (y - (C *ᵥ xm + (D *ᵥ u + c2))),
      Pm - Pm * Cᵀ * (C * Pm * Cᵀ + R)⁻¹ * C * Pm⟩ := by
    simp only [b, kfStep, g, Matrix.one_mul, Matrix.transpose_one, Matrix.mul_one, add_zero, add_assoc]
  have sq := bayes_complete_square C hPm hR xm (D *ᵥ u + c2) y
  simp only at sq
  obtain ⟨c0, hc0'⟩ := (⟨_, sq⟩ : ∃ c0 : ℝ, ∀ z : Fin n → ℝ,
      (z - xm) ⬝ᵥ Pm⁻¹ *ᵥ (z - xm) + (y - (C *ᵥ z + (D *ᵥ u + c2))) ⬝ᵥ R⁻¹ *ᵥ (y - (C *ᵥ z + (D *ᵥ u + c2)))
        = (z - (xm + (Pm * Cᵀ * (C * Pm * Cᵀ + R)⁻¹) *ᵥ (y - (C *ᵥ xm + (D *ᵥ u + c2))))) ⬝ᵥ
            (Pm - Pm * Cᵀ * (C * Pm * Cᵀ + R)⁻¹ * C * Pm)⁻¹ *ᵥ
              (z - (xm + (Pm * Cᵀ * (C * Pm * Cᵀ + R)⁻¹) *ᵥ (y - (C *ᵥ xm + (D *ᵥ u + c2))))) + c0)
  have hc0 : ∀ z : Fin n → ℝ,
      (z - xm) ⬝ᵥ Pm⁻¹ *ᵥ (z - xm) + (y - g z u) ⬝ᵥ R⁻¹ *ᵥ (y - g z u)
        = (z - b.mean) ⬝ᵥ b.cov⁻¹ *ᵥ (z - b.mean) + c0 := by
    intro z
    rw [hb]; simp only [g, add_assoc]
    exact hc0' z
  have key : ∀ z, Real.exp (-(1 / 2 * ((y - g z u) ⬝ᵥ R⁻¹ *ᵥ (y - g z u)))) = Real.exp (-(1 / 2 * c0)) * ρ z := by
    intro z
    simp only [ρ]
    rw [← Real.exp_sub, ← Real.exp_add]
    congr 1
    linarith [hc0 z]
  simp only [w]
  rw [h1 i]
  simp only [key, ← Finset.mul_sum]
  rw [mul_div_mul_left _ _ (Real.exp_pos _).ne']
/-- **Convergence rate of the resampling stage (weak law, explicit bound).** Weights `w ≥ 0`, `Σ w = 1`, indices drawn
independently with probabilities `w` (what `pf_resample_prob` shows a uniform draw does): the probability that coordinate `a` of
the PF estimate (mean of the `N` resampled particles) is at least `ε` away from the weighted mean `μ = Σ w_i xs_i` is at most
`Var_w / (N ε²) ≤ E_w[xs²] / (N ε²)` — it tends to `0` like `1/N`, for every `ε > 0` (Chebyshev on `pf_resample_mean_var`). -/
theorem pf_resample_concentration {M N n : Nat} (w : Fin M → ℝ) (hw0 : ∀ i, 0 ≤ w i) (hw : ∑ i, w i = 1) (hN : 0 < N)
    (xs : Fin M → Fin n → ℝ) (Q : Matrix (Fin n) (Fin n) ℝ) (a : Fin n) {ε : ℝ} (hε : 0 < ε) :
    let μ := ∑ i, w i * xs i a
    expectIdx (N := N) w (fun f => if ε ≤ |(pfMoments Q (fun j => xs (f j))).x a - μ| then 1 else 0)
        ≤ (∑ i, w i * (xs i a - μ) ^ 2) / (N * ε ^ 2) ∧
      (∑ i, w i * (xs i a - μ) ^ 2) / (N * ε ^ 2) ≤ (∑ i, w i * xs i a ^ 2) / (N * ε ^ 2) := by
  intro μ
  simp only [pfMoments_x]
  refine ⟨resample_mean_chebyshev w hw0 hw hN (fun i => xs i a) hε, ?_⟩
  have hN' : (0 : ℝ) < N := by exact_mod_cast hN
  have h3 := (pf_resample_mean_var w hw hN xs Q a).2.2
  rw [div_le_div_iff_of_pos_right hN'] at h3
  exact div_le_div_of_nonneg_right h3 (by positivity)

/-- **The whole PF call on a linear-Gaussian observation, in expectation over the resampling draws.** `w` are the model's own
weights for the call (`pfWeights`), `out idx` is coordinate `a` of what the call returns when the draws select the indices `idx`
(`pf_spec`: `pf … = pfMoments Q (f ∘ xp ∘ sel)`), `b` the Kalman measurement update of the proposal `N(xm, P⁻)` by `y`. Then
(1) `E[out] = Σ_i ρ(xp i) f(xp i, u)_a / Σ_j ρ(xp j)` — the self-normalised importance-sampling estimate of the KALMAN-POSTERIOR
expectation of `f(x, u)_a` (`ρ` = Kalman posterior density / proposal density, constants cancelled), exactly, for every `N`; and
(2) `P(|out − that estimate| ≥ ε) ≤ E_w[f(x,u)_a²] / (N ε²)`. Composition of `pf_weights_target_kalman`, `pf_resample_mean_var`,
`pf_resample_concentration`. What stays unproved is only the limit of the self-normalised estimate itself as the particles
`xp` are drawn from a continuous proposal. -/
theorem pf_call_mean_targets_kalman (lz : ℝ)
    (f : (Fin n → ℝ) → (Fin m → ℝ) → Fin n → ℝ)
    (jf : (Fin n → ℝ) → (Fin m → ℝ) → Matrix (Fin n) (Fin n) ℝ)
    (jg : (Fin n → ℝ) → (Fin m → ℝ) → Matrix (Fin p) (Fin n) ℝ)
    (C : Matrix (Fin p) (Fin n) ℝ) (D : Matrix (Fin p) (Fin m) ℝ) (c2 : Fin p → ℝ)
    (u : Fin m → ℝ) (y : Fin p → ℝ) (Q : Matrix (Fin n) (Fin n) ℝ) (R : Matrix (Fin p) (Fin p) ℝ) (hR : R.PosDef)
    (xm : Fin n → ℝ) (Pm : Matrix (Fin n) (Fin n) ℝ) (hPm : Pm.PosDef)
    (xp : Fin N → Fin n → ℝ) (hN : 0 < N) (a : Fin n) {ε : ℝ} (hε : 0 < ε) :
    let g : (Fin n → ℝ) → (Fin m → ℝ) → Fin p → ℝ := fun x u => C *ᵥ x + D *ᵥ u + c2
    let w := (pfWeights (R⁻¹ : Matrix (Fin p) (Fin p) ℝ) lz ⟨⟨f, g, jf, jg⟩, u, y, Q, R⟩ xp).fn
    let b := kfStep 1 C xm (g xm u) 0 R Pm y
    let ρ : (Fin n → ℝ) → ℝ := fun z =>
      Real.exp (-(1 / 2 * ((z - b.mean) ⬝ᵥ b.cov⁻¹ *ᵥ (z - b.mean)))) /
        Real.exp (-(1 / 2 * ((z - xm) ⬝ᵥ Pm⁻¹ *ᵥ (z - xm))))
    let est := (∑ i, ρ (xp i) * f (xp i) u a) / ∑ j, ρ (xp j)
    let out : (Fin N → Fin N) → ℝ := fun idx => (pfMoments Q (fun j => f (xp (idx j)) u)).x a
    expectIdx (N := N) w out = est ∧
      expectIdx (N := N) w (fun idx => if ε ≤ |out idx - est| then 1 else 0)
        ≤ (∑ i, w i * (f (xp i) u a) ^ 2) / (N * ε ^ 2) := by
  intro g w b ρ est out
  obtain ⟨-, hpos, hsum⟩ := pf_weights (R⁻¹ : Matrix (Fin p) (Fin p) ℝ) lz f g jf jg u y Q R xp hN
  have hw := pf_weights_target_kalman lz f jf jg C D c2 u y Q R hR xm Pm hPm xp hN
  have hest : ∑ i, w i * f (xp i) u a = est := by
    simp only [est, Finset.sum_div]
    refine Finset.sum_congr rfl fun i _ => ?_
    rw [show w i = ρ (xp i) / ∑ j, ρ (xp j) from hw i]
    ring
  have h1 := (pf_resample_mean_var w hsum hN (fun i => f (xp i) u) Q a).1
  have h2 := pf_resample_concentration w (fun i => (hpos i).le) hsum hN (fun i => f (xp i) u) Q a hε
  simp only at h1 h2
  rw [hest] at h1 h2
  exact ⟨h1, h2.1.trans h2.2⟩
end PF

/-! ## Non-vacuity: the hypotheses are satisfiable by non-trivial values -/

/-- the kernel contracts (`pinv`, `msqrt`) can be met in every dimension -/
example : (∃ pinv : Matrix (Fin p) (Fin p) ℝ → Matrix (Fin p) (Fin p) ℝ, ∀ S, IsUnit S.det → pinv S = S⁻¹) ∧
    (∃ msqrt : Matrix (Fin n) (Fin n) ℝ → Matrix (Fin n) (Fin n) ℝ, ∀ M, M.PosSemidef → msqrt M * (msqrt M)ᵀ = M) :=
  ⟨exists_pinv p, exists_msqrt n⟩

/-- a non-trivial valid call: non-symmetric `A`, `C ≠ 0`, identity noise covariances -/
example : ∃ l : LinStep 2 1 1, l.ok ∧ l.A ≠ l.Aᵀ ∧ l.C ≠ 0 := by
  refine ⟨⟨!![1, 1; 0, 1], !![0; 1], !![1, 0], !![0], ![0, 0], ![0], ![1], ![2], 1, 1⟩,
    ⟨PosSemidef.one, PosDef.one⟩, ?_, ?_⟩
  · intro h
    have := congrFun (congrFun h 0) 1
    simp at this
  · intro h
    have := congrFun (congrFun h 0) 0
    simp at this

/-- a valid prior and admissible sigma-point parameters (`k = 1 ≥ 0`, and `k = -1/2 > -n` for `n = 2`) -/
example : (1 : Matrix (Fin 2) (Fin 2) ℝ).PosSemidef ∧ (0:ℝ) ≤ 1 ∧ (0:ℝ) < (2:ℕ) + 1 ∧ -((2:ℕ):ℝ) < -1/2 :=
  ⟨PosSemidef.one, by norm_num, by norm_num, by norm_num⟩

/-- admissible weights and draw for `pf_resample_rule` -/
example : ∃ w : Fin 2 → ℝ, (∀ i, 0 < w i) ∧ ∑ i, w i = 1 ∧ (3/4 : ℝ) < 1 :=
  ⟨![1/4, 3/4], by intro i; fin_cases i <;> norm_num, by simp [Fin.sum_univ_two]; norm_num, by norm_num⟩

/-- **joint non-trivial instantiation**: two states, non-symmetric `A = [[1,1],[0,1]]`, `C = [1 0]`, `Q = 2·1`, `R = 3·1`, prior
`N(·, 1)`, sigma-point parameter `k = −3/2` (negative centre weight, `k > −n = −2`), a `pinv` and a Cholesky-type root
meeting their contracts: all hypotheses of `ukf_linear_eq_kf_chol` hold together and its conclusion applies. -/
example : ∃ (l : LinStep 2 1 1) (b : Belief 2) (pinv : Mat ℝ 1 1 → Mat ℝ 1 1)
    (msqrt : Matrix (Fin 2) (Fin 2) ℝ → Matrix (Fin 2) (Fin 2) ℝ),
    l.A ≠ l.Aᵀ ∧ l.C ≠ 0 ∧ l.okPD ∧ b.cov.PosDef ∧ -((2 : ℕ) : ℝ) < (-3 / 2 : ℝ) ∧
    (ukf pinv msqrt (-3 / 2) l.toStep ⟨b.mean, b.cov⟩).x = (l.kalman b).mean ∧
    (ukf pinv msqrt (-3 / 2) l.toStep ⟨b.mean, b.cov⟩).P = (l.kalman b).cov ∧ (l.kalman b).cov.PosDef := by
  obtain ⟨pinv, hpinv⟩ := exists_pinv 1
  obtain ⟨msqrt, hsqrt⟩ := exists_msqrt 2
  let l : LinStep 2 1 1 := ⟨!![1, 1; 0, 1], !![0; 1], !![1, 0], !![0], ![0, 0], ![0], ![1], ![2], (2 : ℝ) • 1, (3 : ℝ) • 1⟩
  have hl : l.okPD := ⟨PosDef.one.smul (by norm_num), PosDef.one.smul (by norm_num)⟩
  have hk : -((2 : ℕ) : ℝ) < (-3 / 2 : ℝ) := by norm_num
  have h := ukf_linear_eq_kf_chol pinv hpinv msqrt (fun M hM => hsqrt M hM.posSemidef) (-3 / 2) hk l hl ⟨![1, -1], 1⟩ PosDef.one
  refine ⟨l, ⟨![1, -1], 1⟩, pinv, msqrt, ?_, ?_, hl, PosDef.one, hk, h.1, h.2.1, h.2.2⟩
  · intro e
    have := congrFun (congrFun e 0) 1
    simp [l] at this
  · intro e
    have := congrFun (congrFun e 0) 0
    simp [l] at this

/-- a non-trivial object history: stored covariances `2·1`, `3·1`; calls passing exactly one of `Q`, `R`, both, none; `k`
given and defaulted (`3 − n = 1 > −2`) -/
example : ∃ (stQ : Matrix (Fin 2) (Fin 2) ℝ) (stR : Matrix (Fin 1) (Fin 1) ℝ) (calls : List (LinCall 2 1 1)),
    calls.length = 4 ∧ ∀ c ∈ calls, -((2 : ℕ) : ℝ) < resolveK 2 c.kk ∧ (c.eff stQ stR).ok := by
  let l : LinStep 2 1 1 := ⟨!![1, 1; 0, 1], !![0; 1], !![1, 0], !![0], ![0, 0], ![0], ![1], ![2], 1, 1⟩
  refine ⟨(2 : ℝ) • 1, (3 : ℝ) • 1, [⟨l, true, false, some 0.5⟩, ⟨l, false, true, none⟩, ⟨l, true, true, some (-1)⟩,
    ⟨l, false, false, none⟩], rfl, ?_⟩
  intro c hc
  simp only [List.mem_cons, List.not_mem_nil, or_false] at hc
  have hQ : ((2 : ℝ) • (1 : Matrix (Fin 2) (Fin 2) ℝ)).PosSemidef := PosSemidef.one.smul (by norm_num)
  have hR : ((3 : ℝ) • (1 : Matrix (Fin 1) (Fin 1) ℝ)).PosDef := PosDef.one.smul (by norm_num)
  rcases hc with rfl | rfl | rfl | rfl <;>
    refine ⟨by simp only [resolveK, k_real]; norm_num, ?_⟩ <;>
    simp only [LinCall.eff, LinStep.ok, l, if_true, if_false, Bool.false_eq_true] <;>
    first
      | exact ⟨PosSemidef.one, hR⟩
      | exact ⟨hQ, PosDef.one⟩
      | exact ⟨PosSemidef.one, PosDef.one⟩
      | exact ⟨hQ, hR⟩

/-- admissible data for `pf_resample_mean_var` -/
example : ∃ w : Fin 2 → ℝ, ∑ i, w i = 1 ∧ (0 : ℕ) < 3 := ⟨![1/4, 3/4], by simp [Fin.sum_univ_two]; norm_num, by norm_num⟩

/-- admissible data for `pf_weights_target_kalman`, instantiated: two states, `C = [1 0]`, `R = 3·1`, proposal `N((1,−1), 2·1)`,
three particles; the conclusion applies (so its hypotheses are jointly satisfiable with `C ≠ 0`) -/
example : ∃ (C : Matrix (Fin 1) (Fin 2) ℝ) (R : Matrix (Fin 1) (Fin 1) ℝ) (Pm : Matrix (Fin 2) (Fin 2) ℝ)
    (xp : Fin 3 → Fin 2 → ℝ), C ≠ 0 ∧ R.PosDef ∧ Pm.PosDef ∧
    let b := kfStep 1 C ![1, -1] (C *ᵥ ![1, -1] + (0 : Matrix (Fin 1) (Fin 1) ℝ) *ᵥ ![0] + ![0]) 0 R Pm ![2]
    let ρ : (Fin 2 → ℝ) → ℝ := fun z =>
      Real.exp (-(1 / 2 * ((z - b.mean) ⬝ᵥ b.cov⁻¹ *ᵥ (z - b.mean)))) /
        Real.exp (-(1 / 2 * ((z - ![1, -1]) ⬝ᵥ Pm⁻¹ *ᵥ (z - ![1, -1]))))
    ∀ i, (pfWeights (R⁻¹ : Matrix (Fin 1) (Fin 1) ℝ) 0
      ⟨⟨fun x _ => x, fun x u => C *ᵥ x + (0 : Matrix (Fin 1) (Fin 1) ℝ) *ᵥ u + ![0], fun _ _ => 1, fun _ _ => C⟩, ![0], ![2], 1, R⟩ xp).fn i
        = ρ (xp i) / ∑ j, ρ (xp j) := by
  refine ⟨!![1, 0], (3 : ℝ) • 1, (2 : ℝ) • 1, ![![0, 0], ![1, 2], ![-1, 3]], ?_, PosDef.one.smul (by norm_num),
    PosDef.one.smul (by norm_num), ?_⟩
  · intro e
    have := congrFun (congrFun e 0) 0
    simp at this
  · exact pf_weights_target_kalman 0 (fun x _ => x) (fun _ _ => 1) (fun _ _ => !![1, 0]) !![1, 0] 0 ![0] ![0] ![2] 1 _
      (PosDef.one.smul (by norm_num)) ![1, -1] _ (PosDef.one.smul (by norm_num)) _ (by norm_num)

/-- admissible data for `pf_resample_concentration` (weights `1/4, 3/4`, `ε = 1/2`, 5 draws) -/
example : ∃ (w : Fin 2 → ℝ) (ε : ℝ), (∀ i, 0 ≤ w i) ∧ ∑ i, w i = 1 ∧ 0 < ε ∧ (0 : ℕ) < 5 :=
  ⟨![1/4, 3/4], 1/2, by intro i; fin_cases i <;> norm_num, by simp [Fin.sum_univ_two]; norm_num, by norm_num, by norm_num⟩

/-- `pf_call_mean_targets_kalman` instantiated (two states, `C = [1 0] ≠ 0`, `R = 3·1`, proposal `N((1,−1), 2·1)`, `f(x,u) = 2x`,
three particles, `ε = 1/2`): its hypotheses are jointly satisfiable -/
example : True := by
  have _h := pf_call_mean_targets_kalman (N := 3) 0 (fun x (_ : Fin 1 → ℝ) => (2 : ℝ) • x) (fun _ _ => (2 : ℝ) • 1) (fun _ _ => !![1, 0])
    !![1, 0] (0 : Matrix (Fin 1) (Fin 1) ℝ) ![0] ![0] ![2] (1 : Matrix (Fin 2) (Fin 2) ℝ) ((3 : ℝ) • 1) (PosDef.one.smul (by norm_num))
    ![1, -1] ((2 : ℝ) • 1) (PosDef.one.smul (by norm_num)) ![![0, 0], ![1, 2], ![-1, 3]] (by norm_num) 0
    (show (0 : ℝ) < 1 / 2 by norm_num)
  trivial

/-- **Convergence in probability of the resampling stage, with an explicit sample size.** For every accuracy `ε > 0` and every
failure probability `δ > 0`: as soon as `N ≥ E_w[xs_a²] / (δ ε²)` particles are resampled, the probability that coordinate `a` of the
PF estimate is at least `ε` away from the weighted mean is at most `δ` (and it is a probability: `≥ 0`). -/
theorem pf_resample_converges {M n : Nat} (w : Fin M → ℝ) (hw0 : ∀ i, 0 ≤ w i) (hw : ∑ i, w i = 1)
    (xs : Fin M → Fin n → ℝ) (Q : Matrix (Fin n) (Fin n) ℝ) (a : Fin n) {ε δ : ℝ} (hε : 0 < ε) (hδ : 0 < δ) :
    let μ := ∑ i, w i * xs i a
    ∀ N : Nat, 0 < N → (∑ i, w i * xs i a ^ 2) / (δ * ε ^ 2) ≤ N →
      0 ≤ expectIdx (N := N) w (fun f => if ε ≤ |(pfMoments Q (fun j => xs (f j))).x a - μ| then 1 else 0) ∧
      expectIdx (N := N) w (fun f => if ε ≤ |(pfMoments Q (fun j => xs (f j))).x a - μ| then 1 else 0) ≤ δ := by
  intro μ N hN hbig
  have hN' : (0 : ℝ) < N := by exact_mod_cast hN
  have hc := pf_resample_concentration (N := N) w hw0 hw hN xs Q a hε
  refine ⟨?_, (hc.1.trans hc.2).trans ?_⟩
  · have h0 := expectIdx_mono (N := N) w hw0 (F := fun _ => 0)
      (G := fun f => if ε ≤ |(pfMoments Q (fun j => xs (f j))).x a - μ| then 1 else 0)
      (fun f => by split_ifs <;> norm_num)
    have z : expectIdx (N := N) w (fun _ => (0 : ℝ)) = 0 := by simp [expectIdx]
    rwa [z] at h0
  · rw [div_le_iff₀ (by positivity)] at hbig ⊢
    nlinarith [hbig]

/-- ... hence that probability tends to `0` as `N → ∞`, for every `ε > 0` (weak law of large numbers for the resampling stage) -/
theorem pf_resample_tendsto {M n : Nat} (w : Fin M → ℝ) (hw0 : ∀ i, 0 ≤ w i) (hw : ∑ i, w i = 1)
    (xs : Fin M → Fin n → ℝ) (Q : Matrix (Fin n) (Fin n) ℝ) (a : Fin n) {ε : ℝ} (hε : 0 < ε) :
    _root_.Filter.Tendsto
      (fun N : ℕ => expectIdx (N := N) w
        (fun f => if ε ≤ |(pfMoments Q (fun j => xs (f j))).x a - ∑ i, w i * xs i a| then 1 else 0))
      _root_.Filter.atTop (nhds 0) := by
  rw [Metric.tendsto_atTop]
  intro δ hδ
  have hδ2 : 0 < δ / 2 := by positivity
  refine ⟨max 1 ⌈(∑ i, w i * xs i a ^ 2) / (δ / 2 * ε ^ 2)⌉₊, fun N hN => ?_⟩
  have h1 : 0 < N := lt_of_lt_of_le Nat.one_pos ((le_max_left _ _).trans hN)
  have h2 : (∑ i, w i * xs i a ^ 2) / (δ / 2 * ε ^ 2) ≤ N :=
    (Nat.le_ceil _).trans (by exact_mod_cast (le_max_right _ _).trans hN)
  obtain ⟨h0, hle⟩ := pf_resample_converges w hw0 hw xs Q a hε hδ2 N h1 h2
  rw [Real.dist_eq, sub_zero, abs_of_nonneg h0]
  linarith

/-- admissible data for `pf_resample_converges` / `pf_resample_tendsto`, instantiated: weights `1/4, 3/4`, particles `(2), (−1)`,
`ε = 1/2`, `δ = 1/10`: `E_w[x²] = 7/4`, so `N ≥ 70` resampled particles suffice -/
example : expectIdx (N := 70) ![1/4, 3/4]
    (fun f => if (1/2 : ℝ) ≤ |(pfMoments (0 : Matrix (Fin 1) (Fin 1) ℝ) (fun j => ![![2], ![-1]] (f j))).x 0
      - ∑ i, ![1/4, 3/4] i * ![![(2 : ℝ)], ![-1]] i 0| then 1 else 0) ≤ 1/10 := by
  refine (pf_resample_converges ![1/4, 3/4] (by intro i; fin_cases i <;> norm_num) (by simp [Fin.sum_univ_two]; norm_num)
    ![![2], ![-1]] 0 0 (ε := 1/2) (δ := 1/10) (by norm_num) (by norm_num) 70 (by norm_num) ?_).2
  simp [Fin.sum_univ_two]; norm_num

end PP.Filter
