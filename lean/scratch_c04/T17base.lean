import Proofs.Lemmas.AutogradChain
import Proofs.Lemmas.AutogradLocalSO3a
import Proofs.Lemmas.AutogradLocalSE3a
import Proofs.Lemmas.AutogradLocalRxSO3a
import Proofs.Lemmas.AutogradLocalSim3a
import Proofs.Lemmas.AutogradLocalSO3b
import Proofs.Lemmas.AutogradLocalSE3b
import Proofs.Lemmas.AutogradLocalRxSO3b
import Proofs.Lemmas.AutogradLocalSim3b
set_option linter.unusedSimpArgs false
set_option linter.unusedVariables false
namespace PP.AD
open PP

/-- a curve of stored values of type `ty` that is valid at `t = 0` and moves with tangent `τ` -/
def CurveOK (ty : Ty) (γ : ℝ → DVec ℝ) (τ : DVec ℝ) : Prop :=
  match ty with
  | .G g => GTangent g γ τ ∧ UnitQ g (γ 0) ∧ ScaleNZ g (γ 0) ∧ τ.length = g.adim
  | .V n => LCurve n γ τ ∧ (∀ t, (γ t).length = n) ∧ τ.length = n

/-- offset of the quaternion block in the storage of a group element -/
def qoff (g : Grp) : Nat := match g with | .SO3 | .RxSO3 => 0 | .SE3 | .Sim3 => 3

theorem unitQ_iff (g : Grp) (X : DVec ℝ) : UnitQ g X ↔ (qt X (qoff g)).normSq = 1 := by cases g <;> rfl

theorem qt_mulF (g : Grp) (X Y : DVec ℝ) : qt (mulF g X Y) (qoff g) = (qt X (qoff g)).mul (qt Y (qoff g)) := by
  cases g <;> simp [mulF, qoff, SE3Mul, RxSO3Mul, Sim3Mul, SE3.toList, RxSO3.toList, Sim3.toList, Quat.toList, Vec3.toList,
    qt, toSE3, toRx, toSim]

theorem qt_invF (g : Grp) (X : DVec ℝ) : qt (invF g X) (qoff g) = (qt X (qoff g)).conj := by
  cases g <;> simp [invF, qoff, SE3Inv, RxSO3Inv, Sim3Inv, SE3.toList, RxSO3.toList, Sim3.toList, Quat.toList, Vec3.toList,
    qt, toSE3, toRx, toSim]

theorem unitQ_mulF (g : Grp) (X Y : DVec ℝ) (hX : UnitQ g X) (hY : UnitQ g Y) : UnitQ g (mulF g X Y) := by
  rw [unitQ_iff] at *; rw [qt_mulF, Quat.normSq_mul, hX, hY]; norm_num

theorem unitQ_invF (g : Grp) (X : DVec ℝ) (hX : UnitQ g X) : UnitQ g (invF g X) := by
  rw [unitQ_iff] at *; rw [qt_invF, Quat.normSq_conj, hX]

theorem scaleNZ_mulF (g : Grp) (X Y : DVec ℝ) (hX : ScaleNZ g X) (hY : ScaleNZ g Y) : ScaleNZ g (mulF g X Y) := by
  cases g <;> simp only [ScaleNZ] at hX hY ⊢ <;>
    simp [mulF, RxSO3Mul, Sim3Mul, RxSO3.toList, Sim3.toList, Quat.toList, Vec3.toList, toRx, toSim, hX, hY]

theorem scaleNZ_invF (g : Grp) (X : DVec ℝ) (hX : ScaleNZ g X) : ScaleNZ g (invF g X) := by
  cases g <;> simp only [ScaleNZ] at hX ⊢ <;>
    simp [invF, RxSO3Inv, Sim3Inv, RxSO3.toList, Sim3.toList, Quat.toList, Vec3.toList, toRx, toSim, hX]

/-! ## the local lemmas for lists of the right length (all groups at once) -/
theorem expand3 (l : DVec ℝ) (h : l.length = 3) : [nth l 0, nth l 1, nth l 2] = l := by
  obtain ⟨a0, a1, a2, rfl⟩ := len3 l h
  simp

theorem expand4 (l : DVec ℝ) (h : l.length = 4) : [nth l 0, nth l 1, nth l 2, nth l 3] = l := by
  obtain ⟨a0, a1, a2, a3, rfl⟩ := len4 l h
  simp

theorem expand6 (l : DVec ℝ) (h : l.length = 6) : [nth l 0, nth l 1, nth l 2, nth l 3, nth l 4, nth l 5] = l := by
  obtain ⟨a0, a1, a2, a3, a4, a5, rfl⟩ := len6 l h
  simp

theorem expand7 (l : DVec ℝ) (h : l.length = 7) : [nth l 0, nth l 1, nth l 2, nth l 3, nth l 4, nth l 5, nth l 6] = l := by
  obtain ⟨a0, a1, a2, a3, a4, a5, a6, rfl⟩ := len7 l h
  simp

theorem mul_tangent (g : Grp) (X Y : ℝ → DVec ℝ) (τx τy : DVec ℝ) (hx : τx.length = g.adim) (hy : τy.length = g.adim)
    (hX : GTangent g X τx) (hY : GTangent g Y τy) (hu : UnitQ g (X 0)) :
    GTangent g (fun t => mulF g (X t) (Y t)) (DVec.add τx ((AdjMat g (X 0)).mulVec τy)) := by
  cases g
  · obtain ⟨a0, a1, a2, rfl⟩ := len3 τx hx
    obtain ⟨b0, b1, b2, rfl⟩ := len3 τy hy
    exact mul_tangent_SO3 X Y a0 a1 a2 b0 b1 b2 hX hY hu
  · obtain ⟨a0, a1, a2, a3, a4, a5, rfl⟩ := len6 τx hx
    obtain ⟨b0, b1, b2, b3, b4, b5, rfl⟩ := len6 τy hy
    exact mul_tangent_SE3 X Y a0 a1 a2 a3 a4 a5 b0 b1 b2 b3 b4 b5 hX hY hu
  · obtain ⟨a0, a1, a2, a3, rfl⟩ := len4 τx hx
    obtain ⟨b0, b1, b2, b3, rfl⟩ := len4 τy hy
    exact mul_tangent_RxSO3 X Y a0 a1 a2 a3 b0 b1 b2 b3 hX hY hu
  · obtain ⟨a0, a1, a2, a3, a4, a5, a6, rfl⟩ := len7 τx hx
    obtain ⟨b0, b1, b2, b3, b4, b5, b6, rfl⟩ := len7 τy hy
    exact mul_tangent_Sim3 X Y a0 a1 a2 a3 a4 a5 a6 b0 b1 b2 b3 b4 b5 b6 hX hY hu

theorem inv_tangent (g : Grp) (X : ℝ → DVec ℝ) (τ : DVec ℝ) (hx : τ.length = g.adim)
    (hX : GTangent g X τ) (hu : UnitQ g (X 0)) (hs : ScaleNZ g (X 0)) :
    GTangent g (fun t => invF g (X t)) (DVec.neg ((AdjMat g (invF g (X 0))).mulVec τ)) := by
  cases g
  · obtain ⟨a0, a1, a2, rfl⟩ := len3 τ hx
    exact inv_tangent_SO3 X a0 a1 a2 hX hu
  · obtain ⟨a0, a1, a2, a3, a4, a5, rfl⟩ := len6 τ hx
    exact inv_tangent_SE3 X a0 a1 a2 a3 a4 a5 hX hu
  · obtain ⟨a0, a1, a2, a3, rfl⟩ := len4 τ hx
    exact inv_tangent_RxSO3 X a0 a1 a2 a3 hX hu hs
  · obtain ⟨a0, a1, a2, a3, a4, a5, a6, rfl⟩ := len7 τ hx
    exact inv_tangent_Sim3 X a0 a1 a2 a3 a4 a5 a6 hX hu hs

theorem act_tangent (g : Grp) (X p : ℝ → DVec ℝ) (τ dp : DVec ℝ) (hx : τ.length = g.adim) (hp' : dp.length = 3)
    (hX : GTangent g X τ) (hp : LCurve 3 p dp) (hu : UnitQ g (X 0)) :
    LCurve 3 (fun t => actF g (X t) (p t))
      (DVec.add ((ActJac g (v3 (actF g (X 0) (p 0)))).mulVec τ) (DMat.mulVec (Mat33 g (X 0)).toRows dp)) := by
  obtain ⟨b0, b1, b2, rfl⟩ := len3 dp hp'
  cases g
  · obtain ⟨a0, a1, a2, rfl⟩ := len3 τ hx
    exact act_tangent_SO3 X p a0 a1 a2 b0 b1 b2 hX hp hu
  · obtain ⟨a0, a1, a2, a3, a4, a5, rfl⟩ := len6 τ hx
    exact act_tangent_SE3 X p a0 a1 a2 a3 a4 a5 b0 b1 b2 hX hp hu
  · obtain ⟨a0, a1, a2, a3, rfl⟩ := len4 τ hx
    exact act_tangent_RxSO3 X p a0 a1 a2 a3 b0 b1 b2 hX hp hu
  · obtain ⟨a0, a1, a2, a3, a4, a5, a6, rfl⟩ := len7 τ hx
    exact act_tangent_Sim3 X p a0 a1 a2 a3 a4 a5 a6 b0 b1 b2 hX hp hu

theorem act4_tangent (g : Grp) (X p : ℝ → DVec ℝ) (τ dp : DVec ℝ) (hx : τ.length = g.adim) (hp' : dp.length = 4)
    (hX : GTangent g X τ) (hp : LCurve 4 p dp) (hu : UnitQ g (X 0)) :
    LCurve 4 (fun t => act4F g (X t) (p t))
      (DVec.add ((Act4Jac g (v3 (act4F g (X 0) (p 0))) (nth (act4F g (X 0) (p 0)) 3)).mulVec τ) ((Mat44 g (X 0)).mulVec dp)) := by
  obtain ⟨b0, b1, b2, b3, rfl⟩ := len4 dp hp'
  cases g
  · obtain ⟨a0, a1, a2, rfl⟩ := len3 τ hx
    exact act4_tangent_SO3 X p a0 a1 a2 b0 b1 b2 b3 hX hp hu
  · obtain ⟨a0, a1, a2, a3, a4, a5, rfl⟩ := len6 τ hx
    exact act4_tangent_SE3 X p a0 a1 a2 a3 a4 a5 b0 b1 b2 b3 hX hp hu
  · obtain ⟨a0, a1, a2, a3, rfl⟩ := len4 τ hx
    exact act4_tangent_RxSO3 X p a0 a1 a2 a3 b0 b1 b2 b3 hX hp hu
  · obtain ⟨a0, a1, a2, a3, a4, a5, a6, rfl⟩ := len7 τ hx
    exact act4_tangent_Sim3 X p a0 a1 a2 a3 a4 a5 a6 b0 b1 b2 b3 hX hp hu

theorem adj_tangent (g : Grp) (X a : ℝ → DVec ℝ) (τ da : DVec ℝ) (hx : τ.length = g.adim) (hd : da.length = g.adim)
    (hl : ∀ t, (a t).length = g.adim) (hX : GTangent g X τ) (ha : LCurve g.adim a da) (hu : UnitQ g (X 0)) :
    LCurve g.adim (fun t => adjF g (X t) (a t))
      (DVec.add (DVec.neg ((adMat g (adjF g (X 0) (a 0))).mulVec τ)) ((AdjMat g (X 0)).mulVec da)) := by
  cases g
  · obtain ⟨a0, a1, a2, rfl⟩ := len3 τ hx
    obtain ⟨b0, b1, b2, rfl⟩ := len3 da hd
    have e : (fun t => adjF .SO3 (X t) (a t)) = fun t => adjF .SO3 (X t) [nth (a t) 0, nth (a t) 1, nth (a t) 2] := by
      funext t; rw [expand3 (a t) (hl t)]
    have e0 : a 0 = [nth (a 0) 0, nth (a 0) 1, nth (a 0) 2] := (expand3 (a 0) (hl 0)).symm
    rw [e, e0]
    have := adj_tangent_SO3 X (fun t => nth (a t) 0) (fun t => nth (a t) 1) (fun t => nth (a t) 2) a0 a1 a2 b0 b1 b2 hX (by simpa using ha 0 (by simp [Grp.adim])) (by simpa using ha 1 (by simp [Grp.adim])) (by simpa using ha 2 (by simp [Grp.adim])) hu
    exact this
  · obtain ⟨a0, a1, a2, a3, a4, a5, rfl⟩ := len6 τ hx
    obtain ⟨b0, b1, b2, b3, b4, b5, rfl⟩ := len6 da hd
    have e : (fun t => adjF .SE3 (X t) (a t)) = fun t => adjF .SE3 (X t) [nth (a t) 0, nth (a t) 1, nth (a t) 2, nth (a t) 3, nth (a t) 4, nth (a t) 5] := by
      funext t; rw [expand6 (a t) (hl t)]
    have e0 : a 0 = [nth (a 0) 0, nth (a 0) 1, nth (a 0) 2, nth (a 0) 3, nth (a 0) 4, nth (a 0) 5] := (expand6 (a 0) (hl 0)).symm
    rw [e, e0]
    have := adj_tangent_SE3 X (fun t => nth (a t) 0) (fun t => nth (a t) 1) (fun t => nth (a t) 2) (fun t => nth (a t) 3) (fun t => nth (a t) 4) (fun t => nth (a t) 5) a0 a1 a2 a3 a4 a5 b0 b1 b2 b3 b4 b5 hX (by simpa using ha 0 (by simp [Grp.adim])) (by simpa using ha 1 (by simp [Grp.adim])) (by simpa using ha 2 (by simp [Grp.adim])) (by simpa using ha 3 (by simp [Grp.adim])) (by simpa using ha 4 (by simp [Grp.adim])) (by simpa using ha 5 (by simp [Grp.adim])) hu
    exact this
  · obtain ⟨a0, a1, a2, a3, rfl⟩ := len4 τ hx
    obtain ⟨b0, b1, b2, b3, rfl⟩ := len4 da hd
    have e : (fun t => adjF .RxSO3 (X t) (a t)) = fun t => adjF .RxSO3 (X t) [nth (a t) 0, nth (a t) 1, nth (a t) 2, nth (a t) 3] := by
      funext t; rw [expand4 (a t) (hl t)]
    have e0 : a 0 = [nth (a 0) 0, nth (a 0) 1, nth (a 0) 2, nth (a 0) 3] := (expand4 (a 0) (hl 0)).symm
    rw [e, e0]
    have := adj_tangent_RxSO3 X (fun t => nth (a t) 0) (fun t => nth (a t) 1) (fun t => nth (a t) 2) (fun t => nth (a t) 3) a0 a1 a2 a3 b0 b1 b2 b3 hX (by simpa using ha 0 (by simp [Grp.adim])) (by simpa using ha 1 (by simp [Grp.adim])) (by simpa using ha 2 (by simp [Grp.adim])) (by simpa using ha 3 (by simp [Grp.adim])) hu
    exact this
  · obtain ⟨a0, a1, a2, a3, a4, a5, a6, rfl⟩ := len7 τ hx
    obtain ⟨b0, b1, b2, b3, b4, b5, b6, rfl⟩ := len7 da hd
    have e : (fun t => adjF .Sim3 (X t) (a t)) = fun t => adjF .Sim3 (X t) [nth (a t) 0, nth (a t) 1, nth (a t) 2, nth (a t) 3, nth (a t) 4, nth (a t) 5, nth (a t) 6] := by
      funext t; rw [expand7 (a t) (hl t)]
    have e0 : a 0 = [nth (a 0) 0, nth (a 0) 1, nth (a 0) 2, nth (a 0) 3, nth (a 0) 4, nth (a 0) 5, nth (a 0) 6] := (expand7 (a 0) (hl 0)).symm
    rw [e, e0]
    have := adj_tangent_Sim3 X (fun t => nth (a t) 0) (fun t => nth (a t) 1) (fun t => nth (a t) 2) (fun t => nth (a t) 3) (fun t => nth (a t) 4) (fun t => nth (a t) 5) (fun t => nth (a t) 6) a0 a1 a2 a3 a4 a5 a6 b0 b1 b2 b3 b4 b5 b6 hX (by simpa using ha 0 (by simp [Grp.adim])) (by simpa using ha 1 (by simp [Grp.adim])) (by simpa using ha 2 (by simp [Grp.adim])) (by simpa using ha 3 (by simp [Grp.adim])) (by simpa using ha 4 (by simp [Grp.adim])) (by simpa using ha 5 (by simp [Grp.adim])) (by simpa using ha 6 (by simp [Grp.adim])) hu
    exact this

theorem adjT_tangent (g : Grp) (X a : ℝ → DVec ℝ) (τ da : DVec ℝ) (hx : τ.length = g.adim) (hd : da.length = g.adim)
    (hl : ∀ t, (a t).length = g.adim) (hX : GTangent g X τ) (ha : LCurve g.adim a da) (hu : UnitQ g (X 0)) (hs : ScaleNZ g (X 0)) :
    LCurve g.adim (fun t => adjTF g (X t) (a t))
      (DVec.add ((AdjMat g (invF g (X 0))).mulVec ((adMat g (a 0)).mulVec τ)) ((AdjMat g (invF g (X 0))).mulVec da)) := by
  cases g
  · obtain ⟨a0, a1, a2, rfl⟩ := len3 τ hx
    obtain ⟨b0, b1, b2, rfl⟩ := len3 da hd
    have e : (fun t => adjTF .SO3 (X t) (a t)) = fun t => adjTF .SO3 (X t) [nth (a t) 0, nth (a t) 1, nth (a t) 2] := by
      funext t; rw [expand3 (a t) (hl t)]
    have e0 : a 0 = [nth (a 0) 0, nth (a 0) 1, nth (a 0) 2] := (expand3 (a 0) (hl 0)).symm
    rw [e, e0]
    have := adjT_tangent_SO3 X (fun t => nth (a t) 0) (fun t => nth (a t) 1) (fun t => nth (a t) 2) a0 a1 a2 b0 b1 b2 hX (by simpa using ha 0 (by simp [Grp.adim])) (by simpa using ha 1 (by simp [Grp.adim])) (by simpa using ha 2 (by simp [Grp.adim])) hu
    exact this
  · obtain ⟨a0, a1, a2, a3, a4, a5, rfl⟩ := len6 τ hx
    obtain ⟨b0, b1, b2, b3, b4, b5, rfl⟩ := len6 da hd
    have e : (fun t => adjTF .SE3 (X t) (a t)) = fun t => adjTF .SE3 (X t) [nth (a t) 0, nth (a t) 1, nth (a t) 2, nth (a t) 3, nth (a t) 4, nth (a t) 5] := by
      funext t; rw [expand6 (a t) (hl t)]
    have e0 : a 0 = [nth (a 0) 0, nth (a 0) 1, nth (a 0) 2, nth (a 0) 3, nth (a 0) 4, nth (a 0) 5] := (expand6 (a 0) (hl 0)).symm
    rw [e, e0]
    have := adjT_tangent_SE3 X (fun t => nth (a t) 0) (fun t => nth (a t) 1) (fun t => nth (a t) 2) (fun t => nth (a t) 3) (fun t => nth (a t) 4) (fun t => nth (a t) 5) a0 a1 a2 a3 a4 a5 b0 b1 b2 b3 b4 b5 hX (by simpa using ha 0 (by simp [Grp.adim])) (by simpa using ha 1 (by simp [Grp.adim])) (by simpa using ha 2 (by simp [Grp.adim])) (by simpa using ha 3 (by simp [Grp.adim])) (by simpa using ha 4 (by simp [Grp.adim])) (by simpa using ha 5 (by simp [Grp.adim])) hu
    exact this
  · obtain ⟨a0, a1, a2, a3, rfl⟩ := len4 τ hx
    obtain ⟨b0, b1, b2, b3, rfl⟩ := len4 da hd
    have e : (fun t => adjTF .RxSO3 (X t) (a t)) = fun t => adjTF .RxSO3 (X t) [nth (a t) 0, nth (a t) 1, nth (a t) 2, nth (a t) 3] := by
      funext t; rw [expand4 (a t) (hl t)]
    have e0 : a 0 = [nth (a 0) 0, nth (a 0) 1, nth (a 0) 2, nth (a 0) 3] := (expand4 (a 0) (hl 0)).symm
    rw [e, e0]
    have := adjT_tangent_RxSO3 X (fun t => nth (a t) 0) (fun t => nth (a t) 1) (fun t => nth (a t) 2) (fun t => nth (a t) 3) a0 a1 a2 a3 b0 b1 b2 b3 hX (by simpa using ha 0 (by simp [Grp.adim])) (by simpa using ha 1 (by simp [Grp.adim])) (by simpa using ha 2 (by simp [Grp.adim])) (by simpa using ha 3 (by simp [Grp.adim])) hu hs
    exact this
  · obtain ⟨a0, a1, a2, a3, a4, a5, a6, rfl⟩ := len7 τ hx
    obtain ⟨b0, b1, b2, b3, b4, b5, b6, rfl⟩ := len7 da hd
    have e : (fun t => adjTF .Sim3 (X t) (a t)) = fun t => adjTF .Sim3 (X t) [nth (a t) 0, nth (a t) 1, nth (a t) 2, nth (a t) 3, nth (a t) 4, nth (a t) 5, nth (a t) 6] := by
      funext t; rw [expand7 (a t) (hl t)]
    have e0 : a 0 = [nth (a 0) 0, nth (a 0) 1, nth (a 0) 2, nth (a 0) 3, nth (a 0) 4, nth (a 0) 5, nth (a 0) 6] := (expand7 (a 0) (hl 0)).symm
    rw [e, e0]
    have := adjT_tangent_Sim3 X (fun t => nth (a t) 0) (fun t => nth (a t) 1) (fun t => nth (a t) 2) (fun t => nth (a t) 3) (fun t => nth (a t) 4) (fun t => nth (a t) 5) (fun t => nth (a t) 6) a0 a1 a2 a3 a4 a5 a6 b0 b1 b2 b3 b4 b5 b6 hX (by simpa using ha 0 (by simp [Grp.adim])) (by simpa using ha 1 (by simp [Grp.adim])) (by simpa using ha 2 (by simp [Grp.adim])) (by simpa using ha 3 (by simp [Grp.adim])) (by simpa using ha 4 (by simp [Grp.adim])) (by simpa using ha 5 (by simp [Grp.adim])) (by simpa using ha 6 (by simp [Grp.adim])) hu hs
    exact this

theorem matrix_tangent (g : Grp) (X : ℝ → DVec ℝ) (τ : DVec ℝ) (hx : τ.length = g.adim)
    (hX : GTangent g X τ) (hu : UnitQ g (X 0)) :
    LCurve (matN g) (fun t => matrixF g (X t)) (matrixT g (X 0) τ) := by
  cases g
  · obtain ⟨a0, a1, a2, rfl⟩ := len3 τ hx
    exact matrix_tangent_SO3 X a0 a1 a2 hX hu
  · obtain ⟨a0, a1, a2, a3, a4, a5, rfl⟩ := len6 τ hx
    exact matrix_tangent_SE3 X a0 a1 a2 a3 a4 a5 hX hu
  · obtain ⟨a0, a1, a2, a3, rfl⟩ := len4 τ hx
    exact matrix_tangent_RxSO3 X a0 a1 a2 a3 hX hu
  · obtain ⟨a0, a1, a2, a3, a4, a5, a6, rfl⟩ := len7 τ hx
    exact matrix_tangent_Sim3 X a0 a1 a2 a3 a4 a5 a6 hX hu

end PP.AD
