import Proofs.Lemmas.Quat
import Pose.Model.Autograd
import Mathlib.Analysis.Calculus.Deriv.Mul
import Mathlib.Analysis.Calculus.Deriv.Add
import Mathlib.Tactic.FunProp
import Mathlib.Tactic.IntervalCases
open PP PP.AD

namespace PP.AD
noncomputable def liftQ (q : Quat ℝ) (φ : Vec3 ℝ) : Quat ℝ := (Quat.mk' (φ.smul (1/2)) 0).mul q

noncomputable def liftG (g : Grp) (X τ : DVec ℝ) : DVec ℝ :=
  match g with
  | .SO3 => (liftQ (qt X) (v3 τ)).toList
  | .SE3 => ((v3 τ).add ((v3 τ 3).cross (v3 X))).toList ++ (liftQ (qt X 3) (v3 τ 3)).toList
  | .RxSO3 => (liftQ (qt X) (v3 τ)).toList ++ [nth τ 3 * nth X 4]
  | .Sim3 => (((v3 τ).add ((v3 τ 3).cross (v3 X))).add ((v3 X).smul (nth τ 6))).toList ++
      (liftQ (qt X 3) (v3 τ 3)).toList ++ [nth τ 6 * nth X 7]

def LCurve (n : Nat) (γ : ℝ → DVec ℝ) (d : DVec ℝ) : Prop :=
  ∀ i, i < n → HasDerivAt (fun t => nth (γ t) i) (nth d i) 0

@[simp] theorem nth_nil (i : Nat) : nth ([] : DVec ℝ) i = 0 := by simp [nth, k, Scalar.ofNat]
@[simp] theorem nth_cons_zero (a : ℝ) (l : DVec ℝ) : nth (a :: l) 0 = a := by simp [nth]
@[simp] theorem nth_cons_succ (a : ℝ) (l : DVec ℝ) (i : Nat) : nth (a :: l) (i+1) = nth l i := by simp [nth]

theorem mul_SE3 (X Y : ℝ → DVec ℝ) (x y : ℝ) (a b c d e f a' b' c' d' e' f' : ℝ)
    (hX : LCurve 7 X (liftG .SE3 (X 0) [a,b,c,d,e,f])) (hY : LCurve 7 Y (liftG .SE3 (Y 0) [a',b',c',d',e',f']))
    (hu : (qt (X 0) 3).normSq = 1) :
    LCurve 7 (fun t => mulF .SE3 (X t) (Y t))
      (liftG .SE3 (mulF .SE3 (X 0) (Y 0)) (DVec.add [a,b,c,d,e,f] ((AdjMat .SE3 (X 0)).mulVec [a',b',c',d',e',f']))) := by
  have h0 := hX 0 (by norm_num); have h1 := hX 1 (by norm_num); have h2 := hX 2 (by norm_num)
  have h3 := hX 3 (by norm_num); have h4 := hX 4 (by norm_num); have h5 := hX 5 (by norm_num); have h6 := hX 6 (by norm_num)
  have k0 := hY 0 (by norm_num); have k1 := hY 1 (by norm_num); have k2 := hY 2 (by norm_num)
  have k3 := hY 3 (by norm_num); have k4 := hY 4 (by norm_num); have k5 := hY 5 (by norm_num); have k6 := hY 6 (by norm_num)
  have d0 := h0.differentiableAt; have d1 := h1.differentiableAt; have d2 := h2.differentiableAt
  have d3 := h3.differentiableAt; have d4 := h4.differentiableAt; have d5 := h5.differentiableAt; have d6 := h6.differentiableAt
  have e0 := k0.differentiableAt; have e1 := k1.differentiableAt; have e2 := k2.differentiableAt
  have e3 := k3.differentiableAt; have e4 := k4.differentiableAt; have e5 := k5.differentiableAt; have e6 := k6.differentiableAt
  have hu' : nth (X 0) 3 * nth (X 0) 3 + nth (X 0) 4 * nth (X 0) 4 + nth (X 0) 5 * nth (X 0) 5 + nth (X 0) 6 * nth (X 0) 6 = 1 := hu
  intro i hi
  interval_cases i
  all_goals
    simp only [mulF, SE3Mul, SE3.toList, toSE3, v3, qt, Quat.mul, Quat.act, Quat.vec, Quat.toList, Vec3.toList,
      Vec3.add, Vec3.cross, Vec3.smul, List.cons_append, List.nil_append, nth_cons_zero, nth_cons_succ]
    refine HasDerivAt.congr_deriv (DifferentiableAt.hasDerivAt (by fun_prop)) ?_
    simp (disch := fun_prop) only [deriv_fun_add, deriv_fun_sub, deriv_fun_mul, h0.deriv, h1.deriv, h2.deriv, h3.deriv,
      h4.deriv, h5.deriv, h6.deriv, k0.deriv, k1.deriv, k2.deriv, k3.deriv, k4.deriv, k5.deriv, k6.deriv]
    simp only [liftG, liftQ, AdjMat, SE3Adj, SO3Mat, DMat.block, DMat.hcat, DMat.vcat, DMat.zero, DVec.zero, DMat.mulVec,
      DVec.dot, DVec.sum, DVec.add, Mat3.toRows, toSE3, v3, qt,
      List.map, List.zipWith, List.foldl, List.replicate, Vec3.toList, Quat.toList, List.cons_append, List.nil_append,
      nth_cons_zero, nth_cons_succ]
    lie_unfold
    grind
#print axioms mul_SE3
