import Proofs.Lemmas.AutogradSemantic
import Proofs.Lemmas.AutogradLog
import Proofs.Lemmas.AutogradZero
set_option linter.unusedSimpArgs false
set_option linter.unusedVariables false
namespace PP.AD
open PP

/-- local correctness of an `SO3` `Log` node in regime 1, in the form needed by `TransSpec` -/
theorem so3_Log_nodeOK (dJ : DJ ℝ) (eps : ℝ) (heps : 0 ≤ eps) (lt : List Ty) (env : ℝ → List (DVec ℝ)) (tan : List (DVec ℝ))
    (p : Prog) (hp : NodeOK dJ eps lt env tan p)
    (hv : eps < (qt (eval eps (env 0) p)).vec.norm) (hw : eps < |(qt (eval eps (env 0) p)).w|)
    (hφ : eps < (v3 (logF .SO3 eps (eval eps (env 0) p))).norm) :
    NodeOK dJ eps lt env tan (.un .Log .SO3 p) := by
  intro ty hty
  simp only [tyOf] at hty
  cases hpt : tyOf lt p with
  | none => simp [hpt] at hty
  | some t =>
    simp only [hpt, Option.bind_some, ty1] at hty
    split at hty <;> simp at hty
    rename_i ht; subst ht; subst hty
    obtain ⟨hX, hu, hs, hτ⟩ := curveOK_G.mp (hp _ hpt)
    obtain ⟨a0, a1, a2, ha⟩ := len3 _ hτ
    refine curveOK_V.mpr ⟨?_, ?_, ?_⟩
    · have := SO3Log_tangent eps heps (fun s => eval eps (env s) p) a0 a1 a2 (by rw [← ha]; exact hX) hu hv hw hφ
      simp only [tangent, jvp1, ha]
      exact this
    · intro t; simp only [eval, fwd1]; exact length_logF .SO3 eps _
    · simp only [tangent, jvp1, length_mulVec _ (Shape_JlInvMat .SO3 eps _)]

/-- **the true retraction has the tangent `liftG` describes** (`SO3`): `t ↦ so3_Exp(t·τ) @ X` — the curve along which
`X.grad` is defined — is a curve through `X` with left-perturbation tangent `τ`. -/
theorem retr_tangent_SO3 (eps : ℝ) (heps : 0 < eps) (X τ : DVec ℝ) (hX : X.length = 4) (hτ : τ.length = 3) :
    GTangent .SO3 (fun t => retrF .SO3 eps X [t * nth τ 0, t * nth τ 1, t * nth τ 2]) τ := by
  obtain ⟨a0, a1, a2, rfl⟩ := len3 τ hτ
  simp only [nth_cons_zero, nth_cons_succ]
  -- the algebra curve t ↦ t·τ through 0
  have hx : LCurve 3 (fun t : ℝ => [t * a0, t * a1, t * a2]) [a0, a1, a2] := by
    intro i hi
    interval_cases i
    · simpa using (hasDerivAt_id (0:ℝ)).mul_const a0
    · simpa using (hasDerivAt_id (0:ℝ)).mul_const a1
    · simpa using (hasDerivAt_id (0:ℝ)).mul_const a2
  have hE := so3Exp_tangent_zero eps heps (fun t : ℝ => [t * a0, t * a1, t * a2]) a0 a1 a2 hx (by simp [v3])
  -- Jl(0) = 1, Exp(0) = identity
  have hJ : (JlMat .SO3 eps ((fun t : ℝ => [t * a0, t * a1, t * a2]) 0)).mulVec [a0, a1, a2] = [a0, a1, a2] := by
    have h0 : ((fun t : ℝ => [t * a0, t * a1, t * a2]) 0) = DVec.zero (Grp.SO3).adim := by simp [DVec.zero, Grp.adim]
    rw [h0, JlMat_zero .SO3 eps (le_of_lt heps)]
    simp [DMat.one, DMat.mulVec, DVec.basis, Grp.adim, List.range, List.range.loop, ddot_cons]
  rw [hJ] at hE
  -- the constant curve X with zero tangent
  have hY : LCurve 4 (fun _ : ℝ => X) (liftG .SO3 X [0, 0, 0]) := by
    intro i hi
    have : nth (liftG .SO3 X [0, 0, 0]) i = 0 := by
      interval_cases i <;> simp [liftG, liftQ, Quat.toList, Quat.mul, Quat.mk', Vec3.smul, v3]
    rw [this]; exact hasDerivAt_const _ _
  have hval : expF .SO3 eps ((fun t : ℝ => [t * a0, t * a1, t * a2]) 0) = [0, 0, 0, 1] := by
    have h : ¬ eps < (v3 ([0 * a0, 0 * a1, 0 * a2] : DVec ℝ)).norm := by
      simp [v3, Vec3.norm, Vec3.normSq]; exact le_of_lt heps
    simp only [expF, so3Exp_taylor eps _ h]
    simp [Quat.mk', Vec3.smul, Quat.toList, Vec3.normSq, v3]
  have hu : (qt (expF .SO3 eps ((fun t : ℝ => [t * a0, t * a1, t * a2]) 0)) 0).normSq = 1 := by
    rw [hval]; simp [qt, Quat.normSq]
  have := mul_tangent_SO3 (fun t => expF .SO3 eps [t * a0, t * a1, t * a2]) (fun _ => X) a0 a1 a2 0 0 0 hE hY hu
  unfold GTangent retrF
  have e : DVec.add [a0, a1, a2] ((AdjMat .SO3 ((fun t => expF .SO3 eps [t * a0, t * a1, t * a2]) 0)).mulVec [0, 0, 0]) = [a0, a1, a2] := by
    simp [DVec.add, DMat.mulVec, AdjMat, Mat3.toRows, Vec3.toList, ddot_cons]
  rw [e] at this
  exact this
end PP.AD
