import Pose.Wire
import Pose.Model.Scan
import Pose.Model.ScanMem
import Pose.Model.Lie
/-! Driver ops for C12 (cumulative products). -/
namespace PP.Driver
open PP Wire Scan ScanMem

structure M2 where
  a : Nat
  b : Nat
  c : Nat
  d : Nat
deriving Inhabited

def M2.mulMod (p : Nat) (x y : M2) : M2 :=
  ⟨(x.a * y.a + x.b * y.c) % p, (x.a * y.b + x.b * y.d) % p,
   (x.c * y.a + x.d * y.c) % p, (x.c * y.b + x.d * y.d) % p⟩

def M2.hadMod (p : Nat) (x y : M2) : M2 := ⟨(x.a * y.a) % p, (x.b * y.b) % p, (x.c * y.c) % p, (x.d * y.d) % p⟩

def chunk4 : List Nat → List M2
  | a :: b :: c :: d :: rest => ⟨a, b, c, d⟩ :: chunk4 rest
  | _ => []

def groupN (n : Nat) (xs : List β) : List (List β) :=
  if h : n = 0 ∨ xs.length < n then [] else
    xs.take n :: groupN n (xs.drop n)
termination_by xs.length
decreasing_by simp [List.length_drop]; omega

instance : Inhabited (Quat BigF) := ⟨Quat.one⟩

def lieOfList (ty : String) (xs : List BigF) : Option (List BigF → List BigF → List BigF) :=
  let g := fun (i : Nat) => xs.getD i BigF.zero
  let _ := g
  match ty with
  | "SO3" => some fun x y =>
      let f := fun (l : List BigF) => (⟨l.getD 0 default, l.getD 1 default, l.getD 2 default, l.getD 3 default⟩ : Quat BigF)
      ((f x).mul (f y)).toList
  | "SE3" => some fun x y =>
      let f := fun (l : List BigF) => (⟨⟨l.getD 0 default, l.getD 1 default, l.getD 2 default⟩,
        ⟨l.getD 3 default, l.getD 4 default, l.getD 5 default, l.getD 6 default⟩⟩ : SE3 BigF)
      (SE3Mul (f x) (f y)).toList
  | "RxSO3" => some fun x y =>
      let f := fun (l : List BigF) => (⟨⟨l.getD 0 default, l.getD 1 default, l.getD 2 default, l.getD 3 default⟩,
        l.getD 4 default⟩ : RxSO3 BigF)
      (RxSO3Mul (f x) (f y)).toList
  | "Sim3" => some fun x y =>
      let f := fun (l : List BigF) => (⟨⟨l.getD 0 default, l.getD 1 default, l.getD 2 default⟩,
        ⟨l.getD 3 default, l.getD 4 default, l.getD 5 default, l.getD 6 default⟩, l.getD 7 default⟩ : Sim3 BigF)
      (Sim3Mul (f x) (f y)).toList
  | _ => none

def lieDim (ty : String) : Nat :=
  match ty with | "SO3" => 4 | "SE3" => 7 | "RxSO3" => 5 | "Sim3" => 8 | _ => 0

def opsC12 : List (String × Handler) := [
  -- scan.strides L
  ("scan.strides", fun ts => do
      match ts with
      | [l] => let L ← nat l; return fmtNats (strides L)
      | _ => throw "arity"),
  -- scan.mat2 p left(0/1) a b c d a b c d …      (2×2 matrices over Z/p, row-major)
  ("scan.mat2", fun ts => do
      match ts with
      | p :: left :: rest =>
        let p ← nat p; let left ← nat left
        let xs ← nats rest
        let ms := chunk4 xs
        let out := runList (M2.mulMod p) ms (left == 1)
        return fmtNats (out.flatMap fun m => [m.a, m.b, m.c, m.d])
      | _ => throw "arity"),
  -- scan.lie <SO3|SE3|RxSO3|Sim3> left nums…   (group product over BigF, items concatenated)
  ("scan.lie", fun ts => do
      match ts with
      | ty :: left :: rest =>
        let left ← nat left
        let xs ← nums rest
        match lieOfList ty xs with
        | none => throw "bad-type"
        | some mulf =>
          let items := groupN (lieDim ty) xs
          let out := runList mulf items (left == 1)
          return fmt out.flatten
      | _ => throw "arity"),
  -- scan.mem p left inplace base dim rank shape… strides… a b c d …   (storage cells = 2×2 matrices over Z/p)
  -- reply: overlap(0/1) then, in place: the whole storage after the call; out of place: the whole
  -- storage followed by the returned (contiguous, fibre-major) tensor
  ("scan.mem", fun ts => do
      match ts with
      | p :: left :: inplace :: base :: dim :: rank :: rest =>
        let p ← nat p; let left ← nat left; let inplace ← nat inplace
        let base ← nat base; let dim ← nat dim; let rank ← nat rank
        let xs ← nats rest
        if xs.length < 2 * rank ∨ dim ≥ rank then throw "arity"
        let shape := xs.take rank
        let strd := (xs.drop rank).take rank
        let cells := (chunk4 (xs.drop (2 * rank))).toArray
        let w := mkView shape strd dim base
        if w.pairs.any (fun q => w.addr q.1 q.2 ≥ cells.size) then throw "out-of-bounds"
        let o := if left == 1 then (fun a b => M2.mulMod p b a) else M2.mulMod p
        let ov := if w.nonOverlapB then 0 else 1
        if inplace == 1 then
          if ov == 1 then throw "overlap"
          let out := scanBuf o w cells
          return fmtNats (ov :: out.toList.flatMap fun m => [m.a, m.b, m.c, m.d])
        else
          let out := scanOutBuf o w cells
          return fmtNats (ov :: out.toList.flatMap fun m => [m.a, m.b, m.c, m.d])
      | _ => throw "arity"),
  -- scan.api <cummul|cumprod> <0|1|none> p a b c d …   (a wrapper call on one fibre of 2×2 matrices over Z/p:
  --   `*` = element-wise product, `@` = matrix product; `none` = the `left` argument omitted)
  ("scan.api", fun ts => do
      match ts with
      | api :: left :: p :: rest =>
        let api ← (match api with | "cummul" => pure Api.cummul | "cumprod" => pure Api.cumprod | _ => throw "bad-api")
        let left ← (match left with | "none" => pure none | "0" => pure (some false) | "1" => pure (some true) | _ => throw "bad-left")
        let p ← nat p
        let ms := chunk4 (← nats rest)
        let out := runApi (M2.hadMod p) (M2.mulMod p) api left ms
        return fmtNats (out.flatMap fun m => [m.a, m.b, m.c, m.d])
      | _ => throw "arity"),
  -- scan.addrs base dim rank shape… strides…  → F L then the address of every element, fibre-major
  ("scan.addrs", fun ts => do
      match ts with
      | base :: dim :: rank :: rest =>
        let base ← nat base; let dim ← nat dim; let rank ← nat rank
        let xs ← nats rest
        if xs.length < 2 * rank ∨ dim ≥ rank then throw "arity"
        let w := mkView (xs.take rank) ((xs.drop rank).take rank) dim base
        return fmtNats (w.F :: w.L :: w.pairs.map fun q => w.addr q.1 q.2)
      | _ => throw "arity")
]
end PP.Driver
