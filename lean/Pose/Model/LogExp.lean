import Pose.Model.Lie
/-!
# C02 — compositions of `Log` and `Exp`, regime classifiers

The single maps (`so3Exp`, `SO3Log`, `so3JlInv`, `rxso3Ws`, `SE3Log`, …) live in `Pose/Model/Lie.lean`
and follow `pypose/lietensor/operation.py`.  This file only adds what property C02 talks about:

* the round trips `Exp ∘ Log` (group → group) and `Log ∘ Exp` (algebra → algebra), exactly as the user
  obtains them by `X.Log().Exp()` / `x.Exp().Log()`;
* "the element with the negated quaternion" (`negQ`) and `Log` of it, `Log` of the inverse;
* classifiers of the branch that `SO3_Log.forward` / `rxso3_Ws` take (used for coverage accounting and for
  deciding where the harness must accept either neighbouring branch).
-/
namespace PP

variable {α : Type} [Scalar α]

/-! ## regime classifiers -/

/-- branch of `SO3_Log.forward`: `1` = `2·atan(‖v‖/w)/‖v‖`, `2` = `pm(w)·π/‖v‖` (`|w| ≤ eps`),
`3` = series (`‖v‖ ≤ eps`). -/
def so3LogRegime (eps : α) (p : Quat α) : Nat :=
  if Scalar.lt eps p.vec.norm then (if Scalar.lt eps (sabs p.w) then 1 else 2) else 3

/-- branch of `rxso3_Ws`: `condition1..4` of the code. -/
def rxso3WsRegime (eps : α) (th sigma : α) : Nat :=
  let sl := Scalar.lt eps (sabs sigma)
  let tl := Scalar.lt eps th
  if !sl && !tl then 1 else if !sl && tl then 2 else if sl && !tl then 3 else 4

/-! ## the element with the negated quaternion (same transformation) -/

def SO3negQ (X : Quat α) : Quat α := X.neg
def SE3negQ (X : SE3 α) : SE3 α := ⟨X.t, X.q.neg⟩
def RxSO3negQ (X : RxSO3 α) : RxSO3 α := ⟨X.q.neg, X.s⟩
def Sim3negQ (X : Sim3 α) : Sim3 α := ⟨X.t, X.q.neg, X.s⟩

/-! ## negation in the algebras (`LieType.Inv` on a manifold type is `-x`) -/

def se3.neg (x : se3 α) : se3 α := ⟨x.tau.neg, x.phi.neg⟩
def rxso3.neg (x : rxso3 α) : rxso3 α := ⟨x.phi.neg, -x.sigma⟩
def sim3.neg (x : sim3 α) : sim3 α := ⟨x.tau.neg, x.phi.neg, -x.sigma⟩

/-! ## round trips -/

def SO3ExpLog (eps : α) (X : Quat α) : Quat α := so3Exp eps (SO3Log eps X)
def SE3ExpLog (eps : α) (X : SE3 α) : SE3 α := se3Exp eps (SE3Log eps X)
def RxSO3ExpLog (eps : α) (X : RxSO3 α) : RxSO3 α := rxso3Exp eps (RxSO3Log eps X)
def Sim3ExpLog (eps : α) (X : Sim3 α) : Sim3 α := sim3Exp eps (Sim3Log eps X)

def so3LogExp (eps : α) (x : Vec3 α) : Vec3 α := SO3Log eps (so3Exp eps x)
def se3LogExp (eps : α) (x : se3 α) : se3 α := SE3Log eps (se3Exp eps x)
def rxso3LogExp (eps : α) (x : rxso3 α) : rxso3 α := RxSO3Log eps (rxso3Exp eps x)
def sim3LogExp (eps : α) (x : sim3 α) : sim3 α := Sim3Log eps (sim3Exp eps x)

/-! ## `Log` of the negated-quaternion element and of the inverse -/

def SO3LogNeg (eps : α) (X : Quat α) : Vec3 α := SO3Log eps (SO3negQ X)
def SE3LogNeg (eps : α) (X : SE3 α) : se3 α := SE3Log eps (SE3negQ X)
def RxSO3LogNeg (eps : α) (X : RxSO3 α) : rxso3 α := RxSO3Log eps (RxSO3negQ X)
def Sim3LogNeg (eps : α) (X : Sim3 α) : sim3 α := Sim3Log eps (Sim3negQ X)

def SO3LogInv (eps : α) (X : Quat α) : Vec3 α := SO3Log eps X.conj
def SE3LogInv (eps : α) (X : SE3 α) : se3 α := SE3Log eps (SE3Inv X)
def RxSO3LogInv (eps : α) (X : RxSO3 α) : rxso3 α := RxSO3Log eps (RxSO3Inv X)
def Sim3LogInv (eps : α) (X : Sim3 α) : sim3 α := Sim3Log eps (Sim3Inv X)

/-- determinant of the coupling matrix that `Sim3_Log.forward` inverts (guard of the adjugate formula) -/
def sim3LogDet (eps : α) (X : Sim3 α) : α := (rxso3Ws eps (RxSO3Log eps ⟨X.q, X.s⟩)).det

end PP
