import Proofs.Lemmas.ImuDefect
/-!
# C16 — glue lemmas (moved out of `Props/C16.lean` after the audit)

Statements that restate a definition of the model, or unfold a wrapper into the core it wraps.  They are kept because the
harness and the notes refer to them, but they are not counted as property theorems:
* `_check` / rank lifting: `forwardItem` is DEFINED as lift-then-call, so `rank_lift_equiv`, `rank_equiv_H/FH` are consequences
  of the definition — the rank clause of C16 is carried by the harness (bit-identical results of rank-1/2/3 calls on the real
  code, and the `shape` stream tying `_check` to `checkShape`);
* error-path histories `callE` / `runReqs`: atomicity is how `callE` is defined (the code commits after every stage) — the
  clause is carried by the `atomic` oracle on the real code;
* argument resolution `resolveCov` / `resolveInit` / `forwardArgs`: unfoldings; tied to the code by the `imu.hist2` stream;
* gravity: algebra of `removeG`.
-/
namespace PP.Imu
open PP M9 Matrix Vec3 Quat

/-- zero gravity: the (supplied or integrated) rotation plays no role in the acceleration -/
theorem zero_gravity (R0 Rnext : Quat ℝ) (f : Frame ℝ) : removeG Vec3.zero R0 Rnext f = f.acc := by
  unfold removeG
  cases f.rot <;> simp only [Quat.act_zero] <;> (ext <;> lie_unfold <;> ring)

/-- a supplied rotation makes the acceleration independent of the initial rotation and of the integrated one -/
theorem known_rot_accel (g : Vec3 ℝ) (R0 R0' Rn Rn' : Quat ℝ) (f : Frame ℝ) (r : Quat ℝ) (h : f.rot = some r) :
    removeG g R0 Rn f = removeG g R0' Rn' f := by
  unfold removeG; rw [h]

theorem checkShape_idem (s : List Nat) : checkShape (checkShape s) = checkShape s := by
  match s with
  | [] => rfl
  | [_] => rfl
  | [_, _] => rfl
  | _ :: _ :: _ :: _ => rfl

theorem length_checkShape (s : List Nat) (h1 : 0 < s.length) (h3 : s.length ≤ 3) : (checkShape s).length = 3 := by
  match s with
  | [] => simp at h1
  | [_] => rfl
  | [_, _] => rfl
  | [_, _, _] => rfl
  | _ :: _ :: _ :: _ :: _ => simp at h3; omega

theorem rankOk_lift (a d g : List Nat) (h : rankOk a d g = true) :
    rankOk (checkShape a) (checkShape d) (checkShape g) = true := by
  unfold rankOk at h ⊢
  simp only [Bool.and_eq_true, decide_eq_true_eq, beq_iff_eq] at h ⊢
  obtain ⟨⟨⟨h1, h2⟩, h3⟩, h4⟩ := h
  rw [length_checkShape a h1 (by omega), length_checkShape d (by omega) (by omega),
    length_checkShape g (by omega) h4]
  simp

theorem lift_lift (t : Tens ℝ) : t.lift.lift = t.lift := by unfold Tens.lift; simp only [checkShape_idem]

theorem shapesOk_lift (dt gyro acc : Tens ℝ) (rot : Option (Tens ℝ)) :
    shapesOk dt.lift gyro.lift acc.lift (rot.map Tens.lift) = shapesOk dt gyro acc rot := by
  unfold shapesOk
  cases rot with
  | none => simp only [lift_lift, Option.map_none]
  | some r => simp only [lift_lift, Option.map_some]

/-- **Rank lifting** (consequence of the definition of `forwardItem` = validate, lift, call): calling on the raw tensors is
calling on the `_check`ed `(B,F,H)` tensors with the same data. -/
theorem rank_lift_equiv (cfg : Cfg ℝ) (st : State ℝ) (dt gyro acc : Tens ℝ) (rot : Option (Tens ℝ))
    (gcov acov : Vec3 ℝ) (b : Nat) (h : rankOk acc.shape dt.shape gyro.shape = true) :
    forwardItem cfg st dt gyro acc rot gcov acov b
      = forwardItem cfg st dt.lift gyro.lift acc.lift (rot.map Tens.lift) gcov acov b := by
  unfold forwardItem
  have h' : rankOk acc.lift.shape dt.lift.shape gyro.lift.shape = true := rankOk_lift _ _ _ h
  rw [if_pos h, if_pos h', shapesOk_lift]
  by_cases hs : shapesOk dt gyro acc rot = true
  · rw [if_pos hs, if_pos hs]
    simp only [lift_lift, Option.map_map]
    congr 3
    cases rot with
    | none => rfl
    | some r => simp only [Option.map_some, Function.comp, lift_lift]
  · rw [if_neg hs, if_neg hs]

/-- `(H) ≡ (1,1,H)` -/
theorem rank_equiv_H (cfg : Cfg ℝ) (st : State ℝ) (h1 h2 h3 : Nat) (d1 d2 d3 : Array ℝ) (gcov acov : Vec3 ℝ) (b : Nat) :
    forwardItem cfg st ⟨[h1], d1⟩ ⟨[h2], d2⟩ ⟨[h3], d3⟩ none gcov acov b
      = forwardItem cfg st ⟨[1, 1, h1], d1⟩ ⟨[1, 1, h2], d2⟩ ⟨[1, 1, h3], d3⟩ none gcov acov b :=
  rank_lift_equiv cfg st ⟨[h1], d1⟩ ⟨[h2], d2⟩ ⟨[h3], d3⟩ none gcov acov b rfl

/-- `(F,H) ≡ (1,F,H)`, with a supplied rotation of the same rank -/
theorem rank_equiv_FH (cfg : Cfg ℝ) (st : State ℝ) (F1 F2 F3 F4 h1 h2 h3 h4 : Nat) (d1 d2 d3 d4 : Array ℝ)
    (gcov acov : Vec3 ℝ) (b : Nat) :
    forwardItem cfg st ⟨[F1, h1], d1⟩ ⟨[F2, h2], d2⟩ ⟨[F3, h3], d3⟩ (some ⟨[F4, h4], d4⟩) gcov acov b
      = forwardItem cfg st ⟨[1, F1, h1], d1⟩ ⟨[1, F2, h2], d2⟩ ⟨[1, F3, h3], d3⟩ (some ⟨[1, F4, h4], d4⟩) gcov acov b :=
  rank_lift_equiv cfg st ⟨[F1, h1], d1⟩ ⟨[F2, h2], d2⟩ ⟨[F3, h3], d3⟩ (some ⟨[F4, h4], d4⟩) gcov acov b rfl

/-- accepted iff the three ranks are equal and in `1..3` AND the lifted shapes are the documented `(B,F,1)`, `(B,F,3)`, `(B,F,3)`
[, `(B,F,4)`] with matching `B`, `F ≥ 1` and complete data -/
theorem rank_assert (cfg : Cfg ℝ) (st : State ℝ) (dt gyro acc : Tens ℝ) (rot : Option (Tens ℝ))
    (gcov acov : Vec3 ℝ) (b : Nat) :
    (∃ r, forwardItem cfg st dt gyro acc rot gcov acov b = .ok r) ↔
      ((1 ≤ acc.shape.length ∧ acc.shape.length = dt.shape.length ∧ dt.shape.length = gyro.shape.length ∧
        gyro.shape.length ≤ 3) ∧ shapesOk dt gyro acc rot = true) := by
  unfold forwardItem rankOk
  constructor
  · intro ⟨r, hr⟩
    split at hr
    · rename_i h
      split at hr
      · rename_i hs
        simp only [Bool.and_eq_true, decide_eq_true_eq, beq_iff_eq] at h
        exact ⟨by omega, hs⟩
      · cases hr
    · cases hr
  · intro ⟨⟨h1, h2, h3, h4⟩, hs⟩
    have : (decide (0 < acc.shape.length) && acc.shape.length == dt.shape.length &&
        dt.shape.length == gyro.shape.length && decide (gyro.shape.length ≤ 3)) = true := by
      simp only [Bool.and_eq_true, decide_eq_true_eq, beq_iff_eq]
      omega
    rw [if_pos this, if_pos hs]
    exact ⟨_, rfl⟩

/-- the model of `/repo` uses the time-ordered product -/
theorem code_order : codeLeft = false := rfl

/-- why small examples could not see the reversed product (D27): for one frame, and for two frames from a zero
covariance, both orders of the cumulative product give the same covariance -/
theorem cov_orders_agree_small (F : Nat) (A B : Nat → M9 ℝ) (C0 : M9 ℝ)
    (h : F ≤ 1 ∨ (F = 2 ∧ toM C0 = 0)) :
    toM (propagateCov true F A B C0) = toM (propagateCov false F A B C0) := by
  rw [toM_propagateCov, toM_propagateCov]
  rcases h with h | ⟨rfl, h0⟩
  · have : F = 0 ∨ F = 1 := by omega
    rcases this with rfl | rfl
    · simp [qProd]
    · simp [Finset.sum_range_succ, qProd, toM_mul, toM_one]
  · simp [Finset.sum_range_succ, qProd, toM_mul, toM_one, bSeq, h0]

/-- **Item-wise = batched.** Item `b` of a call on `(B,F,H)` tensors only reads item `b`'s entries: two batches
(possibly of different batch size) that agree on item `b` give the same result for that item. -/
theorem item_independent (cfg : Cfg ℝ) (st : State ℝ) (dt gyro acc dt' gyro' acc' : Tens ℝ) (gcov acov : Vec3 ℝ)
    (b b' : Nat) (hF : dt.lift.F = dt'.lift.F)
    (hok : rankOk acc.shape dt.shape gyro.shape = rankOk acc'.shape dt'.shape gyro'.shape)
    (hsh : shapesOk dt gyro acc none = shapesOk dt' gyro' acc' none)
    (hdt : ∀ f c, dt.lift.at3 b f c = dt'.lift.at3 b' f c)
    (hg : ∀ f c, gyro.lift.at3 b f c = gyro'.lift.at3 b' f c)
    (ha : ∀ f c, acc.lift.at3 b f c = acc'.lift.at3 b' f c) :
    forwardItem cfg st dt gyro acc none gcov acov b = forwardItem cfg st dt' gyro' acc' none gcov acov b' := by
  unfold forwardItem
  rw [hok, hsh]
  simp only
  rw [hF]
  have : framesOf dt.lift gyro.lift acc.lift (Option.map Tens.lift none) gcov acov b
      = framesOf dt'.lift gyro'.lift acc'.lift (Option.map Tens.lift none) gcov acov b' := by
    funext f
    simp only [framesOf, Tens.vec, hdt, hg, ha, Option.map_none]
  rw [this]

/-- **A call that raises changes nothing.** -/
theorem failed_call_atomic (cfg : Cfg ℝ) (st : State ℝ) (q : CallReq ℝ) (h : q.ok = false) :
    callE cfg st q = (.error "raise", st) := by
  simp only [callE, h, Bool.false_eq_true, if_false]

/-- a successful request is the plain call -/
theorem ok_call (cfg : Cfg ℝ) (st : State ℝ) (q : CallReq ℝ) (h : q.ok = true) :
    callE cfg st q = (.ok (call cfg st q.init q.fr q.F), (call cfg st q.init q.fr q.F).st) := by
  simp only [callE, h, if_true]

/-- **Histories with failures.** The caller catches every exception and goes on (retries, feeds the next chunk): the
successful results and the final carried state are exactly those of the history WITHOUT the failed calls — for every
sequence of requests, every position and number of failures. -/
theorem failures_invisible (cfg : Cfg ℝ) (qs : List (CallReq ℝ)) :
    ∀ st : State ℝ,
      okResults (runReqs cfg st qs).1 = okResults (runReqs cfg st (qs.filter (·.ok))).1 ∧
      (runReqs cfg st qs).2 = (runReqs cfg st (qs.filter (·.ok))).2 := by
  induction qs with
  | nil => intro st; exact ⟨rfl, rfl⟩
  | cons q qs ih =>
    intro st
    by_cases h : q.ok = true
    · have hf : (q :: qs).filter (·.ok) = q :: qs.filter (·.ok) := by simp [List.filter, h]
      rw [hf]
      simp only [runReqs, ok_call cfg st q h, okResults]
      obtain ⟨h1, h2⟩ := ih (call cfg st q.init q.fr q.F).st
      exact ⟨by rw [h1], h2⟩
    · have h' : q.ok = false := by simpa using h
      have hf : (q :: qs).filter (·.ok) = qs.filter (·.ok) := by simp [List.filter, h']
      rw [hf]
      simp only [runReqs, failed_call_atomic cfg st q h', okResults]
      exact ih st

/-- retry after a failure = the call without the failure (the chunk is integrated once, not twice) -/
theorem retry_after_failure (cfg : Cfg ℝ) (st : State ℝ) (q : CallReq ℝ) (h : q.ok = true) :
    okResults (runReqs cfg st [{ q with ok := false }, q]).1 = okResults (runReqs cfg st [q]).1 ∧
    (runReqs cfg st [{ q with ok := false }, q]).2 = (runReqs cfg st [q]).2 := by
  have := failures_invisible cfg [{ q with ok := false }, q] st
  simpa [List.filter, h] using this

/-- per-call covariance vs constructor covariance: not given → the module's value on every frame; one `(B,1,3)` row → that
row on every frame; `(B,F,3)` → frame by frame -/
theorem resolveCov_spec (dflt v : Vec3 ℝ) (f : Nat → Vec3 ℝ) (j : Nat) :
    resolveCov dflt CovArg.none j = dflt ∧ resolveCov dflt (CovArg.row v) j = v ∧ resolveCov dflt (CovArg.rows f) j = f j :=
  ⟨rfl, rfl, rfl⟩

/-- the two covariance arguments are resolved independently: giving exactly one leaves the other at the module's value -/
theorem one_cov_given (modG modA : Vec3 ℝ) (f : Nat → Vec3 ℝ) (raw : Nat → RawFrame ℝ) (j : Nat) :
    (resolveFrames modG modA (CovArg.rows f) CovArg.none raw j).gcov = f j ∧
    (resolveFrames modG modA (CovArg.rows f) CovArg.none raw j).acov = modA ∧
    (resolveFrames modG modA CovArg.none (CovArg.rows f) raw j).gcov = modG ∧
    (resolveFrames modG modA CovArg.none (CovArg.rows f) raw j).acov = f j := ⟨rfl, rfl, rfl, rfl⟩

/-- a `(B,1,3)` covariance is the `(B,F,3)` covariance with equal rows -/
theorem row_eq_const_rows (cfg : Cfg ℝ) (modG modA : Vec3 ℝ) (st : State ℝ) (init : Option (InitDict ℝ)) (v : Vec3 ℝ)
    (ac : CovArg ℝ) (raw : Nat → RawFrame ℝ) (F : Nat) :
    forwardArgs cfg modG modA st init (CovArg.row v) ac raw F
      = forwardArgs cfg modG modA st init (CovArg.rows fun _ => v) ac raw F := rfl

/-- no `init_state`, no per-call covariances: the plain call with the module's covariances on every frame -/
theorem forwardArgs_default (cfg : Cfg ℝ) (modG modA : Vec3 ℝ) (st : State ℝ) (raw : Nat → RawFrame ℝ) (F : Nat) :
    forwardArgs cfg modG modA st none CovArg.none CovArg.none raw F =
      (.ok (call cfg st none (fun j => ⟨(raw j).dt, (raw j).gyro, (raw j).acc, (raw j).rot, modG, modA⟩) F),
       (call cfg st none (fun j => ⟨(raw j).dt, (raw j).gyro, (raw j).acc, (raw j).rot, modG, modA⟩) F).st) := by
  have e : resolveFrames modG modA CovArg.none CovArg.none raw
      = fun j => ⟨(raw j).dt, (raw j).gyro, (raw j).acc, (raw j).rot, modG, modA⟩ := by funext j; rfl
  simp only [forwardArgs, resolveInit, e]

/-- a complete dict: the call starts from the dict's `pos, rot, vel`; `cov` = the dict's unless absent / None; `Rij` = the
dict's (possibly None) if the key is present -/
theorem forwardArgs_dict (cfg : Cfg ℝ) (modG modA : Vec3 ℝ) (st : State ℝ) (p : Vec3 ℝ) (r : Quat ℝ) (v : Vec3 ℝ)
    (cov : Option (Option (M9 ℝ))) (rij : Option (Option (Quat ℝ))) (gc ac : CovArg ℝ) (raw : Nat → RawFrame ℝ) (F : Nat) :
    (forwardArgs cfg modG modA st (some ⟨some p, some r, some v, cov, rij⟩) gc ac raw F).1 =
      .ok (call cfg st (some ⟨p, r, v, joinCov cov, rij⟩)
        (resolveFrames modG modA gc ac raw) F) := by
  simp only [forwardArgs, resolveInit]

/-- a dict without one of the required keys raises, and the object is untouched -/
theorem missing_key_atomic (cfg : Cfg ℝ) (modG modA : Vec3 ℝ) (st : State ℝ) (d : InitDict ℝ) (gc ac : CovArg ℝ)
    (raw : Nat → RawFrame ℝ) (F : Nat) (h : d.pos = none ∨ d.rot = none ∨ d.vel = none) :
    forwardArgs cfg modG modA st (some d) gc ac raw F = (.error "KeyError", st) := by
  obtain ⟨p, r, v, c, j⟩ := d
  simp only at h
  cases p <;> cases r <;> cases v <;> simp_all [forwardArgs, resolveInit]

/-- the rotation `removeG` uses: the supplied one, else `R₀ · ΔR` after the step -/
noncomputable def usedRot (R0 Rnext : Quat ℝ) (f : Frame ℝ) : Quat ℝ :=
  match f.rot with
  | some r => r
  | none => R0.mul Rnext

theorem removeG_usedRot (g : Vec3 ℝ) (R0 Rnext : Quat ℝ) (f : Frame ℝ) :
    removeG g R0 Rnext f = f.acc.sub ((usedRot R0 Rnext f).conj.act g) := by
  unfold removeG usedRot; cases f.rot <;> rfl

/-- **The recursion holds for EVERY real gravity constant** — positive (z-up), negative (z-down / NED), zero, tiny, huge: the
gravity vector `(0,0,g_z)` enters only through `a = acc − R⁻¹ g`. -/
theorem par_eq_seq_every_gravity (eps gz : ℝ) (reset propCov left : Bool) (st : State ℝ) (fr : Nat → Frame ℝ) (F j : Nat)
    (hj : j < F) :
    outAt (call ⟨eps, ⟨0, 0, gz⟩, reset, propCov, left⟩ st none fr F).outs j
      = compose st.pos st.rot st.vel (preSeq eps ⟨0, 0, gz⟩ st.rot fr (j+1)) :=
  call_out_eq _ st fr F j hj

/-- flipping the sign of the gravity constant turns the subtraction into an addition (z-down convention) -/
theorem removeG_neg_gravity (g : Vec3 ℝ) (R0 Rnext : Quat ℝ) (f : Frame ℝ) :
    removeG g.neg R0 Rnext f = f.acc.add ((usedRot R0 Rnext f).conj.act g) := by
  rw [removeG_usedRot, Quat.act_neg]; ext <;> lie_unfold <;> ring

/-- **Gravity removal can be skipped only for `g = 0`**: with a unit rotation, `a = acc` iff the gravity vector is zero —
in particular NOT for any negative gravity constant. -/
theorem zero_g_fast_path_iff (g : Vec3 ℝ) (R0 Rnext : Quat ℝ) (f : Frame ℝ) (hu : (usedRot R0 Rnext f).normSq = 1) :
    removeG g R0 Rnext f = f.acc ↔ g = Vec3.zero := by
  rw [removeG_usedRot]
  have hc : (usedRot R0 Rnext f).conj.normSq = 1 := by rw [Quat.normSq_conj, hu]
  constructor
  · intro h
    have hz : ((usedRot R0 Rnext f).conj.act g).normSq = 0 := by
      have e : (usedRot R0 Rnext f).conj.act g = f.acc.sub (f.acc.sub ((usedRot R0 Rnext f).conj.act g)) := by
        ext <;> lie_unfold <;> ring
      rw [e, h]; lie_unfold; ring
    rw [Quat.act_normSq _ hc] at hz
    have hx : g.x = 0 ∧ g.y = 0 ∧ g.z = 0 := by
      unfold Vec3.normSq at hz
      refine ⟨?_, ?_, ?_⟩ <;> nlinarith [mul_self_nonneg g.x, mul_self_nonneg g.y, mul_self_nonneg g.z]
    ext <;> simp [Vec3.zero, hx.1, hx.2.1, hx.2.2]
  · intro h
    rw [h, Quat.act_zero]; ext <;> lie_unfold <;> ring

/-- a negative gravity constant is NOT zero gravity: the acceleration differs from the raw measurement by exactly `|g_z|` -/
theorem negative_gravity_is_removed (gz : ℝ) (hg : gz < 0) (R0 Rnext : Quat ℝ) (f : Frame ℝ)
    (hu : (usedRot R0 Rnext f).normSq = 1) : removeG ⟨0, 0, gz⟩ R0 Rnext f ≠ f.acc := by
  intro h
  have := (zero_g_fast_path_iff ⟨0, 0, gz⟩ R0 Rnext f hu).mp h
  have hz : gz = 0 := by
    have := congrArg Vec3.z this
    simpa [Vec3.zero] using this
  linarith


/-! ### helpers for the docstring-convention theorems -/

theorem vact_sub (q : Quat ℝ) (u v : Vec3 ℝ) : q.act (u.sub v) = (q.act u).sub (q.act v) := by
  ext <;> lie_unfold <;> ring

/-- removing gravity with the rotation at the START of step `k` (`R₀·ΔR_k`): rotated back by `ΔR_k` it is the constant
`R₀⁻¹ g` -/
theorem start_rotation_gravity (g : Vec3 ℝ) (R0 Rk : Quat ℝ) (h0 : R0.normSq = 1) (hk : Rk.normSq = 1) :
    Rk.act ((R0.mul Rk).conj.act g) = R0.conj.act g := by
  rw [Quat.conj_mul_rev, Quat.act_mul _ _ (by rw [Quat.normSq_conj, hk]) (by rw [Quat.normSq_conj, h0]),
    Quat.act_conj_act Rk hk]


/-! ### the carried covariance is the returned one (any init_state) -/

theorem call_st_cov_gen (cfg : Cfg ℝ) (st : State ℝ) (init : Option (Init ℝ)) (fr : Nat → Frame ℝ) (F : Nat)
    (hr : cfg.reset = false) (hp : cfg.propCov = true) (c : M9 ℝ) (hc : (call cfg st init fr F).cov = some c) :
    (call cfg st init fr F).st.cov = c := by
  cases init with
  | none =>
    simp only [call, hr, hp, Bool.false_eq_true, if_false, if_true, Option.some.injEq] at hc ⊢
    exact hc
  | some i =>
    obtain ⟨p, r, v, cv, rj⟩ := i
    cases cv <;> cases rj <;>
      (simp only [call, hr, hp, Bool.false_eq_true, if_false, if_true, Option.some.injEq] at hc ⊢; exact hc)


end PP.Imu
