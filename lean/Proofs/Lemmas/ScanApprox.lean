import Pose.Model.Scan
import Proofs.Lemmas.Scan
import Mathlib.Data.Real.Basic
import Mathlib.Tactic.Linarith
import Mathlib.Tactic.Positivity
import Mathlib.Tactic.Ring
import Mathlib.Tactic.NormNum
/-! Approximate associativity: the doubling scan of an operation that is only `ε`-associative and `Λ`-Lipschitz in a
pseudo-metric `d` (floating-point group products) stays within a computable distance of the sequential fold. -/
namespace PP.Scan
variable {α : Type} (op : α → α → α)

/-- what is assumed of a rounded product: a pseudo-metric in which `op` is `Λ`-Lipschitz in each argument and
associative up to `ε` -/
structure ApproxAssoc (d : α → α → ℝ) (lam eps delta : ℝ) : Prop where
  d_self : ∀ a, d a a = 0
  d_symm : ∀ a b, d a b = d b a
  d_tri : ∀ a b c, d a c ≤ d a b + d b c
  d_nonneg : ∀ a b, 0 ≤ d a b
  one_le : 1 ≤ lam
  eps_nonneg : 0 ≤ eps
  delta_nonneg : 0 ≤ delta
  lipL : ∀ a b c, d (op a c) (op b c) ≤ lam * d a b + delta
  lipR : ∀ a b c, d (op c a) (op c b) ≤ lam * d a b + delta
  assoc : ∀ a b c, d (op (op a b) c) (op a (op b c)) ≤ eps

/-- cost of re-associating `x ∘ (y₀ ∘ … ∘ y_m)` into the left-nested fold: `A 0 = 0`, `A (m+1) = ε + Λ·A m` -/
def reassoc (lam eps : ℝ) : Nat → ℝ
  | 0 => 0
  | m+1 => eps + lam * reassoc lam eps m

theorem reassoc_nonneg (lam eps : ℝ) (hl : 1 ≤ lam) (he : 0 ≤ eps) : ∀ m, 0 ≤ reassoc lam eps m
  | 0 => le_refl 0
  | m+1 => by
    have := reassoc_nonneg lam eps hl he m
    unfold reassoc
    have : 0 ≤ lam * reassoc lam eps m := mul_nonneg (by linarith) this
    linarith

variable {op}
theorem seg_append_approx {d : α → α → ℝ} {lam eps delta : ℝ} (H : ApproxAssoc op d lam eps delta) (v : Nat → α) (a n : Nat) :
    ∀ m, d (op (seg op v a n) (seg op v (a+n+1) m)) (seg op v a (n+m+1)) ≤ reassoc lam (eps + delta) m := by
  intro m
  induction m with
  | zero => simp only [seg, reassoc]; rw [show a + n + 1 = a + (n + 0) + 1 by omega]; simp [H.d_self]
  | succ m ih =>
    have kr : seg op v a (n + (m+1) + 1) = op (seg op v a (n+m+1)) (v (a + (n + m + 1) + 1)) := by
      rw [show n + (m+1) + 1 = (n+m+1)+1 by omega]; rfl
    have kl : seg op v (a+n+1) (m+1) = op (seg op v (a+n+1) m) (v (a + (n + m + 1) + 1)) := by
      rw [show a + (n + m + 1) + 1 = a + n + 1 + m + 1 by omega]; rfl
    rw [kr, kl]
    simp only [reassoc]
    have h1 := H.assoc (seg op v a n) (seg op v (a+n+1) m) (v (a + (n + m + 1) + 1))
    rw [H.d_symm] at h1
    have h2 := H.lipL (op (seg op v a n) (seg op v (a+n+1) m)) (seg op v a (n+m+1)) (v (a + (n + m + 1) + 1))
    have h3 := H.d_tri (op (seg op v a n) (op (seg op v (a+n+1) m) (v (a + (n + m + 1) + 1))))
      (op (op (seg op v a n) (seg op v (a+n+1) m)) (v (a + (n + m + 1) + 1)))
      (op (seg op v a (n+m+1)) (v (a + (n + m + 1) + 1)))
    have h4 : lam * d (op (seg op v a n) (seg op v (a+n+1) m)) (seg op v a (n+m+1)) ≤ lam * reassoc lam (eps + delta) m :=
      mul_le_mul_of_nonneg_left ih (by linarith [H.one_le])
    linarith

/-- error bound after one round with stride `p`, when every position was within `E` of its exact window fold -/
def roundErr (lam eps delta : ℝ) (p : Nat) (E : ℝ) : ℝ := 2 * lam * E + 2 * delta + reassoc lam (eps + delta) (p - 1)

theorem roundErr_ge {lam eps delta : ℝ} (hl : 1 ≤ lam) (he : 0 ≤ eps) (hd : 0 ≤ delta) (p : Nat) (E : ℝ) (hE : 0 ≤ E) :
    E ≤ roundErr lam eps delta p E := by
  unfold roundErr
  have := reassoc_nonneg lam (eps + delta) hl (by linarith) (p - 1)
  nlinarith

theorem step_W_approx {d : α → α → ℝ} {lam eps delta : ℝ} (H : ApproxAssoc op d lam eps delta)
    (L : Nat) (v : Nat → α) (p : Nat) (hp : 1 ≤ p) (w : Nat → α) (E : ℝ) (hE : 0 ≤ E)
    (hw : ∀ j, j < L → d (w j) (W op v p j) ≤ E) (j : Nat) (hj : j < L) :
    d (step op L p w j) (W op v (2*p) j) ≤ roundErr lam eps delta p E := by
  unfold step
  by_cases h : p ≤ j
  · simp only [h, hj, and_self, if_true]
    have hexact : d (op (W op v p (j - p)) (W op v p j)) (W op v (2*p) j) ≤ reassoc lam (eps + delta) (p - 1) := by
      unfold W
      have e1 : min p (j+1) = p := by omega
      have hl := seg_append_approx H v (j - p + 1 - min p (j - p + 1)) (min p (j - p + 1) - 1) (p - 1)
      have s1 : j - p + 1 - min p (j - p + 1) + (min p (j - p + 1) - 1) + 1 = j + 1 - p := by omega
      rw [s1] at hl
      rw [e1]
      have a1 : j - p + 1 - min p (j - p + 1) = j + 1 - min (2 * p) (j + 1) := by omega
      have a2 : min p (j - p + 1) - 1 + (p - 1) + 1 = min (2 * p) (j + 1) - 1 := by omega
      rw [a1, a2] at hl
      rw [a1]
      exact hl
    have h1 := H.lipL (w (j - p)) (W op v p (j - p)) (w j)
    have h2 := H.lipR (w j) (W op v p j) (W op v p (j - p))
    have hw1 := hw (j - p) (by omega)
    have hw2 := hw j hj
    have t1 := H.d_tri (op (w (j - p)) (w j)) (op (W op v p (j - p)) (w j)) (W op v (2*p) j)
    have t2 := H.d_tri (op (W op v p (j - p)) (w j)) (op (W op v p (j - p)) (W op v p j)) (W op v (2*p) j)
    have hl0 : 0 ≤ lam := by linarith [H.one_le]
    have m1 := mul_le_mul_of_nonneg_left hw1 hl0
    have m2 := mul_le_mul_of_nonneg_left hw2 hl0
    unfold roundErr
    linarith
  · have h' : ¬ (p ≤ j ∧ j < L) := fun hh => h hh.1
    simp only [h', if_false]
    have e : W op v (2*p) j = W op v p j := by unfold W; congr 1 <;> omega
    rw [e]
    exact le_trans (hw j hj) (roundErr_ge H.one_le H.eps_nonneg H.delta_nonneg p E hE)

/-- the bound threaded through the schedule of `cumops_` (same recursion as `stridesFrom`) -/
def errFrom (lam eps delta : ℝ) (L : Nat) : Nat → Nat → ℝ → ℝ
  | 0, _, E => E
  | fuel+1, p, E => if p < L then errFrom lam eps delta L fuel (2*p) (roundErr lam eps delta p E) else E

theorem fold_strides_approx {d : α → α → ℝ} {lam eps delta : ℝ} (H : ApproxAssoc op d lam eps delta) (L : Nat) (v : Nat → α) :
    ∀ (fuel p : Nat) (w : Nat → α) (E : ℝ), 1 ≤ p → L ≤ p * 2^fuel → 0 ≤ E →
      (∀ j, j < L → d (w j) (W op v p j) ≤ E) →
      ∀ j, j < L → d ((stridesFrom L fuel p).foldl (fun w i => step op L i w) w j) (seg op v 0 j)
        ≤ errFrom lam eps delta L fuel p E := by
  intro fuel
  induction fuel with
  | zero =>
    intro p w E hp hL hE hw j hj
    simp only [stridesFrom, List.foldl_nil, errFrom]
    rw [← W_full op v L p j (by simpa using hL) hj]; exact hw j hj
  | succ fuel ih =>
    intro p w E hp hL hE hw j hj
    unfold stridesFrom errFrom
    by_cases hlt : p < L
    · simp only [hlt, if_true, List.foldl_cons]
      apply ih (2*p) (step op L p w) (roundErr lam eps delta p E) (by omega)
        (by rw [Nat.pow_succ] at hL; calc L ≤ p * (2 ^ fuel * 2) := hL
            _ = 2 * p * 2 ^ fuel := by ac_rfl)
        (le_trans hE (roundErr_ge H.one_le H.eps_nonneg H.delta_nonneg p E hE))
      · intro j hj
        exact step_W_approx H L v p hp w E hE hw j hj
      · exact hj
    · simp only [hlt, if_false, List.foldl_nil]
      rw [← W_full op v L p j (by omega) hj]; exact hw j hj

/-- the a-priori bound for a scan of length `L` -/
def scanErr (lam eps delta : ℝ) (L : Nat) : ℝ := errFrom lam eps delta L L 1 0

/-! ### closed form for a non-expansive operation (`Λ = 1`, e.g. products of unit quaternions in the chordal metric) -/

theorem reassoc_one (eps : ℝ) : ∀ m : Nat, reassoc 1 eps m = m * eps
  | 0 => by simp [reassoc]
  | m+1 => by simp only [reassoc, reassoc_one eps m]; push_cast; ring

theorem errFrom_one_le (eps delta : ℝ) (he : 0 ≤ eps) (hd : 0 ≤ delta) (L : Nat) :
    ∀ (fuel p : Nat) (E : ℝ), 1 ≤ p → p ≤ 2 * L → 0 ≤ E →
      (p : ℝ) * errFrom 1 eps delta L fuel p E ≤ 2 * L * E + (stridesFrom L fuel p).length * (2 * L * p * (eps + delta)) := by
  intro fuel
  induction fuel with
  | zero =>
    intro p E hp hpL hE
    simp only [errFrom, stridesFrom, List.length_nil, Nat.cast_zero, zero_mul, add_zero]
    have : (p : ℝ) ≤ 2 * L := by exact_mod_cast hpL
    nlinarith
  | succ fuel ih =>
    intro p E hp hpL hE
    unfold errFrom stridesFrom
    by_cases hlt : p < L
    · simp only [hlt, if_true, List.length_cons]
      have hE' : 0 ≤ roundErr 1 eps delta p E := le_trans hE (roundErr_ge (le_refl 1) he hd p E hE)
      have h := ih (2*p) (roundErr 1 eps delta p E) (by omega) (by omega) hE'
      have hr : roundErr 1 eps delta p E = 2 * E + 2 * delta + ((p : ℝ) - 1) * (eps + delta) := by
        unfold roundErr; rw [reassoc_one]
        have : ((p - 1 : Nat) : ℝ) = (p : ℝ) - 1 := by
          rw [Nat.cast_sub hp]; simp
        rw [this]; ring
      push_cast at h ⊢
      have hp' : (1 : ℝ) ≤ p := by exact_mod_cast hp
      have hL0 : (0 : ℝ) ≤ L := Nat.cast_nonneg L
      have hlen : (0 : ℝ) ≤ ((stridesFrom L fuel (2 * p)).length : ℝ) := Nat.cast_nonneg _
      rw [hr] at h ⊢
      have key : (L : ℝ) * (2 * delta + ((p : ℝ) - 1) * (eps + delta)) ≤ 2 * L * p * (eps + delta) := by
        have h1 : 2 * delta + ((p : ℝ) - 1) * (eps + delta) ≤ 2 * p * (eps + delta) := by nlinarith
        calc (L : ℝ) * (2 * delta + ((p : ℝ) - 1) * (eps + delta)) ≤ L * (2 * p * (eps + delta)) :=
              mul_le_mul_of_nonneg_left h1 hL0
          _ = 2 * L * p * (eps + delta) := by ring
      nlinarith
    · simp only [hlt, if_false, List.length_nil, Nat.cast_zero, zero_mul, add_zero]
      have : (p : ℝ) ≤ 2 * L := by exact_mod_cast hpL
      nlinarith

/-- number of rounds: `2^rounds < 2L` (so `rounds ≤ log₂ L + 1`) -/
theorem stridesFrom_length (L : Nat) : ∀ (fuel p : Nat), 1 ≤ p → p < L →
    p * 2 ^ (stridesFrom L fuel p).length < 2 * L := by
  intro fuel
  induction fuel with
  | zero => intro p _ hpl; simp [stridesFrom]; omega
  | succ fuel ih =>
    intro p hp hpl
    unfold stridesFrom
    simp only [hpl, if_true, List.length_cons]
    by_cases h2 : 2 * p < L
    · have := ih (2*p) (by omega) h2
      rw [Nat.pow_succ]
      calc p * (2 ^ (stridesFrom L fuel (2 * p)).length * 2) = 2 * p * 2 ^ (stridesFrom L fuel (2 * p)).length := by ac_rfl
        _ < 2 * L := this
    · have : (stridesFrom L fuel (2*p)).length = 0 := by
        cases fuel with
        | zero => simp [stridesFrom]
        | succ f => simp [stridesFrom, h2]
      rw [this]; omega

end PP.Scan
