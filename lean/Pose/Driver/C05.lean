import Pose.Wire
import Pose.Driver.Lie
/-! Driver ops for C05. -/
namespace PP.Driver
open PP Wire

def opsC05 : List (String × Handler) := []

end PP.Driver
