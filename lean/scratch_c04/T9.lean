import Proofs.Lemmas.AutogradChain
set_option linter.unusedSimpArgs false
namespace PP.AD
open PP

def matN (g : Grp) : Nat := match g with | .SO3 => 9 | _ => 16

theorem length_actB1 (g : Grp) (X out go : DVec ℝ) : (actB g X out go).1.length = g.gdim := by
  simp only [actB, length_pad0, length_vecMul _ (Shape_ActJac g (v3 out)) (by norm_num), gdim_eq]
theorem length_act4B1 (g : Grp) (X out go : DVec ℝ) : (act4B g X out go).1.length = g.gdim := by
  simp only [act4B, length_pad0, length_vecMul _ (Shape_Act4Jac g (v3 out) (nth out 3)) (by norm_num), gdim_eq]

theorem dot_actB1 (g : Grp) (X out go τ : DVec ℝ) (hgo : go.length = 3) (hτ : τ.length = g.adim) :
    DVec.dot (actB g X out go).1 τ = DVec.dot go ((ActJac g (v3 out)).mulVec τ) := by
  have hs := Shape_ActJac g (v3 out)
  simp only [actB]
  rw [ddot_pad0 _ _ (by rw [length_vecMul _ hs (by norm_num), hτ]), vecMul_adjoint _ hs (by norm_num) go τ hgo]
theorem dot_act4B1 (g : Grp) (X out go τ : DVec ℝ) (hgo : go.length = 4) (hτ : τ.length = g.adim) :
    DVec.dot (act4B g X out go).1 τ = DVec.dot go ((Act4Jac g (v3 out) (nth out 3)).mulVec τ) := by
  have hs := Shape_Act4Jac g (v3 out) (nth out 3)
  simp only [act4B]
  rw [ddot_pad0 _ _ (by rw [length_vecMul _ hs (by norm_num), hτ]), vecMul_adjoint _ hs (by norm_num) go τ hgo]

theorem adj_Matrix_SO3 (X go τ : DVec ℝ) (hgo : go.length = 9) (hτ : τ.length = 3) :
    DVec.dot (matrixB .SO3 X go) τ = DVec.dot go (matrixT .SO3 X τ) := by
  simp only [matrixB, matrixT]
  rw [ddot_add_left _ _ _ (by rw [length_dadd _ _ (by simp [length_actB1]), length_actB1, length_actB1]),
    ddot_add_left _ _ _ (by simp [length_actB1]),
    dot_actB1 _ _ _ _ _ (by simp [colOf]) hτ, dot_actB1 _ _ _ _ _ (by simp [colOf]) hτ, dot_actB1 _ _ _ _ _ (by simp [colOf]) hτ]
  obtain ⟨u0, u1, u2, h0⟩ := len3 _ (length_mulVec _ (Shape_ActJac .SO3 (v3 (actF .SO3 X (DVec.basis 3 0)))) τ)
  obtain ⟨v0, v1, v2, h1⟩ := len3 _ (length_mulVec _ (Shape_ActJac .SO3 (v3 (actF .SO3 X (DVec.basis 3 1)))) τ)
  obtain ⟨w0, w1, w2, h2⟩ := len3 _ (length_mulVec _ (Shape_ActJac .SO3 (v3 (actF .SO3 X (DVec.basis 3 2)))) τ)
  rw [h0, h1, h2]
  obtain ⟨g0, g1, g2, g3, g4, g5, g6, g7, g8, rfl⟩ := len9 go hgo
  simp [colOf, List.range, List.range.loop, ddot_cons, h0, h1, h2]
  ring

theorem adj_Matrix_4 (g : Grp) (hg : g ≠ .SO3) (X go τ : DVec ℝ) (hgo : go.length = 16) (hτ : τ.length = g.adim) :
    DVec.dot (matrixB g X go) τ = DVec.dot go (matrixT g X τ) := by
  have key : DVec.dot (DVec.add (DVec.add (DVec.add (act4B g X (act4F g X (DVec.basis 4 0)) (colOf 4 0 go)).1
        (act4B g X (act4F g X (DVec.basis 4 1)) (colOf 4 1 go)).1) (act4B g X (act4F g X (DVec.basis 4 2)) (colOf 4 2 go)).1)
        (act4B g X (act4F g X (DVec.basis 4 3)) (colOf 4 3 go)).1) τ
      = DVec.dot go ((List.range 4).flatMap fun i => (List.range 4).map fun j =>
          nth ((Act4Jac g (v3 (act4F g X (DVec.basis 4 j))) (nth (act4F g X (DVec.basis 4 j)) 3)).mulVec τ) i) := by
    rw [ddot_add_left _ _ _ (by rw [length_dadd _ _ (by rw [length_dadd _ _ (by simp [length_act4B1])]; simp [length_act4B1]),
          length_dadd _ _ (by simp [length_act4B1]), length_act4B1, length_act4B1]),
      ddot_add_left _ _ _ (by rw [length_dadd _ _ (by simp [length_act4B1]), length_act4B1, length_act4B1]),
      ddot_add_left _ _ _ (by simp [length_act4B1]),
      dot_act4B1 _ _ _ _ _ (by simp [colOf]) hτ, dot_act4B1 _ _ _ _ _ (by simp [colOf]) hτ,
      dot_act4B1 _ _ _ _ _ (by simp [colOf]) hτ, dot_act4B1 _ _ _ _ _ (by simp [colOf]) hτ]
    obtain ⟨u0, u1, u2, u3, h0⟩ := len4 _ (length_mulVec _ (Shape_Act4Jac g (v3 (act4F g X (DVec.basis 4 0))) (nth (act4F g X (DVec.basis 4 0)) 3)) τ)
    obtain ⟨v0, v1, v2, v3', h1⟩ := len4 _ (length_mulVec _ (Shape_Act4Jac g (v3 (act4F g X (DVec.basis 4 1))) (nth (act4F g X (DVec.basis 4 1)) 3)) τ)
    obtain ⟨w0, w1, w2, w3, h2⟩ := len4 _ (length_mulVec _ (Shape_Act4Jac g (v3 (act4F g X (DVec.basis 4 2))) (nth (act4F g X (DVec.basis 4 2)) 3)) τ)
    obtain ⟨z0, z1, z2, z3, h3⟩ := len4 _ (length_mulVec _ (Shape_Act4Jac g (v3 (act4F g X (DVec.basis 4 3))) (nth (act4F g X (DVec.basis 4 3)) 3)) τ)
    obtain ⟨g0, g1, g2, g3, g4, g5, g6, g7, g8, g9, g10, g11, g12, g13, g14, g15, rfl⟩ := len16 go hgo
    simp only [List.range, List.range.loop, List.flatMap, List.map, List.flatten_cons, List.flatten_nil, h0, h1, h2, h3]
    simp [colOf, List.range, List.range.loop, ddot_cons, h0, h1, h2, h3]
    ring
  cases g
  · exact absurd rfl hg
  all_goals exact key
end PP.AD
