import Pose.Wire
import Pose.Model.Stop
/-! Driver ops for C20 (stopping controllers).

State code on the wire: `(steps * 65536 + patience_count) * 2 + (1 if continual else 0)`.
Observation code: `nodec + 2*below + 4*rej`.  `kind` is `sop` (StopOnPlateau) or `rtb` (ReduceToBason). -/
namespace PP.Driver
open PP Wire Stop

namespace C20

def obsOfCode (n : Nat) : Obs := ⟨n % 2 == 1, (n / 2) % 2 == 1, (n / 4) % 2 == 1⟩
def stCode (s : St) : Nat := (s.steps * 65536 + s.pc) * 2 + (if s.cont then 1 else 0)
def stOfCode (n : Nat) : St := ⟨n / 2 / 65536, (n / 2) % 65536, n % 2 == 1⟩
def bit (b : Bool) : Nat := if b then 1 else 0

def stepOf (kind : String) (c : Cfg) : Except String (St → Obs → St) :=
  match kind with
  | "sop" => .ok (sopStep c)
  | "rtb" => .ok (rtbStep c)
  | _ => .error "bad-kind"

/-- stream of observations from a list: beyond the list the loop must not look (reported as `short`) -/
def obsFn (os : List Obs) (i : Nat) : Obs := os.getD i default

/-- split a token list into step events (`S n x1 … xn`) and resets (`R`) -/
def parseEvents : Nat → List String → Except String (List (Ev BigF))
  | 0, _ => .error "fuel"
  | _, [] => .ok []
  | fuel+1, "R" :: rest => do
      let es ← parseEvents fuel rest
      return Ev.reset :: es
  | fuel+1, "S" :: n :: rest => do
      let B ← nat n
      let (xs, rest') ← take B rest
      let v ← nums xs
      let es ← parseEvents fuel rest'
      return Ev.step v :: es
  | _, t :: _ => .error s!"bad-event:{t}"

def parseOpt : Nat → List String → Except String (List (OptObs BigF))
  | 0, _ => .error "fuel"
  | _, [] => .ok []
  | fuel+1, a :: b :: r :: rest => do
      let la ← num a
      let lo ← num b
      let rc ← int r
      let es ← parseOpt fuel rest
      return ⟨la, lo, if rc < 0 then none else some rc.toNat⟩ :: es
  | _, _ => .error "arity"

/-- numeric ReduceToBason trace; per event `code nodec below` (`code 2 2` for a reset) -/
def rtbNumTrace (c : Cfg) (d tol : BigF) : RtbSt BigF → List (Ev BigF) → List Nat
  | _, [] => []
  | s, e :: es =>
    let s' := rtbEv c d tol s e
    let bits := match e with
      | .step loss => let o := rtbObs d tol s.last loss; [bit o.nodec, bit o.below]
      | .reset => [2, 2]
    stCode s'.st :: bits ++ rtbNumTrace c d tol s' es

def sopNumTrace (c : Cfg) (d : BigF) : St → List (OptObs BigF) → List Nat
  | _, [] => []
  | s, o :: os =>
    let ob := sopObs d o
    let s' := sopStepNum c d s o
    stCode s' :: bit ob.nodec :: bit ob.rej :: sopNumTrace c d s' os

def stepsGo (f : St → Obs → St) : List Nat → List Nat
  | s :: o :: r => stCode (f (stOfCode s) (obsOfCode o)) :: stepsGo f r
  | _ => []

def traceGo (kind : String) (f : St → Obs → St) (s : St) : List String → Except String (List Nat)
  | [] => .ok []
  | "R" :: r => do
      if kind != "rtb" then throw "no-reset"
      let s' := rtbReset s
      return stCode s' :: (← traceGo kind f s' r)
  | t :: r => do
      let s' := f s (obsOfCode (← nat t))
      return stCode s' :: (← traceGo kind f s' r)

end C20
open C20

def opsC20 : List (String × Handler) := [
  -- c20.steps kind maxSteps patience (stateCode obsCode)*   -> next state codes (single transitions)
  ("c20.steps", fun ts => do
      match ts with
      | kind :: ms :: pt :: rest =>
        let c : Cfg := ⟨← int ms, ← int pt⟩
        let f ← stepOf kind c
        let xs ← nats rest
        return fmtNats (stepsGo f xs)
      | _ => throw "arity"),
  -- c20.trie kind maxSteps patience L n first_1..first_n later_1..later_n
  --   -> state codes of all nodes of the trie of words of length <= L, DFS pre-order; the i-th letter has
  --      observation code first_i on the first step and later_i on later steps
  ("c20.trie", fun ts => do
      match ts with
      | kind :: ms :: pt :: l :: n :: rest =>
        let c : Cfg := ⟨← int ms, ← int pt⟩
        let f ← stepOf kind c
        let L ← nat l
        let n ← nat n
        let codes ← nats rest
        if codes.length != 2 * n then throw "arity"
        let first := (codes.take n).map obsOfCode
        let later := (codes.drop n).map obsOfCode
        let out := match L with
          | 0 => []
          | L'+1 => first.flatMap fun o => let s' := f St.init o; s' :: trie f later L' s'
        return fmtNats (out.map stCode)
      | _ => throw "arity"),
  -- c20.trace kind maxSteps patience stateCode (obsCode | R)*   (R: reset)  -> state code after each event
  ("c20.trace", fun ts => do
      match ts with
      | kind :: ms :: pt :: s0 :: rest =>
        let c : Cfg := ⟨← int ms, ← int pt⟩
        let f ← stepOf kind c
        let s0 := stOfCode (← nat s0)
        return fmtNats (← traceGo kind f s0 rest)
      | _ => throw "arity"),
  -- c20.loop <opt|icp|mpc> maxSteps patience k stateCode obsCode*
  --   opt: StopOnPlateau.optimize from the given state;   icp: ICP.forward;   mpc: MPC.forward after k MPC.__init__
  --   -> iterations calls finalStateCode     (err short: the loop wanted more observations than supplied)
  ("c20.loop", fun ts => do
      match ts with
      | kind :: ms :: pt :: kk :: s0 :: rest =>
        let c : Cfg := ⟨← int ms, ← int pt⟩
        let k ← nat kk
        let s0 := stOfCode (← nat s0)
        let os := (← nats rest).map obsOfCode
        let (it, calls, s) ← match kind with
          | "opt" => let r := optimize c s0 (obsFn os); pure (r.1, r.1, r.2)
          | "icp" => pure (icpForward c s0 (obsFn os))
          | "mpc" => pure (mpcForward (mpcInitN k c) s0 (obsFn os))
          | _ => throw "bad-kind"
        if it > os.length then throw "short"
        return fmtNats [it, calls, stCode s]
      | _ => throw "arity"),
  -- c20.rtb.num maxSteps patience d tol (S n x1..xn | R)*  -> per event: stateCode nodec below
  ("c20.rtb.num", fun ts => do
      match ts with
      | ms :: pt :: d :: tol :: rest =>
        let c : Cfg := ⟨← int ms, ← int pt⟩
        let d ← num d
        let tol ← num tol
        let evs ← parseEvents (rest.length + 1) rest
        return fmtNats (rtbNumTrace c d tol RtbSt.init evs)
      | _ => throw "arity"),
  -- c20.sop.num maxSteps patience d (last loss rejectCount|-1)*  -> per step: stateCode nodec rej
  ("c20.sop.num", fun ts => do
      match ts with
      | ms :: pt :: d :: rest =>
        let c : Cfg := ⟨← int ms, ← int pt⟩
        let d ← num d
        let os ← parseOpt (rest.length + 1) rest
        return fmtNats (sopNumTrace c d St.init os)
      | _ => throw "arity")
]

end PP.Driver
