import Pose.Scalar
/-!
# Model of `pypose/module/lqr.py` (LQR), `pypose/module/mpc.py` (MPC), the parts of
`pypose/module/dynamics.py` they use (`System` clock, `LTI`/`LTV`/`NLS` transition, `runsys`) and
`pypose/utils/stepper.py` (`ReduceToBason`, the stepper of the MPC loop).

One batch item is modelled (every tensor op of the code is batched item-wise over the leading dims).

* vectors are core `Vector α n`, matrices `Vector (Vector α n) m` (stored, so that every entry is computed once);
* `torch.cat((x,u),-1)` is `append`, the slices `[..., :ns]`, `[..., ns:]` are `Fin.castAdd`/`Fin.natAdd`;
* the system is `Sys`: `f clk x u` is what `system(x,u)[0]` returns when the clock `_t` equals `clk`;
  `A tref x u`, `B tref x u` are what `system.A`, `system.B` return after
  `set_refpoint(state=x, input=u, t=tref)`;
* `cholesky` + `cholesky_solve` is the **contract parameter** `Solver` (never re-implemented as truth).
-/
namespace PP.Lqr
variable {α : Type} [Scalar α]

abbrev Vec (α : Type) (n : Nat) := Vector α n
abbrev Mat (α : Type) (m n : Nat) := Vector (Vector α n) m

/-! ### dense linear algebra (vectors are stored: `Vector.ofFn` evaluates every entry once) -/

def vec {n : Nat} (f : Fin n → α) : Vec α n := Vector.ofFn f
def mat {m n : Nat} (f : Fin m → Fin n → α) : Mat α m n := Vector.ofFn fun i => Vector.ofFn (f i)

def sumFin {n : Nat} (f : Fin n → α) : α := Fin.foldl n (fun acc i => acc + f i) (k 0)

def dot {n : Nat} (x y : Vec α n) : α := sumFin fun (i : Fin n) => x[i] * y[i]
def vzero {n : Nat} : Vec α n := vec fun _ => k 0
def vadd {n : Nat} (x y : Vec α n) : Vec α n := vec fun i => x[i] + y[i]
def vsub {n : Nat} (x y : Vec α n) : Vec α n := vec fun i => x[i] - y[i]
def vneg {n : Nat} (x : Vec α n) : Vec α n := vec fun i => -(x[i])
def mzero {m n : Nat} : Mat α m n := mat fun _ _ => k 0
def madd {m n : Nat} (M N : Mat α m n) : Mat α m n := mat fun i j => M[i][j] + N[i][j]
def mneg {m n : Nat} (M : Mat α m n) : Mat α m n := mat fun i j => -(M[i][j])
/-- `.mT` -/
def tr {m n : Nat} (M : Mat α m n) : Mat α n m := mat fun j i => M[i][j]
/-- `bmv(M, x)` -/
def mulVec {m n : Nat} (M : Mat α m n) (x : Vec α n) : Vec α m := vec fun i => dot M[i] x
/-- `M @ N` -/
def mmul {m n l : Nat} (M : Mat α m n) (N : Mat α n l) : Mat α m l :=
  mat fun i j => sumFin fun (a : Fin n) => M[i][a] * N[a][j]

/-- `torch.cat((x, u), dim=-1)` -/
def append {m n : Nat} (x : Vec α m) (u : Vec α n) : Vec α (m + n) :=
  vec fun i => Fin.addCases (motive := fun _ => α) (fun a => x[a]) (fun b => u[b]) i
/-- `v[..., :m]` -/
def takeL {m n : Nat} (v : Vec α (m + n)) : Vec α m := vec fun i => v[Fin.castAdd n i]
/-- `v[..., m:]` -/
def takeR {m n : Nat} (v : Vec α (m + n)) : Vec α n := vec fun i => v[Fin.natAdd m i]
/-- `F = torch.cat((A, B), dim=-1)` -/
def catCols {r m n : Nat} (A : Mat α r m) (B : Mat α r n) : Mat α r (m + n) := vec fun i => append A[i] B[i]
/-- the four blocks `M[:m,:m]`, `M[:m,m:]`, `M[m:,:m]`, `M[m:,m:]` -/
def blkXX {m n : Nat} (M : Mat α (m + n) (m + n)) : Mat α m m := mat fun i j => M[Fin.castAdd n i][Fin.castAdd n j]
def blkXU {m n : Nat} (M : Mat α (m + n) (m + n)) : Mat α m n := mat fun i j => M[Fin.castAdd n i][Fin.natAdd m j]
def blkUX {m n : Nat} (M : Mat α (m + n) (m + n)) : Mat α n m := mat fun i j => M[Fin.natAdd m i][Fin.castAdd n j]
def blkUU {m n : Nat} (M : Mat α (m + n) (m + n)) : Mat α n n := mat fun i j => M[Fin.natAdd m i][Fin.natAdd m j]

/-! ### system, problem, solver -/

/-- What LQR sees of a `System` object (one batch item). -/
structure Sys (α : Type) (ns nc : Nat) where
  /-- `system(x, u)[0]` when the clock `_t` is `clk` (LTI/LTV: `A_clk x + B_clk u + c1`; NLS: `f(x,u,clk)`) -/
  f : Nat → Vec α ns → Vec α nc → Vec α ns
  /-- `system.A` after `set_refpoint(state, input, t)` (LTI: `_A`; LTV: `_A[t]`; NLS: `∂f/∂x` there) -/
  A : Nat → Vec α ns → Vec α nc → Mat α ns ns
  /-- `system.B` after `set_refpoint(state, input, t)` -/
  B : Nat → Vec α ns → Vec α nc → Mat α ns nc

/-- LTI / LTV system: `x⁺ = A_t x + B_t u + c1_t` (`LTI.state_transition`); for LTI the three are constant. -/
def Sys.linear {ns nc : Nat} (A : Nat → Mat α ns ns) (B : Nat → Mat α ns nc) (c1 : Nat → Vec α ns) : Sys α ns nc where
  f := fun t x u => vadd (vadd (mulVec (A t) x) (mulVec (B t) u)) (c1 t)
  A := fun t _ _ => A t
  B := fun t _ _ => B t

/-- `Q`, `p`, `T` of `LQR.__init__` (after the tiling over `T`). -/
structure Prob (α : Type) (ns nc : Nat) where
  T : Nat
  Q : Nat → Mat α (ns + nc) (ns + nc)
  p : Nat → Vec α (ns + nc)

/-- an argument given either once for the whole horizon (`Q.ndim == 3`, `p.ndim == 2`) or per time step -/
inductive PerStep (β : Type) where
  | once (v : β)
  | each (f : Nat → β)

/-- `torch.tile(arg.unsqueeze(time axis), (1, T, …))`: the same value at every step -/
def PerStep.get {β : Type} : PerStep β → Nat → β
  | .once v, _ => v
  | .each f, t => f t

/-- `LQR.__init__(system, Q, p, T)`: the two `if … .ndim == …: tile` statements, each argument on its own -/
def Prob.ofArgs {ns nc : Nat} (T : Nat) (Q : PerStep (Mat α (ns + nc) (ns + nc))) (p : PerStep (Vec α (ns + nc))) :
    Prob α ns nc := ⟨T, Q.get, p.get⟩

/-- LTI / LTV with the optional constant input: `LTI.state_transition` returns `z if self.c1 is None else z + self.c1` -/
def Sys.linearOpt {ns nc : Nat} (A : Nat → Mat α ns ns) (B : Nat → Mat α ns nc) (c1 : Option (Nat → Vec α ns)) : Sys α ns nc where
  f := fun t x u =>
    let z := vadd (mulVec (A t) x) (mulVec (B t) u)
    match c1 with
    | none => z
    | some c => vadd z (c t)
  A := fun t _ _ => A t
  B := fun t _ _ => B t

/-- `L = cholesky(Quu)`, `cholesky_solve(·, L)` with a matrix / a vector right-hand side. External kernel:
the theorems assume `Quu * solveM Quu Y = Y`, `Quu *ᵥ solveV Quu y = y` for positive-definite `Quu`. -/
structure Solver (α : Type) (ns nc : Nat) where
  solveM : Mat α nc nc → Mat α nc ns → Mat α nc ns
  solveV : Mat α nc nc → Vec α nc → Vec α nc
  /-- `torch.linalg.cholesky` returns (does not raise `_LinAlgError`) on this matrix; contract: true on symmetric PD ones -/
  accepts : Mat α nc nc → Bool

/-- `V`, `v` carried by the backward loop -/
structure Val (α : Type) (ns : Nat) where
  V : Mat α ns ns
  v : Vec α ns

/-- what one backward iteration stores: `K[t]`, `k[t]` (+ the system it solved, for the contract re-check) -/
structure Gain (α : Type) (ns nc : Nat) where
  K : Mat α nc ns
  k : Vec α nc
  Quu : Mat α nc nc
  Qux : Mat α nc ns
  qu : Vec α nc

/-! ### `runsys` (nominal roll-out) -/

/-- `x_traj[0] = x`, `x_traj[i+1] = system(x_traj[i], u_traj[i])[0]`: the nominal input is indexed by the LOOP index `i`,
the system by its clock `clk` (one tick per call) — two different counters, as in `fwFrom`. Returns `n` states. -/
def rollFrom {ns nc : Nat} (S : Sys α ns nc) (ubar : Nat → Vec α nc) : Nat → Nat → Nat → Vec α ns → List (Vec α ns)
  | _, _, 0, _ => []
  | clk, i, n+1, x => x :: rollFrom S ubar (clk+1) (i+1) n (S.f clk x (ubar i))

/-- list as index function (positions past the end: zeros, never read) -/
def nth {n : Nat} (l : List (Vec α n)) (t : Nat) : Vec α n := l.getD t vzero

/-! ### `lqr_backward` -/

section
variable {ns nc : Nat} (sol : Solver α ns nc) (S : Sys α ns nc) (P : Prob α ns nc) (dt : Nat)
  (xbar : Nat → Vec α ns) (ubar : Nat → Vec α nc)

/-- `p = bmv(Q, xut) + p` at time `t` -/
def pbar (t : Nat) : Vec α (ns + nc) := vadd (mulVec (P.Q t) (append (xbar t) (ubar t))) (P.p t)

/-- `Qt`, `qt` of iteration `t` given the `V`, `v` of iteration `t+1` (`none` ⇔ `t == T-1`) -/
def stageQ (t : Nat) : Option (Val α ns) → Mat α (ns + nc) (ns + nc) × Vec α (ns + nc)
  | none => (P.Q t, pbar P xbar ubar t)
  | some w =>
    let A := S.A (t * dt) (xbar t) (ubar t)
    let B := S.B (t * dt) (xbar t) (ubar t)
    let F := catCols A B
    (madd (P.Q t) (mmul (mmul (tr F) w.V) F), vadd (pbar P xbar ubar t) (mulVec (tr F) w.v))

/-- one iteration of the backward loop: gains and the new `V`, `v` -/
def stage (t : Nat) (nxt : Option (Val α ns)) : Gain α ns nc × Val α ns :=
  let Qq := stageQ S P dt xbar ubar t nxt
  let Qt := Qq.1
  let qt := Qq.2
  let Qxx := blkXX Qt
  let Qxu := blkXU Qt
  let Qux := blkUX Qt
  let Quu := blkUU Qt
  let qx : Vec α ns := takeL qt
  let qu : Vec α nc := takeR qt
  let Kt := mneg (sol.solveM Quu Qux)
  let kt := vneg (sol.solveV Quu qu)
  let KtT := tr Kt
  let V := madd (madd (madd Qxx (mmul Qxu Kt)) (mmul KtT Qux)) (mmul (mmul KtT Quu) Kt)
  let v := vadd (vadd (vadd qx (mulVec Qxu kt)) (mulVec KtT qu)) (mulVec (mmul KtT Quu) kt)
  (⟨Kt, kt, Quu, Qux, qu⟩, ⟨V, v⟩)

/-- iterations `t, t+1, …, t+n-1` of `for t in range(T-1, -1, -1)` (run from the last one backwards):
returns the `V, v` of iteration `t` and the gains of `t … t+n-1` -/
def bwFrom (t : Nat) : Nat → Option (Val α ns) × List (Gain α ns nc)
  | 0 => (none, [])
  | n+1 =>
    let r := bwFrom (t+1) n
    let s := stage sol S P dt xbar ubar t r.1
    (some s.2, s.1 :: r.2)

/-! ### `lqr_forward` -/

/-- stage cost `0.5 * bvmv(xut, Q_t, xut) + vecdot(xut, p_t)` -/
def stageCost (t : Nat) (x : Vec α ns) (u : Vec α nc) : α :=
  let xu := append x u
  q 1 2 * dot xu (mulVec (P.Q t) xu) + dot xu (P.p t)

/-- `u_t` of the forward loop -/
def ctrl (g : Gain α ns nc) (t : Nat) (x : Vec α ns) : Vec α nc :=
  vadd (vadd (mulVec g.K (vsub x (xbar t))) g.k) (ubar t)

/-- forward loop: iteration `t` runs with the system clock at `clk` (after `reset()` the two coincide);
returns the states `x_{t+1} …`, the inputs `u_t …`, the accumulated cost -/
def fwFrom : Nat → Nat → Vec α ns → List (Gain α ns nc) → List (Vec α ns) × List (Vec α nc) × α
  | _, _, _, [] => ([], [], k 0)
  | clk, t, x, g :: gs =>
    let u := ctrl xbar ubar g t x
    let c := stageCost P t x u
    let x' := S.f clk x u
    let r := fwFrom (clk+1) (t+1) x' gs
    (x' :: r.1, u :: r.2.1, c + r.2.2)

/-- SPECIFICATION (not code): apply an arbitrary input list from state `x` at time `t` (system clock = step
index): the states reached and the sum of the stage costs `Σ ½ τᵀQ_tτ + p_tᵀτ`. -/
def simulate : Nat → Vec α ns → List (Vec α nc) → List (Vec α ns) × α
  | _, _, [] => ([], k 0)
  | t, x, u :: us =>
    let x' := S.f t x u
    let r := simulate (t+1) x' us
    (x' :: r.1, stageCost P t x u + r.2)

end

/-- result of `LQR.forward` -/
structure Out (α : Type) (ns nc : Nat) where
  x : List (Vec α ns)
  u : List (Vec α nc)
  cost : α
  gains : List (Gain α ns nc)

/-- `System.reset()`: `_t.fill_(0)` -/
def resetClock (_clk : Nat) : Nat := 0

/-- `LQR.forward(x_init, dt, u_traj)` once the two `system.reset()` calls have put the clock to `c1`
(before `runsys`) and `c2` (before the forward loop). -/
def lqrAt {ns nc : Nat} (sol : Solver α ns nc) (S : Sys α ns nc) (P : Prob α ns nc) (dt : Nat)
    (x0 : Vec α ns) (ubar : Nat → Vec α nc) (c1 c2 : Nat) : Out α ns nc :=
  let xl := rollFrom S ubar c1 0 P.T x0
  let xbar := nth xl
  let gs := (bwFrom sol S P dt xbar ubar 0 P.T).2
  let r := fwFrom S P xbar ubar c2 0 x0 gs
  ⟨x0 :: r.1, r.2.1, r.2.2, gs⟩

/-- `LQR.forward(x_init, dt, u_traj)`: `reset(); runsys; backward loop; reset(); forward loop`.
`ubar = u_traj` (zeros when `u_traj is None`). Both passes start from clock 0 whatever the clock was. -/
def lqr {ns nc : Nat} (sol : Solver α ns nc) (S : Sys α ns nc) (P : Prob α ns nc) (dt : Nat)
    (x0 : Vec α ns) (ubar : Nat → Vec α nc) : Out α ns nc :=
  lqrAt sol S P dt x0 ubar (resetClock 0) (resetClock 0)

/-- The call as a transition of the system object's clock: entered with the clock at `clk`, the first
`reset()` puts it to 0, `runsys` advances it `T-1` times, (`set_refpoint` may write it), the second `reset()`
puts it to 0 again and the `T` forward calls leave it at `T`. -/
def lqrCall {ns nc : Nat} (sol : Solver α ns nc) (S : Sys α ns nc) (P : Prob α ns nc) (dt : Nat)
    (x0 : Vec α ns) (ubar : Nat → Vec α nc) (clk : Nat) : Out α ns nc × Nat :=
  let c1 := resetClock clk
  let c2 := resetClock (c1 + (P.T - 1))
  (lqrAt sol S P dt x0 ubar c1 c2, c2 + P.T)

/-- a history on one system object: solves (each with its own problem, start, nominal) interleaved with
arbitrary clock writes (`systime = v`, `reset(v)`, forward calls) -/
inductive Op (α : Type) (ns nc : Nat) where
  | solve (P : Prob α ns nc) (dt : Nat) (x0 : Vec α ns) (ubar : Nat → Vec α nc)
  | setClock (v : Nat)
  | forward (n : Nat)
  /-- a call that raised somewhere inside (solver, user system, argument check) and was caught by the caller: no
  result, the clock is left wherever the exception found it -/
  | failed (clkAfter : Nat)

/-- run a history from clock `clk`; returns the results of the solves in order and the final clock -/
def runHistory {ns nc : Nat} (sol : Solver α ns nc) (S : Sys α ns nc) : List (Op α ns nc) → Nat → List (Out α ns nc) × Nat
  | [], clk => ([], clk)
  | .solve P dt x0 ubar :: rest, clk =>
    let r := lqrCall sol S P dt x0 ubar clk
    let q := runHistory sol S rest r.2
    (r.1 :: q.1, q.2)
  | .setClock v :: rest, _ => runHistory sol S rest v
  | .forward n :: rest, clk => runHistory sol S rest (clk + n)
  | .failed c :: rest, _ => runHistory sol S rest c

/-- two objects (an original and its deep copy: own clock each) used interleaved; `true` = an operation on the
first, `false` = on the second. Returns the results of the solves of each. -/
def runTwo {ns nc : Nat} (sol : Solver α ns nc) (S : Sys α ns nc) :
    List (Bool × Op α ns nc) → Nat → Nat → List (Out α ns nc) × List (Out α ns nc)
  | [], _, _ => ([], [])
  | (true, op) :: rest, c1, c2 =>
    let r := runHistory sol S [op] c1
    let q := runTwo sol S rest r.2 c2
    (r.1 ++ q.1, q.2)
  | (false, op) :: rest, c1, c2 =>
    let r := runHistory sol S [op] c2
    let q := runTwo sol S rest c1 r.2
    (q.1, r.1 ++ q.2)

/-- list of inputs as `u_traj` -/
def ofList {n : Nat} (l : List (Vec α n)) : Nat → Vec α n := nth l

/-! ### `ReduceToBason` (the stepper of the MPC loop) -/

structure Stepper (α : Type) where
  maxSteps : Int
  patience : Nat
  decreasing : α
  tol : α
  /-- `last` (`none` = `inf`) -/
  last : Option α
  steps : Nat
  patienceCount : Nat
  continual : Bool

/-- `_Stepper.reset`: `last = inf; steps, _continual, patience_count = 0, True, 0` -/
def Stepper.reset (s : Stepper α) : Stepper α :=
  { s with last := none, steps := 0, continual := true, patienceCount := 0 }

/-- `(last - loss)/loss < decreasing` with the IEEE conventions for `last = inf` and `loss = 0` -/
def Stepper.slow (s : Stepper α) (loss : α) : Bool :=
  match s.last with
  | none => Scalar.lt loss (k 0)            -- (inf - loss)/loss = ±inf (nan for loss = 0)
  | some l =>
    if Scalar.lt loss (k 0) || Scalar.lt (k 0) loss then Scalar.lt ((l - loss) / loss) s.decreasing
    else Scalar.lt l (k 0)                  -- l/0 = ±inf, nan for l = 0

/-- `ReduceToBason.step(loss)` -/
def Stepper.step (s : Stepper α) (loss : α) : Stepper α :=
  let steps := s.steps + 1
  let c1 := if Scalar.lt loss s.tol then false else s.continual
  let c2 := if s.maxSteps ≤ (steps : Int) then false else c1
  let pc := if s.slow loss then s.patienceCount + 1 else 0
  let c3 := if s.patience ≤ pc then false else c2
  { s with steps := steps, last := some loss, patienceCount := pc, continual := c3 }

/-- `ReduceToBason(steps, patience=5, decreasing=1e-3, tol=1e-5)` -/
def Stepper.new (steps : Int) (patience : Nat) (decreasing tol : α) : Stepper α :=
  ⟨steps, patience, decreasing, tol, none, 0, 0, true⟩

/-- the stepper `MPC.__init__` builds when `stepper is None`: `ReduceToBason(steps=10)` -/
def Stepper.default : Stepper α := Stepper.new 10 5 (q 1 1000) (q 1 100000)

/-- `MPC.__init__`: `self.stepper = ReduceToBason(steps=10) if stepper is None else stepper; self.stepper.max_steps -= 1`
(n-1 loops, the last solve is made outside the loop) -/
-- NOTE: the code decrements the CALLER's stepper object in place: two MPC objects built around one stepper decrement it
-- twice (the harness' `shared_stepper` cases pass the already decremented budget to the model).
def mpcInit (st : Option (Stepper α)) : Stepper α :=
  let s := st.getD Stepper.default
  { s with maxSteps := s.maxSteps - 1 }

/-! ### `MPC.forward` -/

/-- `best = {'x','u','cost'}` -/
structure Best (α : Type) (ns nc : Nat) where
  u : Option (List (Vec α nc))
  cost : Option α

/-- `u_traj` argument of `LQR.forward`: `None` → zeros -/
def nomOf {nc : Nat} : Option (List (Vec α nc)) → Nat → Vec α nc
  | none => fun _ => vzero
  | some l => ofList l

/-- how `LQR.forward` can fail on inputs the model can express -/
inductive LqrError where
  /-- `u_traj` given with a number of steps other than `T` (the code raises in `torch.cat((x_traj, u_traj))`) -/
  | nominalLength
  /-- `cholesky(Quu)` raised at some step of the backward loop -/
  | notPD
deriving DecidableEq, Repr

/-- `LQR.forward(x_init, dt, u_traj)` with its error branches: a `u_traj` of the wrong length and a `Quu` that Cholesky rejects
raise; otherwise `lqr` with `nomOf u_traj` (where `nomOf` never pads, because the length is `T`). Shape / dtype asserts
(`x_init.ndim == 2`, equal dtypes and devices) have no counterpart: the model is typed. -/
def nominalOK {nc : Nat} (T : Nat) : Option (List (Vec α nc)) → Bool
  | none => true
  | some l => l.length == T

def lqrChecked {ns nc : Nat} (sol : Solver α ns nc) (S : Sys α ns nc) (P : Prob α ns nc) (dt : Nat)
    (x0 : Vec α ns) (utraj : Option (List (Vec α nc))) : Except LqrError (Out α ns nc) :=
  if nominalOK P.T utraj then
    if (lqr sol S P dt x0 (nomOf utraj)).gains.all (fun g => sol.accepts g.Quu) then .ok (lqr sol S P dt x0 (nomOf utraj))
    else .error .notPD
  else .error .nominalLength

/-- the `while self.stepper.continual()` loop, at most `fuel` iterations (the stepper stops after
`max_steps`, so `fuel = max_steps + 1` loses nothing); returns `best['u']`, the stepper, the iteration count -/
def mpcLoop {ns nc : Nat} (sol : Solver α ns nc) (S : Sys α ns nc) (P : Prob α ns nc) (dt : Nat) (x0 : Vec α ns) :
    Nat → Stepper α → Option (List (Vec α nc)) → Best α ns nc → Nat → Best α ns nc × Stepper α × Nat
  | 0, st, _, best, n => (best, st, n)
  | fuel+1, st, u, best, n =>
    if st.continual then
      let o := lqr sol S P dt x0 (nomOf u)
      let st' := st.step o.cost
      let better := match best.cost with
        | none => true
        | some c => Scalar.lt o.cost c
      let best' : Best α ns nc := if better then ⟨some o.u, some o.cost⟩ else best
      mpcLoop sol S P dt x0 fuel st' (some o.u) best' (n+1)
    else (best, st, n)

/-- `MPC.forward(dt, x_init, u_init)`: stepper reset, loop, one more solve around `best['u']`. -/
def mpc {ns nc : Nat} (sol : Solver α ns nc) (S : Sys α ns nc) (P : Prob α ns nc) (dt : Nat) (x0 : Vec α ns)
    (fuel : Nat) (st : Stepper α) (uinit : Option (List (Vec α nc))) : Out α ns nc × Stepper α × Nat :=
  let r := mpcLoop sol S P dt x0 fuel st.reset uinit ⟨uinit, none⟩ 0
  (lqr sol S P dt x0 (nomOf r.1.u), r.2.1, r.2.2)

/-! ### a nonlinear, time-dependent test system (for the NLS / MPC correspondence stream)
`f_i(x,u,t) = (A x + B u + c)_i + a_i · sin(w_i·x + r_i·u + φ_i t)`; its Jacobians in closed form.
`NLS.forward` passes the clock as `t`; `set_refpoint` passes `t*dt`. -/

def Sys.sinSys {ns nc : Nat} (A : Mat α ns ns) (B : Mat α ns nc) (c a phi : Vec α ns) (W : Mat α ns ns)
    (R : Mat α ns nc) : Sys α ns nc where
  f := fun t x u => vec fun i =>
    (dot A[i] x + dot B[i] u + c[i]) + a[i] * Scalar.sin (dot W[i] x + dot R[i] u + phi[i] * k t)
  A := fun t x u => mat fun i j => A[i][j] + a[i] * Scalar.cos (dot W[i] x + dot R[i] u + phi[i] * k t) * W[i][j]
  B := fun t x u => mat fun i j => B[i][j] + a[i] * Scalar.cos (dot W[i] x + dot R[i] u + phi[i] * k t) * R[i][j]

end PP.Lqr
