import Proofs.Lemmas.AutogradLog
#print axioms PP.AD.SO3Log_tangent
