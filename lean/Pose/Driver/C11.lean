import Pose.Wire
import Pose.Driver.Lie
/-! Driver ops for C11. -/
namespace PP.Driver
open PP Wire

def opsC11 : List (String × Handler) := []

end PP.Driver
