"""C17 — point-set alignment (svdtf, svdstf), ICP, EPnP.

Model: lean/Pose/Model/Align.lean; theorems: lean/Proofs/Props/C17.lean.

Streams
  align : pp.svdtf / pp.svdstf on batched, broadcast clouds of every rank structure; every item of the real result
          is compared with the model (SVD = contract-checked Jacobi stand-in, 192 bit): exact cost of the
          implementation's transform vs the model's optimum, rotation / translation / scale blocks when the optimum
          is well conditioned, raised exception vs the model's `Except`.
  icp   : pp.module.ICP with recording steppers (fixed number of passes 0..n, ReduceToBason), init given to the
          constructor / to forward / both, the same module object called repeatedly; final transform, errors handed
          to the stepper and the closest-point objective against the model's loop.
  epnp  : (no model — declared partial) pp.module.EPnP against ground truth on generated scenes.
Oracles on the real code: validity (type, shape, unit quaternion, positive scale), purity, exact reproduction of
noise-free correspondences, no better competitor (ground truth, the four proper sign choices of an independent
float64 SVD, local perturbations), ICP objective never above the initial one and non-increasing in the number of
passes, exact recovery inside the convergence basin, EPnP pose and reprojection error.
"""
from __future__ import annotations

import math
import random
import warnings

import torch

from . import common, util_c17 as U
from .common import Ctx, InfraError

META = {
    "rule": "align: a deterministic corner corpus (3-point, planar, collinear, two distinct points, mirror images, mixed "
            "reflection batches, far offsets, extreme scales, both dtypes) followed by random specs: N from {3,4,5,6,8,13,50,200}+random, "
            "cloud kind from 9 rank structures (exact and rotated), rotation kind over all of SO(3) incl. exactly pi, scale ladder "
            "0.01..100 (svdstf), translation 0..1e4 extents, noise 0..0.5 (isotropic / one direction / mirror), batch shapes (), (B), (B1,B2) "
            "with broadcast of source or target; icp: N 3..200, permuted/partial/noisy targets, perturbations inside and outside the "
            "basin, 0..6 passes and ReduceToBason, init in ctor/forward/both, repeated calls; epnp: 6..100 points, f 200..2000, "
            "depth 2..12 extents, refine on/off, batch, intrinsics in ctor/forward. Non-trivial = not (identity transform and zero noise); "
            "distinct by (stream, fn, dtype, N-bucket, cloud, rotation kind, noise kind, reflection, batch shape).",
    "hardening": "views (strided / transposed / offset / expanded), the same tensor as both arguments, in-place updates of the caller's tensors between "
                 "calls, every batched item against the item alone, one ICP / EPnP object through histories of calls with every per-call argument "
                 "varied (each call bit-equal to a fresh module, public attributes unchanged), extents 1e-6..1e6",
    "trusted": ["torch.linalg.svd / det / topk / eig / lstsq are external kernels (contracts); the driver's Jacobi SVD stand-in is "
                "re-checked against the SVD contract on every call",
                "the existence of an SVD for every real 3x3 matrix (hypothesis `SVDOk` of the theorems) is classical mathematics, not proved here"],
    "assumptions": ["svdstf: Umeyama scale above mat2Sim3's rank threshold atol=1e-5 and sources not all equal (otherwise the code raises / divides by zero; "
                    "outside the property's quantifier)",
                    "ICP basin clause: the initial nearest-neighbour assignment is the true correspondence (hypothesis of icp_recovers)"],
    "partial": ["EPnP recovery from exact projections is not modelled (six-stage pipeline of external kernels): ground-truth comparison on "
                "generated scenes only (sampling)",
                "floating-point accuracy of the returned transform rides on the correspondence tolerances (theorems are over the reals); "
                "unit norm of the returned quaternion is checked to 32 eps (not re-normalised product of float SVD factors), EPnP accuracy "
                "against empirical tier tolerances (>= 50 x the worst of 20 000 clean scenes per tier)",
                "ICP 'recovers small exact rigid perturbations': proved under the explicit basin hypothesis (correct initial assignment); that a "
                "given perturbation size implies the hypothesis is checked by sampling"],
}

ATOL = 1e-5
UNIT_TOL = 32
RATIOS: dict = {}
torch.set_num_threads(1)   # tiny tensors: OpenMP fan-out only costs time on a shared machine


def track(name: str, err: float, tol: float):
    """largest observed error/tolerance ratio per check (reported in the evidence notes: head-room of the tolerances)"""
    if tol > 0 and math.isfinite(err) and math.isfinite(tol):
        RATIOS[name] = max(RATIOS.get(name, 0.0), err / tol)


def pp():
    import pypose
    return pypose


# ----------------------------------------------------------------------------- align stream

def item_spec(r: random.Random, N: int, fn: str, corner: dict | None = None) -> dict:
    spec = {
        "seed": r.randrange(1 << 30), "N": N,
        "cloud": r.choice(U.CLOUD_KINDS), "extent": r.choice([1.0, 1.0, 1.0, 1e-3, 30.0, 1e-6, 1e3, 1e6]),
        "rotate": r.random() < 0.6, "offset": r.choice([0.0, 0.0, 1.0, 3.0, 100.0, 1e4]),
        "qkind": r.choice(U.QUAT_KINDS),
        "scale": (r.choice([0.1, 0.5, 1.0, 1.0, 2.0, 10.0, 0.01, 100.0, r.uniform(0.1, 10)]) if fn == "svdstf" else 1.0),
        "tmag": r.choice([0.0, 1e-3, 1.0, 1.0, 10.0, 1e4]),
        "noise": r.choice([0.0, 0.0, 0.0, 1e-12, 1e-6, 1e-3, 0.01, 0.1, 0.3, 0.5]),
        "nkind": r.choice(["iso", "iso", "iso", "normal", "mirror"]),
    }
    if corner:
        spec.update(corner)
    return spec


def build_case(r: random.Random, fn: str, N: int, dtype: str, batch, bcast: str, with_scale: bool = True,
               corners=None, tag: str = "random") -> dict:
    nb = int(math.prod(batch)) if batch else 1
    items = []
    for i in range(nb):
        c = None
        if corners:
            c = corners[i % len(corners)]
        items.append(item_spec(r, N, fn, c))
    if bcast == "src1":      # one source cloud shared by all items (targets differ)
        for it in items[1:]:
            for key in ("seed_src",):
                it[key] = items[0]["seed"]
    return {"kind": "align", "fn": fn, "N": N, "dtype": dtype, "batch": list(batch), "bcast": bcast, "with_scale": with_scale,
            "items": items, "tag": tag}


def materialise(case):
    """tensors (dtype) of shape batch+(N,3) for source/target, plus per-item float64 views and truths"""
    srcs, tgts, truths = [], [], []
    for it in case["items"]:
        s, t, tr = U.make_item(it)
        if case["bcast"] == "src1" and srcs:
            # shared source: regenerate this item's target from the first item's source with this item's transform
            it2 = dict(it)
            it2["seed"] = it["seed"]
            s0 = srcs[0]
            r = random.Random(it["seed"] ^ 0x5bd1e995)
            q = U.rand_quat(r, it["qkind"])
            R = U.q_to_mat(q)
            sc = it["scale"]
            td = U.q_normalize([r.gauss(0, 1) for _ in range(3)] + [0.0])[:3]
            tv = [it["tmag"] * it["extent"] * v for v in td]
            sig = it["noise"] * it["extent"] * sc
            t = []
            for p in s0:
                y = U.mat_vec(R, p)
                t.append([sc * y[j] + tv[j] + (r.gauss(0, 1) * sig if sig else 0.0) for j in range(3)])
            s, tr = s0, {"q": q, "t": tv, "s": sc}
            tr["shared"] = True
        tr["exact"] = it["noise"] == 0 and (it["nkind"] != "mirror" or tr.get("shared", False)) and \
            not (case["bcast"] == "tgt1" and srcs)
        srcs.append(s)
        tgts.append(t)
        truths.append(tr)
    if case.get("alias"):      # the same tensor is passed as source and target: the identity is the exact answer
        tgts = [list(map(list, s_)) for s_ in srcs]
        truths = [{"q": [0.0, 0.0, 0.0, 1.0], "t": [0.0, 0.0, 0.0], "s": 1.0, "exact": True} for _ in srcs]
    dt = case["dtype"]
    batch = tuple(case["batch"])
    N = case["N"]
    St, S64 = U.to_dtype(srcs, dt)
    Tt, T64 = U.to_dtype(tgts, dt)
    if case["bcast"] == "src1":
        src_t = St[0].reshape((1,) * max(0, len(batch) - 1) + (N, 3)) if len(batch) > 1 else St[0]
    else:
        src_t = St.reshape(batch + (N, 3))
    tgt_t = Tt.reshape(batch + (N, 3))
    if case["bcast"] == "tgt1" and len(batch) >= 1:
        # all items share the first target: overwrite
        tgt_t = Tt[0]
        T64 = T64[0:1].expand(len(srcs), N, 3).clone()
    return src_t, tgt_t, S64, T64, truths


LAYOUTS = ["contig", "contig", "strided", "transposed", "offset", "expanded"]


def relayout(t: torch.Tensor, layout: str, batch_to=None):
    """the same values as `t` presented as a non-trivial view: returns (view, backing buffer or None).
    strided   : every second row / inner columns of a larger sentinel-filled buffer (non-contiguous in both axes)
    transposed: stored as (..., 3, N), handed over as `.mT`
    offset    : a contiguous slice in the middle of a larger 1-D buffer (non-zero storage offset)
    expanded  : leading batch axes added with stride 0 (`expand`)"""
    if layout == "strided":
        big = torch.full(t.shape[:-2] + (2 * t.shape[-2] + 1, 5), 7.25, dtype=t.dtype)
        v = big[..., 1:2 * t.shape[-2] + 1:2, 1:4]
        v.copy_(t)
        return v, big
    if layout == "transposed":
        big = t.mT.contiguous()
        return big.mT, big
    if layout == "offset":
        n = t.numel()
        big = torch.full((n + 10,), -3.5, dtype=t.dtype)
        big[5:5 + n] = t.reshape(-1)
        return big[5:5 + n].view(t.shape), big
    if layout == "expanded" and batch_to is not None and t.dim() == 2:
        return t.expand(tuple(batch_to) + tuple(t.shape)), t
    return t, None


def call_align(case, src_t, tgt_t):
    P = pp()
    if case["fn"] == "svdtf":
        return P.svdtf(src_t, tgt_t)
    if case.get("default_arg"):
        return P.svdstf(src_t, tgt_t)
    return P.svdstf(src_t, tgt_t, with_scale=case["with_scale"])


def sign_candidates(src, tgt, scale_mode):
    """competitors from an independent float64 SVD: U diag(±1,±1,±1) Vh with det = +1 (all four proper sign choices),
    each with its own optimal scale (svdstf) / scale 1 and optimal translation; as (s, R, t)"""
    st = U.stats(src, tgt)
    sc = src.double() - st["cs"]
    tc = tgt.double() - st["ct"]
    M = tc.T @ sc
    try:
        Uu, Sv, Vh = torch.linalg.svd(M)
    except Exception:
        return []
    out = []
    for sg in ((1, 1, 1), (1, 1, -1), (1, -1, 1), (-1, 1, 1), (1, -1, -1), (-1, 1, -1), (-1, -1, 1), (-1, -1, -1)):
        D = torch.diag(torch.tensor(sg, dtype=torch.float64))
        R = Uu @ D @ Vh
        if torch.det(R) < 0:
            continue
        m = float((R * M).sum())
        s = 1.0
        if scale_mode and st["A"] > 0:
            s = m / st["A"]
            if not s > 0:
                continue
        t = st["ct"] - s * (R @ st["cs"])
        out.append((s, R, t))
    return out


def cost_srt(s, R, t, src, tgt):
    return float(((s * (src.double() @ R.T) + t - tgt.double()) ** 2).sum())


def small_rot(ax, ang):
    v = [0.0, 0.0, 0.0]
    v[ax] = math.sin(ang / 2)
    return torch.tensor(U.q_to_mat(v + [math.cos(ang / 2)]), dtype=torch.float64)


def oracle_item(ctx: Ctx, case, idx, X, src, tgt, truth, eps):
    """the property's own statement on the real result `X` (storage vector, float64 copy) of item `idx`"""
    fn = case["fn"]
    it = case["items"][idx]
    cid = dict(case, item=idx)
    ok = True
    st = U.stats(src, tgt)
    q = X[3:7]
    nq = float(q.norm())
    # the quaternion is extracted (not re-normalised) from U·M·V of a float SVD: each factor is orthogonal to a few eps;
    # 8.02·eps32 was observed once in 40 000 float32 items, hence 32·eps here (the shared 8·eps is for single group ops)
    track("unit", abs(nq - 1), UNIT_TOL * eps)
    if not (abs(nq - 1) <= UNIT_TOL * eps):
        ctx.fail(cid, f"valid: {fn} quaternion norm {nq!r} differs from 1 by more than {UNIT_TOL} eps")
        ok = False
    if fn == "svdstf" and not (float(X[7]) > 0 and math.isfinite(float(X[7]))):
        ctx.fail(cid, f"valid: svdstf scale {float(X[7])!r} is not a positive finite number")
        return False
    if fn == "svdstf" and not case["with_scale"] and abs(float(X[7]) - 1) > 16 * eps:
        ctx.fail(cid, f"noscale: svdstf(with_scale=False) returned scale {float(X[7])!r}")
        ok = False
    if not torch.isfinite(X).all():
        ctx.fail(cid, f"valid: {fn} returned non-finite numbers")
        return False
    if st["A"] == 0 or st["B"] == 0:
        return ok
    c_impl = U.cost_vec(X, src, tgt)
    cent = 1 + st["Ds"] / st["ss"] + st["Dt"] / st["st"]
    sc = float(X[7]) if fn == "svdstf" else 1.0
    tolc = cost_tol(eps, st, sc, cent)
    # float64 evaluation noise of the two costs being compared (coordinates of size D, residuals of size sqrt(c/N))
    e64 = common.EPS["float64"]
    tolc += 32 * e64 * (st["Dt"] + sc * st["Ds"]) * math.sqrt(st["N"] * max(c_impl, 0.0)) + 64 * st["N"] * (e64 * (st["Dt"] + sc * st["Ds"])) ** 2
    # competitors of the same class
    comps = []
    scale_mode = fn == "svdstf" and case["with_scale"]
    if scale_mode or truth["s"] == 1.0:      # the generating transform is of the same class: a legitimate competitor
        Rt = torch.tensor(U.q_to_mat(truth["q"]), dtype=torch.float64)
        comps.append(("generating", truth["s"], Rt, torch.tensor(truth["t"], dtype=torch.float64)))
    for k, (s, R, t) in enumerate(sign_candidates(src, tgt, scale_mode)):
        comps.append((f"svd-sign-choice-{k}", s, R, t))
    Ri = U.quat_mat_t(q / q.norm())
    for ax in range(3):
        for ang in (1e-3, -1e-3, 0.2):
            R2 = small_rot(ax, ang) @ Ri
            s2 = sc
            t2 = st["ct"] - s2 * (R2 @ st["cs"])
            comps.append((f"perturbed-rotation-{ax}", s2, R2, t2))
    if scale_mode:
        for f in (1 + 1e-3, 1 - 1e-3):
            comps.append(("perturbed-scale", sc * f, Ri, st["ct"] - sc * f * (Ri @ st["cs"])))
    comps.append(("perturbed-translation", sc, Ri, X[:3].double() + 1e-3 * (st["st"] + 1e-300)))
    for name, s, R, t in comps:
        c2 = cost_srt(s, R, t, src, tgt)
        if c_impl > c2 + tolc:
            ctx.fail(cid, f"optimality: {fn} result has sum of squared residuals {c_impl:.6e} but the {name} transform of the same class "
                          f"has {c2:.6e} (allowance {tolc:.2e}; N={st['N']}, cloud={it['cloud']}, noise={it['noise']}/{it['nkind']})")
            ok = False
            break
    return ok


def cost_tol(eps, st, sc, cent):
    """allowance on `cost(implementation) - cost(optimum)`, first order in eps:
    * the rotation / scale are determined from M only to eps·cent·‖M‖ (cent: digits lost by centring); in an
      ill-conditioned direction this costs up to that much;
    * a quaternion with unit norm only to UNIT_TOL·eps scales the rotation by 1 ± 2·UNIT_TOL·eps, which changes the
      cost by up to 4·2·UNIT_TOL·eps·(s²A + B);
    * rounding of the translation: N·(eps·D)²."""
    return 32 * eps * cent * math.sqrt(st["A"] * st["B"]) + 8 * UNIT_TOL * eps * (sc * sc * st["A"] + st["B"]) + \
        64 * st["N"] * (eps * (st["Dt"] + sc * st["Ds"])) ** 2


def exact_tol(eps, st, sc, S, det):
    s1 = S[0]
    gap = S[1] + det * S[2]
    kap = min(s1 / gap if gap > 0 else float("inf"), eps ** -0.5)
    cent = 1 + st["Ds"] / st["ss"] + st["Dt"] / st["st"]
    return 64 * eps * (st["Dt"] + sc * st["Ds"]) * cent * kap


def drive(ctx: Ctx, gens):
    """run generator-style checks in lock-step so that all their model requests of one round go to the driver in a
    single batch (the driver fans a batch out over processes); returns the generators' results"""
    results = [None] * len(gens)
    pending = {}
    for i, g in enumerate(gens):
        try:
            pending[i] = next(g)
        except StopIteration as e:
            results[i] = e.value
    while pending:
        order = list(pending)
        flat = [ln for i in order for ln in pending[i]]
        reps = ctx.driver.run(flat) if flat else []
        pos, nxt = 0, {}
        for i in order:
            k = len(pending[i])
            try:
                nxt[i] = gens[i].send(reps[pos:pos + k])
            except StopIteration as e:
                results[i] = e.value
            pos += k
        pending = nxt
    return results


def _safe_align(case, a, b):
    with warnings.catch_warnings():
        warnings.simplefilter("ignore")
        try:
            return call_align(case, a, b), None
        except Exception as e:      # noqa: BLE001
            return None, e


def mixed_and_stale(ctx: Ctx, case, src_t, tgt_t, S64, T64, Xf, eps) -> bool:
    """(7) every item of a batched call against the same call on that item alone; (5) the caller's tensors are updated in
    place after the call and the function is called again: the result must describe the *current* contents."""
    fn, nb = case["fn"], len(case["items"])
    dt = src_t.dtype
    ok = True
    if nb > 1:
        ctx.count("align.item-alone", nb)
        for i in range(nb):
            src = S64[i if case["bcast"] != "src1" else 0]
            tgt = T64[i]
            st = U.stats(src, tgt)
            if st["A"] == 0 or st["B"] == 0:
                continue
            Xi, err = _safe_align(case, src.to(dt), tgt.to(dt))
            if err is not None:
                ctx.count("align.item-alone-raises")     # mat2Sim3's batch-level rank test: alone the item may raise
                continue
            Xi = Xi.tensor().detach().double().reshape(-1)
            if Xi.shape != Xf[i].shape or not torch.isfinite(Xi).all() or not torch.isfinite(Xf[i]).all():
                continue
            cb, ca = U.cost_vec(Xf[i], src, tgt), U.cost_vec(Xi, src, tgt)
            sc = float(Xi[7]) if fn == "svdstf" else 1.0
            cent = 1 + st["Ds"] / st["ss"] + st["Dt"] / st["st"]
            e64 = common.EPS["float64"]
            tol = cost_tol(eps, st, sc, cent) + 32 * e64 * (st["Dt"] + sc * st["Ds"]) * math.sqrt(st["N"] * max(cb, ca, 0.0)) \
                + 64 * st["N"] * (e64 * (st["Dt"] + sc * st["Ds"])) ** 2
            track("alone", abs(cb - ca), tol)
            if not (abs(cb - ca) <= tol):
                ctx.fail(dict(case, item=i), f"batch: item {i} of the batched {fn} call has sum of squared residuals {cb:.6e}, the same item alone "
                                             f"{ca:.6e} (allowance {tol:.2e}; batch {case['batch']}, {case['bcast']})")
                ok = False
    if case.get("alias") or case["bcast"] != "none" or src_t.numel() == 0:
        return ok
    # stale reads: overwrite the caller's tensors in place (through the views they were given as) and call again
    new_src = (src_t.flip(-2) * 1.5 + 0.25 * float(src_t.abs().max())).clone()
    new_tgt = (tgt_t.roll(1, -2) * 0.75).clone()
    src_t.copy_(new_src)
    tgt_t.copy_(new_tgt)
    Xs, e1 = _safe_align(case, src_t, tgt_t)
    Xr, e2 = _safe_align(case, new_src, new_tgt)
    ctx.count("align.stale-read")
    if (e1 is None) != (e2 is None):
        ctx.fail(case, f"stale: after an in-place update of its arguments {fn} {'raises' if e1 else 'returns'} while a fresh call on the "
                       f"same values {'raises' if e2 else 'returns'} ({type(e1 or e2).__name__})")
        return False
    if e1 is None:
        Xs = Xs.tensor().detach().double().reshape(nb, -1)
        Xr = Xr.tensor().detach().double().reshape(nb, -1)
        for i in range(nb):
            a, b = new_src.double().reshape(nb, -1, 3)[i], new_tgt.double().reshape(nb, -1, 3)[i]
            st = U.stats(a, b)
            if st["A"] == 0 or st["B"] == 0 or not torch.isfinite(Xs[i]).all() or not torch.isfinite(Xr[i]).all():
                continue
            cs_, cr_ = U.cost_vec(Xs[i], a, b), U.cost_vec(Xr[i], a, b)
            sc = float(Xr[i][7]) if fn == "svdstf" else 1.0
            cent = 1 + st["Ds"] / st["ss"] + st["Dt"] / st["st"]
            e64 = common.EPS["float64"]
            tol = cost_tol(eps, st, sc, cent) + 32 * e64 * (st["Dt"] + sc * st["Ds"]) * math.sqrt(st["N"] * max(cs_, cr_, 0.0)) \
                + 64 * st["N"] * (e64 * (st["Dt"] + sc * st["Ds"])) ** 2
            track("stale", abs(cs_ - cr_), tol)
            if not (abs(cs_ - cr_) <= tol):
                ctx.fail(dict(case, item=i), f"stale: after an in-place update of the caller's tensors {fn} returns a transform with sum of squared "
                                             f"residuals {cs_:.6e} on the current contents; a fresh call gives {cr_:.6e} (allowance {tol:.2e})")
                ok = False
    return ok


def check_align_case(ctx: Ctx, case, use_model=True) -> bool:
    return drive(ctx, [check_align_gen(ctx, case, use_model)])[0]


def check_align_gen(ctx: Ctx, case, use_model=True):
    fn, dtype, N = case["fn"], case["dtype"], case["N"]
    eps = common.EPS[dtype]
    src_t, tgt_t, S64, T64, truths = materialise(case)
    nb = len(case["items"])
    batch = tuple(case["batch"])
    # views and aliases: the arguments are handed over as non-trivial views of larger buffers
    lay = case.get("layout", ["contig", "contig"])
    src_t, sbuf = relayout(src_t, lay[0], batch if case["bcast"] == "src1" else None)
    tgt_t, tbuf = relayout(tgt_t, lay[1], batch if case["bcast"] == "tgt1" else None)
    if case.get("alias"):
        tgt_t = src_t       # the very same tensor object as both arguments
    keep = [(b, b.clone()) for b in (sbuf, tbuf) if b is not None]
    mon = common.PurityMonitor()
    ok = True
    raised = None
    with warnings.catch_warnings():
        warnings.simplefilter("ignore")
        try:
            X = mon.call(fn, call_align, case, src_t, tgt_t)
        except Exception as e:      # noqa: BLE001 — the real code raised
            raised = e
    if mon.mutations:
        ctx.fail(case, f"mutation: {fn} changed its argument {mon.mutations[0]['argument']} (layout {lay})")
        ok = False
    for b, b0 in keep:
        if not torch.equal(b, b0):
            ctx.fail(case, f"mutation: {fn} wrote into the buffer its argument is a view of (layout {lay})")
            ok = False
    # model lines (one per item)
    lines = []
    for i in range(nb):
        pts = common.wire_list(S64[i if case["bcast"] != "src1" else 0].flatten().tolist()) + " " + common.wire_list(T64[i].flatten().tolist())
        if fn == "svdtf":
            lines.append(f"c17.svdtf {N} {pts}")
        else:
            lines.append(f"c17.svdstf {1 if case['with_scale'] else 0} {N} {pts}")
    reps = (yield lines) if use_model else [None] * nb
    model = []
    for rep in reps:
        if rep is None:
            model.append(None)
            continue
        stt, payload = common.parse_reply(rep)
        if stt == "err":
            if payload.startswith("raise:"):
                model.append(("raise", payload[6:]))
            else:
                raise InfraError(f"C17 driver stand-in failed its contract: {payload}")
        else:
            model.append(("ok", [float(common.from_wire(t)) for t in payload]))
    m_raises = [m for m in model if m and m[0] == "raise"]
    # mat2Sim3's rank test looks at the whole batch: it raises only if *every* item has a scale below atol; any other
    # conversion error (orthogonality / determinant) of one item raises for the batch
    m_all_rank = bool(m_raises) and len(m_raises) == nb and all(m[1] == "notFullRank" for m in m_raises)
    m_other = [m for m in m_raises if m[1] != "notFullRank"]
    if raised is not None:
        # (a batch in which *some* item has scale 0 — all its target points coincide after rounding — passes the
        # batch-level rank test and then fails the orthogonality test on rot/0: `scaledRotBatch` of the model; such an
        # item is reported by the per-item driver op as notFullRank, so any model raise makes a raise consistent)
        # (`mat2Sim3` takes `det(s·R)^(1/3)`: a Umeyama scale with s³ beyond the dtype's range — s > 7e12 in float32 — overflows
        # there; such scales only arise from clouds of wildly different extents sharing one target, far outside the property)
        fi = torch.finfo(src_t.dtype)
        big = [m[1][7] for m in model if m and m[0] == "ok" and fn == "svdstf" and
               not (1e3 * fi.tiny ** (1 / 3) < m[1][7] < 1e-3 * fi.max ** (1 / 3))]
        if use_model and not m_raises and big:
            ctx.count("align.raise-scale-cubed-out-of-dtype-range")
            return ok
        if use_model and not m_raises:
            ctx.disagree("align.raise", case, f"{fn} raised {type(raised).__name__}: {str(raised)[:100]} but the model returns a value")
            ctx.fail(case, f"raises: {fn} raises {type(raised).__name__} ({str(raised)[:80]}) on valid corresponding point sets")
            return False
        ctx.count("align.both-raise")
        return ok      # both raise (outside the quantifier: scale below the rank threshold) — agreement
    if m_all_rank or m_other:
        ctx.disagree("align.raise", case, f"model raises {m_raises[0][1]} but {fn} returned a value")
        return False
    if m_raises:
        ctx.count("align.rank-test-masked-by-batch", len(m_raises))
        model = [None if (m and m[0] == "raise") else m for m in model]
    P = pp()
    want_type = P.SE3_type if fn == "svdtf" else P.Sim3_type
    dim = 7 if fn == "svdtf" else 8
    if type(X).__name__ != "LieTensor" or X.ltype != want_type or tuple(X.shape) != batch + (dim,) or X.dtype != src_t.dtype:
        ctx.fail(case, f"type: {fn} returned {type(X).__name__} {getattr(X, 'ltype', None)} shape {tuple(X.shape)} {X.dtype} "
                       f"for batch {batch} dtype {dtype}")
        return False
    Xf = X.tensor().detach().double().reshape(nb, dim)
    ok = mixed_and_stale(ctx, case, src_t, tgt_t, S64, T64, Xf, eps) and ok
    # exact cost of the implementation's transform (model arithmetic)
    lines2 = []
    for i in range(nb):
        pts = common.wire_list(S64[i if case["bcast"] != "src1" else 0].flatten().tolist()) + " " + common.wire_list(T64[i].flatten().tolist())
        lines2.append(f"c17.cost{dim} {N} {common.wire_list(Xf[i].tolist())} {pts}")
    reps2 = (yield lines2) if use_model and bool(torch.isfinite(Xf).all()) else [None] * nb
    for i in range(nb):
        src = S64[i if case["bcast"] != "src1" else 0]
        tgt = T64[i]
        it = case["items"][i]
        st = U.stats(src, tgt)
        ok = oracle_item(ctx, case, i, Xf[i], src, tgt, truths[i], eps) and ok
        if model[i] is None or reps2[i] is None or st["A"] == 0 or st["B"] == 0:
            continue
        mv = model[i][1]
        cv = [float(v) for v in common.reply_nums(reps2[i])]
        cid = dict(case, item=i)
        if fn == "svdtf":
            mt, mq, mR, mS, mdet, mcost = mv[0:3], mv[3:7], mv[7:16], mv[16:19], mv[19], mv[20]
            msc = 1.0
            S = mS
        else:
            mt, mq, msc, mR, mS, mdet, mcost = mv[0:3], mv[3:7], mv[7], mv[8:17], mv[17:20], mv[20], mv[21]
            S = [v * N for v in mS]
        c_impl, Rimpl = cv[0], cv[1:10]
        refl = mdet < 0
        ctx.count(f"align.{fn}.{'reflection' if refl else 'proper'}")
        cent = 1 + st["Ds"] / st["ss"] + st["Dt"] / st["st"]
        sab = math.sqrt(st["A"] * st["B"])
        tolc = cost_tol(eps, st, msc, cent)
        track(f"cost.{dtype}", c_impl - mcost, tolc)
        if not (c_impl <= mcost + tolc):
            ctx.disagree("align.cost", cid, f"{fn} {dtype}: exact cost of the implementation's transform {c_impl:.6e} exceeds the model optimum "
                                           f"{mcost:.6e} by more than {tolc:.2e}")
            ctx.fail(cid, f"optimality: {fn} result has sum of squared residuals {c_impl:.6e}; the transform t={mt} q={mq} s={msc} of the same class "
                          f"has {mcost:.6e} (allowance {tolc:.2e}; N={N}, cloud={it['cloud']}, noise={it['noise']}/{it['nkind']}, reflection={refl})")
            ok = False
        # exact reproduction
        if truths[i]["exact"] and not (fn == "svdtf" and it["scale"] != 1.0) and \
                not (fn == "svdstf" and not case["with_scale"] and it["scale"] != 1.0):
            res = float((U.apply_vec(Xf[i], src) - tgt).abs().max())
            te = exact_tol(eps, st, msc, S, 1.0 if mdet > 0 else -1.0)
            ctx.count("align.exact")
            track(f"exact.{dtype}", res, te)
            if not (res <= te):
                ctx.fail(cid, f"exact: {fn} does not reproduce noise-free correspondences: max residual {res:.3e} > {te:.3e} "
                              f"(N={N}, cloud={it['cloud']}, rotation={it['qkind']}, scale={it['scale']})")
                ok = False
        # blocks, when the optimum is well conditioned
        gap = S[1] + (1.0 if mdet > 0 else -1.0) * S[2]
        tolR = 16 * eps + (16 * eps * cent * sab / gap if gap > 0 else float("inf"))
        if tolR <= 1e-3:
            ctx.count("align.blocks")
            eR = max(abs(a - b) for a, b in zip(Rimpl, mR))
            track(f"rot.{dtype}", eR, tolR)
            if not (eR <= tolR):
                ctx.disagree("align.rotation", cid, f"{fn} {dtype}: rotation block differs from the model by {eR:.3e} > {tolR:.3e}")
                ok = False
            csn = float(st["cs"].abs().max())
            ctn = float(st["ct"].abs().max())
            tols = 32 * eps * (1 + cent * sab / max(S[0] + gap, 1e-300)) if fn == "svdstf" else 0.0
            tolt = 3 * (tolR + tols) * msc * csn + 16 * eps * (ctn + 3 * msc * csn) + 1e-300
            et = max(abs(float(Xf[i][j]) - mt[j]) for j in range(3))
            track(f"trans.{dtype}", et, tolt)
            if not (et <= tolt):
                ctx.disagree("align.translation", cid, f"{fn} {dtype}: translation differs from the model by {et:.3e} > {tolt:.3e}")
                ok = False
            if fn == "svdstf":
                es = abs(float(Xf[i][7]) - msc) / msc
                track(f"scale.{dtype}", es, tols)
                if not (es <= tols):
                    ctx.disagree("align.scale", cid, f"svdstf {dtype}: scale {float(Xf[i][7])!r} differs from the model's {msc!r} by {es:.3e} relative > {tols:.3e}")
                    ok = False
        else:
            ctx.count("align.illconditioned")
    return ok


def corner_cases(r: random.Random):
    """deterministic corner corpus: every seed sees these structures (data seeds are fixed too)"""
    fixed = random.Random(1717)
    out = []
    Z = {"noise": 0.0, "nkind": "iso", "offset": 0.0, "extent": 1.0, "tmag": 1.0, "scale": 1.0, "rotate": True}
    for fn in ("svdtf", "svdstf"):
        sc = {"scale": 2.0} if fn == "svdstf" else {}
        # 3-point sets: exact, many rotations (both signs of det(U Vh) occur), and noisy
        out.append(build_case(fixed, fn, 3, "float64", (8,), "none", corners=[dict(Z, cloud="generic", qkind=k, **sc) for k in
                                                                           ("uniform", "pi", "axis180", "nearpi", "small", "identity", "uniform", "mid")], tag="corner-3pt-exact"))
        out.append(build_case(fixed, fn, 3, "float64", (8,), "none", corners=[dict(Z, cloud="generic", qkind="uniform", noise=n, **sc) for n in
                                                                           (0.01, 0.1, 0.3, 0.5)], tag="corner-3pt-noisy"))
        # planar: exact axis-aligned, exact rotated, noisy along the normal (reflection-prone)
        out.append(build_case(fixed, fn, 6, "float64", (6,), "none", corners=[dict(Z, cloud="planar", rotate=False, qkind="uniform", **sc),
                                                                           dict(Z, cloud="planar", qkind="pi", **sc),
                                                                           dict(Z, cloud="planar", qkind="uniform", noise=0.1, nkind="normal", **sc),
                                                                           dict(Z, cloud="nearplanar", qkind="uniform", noise=0.01, **sc),
                                                                           dict(Z, cloud="planar", qkind="uniform", noise=0.3, **sc),
                                                                           dict(Z, cloud="planar", rotate=False, qkind="axis180", **sc)], tag="corner-planar"))
        # collinear / two distinct points / duplicated
        out.append(build_case(fixed, fn, 5, "float64", (6,), "none", corners=[dict(Z, cloud="collinear", rotate=False, qkind="uniform", **sc),
                                                                           dict(Z, cloud="collinear", qkind="uniform", **sc),
                                                                           dict(Z, cloud="two", qkind="uniform", **sc),
                                                                           dict(Z, cloud="duplicated", qkind="pi", **sc),
                                                                           dict(Z, cloud="nearcollinear", qkind="uniform", **sc),
                                                                           dict(Z, cloud="collinear", qkind="uniform", noise=0.05, **sc)], tag="corner-collinear"))
        # mirror images: the reflection branch with a large third singular value; mixed with proper items in one batch
        out.append(build_case(fixed, fn, 7, "float64", (2, 3), "none", corners=[dict(Z, cloud="generic", qkind="uniform", nkind="mirror", **sc),
                                                                             dict(Z, cloud="generic", qkind="uniform", **sc),
                                                                             dict(Z, cloud="aniso", qkind="mid", nkind="mirror", noise=0.05, **sc)], tag="corner-mirror-mixed"))
        # far offsets, large translations, tiny / large extents, float32
        for dt in ("float64", "float32"):
            out.append(build_case(fixed, fn, 13, dt, (4,), "none", corners=[dict(Z, cloud="generic", qkind="uniform", offset=100.0, tmag=1e4, **sc),
                                                                        dict(Z, cloud="generic", qkind="uniform", extent=1e-3, offset=1e4, **sc),
                                                                        dict(Z, cloud="aniso", qkind="uniform", extent=30.0, noise=0.5, **sc),
                                                                        dict(Z, cloud="lattice", qkind="axis180", tmag=0.0, **sc)], tag="corner-scales-" + dt))
        out.append(build_case(fixed, fn, 200, "float64", (), "none", corners=[dict(Z, cloud="generic", qkind="uniform", noise=0.5, **sc)], tag="corner-200"))
        out.append(build_case(fixed, fn, 4, "float32", (3,), "src1", corners=[dict(Z, cloud="generic", qkind="uniform", noise=0.1, **sc)], tag="corner-bcast-src"))
        out.append(build_case(fixed, fn, 4, "float64", (3,), "tgt1", corners=[dict(Z, cloud="generic", qkind="uniform", noise=0.1, **sc)], tag="corner-bcast-tgt"))
    # hardening: views / aliases, extreme extents (1e-6 … 1e6), mixed-regime batches (ranks, reflection, noise, extents in one batch)
    for fn in ("svdtf", "svdstf"):
        sc = {"scale": 0.5} if fn == "svdstf" else {}
        for k, lay in enumerate((["strided", "transposed"], ["transposed", "offset"], ["offset", "strided"], ["strided", "strided"])):
            c = build_case(fixed, fn, 5 + k, "float64" if k % 2 == 0 else "float32", (3,), "none",
                           corners=[dict(Z, cloud="generic", qkind="uniform", noise=0.1, **sc), dict(Z, cloud="planar", qkind="pi", **sc),
                                    dict(Z, cloud="generic", qkind="uniform", nkind="mirror", noise=0.05, **sc)], tag="corner-views")
            c["layout"] = lay
            out.append(c)
        for bshape in ((1,), (1, 2)):      # singleton batch axes must survive
            out.append(build_case(fixed, fn, 5, "float64", bshape, "none", corners=[dict(Z, cloud="generic", qkind="uniform", noise=0.1, **sc)],
                                  tag="corner-singleton-batch"))
        c = build_case(fixed, fn, 6, "float64", (2,), "none", corners=[dict(Z, cloud="generic", qkind="identity", tmag=0.0)], tag="corner-alias")
        c["alias"] = True
        c["layout"] = ["strided", "contig"]
        out.append(c)
        c = build_case(fixed, fn, 4, "float32", (3,), "src1", corners=[dict(Z, cloud="generic", qkind="uniform", noise=0.1, **sc)], tag="corner-expanded")
        c["layout"] = ["expanded", "contig"]
        out.append(c)
        for dt in ("float64", "float32"):
            out.append(build_case(fixed, fn, 9, dt, (6,), "none", corners=[dict(Z, cloud="generic", qkind="uniform", extent=1e-6, **sc),
                                                                        dict(Z, cloud="generic", qkind="uniform", extent=1e6, noise=0.01, **sc),
                                                                        dict(Z, cloud="planar", qkind="pi", extent=1e3, noise=0.1, nkind="normal", **sc),
                                                                        dict(Z, cloud="collinear", qkind="uniform", extent=1e-6, **sc),
                                                                        dict(Z, cloud="aniso", qkind="mid", extent=1e6, nkind="mirror", noise=0.05, **sc),
                                                                        dict(Z, cloud="generic", qkind="small", extent=1.0, noise=0.3, **sc)],
                                  tag="corner-extreme-mixed-" + dt))
    # svdstf: the whole scale range of the quantifier and beyond, without scale, default argument
    out.append(build_case(fixed, "svdstf", 8, "float64", (7,), "none", corners=[dict(Z, cloud="generic", qkind="uniform", scale=s) for s in
                                                                            (0.1, 10.0, 1e-3, 1e3, 0.5, 3.0, 1.0)], tag="corner-scale-ladder"))
    out.append(build_case(fixed, "svdstf", 8, "float64", (4,), "none", with_scale=False,
                          corners=[dict(Z, cloud="generic", qkind="uniform", scale=s, noise=n) for s, n in ((1.0, 0.0), (1.0, 0.1), (2.0, 0.0), (0.5, 0.1))],
                          tag="corner-noscale"))
    c = build_case(fixed, "svdstf", 5, "float32", (2,), "none", corners=[dict(Z, cloud="generic", qkind="uniform", scale=3.0)], tag="corner-default-arg")
    c["default_arg"] = True
    out.append(c)
    return out


def random_align_case(r: random.Random) -> dict:
    fn = r.choice(["svdtf", "svdstf"])
    N = r.choice([3, 3, 3, 4, 4, 5, 6, 8, 13, 50, 200, r.randint(3, 200)])
    dtype = r.choice(["float64", "float64", "float32"])
    c = r.random()
    batch = () if c < 0.45 else ((r.choice([1, 2, 3, 5]),) if c < 0.85 else (r.choice([1, 2]), r.choice([2, 3])))
    if N >= 50 and batch:
        batch = (2,)
    bcast = "none" if not batch else r.choice(["none", "none", "none", "src1", "tgt1"])
    case = build_case(r, fn, N, dtype, batch, bcast, with_scale=(r.random() < 0.8))
    case["layout"] = [r.choice(LAYOUTS), r.choice(LAYOUTS)]
    if bcast == "none" and r.random() < 0.06:
        case["alias"] = True
    return case


def sig_align(case):
    it = case["items"][0]
    nb = "3" if case["N"] == 3 else ("s" if case["N"] < 10 else ("m" if case["N"] < 60 else "l"))
    return ("align", case["fn"], case["dtype"], nb, it["cloud"], it["qkind"], it["nkind"], it["noise"] > 0, tuple(case["batch"]),
            case["bcast"], case["with_scale"])


def run_align(ctx: Ctx, cases):
    gens = []
    for case in cases:
        it = case["items"][0]
        nontrivial = not (it["qkind"] == "identity" and it["noise"] == 0 and it["tmag"] == 0)
        ctx.note_case(sig_align(case), nontrivial)
        ctx.count(f"align.{case['fn']}.cloud.{it['cloud']}")
        ctx.count(f"align.dtype.{case['dtype']}")
        ctx.count(f"align.batchrank.{len(case['batch'])}")
        ctx.count(f"align.noise.{it['noise']}")
        ctx.count(f"align.rotation.{it['qkind']}")
        gens.append(check_align_gen(ctx, case))
        ctx.sample({k: v for k, v in case.items() if k != "items"} | {"item0": case["items"][0]}, cap=4)
    drive(ctx, gens)


# ----------------------------------------------------------------------------- ICP stream

class FixedStepper:
    """a stepper object (the documented user-supplied `stepper`): exactly `n` passes; records what it is given"""

    def __init__(self, n):
        self.n, self.seen, self.resets = n, [], 0
        self.steps = 0

    def reset(self):
        self.steps = 0
        self.resets += 1
        self.seen = []

    def continual(self):
        return self.steps < self.n

    def step(self, loss):
        self.steps += 1
        self.seen.append(loss.detach().clone() if torch.is_tensor(loss) else torch.tensor(loss))


class CountingBason:
    """wraps the library's ReduceToBason, counting passes and recording the errors"""

    def __init__(self, **kw):
        self.inner = pp().utils.ReduceToBason(**kw)
        self.seen = []

    def reset(self):
        self.inner.reset()
        self.seen = []

    def continual(self):
        return self.inner.continual()

    def step(self, loss):
        self.seen.append(loss.detach().clone() if torch.is_tensor(loss) else torch.tensor(loss))
        self.inner.step(loss)


def icp_data(spec):
    """source, target (python lists), the true transform source->target points, initial transform"""
    r = random.Random(spec["seed"])
    N = spec["N"]
    src = U.gen_cloud(r, N, spec["cloud"], 1.0, True, spec["offset"])
    # true motion: rotation angle `ang`, translation `tr` (relative to the cloud's smallest point separation)
    d = U.q_normalize([r.gauss(0, 1) for _ in range(3)] + [0.0])[:3]
    ang = spec["ang"]
    q = [d[0] * math.sin(ang / 2), d[1] * math.sin(ang / 2), d[2] * math.sin(ang / 2), math.cos(ang / 2)]
    R = U.q_to_mat(q)
    td = U.q_normalize([r.gauss(0, 1) for _ in range(3)] + [0.0])[:3]
    t = [spec["tr"] * v for v in td]
    c = [sum(p[j] for p in src) / N for j in range(3)]
    # rotate about the centroid so that the displacement is governed by ang·radius + tr
    moved = []
    for p in src:
        y = U.mat_vec(R, [p[j] - c[j] for j in range(3)])
        moved.append([y[j] + c[j] + t[j] for j in range(3)])
    tt = [c[j] + t[j] - U.mat_vec(R, c)[j] for j in range(3)]
    tgt = [list(p) for p in moved]
    if spec["tnoise"]:
        tgt = [[v + r.gauss(0, 1) * spec["tnoise"] for v in p] for p in tgt]
    for _ in range(spec["extra"]):
        tgt.append([r.gauss(0, 1) + c[j] for j in range(3)])
    if spec["drop"]:
        keep = max(3, len(tgt) - spec["drop"])
        tgt = tgt[:keep]
    if spec["perm"]:
        r.shuffle(tgt)
    init = None
    if spec["init"] != "none":
        qi = U.rand_quat(r, "small" if spec["init_small"] else "mid")
        di = U.q_normalize([r.gauss(0, 1) for _ in range(3)] + [0.0])[:3]
        init = [spec["init_t"] * v for v in di] + qi
    return src, tgt, {"q": q, "t": tt}, init


def icp_spec(r: random.Random, N, inside: bool, **kw) -> dict:
    spec = {"seed": r.randrange(1 << 30), "N": N, "cloud": r.choice(["generic", "generic", "aniso", "planar", "lattice"]),
            "offset": r.choice([0.0, 0.0, 5.0]),
            "ang": (r.choice([0.0, 1e-6, 1e-3, 0.01]) if inside else r.choice([0.05, 0.2, 0.6, 1.5])),
            "tr": (r.choice([0.0, 1e-4, 1e-3]) if inside else r.choice([0.05, 0.3, 1.0])),
            "tnoise": 0.0 if inside else r.choice([0.0, 0.0, 0.01, 0.1]),
            "extra": r.choice([0, 0, 3, 10]), "drop": 0 if inside else r.choice([0, 0, 2]),
            "perm": r.random() < 0.8, "init": "none" if inside else r.choice(["none", "ctor", "forward", "both"]),
            "init_small": True, "init_t": r.choice([0.0, 0.01, 0.2]),
            "passes": r.choice([0, 1, 1, 2, 3, 4, 6]), "stepper": r.choice(["fixed", "fixed", "fixed", "bason", "default"]),
            "dtype": r.choice(["float64", "float64", "float32"]), "repeat": r.random() < 0.4, "batch": r.choice([0, 0, 0, 1, 2]),
            "inside": inside}
    spec.update(kw)
    return spec


def min_sep(pts):
    p = torch.tensor(pts, dtype=torch.float64)
    d = (p.unsqueeze(0) - p.unsqueeze(1)).norm(dim=-1)
    d.fill_diagonal_(float("inf"))
    return float(d.min())


def run_icp_once(spec, src_t, tgt_t, init_vec, stepper, module=None):
    P = pp()
    dt = src_t.dtype
    init = None if init_vec is None else P.SE3(torch.tensor(init_vec, dtype=torch.float64).to(dt))
    ctor_init = init if spec["init"] in ("ctor", "both") else None
    fwd_init = init if spec["init"] in ("forward",) else None
    if spec["init"] == "both":
        # forward's init must take precedence over the constructor's: give the constructor a wrong one
        bad = P.SE3(torch.tensor([3.0, -2.0, 1.0, 0.0, 0.0, 0.0, 1.0], dtype=dt))
        ctor_init, fwd_init = bad, init
    if module is None:
        module = P.module.ICP(init=ctor_init, stepper=stepper) if stepper is not None else P.module.ICP(init=ctor_init)
    if fwd_init is not None:
        out = module(src_t, tgt_t, init=fwd_init)
    else:
        out = module(src_t, tgt_t)
    return out, module


def check_icp_case(ctx: Ctx, spec, use_model=True) -> bool:
    return drive(ctx, [check_icp_gen(ctx, spec, use_model)])[0]


def check_icp_gen(ctx: Ctx, spec, use_model=True):
    P = pp()
    dtype = spec["dtype"]
    eps = common.EPS[dtype]
    src, tgt, truth, init = icp_data(spec)
    St, S64 = U.to_dtype(src, dtype)
    Tt, T64 = U.to_dtype(tgt, dtype)
    nb = spec["batch"]
    if nb:
        St = St.unsqueeze(0).expand(nb, -1, -1).clone()
        Tt = Tt.unsqueeze(0).expand(nb, -1, -1).clone()
    ok = True
    case = {"kind": "icp", **spec}
    init64 = None
    if init is not None:
        init64 = torch.tensor(init, dtype=torch.float64).to(St.dtype).double()
    cur0 = S64 if init64 is None else U.apply_vec(init64, S64)
    E0 = U.mscd(cur0, T64)
    D = float(max(S64.abs().max(), T64.abs().max()))
    n_list = list(range(spec["passes"] + 1)) if spec["stepper"] == "fixed" else [None]
    prevE, module, results = None, None, {}
    mon = common.PurityMonitor()
    for n in n_list:
        if spec["stepper"] == "fixed":
            stp = FixedStepper(n)
        elif spec["stepper"] == "bason":
            stp = CountingBason(steps=spec["passes"] + 1, patience=2, decreasing=1e-3, tol=1e-9)
        else:
            stp = None
        with warnings.catch_warnings():
            warnings.simplefilter("ignore")
            try:
                out, module = mon.call("ICP", run_icp_once, spec, St, Tt, init, stp)
                seen_first = list(stp.seen) if stp is not None else None
                if spec["repeat"]:
                    # second call on the same module object (the stepper must be reset, no state may leak)
                    out2, _ = run_icp_once(spec, St, Tt, init, stp, module=module)
                    if not torch.equal(out.tensor(), out2.tensor()):
                        ctx.fail(case, f"history: the second ICP call on the same module returns a different transform "
                                       f"(max diff {float((out.tensor() - out2.tensor()).abs().max()):.3e}, passes={n})")
                        ok = False
                    if spec["init"] in ("forward", "both"):
                        # a third call *without* forward-init must fall back to the constructor's init (none / the
                        # constructor's), exactly like a fresh module: forward's init must not persist
                        spec3 = dict(spec, init=("none" if spec["init"] == "forward" else "ctor"))
                        init3 = None if spec["init"] == "forward" else [3.0, -2.0, 1.0, 0.0, 0.0, 0.0, 1.0]
                        out3 = module(St, Tt)
                        fresh, _ = run_icp_once(spec3, St, Tt, init3, stp)
                        if not torch.equal(out3.tensor(), fresh.tensor()):
                            ctx.fail(case, f"history: after a call with forward(init=...) a call without init differs from a fresh module "
                                           f"(max diff {float((out3.tensor() - fresh.tensor()).abs().max()):.3e}, passes={n})")
                            ok = False
            except Exception as e:  # noqa: BLE001
                ctx.fail(case, f"raises: ICP raises {type(e).__name__}: {str(e)[:100]} (passes={n}, stepper={spec['stepper']})")
                return False
        if mon.mutations:
            ctx.fail(case, f"mutation: ICP changed its argument {mon.mutations[0]['argument']}")
            ok = False
            mon.mutations.clear()
        want_shape = ((nb,) if nb else ()) + (7,)
        if type(out).__name__ != "LieTensor" or out.ltype != P.SE3_type or tuple(out.shape) != want_shape or out.dtype != St.dtype:
            ctx.fail(case, f"type: ICP returned {type(out).__name__} shape {tuple(out.shape)} {out.dtype}, expected SE3 {want_shape}")
            return False
        Xall = out.tensor().detach().double().reshape(-1, 7)
        if nb and not all(torch.equal(Xall[0], Xall[i]) for i in range(1, nb)):
            ctx.fail(case, "batch: identical batch items give different ICP results")
            ok = False
        X = Xall[0]
        nq = float(X[3:7].norm())
        if not torch.isfinite(X).all() or abs(nq - 1) > UNIT_TOL * eps:
            ctx.fail(case, f"valid: ICP result is not a valid SE3 element (|q|={nq!r})")
            return False
        En = U.mscd(U.apply_vec(X, S64), T64)
        # the returned points are accurate to delta = 256·eps·D; a squared distance d² then moves by at most 2·delta·d + delta²
        delta = 256 * eps * D
        tolE = delta * delta + 2 * delta * math.sqrt(E0) + 64 * eps * E0 + 1e-300
        if not (En <= E0 + tolE):
            ctx.fail(case, f"monotone: ICP result has mean squared closest-point distance {En:.6e} > {E0:.6e} of its initial transform "
                           f"(passes={n}, stepper={spec['stepper']}, N={spec['N']})")
            ok = False
        if prevE is not None and not (En <= prevE + delta * delta + 2 * delta * math.sqrt(prevE) + 64 * eps * prevE):
            ctx.fail(case, f"monotone: mean squared closest-point distance rises from {prevE:.6e} to {En:.6e} between {n - 1} and {n} passes")
            ok = False
        prevE = En
        seen = seen_first
        results[n] = (X, En, seen)
        if n == 0:
            # zero passes: the result must act like the initial transform on the source points
            d0 = float((U.apply_vec(X, S64) - cur0).abs().max())
            if d0 > 256 * eps * D:
                ctx.fail(case, f"init: with zero passes the result differs from the initial transform on the source points by {d0:.3e}")
                ok = False
    # recovery inside the basin: exact rigid motion, displacement below half the point separation, enough passes
    last_n = n_list[-1]
    X, En, seen = results[last_n]
    passes_done = len(seen) if seen is not None else None
    if spec.get("inside") and (passes_done is None or passes_done >= 1):
        want = U.apply_vec(torch.tensor(truth["t"] + truth["q"], dtype=torch.float64), S64)
        res = float((U.apply_vec(X, S64) - want).abs().max())
        tolr = 4096 * eps * D * (1 + spec["N"] ** 0.5)
        ctx.count("icp.recovery")
        if not (res <= tolr):
            ctx.fail(case, f"recover: ICP does not recover an exact rigid perturbation inside the basin: max point error {res:.3e} > {tolr:.3e} "
                           f"(angle={spec['ang']}, shift={spec['tr']}, passes={passes_done}, stepper={spec['stepper']})")
            ok = False
    # model
    if use_model and passes_done is not None and spec["N"] * len(tgt) * (passes_done + 1) <= 4000:
        args = [str(passes_done), "1" if init64 is not None else "0", str(len(src)), str(len(tgt))]
        nums = (init64.tolist() if init64 is not None else []) + S64.flatten().tolist() + T64.flatten().tolist()
        rep = (yield [f"c17.icp {' '.join(args)} {common.wire_list(nums)}"])[0]
        stt, payload = common.parse_reply(rep)
        if stt == "err":
            raise InfraError(f"C17 driver (icp) failed: {payload}")
        mv = [float(common.from_wire(t)) for t in payload]
        mX, margin, cond = mv[0:7], mv[7], mv[8]
        merrs = mv[9:9 + passes_done]
        msscd = mv[9 + passes_done:9 + 2 * passes_done + 1]
        mres = mv[-1]
        ext = float((T64 - T64.mean(0)).norm(dim=-1).max()) + 1e-300
        if cond < 1e-4:
            ctx.count("icp.degenerate-alignment-skipped")
        elif margin > 1e-6 * ext * ext:
            ctx.count("icp.model")
            # errors handed to the stepper
            for j, (a, b) in enumerate(zip([float(s.reshape(-1)[0]) for s in seen], merrs)):
                if abs(a - b) > 256 * eps * D * (j + 1):
                    ctx.disagree("icp.errors", case, f"error handed to the stepper at pass {j}: implementation {a!r} model {b!r}")
                    ok = False
                    break
            if abs(En - mres / len(src)) > 1024 * eps * (D * math.sqrt(En) + En + eps * D * D) * (passes_done + 1) + 1e-300:
                ctx.disagree("icp.objective", case, f"mean squared closest-point distance of the result: implementation {En!r} model {mres / len(src)!r}")
                ok = False
            for a, b in zip(msscd, msscd[1:]):
                if b > a + 1e-40 * (a + D * D * len(src)):
                    raise InfraError("model ICP objective not monotone — contradicts theorem icp_monotone")
        else:
            ctx.count("icp.near-tie-skipped")
    return ok


def icp_corner_specs():
    fixed = random.Random(4242)
    out = []
    base = dict(cloud="generic", offset=0.0, tnoise=0.0, extra=0, drop=0, perm=True, init="none", init_small=True, init_t=0.0, batch=0)
    # inside the basin: exact recovery, every stepper, repeated calls on the same object, batch, float32
    for stepper, passes, rep, dt, nb in (("fixed", 3, True, "float64", 0), ("default", 1, True, "float64", 0), ("bason", 4, False, "float64", 2),
                                        ("fixed", 2, False, "float32", 0), ("default", 1, False, "float32", 1)):
        out.append(icp_spec(fixed, 12, True, **dict(base, ang=0.01, tr=1e-3, passes=passes, stepper=stepper, dtype=dt, repeat=rep, batch=nb,
                                                    extra=3)))
    out.append(icp_spec(fixed, 3, True, **dict(base, ang=1e-3, tr=1e-3, passes=2, stepper="fixed", dtype="float64", repeat=False)))
    out.append(icp_spec(fixed, 200, True, **dict(base, ang=1e-3, tr=1e-4, passes=2, stepper="fixed", dtype="float64", repeat=False)))
    # outside: monotonicity over passes, init variants
    for init in ("ctor", "forward", "both", "none"):
        out.append(icp_spec(fixed, 20, False, **dict(base, ang=0.4, tr=0.3, tnoise=0.05, extra=5, passes=5, stepper="fixed", dtype="float64",
                                                     repeat=(init == "ctor"), init=init, init_t=0.2)))
    out.append(icp_spec(fixed, 30, False, **dict(base, cloud="planar", ang=1.0, tr=0.5, passes=6, stepper="bason", dtype="float64", repeat=True)))
    return out


def run_icp(ctx: Ctx, specs):
    gens = []
    for spec in specs:
        ctx.note_case(("icp", spec["N"] // 10, spec["cloud"], spec["stepper"], spec["passes"], spec["init"], spec["dtype"], spec["batch"],
                       bool(spec.get("inside")), spec["repeat"]), spec["ang"] != 0 or spec["tr"] != 0)
        ctx.count(f"icp.stepper.{spec['stepper']}")
        ctx.count(f"icp.init.{spec['init']}")
        ctx.count("icp.inside" if spec.get("inside") else "icp.outside")
        gens.append(check_icp_gen(ctx, spec))
        ctx.sample({"stream": "icp", **spec}, cap=6)
    drive(ctx, gens)


def random_icp_spec(r: random.Random) -> dict:
    inside = r.random() < 0.45
    N = r.choice([3, 4, 6, 10, 15, 25, 40, r.randint(3, 40)] + ([100, 200] if r.random() < 0.15 else []))
    spec = icp_spec(r, N, inside)
    if inside:
        # make sure the perturbation really is inside the basin: displacement < 0.4 * minimal separation
        src, tgt, truth, init = icp_data(spec)
        S = torch.tensor(src, dtype=torch.float64)
        want = U.apply_vec(torch.tensor(truth["t"] + truth["q"], dtype=torch.float64), S)
        disp = float((want - S).norm(dim=-1).max())
        allp = src + tgt
        sep = min_sep(tgt) if len(tgt) > 1 else 0.0
        spec["inside"] = bool(disp < 0.4 * sep and spec["tnoise"] == 0 and spec["drop"] == 0) and spec["passes"] >= 1
        if spec["stepper"] != "fixed":
            spec["inside"] = spec["inside"] and True
    return spec


# ----------------------------------------------------------------------------- EPnP stream (ground truth only)

def epnp_scene(spec):
    r = random.Random(spec["seed"])
    N = spec["N"]
    ext = spec["extent"]
    sc = (1.0, spec["aniso"], spec["aniso"] ** 2 if spec["aniso"] < 1 else 1.0)
    pts = [[r.gauss(0, 1) * ext * sc[j] for j in range(3)] for _ in range(N)]
    F = U.q_to_mat(U.rand_quat(r, "uniform"))
    pts = [U.mat_vec(F, p) for p in pts]
    off = [r.gauss(0, 1) * spec["woff"] for _ in range(3)]
    pts = [[p[j] + off[j] for j in range(3)] for p in pts]
    q = U.rand_quat(r, spec["qkind"])
    R = U.q_to_mat(q)
    # camera-frame centroid at depth `depth`·radius on a random bearing inside the field of view
    rad = max(math.sqrt(sum((p[j] - off[j]) ** 2 for j in range(3))) for p in pts)
    depth = spec["depth"] * rad
    cc = [r.uniform(-0.3, 0.3) * depth, r.uniform(-0.3, 0.3) * depth, depth]
    t = [cc[j] - U.mat_vec(R, off)[j] for j in range(3)]
    f = spec["f"]
    K = [[f, 0.0, spec["cx"]], [0.0, f * spec["fy_ratio"], spec["cy"]], [0.0, 0.0, 1.0]]
    return pts, q, t, K


def epnp_spec(r: random.Random, **kw) -> dict:
    spec = {"seed": r.randrange(1 << 30), "N": r.choice([6, 6, 7, 8, 10, 20, 50, 100, r.randint(6, 100)]),
            "extent": r.choice([1.0, 1.0, 0.1, 10.0]), "aniso": r.choice([1.0, 1.0, 0.6, 0.4]), "woff": r.choice([0.0, 1.0, 10.0]),
            "qkind": r.choice(["uniform", "uniform", "pi", "small", "identity", "axis180"]), "depth": r.choice([2.0, 3.0, 5.0, 8.0, 12.0]),
            "f": r.choice([200.0, 500.0, 800.0, 2000.0]), "fy_ratio": r.choice([1.0, 1.0, 1.1, 0.8]), "cx": r.choice([0.0, 320.0]),
            "cy": r.choice([0.0, 240.0]), "refine": r.random() < 0.5, "kmode": r.choice(["ctor", "forward", "override"]),
            "batch": r.choice([0, 0, 0, 2, 3]), "second_call": r.random() < 0.3}
    spec.update(kw)
    return spec


def check_epnp_case(ctx: Ctx, spec) -> bool:
    P = pp()
    case = {"kind": "epnp", **spec}
    nb = spec["batch"]
    scenes = []
    for b in range(max(nb, 1)):
        s2 = dict(spec, seed=spec["seed"] + 7919 * b)
        scenes.append(epnp_scene(s2))
    pts = torch.tensor([s[0] for s in scenes], dtype=torch.float64)
    poses = torch.tensor([s[2] + s[1] for s in scenes], dtype=torch.float64)
    K = torch.tensor(scenes[0][3], dtype=torch.float64)
    T = P.SE3(poses)
    pix = P.point2pixel(pts, K, T)
    pc = T.unsqueeze(-2) @ pts
    if float(pc[..., 2].min()) <= 0:
        return True    # not in front of the camera: outside the quantifier
    if not nb:
        pts, pix, T = pts[0], pix[0], T[0]
    wrongK = K.clone()
    wrongK[0, 0] *= 1.7
    wrongK[1, 2] += 55.0
    ok = True
    try:
        with warnings.catch_warnings():
            warnings.simplefilter("ignore")
            if spec["kmode"] == "ctor":
                mod = P.module.EPnP(K, refine=spec["refine"])
                est = mod(pts, pix)
            elif spec["kmode"] == "forward":
                mod = P.module.EPnP(refine=spec["refine"])
                est = mod(pts, pix, K)
            else:
                mod = P.module.EPnP(wrongK, refine=spec["refine"])
                est = mod(pts, pix, K)
            if spec["second_call"]:
                # the same module again, on a different scene: no state of the first call may leak
                s3 = dict(spec, seed=spec["seed"] + 104729, batch=0)
                p3, q3, t3, K3 = epnp_scene(s3)
                p3 = torch.tensor(p3, dtype=torch.float64)
                T3 = P.SE3(torch.tensor(t3 + q3, dtype=torch.float64))
                if float((T3 @ p3)[..., 2].min()) > 0:
                    px3 = P.point2pixel(p3, K, T3)
                    e3 = mod(p3, px3, K) if spec["kmode"] != "ctor" else mod(p3, px3)
                    ok = epnp_compare(ctx, dict(case, call="second"), e3, T3, p3, px3, K) and ok
                    if spec["kmode"] == "override":
                        if not torch.equal(mod.intrinsics, wrongK):
                            ctx.fail(case, "history: forward's intrinsics overwrote the module's default intrinsics")
                            ok = False
    except Exception as e:  # noqa: BLE001
        ctx.fail(case, f"raises: EPnP raises {type(e).__name__}: {str(e)[:120]} (N={spec['N']}, refine={spec['refine']}, batch={nb})")
        return False
    return epnp_compare(ctx, case, est, T, pts, pix, K) and ok


def epnp_compare(ctx, case, est, T, pts, pix, K) -> bool:
    P = pp()
    if type(est).__name__ != "LieTensor" or est.ltype != P.SE3_type or tuple(est.shape) != tuple(T.shape):
        ctx.fail(case, f"type: EPnP returned {type(est).__name__} shape {tuple(getattr(est, 'shape', ()))}, expected SE3 {tuple(T.shape)}")
        return False
    E = est.tensor().detach().double().reshape(-1, 7)
    G = T.tensor().double().reshape(-1, 7)
    ptsb = pts.reshape(-1, pts.shape[-2], 3)
    ok = True
    for b in range(E.shape[0]):
        if not torch.isfinite(E[b]).all():
            ctx.fail(case, "valid: EPnP returned non-finite numbers")
            return False
        Re, Rg = U.quat_mat_t(E[b, 3:7] / E[b, 3:7].norm()), U.quat_mat_t(G[b, 3:7])
        er = float((Re - Rg).abs().max())
        depth = float(G[b, :3].norm()) + float(ptsb[b].abs().max())
        et = float((E[b, :3] - G[b, :3]).abs().max()) / depth
        # points in the camera frame
        pe = U.apply_vec(E[b], ptsb[b])
        pg = U.apply_vec(G[b], ptsb[b])
        ep = float((pe - pg).abs().max()) / depth
        # measured accuracy tiers of the unchanged tree (>= 50 x the worst of 20 000 clean scenes per tier; the error has a
        # heavy tail for the (nearly) exactly determined 6/7-point systems and for narrow fields of view):
        #   well conditioned (N >= 8, depth <= 5 radii, anisotropy >= 0.6): clean max 2.0e-10 without refinement
        #   (median 4e-14), 1.2e-11 with; otherwise without refinement N=6: 2.2e-6, N=7: 8.1e-9, N>=8: 9.2e-9;
        #   with refinement N<8: 6.0e-10, N>=8: 1.2e-11
        ci = case["per_item"][b] if "per_item" in case else case
        small = case["N"] < 8
        wellc = case["N"] >= 8 and ci["depth"] <= 5 and ci["aniso"] >= 0.6
        if case["refine"]:
            tol = 1e-7 if small else 1e-9
        elif wellc:
            tol = 2e-8
        else:
            tol = 1e-4 if case["N"] == 6 else 1e-6
        small = "small" if small else ("well" if wellc else "big")
        track(f"epnp.{'refine' if case['refine'] else 'norefine'}.{small}", max(er, et, ep), tol)
        ctx.count("epnp.items")
        if not (er <= tol and et <= tol and ep <= tol):
            ctx.fail(case, f"recover: EPnP does not recover the camera pose from exact projections: rotation error {er:.3e}, "
                           f"translation error {et:.3e} (relative), point error {ep:.3e} (relative) > {tol:.1e} "
                           f"(N={case['N']}, refine={case['refine']}, depth={case['depth']}, f={case['f']})")
            ok = False
    err = P.reprojerr(pts, pix, K, est, reduction="norm")
    emax = float(err.max())
    if not (emax <= 1e-4 * float(K[0, 0]) / 500 + 1e-5):
        ctx.fail(case, f"reproject: EPnP pose has reprojection error {emax:.3e} px on exact projections (N={case['N']}, refine={case['refine']})")
        ok = False
    return ok


def epnp_corner_specs():
    fixed = random.Random(777)
    out = []
    for N in (8, 12, 30, 100, 9, 20):     # the well-conditioned family without refinement: the tight tier
        out.append(epnp_spec(fixed, N=N, refine=False, kmode="ctor", batch=fixed.choice([0, 0, 2]), second_call=False,
                             depth=fixed.choice([2.0, 3.0, 5.0]), aniso=fixed.choice([1.0, 0.6])))
    for N, refine, kmode, nb, second in ((6, True, "ctor", 0, True), (6, False, "forward", 0, False), (8, True, "override", 2, True),
                                         (20, False, "ctor", 3, False), (100, True, "forward", 0, False), (100, False, "override", 0, True),
                                         (7, True, "ctor", 0, False), (10, False, "ctor", 2, True)):
        out.append(epnp_spec(fixed, N=N, refine=refine, kmode=kmode, batch=nb, second_call=second))
    return out


def run_epnp(ctx: Ctx, specs):
    for spec in specs:
        ctx.note_case(("epnp", spec["N"] // 10, spec["refine"], spec["kmode"], spec["batch"], spec["qkind"], spec["depth"], spec["f"],
                       spec["aniso"]), True)
        ctx.count(f"epnp.refine.{spec['refine']}")
        ctx.count(f"epnp.kmode.{spec['kmode']}")
        check_epnp_case(ctx, spec)
        ctx.sample({"stream": "epnp", **spec}, cap=8)



# ----------------------------------------------------------------------------- object re-use histories (ICP / EPnP modules)

def _views(t, layout):
    v, buf = relayout(t, layout)
    return v, buf


def _eq_attr(a, b):
    if torch.is_tensor(a) and torch.is_tensor(b):
        return a.shape == b.shape and a.dtype == b.dtype and bool(torch.equal(torch.Tensor.as_subclass(a.detach(), torch.Tensor),
                                                                              torch.Tensor.as_subclass(b.detach(), torch.Tensor)))
    return a == b


def make_stepper(kind, n):
    P = pp()
    if kind == "fixed":
        return FixedStepper(n)
    if kind == "bason":
        return P.utils.ReduceToBason(steps=n + 2, patience=2, decreasing=1e-3, tol=1e-9)
    return None


def icp_hist_spec(r: random.Random, **kw) -> dict:
    spec = {"kind": "icp_hist", "seed": r.randrange(1 << 30), "stepper": r.choice(["default", "bason", "fixed", "fixed"]),
            "ctor_init": r.random() < 0.5, "ncalls": r.choice([3, 4, 5]), "dtype": r.choice(["float64", "float64", "float32"]),
            "passes": r.choice([1, 2, 3])}
    spec.update(kw)
    return spec


def check_icp_history(ctx: Ctx, hs) -> bool:
    """ONE ICP module object, several calls; every per-call argument varies between the calls (point counts, target size,
    batch shape with *different* items, dtype where legal, forward-init, memory layout); the constructor's init tensor and
    the caller's clouds are updated in place between calls.  Every call must equal the same call on a fresh, equivalent
    module bit for bit; the module's public attributes must be what the caller put there."""
    P = pp()
    r = random.Random(hs["seed"])
    case0 = dict(hs)
    ok = True
    dt_fixed = getattr(torch, hs["dtype"])
    init_t = None
    if hs["ctor_init"]:
        q = U.rand_quat(r, "small")
        init_t = P.SE3(torch.tensor([0.05, -0.02, 0.03] + q, dtype=torch.float64).to(dt_fixed))
    stp = make_stepper(hs["stepper"], hs["passes"])
    try:
        module = P.module.ICP(init=init_t, stepper=stp) if stp is not None else P.module.ICP(init=init_t)
    except Exception as e:  # noqa: BLE001
        ctx.fail(case0, f"raises: constructing ICP raises {type(e).__name__}: {str(e)[:100]}")
        return False
    stepper_obj = module.stepper
    st_attrs = {k: getattr(stepper_obj, k) for k in ("max_steps", "patience", "decreasing", "tol") if hasattr(stepper_obj, k)}
    for ci in range(hs["ncalls"]):
        case = dict(hs, call=ci)
        dtype = dt_fixed if hs["ctor_init"] else getattr(torch, r.choice(["float64", "float64", "float32"]))
        eps = common.EPS[str(dtype).split(".")[-1]]
        nb = r.choice([0, 0, 2, 3])
        N = r.choice([3, 5, 8, 12, 20, 30])
        extra = r.choice([0, 0, 2, 7])
        items = []
        for b in range(max(nb, 1)):
            inside = r.random() < 0.5
            sp = icp_spec(r, N, inside, extra=extra, drop=0, init="none", batch=0, offset=r.choice([0.0, 5.0, 1e3]))
            src, tgt, truth, _ = icp_data(sp)
            items.append((src, tgt, truth, sp))
        S = torch.tensor([it[0] for it in items], dtype=torch.float64).to(dtype)
        T = torch.tensor([it[1] for it in items], dtype=torch.float64).to(dtype)
        if not nb:
            S, T = S[0], T[0]
        lay = [r.choice(["contig", "contig", "strided", "transposed", "offset"]) for _ in range(2)]
        Sv, sbuf = relayout(S, lay[0])
        Tv, tbuf = relayout(T, lay[1])
        fwd = None
        if r.random() < 0.4:
            fwd = P.SE3(torch.tensor([0.0, 0.01, -0.01] + U.rand_quat(r, "small"), dtype=torch.float64).to(dtype))
        if init_t is not None and ci > 0 and r.random() < 0.6:
            # stale read: the caller updates the constructor's init tensor in place
            with torch.no_grad():
                init_t.copy_(P.SE3(torch.tensor([r.uniform(-0.1, 0.1) for _ in range(3)] + U.rand_quat(r, "small"), dtype=torch.float64).to(dt_fixed)))
            ctx.count("icp_hist.init-updated-in-place")
        snap = [(x, torch.Tensor.as_subclass(x.detach(), torch.Tensor).clone()) for x in (Sv, Tv, sbuf, tbuf, fwd, init_t) if x is not None]

        def one(mod, a, b, f):
            with warnings.catch_warnings():
                warnings.simplefilter("ignore")
                return mod(a, b, init=f) if f is not None else mod(a, b)

        def fresh():
            st2 = make_stepper(hs["stepper"], hs["passes"])
            i2 = None if init_t is None else P.SE3(init_t.tensor().detach().clone())
            m2 = P.module.ICP(init=i2, stepper=st2) if st2 is not None else P.module.ICP(init=i2)
            a, _ = relayout(S.clone(), lay[0])
            b, _ = relayout(T.clone(), lay[1])
            return one(m2, a, b, None if fwd is None else P.SE3(fwd.tensor().detach().clone()))

        rounds = [("call", None)]
        if r.random() < 0.5:
            rounds.append(("after-in-place-update", 1.0 + 2.0 ** -6))
        for what, factor in rounds:
            if factor is not None:      # stale read: the caller's clouds are changed in place, then the same objects are passed again
                with torch.no_grad():
                    Sv.mul_(factor)
                    Tv.mul_(factor)
                    S = Sv.clone() if lay[0] != "transposed" else Sv.contiguous().clone()
                    T = Tv.clone() if lay[1] != "transposed" else Tv.contiguous().clone()
                snap = [(x, torch.Tensor.as_subclass(x.detach(), torch.Tensor).clone()) for x in (Sv, Tv, sbuf, tbuf, fwd, init_t) if x is not None]
            try:
                out = one(module, Sv, Tv, fwd)
                ref = fresh()
            except Exception as e:  # noqa: BLE001
                ctx.fail(case, f"raises: ICP raises {type(e).__name__}: {str(e)[:100]} in call {ci} of a history on one module "
                               f"(N={N}, batch={nb}, dtype={dtype}, layout={lay}, forward-init={fwd is not None})")
                return False
            ctx.count("icp_hist.calls")
            want_shape = ((nb,) if nb else ()) + (7,)
            if type(out).__name__ != "LieTensor" or tuple(out.shape) != want_shape or out.dtype != dtype:
                ctx.fail(case, f"type: ICP returned {type(out).__name__} shape {tuple(getattr(out, 'shape', ()))} {getattr(out, 'dtype', None)}, "
                               f"expected SE3 {want_shape} {dtype} (call {ci} of a history)")
                return False
            if not torch.equal(out.tensor(), ref.tensor()):
                d = float((out.tensor() - ref.tensor()).abs().max())
                ctx.fail(case, f"history: {what} {ci} on a re-used ICP module differs from the same call on a fresh module by {d:.3e} "
                               f"(N={N}, batch={nb}, dtype={dtype}, layout={lay}, forward-init={fwd is not None}, stepper={hs['stepper']})")
                ok = False
            for x, x0 in snap:
                if not torch.equal(torch.Tensor.as_subclass(x.detach(), torch.Tensor), x0):
                    ctx.fail(case, f"mutation: ICP changed a tensor of the caller (call {ci}, layout {lay})")
                    ok = False
                    break
            # public attributes
            if module.init is not init_t or module.stepper is not stepper_obj:
                ctx.fail(case, f"history: ICP replaced its public attribute {'init' if module.init is not init_t else 'stepper'} during call {ci}")
                ok = False
            for k2, v2 in st_attrs.items():
                if not _eq_attr(getattr(stepper_obj, k2), v2):
                    ctx.fail(case, f"history: stepper attribute {k2} changed from {v2} to {getattr(stepper_obj, k2)} during call {ci}")
                    ok = False
            # the property itself, item by item (mixed batch: inside / outside the basin, different offsets)
            O = out.tensor().detach().double().reshape(-1, 7)
            S64 = S.double().reshape(-1, S.shape[-2], 3)
            T64 = T.double().reshape(-1, T.shape[-2], 3)
            eff = fwd if fwd is not None else init_t
            for b in range(O.shape[0]):
                if not torch.isfinite(O[b]).all():
                    ctx.fail(case, f"valid: ICP returned non-finite numbers (call {ci}, item {b})")
                    ok = False
                    continue
                cur0 = S64[b] if eff is None else U.apply_vec(eff.tensor().detach().double().reshape(-1), S64[b])
                E0, En = U.mscd(cur0, T64[b]), U.mscd(U.apply_vec(O[b], S64[b]), T64[b])
                D = float(max(S64[b].abs().max(), T64[b].abs().max()))
                delta = 256 * eps * D
                if not (En <= E0 + delta * delta + 2 * delta * math.sqrt(E0) + 64 * eps * E0):
                    ctx.fail(case, f"monotone: item {b} of call {ci}: mean squared closest-point distance {En:.6e} > {E0:.6e} of its initial transform "
                                   f"(batch of different items, stepper={hs['stepper']})")
                    ok = False
                # inside the basin (the initial nearest-neighbour assignment is the true correspondence, with a margin):
                # exact recovery, for the item inside the batch and for the item alone
                truth = items[b][2]
                want = U.apply_vec(torch.tensor(truth["t"] + truth["q"], dtype=torch.float64), S64[b]) * (1.0 if factor is None else factor)
                d0 = ((cur0.unsqueeze(1) - T64[b].unsqueeze(0)) ** 2).sum(-1)
                dw = ((want.unsqueeze(1) - T64[b].unsqueeze(0)) ** 2).sum(-1)
                basin = bool((d0.argmin(-1) == dw.argmin(-1)).all()) and float(dw.min(-1).values.max()) <= (64 * eps * D) ** 2 \
                    and U.nn_margin(cur0, T64[b]) > 1e-3 and items[b][3]["tnoise"] == 0
                if basin:
                    ctx.count("icp_hist.basin-items")
                    res = float((U.apply_vec(O[b], S64[b]) - want).abs().max())
                    tolr = 4096 * eps * D * (1 + N ** 0.5)
                    if not (res <= tolr):
                        ctx.fail(case, f"recover: item {b} of call {ci} (batch of different items) is inside the basin but ICP misses the exact rigid "
                                       f"motion by {res:.3e} > {tolr:.3e} (stepper={hs['stepper']})")
                        ok = False
                    if O.shape[0] > 1:
                        try:
                            st3 = make_stepper(hs["stepper"], hs["passes"])
                            i3 = None if init_t is None else P.SE3(init_t.tensor().detach().clone())
                            m3 = P.module.ICP(init=i3, stepper=st3) if st3 is not None else P.module.ICP(init=i3)
                            alone = one(m3, S.reshape(-1, S.shape[-2], 3)[b].clone(), T.reshape(-1, T.shape[-2], 3)[b].clone(),
                                        None if fwd is None else P.SE3(fwd.tensor().detach().clone()))
                            ra = float((U.apply_vec(alone.tensor().detach().double().reshape(-1), S64[b]) - U.apply_vec(O[b], S64[b])).abs().max())
                            ctx.count("icp_hist.item-alone")
                            if not (ra <= 2 * tolr):
                                ctx.fail(case, f"batch: item {b} of a batched ICP call and the same item alone differ by {ra:.3e} on the source points "
                                               f"(inside the basin, call {ci})")
                                ok = False
                        except Exception as e:  # noqa: BLE001
                            ctx.fail(case, f"raises: ICP raises {type(e).__name__} on a single item of a batch that was accepted (call {ci})")
                            ok = False
    return ok


def epnp_hist_spec(r: random.Random, **kw) -> dict:
    spec = {"kind": "epnp_hist", "seed": r.randrange(1 << 30), "refine": r.random() < 0.5, "ctorK": r.random() < 0.7,
            "ncalls": r.choice([3, 4, 5])}
    spec.update(kw)
    return spec


def check_epnp_history(ctx: Ctx, hs) -> bool:
    """ONE EPnP module, several calls with different point counts, batch shapes (items of different regimes), intrinsics
    (default / per-call override / the default tensor updated in place by the caller), memory layouts; each call must
    equal a fresh module bit for bit and recover its own ground truth; `refine` and the stored intrinsics stay as set."""
    P = pp()
    r = random.Random(hs["seed"])
    ok = True
    K0 = torch.tensor([[r.choice([300.0, 500.0, 900.0]), 0.0, 320.0], [0.0, 480.0, 240.0], [0.0, 0.0, 1.0]], dtype=torch.float64) \
        if hs["ctorK"] else None
    try:
        mod = P.module.EPnP(K0, refine=hs["refine"]) if K0 is not None else P.module.EPnP(refine=hs["refine"])
    except Exception as e:  # noqa: BLE001
        ctx.fail(dict(hs), f"raises: constructing EPnP raises {type(e).__name__}: {str(e)[:100]}")
        return False
    for ci in range(hs["ncalls"]):
        N = r.choice([6, 8, 9, 12, 25, 40])
        nb = r.choice([0, 0, 2, 3])
        per_item, scenes = [], []
        for b in range(max(nb, 1)):
            sp = epnp_spec(r, N=N, batch=0)
            pts, q, t, _ = epnp_scene(sp)
            scenes.append((pts, q, t))
            per_item.append({"depth": sp["depth"], "aniso": sp["aniso"]})
        if K0 is not None and ci > 0 and r.random() < 0.5:
            with torch.no_grad():       # stale read: the caller changes the module's default intrinsics tensor in place
                K0[0, 0] = r.choice([250.0, 700.0, 1500.0])
                K0[1, 1] = K0[0, 0] * r.choice([1.0, 0.9])
                K0[0, 2] = r.choice([0.0, 320.0])
            ctx.count("epnp_hist.intrinsics-updated-in-place")
        override = (K0 is None) or r.random() < 0.35
        K = K0
        if override:
            f = r.choice([200.0, 640.0, 2000.0])
            K = torch.tensor([[f, 0.0, r.choice([0.0, 300.0])], [0.0, f * r.choice([1.0, 1.1]), 200.0], [0.0, 0.0, 1.0]], dtype=torch.float64)
        case = dict(hs, call=ci, N=N, depth=per_item[0]["depth"], aniso=per_item[0]["aniso"], f=float(K[0, 0]), per_item=per_item, batch=nb)
        pts = torch.tensor([s_[0] for s_ in scenes], dtype=torch.float64)
        T = P.SE3(torch.tensor([s_[2] + s_[1] for s_ in scenes], dtype=torch.float64))
        pix = P.point2pixel(pts, K, T)
        if float((T.unsqueeze(-2) @ pts)[..., 2].min()) <= 0:
            continue
        if not nb:
            pts, pix, T = pts[0], pix[0], T[0]
        lay = [r.choice(["contig", "contig", "strided", "transposed", "offset"]) for _ in range(2)]
        pv, pbuf = relayout(pts.clone(), lay[0])
        xv, xbuf = relayout(pix.clone(), lay[1]) if lay[1] != "strided" else (pix.clone(), None)
        snap = [(x, x.clone()) for x in (pv, xv, pbuf, xbuf, K) if x is not None]
        K0_before = None if K0 is None else K0.clone()
        try:
            with warnings.catch_warnings():
                warnings.simplefilter("ignore")
                est = mod(pv, xv, K) if override else mod(pv, xv)
                m2 = P.module.EPnP(K0.clone(), refine=hs["refine"]) if K0 is not None else P.module.EPnP(refine=hs["refine"])
                a, _ = relayout(pts.clone(), lay[0])
                b2, _ = relayout(pix.clone(), lay[1]) if lay[1] != "strided" else (pix.clone(), None)
                ref = m2(a, b2, K.clone()) if override else m2(a, b2)
        except Exception as e:  # noqa: BLE001
            ctx.fail(case, f"raises: EPnP raises {type(e).__name__}: {str(e)[:100]} in call {ci} of a history on one module "
                           f"(N={N}, batch={nb}, override={override}, layout={lay})")
            return False
        ctx.count("epnp_hist.calls")
        if type(est).__name__ == "LieTensor" and type(ref).__name__ == "LieTensor" and est.shape == ref.shape and \
                not torch.equal(est.tensor(), ref.tensor()):
            d = float((est.tensor() - ref.tensor()).abs().max())
            ctx.fail(case, f"history: call {ci} on a re-used EPnP module differs from the same call on a fresh module by {d:.3e} "
                           f"(N={N}, batch={nb}, override={override}, layout={lay}, refine={hs['refine']})")
            ok = False
        for x, x0 in snap:
            if not torch.equal(x, x0):
                ctx.fail(case, f"mutation: EPnP changed a tensor of the caller (call {ci}, layout {lay})")
                ok = False
                break
        if mod.refine != hs["refine"] or (K0 is not None and not torch.equal(mod.intrinsics, K0_before)) or \
                (K0 is None and hasattr(mod, "intrinsics")):
            ctx.fail(case, f"history: after call {ci} EPnP's public state is not what the caller set: refine={mod.refine} (set {hs['refine']}), default "
                           f"intrinsics {'differ from the tensor the caller passed (stale copy or overwritten)' if K0 is not None else 'created by a call'}")
            ok = False
        ok = epnp_compare(ctx, case, est, T, pts, pix, K) and ok
    return ok


def run_histories(ctx: Ctx, n_icp: int, n_epnp: int):
    fixed = random.Random(909)
    hs = [icp_hist_spec(fixed, stepper=s_, ctor_init=c_, dtype=d_, ncalls=4) for s_, c_, d_ in
          (("default", False, "float64"), ("default", True, "float64"), ("bason", True, "float32"), ("fixed", False, "float64"),
           ("fixed", True, "float64"))]
    hs += [icp_hist_spec(ctx.rng) for _ in range(n_icp)]
    for h in hs:
        ctx.note_case(("icp_hist", h["stepper"], h["ctor_init"], h["dtype"], h["ncalls"], h["seed"] % 7), True)
        ctx.count(f"icp_hist.{h['stepper']}.{'ctor-init' if h['ctor_init'] else 'no-init'}")
        check_icp_history(ctx, h)
    es = [epnp_hist_spec(fixed, refine=r_, ctorK=k_, ncalls=4) for r_, k_ in ((True, True), (False, True), (False, False), (True, False))]
    es += [epnp_hist_spec(ctx.rng) for _ in range(n_epnp)]
    for h in es:
        ctx.note_case(("epnp_hist", h["refine"], h["ctorK"], h["ncalls"], h["seed"] % 7), True)
        ctx.count(f"epnp_hist.refine-{h['refine']}.{'ctorK' if h['ctorK'] else 'noK'}")
        check_epnp_history(ctx, h)


# ----------------------------------------------------------------------------- entry points

def run(ctx: Ctx):
    rng = ctx.rng
    cases = corner_cases(rng)
    n = ctx.pick(420, 9000)
    cases += [random_align_case(rng) for _ in range(n)]
    run_align(ctx, cases)
    specs = icp_corner_specs() + [random_icp_spec(rng) for _ in range(ctx.pick(70, 2000))]
    run_icp(ctx, specs)
    especs = epnp_corner_specs() + [epnp_spec(rng) for _ in range(ctx.pick(110, 4000))]
    run_epnp(ctx, especs)
    run_histories(ctx, ctx.pick(14, 150), ctx.pick(10, 120))
    ctx.notes.append("largest error/tolerance ratios: " + ", ".join(f"{k}={v:.3g}" for k, v in sorted(RATIOS.items())))


def search(ctx: Ctx):
    """after a broken proof / correspondence: hunt on the real code with the oracles only (no model), many more
    degenerate and reflection-prone configurations"""
    r = random.Random(ctx.seed * 7 + 17)
    for case in corner_cases(r):
        check_align_case(ctx, case, use_model=False)
        if ctx.failures:
            return
    for _ in range(600):
        case = random_align_case(r)
        for it in case["items"]:
            it["cloud"] = r.choice(["planar", "generic", "nearplanar", "collinear", "two", "aniso"])
            it["noise"] = r.choice([0.0, 0.1, 0.3, 0.5])
        check_align_case(ctx, case, use_model=False)
        if ctx.failures:
            return
    for spec in icp_corner_specs() + [random_icp_spec(r) for _ in range(100)]:
        check_icp_case(ctx, spec, use_model=False)
        if ctx.failures:
            return


def replay(ctx: Ctx, case) -> bool:
    c = dict(case["case"])
    kind = c.get("kind")
    n0 = len(ctx.failures)
    c.pop("item", None)
    if kind == "align":
        check_align_case(ctx, c)
    elif kind == "icp":
        c.pop("kind")
        check_icp_case(ctx, c)
    elif kind == "epnp":
        c.pop("kind")
        c.pop("call", None)
        check_epnp_case(ctx, c)
    elif kind == "icp_hist":
        c.pop("call", None)
        check_icp_history(ctx, c)
    elif kind == "epnp_hist":
        for k2 in ("call", "N", "depth", "aniso", "f", "per_item", "batch"):
            c.pop(k2, None)
        check_epnp_history(ctx, c)
    for f in ctx.failures[n0:]:
        print("  fails:", f["what"])
    for d in ctx.disagreements:
        print("  model/implementation disagreement:", d["stream"], d["detail"])
    return len(ctx.failures) == n0 and not ctx.disagreements
