import Pose.Wire
import Pose.Driver.Lie
import Pose.Model.Tangent
/-! Driver ops for C05: `+` / `add` / `add_` on group and algebra elements, `SO3Type.Jr`.

`<T>.add <eps> <alpha> <X…> <other…>` : `X + alpha*other` (group: `Exp((alpha*other)[:m])·X`; `other` may be longer
than the manifold dimension), `<t>.add <eps> <alpha> <x…> <other…>` : algebra `x + (alpha*other)[:m]`,
`SO3.Jr <eps> <X>` : `X.Log().Jr()`.  (`Adj`, `AdjT`, `Retr`, `Jinvp`, `so3.Jr` are Lie ops.) -/
namespace PP.Driver
open PP Wire

/-- `eps :: alpha :: X (n numbers) ++ other` -/
def addOp (n : Nat) (f : B → List B → List B → Option (List B)) : Handler := numeric fun xs =>
  match xs with
  | eps :: alpha :: rest =>
    if rest.length < n then .error "arity" else
      match f eps (rest.take n) (scaleList alpha (rest.drop n)) with
      | some r => .ok r
      | none => .error "short"
  | _ => .error "arity"

def opsC05 : List (String × Handler) := [
  ("SO3.add", addOp 4 fun e x o => (SO3Add e (qt x) o).map Quat.toList),
  ("SE3.add", addOp 7 fun e x o => (SE3Add e (toSE3 x) o).map SE3.toList),
  ("RxSO3.add", addOp 5 fun e x o => (RxSO3Add e (toRx x) o).map RxSO3.toList),
  ("Sim3.add", addOp 8 fun e x o => (Sim3Add e (toSim x) o).map Sim3.toList),
  ("so3.add", addOp 3 fun _ x o => algAdd x o),
  ("se3.add", addOp 6 fun _ x o => algAdd x o),
  ("rxso3.add", addOp 4 fun _ x o => algAdd x o),
  ("sim3.add", addOp 7 fun _ x o => algAdd x o),
  ("SO3.Jr", withEps 4 fun e l => (SO3Jr e (qt l)).toList)
]

end PP.Driver
