import Pose.Model.ExpBatch
import Mathlib.Tactic.Ring
/-! Masked selection / masked assignment (`maskTake`, `indexPut`) and the batch-level models of `so3_Exp.forward` and
`rxso3_Ws` = item-wise models (C01). -/
namespace PP
variable {α : Type} [Scalar α]

theorem maskTake_map {β γ : Type} (h : β → γ) : ∀ (m : List Bool) (xs : List β),
    maskTake m (xs.map h) = (maskTake m xs).map h
  | [], xs => by cases xs <;> simp [maskTake]
  | true :: m, [] => by simp [maskTake]
  | false :: m, [] => by simp [maskTake]
  | true :: m, x :: xs => by simp [maskTake, maskTake_map h m xs]
  | false :: m, x :: xs => by simp [maskTake, maskTake_map h m xs]

/-- a masked assignment of `f` evaluated on the selected sub-batch, onto an output that is itself a function of the items -/
theorem indexPut_maskTake {β γ : Type} (p : γ → Bool) (f h : γ → β) : ∀ (xs : List γ),
    indexPut (xs.map h) (xs.map p) ((maskTake (xs.map p) xs).map f) = xs.map (fun x => if p x then f x else h x)
  | [] => by simp [indexPut]
  | x :: xs => by
    cases hp : p x
    · simp [indexPut, maskTake, hp, indexPut_maskTake p f h xs]
    · simp [indexPut, maskTake, hp, indexPut_maskTake p f h xs]

theorem so3Exp_eq_fac (eps : α) (x : Vec3 α) :
    so3Exp eps x = Quat.mk' (x.smul (if Scalar.lt eps x.norm then so3ExpClosedFac x.norm else so3ExpTaylorFac x.norm).1)
      (if Scalar.lt eps x.norm then so3ExpClosedFac x.norm else so3ExpTaylorFac x.norm).2 := by
  by_cases h : Scalar.lt eps x.norm = true <;> simp [so3Exp, so3ExpClosedFac, so3ExpTaylorFac, h]

theorem zipWith_map_self {β γ δ : Type} (g : β → γ → δ) (h : β → γ) (xs : List β) :
    List.zipWith g xs (xs.map h) = xs.map (fun x => g x (h x)) := by
  induction xs with
  | nil => rfl
  | cons x xs ih => simp [ih]

theorem so3ExpBatch_eq_map' (eps : α) (xs : List (Vec3 α)) : so3ExpBatch eps xs = xs.map (so3Exp eps) := by
  unfold so3ExpBatch
  have h1 := indexPut_maskTake (fun t : α => Scalar.lt eps t) so3ExpClosedFac (fun _ => ((k 0 : α), (k 0 : α))) (xs.map Vec3.norm)
  have h2 := indexPut_maskTake (fun t : α => !Scalar.lt eps t) so3ExpTaylorFac
    (fun t => if Scalar.lt eps t then so3ExpClosedFac t else ((k 0 : α), (k 0 : α))) (xs.map Vec3.norm)
  have e : ((xs.map Vec3.norm).map fun t => Scalar.lt eps t).map not = (xs.map Vec3.norm).map (fun t => !Scalar.lt eps t) := by
    simp [List.map_map, Function.comp_def]
  simp only []
  rw [e, h1, h2, List.map_map, zipWith_map_self]
  apply List.map_congr_left
  intro x _
  rw [so3Exp_eq_fac]
  by_cases h : Scalar.lt eps x.norm = true <;> simp [h]

theorem zipWith_map_map {β γ δ ε : Type} (g : γ → δ → ε) (h1 : β → γ) (h2 : β → δ) (xs : List β) :
    List.zipWith g (xs.map h1) (xs.map h2) = xs.map (fun x => g (h1 x) (h2 x)) := by
  induction xs with
  | nil => rfl
  | cons x xs ih => simp [ih]

theorem wsCoefBatch_eq_map' (eps : α) (ts : List (α × α)) :
    wsCoefBatch eps ts = ts.map (fun p => rxso3WsCoef eps p.1 p.2) := by
  unfold wsCoefBatch
  -- the masks as functions of the item
  let sl : α × α → Bool := fun p => Scalar.lt eps (sabs p.2)
  let tl : α × α → Bool := fun p => Scalar.lt eps p.1
  have hsl : (ts.map fun p => Scalar.lt eps (sabs p.2)) = ts.map sl := rfl
  have htl : (ts.map fun p => Scalar.lt eps p.1) = ts.map tl := rfl
  have hn : (ts.map sl).map not = ts.map (fun p => !sl p) := by simp [List.map_map, Function.comp_def]
  have hc1 : List.zipWith (fun a b => !a && !b) (ts.map sl) (ts.map tl) = ts.map (fun p => !sl p && !tl p) := zipWith_map_map _ _ _ _
  have hc2 : List.zipWith (fun a b => !a && b) (ts.map sl) (ts.map tl) = ts.map (fun p => !sl p && tl p) := zipWith_map_map _ _ _ _
  have hc3 : List.zipWith (fun a b => a && !b) (ts.map sl) (ts.map tl) = ts.map (fun p => sl p && !tl p) := zipWith_map_map _ _ _ _
  have hc4 : List.zipWith (fun a b => a && b) (ts.map sl) (ts.map tl) = ts.map (fun p => sl p && tl p) := zipWith_map_map _ _ _ _
  simp only [hsl, htl, hn, hc1, hc2, hc3, hc4]
  -- C
  have hC1 := indexPut_maskTake (fun p : α × α => !sl p) (fun _ => (k 1 : α)) (fun _ => (k 0 : α)) ts
  rw [hC1]
  have hC2 := indexPut_maskTake sl wsC (fun p => if (!sl p) = true then (k 1 : α) else k 0) ts
  rw [hC2]
  -- A, B
  have hA1 := indexPut_maskTake (fun p : α × α => !sl p && !tl p) (fun _ => ((q 1 2 : α), (q 1 6 : α)))
    (fun _ => ((k 0 : α), (k 0 : α))) ts
  rw [hA1]
  have hA2 := indexPut_maskTake (fun p : α × α => !sl p && tl p) wsAB2
    (fun p => if (!sl p && !tl p) = true then ((q 1 2 : α), (q 1 6 : α)) else (k 0, k 0)) ts
  rw [hA2]
  have hA3 := indexPut_maskTake (fun p : α × α => sl p && !tl p) wsAB3
    (fun p => if (!sl p && tl p) = true then wsAB2 p else if (!sl p && !tl p) = true then ((q 1 2 : α), (q 1 6 : α)) else (k 0, k 0)) ts
  rw [hA3]
  rw [maskTake_map, zipWith_map_self]
  have hA4 := indexPut_maskTake (fun p : α × α => sl p && tl p)
    (fun p => wsAB4 p (if sl p = true then wsC p else if (!sl p) = true then (k 1 : α) else k 0))
    (fun p => if (sl p && !tl p) = true then wsAB3 p else if (!sl p && tl p) = true then wsAB2 p
      else if (!sl p && !tl p) = true then ((q 1 2 : α), (q 1 6 : α)) else (k 0, k 0)) ts
  rw [hA4, zipWith_map_map]
  apply List.map_congr_left
  intro p _
  unfold rxso3WsCoef wsAB4 wsAB3 wsAB2 wsC
  cases h1 : sl p <;> cases h2 : tl p <;> simp [sl, tl] at h1 h2 <;> simp [h1, h2]

/-! ### generic facts about item-wise maps and object stores (moved out of `Props/C01.lean` in pass 4: they carry no clause of
the property by themselves; the harness streams `repeat`, `reuse`, `copies`, `persistent` exercise the real code) -/

/-- item `i` of a batched result depends only on item `i` of the argument -/
theorem batch_item_independent {β γ : Type} (f : β → γ) (xs ys : List β) (i : Nat) (h : xs[i]? = ys[i]?) :
    (xs.map f)[i]? = (ys.map f)[i]? := by
  rw [List.getElem?_map, List.getElem?_map, h]

/-- re-reading after an in-place item assignment: exactly that item of the result changes -/
theorem reread_after_setitem {β γ : Type} (f : β → γ) (xs : List β) (i : Nat) (y : β) :
    (xs.set i y).map f = (xs.map f).set i (f y) := List.map_set

/-- the `k`-th result of a call history is the map of the `k`-th argument only -/
theorem history_stateless {β γ : Type} (f : β → γ) (hist : List (List β)) (k : Nat) :
    (hist.map (List.map f))[k]? = (hist[k]?).map (List.map f) := List.getElem?_map

theorem runOps_filter_changes {β : Type} (ops : List (ObjOp β)) (s : Store β) :
    runOps s ops = runOps s (ops.filter ObjOp.changes) := by
  induction ops generalizing s with
  | nil => rfl
  | cons o ops ih =>
    cases o <;> simp [runOps, List.filter, ObjOp.changes, ObjOp.step] at * <;> exact ih _

theorem deepcopy_then_setitem {β γ : Type} (f : β → γ) (s : Store β) (dst src i : Nat) (y : β) (h : dst ≠ src) :
    readObj f (runOps s [.deepcopy dst src, .setitem src i y]) dst = readObj f s src ∧
    readObj f (runOps s [.deepcopy dst src, .setitem src i y]) src = (readObj f s src).set i (f y) := by
  constructor
  · simp [runOps, ObjOp.step, readObj, h]
  · simp [runOps, ObjOp.step, readObj, h, Ne.symm h, List.map_set]
end PP
