"""C04 — hardening pass 2: deterministic streams for the trigger kinds (10)–(17) of /tmp/harden2.txt.

Everything here runs on the real code only (no model lines): the oracle is always "the same quantity computed the plain
way on fresh objects" (autograd.grad row by row, a fresh wrapper / module / tensor, the single-item call), i.e. the
property's own statement that the gradient is a function of (program, values) and of nothing else.  The values themselves
are tied to the model and to the finite-difference oracle by the corpus / local / prog streams of harness/c04.py.
"""
from __future__ import annotations

import copy
import io
import math
import pickle

import torch

from . import common, util_lie as U

GROUPS = U.GROUPS
GD, AD_ = U.GDIM, U.ADIM


def _c04():
    from . import c04
    return c04


def T(x):
    return torch.Tensor.as_subclass(x, torch.Tensor) if isinstance(x, torch.Tensor) else x


def same(a, b):
    return _c04().same(None if a is None else T(a).detach(), None if b is None else T(b).detach())


def close(a, b, tol):
    if a is None or b is None:
        return a is None and b is None
    a, b = T(a).detach().double(), T(b).detach().double()
    if a.shape != b.shape:
        return False
    if a.numel() == 0:
        return True
    return bool(((a - b).abs() <= tol * (1e-300 + b.abs().max())).all()) and bool(torch.isfinite(a).all())


def cot_for(out):
    return torch.cos(torch.arange(out.numel(), dtype=torch.float64) * 0.7 + 0.3).reshape(out.shape).to(out.dtype)


def mixed_inputs(P, g, dtype, n, salt=0):
    """(X, a, p): mixed-regime group elements (corner-corpus items), generic algebra elements and points"""
    c = _c04()
    D = U.dt(dtype)
    rows = c.corpus_items(("G", g), dtype, "Jinvp", n + salt)[salt:]
    X = U.to_dtype_exact(rows, dtype)[0]
    a = torch.tensor([[0.2 * math.sin(1.0 + i + 3 * j + salt) for j in range(AD_[g])] for i in range(n)], dtype=torch.float64).to(D)
    p = torch.tensor([[1.5 * math.cos(0.5 + i + 2 * j + salt) for j in range(3)] for i in range(n)], dtype=torch.float64).to(D)
    return X, a, p


def ref_jacobian(P, fn, g, X, a, p):
    """Jacobians d out / d (X, a, p) assembled row by row with plain autograd.grad (the reference every option must match)"""
    c = _c04()
    Xl, al, pl = X.clone().requires_grad_(True), a.clone().requires_grad_(True), p.clone().requires_grad_(True)
    XL, aL = c.lie(P, g, Xl, al)
    out = T(fn(XL, aL, pl))
    rows = [[], [], []]
    flat = out.reshape(-1)
    for i in range(flat.numel()):
        gs = torch.autograd.grad(flat[i], [Xl, al, pl], retain_graph=True, allow_unused=True)
        for k, (gk, leaf) in enumerate(zip(gs, (Xl, al, pl))):
            rows[k].append(torch.zeros_like(leaf) if gk is None else gk)
    return out.detach(), [torch.stack(r).reshape(out.shape + leaf.shape) for r, leaf in zip(rows, (Xl, al, pl))]


# ----------------------------------------------------------------------------- (10) argument combinations

def run_args(ctx):
    """every optional argument of jacrev / modjac / modjacrev / autograd.grad / functional.jacobian, alone and in pairs, on
    batched mixed-regime input; positional vs keyword passing"""
    P = U.pp()
    c = _c04()
    progs = dict(c.REUSE_PROGS)
    for gi, g in enumerate(GROUPS):
        for ni, name in enumerate(("Act", "AdjT", "LogMul", "Jinvp")):
            if ctx.quick and (ni + gi) % 4 not in (0,) and not (ni == 3 and gi % 2 == 0):
                continue
            fn = progs[name]
            dtype = "float64"
            case = {"stream": "args", "type": g, "program": name}
            try:
                X, a, p = mixed_inputs(P, g, dtype, 3, gi)
                out0, J0 = ref_jacobian(P, fn, g, X, a, p)
                XL, aL = c.lie(P, g, X, a)
                combos = [dict(argnums=0), dict(argnums=(0,)), dict(argnums=(0, 1, 2)), dict(argnums=(2, 0)), dict(argnums=1, chunk_size=1),
                          dict(argnums=(0, 2), chunk_size=2), dict(argnums=(1, 2), has_aux=True), dict(argnums=0, has_aux=True, chunk_size=1),
                          dict(argnums=(0, 1, 2), chunk_size=4)]
                for kw in combos:
                    cc = dict(case, api="jacrev", kwargs={k: (list(v) if isinstance(v, tuple) else v) for k, v in kw.items()})
                    ctx.note_case(("args", "jacrev", g, name, str(kw)), True)
                    ctx.count("args.jacrev")
                    aux = kw.get("has_aux", False)
                    f2 = (lambda X_, a_, p_: (fn(X_, a_, p_), T(X_).sum())) if aux else fn
                    res = P.func.jacrev(f2, **kw)(XL, aL, p)
                    if aux:
                        res, auxv = res
                        if not close(auxv, X.sum(), 64 * common.EPS[dtype]):
                            ctx.fail(cc, f"args: jacrev(has_aux=True) returned a wrong aux value ({name}, {g})")
                    an = kw["argnums"]
                    if isinstance(an, int):
                        res, an = (res,), (an,)
                    if len(res) != len(an) or any(not close(r_, J0[k], 1e-9) for r_, k in zip(res, an)):
                        ctx.fail(cc, f"args: pp.func.jacrev({name} on {g}, {kw}) differs from the Jacobian assembled row by row with autograd.grad")
                # functional.jacobian options
                for kw in (dict(), dict(vectorize=True), dict(create_graph=True), dict(strict=True), dict(create_graph=True, strict=True),
                           dict(vectorize=True, create_graph=True)):
                    ctx.count("args.jacobian")
                    cc = dict(case, api="jacobian", kwargs=kw)
                    f3 = lambda x_, a_, p_: T(fn(*c.lie(P, g, x_, a_), p_))
                    if name == "Act" and kw.get("strict"):
                        f3s = lambda x_, p_: T(fn(P.LieTensor(x_, ltype=U.ltype(g)), None, p_))
                        J = torch.autograd.functional.jacobian(f3s, (X, p), **kw)
                        ok = close(J[0], J0[0], 1e-9) and close(J[1], J0[2], 1e-9)
                    elif kw.get("strict"):
                        continue          # strict=True needs every input to be used; only Act(X,p) qualifies with two inputs
                    else:
                        J = torch.autograd.functional.jacobian(f3, (X, a, p), **kw)
                        ok = all(close(j_, r_, 1e-9) for j_, r_ in zip(J, J0))
                    if not ok:
                        ctx.fail(cc, f"args: autograd.functional.jacobian({name} on {g}, {kw}) differs from the row-by-row Jacobian")
                # autograd.grad options
                Xl, al, pl = X.clone().requires_grad_(True), a.clone().requires_grad_(True), p.clone().requires_grad_(True)
                out = T(fn(*c.lie(P, g, Xl, al), pl))
                cot = cot_for(out)
                want = [torch.tensordot(cot, j_, dims=cot.dim()) for j_ in J0]
                for kw in (dict(retain_graph=True), dict(create_graph=True), dict(retain_graph=True, create_graph=True),
                           dict(retain_graph=True, allow_unused=False) if name in ("Act",) and False else dict(retain_graph=True)):
                    ctx.count("args.grad")
                    gs = torch.autograd.grad(out, [Xl, al, pl], cot, allow_unused=True, **kw)
                    if any(not close(torch.zeros_like(w_) if g_ is None else g_, w_, 1e-9) for g_, w_ in zip(gs, want)):
                        ctx.fail(dict(case, api="grad", kwargs=kw), f"args: autograd.grad({name} on {g}, {kw}) differs from c·J")
            except Exception as e:
                ctx.fail(case, f"raises: argument combinations of {name} on {g} raised {type(e).__name__}: {str(e)[:140]}")
        # modjac / modjacrev
        case = {"stream": "args", "type": g, "api": "modjac"}
        try:
            X, a, p = mixed_inputs(P, g, "float64", 2, 1)

            class Mod(torch.nn.Module):
                def __init__(s):
                    super().__init__()
                    s.X = P.Parameter(P.LieTensor(X.clone(), ltype=U.ltype(g)))
                    s.a = P.Parameter(P.LieTensor(a.clone(), ltype=U.ltype(U.ALG[g])))

                def forward(s, q):
                    return (s.a.Exp() @ s.X).Act(q)
            q = p.unsqueeze(1)[:, :, :]
            fn2 = lambda X_, a_, p_: (a_.Exp() @ X_).Act(q)
            _, J0 = ref_jacobian(P, fn2, g, X, a, p)
            for kw in (dict(), dict(vectorize=True), dict(flatten=True), dict(vectorize=True, flatten=True), dict(create_graph=True),
                       dict(strict=True), dict(create_graph=True, flatten=True), dict(strict=True, flatten=True),
                       dict(strategy="reverse-mode", vectorize=True)):
                for positional in (False, True):
                    ctx.count("args.modjac")
                    ctx.note_case(("args", "modjac", g, str(kw), positional), True)
                    mod = Mod()
                    J = P.optim.functional.modjac(mod, q, **kw) if positional else P.optim.functional.modjac(mod, input=q, **kw)
                    if kw.get("flatten"):
                        n_out = J.shape[0]
                        ref = torch.cat([J0[0].reshape(n_out, -1), J0[1].reshape(n_out, -1)], dim=1)
                        ok = close(J, ref, 1e-9)
                    else:
                        ok = close(J[0], J0[0], 1e-9) and close(J[1], J0[1], 1e-9)
                    if not ok:
                        ctx.fail(dict(case, kwargs=kw, positional=positional), f"args: modjac({g}, {kw}, positional input={positional}) differs from the row-by-row Jacobian")
            with P.retain_ltype():
                Jr = P.optim.functional.modjacrev(Mod(), q)
            ctx.count("args.modjacrev")
            if not (close(Jr["X"], J0[0], 1e-9) and close(Jr["a"], J0[1], 1e-9)):
                ctx.fail(dict(case, api="modjacrev"), f"args: modjacrev under retain_ltype ({g}) differs from the row-by-row Jacobian")
        except Exception as e:
            ctx.fail(case, f"raises: modjac argument combinations on {g} raised {type(e).__name__}: {str(e)[:140]}")


# ----------------------------------------------------------------------------- (11) error paths are atomic

class Boom(Exception):
    pass


def run_errors(ctx):
    """a call that raises (user function, model forward, wrong cotangent, wrong argument) must leave wrapper, module, graph,
    tensors and the patched torch functions as they were: continuing afterwards = a history without the failed call"""
    P = U.pp()
    c = _c04()
    before = c.patched_functions()
    progs = dict(c.REUSE_PROGS)
    for gi, g in enumerate(GROUPS):
        for name in ("Act", "Log", "AdjT", "Jinvp", "matrix"):
            fn = progs[name]
            case = {"stream": "errors", "type": g, "program": name}
            try:
                X, a, p = mixed_inputs(P, g, "float64", 2, gi)
                XL, aL = c.lie(P, g, X, a)
                state = {"fail": False, "late": False}

                def user(X_, a_, p_):
                    if state["fail"] and not state["late"]:
                        raise Boom("early")
                    out = fn(X_, a_, p_)
                    _ = X_.Log(), X_.matrix(), a_.Exp()          # more library calls before the late failure
                    if state["fail"]:
                        raise Boom("late")
                    return out
                w = P.func.jacrev(user, argnums=(0, 1, 2))
                J1 = w(XL, aL, p)
                for late in (False, True):
                    state.update(fail=True, late=late)
                    try:
                        w(XL, aL, p)
                        ctx.fail(case, f"errors: exception of the user function was swallowed by pp.func.jacrev ({name}, {g})")
                    except Boom:
                        pass
                    state["fail"] = False
                    ctx.count("errors.jacrev")
                    ctx.note_case(("errors", "jacrev", g, name, late), True)
                    if c.patched_functions() != before:
                        ctx.fail(dict(case, late=late), f"errors: torch functions patched by retain_ltype stay patched after the user function raised inside pp.func.jacrev ({name}, {g})")
                        break
                    J2 = w(XL, aL, p)
                    Jf = P.func.jacrev(fn, argnums=(0, 1, 2))(*c.lie(P, g, X.clone(), a.clone()), p.clone())
                    if not all(same(x, y) for x, y in zip(J2, J1)) or not all(same(x, y) for x, y in zip(J2, Jf)):
                        ctx.fail(dict(case, late=late), f"errors: pp.func.jacrev wrapper gives another result after a call that raised ({name}, {g})")
                    # plain use of the library right after the failure
                    o1, g1 = c.grads_of(P, fn, g, X, a, p)
                    if not close(torch.tensordot(cot_for(o1), T(Jf[0]), dims=o1.dim()), g1[0] if g1[0] is not None else torch.zeros_like(X), 1e-9):
                        ctx.fail(dict(case, late=late), f"errors: autograd.grad after a failed jacrev call disagrees with the Jacobian ({name}, {g})")
                # wrong cotangent shape, then the right one on the same graph
                Xl, al, pl = X.clone().requires_grad_(True), a.clone().requires_grad_(True), p.clone().requires_grad_(True)
                out = T(fn(*c.lie(P, g, Xl, al), pl))
                cot = cot_for(out)
                try:
                    torch.autograd.grad(out, [Xl, al, pl], torch.ones(out.numel() + 1, dtype=out.dtype), retain_graph=True, allow_unused=True)
                except Exception:
                    pass
                try:
                    torch.autograd.grad(out, [Xl, al, pl], cot.to(torch.float32 if out.dtype == torch.float64 else torch.float64),
                                        retain_graph=True, allow_unused=True)
                except Exception:
                    pass
                gs = torch.autograd.grad(out, [Xl, al, pl], cot, allow_unused=True)
                _, gf = c.grads_of(P, fn, g, X, a, p, cot)
                ctx.count("errors.cotangent")
                if not all(same(x, y) for x, y in zip(gs, gf)):
                    ctx.fail(case, f"errors: backward after a rejected cotangent differs from a fresh evaluation ({name}, {g})")
                # wrong arguments to the public methods, then the same objects again
                XL2, aL2 = c.lie(P, g, X.clone(), a.clone())
                v0 = T(fn(XL2, aL2, p))
                for bad in (lambda: XL2.Act(torch.ones(2, 5, dtype=X.dtype)), lambda: XL2.Adj(torch.ones(2, AD_[g] + 2, dtype=X.dtype)),
                            lambda: XL2.Act("p"), lambda: XL2 @ P.LieTensor(torch.ones(2, 3, dtype=X.dtype), ltype=P.so3_type).Exp()[..., :2],
                            lambda: XL2.Jinvp(torch.ones(5, AD_[g], dtype=X.dtype)), lambda: aL2.Exp().Act(torch.ones(7, 3, dtype=X.dtype))):
                    try:
                        bad()
                    except Exception:
                        pass
                ctx.count("errors.arguments")
                if not same(T(fn(XL2, aL2, p)), v0) or not same(T(XL2), X) or not same(T(aL2), a):
                    ctx.fail(case, f"errors: objects changed by calls that raised ({name}, {g})")
            except Exception as e:
                ctx.fail(case, f"raises: error-path history of {name} on {g} raised {type(e).__name__}: {str(e)[:140]}")
        # a module whose forward raises on demand, under modjac
        case = {"stream": "errors", "type": g, "api": "modjac"}
        try:
            X, a, p = mixed_inputs(P, g, "float64", 2, 2)

            class Mod(torch.nn.Module):
                def __init__(s):
                    super().__init__()
                    s.X = P.Parameter(P.LieTensor(X.clone(), ltype=U.ltype(g)))
                    s.fail = False

                def forward(s, q):
                    out = s.X.Inv().Act(q)
                    if s.fail:
                        raise Boom("forward")
                    return out
            mod = Mod()
            q = p.unsqueeze(1)
            for vec in (False, True):
                J1 = P.optim.functional.modjac(mod, input=q, vectorize=vec)
                mod.fail = True
                try:
                    P.optim.functional.modjac(mod, input=q, vectorize=vec)
                    ctx.fail(case, f"errors: exception of the model was swallowed by modjac ({g})")
                except Boom:
                    pass
                mod.fail = False
                ctx.count("errors.modjac")
                J2 = P.optim.functional.modjac(mod, input=q, vectorize=vec)
                ok = same(J1[0] if isinstance(J1, tuple) else J1, J2[0] if isinstance(J2, tuple) else J2)
                if not ok or not same(T(mod.X), X) or mod.X.grad is not None or c.patched_functions() != before \
                        or not torch.is_grad_enabled():
                    ctx.fail(dict(case, vectorize=vec), f"errors: modjac after a raising forward: result / parameters / .grad / grad mode / patched functions changed ({g})")
        except Exception as e:
            ctx.fail(case, f"raises: modjac error-path history on {g} raised {type(e).__name__}: {str(e)[:140]}")


# ----------------------------------------------------------------------------- (12) grad modes, (13) duck-typed inputs

def reads(P):
    return [
        ("Log", lambda X, a, p: X.Log()), ("Exp", lambda X, a, p: a.Exp()), ("Inv", lambda X, a, p: X.Inv()),
        ("Mul", lambda X, a, p: X @ X.Inv().Inv()), ("Act", lambda X, a, p: X.Act(p)),
        ("Act4", lambda X, a, p: X.Act(torch.cat([p, torch.ones_like(p[..., :1]) * 0.5], -1))),
        ("Adj", lambda X, a, p: X.Adj(a)), ("AdjT", lambda X, a, p: X.AdjT(a)), ("Jinvp", lambda X, a, p: X.Jinvp(a)),
        ("Retr", lambda X, a, p: X.Retr(a)), ("matrix", lambda X, a, p: X.matrix()), ("matrixA", lambda X, a, p: a.matrix()),
    ]


def run_modes(ctx):
    """(12) the same call with plain tensors, requires_grad operands, under no_grad, under inference_mode and inside an
    autograd graph returns the same values bit for bit"""
    P = U.pp()
    c = _c04()
    for gi, g in enumerate(GROUPS):
        for dtype in ("float64", "float32"):
            X, a, p = mixed_inputs(P, g, dtype, 6, gi)
            for name, fn in reads(P):
                case = {"stream": "modes", "type": g, "dtype": dtype, "read": name}
                try:
                    v0 = T(fn(*c.lie(P, g, X.clone(), a.clone()), p.clone()))
                    Xl, al, pl = X.clone().requires_grad_(True), a.clone().requires_grad_(True), p.clone().requires_grad_(True)
                    v1 = T(fn(*c.lie(P, g, Xl, al), pl)).detach()
                    with torch.no_grad():
                        v2 = T(fn(*c.lie(P, g, Xl, al), pl))
                    with torch.inference_mode():
                        v3 = T(fn(*c.lie(P, g, X.clone(), a.clone()), p.clone())).clone()
                    # inside a graph: operands are themselves results of differentiable ops
                    Xi = (P.LieTensor(Xl, ltype=U.ltype(g)).Inv().Inv())
                    ai = P.LieTensor(al * 1.0, ltype=U.ltype(U.ALG[g]))
                    v4 = T(fn(Xi, ai, pl * 1.0)).detach()
                    vref = T(fn(*c.lie(P, g, T(Xi).detach(), a.clone()), p.clone()))
                    ctx.note_case(("modes", g, dtype, name), True)
                    ctx.count("modes.reads")
                    for lab, v in (("requires_grad operands", v1), ("torch.no_grad()", v2), ("torch.inference_mode()", v3)):
                        if not same(v, v0):
                            ctx.fail(dict(case, mode=lab), f"modes: value of {name} on {g} with {lab} differs from plain tensors ({dtype})")
                    if not same(v4, vref):
                        ctx.fail(dict(case, mode="inside graph"), f"modes: value of {name} on {g} inside an autograd graph differs from plain tensors ({dtype})")
                except Exception as e:
                    ctx.fail(case, f"raises: {name} on {g} in some grad mode raised {type(e).__name__}: {str(e)[:140]}")


def run_ducks(ctx):
    """(13) every accepted type for every argument: LieTensor over a tensor leaf, LieTensor leaf, pp.Parameter, plain Tensor
    where the API accepts one, module-level functions, `*` vs `@`, `+` vs Retr — same values and the same gradients"""
    P = U.pp()
    c = _c04()
    for gi, g in enumerate(GROUPS):
        for dtype in (("float64", "float32") if (not ctx.quick or gi % 2 == 0) else ("float64",)):
            X, a, p = mixed_inputs(P, g, dtype, 3, gi + 1)
            GT, AT = U.ltype(g), U.ltype(U.ALG[g])
            pad = torch.cat([a, torch.full_like(a[..., :1], 7.0)], -1)
            variants = {
                "Log": [lambda X_, a_, p_: X_.Log(), lambda X_, a_, p_: P.Log(X_)],
                "Exp": [lambda X_, a_, p_: a_.Exp(), lambda X_, a_, p_: P.Exp(a_)],
                "Inv": [lambda X_, a_, p_: X_.Inv(), lambda X_, a_, p_: P.Inv(X_)],
                "Mul": [lambda X_, a_, p_: X_ @ X_.Inv().Inv(), lambda X_, a_, p_: X_ * X_.Inv().Inv(), lambda X_, a_, p_: P.mul(X_, X_.Inv().Inv()),
                        lambda X_, a_, p_: X_.mul(X_.Inv().Inv())],
                "Act": [lambda X_, a_, p_: X_.Act(p_), lambda X_, a_, p_: X_ @ p_, lambda X_, a_, p_: X_ * p_, lambda X_, a_, p_: P.Act(X_, p_)],
                "Adj": [lambda X_, a_, p_: X_.Adj(a_), lambda X_, a_, p_: X_.Adj(T(a_)), lambda X_, a_, p_: P.Adj(X_, a_)],
                "AdjT": [lambda X_, a_, p_: X_.AdjT(a_), lambda X_, a_, p_: X_.AdjT(T(a_)), lambda X_, a_, p_: P.AdjT(X_, a_)],
                "Jinvp": [lambda X_, a_, p_: X_.Jinvp(a_), lambda X_, a_, p_: X_.Jinvp(T(a_)), lambda X_, a_, p_: P.Jinvp(X_, a_)],
                "Retr": [lambda X_, a_, p_: X_.Retr(a_), lambda X_, a_, p_: P.Retr(X_, a_), lambda X_, a_, p_: a_.Exp() @ X_, lambda X_, a_, p_: X_ + a_,
                         lambda X_, a_, p_: X_ + T(a_), lambda X_, a_, p_: P.add(X_, a_),
                         lambda X_, a_, p_: X_ + torch.cat([T(a_), torch.full_like(T(a_)[..., :1], 7.0)], -1)],
                "matrix": [lambda X_, a_, p_: X_.matrix(), lambda X_, a_, p_: P.matrix(X_)],
            }
            for name, fns in variants.items():
                case = {"stream": "ducks", "type": g, "dtype": dtype, "read": name}
                try:
                    o0, g0 = c.grads_of(P, fns[0], g, X, a, p)
                    cot = cot_for(o0)
                    for vi, fn in enumerate(fns):
                        # leaf kinds: 0 tensor leaf under a LieTensor, 1 LieTensor leaf, 2 pp.Parameter
                        for lk in (0, 1, 2):
                            ctx.count("ducks.calls")
                            ctx.note_case(("ducks", g, dtype, name, vi, lk), True)
                            if lk == 0:
                                Xl, al = X.clone().requires_grad_(True), a.clone().requires_grad_(True)
                                XL, aL = P.LieTensor(Xl, ltype=GT), P.LieTensor(al, ltype=AT)
                            elif lk == 1:
                                XL = P.LieTensor(X.clone(), ltype=GT).requires_grad_(True)
                                aL = P.LieTensor(a.clone(), ltype=AT).requires_grad_(True)
                                Xl, al = XL, aL
                            else:
                                XL, aL = P.Parameter(P.LieTensor(X.clone(), ltype=GT)), P.Parameter(P.LieTensor(a.clone(), ltype=AT))
                                Xl, al = XL, aL
                            pl = p.clone().requires_grad_(True)
                            out = T(fn(XL, aL, pl))
                            if not same(out, o0):
                                ctx.fail(dict(case, variant=vi, leaf_kind=lk), f"ducks: value of variant #{vi} of {name} on {g} (leaf kind {lk}) differs from the reference spelling ({dtype})")
                                continue
                            if lk == 2:
                                out.backward(cot)
                                gs = [Xl.grad, al.grad, pl.grad]
                            else:
                                gs = torch.autograd.grad(out, [Xl, al, pl], cot, allow_unused=True)
                            if not all(same(x, y) for x, y in zip(gs, g0)):
                                ctx.fail(dict(case, variant=vi, leaf_kind=lk), f"ducks: gradient of variant #{vi} of {name} on {g} (leaf kind {lk}: 0 tensor, 1 LieTensor, 2 Parameter) differs from the reference spelling ({dtype})")
                            if lk > 0 and gs[0] is not None and (type(XL).__name__ not in ("LieTensor", "Parameter") or XL.ltype != GT):
                                ctx.fail(dict(case, variant=vi, leaf_kind=lk), f"ducks: leaf lost its type ({g})")
                except Exception as e:
                    ctx.fail(case, f"raises: duck-typed spelling of {name} on {g} ({dtype}) raised {type(e).__name__}: {str(e)[:140]}")


# ----------------------------------------------------------------------------- (14) copies, (15) outputs own their memory

def run_copies(ctx):
    """deepcopy / copy / pickle / torch.save round trips / state_dict of LieTensors, Parameters and modules; copy and original
    used interleaved, each must follow its own data"""
    P = U.pp()
    c = _c04()
    progs = dict(c.REUSE_PROGS)
    for gi, g in enumerate(GROUPS):
        if ctx.quick and g == "RxSO3":
            continue          # quick: SO3, SE3, Sim3 (Sim3 has both the translation and the scale slot)
        case = {"stream": "copies", "type": g}
        try:
            X, a, p = mixed_inputs(P, g, "float64", 3, gi)
            X2, a2, _ = mixed_inputs(P, g, "float64", 3, gi + 4)
            GT, AT = U.ltype(g), U.ltype(U.ALG[g])

            def clones(obj):
                """the copy operations that work on this object (an operation that raises is an observation, not a failure:
                on the clean tree copy.deepcopy of a LieTensor leaf that requires grad raises inside torch)"""
                def tsave(o):
                    b = io.BytesIO()
                    torch.save(o, b)
                    b.seek(0)
                    return torch.load(b, weights_only=False)
                ops = {"deepcopy": copy.deepcopy, "pickle": lambda o: pickle.loads(pickle.dumps(o)), "torch.save": tsave,
                       "clone": (lambda o: o.detach().clone().requires_grad_(True)) if not isinstance(obj, torch.nn.Parameter)
                       else (lambda o: P.Parameter(o.detach().clone()))}
                out = {}
                for k_, f_ in ops.items():
                    try:
                        o_ = f_(obj)
                        T(o_).detach()          # a copy that cannot even be read is "not supported" too
                        if type(o_) is not type(obj):
                            raise TypeError("copy has another class")   # e.g. pickle of pp.Parameter -> torch.nn.Parameter (clean tree)
                        out[k_] = o_
                    except Exception:
                        ctx.count(f"copies.unsupported.{type(obj).__name__}.{k_}")
                return out
            for kind in ("LieTensor", "Parameter"):
                mk = (lambda t, lt: P.LieTensor(t.clone(), ltype=lt).requires_grad_(True)) if kind == "LieTensor" else \
                     (lambda t, lt: P.Parameter(P.LieTensor(t.clone(), ltype=lt)))
                XL, aL = mk(X, GT), mk(a, AT)
                cl_a = clones(aL)
                for how, XC in clones(XL).items():
                    if how not in cl_a:
                        continue
                    aC = cl_a[how]
                    ctx.count("copies.objects")
                    ctx.note_case(("copies", g, kind, how), True)
                    cc = dict(case, object=kind, how=how)
                    if type(XC).__name__ != type(XL).__name__ or getattr(XC, "ltype", None) != GT or getattr(aC, "ltype", None) != AT \
                            or XC.requires_grad != XL.requires_grad or not same(XC, XL):
                        ctx.fail(cc, f"copies: {how} of a {g} {kind} lost class / ltype / requires_grad / data")
                        continue
                    for name in (("Log", "Act") if ctx.quick else ("Log", "AdjT", "Jinvp", "Act", "Retr")):
                        fn = progs[name]
                        # interleaved: original, copy, then the copy is updated in place, then both again
                        def gr(Xo, ao):
                            pl = p.clone().requires_grad_(True)
                            out = T(fn(Xo, ao, pl))
                            return out.detach(), torch.autograd.grad(out, [Xo, ao, pl], cot_for(out), allow_unused=True)
                        o1, g1 = gr(XL, aL)
                        o2, g2 = gr(XC, aC)
                        if not same(o1, o2) or not all(same(x, y) for x, y in zip(g1, g2)):
                            ctx.fail(dict(cc, read=name), f"copies: {name} on a {how} of a {g} {kind} differs from the original")
                        T(XC).data.copy_(X2)
                        T(aC).data.copy_(a2)
                        o3, g3 = gr(XL, aL)
                        o4, g4 = gr(XC, aC)
                        of, gf = c.grads_of(P, fn, g, X2, a2, p)
                        if not same(o3, o1) or not all(same(x, y) for x, y in zip(g3, g1)):
                            ctx.fail(dict(cc, read=name), f"copies: updating a {how} of a {g} {kind} in place changed {name} of the original")
                        if not same(o4, of) or not all(same(x, y) for x, y in zip(g4, gf)):
                            ctx.fail(dict(cc, read=name), f"copies: {name} on an updated {how} of a {g} {kind} does not follow its own data")
                        T(XC).data.copy_(X)
                        T(aC).data.copy_(a)
                try:
                    sh = copy.copy(XL)
                    T(sh).detach()
                except Exception:
                    sh = None
                    ctx.count(f"copies.unsupported.{kind}.copy.copy")
                if sh is not None and (getattr(sh, "ltype", None) != GT or not same(sh, XL)):
                    ctx.fail(dict(case, object=kind, how="copy.copy"), f"copies: copy.copy of a {g} {kind} lost ltype / data")
            # modules: deepcopy, state_dict
            class Mod(torch.nn.Module):
                def __init__(s, X0, a0):
                    super().__init__()
                    s.X = P.Parameter(P.LieTensor(X0.clone(), ltype=GT))
                    s.a = P.Parameter(P.LieTensor(a0.clone(), ltype=AT))

                def forward(s, q):
                    return (s.a.Exp() @ s.X).Act(q)
            q = p.unsqueeze(1)
            m1 = Mod(X, a)
            J1 = P.optim.functional.modjac(m1, input=q)
            m2 = copy.deepcopy(m1)
            m3 = Mod(X2, a2)
            m3.load_state_dict(m1.state_dict())
            b = io.BytesIO()
            torch.save(m1.state_dict(), b)
            b.seek(0)
            m4 = Mod(X2, a2)
            m4.load_state_dict(torch.load(b, weights_only=False))
            for how, m in (("deepcopy", m2), ("load_state_dict", m3), ("saved state_dict", m4)):
                ctx.count("copies.modules")
                cc = dict(case, object="module", how=how)
                J = P.optim.functional.modjac(m, input=q)
                if getattr(m.X, "ltype", None) != GT or not all(same(x, y) for x, y in zip(J, J1)):
                    ctx.fail(cc, f"copies: modjac on a {how} of a module ({g}) differs from the original module")
                T(m.X).data.copy_(X2)
                Jo = P.optim.functional.modjac(m1, input=q)
                Jn = P.optim.functional.modjac(m, input=q)
                Jf = P.optim.functional.modjac(Mod(X2, a), input=q)
                if not all(same(x, y) for x, y in zip(Jo, J1)):
                    ctx.fail(cc, f"copies: updating a {how} of a module ({g}) changed the Jacobian of the original module")
                if not all(same(x, y) for x, y in zip(Jn, Jf)):
                    ctx.fail(cc, f"copies: an updated {how} of a module ({g}) does not follow its own parameters")
        except Exception as e:
            import traceback
            ctx.fail(case, f"raises: copies of {g} objects raised {type(e).__name__}: {str(e)[:140]} @ {traceback.format_exc().splitlines()[-6:-2]}")


def storage_ptr(t):
    return T(t).untyped_storage().data_ptr()


def overlaps_itself(t):
    t = T(t)
    return any(st == 0 and sz > 1 for st, sz in zip(t.stride(), t.shape))


def run_owns(ctx):
    """(15) values and gradients own their memory: no aliasing of arguments, cotangent or another result, no internal overlap;
    writing into one item of a result changes neither the other items, nor the inputs, nor a later call"""
    P = U.pp()
    c = _c04()
    for gi, g in enumerate(GROUPS):
        for dtype in ("float64", "float32"):
            X, a, p = mixed_inputs(P, g, dtype, 3, gi + 2)
            for name, fn in reads(P):
                case = {"stream": "owns", "type": g, "dtype": dtype, "read": name}
                try:
                    Xl, al, pl = X.clone().requires_grad_(True), a.clone().requires_grad_(True), p.clone().requires_grad_(True)
                    out = T(fn(*c.lie(P, g, Xl, al), pl))
                    cot = cot_for(out)
                    cot0 = cot.clone()
                    gs = torch.autograd.grad(out, [Xl, al, pl], cot, allow_unused=True, retain_graph=True)
                    ctx.note_case(("owns", g, dtype, name), True)
                    ctx.count("owns.reads")
                    ptrs = {"X": storage_ptr(Xl), "a": storage_ptr(al), "p": storage_ptr(pl), "cotangent": storage_ptr(cot)}
                    res = [("value", out)] + [(f"gradient #{k}", x) for k, x in enumerate(gs) if x is not None]
                    for lab, t_ in res:
                        for nm, ptr in ptrs.items():
                            if storage_ptr(t_) == ptr:
                                ctx.fail(dict(case, result=lab, aliases=nm), f"owns: {lab} of {name} on {g} shares its storage with {nm} ({dtype})")
                        if overlaps_itself(t_):
                            ctx.fail(dict(case, result=lab), f"owns: {lab} of {name} on {g} overlaps itself (stride 0) ({dtype})")
                    seen = {}
                    for lab, t_ in res:
                        if storage_ptr(t_) in seen:
                            ctx.fail(dict(case, result=lab), f"owns: {lab} and {seen[storage_ptr(t_)]} of {name} on {g} share one storage ({dtype})")
                        seen[storage_ptr(t_)] = lab
                    # write into item 0 of every gradient: other items, inputs, cotangent and a second backward are unaffected
                    gres = [(lab, t_) for lab, t_ in res if lab != "value"]
                    snap = [t_.detach().clone() for _, t_ in gres]
                    with torch.no_grad():
                        for _, t_ in gres:
                            t_[0].mul_(0).add_(5.0)
                    for (lab, t_), s_ in zip(gres, snap):
                        if t_.shape[0] > 1 and not same(t_[1:], s_[1:]):
                            ctx.fail(dict(case, result=lab), f"owns: writing item 0 of the {lab} of {name} on {g} changed its other items ({dtype})")
                    if not (same(Xl, X) and same(al, a) and same(pl, p) and same(cot, cot0)):
                        ctx.fail(case, f"owns: writing into the gradients of {name} on {g} changed the inputs / the cotangent ({dtype})")
                    g2 = torch.autograd.grad(out, [Xl, al, pl], cot, allow_unused=True)
                    o3, g3 = c.grads_of(P, fn, g, X, a, p, cot)
                    if not all(same(x, y) for x, y in zip(g2, g3)):
                        ctx.fail(case, f"owns: writing into the gradients of {name} on {g} changed a later backward ({dtype})")
                    # now the value (the graph is no longer needed)
                    vsnap = out.detach().clone()
                    od_ = out.detach()
                    od_[0].mul_(0).add_(5.0)
                    if od_.shape[0] > 1 and not same(od_[1:], vsnap[1:]):
                        ctx.fail(case, f"owns: writing item 0 of the value of {name} on {g} changed its other items ({dtype})")
                    o4, g4 = c.grads_of(P, fn, g, X, a, p, cot)
                    if not (same(Xl, X) and same(al, a) and same(pl, p)) or not same(o4, vsnap) or not all(same(x, y) for x, y in zip(g4, g3)):
                        ctx.fail(case, f"owns: writing into the value of {name} on {g} changed the inputs or a later call ({dtype})")
                except Exception as e:
                    ctx.fail(case, f"raises: memory-ownership probe of {name} on {g} ({dtype}) raised {type(e).__name__}: {str(e)[:140]}")


# ----------------------------------------------------------------------------- (16) specific sizes

SIZE_SHAPES = [((1,), (1,)), ((3,), (3,)), ((4,), (4,)), ((5,), (5,)), ((7,), (7,)), ((1, 3), (1, 3)), ((3, 1), (3, 1)), ((3, 3), (3, 3)),
               ((4, 3), (4, 3)), ((3, 4), (3, 4)), ((2, 1, 3), (2, 1, 3)),
               # broadcasting pairs
               ((3, 1), (1, 3)), ((3,), (1,)), ((1,), (3,)), ((3, 3), (3,)), ((), (3,)), ((4,), ()), ((1, 4), (3, 1)), ((3, 1, 1), (3,))]


def run_sizes(ctx, dtypes=("float64",)):
    """batch sizes 1, 3 (torch.cross without dim!), 4, 5, 7, the feature dimensions themselves, in every batch position and in
    broadcasting pairs, for every op: the batched gradient must be the per-item gradient (summed over broadcast items)"""
    P = U.pp()
    c = _c04()
    for gi, g in enumerate(GROUPS):
        extra = [((GD[g],), (GD[g],)), ((AD_[g],), (AD_[g],)), ((GD[g], 1), (1, AD_[g]))]
        for dtype in dtypes:
            for ri, (name, fn) in enumerate(reads(P)):
                for si, (sx, sy) in enumerate(SIZE_SHAPES + extra):
                    if ctx.quick and (si + ri + 5 * gi) % 12 != 0:
                        continue          # quick tier: every shape pair meets every read in one of the groups
                    case = {"stream": "sizes", "type": g, "dtype": dtype, "read": name, "shape_X": list(sx), "shape_other": list(sy)}
                    try:
                        nx, ny = int(math.prod(sx)), int(math.prod(sy))
                        Xf, _, _ = mixed_inputs(P, g, dtype, nx, gi)
                        _, af, pf = mixed_inputs(P, g, dtype, ny, gi + 1)
                        X, a, p = Xf.reshape(sx + (GD[g],)), af.reshape(sy + (AD_[g],)), pf.reshape(sy + (3,))
                        o1, g1 = c.grads_of(P, fn, g, X, a, p)
                        ctx.count("sizes.calls")
                        ctx.note_case(("sizes", g, dtype, name, sx, sy), True)
                        nd = 2 if name in ("matrix", "matrixA") else 1
                        lead = tuple(o1.shape[:-nd])
                        od = tuple(o1.shape[-nd:])

                        def idx(shape, n):
                            try:
                                return torch.arange(n).reshape(shape).expand(lead).reshape(-1).tolist()
                            except RuntimeError:
                                return None
                        ix, iy = idx(sx, nx), idx(sy, ny)
                        if (ix is None and g1[0] is not None) or (iy is None and (g1[1] is not None or g1[2] is not None)):
                            ctx.fail(case, f"sizes: value of {name} on {g} with batch shapes {sx} x {sy} has shape {tuple(o1.shape)}")
                            continue
                        cot = cot_for(o1)
                        cf, of = cot.reshape((-1,) + od), o1.reshape((-1,) + od)
                        accs = [torch.zeros_like(Xf), torch.zeros_like(af), torch.zeros_like(pf)]
                        nbl = int(math.prod(lead))
                        vbad = False
                        for b in range(nbl):
                            bx, by = (ix[b] if ix is not None else 0), (iy[b] if iy is not None else 0)
                            ob, gb = c.grads_of(P, fn, g, Xf[bx], af[by], pf[by], cf[b])
                            if not same(of[b], ob) and not close(of[b], ob, 256 * common.EPS[dtype]):
                                vbad = True
                            for k, bi in ((0, bx), (1, by), (2, by)):
                                if gb[k] is not None:
                                    accs[k][bi] += gb[k]
                        if vbad:
                            ctx.fail(case, f"sizes: value of {name} on {g} with batch shapes {sx} x {sy} differs from the item-wise calls ({dtype})")
                        for k, (gk, leaf, acc) in enumerate(zip(g1, (X, a, p), accs)):
                            if gk is None:
                                continue
                            if gk.shape != leaf.shape:
                                ctx.fail(case, f"sizes: gradient #{k} of {name} on {g} has shape {tuple(gk.shape)} for a leaf of shape {tuple(leaf.shape)}")
                                continue
                            red = acc.reshape(leaf.shape).double()
                            err = (gk.double() - red).abs()
                            sc = red.abs().amax(dim=-1, keepdim=True) + 1e-300
                            if not bool((err <= 1024 * common.EPS[dtype] * max(1, nbl) * sc).all()):
                                ctx.fail(case, f"sizes: gradient #{k} of {name} on {g} with batch shapes {sx} x {sy} differs from the sum of the "
                                               f"item-wise gradients by {float(err.max()):.3e} ({dtype})")
                    except Exception as e:
                        ctx.fail(case, f"raises: {name} on {g} with batch shapes {sx} x {sy} ({dtype}) raised {type(e).__name__}: {str(e)[:140]}")


# ----------------------------------------------------------------------------- (17) interleavings in one process

def run_interleave(ctx, again=False):
    """module-level state across types / dtypes / batch sizes: one multiset of calls (every read, every group, both dtypes,
    batch sizes 1, 2, 3, forward + backward, some through vmap) executed in five different orders; every call must return
    bit-identical values and gradients in every order, and equal the item-wise single calls"""
    P = U.pp()
    c = _c04()
    rd = reads(P)
    specs = []
    k = 0
    for gi, g in enumerate(GROUPS):
        for ri, (name, fn) in enumerate(rd):
            for dtype in ("float64", "float32"):
                if ctx.quick and dtype == "float32" and (ri + gi) % 2:
                    continue
                n = (1, 3, 2, 1)[(gi + ri + (dtype == "float32")) % 4]
                specs.append((k, g, name, fn, dtype, n))
                k += 1

    def call(spec):
        _, g, name, fn, dtype, n = spec
        X, a, p = mixed_inputs(P, g, dtype, n, 1)
        out, gs = c.grads_of(P, fn, g, X, a, p)
        extra = None
        if spec[0] % 5 == 0:          # some calls also go through the vmapped route
            XL, aL = c.lie(P, g, X, a)
            extra = [T(j).detach() for j in P.func.jacrev(fn, argnums=(0, 1, 2))(XL, aL, p)]
        return out, gs, extra

    orders = {
        "batch-1 first": sorted(specs, key=lambda s: (s[5] != 1, s[0])),
        "as listed": list(specs),
        "reversed": list(reversed(specs)),
        "dtype-major, groups reversed": sorted(specs, key=lambda s: (s[4], -GROUPS.index(s[1]), s[0])),
        "stride 7": [specs[(i * 7) % len(specs)] for i in range(len(specs))] if math.gcd(7, len(specs)) == 1 else
                    [specs[(i * 11) % len(specs)] for i in range(len(specs))],
    }
    if again:
        orders = {"stride 7, after all other streams": orders["stride 7"]}
    elif ctx.quick:       # quick: three of the five orders (the poison stream of pass 5 interleaves single-item calls of every operation)
        orders = {k_: orders[k_] for k_ in ("batch-1 first", "stride 7")}
    first = getattr(ctx, "_c04_first", {}) if again else {}
    ctx._c04_first = first
    for oname, order in orders.items():
        for spec in order:
            case = {"stream": "interleave", "order": oname, "type": spec[1], "read": spec[2], "dtype": spec[4], "batch": spec[5]}
            try:
                res = call(spec)
            except Exception as e:
                ctx.fail(case, f"raises: {spec[2]} on {spec[1]} ({spec[4]}, batch {spec[5]}) in order '{oname}' raised {type(e).__name__}: {str(e)[:120]}")
                continue
            ctx.count("interleave.calls")
            ctx.note_case(("interleave", oname, spec[0]), True)
            if spec[0] not in first:
                first[spec[0]] = (oname, res)
                continue
            o0, (out0, gs0, ex0) = first[spec[0]]
            out1, gs1, ex1 = res
            ok = same(out0, out1) and all(same(x, y) for x, y in zip(gs0, gs1)) and \
                ((ex0 is None) == (ex1 is None)) and (ex0 is None or all(same(x, y) for x, y in zip(ex0, ex1)))
            if not ok:
                ctx.fail(dict(case, first_order=o0), f"interleave: {spec[2]} on {spec[1]} ({spec[4]}, batch {spec[5]}) gives another result in call order "
                                                     f"'{oname}' than in '{o0}' — state leaks between calls of different types / dtypes / batch sizes")
    if again:
        return
    # and every call equals its item-wise evaluation (a cache corrupted before the first order would otherwise go unnoticed)
    for spec in specs:
        _, g, name, fn, dtype, n = spec
        if spec[0] not in first or n == 1:
            continue
        out0, gs0, _ = first[spec[0]][1]
        X, a, p = mixed_inputs(P, g, dtype, n, 1)
        cot = cot_for(out0)
        lead_n = out0.shape[0]
        for b in range(min(n, lead_n)):
            try:
                ob, gb = c.grads_of(P, fn, g, X[b], a[b], p[b], cot[b])
            except Exception:
                continue
            for k, (gk, g1) in enumerate(zip(gs0, gb)):
                if gk is None or g1 is None:
                    continue
                if not close(gk[b], g1, 1024 * common.EPS[dtype]) and not same(gk[b], g1):
                    err = (gk[b].double() - g1.double()).abs()
                    sc = g1.double().abs().max() + 1e-300
                    if not (float(err.max()) <= 1024 * common.EPS[dtype] * float(sc)):
                        ctx.fail({"stream": "interleave", "type": g, "read": name, "dtype": dtype, "batch": n, "item": b},
                                 f"interleave: gradient #{k} of {name} on {g} (batch {n}, {dtype}) differs from the single-item call on item {b}")


def run_all(ctx):
    run_interleave(ctx)        # first: nothing else has touched the library's module-level state yet
    run_args(ctx)
    run_errors(ctx)
    run_modes(ctx)
    run_ducks(ctx)
    run_copies(ctx)
    run_owns(ctx)
    if not ctx.quick:      # quick: sizes / broadcasting pairs are covered by the batch, large (switch-over sizes) and layout streams
        run_sizes(ctx, dtypes=("float64", "float32"))
    run_interleave(ctx, again=True)        # and once more after everything else has run
