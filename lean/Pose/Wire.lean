import Pose.BigF
/-!
# Line protocol helpers

One request per line: `<op> <tok> <tok> …`.  Number tokens are `m:e` (value `m·2^e`, exact).
Reply: `ok <tok> …` or `err <kind>`.  A handler is `List String → Except String String`.
-/
namespace PP

abbrev Handler := List String → Except String String

namespace Wire

def num (s : String) : Except String BigF :=
  match BigF.ofWire? s with
  | some x => .ok x
  | none => .error s!"bad-num:{s}"

def nums (ts : List String) : Except String (List BigF) := ts.mapM num

def nat (s : String) : Except String Nat :=
  match s.toNat? with | some n => .ok n | none => .error s!"bad-nat:{s}"

def int (s : String) : Except String Int :=
  match s.toInt? with | some n => .ok n | none => .error s!"bad-int:{s}"

def nats (ts : List String) : Except String (List Nat) := ts.mapM nat
def ints (ts : List String) : Except String (List Int) := ts.mapM int

def fmt (xs : List BigF) : String := " ".intercalate (xs.map BigF.toWire)
def fmtNats (xs : List Nat) : String := " ".intercalate (xs.map toString)
def fmtInts (xs : List Int) : String := " ".intercalate (xs.map toString)

/-- handler from a numeric function: all tokens are numbers, result is a list of numbers -/
def numeric (f : List BigF → Except String (List BigF)) : Handler := fun ts => do
  let xs ← nums ts
  let ys ← f xs
  return fmt ys

/-- take exactly `n` items from the front -/
def take (n : Nat) (xs : List β) : Except String (List β × List β) :=
  if xs.length < n then .error "arity" else .ok (xs.take n, xs.drop n)

end Wire
end PP
