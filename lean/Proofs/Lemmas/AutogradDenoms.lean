/-
C04 (pass 10): (1) on every SELECTED branch of the model's coefficient functions the denominators are non-zero — the `x/0 = 0` convention of `ℝ`
is never used where the `if` of the model takes its value from (the real-number counterpart of "no NaN / Inf": what the exact model cannot say
is what the masked-out branch and floating-point overflow do).  (2) group-valued roots with all leaves moving at once.
-/
import Proofs.Lemmas.AutogradRoot
import Mathlib.Analysis.SpecialFunctions.Trigonometric.Basic
set_option linter.unusedSimpArgs false
set_option maxRecDepth 10000
set_option linter.unusedVariables false
namespace PP.AD
open PP

theorem pos_of_eps_lt {eps th : ℝ} (h0 : 0 ≤ eps) (h : eps < th) : 0 < th := lt_of_le_of_lt h0 h

/-- `so3_Jl`, closed-form branch (`θ > eps`): the model takes `((1−cos θ)/θ², (θ−sin θ)/θ³)` and both denominators are non-zero -/
theorem so3JlCoef_closed_wellDefined (eps th : ℝ) (h0 : 0 ≤ eps) (h : eps < th) :
    so3JlCoef eps th = ((1 - Real.cos th) / (th * th), (th - Real.sin th) / (th * (th * th))) ∧ th * th ≠ 0 ∧ th * (th * th) ≠ 0 := by
  have hp := pos_of_eps_lt h0 h
  refine ⟨?_, by positivity, by positivity⟩
  simp [so3JlCoef, lt_real, h, k_real, cos_real, sin_real]

/-- `so3_Jl_inv`, closed-form branch, for `θ < 2π` (every rotation vector a `Log` returns has `θ ≤ π`): denominators `2 sin(θ/2)` and `θ²` -/
theorem so3JlInvCoef_closed_wellDefined (eps th : ℝ) (h0 : 0 ≤ eps) (h : eps < th) (h2 : th < 2 * Real.pi) :
    so3JlInvCoef eps th = (1 - th * Real.cos (1/2 * th) / (2 * Real.sin (1/2 * th))) / (th * th) ∧
      2 * Real.sin (1/2 * th) ≠ 0 ∧ th * th ≠ 0 := by
  have hp := pos_of_eps_lt h0 h
  have hs : 0 < Real.sin (1/2 * th) := Real.sin_pos_of_pos_of_lt_pi (by positivity) (by linarith)
  refine ⟨?_, by positivity, by positivity⟩
  simp [so3JlInvCoef, lt_real, h, k_real, q_real, cos_real, sin_real]

/-- `so3_Exp`, closed-form branch: divides by `θ ≠ 0` only -/
theorem so3Exp_closed_wellDefined (eps : ℝ) (x : Vec3 ℝ) (h0 : 0 ≤ eps) (h : eps < x.norm) : x.norm ≠ 0 :=
  ne_of_gt (pos_of_eps_lt h0 h)

/-- `SO3_Log`: regime 1 divides by `w` and `‖v‖`, regime 2 by `‖v‖`, regime 3 by `w` and `3w³` — all non-zero on their own branch
(regime 3: for a unit quaternion and `eps < 1`) -/
theorem so3LogFactor_wellDefined (eps vn w : ℝ) (h0 : 0 ≤ eps) :
    (eps < vn → eps < |w| → so3LogFactor eps vn w = 2 * Real.arctan (vn / w) / vn ∧ vn ≠ 0 ∧ w ≠ 0) ∧
    (eps < vn → ¬ eps < |w| → vn ≠ 0) ∧
    (¬ eps < vn → eps < 1 → 0 ≤ vn → vn * vn + w * w = 1 →
      so3LogFactor eps vn w = 2 * (1 / w - vn * vn / (3 * (w * w * w))) ∧ w ≠ 0 ∧ 3 * (w * w * w) ≠ 0) := by
  refine ⟨?_, ?_, ?_⟩
  · intro h1 h2
    have hv := pos_of_eps_lt h0 h1
    have hw : w ≠ 0 := by
      intro hw; rw [hw, abs_zero] at h2; exact absurd h2 (not_lt.mpr h0)
    exact ⟨by simp [so3LogFactor, lt_real, h1, h2, sabs_real, k_real, atan_real], ne_of_gt hv, hw⟩
  · intro h1 _; exact ne_of_gt (pos_of_eps_lt h0 h1)
  · intro h1 he hv hu
    have hvl : vn ≤ eps := not_lt.mp h1
    have hw2 : 0 < w * w := by nlinarith
    have hw : w ≠ 0 := by intro hw; rw [hw] at hw2; simp at hw2
    refine ⟨by simp [so3LogFactor, lt_real, h1, k_real], hw, ?_⟩
    exact mul_ne_zero (by norm_num) (mul_ne_zero (mul_ne_zero hw hw) hw)

/-- `calcQ`, closed-form branch (`θ > 0.05`): denominators `θ²·θ`, `2θ⁴`, `2θ⁴·θ` -/
theorem calcQ_closed_wellDefined (th : ℝ) (h : (5:ℝ)/100 < th) :
    th * th * th ≠ 0 ∧ 2 * (th * th * (th * th)) ≠ 0 ∧ 2 * (th * th * (th * th)) * th ≠ 0 := by
  have hp : 0 < th := by linarith
  exact ⟨by positivity, by positivity, by positivity⟩

/-- `rxso3_Ws`: in each of the three non-trivial regimes the denominators of the selected expressions are non-zero
(`σ`, `σ²`, `σ²σ` when `|σ| > eps`; `θ²`, `θ²θ` when `θ > eps`; `θ(θ²+σ²)`, `θ²+σ²` when both) -/
theorem rxso3WsCoef_wellDefined (eps th sigma : ℝ) (h0 : 0 ≤ eps) :
    (eps < |sigma| → sigma ≠ 0 ∧ sigma * sigma ≠ 0 ∧ sigma * sigma * sigma ≠ 0) ∧
    (eps < th → th * th ≠ 0 ∧ th * th * th ≠ 0) ∧
    (eps < |sigma| → eps < th → th * (th * th + sigma * sigma) ≠ 0 ∧ th * th + sigma * sigma ≠ 0) := by
  have hs : eps < |sigma| → sigma ≠ 0 := by
    intro h hz; rw [hz, abs_zero] at h; exact absurd h (not_lt.mpr h0)
  refine ⟨?_, ?_, ?_⟩
  · intro h; have := hs h
    exact ⟨this, mul_ne_zero this this, mul_ne_zero (mul_ne_zero this this) this⟩
  · intro h; have hp := pos_of_eps_lt h0 h
    exact ⟨by positivity, by positivity⟩
  · intro h1 h2
    have hp := pos_of_eps_lt h0 h2
    have hc : 0 < th * th + sigma * sigma := add_pos_of_pos_of_nonneg (by positivity) (mul_self_nonneg _)
    exact ⟨ne_of_gt (mul_pos hp hc), ne_of_gt hc⟩

/-- **group-valued roots, all leaves moving at once**: `d/dt ⟨c, Log(p(env(t))·p(env(0))⁻¹)⟩|₀ = Σ_leaves ⟨contribution, τ_leaf⟩` for the reverse
sweep started with the storage cotangent `(c, 0)` -/
theorem group_root_program_gradient_exact (dJ : DJ ℝ) (hdJ : DJShape dJ) (eps : ℝ) (heps : 0 < eps) (lt : List Ty)
    (env : ℝ → List (DVec ℝ)) (tan : List (DVec ℝ)) (hE : EnvOK lt (env 0) tan)
    (hleaf : ∀ i t, lt[i]? = some t → CurveOK t (fun s => (env s).getD i []) (tan.getD i []))
    (p : Prog) (hR : Regimes dJ eps (env 0) p) (g' : Grp) (hty : tyOf lt p = some (.G g')) (c : DVec ℝ) (hc : c.length = g'.adim) :
    HasDerivAt (fun s => DVec.dot c (chartF g' eps (eval eps (env 0) p) (eval eps (env s) p)))
      (pairSum tan (backprop dJ eps (env 0) p (pad0 c))) 0 := by
  have hT := transSpec_of_regimes dJ hdJ eps heps lt env tan hleaf p hR
  obtain ⟨hG, hu, hs, hτl⟩ := curveOK_G.mp (eval_tangent_of_transSpec dJ eps lt env tan hleaf p hT (.G g') hty)
  have hch := chart_tangent g' eps heps (fun s => eval eps (env s) p) _ hτl hG hu hs
  have hd := hasDerivAt_dot g'.adim c (fun t => chartF g' eps (eval eps (env 0) p) (eval eps (env t) p)) _
    (fun t => by simp only [chartF]; exact length_logF g' eps _) hτl hch
  have hpad : (pad0 c).length = (Ty.G g').dim := by simp [pad0, Ty.dim, gdim_eq, hc]
  have hadj := (backprop_adjoint_aux dJ hdJ eps lt (env 0) tan hE p (.G g') (pad0 c) hty hpad).1
  rw [ddot_pad0 c _ (le_of_eq (by rw [hτl, hc]))] at hadj
  rw [← hadj] at hd
  exact hd

/-! ## `Jinvp` kernel contract: witness for `RxSO3` -/

/-- extend a 3×3 list matrix by a zero column and a last row `[0,0,0,c]` -/
def ext4 (M : DMat ℝ) (c : ℝ) : DMat ℝ := (M.map fun r => r ++ [0]) ++ [[0, 0, 0, c]]

theorem rx_JlInv_ext (eps : ℝ) (x : DVec ℝ) :
    JlInvMat .RxSO3 eps x = ext4 (JlInvMat .SO3 eps [nth x 0, nth x 1, nth x 2]) 1 := by
  simp [JlInvMat, rxso3JlInv, torx, v3, ext4, DMat.block, DMat.hcat, DMat.vcat, DMat.zero, DVec.zero, Mat3.toRows, Vec3.toList]

/-- kernel for `RxSO3`: the `SO3` kernel on the rotation block (the scale block of `rxso3_Jl_inv` is the constant `1`) -/
noncomputable def dJclosedR : DJ ℝ := fun g eps φ p =>
  match g with
  | .RxSO3 => ext4 (dJclosed .SO3 eps [nth φ 0, nth φ 1, nth φ 2] [nth p 0, nth p 1, nth p 2]) 0
  | g => dJclosed g eps φ p

/-- **the `Jinvp` kernel contract has a witness for `RxSO3` too**, away from the zero rotation: `rxso3_Jl_inv(φ, σ)` is `so3_Jl_inv(φ)` with a constant
scale block, so the `SO3` kernel on the rotation block meets `DJSpec` at every `(φ₀, σ₀)` with `θ₀ > eps`, `sin(θ₀/2) ≠ 0` -/
theorem djSpec_RxSO3_closed (eps : ℝ) (heps : 0 ≤ eps) (φ0 p0 : DVec ℝ) (hφl : φ0.length = 4) (hp : p0.length = 4)
    (hth : eps < (v3 φ0).norm) (hs : Real.sin (1/2 * (v3 φ0).norm) ≠ 0) : DJSpec dJclosedR .RxSO3 eps φ0 p0 := by
  intro φ d hφ0 hφlen hd hL
  obtain ⟨d0, d1, d2, d3, rfl⟩ := len4 _ hd
  obtain ⟨y0, y1, y2, y3, rfl⟩ := len4 _ hp
  -- the rotation part as an so3 curve
  let ψ : ℝ → DVec ℝ := fun t => [nth (φ t) 0, nth (φ t) 1, nth (φ t) 2]
  have hψ : LCurve 3 ψ [d0, d1, d2] := by
    intro j hj
    have := hL j (by simp [Grp.adim]; omega)
    interval_cases j <;> simpa [ψ] using this
  have hv : v3 (ψ 0) = v3 φ0 := by simp [ψ, v3, hφ0]
  obtain ⟨M3, hM3, hrows, heq⟩ := djSpec_SO3_closed eps heps (ψ 0) [y0, y1, y2] rfl rfl (by rw [hv]; exact hth) (by rw [hv]; exact hs)
    ψ [d0, d1, d2] rfl (fun t => rfl) rfl hψ
  obtain ⟨r0, r1, r2, rfl⟩ : ∃ r0 r1 r2, M3 = [r0, r1, r2] := by
    have := hM3.1
    match M3, this with
    | [a, b, c], _ => exact ⟨a, b, c, rfl⟩
  have l0 := hM3.2 r0 (by simp); have l1 := hM3.2 r1 (by simp); have l2 := hM3.2 r2 (by simp)
  obtain ⟨a0, a1, a2, rfl⟩ := len3 _ l0
  obtain ⟨b0, b1, b2, rfl⟩ := len3 _ l1
  obtain ⟨c0, c1, c2, rfl⟩ := len3 _ l2
  refine ⟨ext4 [[a0, a1, a2], [b0, b1, b2], [c0, c1, c2]] 0, ?_, ?_, ?_⟩
  · simp [Shape, Grp.adim, ext4]
  · intro i hi j hj
    simp only [Grp.adim] at hi hj
    simp only [rx_JlInv_ext]
    by_cases h3 : i < 3 ∧ j < 3
    · have := hrows i h3.1 j h3.2
      obtain ⟨hi3, hj3⟩ := h3
      have e : ∀ t, nth ((ext4 (JlInvMat .SO3 eps [nth (φ t) 0, nth (φ t) 1, nth (φ t) 2]) 1).getD i []) j
          = nth ((JlInvMat .SO3 eps (ψ t)).getD i []) j := by
        intro t
        interval_cases i <;> interval_cases j <;> simp [ext4, ψ, JlInvMat, Mat3.toRows, Vec3.toList]
      simp only [e]
      refine this.congr_deriv ?_
      interval_cases i <;> interval_cases j <;> simp [ext4]
    · have hij : i = 3 ∨ (i < 3 ∧ j = 3) := by omega
      rcases hij with rfl | ⟨hi3, rfl⟩
      · interval_cases j <;>
          (simp only [ext4, JlInvMat, Mat3.toRows, List.map_cons, List.map_nil, List.cons_append, List.nil_append, List.getD_cons_succ,
            List.getD_cons_zero, nth_cons_zero, nth_cons_succ]; exact hasDerivAt_const _ _)
      · interval_cases i <;>
          (simp only [ext4, JlInvMat, Mat3.toRows, Vec3.toList, List.map_cons, List.map_nil, List.cons_append, List.nil_append, List.getD_cons_succ,
            List.getD_cons_zero, nth_cons_zero, nth_cons_succ]; exact hasDerivAt_const _ _)
  · rw [← hφ0]
    simp only [dJclosedR, dJclosed, ψ, nth_cons_zero, nth_cons_succ] at heq ⊢
    generalize dJso3 _ _ = D at heq ⊢
    simp [ext4, DMat.mulVec, ddot_cons, Mat3.toRows, Vec3.toList] at heq ⊢
    obtain ⟨e0, e1, e2⟩ := heq
    refine ⟨by linarith, by linarith, by linarith⟩

/-! ## pass 11: the hypothesis `sin(θ/2) ≠ 0` replaced by the natural guard `θ < 2π` -/

theorem sin_half_ne_of_lt_two_pi (eps th : ℝ) (h0 : 0 ≤ eps) (h : eps < th) (h2 : th < 2 * Real.pi) : Real.sin (1/2 * th) ≠ 0 := by
  have hp := pos_of_eps_lt h0 h
  exact ne_of_gt (Real.sin_pos_of_pos_of_lt_pi (by positivity) (by linarith))

/-- `so3_Jl` and `so3_Jl_inv` are inverse to each other (both orders) for every rotation vector with `eps < θ < 2π` -/
theorem so3Jl_JlInv_inverse_pair (eps : ℝ) (x : Vec3 ℝ) (h0 : 0 ≤ eps) (h : eps < x.norm) (h2 : x.norm < 2 * Real.pi) :
    (so3Jl eps x).mul (so3JlInv eps x) = Mat3.one ∧ (so3JlInv eps x).mul (so3Jl eps x) = Mat3.one :=
  ⟨so3Jl_mul_so3JlInv eps x h h0 (sin_half_ne_of_lt_two_pi eps _ h0 h h2), so3JlInv_mul_so3Jl eps x h h0 (sin_half_ne_of_lt_two_pi eps _ h0 h h2)⟩

/-- `SE3_Log.backward` is the true derivative whenever the rotation part of `Log X` has `max(eps, 0.05) < θ < 2π` (regime 1 of `SO3_Log`) -/
theorem SE3Log_tangent_lt_two_pi (eps : ℝ) (heps : 0 ≤ eps) (X : ℝ → DVec ℝ) (a0 a1 a2 a3 a4 a5 : ℝ)
    (hX : LCurve 7 X (liftG .SE3 (X 0) [a0, a1, a2, a3, a4, a5])) (hu : (qt (X 0) 3).normSq = 1)
    (hv : eps < (qt (X 0) 3).vec.norm) (hw : eps < |(qt (X 0) 3).w|)
    (hφ : eps < (v3 (logF .SE3 eps (X 0)) 3).norm) (hq : (5:ℝ)/100 < (v3 (logF .SE3 eps (X 0)) 3).norm)
    (h2 : (v3 (logF .SE3 eps (X 0)) 3).norm < 2 * Real.pi) :
    LCurve 6 (fun t => logF .SE3 eps (X t)) ((JlInvMat .SE3 eps (logF .SE3 eps (X 0))).mulVec [a0, a1, a2, a3, a4, a5]) :=
  SE3Log_tangent eps heps X a0 a1 a2 a3 a4 a5 hX hu hv hw hφ hq (sin_half_ne_of_lt_two_pi eps _ heps hφ h2)

end PP.AD
