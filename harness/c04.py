"""C04 — autograd through LieTensor ops gives exact left-perturbation Jacobians.

Model: lean/Pose/Model/Autograd.lean (every hand-written backward as written + expression trees `Prog`, `eval`,
`backprop`, `grad`), forward passes from lean/Pose/Model/Lie.lean; theorems: lean/Proofs/Props/C04.lean.

Streams (every case is a random well-typed expression tree with shared leaves, evaluated on batched tensors)
  fwd   : value of the program on the real code            vs  model `eval` (192 bit)
  grad  : torch.autograd.grad / .backward() of <c, out>    vs  model `backprop` (the hand-written backward passes
          replayed in 192 bit) — tolerance 1e3·eps·scale (float64), 4·sqrt(eps)·scale (float32)
  routes: autograd.functional.jacobian (vectorize on/off), pp.optim.functional.modjac, pp.func.jacrev give the same
          c·J as autograd.grad
  local : every Function alone (depth-1 programs) on the full magnitude ladder incl. identity / zero vector
Oracle on the real code (the property's own statement): the gradient returned by autograd equals the derivative of
<c, chart(program(Exp(t·e_j) @ X))> at t = 0, computed by central differences of the model's forward pass in 192-bit
arithmetic (step 2^-120, Richardson-checked); last slot of every group gradient exactly 0; no NaN/Inf.
"""
from __future__ import annotations

import math
import os
import threading

import torch

from . import common, util_lie as U
from .common import Ctx

META = {
    "rule": "type-directed random expression trees over {Exp, Log, Inv, Mul(@), Act (3/4-vectors), Adj, AdjT, Retr, matrix(), Jinvp} "
            "for the four groups, depth 1..6, 1-5 leaves with sharing, root of any type; leaf values from the structured "
            "generators of DESIGN §4 (rotation angle ladder incl. 0 / eps-neighbourhood / beyond pi for algebra leaves, both "
            "quaternion hemispheres, translations 0..10, log-scales |s|<=1.5, points 0..10); batched tensors with per-item "
            "values and broadcast leaves; random / sparse / basis cotangents; float64 and float32. A `local` stream runs every "
            "single Function (all groups, both arguments) on the full ladder. Log / Jinvp inputs are kept away from the "
            "rotation angle pi (> 0.3 rad); Jinvp additionally away from the zero rotation (theta >= 1e-3 — the quantifier's "
            "domain). non-trivial = at least one non-identity leaf; distinct by (program shape, groups, dtype, regime tags)",
    "trusted": [
        "PyTorch autograd of built-in ops inside so3_Jl_inv / se3_Jl_inv / sim3_Jl_inv (Jinvp) and of expand/view/cat glue — "
        "contract parameter dJ of the model; the driver's stand-in (192-bit central differences with the branch of the base "
        "point) is Richardson-checked on every call (failure = exit 2)",
        "the finite-difference oracle differentiates the model's forward pass (tied to the code by the fwd stream and by C01-C03)",
    ],
    "assumptions": [
        "group leaves are valid elements (unit quaternion to 1 ulp, positive scale)",
        "Log / Jinvp are evaluated at rotations with angle <= pi - 0.3; Jinvp gradient with respect to X at angle >= 1e-3",
        "a group-valued program output pairs its cotangent with the left-perturbation chart Log(out(t) out(0)^-1): "
        "the last storage slot of that cotangent is ignored by every backward pass",
    ],
    "partial": [
        "Exp/Log local Jacobians: proved for so3/SO3 at the closed-form branch and at 0 (so3Exp_hasTangent, …); for se3/rxso3/sim3 "
        "the Q-block / Ws-block derivative is not proved in Lean (identities Jl·JlInv=1 etc. are) — those ride on the "
        "192-bit finite-difference oracle; see notes/C04.md",
        "sim3/Sim3 Exp and Log backward use the documented truncated series: oracle comparison only where "
        "|ad xi|^6/5040·e^|ad xi| is below the tolerance, otherwise correspondence with the truncated model only",
        "float rounding of the backward passes is measured (tolerance above), not proved",
    ],
}

GROUPS = U.GROUPS
GD, AD_ = U.GDIM, U.ADIM
DEBUG = bool(os.environ.get("C04_DEBUG"))

# ----------------------------------------------------------------------------- types and programs
# type: ("G", g) | ("A", g) | ("E3",) | ("E4",) | ("M", g)
# node: ("L", i) | ("U", op, g, child) | ("B", op, g, a, b) | ("Retr", g, X, a) | ("Cast", to_type, child)


def tdim(ty):
    k = ty[0]
    if k == "G":
        return GD[ty[1]]
    if k == "A":
        return AD_[ty[1]]
    if k == "E3":
        return 3
    if k == "E4":
        return 4
    n = U.MATN[ty[1]]
    return n * n


def tangent_dim(ty):
    return AD_[ty[1]] if ty[0] == "G" else tdim(ty)


def gen_node(rng, ty, depth, L, maxleaves=5):
    """type-directed generation; L is the growing list of leaf types"""
    def leaf():
        same = [i for i, t in enumerate(L) if t == ty]
        if same and (rng.random() < 0.4 or len(L) >= maxleaves):
            return ("L", rng.choice(same))
        L.append(ty)
        return ("L", len(L) - 1)
    if ty[0] == "M":
        g = ty[1]
        if rng.random() < 0.5:
            return ("U", "Matrix", g, gen_node(rng, ("G", g), depth - 1, L))
        return ("U", "Matrix", g, ("U", "Exp", g, gen_node(rng, ("A", g), depth - 2, L)))
    if depth <= 0 or rng.random() < 0.1:
        return leaf()
    d = depth - 1
    if ty[0] == "G":
        g = ty[1]
        c = rng.choice(["Exp", "Inv", "Mul", "Mul*", "Retr"])
        if c == "Exp":
            return ("U", "Exp", g, gen_node(rng, ("A", g), d, L))
        if c == "Inv":
            return ("U", "Inv", g, gen_node(rng, ("G", g), d, L))
        if c in ("Mul", "Mul*"):
            return ("B", c, g, gen_node(rng, ("G", g), d, L), gen_node(rng, ("G", g), d, L))
        return ("Retr", g, gen_node(rng, ("G", g), d, L), gen_node(rng, ("A", g), d, L))
    if ty[0] == "A":
        g = ty[1]
        opts = ["Log", "Log", "Adj", "AdjT", "Jinvp"] + (["Cast"] if g == "SO3" else [])
        c = rng.choice(opts)
        if c == "Log":
            return ("U", "Log", g, gen_node(rng, ("G", g), d, L))
        if c == "Cast":
            return ("Cast", ty, gen_node(rng, ("E3",), d, L))
        return ("B", c, g, gen_node(rng, ("G", g), d, L), gen_node(rng, ("A", g), d, L))
    if ty[0] == "E3":
        if rng.random() < 0.15:
            return ("Cast", ty, gen_node(rng, ("A", "SO3"), d, L))
        g = rng.choice(GROUPS)
        return ("B", "Act", g, gen_node(rng, ("G", g), d, L), gen_node(rng, ("E3",), d, L))
    if ty[0] == "E4":
        g = rng.choice(GROUPS)
        return ("B", "Act4", g, gen_node(rng, ("G", g), d, L), gen_node(rng, ("E4",), d, L))
    raise AssertionError(ty)


def rand_type(rng):
    g = rng.choice(GROUPS)
    return rng.choice([("G", g), ("G", g), ("A", g), ("A", g), ("E3",), ("E4",), ("M", g)])


def prog_tokens(node):
    k = node[0]
    if k == "L":
        return [f"L{node[1]}"]
    if k == "U":
        return [f"U:{node[1]}:{node[2]}"] + prog_tokens(node[3])
    if k == "B":
        return [f"B:{node[1].rstrip('*')}:{node[2]}"] + prog_tokens(node[3]) + prog_tokens(node[4])
    if k == "Retr":   # a.Exp() * X
        g = node[1]
        return [f"B:Mul:{g}", f"U:Exp:{g}"] + prog_tokens(node[3]) + prog_tokens(node[2])
    if k == "Cast":
        return prog_tokens(node[2])
    raise AssertionError(node)


def prog_str(node):
    k = node[0]
    if k == "L":
        return f"x{node[1]}"
    if k == "U":
        return f"{node[1]}[{node[2]}]({prog_str(node[3])})"
    if k == "B":
        return f"{node[1]}[{node[2]}]({prog_str(node[3])},{prog_str(node[4])})"
    if k == "Retr":
        return f"Retr[{node[1]}]({prog_str(node[2])},{prog_str(node[3])})"
    return f"cast({prog_str(node[2])})"


def prog_ops(node, acc=None):
    acc = [] if acc is None else acc
    k = node[0]
    if k == "U":
        acc.append((node[1], node[2])); prog_ops(node[3], acc)
    elif k == "B":
        acc.append((node[1], node[2])); prog_ops(node[3], acc); prog_ops(node[4], acc)
    elif k == "Retr":
        acc.append(("Retr", node[1])); prog_ops(node[2], acc); prog_ops(node[3], acc)
    elif k == "Cast":
        prog_ops(node[2], acc)
    return acc


def prog_depth(node):
    k = node[0]
    if k == "L":
        return 0
    if k == "U":
        return 1 + prog_depth(node[3])
    if k == "B":
        return 1 + max(prog_depth(node[3]), prog_depth(node[4]))
    if k == "Retr":
        return 1 + max(prog_depth(node[2]), prog_depth(node[3]))
    return prog_depth(node[2])


def to_json(node):
    return list(node[:1]) + [to_json(x) if isinstance(x, tuple) and x and x[0] in ("L", "U", "B", "Retr", "Cast") else
                             (list(x) if isinstance(x, tuple) else x) for x in node[1:]]


def from_json(j):
    k = j[0]
    if k == "L":
        return ("L", j[1])
    if k == "U":
        return ("U", j[1], j[2], from_json(j[3]))
    if k == "B":
        return ("B", j[1], j[2], from_json(j[3]), from_json(j[4]))
    if k == "Retr":
        return ("Retr", j[1], from_json(j[2]), from_json(j[3]))
    return ("Cast", tuple(j[1]), from_json(j[2]))


# ----------------------------------------------------------------------------- running the real code

def wrap_leaf(P, ty, t):
    """leaf object handed to the program (LieTensor for group/algebra leaves); `t` requires grad"""
    if ty[0] == "G":
        return P.LieTensor(t, ltype=U.ltype(ty[1]))
    if ty[0] == "A":
        return P.LieTensor(t, ltype=U.ltype(U.ALG[ty[1]]))
    return t


def as_tensor(P, v):
    return v.tensor() if isinstance(v, P.LieTensor) else v


def quat_angle(q):
    """rotation angle in [0, pi] of (batched) quaternion tensor"""
    v = q[..., :3].double().norm(dim=-1)
    w = q[..., 3].double().abs()
    return 2 * torch.atan2(v, w)


def run_impl(P, node, leaves, rec):
    k = node[0]
    if k == "L":
        return leaves[node[1]]
    if k == "Cast":
        v = run_impl(P, node[2], leaves, rec)
        if node[1][0] == "A":
            return P.LieTensor(as_tensor(P, v), ltype=P.so3_type)
        return as_tensor(P, v)
    if k == "Retr":
        X = run_impl(P, node[2], leaves, rec)
        a = run_impl(P, node[3], leaves, rec)
        rec.append(("Exp", node[1], as_tensor(P, a).detach()))
        return X.Retr(a)
    if k == "U":
        op, g = node[1], node[2]
        x = run_impl(P, node[3], leaves, rec)
        if op == "Exp":
            rec.append(("Exp", g, as_tensor(P, x).detach()))
            return x.Exp()
        if op == "Log":
            rec.append(("Log", g, as_tensor(P, x).detach()))
            return x.Log()
        if op == "Inv":
            return x.Inv()
        if op == "Matrix":
            return x.matrix()
    op, g = node[1], node[2]
    x = run_impl(P, node[3], leaves, rec)
    y = run_impl(P, node[4], leaves, rec)
    if op == "Mul":
        return x @ y
    if op == "Mul*":
        return x * y
    if op in ("Act", "Act4"):
        return x.Act(y)
    if op == "Adj":
        return x.Adj(y)
    if op == "AdjT":
        return x.AdjT(y)
    if op == "Jinvp":
        rec.append(("Jinvp", g, as_tensor(P, x).detach()))
        return x.Jinvp(y)
    raise AssertionError(node)


def node_type(node, ltypes):
    k = node[0]
    if k == "L":
        return ltypes[node[1]]
    if k == "Cast":
        return node[1]
    if k == "Retr":
        return ("G", node[1])
    if k == "U":
        return {"Exp": ("G", node[2]), "Log": ("A", node[2]), "Inv": ("G", node[2]), "Matrix": ("M", node[2])}[node[1]]
    return {"Mul": ("G", node[2]), "Mul*": ("G", node[2]), "Act": ("E3",), "Act4": ("E4",), "Adj": ("A", node[2]), "AdjT": ("A", node[2]),
            "Jinvp": ("A", node[2])}[node[1]]


# ----------------------------------------------------------------------------- leaf values

def gen_leaf_value(rng, ty, eps, small_sim3=False, jinvp_x=False):
    """one item (list of floats, storage order) + regime tag"""
    k = ty[0]
    if k == "G":
        g = ty[1]
        v, tag = U.gen_group(rng, g, eps, thi=10.0, shi=1.5)
        return v, tag
    if k == "A":
        g = ty[1]
        if g == "Sim3" and (small_sim3 or rng.random() < 0.5):
            v, tag = U.gen_algebra(rng, g, eps, big=False, thi=0.2, shi=0.2)
            sc = rng.choice([1.0, 0.3, 0.05, 1e-3])
            n = math.sqrt(sum(x * x for x in v)) or 1.0
            if n > 0.4:
                v = [x * 0.4 / n for x in v]
            v = [x * sc for x in v]
            return v, "small/" + tag
        v, tag = U.gen_algebra(rng, g, eps, big=True, thi=10.0, shi=1.5)
        return v, tag
    if k == "E3":
        m = U.gen_mag(rng, eps, 10.0)
        return U.vec(rng, m), f"p{common.sig_mag(m)}"
    if k == "E4":
        m = U.gen_mag(rng, eps, 10.0)
        w = rng.choice([1.0, 1.0, 0.0, rng.uniform(-3, 3)])
        return U.vec(rng, m) + [w], f"p{common.sig_mag(m)}w{w:.1f}"
    raise AssertionError(ty)


def gen_cot(rng, n):
    c = rng.random()
    if c < 0.6:
        return [rng.gauss(0, 1) for _ in range(n)]
    if c < 0.75:
        v = [0.0] * n
        v[rng.randrange(n)] = rng.choice([-1.0, 1.0, 2.5])
        return v
    if c < 0.9:
        return [rng.gauss(0, 1) if rng.random() < 0.5 else 0.0 for _ in range(n)]
    return [rng.gauss(0, 1) * 10 ** rng.uniform(-3, 2) for _ in range(n)]


# ----------------------------------------------------------------------------- a case = program + batched leaf values

def make_case(rng, dtype, depth=None, root=None, maxleaves=5):
    ty = root or rand_type(rng)
    depth = depth if depth is not None else rng.choice([1, 2, 2, 3, 3, 4, 4, 5, 6])
    L = []
    for _ in range(20):
        L = []
        node = gen_node(rng, ty, depth, L, maxleaves)
        if node[0] != "L" and not (node[0] == "Cast" and node[2][0] == "L"):
            break
    shape = rng.choice([(), (), (1,), (2,), (3,), (2, 2), (1, 3)])
    lshapes = []
    for _ in L:
        r = rng.random()
        if shape and r < 0.2:
            lshapes.append(())
        elif len(shape) == 2 and r < 0.35:
            lshapes.append(shape[1:])
        elif shape and r < 0.45:
            lshapes.append(tuple(1 if i == 0 else e for i, e in enumerate(shape)))
        else:
            lshapes.append(shape)
    bshape = tuple(torch.broadcast_shapes(*lshapes)) if lshapes else shape
    return {"stream": "prog", "prog": to_json(node), "ltypes": [list(t) for t in L], "dtype": dtype,
            "lshapes": [list(s) for s in lshapes], "bshape": list(bshape), "root": list(ty)}


def fill_values(rng, case):
    """draw leaf values and the cotangent (kept in the case so that it replays exactly)"""
    eps = common.EPS[case["dtype"]]
    node = from_json(case["prog"])
    ltypes = [tuple(t) for t in case["ltypes"]]
    ops = prog_ops(node)
    has_sim3_explog = any(o in ("Exp", "Log", "Retr", "Jinvp") and g == "Sim3" for o, g in ops)
    vals, tags = [], []
    for ty, shp in zip(ltypes, case["lshapes"]):
        n = int(math.prod(shp))
        rows, tg = [], []
        for _ in range(n):
            v, t = gen_leaf_value(rng, ty, eps, small_sim3=has_sim3_explog and rng.random() < 0.5)
            rows.append(v)
            tg.append(t)
        t64 = U.to_dtype_exact(rows, case["dtype"])[1] if rows else torch.zeros(0, tdim(ty), dtype=torch.float64)
        vals.append(t64.reshape(tuple(shp) + (tdim(ty),)).tolist())
        tags.append(tg[0] if tg else "")
    out_ty = node_type(node, ltypes)
    nb = int(math.prod(case["bshape"]))
    od = tdim(out_ty)
    cots = [gen_cot(rng, od) for _ in range(nb)]
    c64 = U.to_dtype_exact(cots, case["dtype"])[1].reshape(tuple(case["bshape"]) + (od,))
    case["values"] = vals
    case["cot"] = c64.tolist()
    case["tags"] = tags
    return case


class ImplResult:
    pass


def run_case_impl(case, route="grad"):
    """run the real code; returns ImplResult(out, grads, logs)"""
    P = U.pp()
    D = U.dt(case["dtype"])
    node = from_json(case["prog"])
    ltypes = [tuple(t) for t in case["ltypes"]]
    ts = [torch.tensor(v, dtype=torch.float64).to(D).reshape(tuple(s) + (tdim(t),)).requires_grad_(True)
          for v, s, t in zip(case["values"], case["lshapes"], ltypes)]
    leaves = [wrap_leaf(P, t, x) for t, x in zip(ltypes, ts)]
    rec = []
    out = run_impl(P, node, leaves, rec)
    out_t = as_tensor(P, out)
    out_ty = node_type(node, ltypes)
    bshape = tuple(case["bshape"])
    c = torch.tensor(case["cot"], dtype=torch.float64).to(D)
    r = ImplResult()
    r.out_is_lie = isinstance(out, P.LieTensor)
    r.out_ltype = type(out.ltype).__name__ if r.out_is_lie else None
    if out_ty[0] == "M":
        n = U.MATN[out_ty[1]]
        r.out_shape_ok = tuple(out_t.shape) == bshape + (n, n)
        flat = out_t.reshape(bshape + (n * n,))
    else:
        r.out_shape_ok = tuple(out_t.shape) == bshape + (tdim(out_ty),)
        flat = out_t
    r.out = flat.detach().double()
    r.rec = rec
    if route == "grad":
        gs = torch.autograd.grad(flat, ts, grad_outputs=c, allow_unused=True)
    else:  # .backward()
        flat.backward(c)
        gs = [t.grad for t in ts]
    r.grads = [None if g is None else g.detach().double() for g in gs]
    r.leaf_tensors = ts
    return r


# ----------------------------------------------------------------------------- model side

def env_tokens(ltypes, item_vals):
    toks = [str(len(ltypes))]
    for ty, v in zip(ltypes, item_vals):
        toks.append(ty[1] if ty[0] == "G" else "V")
        toks.append(str(len(v)))
        toks.append(common.wire_list(v))
    return " ".join(toks)


def vec_tokens(v):
    return f"{len(v)} " + common.wire_list(v)


def item_index(bshape, lshape, flat_idx):
    """flat index into a leaf of lshape for flat index flat_idx of the broadcast shape"""
    if not bshape:
        return 0
    idx = []
    rem = flat_idx
    for e in reversed(bshape):
        idx.append(rem % e)
        rem //= e
    idx = list(reversed(idx))
    ls = list(lshape)
    off = len(bshape) - len(ls)
    fi = 0
    for d, e in enumerate(ls):
        i = idx[off + d] if e != 1 else 0
        fi = fi * e + i
    return fi


def model_lines(case, eps_used, want_fd=True):
    """driver lines for every batch item: eval, grad, fd per leaf; returns (lines, index)"""
    node = from_json(case["prog"])
    ltypes = [tuple(t) for t in case["ltypes"]]
    ptoks = prog_tokens(node)
    pstr = f"{len(ptoks)} " + " ".join(ptoks)
    bshape = tuple(case["bshape"])
    nb = int(math.prod(bshape))
    out_ty = node_type(node, ltypes)
    outkind = out_ty[1] if out_ty[0] == "G" else "V"
    flat_vals = [torch.tensor(v, dtype=torch.float64).reshape(-1, tdim(t)).tolist() for v, t in zip(case["values"], ltypes)]
    cot = torch.tensor(case["cot"], dtype=torch.float64).reshape(nb, -1).tolist()
    e = common.to_wire(eps_used)
    lines, index = [], []
    for b in range(nb):
        iv = [fv[item_index(bshape, tuple(ls), b)] for fv, ls in zip(flat_vals, case["lshapes"])]
        env = env_tokens(ltypes, iv)
        lines.append(f"c04.eval {e} {pstr} {env}")
        index.append(("eval", b, None))
        lines.append(f"c04.grad {e} {pstr} {env} {vec_tokens(cot[b])}")
        index.append(("grad", b, None))
        if want_fd:
            for li in range(len(ltypes)):
                lines.append(f"c04.fd {e} {pstr} {env} {vec_tokens(cot[b])} {outkind} {li}")
                index.append(("fd", b, li))
    return lines, index


def run_driver_parallel(ctx, lines, nthreads=8):
    """fan the lines out over several driver processes (each ctx.driver.run call is one process below 400 lines)"""
    if len(lines) < 40:
        return ctx.driver.run(lines)
    nt = min(nthreads, max(1, len(lines) // 20))
    chunks = [lines[i::nt] for i in range(nt)]
    outs = [None] * nt
    errs = []

    def work(i):
        try:
            sub = chunks[i]
            res = []
            for j in range(0, len(sub), 390):
                res += ctx.driver.run(sub[j:j + 390])
            outs[i] = res
        except Exception as ex:   # noqa
            errs.append(ex)
    ths = [threading.Thread(target=work, args=(i,)) for i in range(nt)]
    [t.start() for t in ths]
    [t.join() for t in ths]
    if errs:
        raise errs[0]
    res = [None] * len(lines)
    for i in range(nt):
        res[i::nt] = outs[i]
    return res


def collect_model(case, reps, index):
    """-> dict(eval[b], grad[b] (list per leaf), fd[b][leaf] or None)"""
    ltypes = [tuple(t) for t in case["ltypes"]]
    nb = int(math.prod(case["bshape"]))
    M = {"eval": [None] * nb, "grad": [None] * nb, "abs": [None] * nb, "cmax": [0.0] * nb,
         "fd": [[None] * len(ltypes) for _ in range(nb)], "err": []}
    for rep, (kind, b, li) in zip(reps, index):
        st, toks = common.parse_reply(rep)
        if st != "ok":
            if kind == "fd" and str(toks).startswith("fd-unstable"):
                M["fd"][b][li] = "unstable"
                continue
            if "contract" in str(toks):
                raise common.InfraError(f"stand-in contract failed: {rep}")
            raise common.InfraError(f"model error reply: {rep} for {kind} of {prog_str(from_json(case['prog']))}")
        xs = [float(common.from_wire(t)) for t in toks]
        if kind == "eval":
            M["eval"][b] = xs
        elif kind == "grad":
            out, ab, o = [], [], 0
            tot = sum(tdim(t) for t in ltypes)
            for t in ltypes:
                out.append(xs[o:o + tdim(t)])
                ab.append(xs[tot + o:tot + o + tdim(t)])
                o += tdim(t)
            M["grad"][b] = out
            M["abs"][b] = ab
            M["cmax"][b] = xs[2 * tot]
        else:
            M["fd"][b][li] = xs
    return M


# ----------------------------------------------------------------------------- comparison

def tol_rel(dtype):
    return 1e3 * common.EPS["float64"] if dtype == "float64" else 4 * math.sqrt(common.EPS["float32"])


def sum_to_leaf(bshape, lshape, per_item):
    """sum per-item gradient rows (list over flat batch index) into the leaf's own shape (flat list of rows)"""
    n = int(math.prod(lshape))
    dim = len(per_item[0])
    acc = [[0.0] * dim for _ in range(n)]
    for b, row in enumerate(per_item):
        i = item_index(bshape, lshape, b)
        for k2, v in enumerate(row):
            acc[i][k2] += v
    return acc


def guards(case, r):
    """the quantifier's domain: Log / Jinvp inputs away from pi, Jinvp away from the zero rotation"""
    for kind, g, x in r.rec:
        if x.numel() == 0 or kind == "Exp":
            continue
        ang = quat_angle(x[..., U.QSL[g]])
        if float(ang.max()) > math.pi - 0.3:
            return "near-pi"
        if kind == "Jinvp" and float(ang.min()) < 1e-3:
            return "jinvp-zero"
    return None


def cancel_hits(case, r):
    """sites of the two cancellation regions of operation.py met by this case:
    calcQ (se3 Exp backward, SE3 Log backward / Jinvp): eps < theta < 1e-2 with tau != 0;
    so3_Jl (so3 / se3 / rxso3 Exp backward): eps < theta < 1e-3"""
    eps = common.EPS[case["dtype"]]
    hits = []
    for kind, g, x in r.rec:
        if x.numel() == 0:
            continue
        x = x.double()
        if kind == "Exp":
            if g == "Sim3":
                continue
            th = x[..., U.PHISL[g]].norm(dim=-1)
            sel = (th > eps) & (th < 1e-3)
            if bool(sel.any()):
                hits.append({"site": "so3_Jl", "theta": float(th[sel].min())})
            if g == "SE3":
                tau = x[..., :3].norm(dim=-1)
                sel = (th > eps) & (th < 1e-2) & (tau > 0)
                if bool(sel.any()):
                    hits.append({"site": "calcQ", "theta": float(th[sel].min()), "tau": float(tau[sel].max())})
        elif g == "SE3":
            th = quat_angle(x[..., 3:7])
            sel = (th > eps) & (th < 1e-2)
            if bool(sel.any()):
                hits.append({"site": "calcQ", "theta": float(th[sel].min()), "tau": float(x[..., :3].norm(dim=-1).max())})
    return hits


def trunc_allowance(case, M):
    """documented truncation of sim3_Jl / sim3_Jl_inv: relative allowance for the oracle, or None (= skip oracle)"""
    ops = prog_ops(from_json(case["prog"]))
    if not any(g == "Sim3" and o in ("Exp", "Log", "Retr", "Jinvp") for o, g in ops):
        return 0.0
    return None


def run(ctx: Ctx):
    raise NotImplementedError
