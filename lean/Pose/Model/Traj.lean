import Pose.Model.Lie
/-!
# Model of `pypose/metric/ape_rpe.py` and `pypose/module/loss.py`

`matching_time_indices`, `associate_traj`, `StampedSE3.align`, `compute_error`, `pairs_by_frames`,
`pairs_by_dist`, `pair_id`, `ape`, `rpe`; `geodesic_loss` / `GeodesicLoss`.

A trajectory is a list of time stamps and a list of `SE3` poses of the same length (`StampedSE3` converts
both to float64, so the machine epsilon `eps` used by `Log` is always the float64 one).

External kernels / contract parameters:
* `svdstf` (Umeyama alignment, property C17) is the **parameter** `alignFn : est → ref → Sim3`; the theorems
  take its optimality/uniqueness contract as a hypothesis, the driver receives the transform the real
  `svdstf` returned and the harness re-checks the contract on every call.
* `torch.min(dim)` / `torch.argmin`: first position of a minimal entry (ties are excluded by the generator);
  `torch.median`: the lower median; `torch.std`: unbiased.
* `int(delta)` (Python float → int) is passed in as a natural number.
-/
namespace PP.Traj
variable {α : Type} [Scalar α]

def sumL (xs : List α) : α := xs.foldr (· + ·) (k 0)

/-! ## association of time stamps -/

/-- scan for the first minimal entry: `best = (value, index)` so far, `j` = index of the next entry -/
def argminFrom : List α → Nat → α × Nat → α × Nat
  | [], _, best => best
  | x :: xs, j, best => argminFrom xs (j + 1) (if Scalar.lt x best.1 then (x, j) else best)

/-- `torch.min(row)` : `(min value, first index attaining it)` -/
def argmin? : List α → Option (α × Nat)
  | [] => none
  | x :: xs => some (argminFrom xs 1 (x, 0))

/-- one row of `diff_mat = |stamps_1[:,None] - (stamps_2 + offset)[None]|` -/
def absDiffRow (s off : α) (l : List α) : List α := l.map fun lj => sabs (s - (lj + off))

/-- `matching_time_indices(stamps_1 = s, stamps_2 = l, max_diff, offset_2)` as a list of index pairs -/
def matchIdx (diff off : α) (s l : List α) : List (Nat × Nat) :=
  s.zipIdx.filterMap fun (si, i) =>
    match argmin? (absDiffRow si off l) with
    | some (v, j) => if Scalar.lt v diff then some (i, j) else none
    | none => none

/-- `xs[ids]` (indices produced by the matching are always in range; an out-of-range index would raise in the
code and is dropped here) -/
def pick {β : Type} (xs : List β) (ids : List Nat) : List β := ids.filterMap fun i => xs[i]?

/-- index lists `(reference ids, estimate ids)` chosen by `associate_traj` — a function of the stamps only.
The shorter trajectory is matched against the longer one; the offset always shifts the *estimate* stamps. -/
def assocIdx (diff off : α) (rs es : List α) : List Nat × List Nat :=
  if rs.length < es.length then
    let m := matchIdx diff off rs es
    (m.map Prod.fst, m.map Prod.snd)
  else
    let m := matchIdx diff (-off) es rs
    (m.map Prod.snd, m.map Prod.fst)

/-- the associated sub-trajectories `(r stamps, r poses, e stamps, e poses)` -/
structure Assoc (α : Type) where
  rs : List α
  rp : List (SE3 α)
  es : List α
  ep : List (SE3 α)

/-- `associate_traj`; `none` models `assert num_matches != 0` -/
def associate (diff off : α) (rs : List α) (rp : List (SE3 α)) (es : List α) (ep : List (SE3 α)) :
    Option (Assoc α) :=
  let ix := assocIdx diff off rs es
  if ix.1.isEmpty then none
  else some ⟨pick rs ix.1, pick rp ix.1, pick es ix.2, pick ep ix.2⟩

/-! ## alignment -/

/-- `StampedSE3.align` with a `Sim3` transform: `Sim3(cat(pose, 1))`, `trans @ ·`, first seven entries -/
def alignPose (T : Sim3 α) (e : SE3 α) : SE3 α :=
  let X := Sim3Mul T ⟨e.t, e.q, k 1⟩
  ⟨X.t, X.q⟩

/-- `origin=True`: `trans[..., :7] = (r₀ @ e₀.Inv()).data`, scale stays `1` -/
def originT (r0 e0 : SE3 α) : Sim3 α :=
  let X := SE3Mul r0 (SE3Inv e0)
  ⟨X.t, X.q, k 1⟩

/-- how the estimate is aligned: nothing, first pose, or `svdstf` (the contract parameter) -/
inductive AlignMode | none | origin | svd
deriving DecidableEq, Repr, Inhabited

/-- option handling of `ape` / `rpe`: `if align or scale: svdstf(…, with_scale=scale) elif origin: first pose else: identity`
— returns the alignment mode and the `with_scale` flag handed to `svdstf` -/
def modeOfFlags (align scale origin : Bool) : AlignMode × Bool :=
  if align || scale then (.svd, scale) else if origin then (.origin, false) else (.none, false)

/-- the transform applied to the estimate (`identity_Sim3`, `originT`, or `alignFn est_trans ref_trans`) -/
def transOf (alignFn : List (Vec3 α) → List (Vec3 α) → Sim3 α) (mode : AlignMode)
    (rp ep : List (SE3 α)) : Sim3 α :=
  match mode with
  | .none => Sim3one
  | .origin => originT (rp.headD SE3one) (ep.headD SE3one)
  | .svd => alignFn (ep.map (·.t)) (rp.map (·.t))

/-! ## pose errors (`compute_error`) -/

inductive EType | translation | rotation | pose | radian | degree
deriving DecidableEq, Repr, Inhabited

def ent (M : DMat α) (i j : Nat) : α := (M.getD i []).getD j (k 0)

/-- `E[:3,:3]` -/
def rot33 (M : DMat α) : Mat3 α :=
  ⟨⟨ent M 0 0, ent M 0 1, ent M 0 2⟩, ⟨ent M 1 0, ent M 1 1, ent M 1 2⟩, ⟨ent M 2 0, ent M 2 1, ent M 2 2⟩⟩

/-- `mat2SO3(m, check=False)` (`pypose/lietensor/convert.py`), four masked branches; `atol = 1e-5`.
Works on `rmat_t = mᵀ`; the stacked quaternions are in `wxyz` order and re-indexed to `xyzw`. -/
def mat2SO3 (atol : α) (m : Mat3 α) : Quat α :=
  let r := m.transpose
  let r00 := r.r0.x; let r01 := r.r0.y; let r02 := r.r0.z
  let r10 := r.r1.x; let r11 := r.r1.y; let r12 := r.r1.z
  let r20 := r.r2.x; let r21 := r.r2.y; let r22 := r.r2.z
  let d2 := Scalar.lt r22 atol
  let d0d1 := Scalar.lt r11 r00
  let d0nd1 := Scalar.lt r00 (-r11)
  -- (w, x, y, z, t)
  let c : α × α × α × α × α :=
    if d2 then
      if d0d1 then (r12 - r21, k 1 + r00 - r11 - r22, r01 + r10, r20 + r02, k 1 + r00 - r11 - r22)
      else (r20 - r02, r01 + r10, k 1 - r00 + r11 - r22, r12 + r21, k 1 - r00 + r11 - r22)
    else
      if d0nd1 then (r01 - r10, r20 + r02, r12 + r21, k 1 - r00 - r11 + r22, k 1 - r00 - r11 + r22)
      else (k 1 + r00 + r11 + r22, r12 - r21, r20 - r02, r01 - r10, k 1 + r00 + r11 + r22)
  let d := k 2 * Scalar.sqrt c.2.2.2.2
  ⟨c.2.1 / d, c.2.2.1 / d, c.2.2.2.1 / d, c.1 / d⟩

def sqsum (xs : List α) : α := sumL (xs.map fun x => x * x)

/-- `‖E[:3,:3] - I₃‖_F` -/
def frob3 (M : DMat α) : α :=
  Scalar.sqrt (sqsum
    [ent M 0 0 - k 1, ent M 0 1, ent M 0 2, ent M 1 0, ent M 1 1 - k 1, ent M 1 2, ent M 2 0, ent M 2 1, ent M 2 2 - k 1])

/-- `‖E - I₄‖_F` -/
def frob4 (M : DMat α) : α :=
  Scalar.sqrt (sqsum
    [ent M 0 0 - k 1, ent M 0 1, ent M 0 2, ent M 0 3, ent M 1 0, ent M 1 1 - k 1, ent M 1 2, ent M 1 3,
     ent M 2 0, ent M 2 1, ent M 2 2 - k 1, ent M 2 3, ent M 3 0, ent M 3 1, ent M 3 2, ent M 3 3 - k 1])

/-- `mat2SO3(E[:3,:3], check=False).Log().norm()` -/
def angleOf (eps atol : α) (M : DMat α) : α := (SO3Log eps (mat2SO3 atol (rot33 M))).norm

def rad2deg (x : α) : α := x * (k 180 / Scalar.pi)

/-- error of a 4×4 relative pose matrix for the four matrix-based error types -/
def errMat (eps atol : α) (et : EType) (transErr : α) (M : DMat α) : α :=
  match et with
  | .translation => transErr
  | .rotation => frob3 M
  | .pose => frob4 M
  | .radian => angleOf eps atol M
  | .degree => rad2deg (angleOf eps atol M)

/-- `mtype='ape'`: `E = (e⁻¹ r).matrix()`; translation error `‖t_e − t_r‖` -/
def apeErr (eps atol : α) (et : EType) (r e : SE3 α) : α :=
  errMat eps atol et (e.t.sub r.t).norm (SE3matrix (SE3Mul (SE3Inv e) r))

/-- `mtype='rpe'`: `E = (r_rel⁻¹ e_rel).matrix()`; translation error `‖E[:3,3]‖` -/
def rpeErr (eps atol : α) (et : EType) (rrel erel : SE3 α) : α :=
  let M := SE3matrix (SE3Mul (SE3Inv rrel) erel)
  errMat eps atol et (Vec3.norm ⟨ent M 0 3, ent M 1 3, ent M 2 3⟩) M

/-! ## statistics -/

def maxL : List α → α
  | [] => k 0
  | x :: xs => xs.foldl smax x
def minL : List α → α
  | [] => k 0
  | x :: xs => xs.foldl smin x

def insertAsc (x : α) : List α → List α
  | [] => [x]
  | y :: ys => if Scalar.lt y x then y :: insertAsc x ys else x :: y :: ys
def sortAsc (xs : List α) : List α := xs.foldr insertAsc []

structure Stats (α : Type) where
  max : α
  min : α
  mean : α
  median : α
  rmse : α
  sse : α
  std : α

/-- the seven statistics of `compute_error` (all are always computed: `otype == 'Max' or 'All'` is truthy) -/
def stats (es : List α) : Stats α :=
  let a := es.map sabs
  let n : α := k es.length
  let mean := sumL a / n
  { max := maxL a
    min := minL a
    mean := mean
    median := (sortAsc a).getD ((es.length - 1) / 2) (k 0)
    rmse := Scalar.sqrt (sqsum es / n)
    sse := sqsum es
    std := Scalar.sqrt (sqsum (a.map fun x => x - mean) / k (es.length - 1)) }

def Stats.toList (s : Stats α) : List α := [s.max, s.min, s.mean, s.median, s.rmse, s.sse, s.std]

/-! ## pairing (`pair_id`) -/

/-- `pairs_by_frames(traj, delta, all)` for a trajectory of `L` poses (`delta ≥ 1`) -/
def pairsByFrames (L delta : Nat) (all : Bool) : List (Nat × Nat) :=
  if all then (List.range L).filterMap fun i => if i + delta < L then some (i, i + delta) else none
  else
    let ids := (List.range ((L + delta - 1) / delta)).map (· * delta)
    ids.zip ids.tail

/-- `‖t[:-1] - t[1:]‖` -/
def stepDist (ts : List (Vec3 α)) : List α := List.zipWith (fun a b => (a.sub b).norm) ts ts.tail

def cumsumFrom : List α → α → List α
  | [], _ => []
  | x :: xs, acc => (acc + x) :: cumsumFrom xs (acc + x)

/-- `accumulated_distances` -/
def accDist (ts : List (Vec3 α)) : List α := k 0 :: cumsumFrom (stepDist ts) (k 0)

/-- `pairs_by_dist(all=True)` -/
def pairsByDistAll (delta tol : α) (ts : List (Vec3 α)) : List (Nat × Nat) :=
  let d := accDist ts
  (List.range (d.length - 1)).filterMap fun i =>
    let rest := (d.drop (i + 1)).map fun x => sabs ((x - d.getD i (k 0)) - delta)
    match argmin? rest with
    | some (v, c) => if Scalar.lt tol v then none else some (i, c + (i + 1))
    | none => none

/-- the loop of `pairs_by_dist(all=False)`: indices at which the path since the last index reaches `delta` -/
def distIdx (delta : α) : List (Vec3 α) → Vec3 α → α → Nat → List Nat
  | [], _, _, _ => []
  | t :: ts, prev, path, i =>
    let path' := path + (t.sub prev).norm
    if Scalar.le delta path' then i :: distIdx delta ts t (k 0) (i + 1)
    else distIdx delta ts t path' (i + 1)

def pairsByDist (delta tol : α) (all : Bool) (ts : List (Vec3 α)) : List (Nat × Nat) :=
  if all then pairsByDistAll delta tol ts
  else
    let idx := distIdx delta ts (ts.headD Vec3.zero) (k 0) 0
    idx.zip idx.tail

/-- `associate='frame'` uses `int(delta)` (`deltaN`), `'distance'` uses `delta` and `tol = delta·rtol` -/
inductive PairMode | frame | distance
deriving DecidableEq, Repr, Inhabited

def pairId (pm : PairMode) (deltaN : Nat) (delta rtol : α) (all : Bool) (poses : List (SE3 α)) :
    List (Nat × Nat) :=
  match pm with
  | .frame => pairsByFrames poses.length deltaN all
  | .distance => pairsByDist delta (delta * rtol) all (poses.map (·.t))

/-! ## `ape`, `rpe` -/

/-- errors of `ape` on already associated trajectories (one per pose) -/
def apeCore (eps atol : α) (alignFn : List (Vec3 α) → List (Vec3 α) → Sim3 α) (et : EType) (mode : AlignMode)
    (rp ep : List (SE3 α)) : List α :=
  let T := transOf alignFn mode rp ep
  List.zipWith (apeErr eps atol et) rp (ep.map (alignPose T))

/-- errors of `ape`; `none` = the code raises (no match) -/
def apeErrors (eps atol : α) (alignFn : List (Vec3 α) → List (Vec3 α) → Sim3 α) (et : EType) (diff off : α)
    (mode : AlignMode) (rs : List α) (rp : List (SE3 α)) (es : List α) (ep : List (SE3 α)) : Option (List α) :=
  (associate diff off rs rp es ep).map fun a => apeCore eps atol alignFn et mode a.rp a.ep

def ape (eps atol : α) (alignFn : List (Vec3 α) → List (Vec3 α) → Sim3 α) (et : EType) (diff off : α)
    (mode : AlignMode) (rs : List α) (rp : List (SE3 α)) (es : List α) (ep : List (SE3 α)) : Option (Stats α) :=
  (apeErrors eps atol alignFn et diff off mode rs rp es ep).map stats

/-- relative poses `X[s]⁻¹ X[t]` over the index pairs (pairs produced by `pair_id` are always in range) -/
def relPoses (ps : List (SE3 α)) (pairs : List (Nat × Nat)) : List (SE3 α) :=
  pairs.filterMap fun st =>
    match ps[st.1]?, ps[st.2]? with
    | some a, some b => some (SE3Mul (SE3Inv a) b)
    | _, _ => none

/-- errors of `rpe` on already associated trajectories; `none` = no pair (the code raises: `StampedSE3` of an
empty selection) -/
def rpeCore (eps atol : α) (alignFn : List (Vec3 α) → List (Vec3 α) → Sim3 α) (et : EType) (mode : AlignMode)
    (pm : PairMode) (deltaN : Nat) (delta rtol : α) (all rpair : Bool) (rp ep : List (SE3 α)) : Option (List α) :=
  let T := transOf alignFn mode rp ep
  let ea := ep.map (alignPose T)
  let pairs := pairId pm deltaN delta rtol all (if rpair then rp else ea)
  if pairs.isEmpty then none
  else some (List.zipWith (rpeErr eps atol et) (relPoses rp pairs) (relPoses ea pairs))

def rpeErrors (eps atol : α) (alignFn : List (Vec3 α) → List (Vec3 α) → Sim3 α) (et : EType) (diff off : α)
    (mode : AlignMode) (pm : PairMode) (deltaN : Nat) (delta rtol : α) (all rpair : Bool)
    (rs : List α) (rp : List (SE3 α)) (es : List α) (ep : List (SE3 α)) : Option (List α) :=
  (associate diff off rs rp es ep).bind fun a =>
    rpeCore eps atol alignFn et mode pm deltaN delta rtol all rpair a.rp a.ep

def rpe (eps atol : α) (alignFn : List (Vec3 α) → List (Vec3 α) → Sim3 α) (et : EType) (diff off : α)
    (mode : AlignMode) (pm : PairMode) (deltaN : Nat) (delta rtol : α) (all rpair : Bool)
    (rs : List α) (rp : List (SE3 α)) (es : List α) (ep : List (SE3 α)) : Option (Stats α) :=
  (rpeErrors eps atol alignFn et diff off mode pm deltaN delta rtol all rpair rs rp es ep).map stats

/-! ## `geodesic_loss` -/

/-- `‖Log(x · y⁻¹)‖` for the rotation parts (unit quaternions) of one pair of items -/
def geodesic (eps : α) (x y : Quat α) : α := (SO3Log eps (x.mul y.conj)).norm

inductive Reduction | none | mean | sum
deriving DecidableEq, Repr, Inhabited

def geodesicAll (eps : α) (xs ys : List (Quat α)) : List α := List.zipWith (geodesic eps) xs ys

/-- `'mean'` and `'sum'` reductions (`'none'` returns `geodesicAll`) -/
def geodesicMean (eps : α) (xs ys : List (Quat α)) : α :=
  sumL (geodesicAll eps xs ys) / k (geodesicAll eps xs ys).length
def geodesicSum (eps : α) (xs ys : List (Quat α)) : α := sumL (geodesicAll eps xs ys)

end PP.Traj
