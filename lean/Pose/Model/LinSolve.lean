import Pose.Scalar
/-!
# Model of `pypose/optim/solver.py`: `PINV`, `LSTSQ`, `Cholesky`, `CG`

Item-level (one system `A x = b`; batching is factored out in C06).  A vector is an index function
`Nat → α` (only indices `< n` matter), a matrix is `Nat → Nat → α`.  Intermediate results are
*tabulated* (`Tab`, `Tab2`: an array read back through `get`, out-of-range reads give `0`), so the very
same definitions run in linear time at `α = BigF` and reduce to plain functions in the proofs through
the two lemmas `tab_get`, `tab2_get`.

External kernels (`torch.linalg.pinv`, `lstsq`, `cholesky_ex`, `cholesky_solve`) are *parameters* of the
`…Forward` models; their contracts are hypotheses of the theorems.  `chol`/`cholSolve` below are the
executable stand-ins of the two Cholesky kernels used by the driver — they are **proved** to satisfy the
contract (`Proofs/Props/C10.lean`: `chol_sound`, `chol_complete`, `cholSolve_correct`).
-/
namespace PP.LinSolve
open PP
variable {α : Type} [Scalar α]

/-! ## tabulated vectors / matrices -/

structure Tab (α : Type) where
  arr : Array α

def Tab.get (t : Tab α) (i : Nat) : α := t.arr.getD i (k 0)
def tab (n : Nat) (f : Nat → α) : Tab α := ⟨Array.ofFn (n := n) fun i => f i.val⟩

structure Tab2 (α : Type) where
  rows : Array (Tab α)

def Tab2.get (t : Tab2 α) (i j : Nat) : α := (t.rows.getD i ⟨#[]⟩).get j
def tab2 (n m : Nat) (f : Nat → Nat → α) : Tab2 α := ⟨Array.ofFn (n := n) fun i => tab m (f i.val)⟩

/-! ## sums, products -/

/-- `Σ_{i<n} f i`, accumulated left to right -/
def sumN : Nat → (Nat → α) → α
  | 0, _ => k 0
  | n+1, f => sumN n f + f n

def dot (n : Nat) (u v : Nat → α) : α := sumN n fun i => u i * v i
/-- `A v` for an `· × m` matrix -/
def matVec (m : Nat) (A : Nat → Nat → α) (v : Nat → α) : Nat → α := fun i => sumN m fun j => A i j * v j
/-- `A B` with inner dimension `m` -/
def matMul (m : Nat) (A B : Nat → Nat → α) : Nat → Nat → α := fun i j => sumN m fun t => A i t * B t j
def transpose (A : Nat → Nat → α) : Nat → Nat → α := fun i j => A j i
def norm (n : Nat) (v : Nat → α) : α := Scalar.sqrt (dot n v v)

/-! ## `PINV.forward`, `LSTSQ.forward` — thin wrappers around external kernels -/

/-- `pinv(A, atol, rtol, hermitian) @ b` : `P` is the `n × m` matrix returned by the kernel. -/
def pinvForward (m n : Nat) (P : Nat → Nat → α) (b : Nat → α) : Tab α :=
  tab n (matVec m P b)

/-! ### `pinv` from a singular value decomposition (the kernel's own algorithm, with its tolerance defaulting)

`torch.linalg.pinv(A, atol, rtol)`: `atol` defaults to `0`; `rtol` defaults to `max(m, n)·eps` unless a positive
`atol` was given (then `0`); singular values `≤ max(atol, rtol·σ₁)` are treated as zero. -/

def pinvCutoff (atol rtol : Option α) (m n : Nat) (eps sigma1 : α) : α :=
  let a : α := match atol with | some a => a | none => k 0
  let r : α := match rtol with
    | some r => r
    | none => if Scalar.lt (k 0) a then k 0 else k (max m n) * eps
  smax a (r * sigma1)

/-- `V Σ⁺ Uᵀ` with the reciprocals of the singular values above `cut` (`U : m × r`, `V : n × r`) -/
def pinvOfSvd (r : Nat) (U V : Nat → Nat → α) (sigma : Nat → α) (cut : α) : Nat → Nat → α :=
  fun i j => sumN r fun t => V i t * (if Scalar.lt cut (sigma t) then k 1 / sigma t else k 0) * U j t

/-- `PINV.forward` with the kernel unfolded to an SVD (`sigma 0` is the largest singular value) -/
def pinvForwardSvd (m n r : Nat) (U V : Nat → Nat → α) (sigma : Nat → α) (atol rtol : Option α) (eps : α)
    (b : Nat → α) : Tab α :=
  pinvForward m n (pinvOfSvd r U V sigma (pinvCutoff atol rtol m n eps (sigma 0))) b

/-- `Σ`-style maximum `max_{t<r} f t` (0 for `r = 0`) -/
def maxN : Nat → (Nat → α) → α
  | 0, _ => k 0
  | r+1, f => smax (maxN r f) (f r)

/-- `pinv(A, hermitian=True)`: the kernel diagonalises the symmetric matrix read from ONE triangle (`eigh`: `Q`, `lam`),
uses `|lam|` as singular values and `sign(lam)·Q` as left factor.  (`spm 0 = +1`.) -/
def pinvOfEigh (r : Nat) (Q : Nat → Nat → α) (lam : Nat → α) (cut : α) : Nat → Nat → α :=
  pinvOfSvd r (fun i t => Q i t * spm (lam t)) Q (fun t => sabs (lam t)) cut

/-- `PINV(hermitian=True).forward` with the kernel unfolded to an eigendecomposition -/
def pinvForwardEigh (n : Nat) (Q : Nat → Nat → α) (lam : Nat → α) (atol rtol : Option α) (eps : α)
    (b : Nat → α) : Tab α :=
  pinvForward n n (pinvOfEigh n Q lam (pinvCutoff atol rtol n n eps (maxN n fun t => sabs (lam t)))) b

/-- `lstsq(A, b).solution` followed by the NaN assertion: the kernel's result is `none` when it contains
a NaN (no NaN exists in the model's scalars). -/
def lstsqForward (n : Nat) (sol : Option (Nat → α)) : Except String (Tab α) :=
  match sol with
  | none => .error "assert:lstsq-nan"
  | some x => .ok (tab n x)

/-- The effective-rank threshold of `torch.linalg.lstsq(A, b, rcond, driver)` for the SVD drivers `gelsd` / `gelss`:
`rcond = None` means `max(m, n)·eps` (torch), a negative `rcond` means the driver's machine precision `mach` (LAPACK:
`eps/2` in gelsd, `eps` in gelss — a parameter here), and singular values `≤ rcond·σ₁` are treated as zero. -/
def lstsqCutoff (rcond : Option α) (m n : Nat) (eps mach sigma1 : α) : α :=
  let r : α := match rcond with
    | none => k (max m n) * eps
    | some r => if Scalar.lt r (k 0) then mach else r
  r * sigma1

/-- `LSTSQ.forward` with an SVD driver unfolded one level: the kernel's solution is `V Σ⁺ Uᵀ b` with the reciprocals of
the singular values above `lstsqCutoff`; then the NaN assertion (never taken: the model's scalars have no NaN). -/
def lstsqForwardSvd (m n r : Nat) (U V : Nat → Nat → α) (sigma : Nat → α) (rcond : Option α) (eps mach : α)
    (b : Nat → α) : Except String (Tab α) :=
  lstsqForward n (some (pinvForward m n (pinvOfSvd r U V sigma (lstsqCutoff rcond m n eps mach (sigma 0))) b).get)

/-- The solution an orthogonal-factorisation driver of `lstsq` (default `gelsy`: QR with column pivoting, then a complete
orthogonal decomposition `A_r = Q T Zᵀ` of the part of numerical rank `r`) returns: `x = Z T⁻¹ Qᵀ b`
(`Q : m × r`, `Z : n × r`, `Ti = T⁻¹ : r × r`; three matrix–vector products, as in LAPACK). -/
def lstsqOfCod (m n r : Nat) (Q Z Ti : Nat → Nat → α) (b : Nat → α) : Tab α :=
  pinvForward r n Z (pinvForward r r Ti (pinvForward m r (transpose Q) b).get).get

/-- `LSTSQ.forward` with the orthogonal-factorisation kernel unfolded one level, followed by the NaN assertion -/
def lstsqForwardCod (m n r : Nat) (Q Z Ti : Nat → Nat → α) (b : Nat → α) : Except String (Tab α) :=
  lstsqForward n (some (lstsqOfCod m n r Q Z Ti b).get)

/-- `LSTSQ.forward` on a batch: ONE assertion `not torch.any(torch.isnan(solution))` for the whole batch. -/
def lstsqForwardBatch (n : Nat) (sols : List (Option (Nat → α))) : Except String (List (Tab α)) :=
  if sols.any (fun s => s.isNone) then .error "assert:lstsq-nan"
  else .ok (sols.filterMap fun s => s.map (tab n))

/-- `PINV.forward` on a batch: `pinv` and `@` act item by item. -/
def pinvForwardBatch (m n : Nat) (items : List ((Nat → Nat → α) × (Nat → α))) : List (Tab α) :=
  items.map fun it => pinvForward m n it.1 it.2

/-! ## Cholesky: executable stand-ins for `cholesky_ex` / `cholesky_solve` -/

/-- forward substitution, first `i` unknowns of `L w = a` (`L` lower triangular) -/
def fwdSub (L : Nat → Nat → α) (a : Nat → α) : Nat → Tab α
  | 0 => tab 0 fun _ => k 0
  | i+1 =>
    let w := fwdSub L a i
    tab (i+1) fun j => if j < i then w.get j else (a i - sumN i fun t => L i t * w.get t) / L i i

/-- back substitution, last `c` unknowns of `Lᵀ x = y` (`n` unknowns in total) -/
def bwdSub (n : Nat) (L : Nat → Nat → α) (y : Nat → α) : Nat → Tab α
  | 0 => tab n fun _ => k 0
  | c+1 =>
    let x := bwdSub n L y c
    let i := n - (c+1)
    tab n fun j => if j = i then (y i - sumN n fun t => if i < t then L t i * x.get t else k 0) / L i i
                   else x.get j

/-- Cholesky–Banachiewicz, row by row.  `.error j` = LAPACK's `info = j`: the leading minor of order `j`
is not positive definite (pivot `≤ 0`).  Only the lower triangle of `A` is read. -/
def chol (A : Nat → Nat → α) : Nat → Except Nat (Tab2 α)
  | 0 => .ok (tab2 0 0 fun _ _ => k 0)
  | n+1 =>
    match chol A n with
    | .error e => .error e
    | .ok L =>
      let w := fwdSub L.get (fun j => A n j) n
      let d2 := A n n - sumN n fun t => w.get t * w.get t
      if Scalar.lt (k 0) d2 then
        .ok (tab2 (n+1) (n+1) fun i j =>
              if i = n then (if j = n then Scalar.sqrt d2 else w.get j) else L.get i j)
      else .error (n+1)

/-- `cholesky_solve(b, L)`: `L Lᵀ x = b` -/
def cholSolve (n : Nat) (L : Nat → Nat → α) (b : Nat → α) : Tab α :=
  bwdSub n L (fwdSub L b n).get n

/-- `cholesky_ex(A, upper)` stand-in: factor `F` (`L`, or `U = Lᵀ` when `upper`) and `info`. -/
def cholExStd (n : Nat) (upper : Bool) (A : Nat → Nat → α) : (Nat → Nat → α) × Nat :=
  match chol (if upper then transpose A else A) n with
  | .error e => (fun _ _ => k 0, e)
  | .ok L => (if upper then transpose L.get else L.get, 0)

/-- `b.cholesky_solve(F, upper)` stand-in -/
def cholSolveStd (n : Nat) (upper : Bool) (F : Nat → Nat → α) (b : Nat → α) : Tab α :=
  cholSolve n (if upper then transpose F else F) b

/-- `Cholesky.forward`: `L, info = cholesky_ex(A, upper)`; `assert info == 0 (and no NaN)`;
`return b.cholesky_solve(L, upper)`.  The two kernels are parameters. -/
def choleskyForward (cholEx : (Nat → Nat → α) → (Nat → Nat → α) × Nat)
    (cholSolveK : (Nat → Nat → α) → (Nat → α) → Tab α)
    (A : Nat → Nat → α) (b : Nat → α) : Except String (Tab α) :=
  let Fi := cholEx A
  if Fi.2 ≠ 0 then .error "assert:cholesky-failed" else .ok (cholSolveK Fi.1 b)

/-- `Cholesky.forward` on a batch: `cholesky_ex` factors every item, ONE assertion covers the whole batch
(`torch.any(info != 0)`), then `cholesky_solve` on every item. -/
def choleskyForwardBatch (cholEx : (Nat → Nat → α) → (Nat → Nat → α) × Nat)
    (cholSolveK : (Nat → Nat → α) → (Nat → α) → Tab α)
    (items : List ((Nat → Nat → α) × (Nat → α))) : Except String (List (Tab α)) :=
  if items.any (fun it => (cholEx it.1).2 != 0) then .error "assert:cholesky-failed"
  else .ok (items.map fun it => cholSolveK (cholEx it.1).1 it.2)

/-- the instance the driver runs -/
def choleskyForwardStd (n : Nat) (upper : Bool) (A : Nat → Nat → α) (b : Nat → α) : Except String (Tab α) :=
  choleskyForward (cholExStd n upper) (cholSolveStd n upper) A b

/-! ## reference least-squares solution from a full-rank factorisation `A = B C`

`B : m × r` of full column rank, `C : r × n` of full row rank;
`x = Cᵀ (C Cᵀ)⁻¹ (Bᵀ B)⁻¹ Bᵀ b` is the minimum-norm least-squares solution (`lsRef_minnorm`). -/
def lsRef (m r n : Nat) (B C : Nat → Nat → α) (b : Nat → α) : Except String (Tab α) :=
  let G1 := tab2 r r (matMul m (transpose B) B)
  let G2 := tab2 r r (matMul n C (transpose C))
  match chol G1.get r, chol G2.get r with
  | .ok L1, .ok L2 =>
    let y := tab r (matVec m (transpose B) b)
    let u := cholSolve r L1.get y.get
    let v := cholSolve r L2.get u.get
    .ok (tab n (matVec r (transpose C) v.get))
  | _, _ => .error "rank"

/-! ## `CG.forward` (single system) -/

structure CGState (α : Type) where
  x : Tab α
  r : Tab α
  p : Tab α
  rhoPrev : α
  /-- number of completed iterations -/
  iter : Nat
  /-- the early `return x` was taken (`‖r‖ < atol`) -/
  stopped : Bool

/-- one pass through the loop body (the caller has already checked the stopping test) -/
def cgStep (n : Nat) (A : Nat → Nat → α) (M : Option (Nat → Nat → α)) (s : CGState α) : CGState α :=
  let z : Tab α := match M with
    | some M => tab n (matVec n M s.r.get)
    | none => s.r
  let rho := dot n s.r.get z.get
  let p : Tab α :=
    if s.iter = 0 then z
    else
      let beta := rho / s.rhoPrev
      tab n fun i => s.p.get i * beta + z.get i
  let q := tab n (matVec n A p.get)
  let alpha := rho / dot n p.get q.get
  { x := tab n fun i => s.x.get i + alpha * p.get i
    r := tab n fun i => s.r.get i - alpha * q.get i
    p := p, rhoPrev := rho, iter := s.iter + 1, stopped := false }

/-- `for iteration in range(maxiter)` with `fuel` iterations left -/
def cgLoop (n : Nat) (A : Nat → Nat → α) (M : Option (Nat → Nat → α)) (atol : α) :
    Nat → CGState α → CGState α
  | 0, s => s
  | fuel+1, s =>
    if Scalar.lt (norm n s.r.get) atol then { s with stopped := true }
    else cgLoop n A M atol fuel (cgStep n A M s)

/-- shape glue at the top of `CG.forward`: `if A.ndim == b.ndim + 1: b = b.unsqueeze(-1)` else
`assert A.ndim == b.ndim`.  `.ok true` = unsqueezed. -/
def cgEntry (ndimA ndimB : Nat) : Except String Bool :=
  if ndimA = ndimB + 1 then .ok true else if ndimA = ndimB then .ok false else .error "assert:ndim"

/-- the property's quantifier for CG ("single systems, as documented"): a matrix `A` and ONE right-hand side given as a
vector `(n,)` or a column `(n, 1)` -/
def cgInDomain (ndimA ndimB nrhs : Nat) : Bool := ndimA == 2 && (ndimB == 1 || (ndimB == 2 && nrhs == 1))

/-- `x.any()` -/
def anyNonzero (n : Nat) (x : Nat → α) : Bool :=
  (List.range n).any fun i => Scalar.lt (k 0) (x i) || Scalar.lt (x i) (k 0)

/-- the iteration budget: `maxiter` if given, else `n * 10` -/
def cgBudget (n : Nat) (maxiter : Option Nat) : Nat := match maxiter with | some m => m | none => n * 10

/-- the state handed to the loop: `x = x0` (or zeros), `r = b - A @ x if x.any() else b.clone()` -/
def cgInit (n : Nat) (A : Nat → Nat → α) (b : Nat → α) (x0 : Option (Nat → α)) : CGState α :=
  let x : Tab α := match x0 with | some x => tab n x | none => tab n fun _ => k 0
  let r : Tab α := if anyNonzero n x.get then tab n (fun i => b i - matVec n A x.get i) else tab n b
  { x := x, r := r, p := tab n fun _ => k 0, rhoPrev := k 0, iter := 0, stopped := false }

/-- `CG.forward(A, b, x, M)` for one system with `n` unknowns.  Returns the final state (its `x` is the
returned tensor). `bnrm2 == 0` is `¬ 0 < ‖b‖`; in that case `b` itself is returned. -/
def cgForward (n : Nat) (tol : α) (maxiter : Option Nat) (A : Nat → Nat → α) (b : Nat → α)
    (x0 : Option (Nat → α)) (M : Option (Nat → Nat → α)) : CGState α :=
  if Scalar.lt (k 0) (norm n b) then
    cgLoop n A M (tol * norm n b) (cgBudget n maxiter) (cgInit n A b x0)
  else
    { x := tab n b, r := tab n b, p := tab n fun _ => k 0, rhoPrev := k 0, iter := 0, stopped := true }

/-! ## a `CG` solver OBJECT used for a history of calls

`CG.__init__` stores `maxiter` and `tol`; `forward` reads them and never writes them: the budget of a call is
computed from that call's own `n` (`cgBudget c.n obj.maxiter`), not remembered from an earlier call. -/

structure CGObj (α : Type) where
  maxiter : Option Nat
  tol : α

structure CGCall (α : Type) where
  n : Nat
  A : Nat → Nat → α
  b : Nat → α
  x0 : Option (Nat → α)
  M : Option (Nat → Nat → α)

/-- one `solver(A, b, x, M)`: the (unchanged) object and the final state of the call -/
def cgCall (o : CGObj α) (c : CGCall α) : CGObj α × CGState α :=
  (o, cgForward c.n o.tol o.maxiter c.A c.b c.x0 c.M)

/-- a history of calls on ONE object, threading the object through -/
def cgHistory (o : CGObj α) : List (CGCall α) → CGObj α × List (CGState α)
  | [] => (o, [])
  | c :: cs =>
    let r := cgCall o c
    let rest := cgHistory r.1 cs
    (rest.1, r.2 :: rest.2)

/-- a history in which some calls RAISE before returning (`none`: arguments that do not fit, a non-finite entry, …):
the caller catches the exception and goes on with the same object -/
def cgHistoryE (o : CGObj α) : List (Option (CGCall α)) → CGObj α × List (Option (CGState α))
  | [] => (o, [])
  | none :: cs => let rest := cgHistoryE o cs; (rest.1, none :: rest.2)
  | some c :: cs =>
    let r := cgCall o c
    let rest := cgHistoryE r.1 cs
    (rest.1, some r.2 :: rest.2)

/-- two solver objects (e.g. an object and its `deepcopy` / unpickled copy) used alternately: `true` = first object -/
def cgHistory2 (o1 o2 : CGObj α) : List (Bool × CGCall α) → (CGObj α × CGObj α) × List (CGState α)
  | [] => ((o1, o2), [])
  | (w, c) :: cs =>
    if w then
      let r := cgCall o1 c
      let rest := cgHistory2 r.1 o2 cs
      (rest.1, r.2 :: rest.2)
    else
      let r := cgCall o2 c
      let rest := cgHistory2 o1 r.1 cs
      (rest.1, r.2 :: rest.2)

end PP.LinSolve
