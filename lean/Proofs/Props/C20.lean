import Proofs.Lemmas.Stop
/-!
# C20 — stopping controllers stop exactly on their documented conditions, within budget

Property theorems only (helpers and the definitions of the documented causes `budgetCause`,
`patienceCause`, `sopCause`, `rtbCause` are in `Proofs/Lemmas/Stop.lean`; the model is
`Pose/Model/Stop.lean`).  Every statement quantifies over **all** configurations
(`max_steps`, `patience` any integers), **all** observation / loss sequences and **all** lengths.

Step indices are 0-based: step `i` is the `(i+1)`-th call of `step`; "after `n` steps" means after the
calls fed with `obs 0 … obs (n-1)`.
-/
namespace PP.Stop

/-! ## clause 1: `continual()` is true until, and false from, the first documented cause -/

/-- **StopOnPlateau.** After `n` steps from the constructor state `continual()` is true iff none of the
documented causes (budget reached, `patience` consecutive steps without the configured decrease, the
optimizer's last step involved a rejection) occurred at any of the `n` steps. -/
theorem sop_continual_iff (c : Cfg) (obs : Nat → Obs) (n : Nat) :
    (run (sopStep c) St.init obs n).cont = true ↔ ∀ i, i < n → ¬ sopCause c obs i :=
  init_cont_iff (sop_isCtl c) obs n

/-- **ReduceToBason.** Same with the cause "all losses below `tol`" instead of the rejection. -/
theorem rtb_continual_iff (c : Cfg) (obs : Nat → Obs) (n : Nat) :
    (run (rtbStep c) St.init obs n).cont = true ↔ ∀ i, i < n → ¬ rtbCause c obs i :=
  init_cont_iff (rtb_isCtl c) obs n

/-- "true until, false from": if `i` is the first step with a cause then `continual()` after `n` steps
is true exactly for `n ≤ i`. -/
theorem sop_first_cause (c : Cfg) (obs : Nat → Obs) (i : Nat) (hi : sopCause c obs i)
    (hfirst : ∀ j, j < i → ¬ sopCause c obs j) (n : Nat) :
    (run (sopStep c) St.init obs n).cont = true ↔ n ≤ i := by
  rw [sop_continual_iff]
  constructor
  · intro h
    by_cases hn : n ≤ i
    · exact hn
    · exact absurd hi (h i (by omega))
  · intro hn j hj; exact hfirst j (by omega)

theorem rtb_first_cause (c : Cfg) (obs : Nat → Obs) (i : Nat) (hi : rtbCause c obs i)
    (hfirst : ∀ j, j < i → ¬ rtbCause c obs j) (n : Nat) :
    (run (rtbStep c) St.init obs n).cont = true ↔ n ≤ i := by
  rw [rtb_continual_iff]
  constructor
  · intro h
    by_cases hn : n ≤ i
    · exact hn
    · exact absurd hi (h i (by omega))
  · intro hn j hj; exact hfirst j (by omega)

/-- A first cause always exists when the budget is a number: the budget itself is a cause at step
`max_steps - 1` at the latest (step 0 if `max_steps ≤ 1`). -/
theorem budget_is_cause (c : Cfg) (obs : Nat → Obs) :
    sopCause c obs (c.maxSteps - 1).toNat ∧ rtbCause c obs (c.maxSteps - 1).toNat := by
  have : budgetCause c (c.maxSteps - 1).toNat := by unfold budgetCause; omega
  exact ⟨Or.inl this, Or.inl this⟩

/-- The observable counters: after `n` steps `steps = n` and `patience_count` is the length of the run of
non-decreasing steps that ends at the last step (both controllers; they keep counting after stopping). -/
theorem counters_spec (c : Cfg) (obs : Nat → Obs) (n : Nat) :
    (run (sopStep c) St.init obs n).steps = n ∧ (run (sopStep c) St.init obs n).pc = trail obs n ∧
    (run (rtbStep c) St.init obs n).steps = n ∧ (run (rtbStep c) St.init obs n).pc = trail obs n := by
  refine ⟨?_, ?_, ?_, ?_⟩
  · simpa [St.init] using run_steps (sop_isCtl c) St.init obs n
  · rw [run_pc (sop_isCtl c)]; exact pcFrom_zero obs n
  · simpa [St.init] using run_steps (rtb_isCtl c) St.init obs n
  · rw [run_pc (rtb_isCtl c)]; exact pcFrom_zero obs n

/-- `patience_count ≥ m` after `n` steps iff the last `m` of the `n` steps all failed to decrease. -/
theorem patience_count_spec (c : Cfg) (obs : Nat → Obs) (n m : Nat) :
    m ≤ (run (rtbStep c) St.init obs n).pc ↔
      (m ≤ n ∧ ∀ j, n - m ≤ j → j < n → (obs j).nodec = true) := by
  rw [(counters_spec c obs n).2.2.2]; exact trail_ge_iff obs n m

/-! ## clause 2: absorbing — once false it stays false (until `reset`) -/

/-- From **any** state with `continual() = false`, any further steps leave it false. -/
theorem sop_absorbing (c : Cfg) (s : St) (hs : s.cont = false) (obs : Nat → Obs) (n : Nat) :
    (run (sopStep c) s obs n).cont = false := run_absorbing (sop_isCtl c) s hs obs n

theorem rtb_absorbing (c : Cfg) (s : St) (hs : s.cont = false) (obs : Nat → Obs) (n : Nat) :
    (run (rtbStep c) s obs n).cont = false := run_absorbing (rtb_isCtl c) s hs obs n

/-- Monotone along any run from any state: true at a later time implies true at every earlier time. -/
theorem continual_antitone (c : Cfg) (s : St) (obs : Nat → Obs) (n m : Nat) (hnm : n ≤ m) :
    ((run (sopStep c) s obs m).cont = true → (run (sopStep c) s obs n).cont = true) ∧
    ((run (rtbStep c) s obs m).cont = true → (run (rtbStep c) s obs n).cont = true) :=
  ⟨run_cont_mono (sop_isCtl c) s obs n m hnm, run_cont_mono (rtb_isCtl c) s obs n m hnm⟩

/-! ## clause 3: `reset` restores the initial state

`_Stepper.reset` (ReduceToBason).  `StopOnPlateau` / `_Scheduler` has **no** `reset` in /repo: for it the
"until reset" part of the clause has no implementation and "once false it stays false" holds unconditionally
(`sop_absorbing`, `optimize_stopped_noop`). -/

/-- **`reset` restores the initial state**, from every state whatsoever (stopped or not, any counters):
abstract state = constructor state, numeric state (`last = inf`) = constructor state. -/
theorem rtb_reset_initial (s : St) (l : Option (List ℝ)) :
    rtbReset s = St.init ∧ rtbResetNum (⟨s, l⟩ : RtbSt ℝ) = RtbSt.init := ⟨rfl, rfl⟩

/-- Hence after `reset` every future — all counters and the flag after every number of steps, for every
observation sequence — is that of a freshly constructed controller; in particular `continual()` is true
again and the documented characterisation `rtb_continual_iff` applies to the steps after the reset. -/
theorem rtb_reset_run_eq_fresh (c : Cfg) (s : St) (obs : Nat → Obs) (n : Nat) :
    run (rtbStep c) (rtbReset s) obs n = run (rtbStep c) St.init obs n ∧
    ((run (rtbStep c) (rtbReset s) obs n).cont = true ↔ ∀ i, i < n → ¬ rtbCause c obs i) :=
  ⟨rfl, rtb_continual_iff c obs n⟩

/-- numeric version: `reset` then any real-valued batched loss history = the fresh numeric run -/
theorem rtbNum_reset_eq_fresh (c : Cfg) (d tol : ℝ) (s : RtbSt ℝ) (loss : Nat → List ℝ) (n : Nat) :
    rtbRunNum c d tol (rtbResetNum s) loss n = rtbRunNum c d tol RtbSt.init loss n := rfl

/-- Until `reset` nothing re-arms a stopped stepper, and `reset` is the only event that does: over any
history of `step`/`reset` events, the flag after an event is true only if the event is a `reset` or the
flag was true before it. -/
theorem rtb_only_reset_rearms (c : Cfg) (d tol : ℝ) (s : RtbSt ℝ) (e : Ev ℝ)
    (h : (rtbEv c d tol s e).st.cont = true) : e = Ev.reset ∨ s.st.cont = true := by
  cases e with
  | reset => exact Or.inl rfl
  | step loss =>
    right
    simp only [rtbEv, rtbStepNum] at h
    exact ((rtb_isCtl c).cont s.st _).mp h |>.1

/-- HISTORICAL NOTE (defect D31, repaired): the original `reset` kept `patience_count`; for it the clause
was false — a stepper that stopped on patience and was reset stopped at once on a first non-decreasing
step while a fresh one did not. Kept as the record of why the clause needed the repair. -/
theorem rtb_reset_old_not_initial :
    ∃ (c : Cfg) (obs : Nat → Obs) (k n : Nat),
      (run (rtbStep c) St.init obs k).cont = false ∧
      rtbResetOld (run (rtbStep c) St.init obs k) ≠ St.init ∧
      (run (rtbStep c) (rtbResetOld (run (rtbStep c) St.init obs k)) obs n).cont = false ∧
      (run (rtbStep c) St.init obs n).cont = true :=
  ⟨⟨10, 2⟩, fun _ => ⟨true, false, false⟩, 2, 1, by decide⟩

/-! ## clause 4: every driver loop ends after at most `steps` controller steps -/

/-- **`StopOnPlateau.optimize`** from any scheduler state: the loop terminates with `continual()` false,
the scheduler state is the run over the observations produced, the flag was true before every iteration,
and the number of `optimizer.step` calls is at most `max 1 (max_steps - steps)`. -/
theorem optimize_bounded (c : Cfg) (s : St) (obs : Nat → Obs) :
    (optimize c s obs).2 = run (sopStep c) s obs (optimize c s obs).1 ∧
    (optimize c s obs).2.cont = false ∧
    (∀ j, j < (optimize c s obs).1 → (run (sopStep c) s obs j).cont = true) ∧
    ((optimize c s obs).1 : Int) ≤ max 1 (c.maxSteps - (s.steps : Int)) := by
  obtain ⟨m, heq, hf, hb, hle, _, _⟩ := loop_bounded (sop_isCtl c) obs s
  unfold optimize
  rw [heq]
  exact ⟨rfl, hf, hb, hle⟩

/-- fresh scheduler with `steps ≥ 1`: at most `steps` optimizer steps, at least one. -/
theorem optimize_le_steps (c : Cfg) (hc : 1 ≤ c.maxSteps) (obs : Nat → Obs) :
    1 ≤ (optimize c St.init obs).1 ∧ ((optimize c St.init obs).1 : Int) ≤ c.maxSteps := by
  obtain ⟨m, heq, _, _, hle, _, h1⟩ := loop_bounded (sop_isCtl c) obs St.init
  unfold optimize
  rw [heq]
  have := h1 rfl
  simp only [St.init] at hle
  exact ⟨this, by omega⟩

/-- the loop ends exactly at the first documented cause -/
theorem optimize_count_first_cause (c : Cfg) (obs : Nat → Obs) :
    1 ≤ (optimize c St.init obs).1 ∧ sopCause c obs ((optimize c St.init obs).1 - 1) ∧
    ∀ i, i + 1 < (optimize c St.init obs).1 → ¬ sopCause c obs i :=
  loop_init_first_cause (sop_isCtl c) obs

/-- calling `optimize` on a stopped scheduler does nothing (nothing re-arms it) -/
theorem optimize_stopped_noop (c : Cfg) (s : St) (hs : s.cont = false) (obs : Nat → Obs) :
    optimize c s obs = (0, s) := by
  obtain ⟨m, heq, _, _, _, h0, _⟩ := loop_bounded (sop_isCtl c) obs s
  unfold optimize
  rw [heq, h0 hs]
  rfl

/-- **`ICP.forward`**, whatever state the stepper is in when `forward` is entered (first call, later
call, shared stepper): at least 1 and at most `max 1 max_steps` controller steps, `svdtf` is called once
per step plus once at the end, and the stepper ends stopped. -/
theorem icp_bounded (c : Cfg) (s : St) (obs : Nat → Obs) :
    1 ≤ (icpForward c s obs).1 ∧ ((icpForward c s obs).1 : Int) ≤ max 1 c.maxSteps ∧
    (icpForward c s obs).2.1 = (icpForward c s obs).1 + 1 ∧ (icpForward c s obs).2.2.cont = false := by
  obtain ⟨m, heq, hf, _, hle, _, h1⟩ := loop_bounded (rtb_isCtl c) obs (rtbReset s)
  unfold icpForward
  simp only [heq]
  have := h1 rfl
  simp only [rtbReset] at hle
  exact ⟨this, by omega, by simp, hf⟩

/-- **`MPC.forward`** for an MPC built (`k ≥ 1` times, e.g. a stepper shared by `k` MPC objects) on a
stepper created with `steps`: at most `max 1 (steps - k)` controller steps, hence at most `steps` for
`steps ≥ 1`; `lqr` is called once per step plus once at the end. -/
theorem mpc_bounded (c0 : Cfg) (k : Nat) (hk : 1 ≤ k) (s : St) (obs : Nat → Obs) :
    1 ≤ (mpcForward (mpcInitN k c0) s obs).1 ∧
    ((mpcForward (mpcInitN k c0) s obs).1 : Int) ≤ max 1 (c0.maxSteps - k) ∧
    (1 ≤ c0.maxSteps → ((mpcForward (mpcInitN k c0) s obs).1 : Int) ≤ c0.maxSteps) ∧
    (mpcForward (mpcInitN k c0) s obs).2.1 = (mpcForward (mpcInitN k c0) s obs).1 + 1 ∧
    (mpcForward (mpcInitN k c0) s obs).2.2.cont = false := by
  have hcfg : ∀ k : Nat, (mpcInitN k c0).maxSteps = c0.maxSteps - k := by
    intro k
    induction k with
    | zero => simp [mpcInitN]
    | succ k ih => simp only [mpcInitN, mpcInit, ih]; omega
  obtain ⟨m, heq, hf, _, hle, _, h1⟩ := loop_bounded (rtb_isCtl (mpcInitN k c0)) obs (rtbReset s)
  unfold mpcForward
  simp only [heq]
  have := h1 rfl
  simp only [rtbReset, hcfg] at hle
  exact ⟨this, by omega, fun _ => by omega, by simp, hf⟩

/-- `ICP.forward` / `MPC.forward`, whatever state the stepper is in on entry (first call, later call, shared
stepper): the number of controller steps is exactly the index of the first documented cause of a fresh
controller (budget `steps` for ICP, `steps - k` for an MPC built `k` times on the stepper). -/
theorem icp_mpc_count_first_cause (c : Cfg) (k : Nat) (s : St) (obs : Nat → Obs) :
    (1 ≤ (icpForward c s obs).1 ∧ rtbCause c obs ((icpForward c s obs).1 - 1) ∧
      ∀ i, i + 1 < (icpForward c s obs).1 → ¬ rtbCause c obs i) ∧
    (1 ≤ (mpcForward (mpcInitN k c) s obs).1 ∧
      rtbCause (mpcInitN k c) obs ((mpcForward (mpcInitN k c) s obs).1 - 1) ∧
      ∀ i, i + 1 < (mpcForward (mpcInitN k c) s obs).1 → ¬ rtbCause (mpcInitN k c) obs i) := by
  have hr : rtbReset s = St.init := rfl
  unfold icpForward mpcForward
  simp only [hr]
  exact ⟨loop_init_first_cause (rtb_isCtl c) obs, loop_init_first_cause (rtb_isCtl (mpcInitN k c)) obs⟩

/-- with `steps ≥ 2` even the number of `lqr` calls (loop + final solve) is at most `steps` -/
theorem mpc_lqr_calls_le_steps (c0 : Cfg) (h2 : 2 ≤ c0.maxSteps) (s : St) (obs : Nat → Obs) :
    ((mpcForward (mpcInit c0) s obs).2.1 : Int) ≤ c0.maxSteps := by
  have := mpc_bounded c0 1 (by omega) s obs
  simp only [mpcInitN] at this
  obtain ⟨_, hle, _, hcalls, _⟩ := this
  rw [hcalls]
  push_cast
  omega

/-! ## the numeric layer: how the observations are computed from real-valued (batched) losses -/

/-- **ReduceToBason on real-valued batched losses** (non-empty batches of positive losses, any `d`, `tol`,
`steps`, `patience`, any length): `continual()` after `n` steps is true iff at no step `i < n` the budget
was reached, or at least `patience` consecutive steps up to `i` each failed to decrease every element by
the fraction `d` of its new value, or all elements were below `tol`. -/
theorem rtbNum_continual_iff_pos (c : Cfg) (d tol : ℝ) (loss : Nat → List ℝ)
    (hne : ∀ i, loss i ≠ []) (hpos : ∀ i, ∀ x ∈ loss i, 0 < x) (n : Nat) :
    (rtbRunNum c d tol RtbSt.init loss n).st.cont = true ↔
      ∀ i, i < n → ¬ (budgetCause c i ∨
        (∃ m : Nat, c.patience ≤ (m : Int) ∧ m ≤ i + 1 ∧ ∀ j, i + 1 - m ≤ j → j ≤ i → failsAt d loss j) ∨
        (∀ x ∈ loss i, x < tol)) := by
  have hnd : ∀ j, (numObs d tol none loss j).nodec = true ↔ failsAt d loss j := by
    intro j
    cases j with
    | zero =>
      have hx : ∃ x ∈ loss 0, (0:ℝ) ≤ x := by
        cases hl : loss 0 with
        | nil => exact absurd hl (hne 0)
        | cons a t => exact ⟨a, by simp, le_of_lt (hpos 0 a (by simp [hl]))⟩
      simp only [numObs, rtbObs, relNoDec_none_of_nonneg d (loss 0) hx, failsAt]
      constructor
      · intro h; exact absurd h (by decide)
      · rintro ⟨j', h, _⟩; omega
    | succ j =>
      simp only [numObs, rtbObs, relNoDec_some_pos d (loss j) (loss (j+1)) (hpos (j+1)), failsAt]
      constructor
      · intro h; exact ⟨j, rfl, h⟩
      · rintro ⟨j', h, hall⟩
        have : j' = j := by omega
        subst this; exact hall
  have hbl : ∀ i, (numObs d tol none loss i).below = true ↔ ∀ x ∈ loss i, x < tol := by
    intro i; simp only [numObs, rtbObs]; exact belowTol_iff tol (loss i)
  rw [rtbRunNum_st, RtbSt.init, rtb_continual_iff]
  constructor
  · intro h i hi hc
    apply h i hi
    rcases hc with h1 | ⟨m, hp, hm, hall⟩ | h3
    · exact Or.inl h1
    · exact Or.inr (Or.inl ⟨m, hp, hm, fun j h1 h2 => (hnd j).mpr (hall j h1 h2)⟩)
    · exact Or.inr (Or.inr ((hbl i).mpr h3))
  · intro h i hi hc
    apply h i hi
    rcases hc with h1 | ⟨m, hp, hm, hall⟩ | h3
    · exact Or.inl h1
    · exact Or.inr (Or.inl ⟨m, hp, hm, fun j h1 h2 => (hnd j).mp (hall j h1 h2)⟩)
    · exact Or.inr (Or.inr ((hbl i).mp h3))

/-- **ReduceToBason on arbitrary real losses** (any sign, zeros, empty batches): the same characterisation
with the observations computed by the model's IEEE-convention predicates `relNoDec` / `belowTol`. -/
theorem rtbNum_continual_iff_all (c : Cfg) (d tol : ℝ) (loss : Nat → List ℝ) (n : Nat) :
    (rtbRunNum c d tol RtbSt.init loss n).st.cont = true ↔
      ∀ i, i < n → ¬ rtbCause c (numObs d tol none loss) i := by
  rw [rtbRunNum_st, RtbSt.init, rtb_continual_iff]

/-- **StopOnPlateau on real-valued optimizer readings** (any reals, any threshold): `continual()` after
`n` steps is true iff at no step `i < n` the budget was reached, or at least `patience` consecutive steps
up to `i` each had `last - loss < decreasing`, or the optimizer had `reject_count > 0`. -/
theorem sopNum_continual_iff (c : Cfg) (d : ℝ) (o : Nat → OptObs ℝ) (n : Nat) :
    (run (sopStep c) St.init (fun i => sopObs d (o i)) n).cont = true ↔
      ∀ i, i < n → ¬ (budgetCause c i ∨
        (∃ m : Nat, c.patience ≤ (m : Int) ∧ m ≤ i + 1 ∧
          ∀ j, i + 1 - m ≤ j → j ≤ i → (o j).last - (o j).loss < d) ∨
        (∃ r, (o i).rejectCount = some r ∧ 0 < r)) := by
  have hnd : ∀ j, (sopObs d (o j)).nodec = true ↔ (o j).last - (o j).loss < d := by
    intro j; simp only [sopObs]; exact absNoDec_iff d _ _
  have hrj : ∀ i, (sopObs d (o i)).rej = true ↔ ∃ r, (o i).rejectCount = some r ∧ 0 < r := by
    intro i
    simp only [sopObs]
    cases (o i).rejectCount with
    | none => simp
    | some r => simp
  rw [sop_continual_iff]
  constructor
  · intro h i hi hc
    apply h i hi
    rcases hc with h1 | ⟨m, hp, hm, hall⟩ | h3
    · exact Or.inl h1
    · exact Or.inr (Or.inl ⟨m, hp, hm, fun j h1 h2 => (hnd j).mpr (hall j h1 h2)⟩)
    · exact Or.inr (Or.inr ((hrj i).mpr h3))
  · intro h i hi hc
    apply h i hi
    rcases hc with h1 | ⟨m, hp, hm, hall⟩ | h3
    · exact Or.inl h1
    · exact Or.inr (Or.inl ⟨m, hp, hm, fun j h1 h2 => (hnd j).mp (hall j h1 h2)⟩)
    · exact Or.inr (Or.inr ((hrj i).mp h3))

/-- On the first step after `reset` (or construction) `last = +inf`: a batch containing a non-negative loss
never counts as a non-decrease; a batch of only negative losses does (`(inf - x)/x = -inf`). -/
theorem rtbNum_first_step_nodec (d tol : ℝ) (loss : List ℝ) :
    ((∃ x ∈ loss, 0 ≤ x) → (rtbObs d tol none loss).nodec = false) ∧
    ((∀ x ∈ loss, x < 0) → (rtbObs d tol none loss).nodec = true) := by
  refine ⟨fun h => relNoDec_none_of_nonneg d loss h, fun h => ?_⟩
  simp only [rtbObs, relNoDec, List.all_eq_true]
  intro x hx
  exact (relNoDec1_none d x).mpr (h x hx)

/-! ## hardening: re-use, per-call independence, item-wise = batched -/

/-- **Object re-use / statelessness across `reset`.** Whatever happened to a stepper before (`pre`: any history of
steps and resets, on any state `s`, with batches of any sizes), after a `reset` the steps `post` (batches of any,
even changing, sizes) leave it exactly in the state a freshly constructed stepper reaches on `post` alone. -/
theorem rtb_history_since_last_reset (c : Cfg) (d tol : ℝ) (s : RtbSt ℝ) (pre : List (Ev ℝ))
    (post : List (List ℝ)) :
    (pre ++ Ev.reset :: post.map Ev.step).foldl (rtbEv c d tol) s
      = (post.map Ev.step).foldl (rtbEv c d tol) RtbSt.init := by
  rw [List.foldl_append, List.foldl_cons]
  rfl

/-- **Item-wise = batched (mixed regimes).** The decisions `ReduceToBason.step` takes on a batch are the
conjunctions of the decisions on each element alone: all elements below `tol`; all elements (paired with their own
previous value, or with `+inf` after a reset) failed to decrease. -/
theorem rtb_batch_is_conjunction (d tol : ℝ) (prev loss : List ℝ) :
    (belowTol tol loss = true ↔ ∀ x ∈ loss, belowTol tol [x] = true) ∧
    (relNoDec d none loss = true ↔ ∀ x ∈ loss, relNoDec d none [x] = true) ∧
    (relNoDec d (some prev) loss = true ↔
      ∀ p ∈ List.zip prev loss, relNoDec d (some [p.1]) [p.2] = true) := by
  refine ⟨?_, ?_, ?_⟩
  · simp [belowTol]
  · simp [relNoDec]
  · simp [relNoDec]

/-- **Independence from what a controller does not read**: StopOnPlateau ignores `below`, ReduceToBason ignores
`rej` — two observation streams that differ only there give identical runs from any state. -/
theorem step_ignores_foreign_field (c : Cfg) (s : St) (obs obs' : Nat → Obs) (n : Nat) :
    ((∀ i, (obs i).nodec = (obs' i).nodec ∧ (obs i).rej = (obs' i).rej) →
      run (sopStep c) s obs n = run (sopStep c) s obs' n) ∧
    ((∀ i, (obs i).nodec = (obs' i).nodec ∧ (obs i).below = (obs' i).below) →
      run (rtbStep c) s obs n = run (rtbStep c) s obs' n) := by
  constructor
  · intro h
    induction n with
    | zero => rfl
    | succ n ih => simp only [run, ih, sopStep, (h n).1, (h n).2]
  · intro h
    induction n with
    | zero => rfl
    | succ n ih => simp only [run, ih, rtbStep, (h n).1, (h n).2]

/-! ## hardening pass 2: interrupted driver loops (a body that raises), copies -/

/-- a loop entered with the flag false does nothing, whatever the fuel -/
theorem loop_stopped (stepf : St → Obs → St) (obs : Nat → Obs) (fuel i : Nat) (s : St) (hs : s.cont = false) :
    loop stepf obs fuel i s = (i, s) := by
  cases fuel with
  | zero => rfl
  | succ f => simp [loop, hs]

/-- **Atomicity of an interrupted driver loop.** If the body of a driver loop raises in iteration `a` (the
optimizer / LQR / kNN raises *before* the controller is stepped — the only place a valid use can raise) the
controller is exactly where the `a` completed iterations left it, and entering the loop again (`optimize` called
again) continues as if nothing had happened: `a` iterations followed by a resumed loop = one uninterrupted loop. -/
theorem loop_resume_after_interrupt (stepf : St → Obs → St) (obs : Nat → Obs) (a b i : Nat) (s : St) :
    loop stepf obs (a + b) i s
      = loop stepf obs b (loop stepf obs a i s).1 (loop stepf obs a i s).2 := by
  induction a generalizing i s with
  | zero => simp [loop]
  | succ a ih =>
    rw [Nat.succ_add]
    cases hc : s.cont with
    | true => simp only [loop, hc, if_true]; exact ih (i+1) (stepf s (obs i))
    | false =>
      simp only [loop, hc, Bool.false_eq_true, if_false]
      exact (loop_stopped stepf obs b i s hc).symm

/-- **Copies are independent.** A controller's future is a function of its own state and its own observations only
(`run` takes nothing else): two controllers in the same state — an original and its copy — fed different
continuations each follow the law of a single controller fed (common prefix ++ own continuation). -/
theorem copy_follows_own_history (stepf : St → Obs → St) (s : St) (pre post : List Obs) :
    (pre ++ post).foldl stepf s = post.foldl stepf (pre.foldl stepf s) := List.foldl_append

/-! ## what the driver executes is the model the theorems are about -/

/-- the executable trace on a list is the sequence of `run` states -/
theorem trace_getElem (stepf : St → Obs → St) (s : St) (os : List Obs) (i : Nat) (hi : i < os.length) :
    (trace stepf s os)[i]? = some (run stepf s (fun j => os.getD j default) (i+1)) := by
  induction os generalizing s i with
  | nil => simp at hi
  | cons o os ih =>
    cases i with
    | zero => simp [trace, run]
    | succ i =>
      simp only [trace, List.getElem?_cons_succ]
      rw [ih (stepf s o) i (by simpa using hi)]
      have := run_shift stepf s (fun j => (o :: os).getD j default) (i+1)
      simp only [List.getD_cons_zero, List.getD_cons_succ] at this
      rw [this]

/-! ## non-vacuity -/

-- a history on which each cause is the first one (steps=6, patience=2)
example : (List.range 7).map (fun n => (run (sopStep ⟨6, 2⟩) St.init
    (fun i => if i = 2 ∨ i = 3 then ⟨true, false, false⟩ else ⟨false, false, false⟩) n).cont)
    = [true, true, true, true, false, false, false] := by decide
example : (List.range 4).map (fun n => (run (sopStep ⟨6, 2⟩) St.init
    (fun i => if i = 1 then ⟨false, false, true⟩ else ⟨false, false, false⟩) n).cont)
    = [true, true, false, false] := by decide
example : (List.range 8).map (fun n => (run (rtbStep ⟨6, 2⟩) St.init
    (fun _ => ⟨false, false, false⟩) n).cont) = [true, true, true, true, true, true, false, false] := by decide
example : (List.range 4).map (fun n => (run (rtbStep ⟨6, 2⟩) St.init
    (fun i => if i = 2 then ⟨false, true, false⟩ else ⟨false, false, false⟩) n).cont)
    = [true, true, true, false] := by decide
-- driver loops
example : (optimize ⟨6, 2⟩ St.init (fun _ => ⟨false, false, false⟩)).1 = 6 := by decide
example : (icpForward ⟨200, 5⟩ ⟨17, 0, false⟩ (fun i => ⟨decide (2 ≤ i), false, false⟩)).1 = 7 := by decide
-- a second `forward` on a used, stopped stepper behaves like the first
example : (icpForward ⟨200, 5⟩ ⟨17, 3, false⟩ (fun _ => ⟨true, false, false⟩)).1 = 5 ∧
    (icpForward ⟨200, 5⟩ St.init (fun _ => ⟨true, false, false⟩)).1 = 5 := by decide
example : (mpcForward (mpcInit ⟨10, 5⟩) St.init (fun _ => ⟨false, false, false⟩)).2.1 = 10 := by decide
-- hypotheses of `rtbNum_continual_iff_pos` are satisfiable by a non-trivial batched sequence
example : ∃ loss : Nat → List ℝ, (∀ i, loss i ≠ []) ∧ (∀ i, ∀ x ∈ loss i, 0 < x) ∧ loss 0 ≠ loss 1 :=
  ⟨fun i => [1 / ((i : ℝ) + 1), 2], fun i => by simp, fun i x hx => by
    simp only [List.mem_cons, List.mem_nil_iff, or_false] at hx
    rcases hx with rfl | rfl
    · positivity
    · norm_num, by norm_num⟩

end PP.Stop
