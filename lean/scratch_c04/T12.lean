import Proofs.Lemmas.AutogradChain
set_option linter.unusedSimpArgs false
set_option linter.unusedVariables false
namespace PP.AD
open PP

/-! ## the last storage slot of every group gradient is zero -/

theorem nth_pad0 (v : DVec ℝ) : nth (pad0 v) v.length = 0 := by
  induction v with
  | nil => simp [pad0]
  | cons a v ih => simpa [pad0] using ih

theorem nth_dadd_zero (a b : DVec ℝ) (i : Nat) (ha : nth a i = 0) (hb : nth b i = 0) : nth (DVec.add a b) i = 0 := by
  induction a generalizing b i with
  | nil => simp [DVec.add]
  | cons x a ih => cases b with
    | nil => simp [DVec.add]
    | cons y b => cases i with
      | zero => simp only [nth_cons_zero] at ha hb; simp [DVec.add, ha, hb]
      | succ i =>
        simp only [nth_cons_succ] at ha hb
        have := ih b i ha hb
        simpa [DVec.add] using this

/-- the cotangent handed to a node of group type has a vanishing last storage slot (vacuous for vector types) -/
def LastZero (t : Ty) (v : DVec ℝ) : Prop :=
  match t with
  | .G g => nth v g.adim = 0
  | .V _ => True

theorem lastZero_matrixB (g : Grp) (X go : DVec ℝ) : nth (matrixB g X go) g.adim = 0 := by
  have h3 : ∀ out c, nth (actB g X out c).1 g.adim = 0 := by
    intro out c
    have := nth_pad0 (DMat.vecMul c (ActJac g (v3 out)))
    rwa [length_vecMul _ (Shape_ActJac g (v3 out)) (by norm_num)] at this
  have h4 : ∀ out c, nth (act4B g X out c).1 g.adim = 0 := by
    intro out c
    have := nth_pad0 (DMat.vecMul c (Act4Jac g (v3 out) (nth out 3)))
    rwa [length_vecMul _ (Shape_Act4Jac g (v3 out) (nth out 3)) (by norm_num)] at this
  cases g
  · simp only [matrixB]; exact nth_dadd_zero _ _ _ (nth_dadd_zero _ _ _ (h3 _ _) (h3 _ _)) (h3 _ _)
  all_goals
    simp only [matrixB]
    exact nth_dadd_zero _ _ _ (nth_dadd_zero _ _ _ (nth_dadd_zero _ _ _ (h4 _ _) (h4 _ _)) (h4 _ _)) (h4 _ _)

theorem lastZero_bwd1 (o : Op1) (g : Grp) (eps : ℝ) (x out go : DVec ℝ) (t u : Ty) (h : ty1 o g t = some u) :
    LastZero t (bwd1 o g eps x out go) := by
  cases o <;> simp only [ty1] at h <;> split at h <;> simp at h <;> rename_i ht <;> subst ht <;> simp only [LastZero, bwd1]
  · have := nth_pad0 (DMat.vecMul go (JlInvMat g eps out))
    rwa [length_vecMul _ (Shape_JlInvMat g eps out) (adim_pos g)] at this
  · have := nth_pad0 (DVec.neg (DMat.vecMul (headN g.adim go) (AdjMat g out)))
    rwa [length_dneg, length_vecMul _ (Shape_AdjMat g out) (adim_pos g)] at this
  · exact lastZero_matrixB g x go

theorem lastZero_bwd2 (dJ : DJ ℝ) (o : Op2) (g : Grp) (eps : ℝ) (x y out go : DVec ℝ) (t t' u : Ty)
    (h : ty2 o g t t' = some u) :
    LastZero t (bwd2 dJ o g eps x y out go).1 ∧ LastZero t' (bwd2 dJ o g eps x y out go).2 := by
  cases o <;> simp only [ty2] at h <;> split at h <;> simp at h <;> rename_i ht <;> obtain ⟨h1, h2⟩ := ht <;>
    subst h1 <;> subst h2 <;> simp only [LastZero, bwd2, and_true]
  · constructor
    · have := nth_pad0 (headN g.adim go); rwa [length_headN] at this
    · have := nth_pad0 (DMat.vecMul (headN g.adim go) (AdjMat g x))
      rwa [length_vecMul _ (Shape_AdjMat g x) (adim_pos g)] at this
  · have := nth_pad0 (DMat.vecMul go (ActJac g (v3 out)))
    rwa [length_vecMul _ (Shape_ActJac g (v3 out)) (by norm_num)] at this
  · have := nth_pad0 (DMat.vecMul go (Act4Jac g (v3 out) (nth out 3)))
    rwa [length_vecMul _ (Shape_Act4Jac g (v3 out) (nth out 3)) (by norm_num)] at this
  · have := nth_pad0 (DMat.vecMul (DVec.neg go) (adMat g out))
    rwa [length_vecMul _ (Shape_adMat g out) (adim_pos g)] at this
  · have gen : ∀ g' : Grp, nth (pad0 (DMat.vecMul (DMat.vecMul go (AdjMat g' (invF g' x))) (adMat g' y))) g'.adim = 0 := by
      intro g'
      have := nth_pad0 (DMat.vecMul (DMat.vecMul go (AdjMat g' (invF g' x))) (adMat g' y))
      rwa [length_vecMul _ (Shape_adMat g' y) (adim_pos g')] at this
    cases g
    · have := nth_pad0 (DMat.vecMul (DVec.neg y) (adMat .SO3 (adjF .SO3 x go)))
      rwa [length_vecMul _ (Shape_adMat .SO3 _) (adim_pos .SO3)] at this
    · exact gen .SE3
    · exact gen .RxSO3
    · exact gen .Sim3
  · have := nth_pad0 (DMat.vecMul (DMat.vecMul go (dJ g eps (logF g eps x) y)) (JlInvMat g eps (logF g eps x)))
    rwa [length_vecMul _ (Shape_JlInvMat g eps _) (adim_pos g)] at this

def Prog.isLeaf : Prog → Bool | .leaf _ => true | _ => false

/-- every contribution the reverse sweep delivers to a leaf of group type has last storage slot `0`, provided the
incoming cotangent has (needed only when the program *is* that leaf) -/
theorem backprop_lastZero (dJ : DJ ℝ) (eps : ℝ) (lt : List Ty) (env : List (DVec ℝ)) (p : Prog) :
    ∀ ty go, tyOf lt p = some ty → (LastZero ty go ∨ p.isLeaf = false) →
      ∀ c ∈ backprop dJ eps env p go, ∀ g, lt[c.1]? = some (.G g) → nth c.2 g.adim = 0 := by
  induction p with
  | leaf i =>
    intro ty go hty hz c hc g hg
    simp only [backprop, List.mem_singleton] at hc
    subst hc
    simp only [tyOf] at hty
    simp only [] at hg
    rw [hty] at hg
    cases hz with
    | inl hz => cases hg; exact hz
    | inr hz => simp [Prog.isLeaf] at hz
  | un o g p ih =>
    intro ty go hty _ c hc g' hg
    simp only [tyOf] at hty
    cases hp : tyOf lt p with
    | none => simp [hp] at hty
    | some t =>
      simp only [hp, Option.bind_some] at hty
      simp only [backprop] at hc
      exact ih t _ hp (Or.inl (lastZero_bwd1 o g eps _ _ go t ty hty)) c hc g' hg
  | bin o g p q ihp ihq =>
    intro ty go hty _ c hc g' hg
    simp only [tyOf] at hty
    cases hp : tyOf lt p with
    | none => simp [hp] at hty
    | some t =>
      cases hq : tyOf lt q with
      | none => simp [hp, hq] at hty
      | some t' =>
        simp only [hp, hq, Option.bind_some] at hty
        obtain ⟨z1, z2⟩ := lastZero_bwd2 dJ o g eps (eval eps env p) (eval eps env q)
          (fwd2 o g eps (eval eps env p) (eval eps env q)) go t t' ty hty
        simp only [backprop, List.mem_append] at hc
        cases hc with
        | inl hc => exact ihp t _ hp (Or.inl z1) c hc g' hg
        | inr hc => exact ihq t' _ hq (Or.inl z2) c hc g' hg

theorem nth_dzero (n i : Nat) : nth (DVec.zero n : DVec ℝ) i = 0 := by
  simp only [nth, DVec.zero, k_real, Nat.cast_zero, List.getD_eq_getElem?_getD, List.getElem?_replicate]
  split <;> simp

/-- `.grad` of a leaf = sum of its contributions: slot `j` vanishes when it vanishes in every contribution -/
theorem grad_slot_zero (n i j : Nat) (cs : List (Nat × DVec ℝ)) (h : ∀ c ∈ cs, c.1 = i → nth c.2 j = 0) :
    nth (grad n i cs) j = 0 := by
  unfold grad
  have key : ∀ (acc : DVec ℝ), nth acc j = 0 → ∀ cs' : List (Nat × DVec ℝ), (∀ c ∈ cs', c.1 = i → nth c.2 j = 0) →
      nth (cs'.foldl (fun acc c => if c.1 == i then DVec.add acc c.2 else acc) acc) j = 0 := by
    intro acc hacc cs'
    induction cs' generalizing acc with
    | nil => intro _; simpa using hacc
    | cons c cs' ih =>
      intro hc
      simp only [List.foldl_cons]
      apply ih
      · by_cases hci : c.1 = i
        · simp only [hci, beq_self_eq_true, if_true]
          exact nth_dadd_zero _ _ _ hacc (hc c (by simp) hci)
        · have : (c.1 == i) = false := by simpa using hci
          simp only [this]; simpa using hacc
      · intro c' hc' hi'; exact hc c' (by simp [hc']) hi'
  exact key _ (nth_dzero n j) cs h
end PP.AD
