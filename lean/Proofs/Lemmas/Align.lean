import Proofs.Lemmas.Convert
import Pose.Model.Align
import Mathlib.Tactic.Ring
import Mathlib.Tactic.LinearCombination
import Mathlib.Tactic.Linarith
import Mathlib.Tactic.Positivity
import Mathlib.Tactic.FieldSimp
/-!
# Lemmas for C17 (point-set alignment)

* 3×3 matrix algebra on the model's `Mat3 ℝ` (associativity, transpose, determinant, adjugate, orthogonal
  matrices), the Frobenius pairing `frob A B = Σ A_ab B_ab`;
* every proper rotation matrix is the matrix of a unit quaternion, and the code's branch-selected conversion
  finds it (`mat2SO3Raw_of_rotation`) — from the matrix, not from a quaternion;
* the trace inequality behind Kabsch/Umeyama: for orthogonal `Q` with `det Q = δ = ±1` and
  `s₁ ≥ s₂ ≥ s₃ ≥ 0`: `Σ Q_ii s_i ≤ s₁ + s₂ + δ s₃`;
* sums over lists of points: centring, the cost decomposition.
-/
namespace PP
open Vec3 Quat Mat3

/-! ## `Mat3` algebra -/

/-- unfold a `Mat3` equation to its nine entries -/
macro "mat3_ext" : tactic =>
  `(tactic| (apply Mat3.ext' <;> apply Vec3.ext'))

namespace Mat3

/-- Frobenius pairing `Σ_ab A_ab B_ab = tr(A Bᵀ)` -/
noncomputable def frob (A B : Mat3 ℝ) : ℝ := A.r0.dot B.r0 + A.r1.dot B.r1 + A.r2.dot B.r2

theorem mul_assoc' (A B C : Mat3 ℝ) : (A.mul B).mul C = A.mul (B.mul C) := by
  mat3_ext <;> lie_unfold <;> ring
theorem one_mul' (A : Mat3 ℝ) : Mat3.one.mul A = A := by mat3_ext <;> lie_unfold <;> ring
theorem mul_one' (A : Mat3 ℝ) : A.mul Mat3.one = A := by mat3_ext <;> lie_unfold <;> ring
theorem transpose_mul (A B : Mat3 ℝ) : (A.mul B).transpose = B.transpose.mul A.transpose := by
  mat3_ext <;> lie_unfold <;> ring
theorem transpose_transpose (A : Mat3 ℝ) : A.transpose.transpose = A := by mat3_ext <;> lie_unfold
theorem transpose_one : (Mat3.one : Mat3 ℝ).transpose = Mat3.one := by mat3_ext <;> lie_unfold
theorem det_mul (A B : Mat3 ℝ) : (A.mul B).det = A.det * B.det := by lie_unfold; ring
theorem det_transpose (A : Mat3 ℝ) : A.transpose.det = A.det := by lie_unfold; ring
theorem det_one : (Mat3.one : Mat3 ℝ).det = 1 := by lie_unfold; ring
theorem det_neg (A : Mat3 ℝ) : A.neg.det = -A.det := by lie_unfold; ring
theorem mulVec_mul (A B : Mat3 ℝ) (v : Vec3 ℝ) : (A.mul B).mulVec v = A.mulVec (B.mulVec v) := by
  apply Vec3.ext' <;> lie_unfold <;> ring
theorem one_mulVec (v : Vec3 ℝ) : (Mat3.one : Mat3 ℝ).mulVec v = v := by apply Vec3.ext' <;> lie_unfold <;> ring
theorem mulVec_add (A : Mat3 ℝ) (u v : Vec3 ℝ) : A.mulVec (u.add v) = (A.mulVec u).add (A.mulVec v) := by
  apply Vec3.ext' <;> lie_unfold <;> ring
theorem mulVec_sub (A : Mat3 ℝ) (u v : Vec3 ℝ) : A.mulVec (u.sub v) = (A.mulVec u).sub (A.mulVec v) := by
  apply Vec3.ext' <;> lie_unfold <;> ring
theorem mulVec_smul (A : Mat3 ℝ) (c : ℝ) (v : Vec3 ℝ) : A.mulVec (v.smul c) = (A.mulVec v).smul c := by
  apply Vec3.ext' <;> lie_unfold <;> ring
theorem smul_mulVec (A : Mat3 ℝ) (c : ℝ) (v : Vec3 ℝ) : (Mat3.smul c A).mulVec v = (A.mulVec v).smul c := by
  apply Vec3.ext' <;> lie_unfold <;> ring
theorem mulVec_zero (A : Mat3 ℝ) : A.mulVec Vec3.zero = Vec3.zero := by
  apply Vec3.ext' <;> lie_unfold <;> ring

theorem mul_adjugate (A : Mat3 ℝ) : A.mul A.adjugate = Mat3.smul A.det Mat3.one := by
  mat3_ext <;> lie_unfold <;> ring
theorem adjugate_mul (A : Mat3 ℝ) : A.adjugate.mul A = Mat3.smul A.det Mat3.one := by
  mat3_ext <;> lie_unfold <;> ring
theorem smul_one_mul (c : ℝ) (A : Mat3 ℝ) : (Mat3.smul c Mat3.one).mul A = Mat3.smul c A := by
  mat3_ext <;> lie_unfold <;> ring
theorem mul_smul (c : ℝ) (A B : Mat3 ℝ) : A.mul (Mat3.smul c B) = Mat3.smul c (A.mul B) := by
  mat3_ext <;> lie_unfold <;> ring
theorem smul_smul (c d : ℝ) (A : Mat3 ℝ) : Mat3.smul c (Mat3.smul d A) = Mat3.smul (c * d) A := by
  mat3_ext <;> lie_unfold <;> ring
theorem one_smul' (A : Mat3 ℝ) : Mat3.smul 1 A = A := by mat3_ext <;> lie_unfold <;> ring

/-- a right inverse of a 3×3 matrix is a left inverse -/
theorem mul_eq_one_comm {A B : Mat3 ℝ} (h : A.mul B = Mat3.one) : B.mul A = Mat3.one := by
  have hd : A.det * B.det = 1 := by rw [← det_mul, h, det_one]
  have hA : A.det ≠ 0 := fun h0 => by rw [h0, zero_mul] at hd; exact zero_ne_one hd
  -- B = adj A / det A
  have hB : Mat3.smul A.det B = A.adjugate := by
    calc Mat3.smul A.det B = (Mat3.smul A.det Mat3.one).mul B := (smul_one_mul _ _).symm
      _ = (A.adjugate.mul A).mul B := by rw [adjugate_mul]
      _ = A.adjugate.mul (A.mul B) := mul_assoc' _ _ _
      _ = A.adjugate := by rw [h, mul_one']
  have h2 : Mat3.smul A.det (B.mul A) = Mat3.smul A.det Mat3.one := by
    calc Mat3.smul A.det (B.mul A) = (Mat3.smul A.det B).mul A := by mat3_ext <;> lie_unfold <;> ring
      _ = Mat3.smul A.det Mat3.one := by rw [hB, adjugate_mul]
  have h3 := congrArg (Mat3.smul (1 / A.det)) h2
  rw [smul_smul, smul_smul, one_div, inv_mul_cancel₀ hA, one_smul', one_smul'] at h3
  exact h3

/-- orthogonal: `A Aᵀ = 1` -/
def IsOrth (A : Mat3 ℝ) : Prop := A.mul A.transpose = Mat3.one
/-- proper rotation matrix -/
def IsRot (A : Mat3 ℝ) : Prop := A.mul A.transpose = Mat3.one ∧ A.det = 1

theorem IsOrth.tmul {A : Mat3 ℝ} (h : IsOrth A) : A.transpose.mul A = Mat3.one := mul_eq_one_comm h
theorem IsOrth.transpose {A : Mat3 ℝ} (h : IsOrth A) : IsOrth A.transpose := by
  unfold IsOrth; rw [transpose_transpose]; exact h.tmul
theorem IsOrth.mul {A B : Mat3 ℝ} (hA : IsOrth A) (hB : IsOrth B) : IsOrth (A.mul B) := by
  unfold IsOrth at *
  rw [transpose_mul, mul_assoc', ← mul_assoc' B, hB, one_mul', hA]
theorem IsOrth.det_sq {A : Mat3 ℝ} (h : IsOrth A) : A.det * A.det = 1 := by
  have := congrArg Mat3.det h
  rwa [det_mul, det_transpose, det_one] at this
theorem IsOrth.det_cases {A : Mat3 ℝ} (h : IsOrth A) : A.det = 1 ∨ A.det = -1 := by
  have h2 := h.det_sq
  have : (A.det - 1) * (A.det + 1) = 0 := by ring_nf; linarith
  rcases mul_eq_zero.mp this with h1 | h1
  · left; linarith
  · right; linarith
theorem isOrth_one : IsOrth (Mat3.one : Mat3 ℝ) := by unfold IsOrth; rw [transpose_one, one_mul']
theorem IsOrth.neg {A : Mat3 ℝ} (h : IsOrth A) : IsOrth A.neg := by
  unfold IsOrth at *
  have : A.neg.mul A.neg.transpose = A.mul A.transpose := by mat3_ext <;> lie_unfold <;> ring
  rw [this, h]

/-- `‖A v‖² = ‖v‖²` for orthogonal `A` -/
theorem IsOrth.normSq_mulVec {A : Mat3 ℝ} (h : IsOrth A) (v : Vec3 ℝ) : (A.mulVec v).normSq = v.normSq := by
  have h' := h.tmul
  have e : ∀ M : Mat3 ℝ, M = Mat3.one →
      v.x * (M.r0.dot v) + v.y * (M.r1.dot v) + v.z * (M.r2.dot v) = v.normSq := by
    intro M hM; rw [hM]; lie_unfold; ring
  rw [← e _ h']; lie_unfold; ring

/-- every entry of an orthogonal matrix is at most 1 (diagonal ones are what is needed) -/
theorem IsOrth.diag_le {A : Mat3 ℝ} (h : IsOrth A) : A.r0.x ≤ 1 ∧ A.r1.y ≤ 1 ∧ A.r2.z ≤ 1 ∧
    -1 ≤ A.r0.x ∧ -1 ≤ A.r1.y ∧ -1 ≤ A.r2.z := by
  have h00 := congrArg (fun M : Mat3 ℝ => M.r0.x) h
  have h11 := congrArg (fun M : Mat3 ℝ => M.r1.y) h
  have h22 := congrArg (fun M : Mat3 ℝ => M.r2.z) h
  revert h00 h11 h22; lie_unfold; intro h00 h11 h22
  refine ⟨?_, ?_, ?_, ?_, ?_, ?_⟩ <;> nlinarith [sq_nonneg (A.r0.x), sq_nonneg (A.r0.y), sq_nonneg (A.r0.z),
    sq_nonneg (A.r1.x), sq_nonneg (A.r1.y), sq_nonneg (A.r1.z), sq_nonneg (A.r2.x), sq_nonneg (A.r2.y),
    sq_nonneg (A.r2.z), sq_nonneg (A.r0.x - 1), sq_nonneg (A.r1.y - 1), sq_nonneg (A.r2.z - 1),
    sq_nonneg (A.r0.x + 1), sq_nonneg (A.r1.y + 1), sq_nonneg (A.r2.z + 1)]

/-- for a rotation the adjugate is the transpose (every entry equals its cofactor) -/
theorem IsRot.adjugate_eq {A : Mat3 ℝ} (h : IsRot A) : A.adjugate = A.transpose := by
  have h1 : A.transpose.mul A = Mat3.one := IsOrth.tmul h.1
  calc A.adjugate = (A.transpose.mul A).mul A.adjugate := by rw [h1, one_mul']
    _ = A.transpose.mul (A.mul A.adjugate) := mul_assoc' _ _ _
    _ = A.transpose := by rw [mul_adjugate, h.2, one_smul', mul_one']

end Mat3
/-! ## every proper rotation matrix is the matrix of a unit quaternion -/

/-- the 21 polynomial relations among the entries `(a b c / d e f / g h i)` of a proper rotation matrix:
rows orthonormal, columns orthonormal, every entry equals its cofactor -/
structure RotEqs (a b c d e f g h i : ℝ) : Prop where
  hr00 : a*a + b*b + c*c = 1
  hr01 : a*d + b*e + c*f = 0
  hr02 : a*g + b*h + c*i = 0
  hr11 : d*d + e*e + f*f = 1
  hr12 : d*g + e*h + f*i = 0
  hr22 : g*g + h*h + i*i = 1
  hc00 : a*a + d*d + g*g = 1
  hc01 : a*b + d*e + g*h = 0
  hc02 : a*c + d*f + g*i = 0
  hc11 : b*b + e*e + h*h = 1
  hc12 : b*c + e*f + h*i = 0
  hc22 : c*c + f*f + i*i = 1
  ha00 : e*i - f*h = a
  ha01 : c*h - b*i = d
  ha02 : b*f - c*e = g
  ha10 : f*g - d*i = b
  ha11 : a*i - c*g = e
  ha12 : c*d - a*f = h
  ha20 : d*h - e*g = c
  ha21 : b*g - a*h = f
  ha22 : a*e - b*d = i

theorem Mat3.IsRot.rotEqs {R : Mat3 ℝ} (h : Mat3.IsRot R) :
    RotEqs R.r0.x R.r0.y R.r0.z R.r1.x R.r1.y R.r1.z R.r2.x R.r2.y R.r2.z := by
  have hr := h.1
  have hc := Mat3.IsOrth.tmul h.1
  have ha := h.adjugate_eq

  have e : ∀ (A B : Mat3 ℝ), A = B → A.r0.x = B.r0.x ∧ A.r0.y = B.r0.y ∧ A.r0.z = B.r0.z ∧ A.r1.x = B.r1.x ∧
      A.r1.y = B.r1.y ∧ A.r1.z = B.r1.z ∧ A.r2.x = B.r2.x ∧ A.r2.y = B.r2.y ∧ A.r2.z = B.r2.z := by
    intro A B hAB; subst hAB; simp
  obtain ⟨r00, r01, r02, -, r11, r12, -, -, r22⟩ := e _ _ hr
  obtain ⟨c00, c01, c02, -, c11, c12, -, -, c22⟩ := e _ _ hc
  obtain ⟨a00, a01, a02, a10, a11, a12, a20, a21, a22⟩ := e _ _ ha
  revert r00 r01 r02 r11 r12 r22 c00 c01 c02 c11 c12 c22 a00 a01 a02 a10 a11 a12 a20 a21 a22
  lie_unfold
  intro r00 r01 r02 r11 r12 r22 c00 c01 c02 c11 c12 c22 a00 a01 a02 a10 a11 a12 a20 a21 a22
  constructor <;> linarith


/-- a quaternion whose ten pairwise products are the entries of `K(R)/4` is a unit quaternion with matrix `R` -/
theorem quat_of_products (R : Mat3 ℝ) (p : Quat ℝ)
    (hxx : 4 * (p.x * p.x) = 1 + R.r0.x - R.r1.y - R.r2.z) (hyy : 4 * (p.y * p.y) = 1 - R.r0.x + R.r1.y - R.r2.z)
    (hzz : 4 * (p.z * p.z) = 1 - R.r0.x - R.r1.y + R.r2.z) (hww : 4 * (p.w * p.w) = 1 + R.r0.x + R.r1.y + R.r2.z)
    (hxy : 4 * (p.x * p.y) = R.r0.y + R.r1.x) (hxz : 4 * (p.x * p.z) = R.r0.z + R.r2.x)
    (hyz : 4 * (p.y * p.z) = R.r1.z + R.r2.y) (hwx : 4 * (p.w * p.x) = R.r2.y - R.r1.z)
    (hwy : 4 * (p.w * p.y) = R.r0.z - R.r2.x) (hwz : 4 * (p.w * p.z) = R.r1.x - R.r0.y) :
    p.normSq = 1 ∧ SO3matrix p = R := by
  constructor
  · lie_unfold; linarith
  · unfold SO3matrix; mat3_ext <;> lie_unfold <;> linarith

/-- products of the components of `Cand.toQuat` -/
theorem Cand.toQuat_products (c : Cand ℝ) (ht : 0 < c.t) (p : Quat ℝ) (hp : c.toQuat = p) :
    4 * c.t * (p.x * p.x) = c.x * c.x ∧ 4 * c.t * (p.y * p.y) = c.y * c.y ∧ 4 * c.t * (p.z * p.z) = c.z * c.z ∧
    4 * c.t * (p.w * p.w) = c.w * c.w ∧ 4 * c.t * (p.x * p.y) = c.x * c.y ∧ 4 * c.t * (p.x * p.z) = c.x * c.z ∧
    4 * c.t * (p.y * p.z) = c.y * c.z ∧ 4 * c.t * (p.w * p.x) = c.w * c.x ∧ 4 * c.t * (p.w * p.y) = c.w * c.y ∧
    4 * c.t * (p.w * p.z) = c.w * c.z := by
  subst hp
  have hs : c.t = Real.sqrt c.t * Real.sqrt c.t := (Real.mul_self_sqrt ht.le).symm
  have hs0 : Real.sqrt c.t ≠ 0 := (Real.sqrt_pos.mpr ht).ne'
  simp only [Cand.toQuat, sqrt_real, k_real, Nat.cast_ofNat]
  generalize Real.sqrt c.t = s at hs hs0 ⊢
  rw [hs]
  refine ⟨?_, ?_, ?_, ?_, ?_, ?_, ?_, ?_, ?_, ?_⟩ <;> field_simp <;> ring

/-- the selected `t_i` is positive for *any* matrix as soon as `|atol| < 1` -/
theorem selected_t_pos (atol : ℝ) (ha : |atol| < 1) (T : Mat3 ℝ) : 0 < (candOf T (mat2SO3Region atol T)).t := by
  have h1 := (abs_lt.mp ha).1
  have h2 := (abs_lt.mp ha).2
  simp only [mat2SO3Region, lt_real]
  by_cases c2 : T.r2.z < atol
  · by_cases c01 : T.r1.y < T.r0.x
    · simp only [c2, c01, decide_true, ↓reduceIte, candOf, cand0, k_real, Nat.cast_one]; linarith
    · simp only [c2, c01, decide_true, decide_false, ↓reduceIte, Bool.false_eq_true, candOf, cand1, k_real,
        Nat.cast_one]; linarith
  · by_cases c0n1 : T.r0.x < -T.r1.y
    · simp only [c2, c0n1, decide_true, decide_false, ↓reduceIte, Bool.false_eq_true, candOf, cand2, k_real,
        Nat.cast_one]; linarith
    · simp only [c2, c0n1, decide_false, ↓reduceIte, Bool.false_eq_true, candOf, cand3, k_real, Nat.cast_one]
      linarith

/-! ### the 2×2 minors of `K(R)` vanish (generated from sympy certificates: constant-coefficient combinations of `RotEqs`) -/
namespace RotEqs
variable {a b c d e f g h i : ℝ}
theorem m_x_yy (H : RotEqs a b c d e f g h i) : (b + d) * (b + d) = (1 + a - e - i) * (1 - a + e - i) := by
  linear_combination (1) * H.hc00 + (1) * H.hc11 + (-1) * H.hr22 + (-2) * H.ha22
theorem m_x_yz (H : RotEqs a b c d e f g h i) : (b + d) * (c + g) = (1 + a - e - i) * (f + h) := by
  linear_combination (1) * H.hr12 + (1) * H.hc12 + (1) * H.ha12 + (1) * H.ha21
theorem m_x_yw (H : RotEqs a b c d e f g h i) : (b + d) * (h - f) = (1 + a - e - i) * (c - g) := by
  linear_combination (1) * H.hr02 + (-1) * H.hc02 + (-1) * H.ha02 + (1) * H.ha20
theorem m_x_zz (H : RotEqs a b c d e f g h i) : (c + g) * (c + g) = (1 + a - e - i) * (1 - a - e + i) := by
  linear_combination (1) * H.hr00 + (-1) * H.hc11 + (1) * H.hr22 + (-2) * H.ha11
theorem m_x_zw (H : RotEqs a b c d e f g h i) : (c + g) * (h - f) = (1 + a - e - i) * (d - b) := by
  linear_combination (-1) * H.hr01 + (1) * H.hc01 + (1) * H.ha01 + (-1) * H.ha10
theorem m_x_ww (H : RotEqs a b c d e f g h i) : (h - f) * (h - f) = (1 + a - e - i) * (1 + a + e + i) := by
  linear_combination (-1) * H.hc00 + (1) * H.hr11 + (1) * H.hr22 + (2) * H.ha00
theorem m_y_xx (H : RotEqs a b c d e f g h i) : (b + d) * (b + d) = (1 - a + e - i) * (1 + a - e - i) := by
  linear_combination (1) * H.hc00 + (1) * H.hc11 + (-1) * H.hr22 + (-2) * H.ha22
theorem m_y_xz (H : RotEqs a b c d e f g h i) : (b + d) * (f + h) = (1 - a + e - i) * (c + g) := by
  linear_combination (1) * H.hr02 + (1) * H.hc02 + (1) * H.ha02 + (1) * H.ha20
theorem m_y_xw (H : RotEqs a b c d e f g h i) : (b + d) * (c - g) = (1 - a + e - i) * (h - f) := by
  linear_combination (-1) * H.hr12 + (1) * H.hc12 + (1) * H.ha12 + (-1) * H.ha21
theorem m_y_zz (H : RotEqs a b c d e f g h i) : (f + h) * (f + h) = (1 - a + e - i) * (1 - a - e + i) := by
  linear_combination (-1) * H.hc00 + (1) * H.hr11 + (1) * H.hr22 + (-2) * H.ha00
theorem m_y_zw (H : RotEqs a b c d e f g h i) : (f + h) * (c - g) = (1 - a + e - i) * (d - b) := by
  linear_combination (1) * H.hr01 + (-1) * H.hc01 + (1) * H.ha01 + (-1) * H.ha10
theorem m_y_ww (H : RotEqs a b c d e f g h i) : (c - g) * (c - g) = (1 - a + e - i) * (1 + a + e + i) := by
  linear_combination (1) * H.hr00 + (-1) * H.hc11 + (1) * H.hr22 + (2) * H.ha11
theorem m_z_xx (H : RotEqs a b c d e f g h i) : (c + g) * (c + g) = (1 - a - e + i) * (1 + a - e - i) := by
  linear_combination (1) * H.hr00 + (-1) * H.hc11 + (1) * H.hr22 + (-2) * H.ha11
theorem m_z_xy (H : RotEqs a b c d e f g h i) : (c + g) * (f + h) = (1 - a - e + i) * (b + d) := by
  linear_combination (1) * H.hr01 + (1) * H.hc01 + (1) * H.ha01 + (1) * H.ha10
theorem m_z_xw (H : RotEqs a b c d e f g h i) : (c + g) * (d - b) = (1 - a - e + i) * (h - f) := by
  linear_combination (1) * H.hr12 + (-1) * H.hc12 + (1) * H.ha12 + (-1) * H.ha21
theorem m_z_yy (H : RotEqs a b c d e f g h i) : (f + h) * (f + h) = (1 - a - e + i) * (1 - a + e - i) := by
  linear_combination (-1) * H.hc00 + (1) * H.hr11 + (1) * H.hr22 + (-2) * H.ha00
theorem m_z_yw (H : RotEqs a b c d e f g h i) : (f + h) * (d - b) = (1 - a - e + i) * (c - g) := by
  linear_combination (-1) * H.hr02 + (1) * H.hc02 + (-1) * H.ha02 + (1) * H.ha20
theorem m_z_ww (H : RotEqs a b c d e f g h i) : (d - b) * (d - b) = (1 - a - e + i) * (1 + a + e + i) := by
  linear_combination (1) * H.hc00 + (1) * H.hc11 + (-1) * H.hr22 + (2) * H.ha22
theorem m_w_xx (H : RotEqs a b c d e f g h i) : (h - f) * (h - f) = (1 + a + e + i) * (1 + a - e - i) := by
  linear_combination (-1) * H.hc00 + (1) * H.hr11 + (1) * H.hr22 + (2) * H.ha00
theorem m_w_xy (H : RotEqs a b c d e f g h i) : (h - f) * (c - g) = (1 + a + e + i) * (b + d) := by
  linear_combination (-1) * H.hr01 + (-1) * H.hc01 + (1) * H.ha01 + (1) * H.ha10
theorem m_w_xz (H : RotEqs a b c d e f g h i) : (h - f) * (d - b) = (1 + a + e + i) * (c + g) := by
  linear_combination (-1) * H.hr02 + (-1) * H.hc02 + (1) * H.ha02 + (1) * H.ha20
theorem m_w_yy (H : RotEqs a b c d e f g h i) : (c - g) * (c - g) = (1 + a + e + i) * (1 - a + e - i) := by
  linear_combination (1) * H.hr00 + (-1) * H.hc11 + (1) * H.hr22 + (2) * H.ha11
theorem m_w_yz (H : RotEqs a b c d e f g h i) : (c - g) * (d - b) = (1 + a + e + i) * (f + h) := by
  linear_combination (-1) * H.hr12 + (-1) * H.hc12 + (1) * H.ha12 + (1) * H.ha21
theorem m_w_zz (H : RotEqs a b c d e f g h i) : (d - b) * (d - b) = (1 + a + e + i) * (1 - a - e + i) := by
  linear_combination (1) * H.hc00 + (1) * H.hc11 + (-1) * H.hr22 + (2) * H.ha22
end RotEqs

theorem cand0_quat (R : Mat3 ℝ) (hR : Mat3.IsRot R) (ht : 0 < (cand0 R.transpose).t) :
    ((cand0 R.transpose).toQuat : Quat ℝ).normSq = 1 ∧ SO3matrix ((cand0 R.transpose).toQuat : Quat ℝ) = R := by
  have H := hR.rotEqs
  generalize hp : ((cand0 R.transpose).toQuat : Quat ℝ) = p
  obtain ⟨pxx, pyy, pzz, pww, pxy, pxz, pyz, pwx, pwy, pwz⟩ := Cand.toQuat_products (cand0 R.transpose) ht p hp
  have ht0 := ht.ne'
  simp only [cand0, Mat3.transpose, Mat3.c0, Mat3.c1, Mat3.c2, k_real, Nat.cast_one] at pxx pyy pzz pww pxy pxz pyz pwx pwy pwz ht0
  apply quat_of_products R
  · apply mul_left_cancel₀ ht0; linear_combination pxx
  · apply mul_left_cancel₀ ht0; linear_combination pyy + H.m_x_yy
  · apply mul_left_cancel₀ ht0; linear_combination pzz + H.m_x_zz
  · apply mul_left_cancel₀ ht0; linear_combination pww + H.m_x_ww
  · apply mul_left_cancel₀ ht0; linear_combination pxy
  · apply mul_left_cancel₀ ht0; linear_combination pxz
  · apply mul_left_cancel₀ ht0; linear_combination pyz + H.m_x_yz
  · apply mul_left_cancel₀ ht0; linear_combination pwx
  · apply mul_left_cancel₀ ht0; linear_combination pwy + H.m_x_yw
  · apply mul_left_cancel₀ ht0; linear_combination pwz + H.m_x_zw

theorem cand1_quat (R : Mat3 ℝ) (hR : Mat3.IsRot R) (ht : 0 < (cand1 R.transpose).t) :
    ((cand1 R.transpose).toQuat : Quat ℝ).normSq = 1 ∧ SO3matrix ((cand1 R.transpose).toQuat : Quat ℝ) = R := by
  have H := hR.rotEqs
  generalize hp : ((cand1 R.transpose).toQuat : Quat ℝ) = p
  obtain ⟨pxx, pyy, pzz, pww, pxy, pxz, pyz, pwx, pwy, pwz⟩ := Cand.toQuat_products (cand1 R.transpose) ht p hp
  have ht0 := ht.ne'
  simp only [cand1, Mat3.transpose, Mat3.c0, Mat3.c1, Mat3.c2, k_real, Nat.cast_one] at pxx pyy pzz pww pxy pxz pyz pwx pwy pwz ht0
  apply quat_of_products R
  · apply mul_left_cancel₀ ht0; linear_combination pxx + H.m_y_xx
  · apply mul_left_cancel₀ ht0; linear_combination pyy
  · apply mul_left_cancel₀ ht0; linear_combination pzz + H.m_y_zz
  · apply mul_left_cancel₀ ht0; linear_combination pww + H.m_y_ww
  · apply mul_left_cancel₀ ht0; linear_combination pxy
  · apply mul_left_cancel₀ ht0; linear_combination pxz + H.m_y_xz
  · apply mul_left_cancel₀ ht0; linear_combination pyz
  · apply mul_left_cancel₀ ht0; linear_combination pwx + H.m_y_xw
  · apply mul_left_cancel₀ ht0; linear_combination pwy
  · apply mul_left_cancel₀ ht0; linear_combination pwz + H.m_y_zw

theorem cand2_quat (R : Mat3 ℝ) (hR : Mat3.IsRot R) (ht : 0 < (cand2 R.transpose).t) :
    ((cand2 R.transpose).toQuat : Quat ℝ).normSq = 1 ∧ SO3matrix ((cand2 R.transpose).toQuat : Quat ℝ) = R := by
  have H := hR.rotEqs
  generalize hp : ((cand2 R.transpose).toQuat : Quat ℝ) = p
  obtain ⟨pxx, pyy, pzz, pww, pxy, pxz, pyz, pwx, pwy, pwz⟩ := Cand.toQuat_products (cand2 R.transpose) ht p hp
  have ht0 := ht.ne'
  simp only [cand2, Mat3.transpose, Mat3.c0, Mat3.c1, Mat3.c2, k_real, Nat.cast_one] at pxx pyy pzz pww pxy pxz pyz pwx pwy pwz ht0
  apply quat_of_products R
  · apply mul_left_cancel₀ ht0; linear_combination pxx + H.m_z_xx
  · apply mul_left_cancel₀ ht0; linear_combination pyy + H.m_z_yy
  · apply mul_left_cancel₀ ht0; linear_combination pzz
  · apply mul_left_cancel₀ ht0; linear_combination pww + H.m_z_ww
  · apply mul_left_cancel₀ ht0; linear_combination pxy + H.m_z_xy
  · apply mul_left_cancel₀ ht0; linear_combination pxz
  · apply mul_left_cancel₀ ht0; linear_combination pyz
  · apply mul_left_cancel₀ ht0; linear_combination pwx + H.m_z_xw
  · apply mul_left_cancel₀ ht0; linear_combination pwy + H.m_z_yw
  · apply mul_left_cancel₀ ht0; linear_combination pwz

theorem cand3_quat (R : Mat3 ℝ) (hR : Mat3.IsRot R) (ht : 0 < (cand3 R.transpose).t) :
    ((cand3 R.transpose).toQuat : Quat ℝ).normSq = 1 ∧ SO3matrix ((cand3 R.transpose).toQuat : Quat ℝ) = R := by
  have H := hR.rotEqs
  generalize hp : ((cand3 R.transpose).toQuat : Quat ℝ) = p
  obtain ⟨pxx, pyy, pzz, pww, pxy, pxz, pyz, pwx, pwy, pwz⟩ := Cand.toQuat_products (cand3 R.transpose) ht p hp
  have ht0 := ht.ne'
  simp only [cand3, Mat3.transpose, Mat3.c0, Mat3.c1, Mat3.c2, k_real, Nat.cast_one] at pxx pyy pzz pww pxy pxz pyz pwx pwy pwz ht0
  apply quat_of_products R
  · apply mul_left_cancel₀ ht0; linear_combination pxx + H.m_w_xx
  · apply mul_left_cancel₀ ht0; linear_combination pyy + H.m_w_yy
  · apply mul_left_cancel₀ ht0; linear_combination pzz + H.m_w_zz
  · apply mul_left_cancel₀ ht0; linear_combination pww
  · apply mul_left_cancel₀ ht0; linear_combination pxy + H.m_w_xy
  · apply mul_left_cancel₀ ht0; linear_combination pxz + H.m_w_xz
  · apply mul_left_cancel₀ ht0; linear_combination pyz + H.m_w_yz
  · apply mul_left_cancel₀ ht0; linear_combination pwx
  · apply mul_left_cancel₀ ht0; linear_combination pwy
  · apply mul_left_cancel₀ ht0; linear_combination pwz

/-- **Every proper rotation matrix is the matrix of the unit quaternion that the code's conversion returns**
(for any mask threshold `|atol| < 1`): `mat2SO3(R, check=False)` is a unit quaternion with `matrix() = R`. -/
theorem mat2SO3Raw_of_rotation (R : Mat3 ℝ) (hR : Mat3.IsRot R) (atol : ℝ) (ha : |atol| < 1) :
    (mat2SO3Raw atol R).normSq = 1 ∧ SO3matrix (mat2SO3Raw atol R) = R := by
  have ht := selected_t_pos atol ha R.transpose
  show ((candOf R.transpose (mat2SO3Region atol R.transpose)).toQuat : Quat ℝ).normSq = 1 ∧
    SO3matrix ((candOf R.transpose (mat2SO3Region atol R.transpose)).toQuat : Quat ℝ) = R
  generalize mat2SO3Region atol R.transpose = r at ht ⊢
  match r with
  | 0 => exact cand0_quat R hR ht
  | 1 => exact cand1_quat R hR ht
  | 2 => exact cand2_quat R hR ht
  | (n+3) => exact cand3_quat R hR ht

/-- surjectivity of `q ↦ R(q)` onto the proper rotations -/
theorem exists_quat_of_rotation (R : Mat3 ℝ) (hR : Mat3.IsRot R) : ∃ p : Quat ℝ, p.normSq = 1 ∧ SO3matrix p = R :=
  ⟨mat2SO3Raw 0 R, mat2SO3Raw_of_rotation R hR 0 (by simp)⟩

/-- the matrix of a unit quaternion is a proper rotation -/
theorem isRot_SO3matrix (p : Quat ℝ) (h : p.normSq = 1) : Mat3.IsRot (SO3matrix p) :=
  ⟨rot_orthogonal p h, rot_det p h⟩

/-- `R(q) v = q.act v` -/
theorem SO3matrix_mulVec (p : Quat ℝ) (v : Vec3 ℝ) : (SO3matrix p).mulVec v = p.act v := by
  unfold SO3matrix; apply Vec3.ext' <;> lie_unfold <;> ring


open Align

/-! ## the trace inequality behind Kabsch / Umeyama -/

theorem Mat3.IsRot.trace_ge {P : Mat3 ℝ} (h : Mat3.IsRot P) : -1 ≤ P.trace := by
  have H := h.rotEqs
  -- 4·t₃ = t₃² + ‖antisymmetric part‖²  with t₃ = 1 + tr P
  have key : 4 * (1 + P.r0.x + P.r1.y + P.r2.z) = (1 + P.r0.x + P.r1.y + P.r2.z) ^ 2 + (P.r2.y - P.r1.z) ^ 2
      + (P.r0.z - P.r2.x) ^ 2 + (P.r1.x - P.r0.y) ^ 2 := by
    linear_combination (-1 : ℝ) * H.hr00 + (-1 : ℝ) * H.hr11 + (-1 : ℝ) * H.hr22 + (-2 : ℝ) * H.ha00
      + (-2 : ℝ) * H.ha11 + (-2 : ℝ) * H.ha22
  simp only [Mat3.trace]
  nlinarith [sq_nonneg (1 + P.r0.x + P.r1.y + P.r2.z), sq_nonneg (P.r2.y - P.r1.z), sq_nonneg (P.r0.z - P.r2.x),
    sq_nonneg (P.r1.x - P.r0.y)]

theorem Mat3.trace_neg (A : Mat3 ℝ) : A.neg.trace = -A.trace := by lie_unfold; ring

/-- an orthogonal matrix with determinant `-1` has trace `≤ 1` -/
theorem Mat3.IsOrth.trace_le_of_det_neg {Q : Mat3 ℝ} (h : Mat3.IsOrth Q) (hd : Q.det = -1) : Q.trace ≤ 1 := by
  have hP : Mat3.IsRot Q.neg := ⟨h.neg, by rw [Mat3.det_neg, hd]; ring⟩
  have := hP.trace_ge
  rw [Mat3.trace_neg] at this
  linarith

/-- **von Neumann / Kabsch trace inequality, 3×3**: for orthogonal `Q` and `s₁ ≥ s₂ ≥ s₃ ≥ 0`,
`Σ Q_ii s_i ≤ s₁ + s₂ + det(Q)·s₃`. -/
theorem kabsch_ineq (Q : Mat3 ℝ) (hQ : Mat3.IsOrth Q) (s : Vec3 ℝ) (h12 : s.y ≤ s.x) (h23 : s.z ≤ s.y)
    (h3 : 0 ≤ s.z) : Q.r0.x * s.x + Q.r1.y * s.y + Q.r2.z * s.z ≤ s.x + s.y + Q.det * s.z := by
  obtain ⟨a1, a2, a3, b1, b2, b3⟩ := hQ.diag_le
  rcases hQ.det_cases with hd | hd
  · rw [hd]; nlinarith [mul_nonneg (sub_nonneg.mpr a1) (le_trans h3 (le_trans h23 h12)),
      mul_nonneg (sub_nonneg.mpr a2) (le_trans h3 h23), mul_nonneg (sub_nonneg.mpr a3) h3]
  · have ht := hQ.trace_le_of_det_neg hd
    simp only [Mat3.trace] at ht
    rw [hd]
    nlinarith [mul_nonneg (sub_nonneg.mpr a1) (sub_nonneg.mpr (le_trans h23 h12)),
      mul_nonneg (sub_nonneg.mpr a2) (sub_nonneg.mpr h23), mul_nonneg (sub_nonneg.mpr ht) h3]

/-- pairing with an SVD: `⟨R, U diag(s) Vh⟩ = Σ (Uᵀ R Vhᵀ)_ii s_i` (no orthogonality needed) -/
theorem frob_svd (R U Vh : Mat3 ℝ) (s : Vec3 ℝ) :
    Mat3.frob R ((U.mul (diag3 s)).mul Vh) =
      ((U.transpose.mul R).mul Vh.transpose).r0.x * s.x + ((U.transpose.mul R).mul Vh.transpose).r1.y * s.y
        + ((U.transpose.mul R).mul Vh.transpose).r2.z * s.z := by
  simp only [Mat3.frob, diag3]; lie_unfold; ring

/-- the SVD contract at one matrix -/
structure SVDOk (M : Mat3 ℝ) (d : SVD3 ℝ) : Prop where
  recon : (d.U.mul (diag3 d.S)).mul d.Vh = M
  orthU : Mat3.IsOrth d.U
  orthV : Mat3.IsOrth d.Vh
  s12 : d.S.y ≤ d.S.x
  s23 : d.S.z ≤ d.S.y
  s3 : 0 ≤ d.S.z

theorem flipLastCol_eq (U : Mat3 ℝ) : flipLastCol U = U.mul (diag3 ⟨1, 1, -1⟩) := by
  simp only [flipLastCol, diag3]; mat3_ext <;> lie_unfold <;> ring

theorem isOrth_diagF : Mat3.IsOrth (diag3 (⟨1, 1, -1⟩ : Vec3 ℝ)) := by
  simp only [Mat3.IsOrth, diag3]; mat3_ext <;> lie_unfold <;> ring

theorem det_diag3 (s : Vec3 ℝ) : (diag3 s).det = s.x * s.y * s.z := by
  simp only [diag3]; lie_unfold; ring

/-- the rotation chosen by `svdtf` for given SVD factors: `U'·Vh`, last column of `U` negated iff `det(U Vh) < 0` -/
noncomputable def rotOf (d : SVD3 ℝ) : Mat3 ℝ :=
  (if (d.U.mul d.Vh).det < 0 then flipLastCol d.U else d.U).mul d.Vh

theorem svdtfRot_eq (svd : Mat3 ℝ → SVD3 ℝ) (detK : Mat3 ℝ → ℝ) (hdet : ∀ M, detK M = M.det) (M : Mat3 ℝ) :
    svdtfRot svd detK M = rotOf (svd M) := by
  simp only [svdtfRot, rotOf, hdet, lt_real, k_real, Nat.cast_zero, decide_eq_true_eq]

/-- `rotOf` is a proper rotation (whatever the sign of `det(U Vh)`) -/
theorem rotOf_isRot (d : SVD3 ℝ) (hU : Mat3.IsOrth d.U) (hV : Mat3.IsOrth d.Vh) : Mat3.IsRot (rotOf d) := by
  have hUV := hU.mul hV
  unfold rotOf
  split_ifs with hneg
  · rw [flipLastCol_eq]
    refine ⟨(hU.mul isOrth_diagF).mul hV, ?_⟩
    rcases hUV.det_cases with h1 | h1
    · rw [h1] at hneg; norm_num at hneg
    · rw [Mat3.det_mul] at h1
      rw [Mat3.det_mul, Mat3.det_mul, det_diag3]; simp only []; linarith
  · refine ⟨hUV, ?_⟩
    rcases hUV.det_cases with h1 | h1
    · exact h1
    · rw [h1] at hneg; norm_num at hneg

/-- value of the pairing at the chosen rotation: `s₁ + s₂ + det(U Vh)·s₃` -/
theorem frob_rotOf (M : Mat3 ℝ) (d : SVD3 ℝ) (h : SVDOk M d) :
    Mat3.frob (rotOf d) M = d.S.x + d.S.y + (d.U.mul d.Vh).det * d.S.z := by
  have hU := h.orthU.tmul
  have hV : d.Vh.mul d.Vh.transpose = Mat3.one := h.orthV
  have hUV := h.orthU.mul h.orthV
  conv_lhs => rw [← h.recon]
  rw [frob_svd]
  unfold rotOf
  split_ifs with hneg
  · have hd : (d.U.mul d.Vh).det = -1 := by
      rcases hUV.det_cases with h1 | h1
      · rw [h1] at hneg; norm_num at hneg
      · exact h1
    have : (d.U.transpose.mul ((flipLastCol d.U).mul d.Vh)).mul d.Vh.transpose = diag3 ⟨1, 1, -1⟩ := by
      rw [flipLastCol_eq, Mat3.mul_assoc', Mat3.mul_assoc', Mat3.mul_assoc', hV, Mat3.mul_one', ← Mat3.mul_assoc',
        hU, Mat3.one_mul']
    rw [this, hd]; simp only [diag3]; ring
  · have hd : (d.U.mul d.Vh).det = 1 := by
      rcases hUV.det_cases with h1 | h1
      · exact h1
      · rw [h1] at hneg; norm_num at hneg
    have : (d.U.transpose.mul (d.U.mul d.Vh)).mul d.Vh.transpose = Mat3.one := by
      rw [Mat3.mul_assoc', Mat3.mul_assoc', hV, Mat3.mul_one', hU]
    rw [this, hd]; lie_unfold; ring

/-- **the chosen rotation maximises `⟨R, M⟩` over all proper rotations** -/
theorem frob_le_rotOf (M : Mat3 ℝ) (d : SVD3 ℝ) (h : SVDOk M d) (R' : Mat3 ℝ) (hR' : Mat3.IsRot R') :
    Mat3.frob R' M ≤ Mat3.frob (rotOf d) M := by
  rw [frob_rotOf M d h]
  conv_lhs => rw [← h.recon]
  rw [frob_svd]
  have hQ : Mat3.IsOrth ((d.U.transpose.mul R').mul d.Vh.transpose) :=
    (h.orthU.transpose.mul hR'.1).mul h.orthV.transpose
  have hdet : ((d.U.transpose.mul R').mul d.Vh.transpose).det = (d.U.mul d.Vh).det := by
    rw [Mat3.det_mul, Mat3.det_mul, Mat3.det_mul, Mat3.det_transpose, Mat3.det_transpose, hR'.2]; ring
  have := kabsch_ineq _ hQ d.S h.s12 h.s23 h.s3
  rw [hdet] at this
  exact this


/-! ## sums over clouds -/
namespace Align

@[simp] theorem ssum_nil : ssum ([] : List ℝ) = 0 := by simp [ssum]
@[simp] theorem ssum_cons (x : ℝ) (xs : List ℝ) : ssum (x :: xs) = x + ssum xs := rfl
@[simp] theorem vsum_nil : vsum ([] : Cloud ℝ) = Vec3.zero := rfl
@[simp] theorem vsum_cons (p : Vec3 ℝ) (ps : Cloud ℝ) : vsum (p :: ps) = p.add (vsum ps) := rfl
@[simp] theorem msum_nil : msum ([] : List (Mat3 ℝ)) = Mat3.zero := rfl
@[simp] theorem msum_cons (m : Mat3 ℝ) (ms : List (Mat3 ℝ)) : msum (m :: ms) = m.add (msum ms) := rfl

theorem ssum_nonneg (xs : List ℝ) (h : ∀ x ∈ xs, 0 ≤ x) : 0 ≤ ssum xs := by
  induction xs with
  | nil => simp
  | cons x xs ih =>
    rw [ssum_cons]
    exact add_nonneg (h x (List.mem_cons_self ..)) (ih fun y hy => h y (List.mem_cons_of_mem _ hy))

theorem ssum_eq_zero (xs : List ℝ) (h : ∀ x ∈ xs, 0 ≤ x) (h0 : ssum xs = 0) : ∀ x ∈ xs, x = 0 := by
  induction xs with
  | nil => intro x hx; simp at hx
  | cons y ys ih =>
    have hy := h y (List.mem_cons_self ..)
    have hys := ssum_nonneg ys fun z hz => h z (List.mem_cons_of_mem _ hz)
    rw [ssum_cons] at h0
    intro x hx
    rcases List.mem_cons.mp hx with rfl | hx
    · linarith
    · exact ih (fun z hz => h z (List.mem_cons_of_mem _ hz)) (by linarith) x hx

theorem ssum_le_ssum {β : Type} (l : List β) (f g : β → ℝ) (h : ∀ b ∈ l, f b ≤ g b) :
    ssum (l.map f) ≤ ssum (l.map g) := by
  induction l with
  | nil => simp
  | cons b bs ih =>
    simp only [List.map_cons, ssum_cons]
    exact add_le_add (h b (List.mem_cons_self ..)) (ih fun c hc => h c (List.mem_cons_of_mem _ hc))

theorem ssum_map_mul {β : Type} (l : List β) (f : β → ℝ) (c : ℝ) :
    ssum (l.map fun b => c * f b) = c * ssum (l.map f) := by
  induction l with
  | nil => simp
  | cons b bs ih => simp only [List.map_cons, ssum_cons, ih]; ring

theorem normSq_nonneg (v : Vec3 ℝ) : 0 ≤ v.normSq := by
  simp only [Vec3.normSq]; nlinarith [mul_self_nonneg v.x, mul_self_nonneg v.y, mul_self_nonneg v.z]

theorem normSq_eq_zero (v : Vec3 ℝ) (h : v.normSq = 0) : v = Vec3.zero := by
  simp only [Vec3.normSq] at h
  have hx : v.x = 0 := by nlinarith [mul_self_nonneg v.x, mul_self_nonneg v.y, mul_self_nonneg v.z]
  have hy : v.y = 0 := by nlinarith [mul_self_nonneg v.x, mul_self_nonneg v.y, mul_self_nonneg v.z]
  have hz : v.z = 0 := by nlinarith [mul_self_nonneg v.x, mul_self_nonneg v.y, mul_self_nonneg v.z]
  apply Vec3.ext' <;> simp [Vec3.zero, hx, hy, hz]

theorem cost_nonneg (T : Vec3 ℝ → Vec3 ℝ) (ps : Pairs ℝ) : 0 ≤ cost T ps := by
  unfold cost; apply ssum_nonneg; intro x hx
  obtain ⟨p, _, rfl⟩ := List.mem_map.mp hx
  exact normSq_nonneg _

/-- zero cost ⇔ every correspondence is reproduced exactly -/
theorem cost_eq_zero_iff (T : Vec3 ℝ → Vec3 ℝ) (ps : Pairs ℝ) : cost T ps = 0 ↔ ∀ p ∈ ps, T p.1 = p.2 := by
  constructor
  · intro h p hp
    have := ssum_eq_zero _ (by
      intro x hx; obtain ⟨p, _, rfl⟩ := List.mem_map.mp hx; exact normSq_nonneg _) h
      (((T p.1).sub p.2).normSq) (List.mem_map.mpr ⟨p, hp, rfl⟩)
    have hz := normSq_eq_zero _ this
    have hx := congrArg Vec3.x hz; have hy := congrArg Vec3.y hz; have hz' := congrArg Vec3.z hz
    simp only [Vec3.sub, Vec3.zero, k_real, Nat.cast_zero] at hx hy hz'
    apply Vec3.ext' <;> linarith
  · intro h
    unfold cost
    have : ps.map (fun p => ((T p.1).sub p.2).normSq) = ps.map (fun _ => (0:ℝ)) := by
      apply List.map_congr_left; intro p hp; rw [h p hp]; lie_unfold; ring
    rw [this]
    clear this h
    induction ps with
    | nil => simp
    | cons p ps ih => simp only [List.map_cons, ssum_cons, ih]; ring

/-- `Σ (pᵢ − c) = Σ pᵢ − N c` -/
theorem vsum_map_sub (ps : Cloud ℝ) (c : Vec3 ℝ) :
    vsum (ps.map fun p => p.sub c) = (vsum ps).sub (c.smul (ps.length : ℝ)) := by
  induction ps with
  | nil => apply Vec3.ext' <;> simp [Vec3.sub, Vec3.smul, Vec3.zero]
  | cons p ps ih =>
    simp only [List.map_cons, vsum_cons, ih, List.length_cons, Nat.cast_succ]
    apply Vec3.ext' <;> lie_unfold <;> ring

/-- the centred cloud sums to zero (any length, including 0) -/
theorem vsum_sub_mean (ps : Cloud ℝ) : vsum (ps.map fun p => p.sub (mean ps)) = Vec3.zero := by
  rw [vsum_map_sub]
  cases ps with
  | nil => apply Vec3.ext' <;> simp [mean, Vec3.sub, Vec3.smul, Vec3.zero]
  | cons p ps =>
    have hN : ((List.length (p :: ps) : ℕ) : ℝ) ≠ 0 := by simp only [List.length_cons, Nat.cast_succ]; positivity
    simp only [mean, k_real, Nat.cast_one]
    apply Vec3.ext' <;> simp only [Vec3.sub, Vec3.smul, Vec3.zero, k_real, Nat.cast_zero] <;> field_simp <;> ring

theorem srcs_centered (ps : Pairs ℝ) : srcs (centered ps) = (srcs ps).map fun p => p.sub (mean (srcs ps)) := by
  simp only [srcs, centered, List.map_map]; rfl
theorem tgts_centered (ps : Pairs ℝ) : tgts (centered ps) = (tgts ps).map fun p => p.sub (mean (tgts ps)) := by
  simp only [tgts, centered, List.map_map]; rfl

theorem vsum_srcs_centered (ps : Pairs ℝ) : vsum (srcs (centered ps)) = Vec3.zero := by
  rw [srcs_centered]; exact vsum_sub_mean _
theorem vsum_tgts_centered (ps : Pairs ℝ) : vsum (tgts (centered ps)) = Vec3.zero := by
  rw [tgts_centered]; exact vsum_sub_mean _

/-- `Σ‖sᵢ‖²`, `Σ‖tᵢ‖²` -/
noncomputable def energyS (ps : Pairs ℝ) : ℝ := ssum (ps.map fun p => p.1.normSq)
noncomputable def energyT (ps : Pairs ℝ) : ℝ := ssum (ps.map fun p => p.2.normSq)

/-- shift: `Σ‖A sᵢ − tᵢ + d‖² = Σ‖A sᵢ − tᵢ‖² + 2 (A Σs − Σt)·d + N‖d‖²`, any matrix `A` -/
theorem cost_shift (A : Mat3 ℝ) (d : Vec3 ℝ) (qs : Pairs ℝ) :
    ssum (qs.map fun p => (((A.mulVec p.1).sub p.2).add d).normSq)
      = ssum (qs.map fun p => ((A.mulVec p.1).sub p.2).normSq)
        + 2 * ((A.mulVec (vsum (srcs qs))).sub (vsum (tgts qs))).dot d + (qs.length : ℝ) * d.normSq := by
  induction qs with
  | nil => simp [srcs, tgts]; lie_unfold; ring
  | cons p ps ih =>
    simp only [List.map_cons, ssum_cons, ih, srcs, tgts, vsum_cons, List.length_cons, Nat.cast_succ]
    simp only [srcs, tgts] at ih
    lie_unfold; ring

/-- expansion for an orthogonal matrix: `Σ‖R sᵢ − tᵢ‖² = Σ‖sᵢ‖² + Σ‖tᵢ‖² − 2⟨R, Σ tᵢ sᵢᵀ⟩` -/
theorem cost_expand (R : Mat3 ℝ) (hR : Mat3.IsOrth R) (qs : Pairs ℝ) :
    ssum (qs.map fun p => ((R.mulVec p.1).sub p.2).normSq)
      = energyS qs + energyT qs - 2 * Mat3.frob R (crossCov qs) := by
  induction qs with
  | nil => simp [energyS, energyT, crossCov, Mat3.frob]; lie_unfold; ring
  | cons p ps ih =>
    simp only [List.map_cons, ssum_cons, ih, energyS, energyT, crossCov, msum_cons]
    have h1 := hR.normSq_mulVec p.1
    have e : ((R.mulVec p.1).sub p.2).normSq = (R.mulVec p.1).normSq + p.2.normSq - 2 * (R.mulVec p.1).dot p.2 := by
      lie_unfold; ring
    rw [e, h1]
    simp only [Mat3.frob]; lie_unfold; ring

/-- scaled version (for `svdstf`): `Σ‖c R sᵢ − tᵢ‖² = c² Σ‖sᵢ‖² + Σ‖tᵢ‖² − 2c⟨R, Σ tᵢ sᵢᵀ⟩` -/
theorem cost_expand_scaled (R : Mat3 ℝ) (hR : Mat3.IsOrth R) (c : ℝ) (qs : Pairs ℝ) :
    ssum (qs.map fun p => (((Mat3.smul c R).mulVec p.1).sub p.2).normSq)
      = c * c * energyS qs + energyT qs - 2 * c * Mat3.frob R (crossCov qs) := by
  induction qs with
  | nil => simp only [List.map_nil, ssum_nil, energyS, energyT, crossCov, msum_nil, Mat3.frob]; lie_unfold; ring
  | cons p ps ih =>
    simp only [List.map_cons, ssum_cons, ih, energyS, energyT, crossCov, msum_cons]
    have h1 := hR.normSq_mulVec p.1
    have e : (((Mat3.smul c R).mulVec p.1).sub p.2).normSq
        = c * c * (R.mulVec p.1).normSq + p.2.normSq - 2 * c * (R.mulVec p.1).dot p.2 := by
      lie_unfold; ring
    rw [e, h1]
    simp only [Mat3.frob]; lie_unfold; ring

theorem length_centered (ps : Pairs ℝ) : (centered ps).length = ps.length := by simp [centered]

/-- **cost of an affine map `p ↦ A p + t` in centred coordinates** (any matrix `A`):
`cost = Σ‖A s̃ᵢ − t̃ᵢ‖² + N‖A c_s + t − c_t‖²` -/
theorem cost_affine_centered (A : Mat3 ℝ) (t : Vec3 ℝ) (ps : Pairs ℝ) :
    cost (affine A t) ps
      = ssum ((centered ps).map fun p => ((A.mulVec p.1).sub p.2).normSq)
        + (ps.length : ℝ) * (((A.mulVec (mean (srcs ps))).add t).sub (mean (tgts ps))).normSq := by
  have hshift := cost_shift A (((A.mulVec (mean (srcs ps))).add t).sub (mean (tgts ps))) (centered ps)
  rw [vsum_srcs_centered, vsum_tgts_centered, length_centered] at hshift
  have hz : ((A.mulVec Vec3.zero).sub Vec3.zero).dot
      (((A.mulVec (mean (srcs ps))).add t).sub (mean (tgts ps))) = 0 := by
    rw [Mat3.mulVec_zero]; lie_unfold; ring
  rw [hz] at hshift
  have hmap : (centered ps).map (fun p => (((A.mulVec p.1).sub p.2).add
        (((A.mulVec (mean (srcs ps))).add t).sub (mean (tgts ps)))).normSq)
      = ps.map (fun p => ((affine A t p.1).sub p.2).normSq) := by
    simp only [centered, List.map_map]
    apply List.map_congr_left; intro p _
    simp only [Function.comp, affine, Mat3.mulVec_sub]
    congr 1
    apply Vec3.ext' <;> simp only [Vec3.add, Vec3.sub] <;> ring
  unfold cost
  rw [← hmap, hshift]; ring

end Align

/-! ## `svdstf` helpers -/

/-- `mat2Sim3(check=True)` on a `3×4` block `[c·R | t]` with `R` a proper rotation and `c > atol ≥ 0`: accepted, and
the result has translation `t`, scale `c`, a unit quaternion whose matrix is `R` -/
theorem mat2Sim3_of_scaled_rotation (detK : Mat3 ℝ → ℝ) (hdet : ∀ M, detK M = M.det) (rtol atol : ℝ)
    (hr : 0 ≤ rtol) (ha0 : 0 ≤ atol) (ha1 : atol < 1) (R : Mat3 ℝ) (hR : Mat3.IsRot R) (c : ℝ) (hc : atol < c)
    (t last : Vec3 ℝ) (l3 : ℝ) :
    ∃ X : Sim3 ℝ, mat2Sim3 detK true rtol atol ⟨.m34, Mat3.smul c R, t, last, l3⟩ = .ok X ∧
      X.t = t ∧ X.s = c ∧ X.q.normSq = 1 ∧ SO3matrix X.q = R := by
  obtain ⟨p, hp1, hp2⟩ := exists_quat_of_rotation R hR
  have hc0 : 0 < c := lt_of_le_of_lt ha0 hc
  have hb := scaledRotBatch_valid detK hdet true rtol atol hr ha0 ha1 [(p, c)]
    (by intro x hx; rw [List.mem_singleton.mp hx]; exact ⟨hp1, hc0⟩)
    (fun _ => ⟨(p, c), by simp, hc⟩)
  simp only [List.map_cons, List.map_nil, hp2] at hb
  refine ⟨⟨t, canonQ atol p, c⟩, ?_, rfl, rfl, ?_, ?_⟩
  · simp only [mat2Sim3, mat2Sim3Batch, List.map_cons, List.map_nil, hb, List.zipWith_cons_cons,
      List.zipWith_nil_right, MatIn.tOf]
  · rw [canonQ_normSq, hp1]
  · rw [SO3matrix_canonQ, hp2]

theorem Mat3.frob_smul (R M : Mat3 ℝ) (c : ℝ) : Mat3.frob R (Mat3.smul c M) = c * Mat3.frob R M := by
  simp only [Mat3.frob]; lie_unfold; ring

theorem ssign_real (x : ℝ) : ssign x = if 0 < x then 1 else if x < 0 then -1 else 0 := by
  simp only [ssign, lt_real, k_real, Nat.cast_zero, Nat.cast_one, decide_eq_true_eq]

/-- the rotation of `svdstf`, `U·diag(1,1,sign det(U V))·V`, is the same `rotOf` as in `svdtf` -/
theorem svdstf_rot_eq (d : SVD3 ℝ) (hU : Mat3.IsOrth d.U) (hV : Mat3.IsOrth d.Vh) :
    (d.U.mul (diag3 ⟨1, 1, ssign ((d.U.mul d.Vh).det)⟩)).mul d.Vh = rotOf d ∧
    ssign ((d.U.mul d.Vh).det) = (d.U.mul d.Vh).det := by
  unfold rotOf
  rcases (hU.mul hV).det_cases with h1 | h1
  · rw [h1, ssign_real]
    norm_num
    congr 1
    simp only [diag3]; mat3_ext <;> lie_unfold <;> ring
  · rw [h1, ssign_real]
    norm_num
    rw [flipLastCol_eq]

/-- the rigid/similarity map of a `Sim3` element as an affine map -/
theorem Sim3Act_eq_affine (X : Sim3 ℝ) : Sim3Act X = affine (Mat3.smul X.s (SO3matrix X.q)) X.t := by
  funext p
  simp only [Sim3Act, affine, Mat3.smul_mulVec, SO3matrix_mulVec]
  apply Vec3.ext' <;> simp only [Vec3.add, Vec3.smul] <;> ring


end PP
