import Pose.Wire
import Pose.Driver.Lie
import Pose.Model.ExpGlue
import Pose.Model.ExpBatch
/-! Driver ops for C01: `Exp` of an algebra element followed by `tensor()` and `matrix()` in one reply
(storage of the group element, then the matrix row-major), so the transcendentals are evaluated once. -/
namespace PP.Driver
open PP Wire

/-- `c01.glue <ltype> <dtype> <rank> <shape…> <data…>`: the public path `pp.Exp(pp.LieTensor(data, ltype))` followed by
`.tensor()` and `.matrix()` with the model's own dispatch, shape handling and dtype-dependent eps.
reply `ok <ltype> <rank> <shape…> <n> <data…> <mrank> <mshape…> <m> <mdata…>` or `err lastDim|noExp|numel` -/
def glueHandlerOf (plain : Bool) : Handler := fun ts =>
  match ts with
  | ltn :: dtn :: rk :: rest => do
    let lt ← (LType.ofName ltn).elim (.error "ltype") .ok
    let dt ← (DType.ofName dtn).elim (.error "dtype") .ok
    let r ← nat rk
    let (shp, dat) ← take r rest
    let shape ← nats shp
    let data ← nums dat
    match (if plain then typeExp (α := B) lt dt shape data else ppExp (α := B) lt dt shape data) with
    | .error e => .error e.name
    | .ok X =>
      let (ms, md) := X.matrix dt
      .ok (" ".intercalate [X.ltype.name, toString X.shape.length, fmtNats X.shape, toString X.data.length, fmt X.data,
            toString ms.length, fmtNats ms, toString md.length, fmt md])
  | _ => .error "arity"

def opsC01 : List (String × Handler) := [
  ("c01.glue", glueHandlerOf false),
  -- the plain-Tensor branch of `<lt>_type.Exp(x)`
  ("c01.glueplain", glueHandlerOf true),
  -- batch-level models with the code's masked scatter: `c01.so3scatter eps x…(3n)` -> quaternions (4n);
  -- `c01.wsscatter eps (φ σ)…(4n)` -> the coupling matrices W = A K + B K² + C (9n) from the scattered coefficients
  ("c01.so3scatter", numeric fun xs => match xs with
    | e :: rest =>
      let rows := (List.range (rest.length / 3)).map fun i => v3 rest (3 * i)
      .ok ((so3ExpBatch e rows).flatMap Quat.toList)
    | [] => .error "arity"),
  ("c01.wsscatter", numeric fun xs => match xs with
    | e :: rest =>
      let rows := (List.range (rest.length / 4)).map fun i => torx rest (4 * i)
      let cs := wsCoefBatch e (rows.map fun r => (r.phi.norm, r.sigma))
      .ok ((List.zipWith (fun r c => (polyK c.2.2 c.1 c.2.1 r.phi).toList) rows cs).flatten)
    | [] => .error "arity"),
  ("c01.so3", withEps 3 fun e l => let X := so3Exp e (v3 l); X.toList ++ (SO3matrix X).toList),
  ("c01.se3", withEps 6 fun e l => let X := se3Exp e (tose3 l); X.toList ++ (SE3matrix X).flat),
  ("c01.rxso3", withEps 4 fun e l => let X := rxso3Exp e (torx l); X.toList ++ (RxSO3matrix X).flat),
  ("c01.sim3", withEps 7 fun e l => let X := sim3Exp e (tosim l); X.toList ++ (Sim3matrix X).flat),
  -- the coupling matrix alone and its coefficients (A, B, C), for diagnostics / replay
  ("c01.WsCoef", withEps 2 fun e l =>
      let c := rxso3WsCoef e (l.getD 0 default) (l.getD 1 default); [c.1, c.2.1, c.2.2])
]

end PP.Driver
