"""C04 — pass 3: correspondence stream for the batched / broadcasting layer of the model (lean/Pose/Model/AutogradBatch.lean).

One driver request `c04.bcall` per case hands the Lean model the whole batched call — program, batch shape and items of every
leaf, cotangents — and gets back the output batch shape, all outputs and `.grad` of every item of every leaf (or `err shape`).
The real code runs the same call.  Compared: raise <-> `err shape`; output batch shape; outputs; gradients (tolerance of the
deep-program stream: t * (sum of |contributions| + largest cotangent met) + underflow floor).  The index mapping and the reduction
over expanded items, formerly done in Python (c04.item_index / sum_to_leaf), are thereby the model's own (`itemIndex`, `bgrad`);
the Python mapping is cross-checked against it (`batch.python-mapping`).
"""
from __future__ import annotations

import math

import torch

from . import common, util_lie as U


def _c04():
    from . import c04
    return c04


BASES = [(2, 3), (3, 2), (2, 2), (3, 1), (1, 2), (2,), (3,), (1,), (), (2, 1, 2), (2, 3, 1), (1, 1), (4,)]


def leaf_shape(rng, base):
    r = rng.random()
    if r < 0.30 or not base:
        return tuple(base)
    if r < 0.40:
        return ()
    if r < 0.55:
        return tuple(base[rng.randrange(len(base)):])                 # a suffix (missing leading dimensions)
    if r < 0.90:
        return tuple(1 if rng.random() < 0.5 else e for e in base)    # some dimensions expanded (inner ones too)
    return (1,) * rng.randrange(1, 3) + tuple(base)                   # extra leading 1s (raise the rank of the result)


# deterministic corner shapes: (leaf shapes) — inner / outer / both dimensions expanded, neither leaf has the result's shape,
# missing leading dimensions, scalars, leading 1s, three leaves
FIXED_SHAPES = [[(2, 1), (2, 3)], [(2, 3), (2, 1)], [(1, 3), (2, 3)], [(2, 1), (1, 3)], [(1, 3), (2, 1)], [(3,), (2, 3)],
                [(2, 3), ()], [(), (2, 2)], [(1, 1, 2), (2,)], [(2, 1, 2), (3, 1)], [(2, 1, 1), (1, 3, 1)], [(1,), ()],
                [(3, 1), (1, 2)], [(2, 1, 2), (2, 3, 1)]]
FIXED_PROGS = [(("B", "Act", "SE3", ("L", 0), ("L", 1)), [("G", "SE3"), ("E3",)]),
               (("B", "Mul", "SO3", ("L", 0), ("L", 1)), [("G", "SO3"), ("G", "SO3")]),
               (("B", "AdjT", "Sim3", ("L", 0), ("L", 1)), [("G", "Sim3"), ("A", "Sim3")]),
               (("Retr", "RxSO3", ("L", 0), ("L", 1)), [("G", "RxSO3"), ("A", "RxSO3")]),
               (("B", "Act4", "SO3", ("U", "Inv", "SO3", ("L", 0)), ("L", 1)), [("G", "SO3"), ("E4",)])]


def fixed_cases():
    C = _c04()
    out = []
    for si, shp in enumerate(FIXED_SHAPES):
        node, L = FIXED_PROGS[si % len(FIXED_PROGS)]
        bs = tuple(torch.broadcast_shapes(*shp))
        out.append({"stream": "batch", "prog": C.to_json(node), "ltypes": [list(t) for t in L], "dtype": "float64",
                    "lshapes": [list(s) for s in shp], "bshape": list(bs), "root": list(C.node_type(node, L)), "py_raises": False})
    return out


def py_bshape(C, node, lshapes):
    """batch shape of the result as the code computes it: broadcast at every binary operator"""
    k = node[0]
    if k == "L":
        return tuple(lshapes[node[1]])
    if k == "U":
        return py_bshape(C, node[3], lshapes)
    if k == "Cast":
        return py_bshape(C, node[2], lshapes)
    a, b = (node[3], node[4]) if k == "B" else (node[2], node[3])
    return tuple(torch.broadcast_shapes(py_bshape(C, a, lshapes), py_bshape(C, b, lshapes)))


def make_bcase(rng, bad):
    C = _c04()
    for _ in range(40):
        case = C.make_case(rng, "float64", depth=rng.choice([1, 1, 2, 2, 3, 4]))
        node = C.from_json(case["prog"])
        base = rng.choice(BASES)
        lsh = [leaf_shape(rng, base) for _ in case["ltypes"]]
        if bad and len(lsh) >= 2:
            i = rng.randrange(len(lsh))
            b2 = list(base) if base else [2]
            d = rng.randrange(len(b2))
            b2[d] = b2[d] + 1 + (1 if b2[d] == 0 else 0)
            if b2[d] == 1:
                b2[d] = 2
            lsh[i] = tuple(b2)
            others = [s for j, s in enumerate(lsh) if j != i]
            try:
                torch.broadcast_shapes(lsh[i], *others)
                continue                                             # still compatible: draw again
            except RuntimeError:
                pass
        case["lshapes"] = [list(s) for s in lsh]
        try:
            case["bshape"] = list(py_bshape(C, node, lsh))
            case["py_raises"] = False
        except RuntimeError:
            case["bshape"] = []
            case["py_raises"] = True
        if bad != case["py_raises"]:
            continue
        if int(math.prod(case["bshape"])) > 12 or any(int(math.prod(s_)) > 12 for s_ in lsh):
            continue
        case["stream"] = "batch"
        return case
    return None


def bcall_line(C, case, eps_used):
    node = C.from_json(case["prog"])
    ltypes = [tuple(t) for t in case["ltypes"]]
    ptoks = C.prog_tokens(node)
    toks = ["c04.bcall", common.to_wire(eps_used), str(len(ptoks))] + ptoks + [str(len(ltypes))]
    for ty, shp, v in zip(ltypes, case["lshapes"], case["values"]):
        rows = torch.tensor(v, dtype=torch.float64).reshape(-1, C.tdim(ty)).tolist()
        toks += [ty[1] if ty[0] == "G" else "V", str(len(shp))] + [str(d) for d in shp] + [str(len(rows))]
        for row in rows:
            toks.append(C.vec_tokens(row))
    nb = int(math.prod(case["bshape"]))
    cot = torch.tensor(case["cot"], dtype=torch.float64).reshape(nb, -1).tolist() if nb else []
    toks.append(str(len(cot)))
    for row in cot:
        toks.append(C.vec_tokens(row))
    return " ".join(toks)


def parse_bcall(C, case, toks):
    xs = [common.from_wire(t) for t in toks]
    rank = int(xs[0])
    shape = tuple(int(x) for x in xs[1:1 + rank])
    o = 1 + rank
    ltypes = [tuple(t) for t in case["ltypes"]]
    nb = int(math.prod(shape))
    node = C.from_json(case["prog"])
    oty = C.node_type(node, ltypes)
    odim = U.MATN[oty[1]] ** 2 if oty[0] == "M" else C.tdim(oty)
    outs = [[float(x) for x in xs[o + b * odim:o + (b + 1) * odim]] for b in range(nb)]
    o += nb * odim
    grads = []
    for ty, shp in zip(ltypes, case["lshapes"]):
        n, d = int(math.prod(shp)), C.tdim(ty)
        grads.append([[float(x) for x in xs[o + j * d:o + (j + 1) * d]] for j in range(n)])
        o += n * d
    if o != len(xs):
        raise common.InfraError(f"c04.bcall reply length {len(xs)} != {o}")
    return shape, outs, grads


def check_bad(ctx, case):
    """error path: the code must raise, the model must answer `err shape`"""
    C = _c04()
    ps = C.prog_str(C.from_json(case["prog"]))[:160]
    raised = False
    try:
        C.run_case_impl(dict(case, bshape=[]))
    except Exception:
        raised = True
    rep = ctx.driver.run([bcall_line(C, dict(case, bshape=[0]), common.EPS["float64"])])[0]
    st, toks = common.parse_reply(rep)
    if not raised or st == "ok" or "shape" not in str(toks):
        ctx.disagree("batch.shape", case, f"incompatible batch shapes {case['lshapes']} in {ps}: code raised={raised}, model reply {rep[:60]}")


def check_good(ctx, good):
    """good: list of (case, ImplResult)"""
    C = _c04()
    eps = common.EPS["float64"]
    # model: the batched call itself, and the per-item sweeps (scales of the tolerance)
    spans, all_lines = [], []
    for case, r in good:
        ls, index = C.model_lines(case, eps, want_fd=False)
        spans.append((len(all_lines), len(ls), index))
        all_lines += ls
        all_lines.append(bcall_line(C, case, eps))
    reps = C.run_driver_parallel(ctx, all_lines) if all_lines else []
    for (case, r), (o, n, index) in zip(good, spans):
        node = C.from_json(case["prog"])
        ps = C.prog_str(node)[:160]
        M = C.collect_model(case, reps[o:o + n], index)
        st, toks = common.parse_reply(reps[o + n])
        if st != "ok":
            if "contract" in str(toks):
                raise common.InfraError(f"stand-in contract failed: {reps[o + n]}")
            ctx.disagree("batch.shape", case, f"model rejects the batched call of {ps} with shapes {case['lshapes']}: {reps[o + n][:80]}")
            continue
        shape, outs, grads = parse_bcall(C, case, toks)
        ltypes = [tuple(t) for t in case["ltypes"]]
        # 1. output batch shape
        got_shape = tuple(r.out.shape[:-1])
        if shape != got_shape or not r.out_shape_ok:
            ctx.disagree("batch.shape", case, f"output batch shape of {ps}, leaf shapes {case['lshapes']}: code {got_shape}, model {shape}")
            continue
        ctx.count(f"batch.rank{len(shape)}")
        if any(tuple(s) != shape for s in case["lshapes"]):
            ctx.count("batch.broadcasting")
        # 2. outputs
        nb = int(math.prod(shape))
        tf = 4 * math.sqrt(eps)
        out = r.out.reshape(nb, -1).tolist() if nb else []
        for b in range(nb):
            sc = max(1.0, max((abs(v) for v in outs[b]), default=0.0))
            e = C.nmax(abs(a - c) for a, c in zip(out[b], outs[b]))
            if not (e <= tf * sc) or len(out[b]) != len(outs[b]):
                ctx.disagree("batch.fwd", case, f"batched value of {ps}: item {b} err {e:.3e}")
                break
        # 3. gradients: code vs the model's batched reverse sweep
        t = C.tol_rel("float64", r.band)
        jv = 1e-15 if any(o_ == "Jinvp" for o_, _ in C.prog_ops(node)) else 0.0
        tiny = 64 * C.TINY["float64"]
        bad = None
        for li, ty in enumerate(ltypes):
            d = C.tdim(ty)
            got = r.grads[li]
            got = [[0.0] * d for _ in grads[li]] if got is None else got.reshape(-1, d).tolist()
            if len(got) != len(grads[li]):
                bad = (li, -1, float("inf"), 0.0)
                break
            wabs = C.leaf_rows(case, M, li, "abs")
            cm = C.leaf_cmax(case, M, li)
            pyacc = C.leaf_rows(case, M, li, "grad")
            for i, (gr, wr) in enumerate(zip(got, grads[li])):
                s_ = max(wabs[i], default=0.0) + cm[i]
                err = C.nmax(abs(a - b) for a, b in zip(gr, wr))
                tol = t * s_ + tiny + jv * s_
                if not (err <= tol) and bad is None:
                    bad = (li, i, err, tol)
                # the Python index mapping / reduction used by the other streams agrees with the model's own
                e2 = C.nmax(abs(a - b) for a, b in zip(pyacc[i], wr))
                if not (e2 <= 1e-13 * (s_ + 1e-300)):
                    ctx.disagree("batch.python-mapping", case, f"{ps}: leaf {li} item {i}: Python-accumulated model gradient differs from "
                                                               f"the model's bgrad by {e2:.3e}")
        if bad:
            li, i, err, tol = bad
            ctx.disagree("batch.grad", case, f"batched backward of {ps}, leaf shapes {case['lshapes']}: leaf {li} item {i}: "
                                             f"|autograd - model bgrad| = {err:.3e} > {tol:.3e}")
        ctx.count("batch.cases")


def run_batch(ctx, n_cases):
    C = _c04()
    rng = ctx.rng
    good = []
    import random as _r
    frng = _r.Random(20260926)
    for case in fixed_cases():
        r = C.prepare(ctx, case, frng)
        if r is None:
            ctx.count("batch.dropped")
            continue
        C.account(ctx, case, "batch")
        ctx.count("batch.fixed-shapes")
        good.append((case, r))
    for ci in range(n_cases):
        bad = ci % 6 == 5
        case = make_bcase(rng, bad)
        if case is None:
            ctx.count("batch.dropped")
            continue
        ps = C.prog_str(C.from_json(case["prog"]))[:160]
        if bad:
            case["bshape"] = []
            C.fill_values(rng, case)
            case["bad"] = True
            ctx.count("batch.incompatible-shapes")
            ctx.note_case(("batch", ps, "bad", tuple(map(tuple, case["lshapes"]))), True)
            check_bad(ctx, case)
            continue
        r = C.prepare(ctx, case, rng)
        if r is None:
            ctx.count("batch.dropped")
            continue
        C.account(ctx, case, "batch")
        good.append((case, r))
    check_good(ctx, good)


def replay_case(ctx, c) -> bool:
    C = _c04()
    n0 = len(ctx.disagreements)
    print("  batched call:", C.prog_str(C.from_json(c["prog"])), "leaf batch shapes", c["lshapes"])
    if c.get("bad"):
        check_bad(ctx, c)
    else:
        r = C.run_case_impl(c)
        r.band, r.trunc = C.site_info(c, r)
        check_good(ctx, [(c, r)])
    for d in ctx.disagreements[n0:]:
        print("  model disagrees:", d["detail"])
    return len(ctx.disagreements) == n0
