import Proofs.Lemmas.LMLoop
import Proofs.Lemmas.LogExp
/-!
The retraction contract of C08 (`retr (retr X d) (neg d) = X`, `retr X d = Exp(d)·X`) for the Lie-group parameter
types, from the quaternion / `polyK` algebra that also underlies the group laws of C03 (`Quat.mul_assoc'`,
`Quat.conj_act_act`, `so3Exp_normSq_closed`). Exact on the closed-form branch of `Exp` (`‖φ‖ > eps`).
-/
namespace PP.LMLoop
open PP

/-- `so3Exp(−x) = conj(so3Exp x)` in both branches (the coefficients depend on `‖x‖` only) -/
theorem so3Exp_neg_conj (eps : ℝ) (x : Vec3 ℝ) : so3Exp eps x.neg = (so3Exp eps x).conj := by
  by_cases h : eps < x.norm
  · rw [so3Exp_closed eps x h, so3Exp_closed eps x.neg (by rw [Vec3.norm_neg]; exact h), Vec3.norm_neg,
      Quat.conj_mk', Vec3.neg_smul]
  · rw [so3Exp_taylor eps x h, so3Exp_taylor eps x.neg (by rw [Vec3.norm_neg]; exact h), Vec3.normSq_neg,
      Quat.conj_mk', Vec3.neg_smul]

/-- half-angle identities used below -/
theorem trig_half (θ : ℝ) : Real.cos θ = 1 - 2 * Real.sin (θ / 2) ^ 2 ∧ Real.sin θ = 2 * Real.sin (θ / 2) * Real.cos (θ / 2) := by
  have e : θ = 2 * (θ / 2) := by ring
  constructor
  · conv_lhs => rw [e]
    rw [Real.cos_two_mul]
    have := Real.sin_sq_add_cos_sq (θ / 2)
    linarith
  · conv_lhs => rw [e]
    rw [Real.sin_two_mul]

/-- **`R(φ)ᵀ·Jl(φ) = Jl(−φ)`** on the closed-form branch (`R(φ)ᵀ p = Exp(φ)⁻¹·p`): the translation of `Exp(−ξ)` is minus
the back-rotated translation of `Exp(ξ)`. -/
theorem so3Jl_conj_act (eps : ℝ) (x : Vec3 ℝ) (h0 : 0 ≤ eps) (h : eps < x.norm) (t : Vec3 ℝ) :
    (so3Exp eps x).conj.act ((so3Jl eps x).mulVec t) = (so3Jl eps x.neg).mulVec t := by
  have hθ : x.norm ≠ 0 := ne_of_gt (lt_of_le_of_lt h0 h)
  have h1 := Real.sin_sq_add_cos_sq (x.norm / 2)
  obtain ⟨hc, hs⟩ := trig_half x.norm
  rw [so3Jl_closed eps x.neg (by rw [Vec3.norm_neg]; exact h), Vec3.norm_neg, polyK_neg,
    so3Exp_closed eps x h, Quat.conj_mk', ← Vec3.neg_smul, Quat.mk'_act, polyK_neg, ← Mat3.mul_mulVec,
    so3Jl_closed eps x h, polyK_mul, ← Vec3.norm_sq, hc, hs]
  congr 2
  · ring
  · field_simp
    linear_combination (-4 * Real.sin (x.norm / 2) ^ 2) * h1
  · field_simp
    ring

theorem Quat.conj_mul_mul (q Y : Quat ℝ) :
    q.conj.mul (q.mul Y) = ⟨q.normSq * Y.x, q.normSq * Y.y, q.normSq * Y.z, q.normSq * Y.w⟩ := by
  ext <;> lie_unfold <;> ring

theorem Quat.act_add (q : Quat ℝ) (u v : Vec3 ℝ) : q.act (u.add v) = (q.act u).add (q.act v) := by
  ext <;> lie_unfold <;> ring

theorem Vec3.neg_add_add (a b : Vec3 ℝ) : a.neg.add (a.add b) = b := by
  ext <;> lie_unfold <;> ring

/-- **SE3, closed-form branch: the restore is exact**, `Exp(−ξ)·(Exp(ξ)·X) = X`, for every `X` (the step's own quaternion
is unit on this branch). -/
theorem se3_retr_inv (eps : ℝ) (xi : se3 ℝ) (X : SE3 ℝ) (h0 : 0 ≤ eps) (h : eps < xi.phi.norm) :
    SE3Retr eps (SE3Retr eps X xi) (se3.neg xi) = X := by
  have hq : (so3Exp eps xi.phi).normSq = 1 := so3Exp_normSq_closed eps xi.phi h0 h
  have hJ := so3Jl_conj_act eps xi.phi h0 h xi.tau
  unfold SE3Retr SE3Mul se3Exp se3.neg
  simp only
  rw [so3Exp_neg_conj, Mat3.mulVec_neg, ← hJ]
  generalize so3Exp eps xi.phi = q at *
  generalize (so3Jl eps xi.phi).mulVec xi.tau = u at *
  obtain ⟨t, Y⟩ := X
  simp only
  rw [Quat.conj_mul_mul, hq, Quat.act_add, Quat.conj_act_act q hq, Vec3.neg_add_add]
  simp

/-- **RxSO3: the restore is exact on the closed-form branch** (`e^{−σ}·e^{σ} = 1` always) -/
theorem rxso3_retr_inv (eps : ℝ) (x : rxso3 ℝ) (X : RxSO3 ℝ) (h0 : 0 ≤ eps) (h : eps < x.phi.norm) :
    RxSO3Retr eps (RxSO3Retr eps X x) (rxso3.neg x) = X := by
  have hq : (so3Exp eps x.phi).normSq = 1 := so3Exp_normSq_closed eps x.phi h0 h
  unfold RxSO3Retr RxSO3Mul rxso3Exp rxso3.neg
  simp only [exp_real]
  rw [so3Exp_neg_conj, Quat.conj_mul_mul, hq]
  obtain ⟨Y, sc⟩ := X
  simp only [one_mul]
  congr 1
  rw [← mul_assoc, Real.exp_neg, inv_mul_cancel₀ (Real.exp_pos _).ne', one_mul]

/-- rotation matrix form of `v ↦ Exp(φ)⁻¹·v` used by `rxso3Ws_neg_r4` / `rxso3Ws_neg_r2` -/
theorem conj_act_polyK (eps : ℝ) (phi : Vec3 ℝ) (h : eps < phi.norm) (v : Vec3 ℝ) :
    (polyK 1 (-(2 * Real.cos (phi.norm / 2) * (Real.sin (phi.norm / 2) / phi.norm)))
        (2 * (Real.sin (phi.norm / 2) / phi.norm) * (Real.sin (phi.norm / 2) / phi.norm)) phi).mulVec v =
      (so3Exp eps phi).conj.act v := by
  rw [so3Exp_closed eps phi h, Quat.conj_mk', ← Vec3.neg_smul, Quat.mk'_act, polyK_neg]

theorem Vec3.sim3_cancel (a b : Vec3 ℝ) (s : ℝ) (hs : s ≠ 0) :
    ((a.smul (1 / s)).neg).add (((a.add (b.smul s))).smul (1 / s)) = b := by
  ext <;> lie_unfold <;> field_simp <;> ring

theorem Quat.act_smul (q : Quat ℝ) (v : Vec3 ℝ) (c : ℝ) : q.act (v.smul c) = (q.act v).smul c := by
  ext <;> lie_unfold <;> ring

/-- Sim3 restore from the symmetry `W(−φ,−σ) = e^{−σ}·R(φ)ᵀ·W(φ,σ)` of the coupling matrix -/
theorem sim3_retr_inv_of_Ws (eps : ℝ) (x : sim3 ℝ) (X : Sim3 ℝ) (h0 : 0 ≤ eps) (h : eps < x.phi.norm)
    (hW : rxso3Ws eps ⟨x.phi.neg, -x.sigma⟩ = Mat3.smul (1 / Real.exp x.sigma)
      ((polyK 1 (-(2 * Real.cos (x.phi.norm / 2) * (Real.sin (x.phi.norm / 2) / x.phi.norm)))
        (2 * (Real.sin (x.phi.norm / 2) / x.phi.norm) * (Real.sin (x.phi.norm / 2) / x.phi.norm)) x.phi).mul
        (rxso3Ws eps ⟨x.phi, x.sigma⟩))) :
    Sim3Retr eps (Sim3Retr eps X x) (sim3.neg x) = X := by
  have hq : (so3Exp eps x.phi).normSq = 1 := so3Exp_normSq_closed eps x.phi h0 h
  have he : Real.exp x.sigma ≠ 0 := (Real.exp_pos _).ne'
  unfold Sim3Retr Sim3Mul sim3Exp rxso3Exp sim3.neg
  simp only [exp_real]
  rw [hW, so3Exp_neg_conj, Mat3.mulVec_neg, Mat3.smul_mulVec, Mat3.mul_mulVec, conj_act_polyK eps x.phi h,
    Quat.conj_mul_mul, hq]
  generalize so3Exp eps x.phi = q at *
  generalize (rxso3Ws eps ⟨x.phi, x.sigma⟩).mulVec x.tau = u at *
  obtain ⟨t, Y, sc⟩ := X
  simp only [one_mul]
  have hexp : Real.exp (-x.sigma) = 1 / Real.exp x.sigma := by rw [Real.exp_neg]; simp
  rw [hexp, Quat.act_add, Quat.act_smul, Quat.conj_act_act q hq]
  congr 1
  · exact Vec3.sim3_cancel _ _ _ he
  · field_simp

/-- **Sim3: the restore is exact in regime 4 (`‖φ‖ > eps`, `|σ| > eps`) and for `σ = 0`, `‖φ‖ > eps`** -/
theorem sim3_retr_inv (eps : ℝ) (x : sim3 ℝ) (X : Sim3 ℝ) (h0 : 0 ≤ eps) (h : eps < x.phi.norm)
    (hs : eps < |x.sigma| ∨ x.sigma = 0) :
    Sim3Retr eps (Sim3Retr eps X x) (sim3.neg x) = X := by
  apply sim3_retr_inv_of_Ws eps x X h0 h
  rcases hs with hs | hs
  · exact rxso3Ws_neg_r4 eps x.phi x.sigma h0 h hs
  · rw [hs, neg_zero, Real.exp_zero, rxso3Ws_neg_r2 eps x.phi h0 h]
    ext <;> lie_unfold <;> ring

end PP.LMLoop
