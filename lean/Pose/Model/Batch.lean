/-!
# Model of batching / broadcasting / shape-only functions of `pypose/lietensor` (property C06)

What is modelled (item level — one *item* is one LieTensor element of `ltype.dimension` scalars):

* `operation.py: broadcast_inputs` — `torch.broadcast_shapes` of the two `lshape`s, the scalar-batch
  special case `shape = (1,)`, `expand(...).reshape(-1, d).contiguous()` (row-major flattening of the
  expanded operand) — and the tail shared by every binary op site of `lietensor.py`
  (`*Type.Act/Mul/Adj/AdjT/Jinvp`):  `dim = -1 if out.nelement() != 0 else <d>;  out.view(out_shape + (dim,))`.
* `LieTensor.add` (`expand(...).clone().add_(...)`), on top of the same pieces.
* `LieTensor.__torch_function__`: the `HANDLED_FUNCTIONS` test and the `wrap` of every tensor of the result
  tree with the ltype of the first LieTensor among the flattened positional and keyword arguments.
* Shape-only torch functions as *index maps* on items (`Step`, `catMap`, `overwriteMap`): torch itself is an
  external kernel, these maps are its documented semantics; the correspondence check compares them with
  the real functions on tagged tensors on every run.
* `retain_ltype` as a state machine over a table of patched slots (`Retain`).

Tensors are row-major (contiguous) item arrays: `T.data k` is the item with flat index `k`.
-/
namespace PP.Batch

abbrev Shape := List Nat

/-- number of items of a batch shape (`[]` is the scalar batch: one item) -/
def numel : Shape → Nat
  | [] => 1
  | n :: s => n * numel s

/-- row-major flat index of a multi-index -/
def ravel : Shape → List Nat → Nat
  | _ :: s, i :: is => i * numel s + ravel s is
  | _, _ => 0

/-- multi-index of a row-major flat index -/
def unravel : Shape → Nat → List Nat
  | [], _ => []
  | _ :: s, k => (k / numel s) :: unravel s (k % numel s)

/-- `i` is a valid multi-index of shape `s` -/
def inb : Shape → List Nat → Prop
  | [], [] => True
  | n :: s, i :: is => i < n ∧ inb s is
  | _, _ => False

/-- a batch of items of shape `shape` (the `lshape`), stored row-major -/
structure T (α : Type) where
  shape : Shape
  data : Nat → α

def T.get (t : T α) (i : List Nat) : α := t.data (ravel t.shape i)

/-! ## broadcasting -/

/-- broadcast of two extents (`torch.broadcast_shapes` on one aligned dimension) -/
def bdim (a b : Nat) : Option Nat :=
  if a = b then some a else if a = 1 then some b else if b = 1 then some a else none

/-- broadcast of two shapes of equal rank -/
def bzip : Shape → Shape → Option Shape
  | [], [] => some []
  | a :: as, b :: bs =>
    match bdim a b, bzip as bs with
    | some d, some r => some (d :: r)
    | _, _ => none
  | _, _ => none

/-- missing leading dimensions count as 1 -/
def padTo (n : Nat) (s : Shape) : Shape := List.replicate (n - s.length) 1 ++ s

/-- `torch.broadcast_shapes(a, b)`; `none` = torch raises -/
def broadcastShapes (a b : Shape) : Option Shape :=
  let n := max a.length b.length
  bzip (padTo n a) (padTo n b)

/-- projection for equal rank: where the operand's extent is 1 its index is 0 -/
def projEq : Shape → List Nat → List Nat
  | n :: s, i :: is => (if n = 1 then 0 else i) :: projEq s is
  | _, _ => []

/-- the torch broadcasting projection of an output multi-index onto an operand of shape `s`:
leading output dimensions the operand does not have are dropped, extent-1 dimensions read index 0 -/
def proj (s : Shape) (i : List Nat) : List Nat := projEq s (i.drop (i.length - s.length))

/-- one step of torch's `_broadcast_shapes` loop: `c = common_shape[idx]`, `s = shape[idx]` -/
def merge1 (c s : Nat) : Option Nat :=
  if s = c then some c
  else
    let c' := if c = 1 then s else c
    if s = 1 then some c' else if c' = s then some c' else none

/-- `for idx in range(-1, -1 - len(shape), -1)` on reversed lists: the positions `shape` does not have stay as they are -/
def mergeRev : List Nat → List Nat → Option (List Nat)
  | c, [] => some c
  | [], _ :: _ => none
  | c :: cs, s :: ss =>
    match merge1 c s, mergeRev cs ss with
    | some d, some r => some (d :: r)
    | _, _ => none

/-- `torch._refs._broadcast_shapes(a, b)` as torch computes it: `common_shape = [1] * max(len)`, then every shape is
merged into it from the trailing end -/
def torchBroadcast (a b : Shape) : Option Shape :=
  let n := max a.length b.length
  match mergeRev (List.replicate n 1) a.reverse with
  | none => none
  | some c => (mergeRev c b.reverse).map List.reverse

/-- trailing-aligned recursion (on reversed shapes) -/
def bcastRev : List Nat → List Nat → Option (List Nat)
  | [], ys => some ys
  | xs, [] => some xs
  | x :: xs, y :: ys =>
    match bdim x y, bcastRev xs ys with
    | some d, some r => some (d :: r)
    | _, _ => none

/-- `x.expand(shape + (d,)).reshape(-1, d).contiguous()`: row `k` of the flattened operand -/
def flatExpand (x : T α) (shape : Shape) : Nat → α :=
  fun k => x.get (proj x.shape (unravel shape k))

/-- `broadcast_inputs(x, y)` for two operands: the two flattened `(n, d)` operands, `n`, and `out_shape`.
`none` = `torch.broadcast_shapes` raises. -/
def broadcastInputs (x : T α) (y : T β) : Option ((Nat → α) × (Nat → β) × Nat × Shape) :=
  match broadcastShapes x.shape y.shape with
  | none => none
  | some out =>
    let shape := if out = [] then [1] else out      -- `out_shape if out_shape != torch.Size([]) else (1,)`
    some (flatExpand x shape, flatExpand y shape, numel shape, out)

/-- `broadcast_inputs(x, None)`: `x.reshape(-1, d)` and `x.shape[:-1]` -/
def broadcastInput1 (x : T α) : (Nat → α) × Nat × Shape := (x.data, numel x.shape, x.shape)

/-- `Tensor.view(lead + (dim,))` of a contiguous tensor with `total` scalars; `dim = none` is `-1`.
Result: the last extent, or `none` when torch raises (size mismatch, or `-1` ambiguous because the
other extents multiply to 0). -/
def viewLast (total : Nat) (lead : Shape) (dim : Option Nat) : Option Nat :=
  match dim with
  | some d => if numel lead * d = total then some d else none
  | none =>
    if numel lead = 0 then none
    else if total % numel lead = 0 then some (total / numel lead) else none

/-- result of an op site: lshape, last extent, items -/
structure Out (γ : Type) where
  shape : Shape
  last : Nat
  data : Nat → γ

def Out.get (t : Out γ) (i : List Nat) : γ := t.data (ravel t.shape i)

/-- A binary op site (`Act`, `Mul`, `Adj`, `AdjT`, `Jinvp` of every group type):
```
input, out_shape = broadcast_inputs(X, p)
out = F.apply(*input)                        # item-wise kernel `f` on the n rows, rows of dOut scalars
dim = -1 if out.nelement() != 0 else dDecl   # dDecl = p.shape[-1] / X.shape[-1] / a.shape[-1]
return out.view(out_shape + (dim,))
``` -/
def binop (f : α → β → γ) (dOut dDecl : Nat) (x : T α) (y : T β) : Option (Out γ) :=
  match broadcastInputs x y with
  | none => none
  | some (xs, ys, n, out) =>
    let nelem := n * dOut
    let dim := if nelem ≠ 0 then none else some dDecl
    match viewLast nelem out dim with
    | none => none
    | some l => some ⟨out, l, fun k => f (xs k) (ys k)⟩

/-- A unary op (`Exp`, `Log`, `Inv`, …): the kernels index `[..., c]` on the unflattened tensor. -/
def unop (f : α → γ) (dOut : Nat) (x : T α) : Out γ := ⟨x.shape, dOut, fun k => f (x.data k)⟩

/-- The `broadcast_inputs(x, None)` route: flatten, kernel, `view(out_shape + (dim,))`. -/
def unopFlat (f : α → γ) (dOut dDecl : Nat) (x : T α) : Option (Out γ) :=
  let (xs, n, out) := broadcastInput1 x
  let nelem := n * dOut
  let dim := if nelem ≠ 0 then none else some dDecl
  match viewLast nelem out dim with
  | none => none
  | some l => some ⟨out, l, fun k => f (xs k)⟩

/-- `x.expand(shape + x.shape[-1:]).clone()` (first half of `LieTensor.add`) -/
def expandClone (x : T α) (shape : Shape) : T α := ⟨shape, flatExpand x shape⟩

/-- `LieTensor.add(self, other)` for a group type:
```
shape = torch.broadcast_shapes(self.shape[:-1], other.shape[:-1])
return self.expand(shape + self.shape[-1:]).clone().add_(other)
# add_:  input.copy_(LieTensor(other[..., :m], ltype=alg).Exp() * input)
```
`retr a x` is the item-level `Exp(a) * x`; `d` the group's dimension. -/
def addOp (retr : β → α → α) (d : Nat) (x : T α) (a : T β) : Option (Out α) :=
  match broadcastShapes x.shape a.shape with
  | none => none
  | some shape =>
    let x' := expandClone x shape
    match binop retr d d a x' with          -- `Exp(other) * input` broadcasts `other` against the clone
    | none => none
    | some r =>
      -- `input.copy_(r)`: `r` must be expandable to `input`'s shape; here it has that very shape
      if r.shape = shape ∧ r.last = d then some r else none

/-! ## `LieTensor.__torch_function__` -/

/-- a leaf of a (flattened) python argument / result tree -/
inductive Leaf
  | lie (ltype : Nat)      -- a LieTensor (or pypose Parameter) carrying an ltype
  | tensor                 -- a plain torch.Tensor
  | other                  -- anything else (ints, None, dtypes, …)
deriving DecidableEq, Repr

/-- `args, spec = tree_flatten((args, kwargs or {}));  [arg.ltype for arg in args if isinstance(arg, LieTensor)][0]`;
`none` = IndexError (no LieTensor among the flattened positional and keyword arguments) -/
def firstLtype : List Leaf → Option Nat
  | [] => none
  | Leaf.lie t :: _ => some t
  | _ :: rest => firstLtype rest

def wrapLeaf (lt : Nat) : Leaf → Leaf
  | Leaf.tensor => Leaf.lie lt       -- `Tensor.as_subclass(t, LieTensor); lt.ltype = ltype`
  | l => l                           -- already a LieTensor (in-place results), or not a tensor

/-- `__torch_function__(func, types, args, kwargs)` after `data = Tensor.__torch_function__(…)`:
`args` are the flattened positional *and keyword* arguments (D22 repair: `tree_flatten((args, kwargs or {}))`),
`res` the flattened result tree (`[]` models `None`).
`none` = the IndexError raised when no argument at all is a LieTensor. -/
def torchFunction (handled : List String) (name : String) (args res : List Leaf) : Option (List Leaf) :=
  if res ≠ [] ∧ name ∈ handled then
    match firstLtype args with
    | none => none
    | some lt => some (res.map (wrapLeaf lt))
  else some res

/-! ## shape-only functions as index maps (single input) -/

def isPerm (p : List Nat) (n : Nat) : Bool := p.length == n && (List.range n).all (fun a => p.contains a)

/-- input multi-index `j` with `j[p[k]] = i[k]` -/
def unpermute (p : List Nat) (i : List Nat) : List Nat :=
  (List.range p.length).map fun a => i.getD (p.idxOf a) 0

/-- equal-rank expand/repeat index: `i mod extent` (`repeat`, `tile`) -/
def modEq : Shape → List Nat → List Nat
  | n :: s, i :: is => (i % n) :: modEq s is
  | _, _ => []

def mulEq : List Nat → Shape → Shape
  | r :: rs, n :: s => (r * n) :: mulEq rs s
  | _, _ => []

inductive Step
  | reshape (s' : Shape)              -- view / reshape / view_as / squeeze / unsqueeze (same item count)
  | permute (p : List Nat)            -- permute / transpose / swapaxes / swapdims / movedim / moveaxis
  | index (dim : Nat) (idx : List Nat) -- along `dim`, output position `j` reads input position `idx[j]`
                                      -- (select, narrow, slices, index_select, 1-D masks, split pieces, unbind, …)
  | expand (s' : Shape)               -- expand / expand_as
  | repeat_ (reps : List Nat)         -- repeat / tile (`reps.length ≥ rank`)
deriving Repr

/-- new shape and the multi-index map `output index ↦ input index`; `none` = torch raises -/
def Step.apply (s : Shape) : Step → Option (Shape × (List Nat → List Nat))
  | .reshape s' => if numel s' = numel s then some (s', fun i => unravel s (ravel s' i)) else none
  | .permute p => if isPerm p s.length then some (p.map (fun a => s.getD a 0), unpermute p) else none
  | .index dim idx =>
    if dim < s.length ∧ idx.all (fun j => j < s.getD dim 0) then
      some (s.set dim idx.length, fun i => i.modify dim (fun j => idx.getD j 0))
    else none
  | .expand s' => if broadcastShapes s s' = some s' ∧ s.length ≤ s'.length then some (s', proj s) else none
  | .repeat_ reps =>
    if s.length ≤ reps.length then
      let sp := padTo reps.length s
      some (mulEq reps sp, fun i => (modEq sp i).drop (reps.length - s.length))
    else none

/-- an item-level view of one input: output lshape and flat source index of every output item -/
structure IMap where
  out : Shape
  src : Nat → Nat

def IMap.id (s : Shape) : IMap := ⟨s, fun k => k⟩

/-- apply one step after an existing map -/
def IMap.step (m : IMap) (st : Step) : Option IMap :=
  match st.apply m.out with
  | none => none
  | some (s', g) => some ⟨s', fun k => m.src (ravel m.out (g (unravel s' k)))⟩

/-- a pipeline of steps (e.g. `X[1, ::2, None]` = index, index, reshape) -/
def IMap.steps (m : IMap) : List Step → Option IMap
  | [] => some m
  | st :: rest => match m.step st with
    | none => none
    | some m' => m'.steps rest

/-- flat sources stay inside the input (`n0` items) -/
def IMap.Valid (n0 : Nat) (m : IMap) : Prop := ∀ k, k < numel m.out → m.src k < n0

/-- the resulting tensor -/
def IMap.gather (m : IMap) (x : T α) : T α := ⟨m.out, fun k => x.data (m.src k)⟩

/-! ## several inputs: `cat`-like joins and `scatter`-like overwrites -/

/-- which block of a concatenation position `j` falls in: `(input number, position inside it)` -/
def locate : List Nat → Nat → Nat × Nat
  | [], j => (0, j)
  | l :: ls, j => if j < l then (0, j) else let (t, r) := locate ls (j - l); (t + 1, r)

/-- `torch.cat(tensors, dim)` of inputs with shapes `ss` (equal except along `dim`):
output shape and, per output multi-index, `(input number, input multi-index)`. -/
def catMap (ss : List Shape) (dim : Nat) : Option (Shape × (List Nat → Nat × List Nat)) :=
  match ss with
  | [] => none
  | s0 :: _ =>
    if dim < s0.length ∧ ss.all (fun s => s.length == s0.length && s.set dim 0 == s0.set dim 0) then
      let ls := ss.map (fun s => s.getD dim 0)
      some (s0.set dim ls.sum, fun i =>
        let (t, r) := locate ls (i.getD dim 0)
        (t, i.set dim r))
    else none

/-- flat version of `catMap`: output item `k` is item `(catFlat …).2 k` of input `(catFlat …).1 k` -/
def catFlat (ss : List Shape) (dim : Nat) : Option (Shape × (Nat → Nat × Nat)) :=
  match catMap ss dim with
  | none => none
  | some (out, g) => some (out, fun k =>
      let (t, j) := g (unravel out k)
      (t, ravel (ss.getD t []) j))

/-- `self.index_copy(dim, idx, src)` / `select_scatter` / `index_put((idx,), src)` / `self[idx] = src`
(distinct `idx`): item at position `r` along `dim` comes from `src` position `p` when `idx[p] = r`,
otherwise from `self`.  `src` has shape `s.set dim idx.length`.  Input 0 = self, input 1 = src. -/
def overwriteMap (s : Shape) (dim : Nat) (idx : List Nat) : Option (Shape × (List Nat → Nat × List Nat)) :=
  if dim < s.length ∧ idx.all (fun j => j < s.getD dim 0) ∧ idx.Nodup then
    some (s, fun i =>
      let r := i.getD dim 0
      if idx.contains r then (1, i.set dim (idx.idxOf r)) else (0, i))
  else none

def overwriteFlat (s : Shape) (dim : Nat) (idx : List Nat) : Option (Shape × (Nat → Nat × Nat)) :=
  match overwriteMap s dim idx with
  | none => none
  | some (out, g) => some (out, fun k =>
      let (t, j) := g (unravel out k)
      (t, ravel (if t = 0 then s else s.set dim idx.length) j))

/-- `torch.gather(x, dim, index)` / `take_along_dim` with an index tensor that is constant along the item
dimension: `index` has item-level shape `si` (same rank as `s`, `si[k] ≤ s[k]` off `dim`) and entries `< s[dim]`.
Output item `i` is input item `i` with the coordinate along `dim` replaced by `index[i]`. -/
def gatherMap (s si : Shape) (dim : Nat) (index : Nat → Nat) : Option (Shape × (List Nat → List Nat)) :=
  if dim < s.length ∧ si.length = s.length ∧
     (List.range s.length).all (fun k => k == dim || decide (si.getD k 0 ≤ s.getD k 0)) ∧
     (List.range (numel si)).all (fun k => index k < s.getD dim 0) then
    some (si, fun i => i.set dim (index (ravel si i)))
  else none

def gatherFlat (s si : Shape) (dim : Nat) (index : Nat → Nat) : Option (Shape × (Nat → Nat)) :=
  match gatherMap s si dim index with
  | none => none
  | some (out, g) => some (out, fun k => ravel s (g (unravel out k)))

/-- `self.scatter(dim, index, src)` with an item-constant index tensor of item-level shape `si`
(`si[k] ≤ s[k]` off `dim`, `si[k] ≤ ssrc[k]` everywhere) whose entries along `dim` are distinct per fibre:
output item `i` is `src[j]` when some `j` (equal to `i` off `dim`) has `index[j] = i[dim]`, otherwise `self[i]`.
Input 0 = self, input 1 = src (shape `ssrc`). -/
def scatterMap (s si : Shape) (dim : Nat) (index : Nat → Nat) : List Nat → Nat × List Nat :=
  fun i =>
    let inside := (List.range s.length).all fun k => k == dim || decide (i.getD k 0 < si.getD k 0)
    let hit := (List.range (si.getD dim 0)).find? fun p => index (ravel si (i.set dim p)) == i.getD dim 0
    match inside, hit with
    | true, some p => (1, i.set dim p)
    | _, _ => (0, i)

def scatterFlat (s si ssrc : Shape) (dim : Nat) (index : Nat → Nat) : Nat → Nat × Nat :=
  fun k =>
    let (t, j) := scatterMap s si dim index (unravel s k)
    (t, ravel (if t = 0 then s else ssrc) j)

/-! ## semantics table of the handled-function list

Every name of `HANDLED_FUNCTIONS` must have an entry; `Proofs/Props/C06.lean` proves that over the list
regenerated from the source (`Pose/Gen/Handled.lean`). -/

inductive Sem
  | ident       -- same items, same lshape (dtype/device/autograd-graph change only)
  | reshape     -- same items in the same row-major order, other lshape          (`Step.reshape`)
  | permute     -- same items, batch dimensions permuted                          (`Step.permute`)
  | index       -- selection along dimensions                                     (`Step.index` pipeline)
  | split       -- tuple of selections along one dimension                        (`Step.index` per piece)
  | gather      -- per-item index tensor along one dimension                      (`gatherMap`)
  | expand      -- broadcasting repetition                                        (`Step.expand` / `Step.repeat_`)
  | join        -- concatenation of several inputs                                (`catMap`)
  | overwrite   -- out-of-place: items of `self` replaced by items of `src`        (`overwriteMap` / `scatterMap`)
  | overwriteIn -- the same, written into `self` (trailing underscore / `__setitem__`)
  | accumulate  -- `scatter_add`: item of `self` plus the `src` items sent to it — NOT a selection
  | element     -- addressed by scalar (not item) positions: `take`, `masked_select`; an item only when the
                -- positions are item aligned
deriving DecidableEq, Repr

def semOf : String → Option Sem
  | "cpu" | "cuda" | "float" | "double" | "to" | "detach" | "clone" | "copy" => some .ident
  | "view" | "view_as" | "reshape" | "squeeze" | "unsqueeze" => some .reshape
  | "permute" | "transpose" | "swapaxes" | "swapdims" | "movedim" | "moveaxis" => some .permute
  | "__getitem__" | "index_select" | "select" | "narrow" => some .index
  | "split" | "hsplit" | "vsplit" | "dsplit" | "tensor_split" | "chunk" | "unbind" => some .split
  | "gather" | "take_along_dim" => some .gather
  | "expand" | "expand_as" | "repeat" | "tile" => some .expand
  | "cat" | "concat" | "stack" | "hstack" | "vstack" | "dstack" | "column_stack" | "row_stack" => some .join
  | "scatter" | "index_copy" | "select_scatter" | "index_put" => some .overwrite
  | "__setitem__" | "index_copy_" | "index_put_" | "copy_" => some .overwriteIn
  | "scatter_add" => some .accumulate
  | "take" | "masked_select" => some .element
  | _ => none

/-- the shape-only functions the property text names (indexing, view/reshape/permute, cat/stack/split,
clone/detach/to, expand, gather/scatter): they must be in the library's list -/
def required : List String :=
  ["__getitem__", "view", "reshape", "permute", "cat", "stack", "split", "clone", "detach", "to",
   "expand", "gather", "scatter"]

/-! ### ltypes and op signatures -/

inductive LT | SO3 | so3 | SE3 | se3 | Sim3 | sim3 | RxSO3 | rxso3
deriving DecidableEq, Repr

def LT.all : List LT := [.SO3, .so3, .SE3, .se3, .Sim3, .sim3, .RxSO3, .rxso3]

def LT.className : LT → String
  | .SO3 => "SO3Type" | .so3 => "so3Type" | .SE3 => "SE3Type" | .se3 => "se3Type"
  | .Sim3 => "Sim3Type" | .sim3 => "sim3Type" | .RxSO3 => "RxSO3Type" | .rxso3 => "rxso3Type"

/-- (dimension, embedding, manifold) as documented (tables of `pypose.LieTensor`) -/
def LT.dims : LT → Nat × Nat × Nat
  | .SO3 => (4, 4, 3) | .so3 => (3, 4, 3) | .SE3 => (7, 7, 6) | .se3 => (6, 7, 6)
  | .Sim3 => (8, 8, 7) | .sim3 => (7, 8, 7) | .RxSO3 => (5, 5, 4) | .rxso3 => (4, 5, 4)

def LT.dim (t : LT) : Nat := t.dims.1
def LT.manifold (t : LT) : Nat := t.dims.2.2
/-- `LieType.on_manifold`: `dimension == manifold` (a Lie algebra) -/
def LT.onManifold (t : LT) : Bool := t.dims.1 == t.dims.2.2

def LT.algebra : LT → LT
  | .SO3 | .so3 => .so3 | .SE3 | .se3 => .se3 | .Sim3 | .sim3 => .sim3 | .RxSO3 | .rxso3 => .rxso3
def LT.group : LT → LT
  | .SO3 | .so3 => .SO3 | .SE3 | .se3 => .SE3 | .Sim3 | .sim3 => .Sim3 | .RxSO3 | .rxso3 => .RxSO3

inductive Op | Exp | Log | Inv | Mul | Act3 | Act4 | Retr | Adj | AdjT | Jinvp | add | matrix | rotation | translation | scale
  | euler | tensor | Jr | quat2unit | identityLike | randnLike
deriving DecidableEq, Repr

def Op.all : List Op := [.Exp, .Log, .Inv, .Mul, .Act3, .Act4, .Retr, .Adj, .AdjT, .Jinvp, .add, .matrix, .rotation, .translation,
  .scale, .euler, .tensor, .Jr, .quat2unit, .identityLike, .randnLike]

/-- what an op returns: a LieTensor of some ltype, or a plain tensor with the given trailing shape -/
inductive Res | lie (t : LT) | tensor (trail : List Nat)
deriving DecidableEq, Repr

/-- the dispatch of `LieTensor.<op>` → `self.ltype.<op>`: result kind, or `none` where the LieType raises
(`Lie Group has no Exp attribute`, `Lie Algebra has no Log attribute`, `Instance has no Jr attribute`, …) -/
def sig (op : Op) (t : LT) : Option Res :=
  let grp := !t.onManifold
  match op with
  | .Exp => if grp then none else some (.lie t.group)
  | .Log => if grp then some (.lie t.algebra) else none
  | .Inv => some (.lie t)
  | .Mul => some (.lie t)       -- group ∘ group; on an algebra `Mul` is the element-wise `torch.mul(X, Y)` re-wrapped with the same ltype
  | .Act3 => if grp then some (.tensor [3]) else none
  | .Act4 => if grp then some (.tensor [4]) else none
  | .Retr => if grp then some (.lie t) else none
  | .Adj | .AdjT | .Jinvp => if grp then some (.lie t.algebra) else none
  | .add => some (.lie t)
  | .matrix => some (.tensor (if t.group = .SO3 then [3, 3] else [4, 4]))
  | .rotation => some (.lie .SO3)
  | .translation => some (.tensor [3])
  | .scale => some (.tensor [1])
  | .euler => some (.tensor [3])
  | .tensor => some (.tensor [t.dim])
  | .Jr => if t.group = .SO3 then some (.tensor [3, 3]) else none
  | .quat2unit => some (.lie t)
  | .identityLike | .randnLike => some (.lie t)

/-- the full result shape for an operand of lshape `ls` -/
def Res.shape (ls : Shape) : Res → Shape
  | .lie t => ls ++ [t.dim]
  | .tensor tr => ls ++ tr

/-- `LieTensor.__init__`: `assert self.shape[-1:] == ltype.dimension` -/
def initOk (t : LT) (shape : Shape) : Bool := shape.getLast? == some t.dim

/-! ### effects of the handled functions on memory -/

inductive Effect
  | fresh      -- the result lives in new memory
  | view       -- the result may share memory with its first operand; nothing is written
  | inplace    -- the result IS the first operand, whose memory is overwritten
deriving DecidableEq, Repr

def effectOf : Sem → Effect
  | .ident => .view          -- cpu/float/double/to return `self` when nothing changes, detach is a view
  | .reshape => .view
  | .permute => .view
  | .index => .view          -- basic indexing / select / narrow are views (advanced indexing copies: still no write)
  | .split => .view
  | .gather => .fresh
  | .expand => .view         -- expand is a view, repeat/tile copy
  | .join => .fresh
  | .overwrite => .fresh     -- out-of-place scatter / index_copy / index_put / select_scatter
  | .overwriteIn => .inplace
  | .accumulate => .fresh
  | .element => .fresh

/-- the naming convention the property uses: a trailing underscore (not a dunder), or item assignment -/
def inplaceName (n : String) : Bool :=
  (n.toList.getLast? == some '_' && !(n.toList.reverse.take 2 == ['_', '_'])) || n == "__setitem__"

/-- memory: slot ↦ content; `next` = first unused slot -/
structure Store (α : Type) where
  mem : Nat → α
  next : Nat

/-- a handled function with effect `e`, first operand in slot `self`, computing `val`: new store and the slot of the result -/
def applyEffect (e : Effect) (st : Store α) (self : Nat) (val : α) : Store α × Nat :=
  match e with
  | .fresh => (⟨fun s => if s = st.next then val else st.mem s, st.next + 1⟩, st.next)
  | .view => (st, self)
  | .inplace => (⟨fun s => if s = self then val else st.mem s, st.next⟩, self)

def applyHandled (name : String) (st : Store α) (self : Nat) (val : α) : Option (Store α × Nat) :=
  (semOf name).map fun sem => applyEffect (effectOf sem) st self val

/-- a history of handled-function calls on a store: `(name, slot of the first operand, value the function computes)` -/
def runHandled {α : Type} : Store α → List (String × Nat × α) → Option (Store α)
  | st, [] => some st
  | st, (n, self, v) :: rest => match applyHandled n st self v with
    | none => none
    | some r => runHandled r.1 rest

/-! ### where constants get their dtype (round 4, class 25) -/

/-- tensor-creating calls of the anchored files that take the process-wide default dtype (or infer it from python data),
reviewed one by one: `(file, function, call)` with the reason in the comment.  Any other such call must pass `dtype=`,
forward the caller's `**kwargs`, or build an integer tensor from integer literals. -/
def reviewedCreations : List (String × String × String) := [
  -- documented constructor from nested lists / ints: the default tensor type, as `torch.Tensor(…)`
  ("lietensor/lietensor.py", "LieTensor.__new__", "Tensor(*data)"),
  -- `pp.Parameter()` without data: an empty default parameter, as `nn.Parameter()`
  ("lietensor/lietensor.py", "Parameter.__new__", "torch.tensor([])"),
  -- conversion of a NON-tensor argument (python lists / numpy): dtype inferred from the data, as documented
  ("lietensor/convert.py", "mat2SO3", "torch.tensor(mat)"),
  ("lietensor/convert.py", "mat2SE3", "torch.tensor(mat)"),
  ("lietensor/convert.py", "mat2Sim3", "torch.tensor(mat)"),
  ("lietensor/convert.py", "mat2RxSO3", "torch.tensor(mat)"),
  ("lietensor/convert.py", "from_matrix", "torch.tensor(mat)"),
  ("lietensor/convert.py", "euler2SO3", "torch.tensor(euler)"),
  -- integer index range of a python int length: int64 whatever the default float dtype
  ("metric/ape_rpe.py", "matching_time_indices", "torch.arange(len(stamps_1), device=stamps_1.device)")]

/-- cached tensor factories / mutable default arguments of the anchored files that were reviewed (round 5, classes 32 / 29).
`kwargs={}` of `__torch_function__` is the signature torch prescribes; the dict is only read. -/
def reviewedCaches : List (String × String × String) := []
def reviewedDefaults : List (String × String × String) := [("lietensor/lietensor.py", "LieTensor.__torch_function__", "kwargs={}")]

def creationOk (c : String × String × String × String) : Bool :=
  c.2.2.2 == "dtype" || c.2.2.2 == "kwargs" || c.2.2.2 == "intlit" || reviewedCreations.contains (c.1, c.2.1, c.2.2.1)

/-! M2: the class `__torch_function__` is dispatched on -/
inductive Obj | lie (t : Nat) | param (t : Nat) | tensor | other
deriving DecidableEq, Repr

def Obj.erase : Obj → Leaf
  | .lie t | .param t => .lie t
  | .tensor => .tensor
  | .other => .other

/-- `cls` of the classmethod: `Parameter` as soon as one operand is a `pp.Parameter` (torch dispatches on the most derived class) -/
def clsIsParam (args : List Obj) : Bool := args.any fun o => match o with | .param _ => true | _ => false

/-- `wrap(t)`: `if isinstance(t, Tensor) and not isinstance(t, cls)` → `as_subclass(t, LieTensor)` + ltype.
Second component: is the result the SAME python object? With `cls = Parameter` a plain LieTensor in the result (e.g. the
`self` an in-place function returns) is not an instance of `cls` and is wrapped again: same storage, new object, ltype := lt. -/
def wrapObj (isParam : Bool) (lt : Nat) : Obj → Obj × Bool
  | .tensor => (.lie lt, false)
  | .lie t => if isParam then (.lie lt, false) else (.lie t, true)
  | .param t => (.param t, true)
  | .other => (.other, true)

def torchFunctionCls (handled : List String) (name : String) (args res : List Obj) : Option (List (Obj × Bool)) :=
  if res ≠ [] ∧ name ∈ handled then
    match firstLtype (args.map Obj.erase) with
    | none => none
    | some lt => some (res.map (wrapObj (clsIsParam args) lt))
  else some (res.map fun o => (o, true))

/-! M4: what `Mul` (`*`, `@` with a LieTensor, `.mul`, `pp.mul`) does with each kind of partner -/
inductive Partner | sameLie | lieOther (p : LT) | tensor (w : Nat) | scalar
deriving DecidableEq, Repr

/-- `*Type.Mul(X, Y)`: group × LieTensor of the same group → group product; group × any other Tensor → `Act` on "points" of
width 3 or 4 (assertion otherwise) — an ALGEBRA LieTensor partner of width 3 / 4 (so3, rxso3) is taken for points too (whether the
acted "points" come back tagged with the partner's ltype depends on the kernel: SO3 does, the others do not — only kind-free shape here);
group × python scalar → NotImplementedError; algebra × anything → element-wise `torch.mul` re-wrapped with the algebra's ltype -/
def mulSig (t : LT) (p : Partner) : Option Res :=
  if t.onManifold then some (.lie t)
  else match p with
    | .sameLie => some (.lie t)
    | .lieOther q => if q.dim = 3 ∨ q.dim = 4 then some (.tensor [q.dim]) else none
    | .tensor w => if w = 3 then some (.tensor [3]) else if w = 4 then some (.tensor [4]) else none
    | .scalar => none

/-- `LieTensor.add(self, other, alpha)`: `other := alpha * other` first (item-level `scale`), then `addOp` -/
def addAlphaOp (retr : β → α → α) (scale : β → β) (d : Nat) (x : T α) (a : T β) : Option (Out α) :=
  addOp retr d x ⟨a.shape, fun k => scale (a.data k)⟩

/-- `LieType.add_` of an algebra: `input.copy_(other1 + other2[..., :m])` on the expanded clone — plain torch broadcasting;
`plus x a` is the item-level `x + a[:m]` -/
def algAddOp (plus : α → β → α) (d : Nat) (x : T α) (a : T β) : Option (Out α) :=
  match broadcastShapes x.shape a.shape with
  | none => none
  | some shape =>
    match binop plus d d (expandClone x shape) a with
    | none => none
    | some r => if r.shape = shape ∧ r.last = d then some r else none

/-- `LieType.Retr`: `a.Exp() * X` — a unary op on `a`, then the group product site -/
def retrOp (exp : β → γ) (mul : γ → α → α) (dG : Nat) (x : T α) (a : T β) : Option (Out α) :=
  binop mul dG dG ⟨a.shape, (unop exp dG a).data⟩ x

/-! ## views: strided addressing (pass 7)

What torch hands to an op when the operand is a VIEW (`X[::2]`, `X[:, 1]`, `X.expand(…)` of a base tensor): the base storage, an
offset and one stride per dimension — no items are moved.  `View.get` is the address computation; `View.contiguous` is
`.contiguous()` (what `broadcast_inputs` / every op site calls before the kernel runs): the viewed items in row-major order.
`View.slice / select / expand` are torch's own stride rules for the three kinds of views the harness builds. -/

/-- `Σ_k i_k * st_k` -/
def dot : List Nat → List Nat → Nat
  | i :: is, st :: sts => i * st + dot is sts
  | _, _ => 0

/-- strides of a contiguous (row-major) tensor of lshape `s`, in items -/
def cstrides : Shape → List Nat
  | [] => []
  | _ :: s => numel s :: cstrides s

structure View (α : Type) where
  base : Nat → α
  offset : Nat
  strides : List Nat
  shape : Shape

def View.get (v : View α) (i : List Nat) : α := v.base (v.offset + dot i v.strides)

/-- a contiguous tensor seen as a view of itself -/
def View.ofT (t : T α) : View α := ⟨t.data, 0, cstrides t.shape, t.shape⟩

/-- `.contiguous()`: copy the viewed items out in row-major order -/
def View.contiguous (v : View α) : T α := ⟨v.shape, fun k => v.get (unravel v.shape k)⟩

/-- `v[..., start : start + len*step : step, ...]` along `dim` (also `narrow`; `len` positions): offset and stride change, nothing moves -/
def View.slice (v : View α) (dim start step len : Nat) : View α :=
  ⟨v.base, v.offset + start * v.strides.getD dim 0, v.strides.modify dim (· * step), v.shape.set dim len⟩

/-- `v.select(dim, idx)` / `v[..., idx, ...]`: the dimension disappears -/
def View.select (v : View α) (dim idx : Nat) : View α :=
  ⟨v.base, v.offset + idx * v.strides.getD dim 0, v.strides.eraseIdx dim, v.shape.eraseIdx dim⟩

/-- `v.permute(p)` (`transpose`, `swapaxes`, `movedim`, `.mT` of the batch dimensions): strides and extents are permuted, nothing moves;
the same shape rule as `Step.permute` -/
def View.permute (v : View α) (p : List Nat) : View α :=
  ⟨v.base, v.offset, p.map (fun a => v.strides.getD a 0), p.map (fun a => v.shape.getD a 0)⟩

/-- stride rule of `expand` for equal rank: stride 0 where the extent 1 is expanded -/
def expandStridesEq : Shape → List Nat → List Nat
  | n :: s, st :: sts => (if n = 1 then 0 else st) :: expandStridesEq s sts
  | _, _ => []

/-- `v.expand(s')`: new leading dimensions and expanded extent-1 dimensions get stride 0 -/
def View.expand (v : View α) (s' : Shape) : View α :=
  ⟨v.base, v.offset, List.replicate (s'.length - v.shape.length) 0 ++ expandStridesEq v.shape v.strides, s'⟩

/-! ## `retain_ltype` as a state machine

Slots `0,1,2` are the three torch attributes (`forward_ad.make_dual`, `eager_transforms._wrap_tensor_for_grad`,
`vmap._add_batch_dim`); slot `3` is `pypose.lietensor.lietensor.wrapper`, slot `4` is `torch._functorch.vmap.wrapper` — the
places a *nested* `retain_ltype` writes to (see `homeCur`).  A value is an original function or a wrapper around a value.
The model is generic in the *home policy* `H` (where `setattr(import_module(f.__module__), f.__name__, ·)` lands), so that the
code as it is (`homeCur`) and by-slot restoring (`homeSlot`) are two instances of the same theorems. -/
namespace Retain

inductive Fn
  | orig (slot : Nat)      -- an original torch function, living in `slot`
  | wrap (f : Fn)          -- `wrap_function(f)`: a new closure object around `f`
deriving DecidableEq, Repr

abbrev Table := Nat → Fn

def Table.set (t : Table) (slot : Nat) (v : Fn) : Table := fun s => if s = slot then v else t s

/-- a function captured in `TO_BE_WRAPPED`, with the slot it was read from -/
abbrev Cap := Nat × Fn

/-- home policy: the slot that `setattr(import_module(f.__module__), f.__name__, ·)` writes, for `f` captured from slot `s` -/
abbrev Home := Nat → Fn → Nat

/-- **the code BEFORE the D44 repair** (by-name restoring; kept as the model of the reverted code): an original designates its own slot; a wrapper closure carries
`__module__ = 'pypose.lietensor.lietensor'`, `__name__ = 'wrapper'` (slot 3) — except the one found in slot 2
(`vmap._add_batch_dim`) at entry, whose `__module__` the first line of `retain_ltype` has just overwritten with
`'torch._functorch.vmap'`: it designates `torch._functorch.vmap.wrapper` (slot 4, an attribute of a PyTorch module) -/
def homeCur : Home := fun s f => match f with
  | .orig k => k
  | .wrap _ => if s = 2 then 4 else 3

/-- **the code as it is** (since D44: `saved = [(module, name, getattr(module, name)) …]`, `setattr(module, name, wrap(func))`,
`finally: setattr(module, name, func)`): every captured function is wrapped in, and goes back to, the slot it was read from -/
def homeSlot : Home := fun s _ => s

/-- what the body of the `with` block (or the function wrapped by `func.jacrev`) does -/
inductive Body
  | ret                                            -- returns normally
  | raise                                          -- raises
  | call (slot : Nat) (k : Body)                   -- calls the (patched) torch function in `slot`, then continues
  | nest (ord : List Nat) (inner : Body) (k : Body) -- a nested `retain_ltype()` (its own set iteration order `ord`), then continues
  | try_ (inner : Body) (handler : Body) (k : Body) -- `try: inner  except: handler` then continues
deriving Repr

inductive Outcome | ok | raised
deriving DecidableEq, Repr

/-- `TO_BE_WRAPPED` at entry, in the (arbitrary, per context) iteration order `ord` of the set -/
def captured (t : Table) (ord : List Nat) : List Cap := ord.map fun s => (s, t s)

/-- `for func in TO_BE_WRAPPED: setattr(module(func), name(func), wrap_function(func))` -/
def patch (H : Home) (t : Table) : List Cap → Table
  | [] => t
  | c :: cs => patch H (t.set (H c.1 c.2) (.wrap c.2)) cs

/-- the `finally:` loop -/
def restore (H : Home) (t : Table) : List Cap → Table
  | [] => t
  | c :: cs => restore H (t.set (H c.1 c.2) c.2) cs

/-- run a body: final table, outcome, log of the function objects its calls found in their slots -/
def run (H : Home) : Table → Body → Table × Outcome × List Fn
  | t, .ret => (t, .ok, [])
  | t, .raise => (t, .raised, [])
  | t, .call s k => let (t', o, log) := run H t k; (t', o, t s :: log)
  | t, .nest ord inner k =>
    let fs := captured t ord
    match run H (patch H t fs) inner with
    | (t1, .ok, log1) => let (t', o, log) := run H (restore H t1 fs) k; (t', o, log1 ++ log)
    | (t1, .raised, log1) => (restore H t1 fs, .raised, log1)
  | t, .try_ inner h k =>
    match run H t inner with
    | (t1, .ok, l1) => let (t', o, l) := run H t1 k; (t', o, l1 ++ l)
    | (t1, .raised, l1) =>
      match run H t1 h with
      | (t2, .ok, l2) => let (t', o, l) := run H t2 k; (t', o, l1 ++ l2 ++ l)
      | (t2, .raised, l2) => (t2, .raised, l1 ++ l2)

/-- `with retain_ltype(): body`; `failAt = some j`: the patch loop itself raises after `j` assignments -/
def retain (H : Home) (ord : List Nat) (t : Table) (body : Body) (failAt : Option Nat) : Table × Outcome × List Fn :=
  let fs := captured t ord
  match failAt with
  | some j => (restore H (patch H t (fs.take j)) fs, .raised, [])
  | none =>
    match run H (patch H t fs) body with
    | (t', o, log) => (restore H t' fs, o, log)

/-- contexts entered one after the other on the same table (decorator form / a `jacrev` wrapper called again and again) -/
def history (H : Home) : Table → List (List Nat × Body × Option Nat) → Table
  | t, [] => t
  | t, (ord, b, fa) :: rest => history H (retain H ord t b fa).1 rest

/-- a legal iteration order: exactly the three torch slots, in some order (possibly with repetitions) -/
def okOrd (ord : List Nat) : Prop := (∀ s ∈ ord, s < 3) ∧ ∀ s, s < 3 → s ∈ ord

/-- every nested context of the body iterates over the three torch slots, every call goes to one of them -/
def Body.ok : Body → Prop
  | .ret | .raise => True
  | .call s k => s < 3 ∧ k.ok
  | .nest ord inner k => okOrd ord ∧ inner.ok ∧ k.ok
  | .try_ inner h k => inner.ok ∧ h.ok ∧ k.ok

def nestN (ord : List Nat) : Nat → Body → Body
  | 0, b => b
  | n + 1, b => .nest ord (nestN ord n b) .ret

def Body.depth : Body → Nat
  | .ret | .raise => 0
  | .call _ k => k.depth
  | .nest _ inner k => max (inner.depth + 1) k.depth
  | .try_ inner h k => max inner.depth (max h.depth k.depth)

/-- every torch slot holds the wrapper of its original -/
def Patched (t : Table) : Prop := ∀ s, s < 3 → t s = Fn.wrap (Fn.orig s)

def pristine : Table := fun q => Fn.orig q

/-- every torch slot holds SOME wrapper -/
def Wrapped (t : Table) : Prop := ∀ s, s < 3 → ∃ g, t s = Fn.wrap g

end Retain

end PP.Batch
