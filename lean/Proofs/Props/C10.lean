import Proofs.Lemmas.LinSolve
import Proofs.Lemmas.LinSolveMat
import Proofs.Lemmas.SparseMM
import Proofs.Lemmas.C10Support
/-!
# C10 — linear solvers and sparse products return correct solutions or fail loudly

Property theorems only (helpers: `Proofs/Lemmas/LinSolve.lean`, `LinSolveMat.lean`, `CGKrylov.lean`, `SparseMM.lean`).
Models: `Pose/Model/LinSolve.lean` (`PINV`, `LSTSQ`, `Cholesky`, `CG`), `Pose/Model/SparseMM.lean`
(`bsr_bsc_matmul`, `_sparse_csr_mm`), everything at `α = ℝ`.

Vectors / matrices of the model are index functions (`Nat → ℝ`, `Nat → Nat → ℝ`, only indices `< n` matter);
`toVec`, `toMat` turn them into Mathlib's `Fin n → ℝ`, `Matrix (Fin m) (Fin n) ℝ`; `nrm2 v = v ⬝ᵥ v`.
External kernels (`svd`/`eigh`/`pinv`, `lstsq`, `cholesky_ex`, `cholesky_solve`, `addmm`, layout conversion) enter as
hypotheses (an orthonormal decomposition, `IsPinv`, `CholContract`, the normal equations for `lstsq`).
Only theorems that carry a clause of the property live here; facts about the model's own stand-ins, `rfl`-level equalities
and map-lifts to call lists are in `Proofs/Lemmas/C10Support.lean`.
-/
open Finset Matrix

namespace PP.LinSolve

/-! ## PINV / LSTSQ: least-squares and minimum-norm certificates -/

/-- **`lstsq_certificate`** — a vector satisfying the normal equations `Aᵀ(Ax − b) = 0` minimises `‖Ay − b‖` over
ALL `y`, for every rectangular / rank-deficient `A`. -/
theorem lstsq_certificate {m n : ℕ} (A : Matrix (Fin m) (Fin n) ℝ) (b : Fin m → ℝ) (x : Fin n → ℝ)
    (h : Aᵀ *ᵥ (A *ᵥ x - b) = 0) : ∀ y, nrm2 (A *ᵥ x - b) ≤ nrm2 (A *ᵥ y - b) :=
  ls_certificate A b x h

/-- the certificate is exact: `x` minimises `‖Ay − b‖` IF AND ONLY IF it satisfies the normal equations (so checking
the certificate on the implementation's answer decides "is a least-squares solution"). -/
theorem lstsq_certificate_iff {m n : ℕ} (A : Matrix (Fin m) (Fin n) ℝ) (b : Fin m → ℝ) (x : Fin n → ℝ) :
    (∀ y, nrm2 (A *ᵥ x - b) ≤ nrm2 (A *ᵥ y - b)) ↔ Aᵀ *ᵥ (A *ᵥ x - b) = 0 :=
  ⟨ls_certificate_converse A b x, ls_certificate A b x⟩

/-- with full column rank the least-squares solution is unique (what `ls.ref` compares LSTSQ against) -/
theorem lstsq_unique_full_rank {m n : ℕ} (A : Matrix (Fin m) (Fin n) ℝ) (b : Fin m → ℝ)
    (hfull : ∀ v : Fin n → ℝ, A *ᵥ v = 0 → v = 0) (x y : Fin n → ℝ)
    (hx : Aᵀ *ᵥ (A *ᵥ x - b) = 0) (hy : Aᵀ *ᵥ (A *ᵥ y - b) = 0) : y = x :=
  ls_unique_of_full_rank A b hfull x y hx hy

/-- a least-squares solution in the range of `Aᵀ` is THE minimum-norm one: no other least-squares solution is
shorter, and any of the same length is equal to it. -/
theorem lstsq_minnorm_unique {m n : ℕ} (A : Matrix (Fin m) (Fin n) ℝ) (b : Fin m → ℝ) (x : Fin n → ℝ)
    (w : Fin m → ℝ) (hx : Aᵀ *ᵥ (A *ᵥ x - b) = 0) (hrange : x = Aᵀ *ᵥ w) :
    ∀ y, Aᵀ *ᵥ (A *ᵥ y - b) = 0 → nrm2 x ≤ nrm2 y ∧ (nrm2 y = nrm2 x → y = x) :=
  fun y hy => minnorm_certificate A b x w hx hrange y hy

/-- **`PINV.forward`** (`pinv(A) @ b`): whenever the kernel's matrix satisfies the four Moore–Penrose conditions,
the returned vector is a least-squares solution of `A x = b` and the minimum-norm one — any `m`, `n`, any rank. -/
theorem pinv_forward_minnorm (m n : Nat) (A P : Nat → Nat → ℝ) (b : Nat → ℝ)
    (hP : IsPinv (toMat m n A) (toMat n m P)) :
    let x := toVec n (pinvForward m n P b).get
    (∀ y, nrm2 (toMat m n A *ᵥ x - toVec m b) ≤ nrm2 (toMat m n A *ᵥ y - toVec m b)) ∧
    (∀ y, (toMat m n A)ᵀ *ᵥ (toMat m n A *ᵥ y - toVec m b) = 0 → nrm2 x ≤ nrm2 y ∧ (nrm2 y = nrm2 x → y = x)) := by
  intro x
  have hx : x = toMat n m P *ᵥ toVec m b := toVec_pinvForward m n P b
  have hn : (toMat m n A)ᵀ *ᵥ (toMat m n A *ᵥ x - toVec m b) = 0 := by
    rw [hx]; exact penrose_normal _ _ _ hP.h1 hP.h3
  have hr : x = (toMat m n A)ᵀ *ᵥ ((toMat n m P)ᵀ *ᵥ (toMat n m P *ᵥ toVec m b)) := by
    rw [hx]; exact penrose_range _ _ _ hP.h2 hP.h4
  exact ⟨ls_certificate _ _ _ hn, fun y hy => minnorm_certificate _ _ x _ hn hr y hy⟩

/-- **`LSTSQ.forward`**, kernel contract ⟹ conclusion.  Contract of `torch.linalg.lstsq` for the call at hand: the kernel's
result for `(A, b)` — `none` when it contains a NaN — satisfies the normal equations of `A x = b` (true of gelsy / gelsd /
gelss on every input and of gels on full-rank input; gels on rank-deficient input VIOLATES this contract, and the harness
runs gels on full-rank systems only).  Then: a NaN result never comes back (the assertion raises), and whatever comes
back is the kernel's vector, unchanged, and minimises `‖A y − b‖` over all `y`. -/
theorem lstsq_forward_ls (m n : Nat) (A : Nat → Nat → ℝ) (b : Nat → ℝ) (sol : Option (Nat → ℝ))
    (hK : ∀ xs, sol = some xs → (toMat m n A)ᵀ *ᵥ (toMat m n A *ᵥ toVec n xs - toVec m b) = 0) :
    (sol = none → ∃ e, lstsqForward n sol = .error e) ∧
    (∀ x, lstsqForward n sol = .ok x →
      (∃ xs, sol = some xs ∧ toVec n x.get = toVec n xs) ∧
      ∀ y, nrm2 (toMat m n A *ᵥ toVec n x.get - toVec m b) ≤ nrm2 (toMat m n A *ᵥ y - toVec m b)) := by
  refine ⟨fun h => by subst h; exact lstsqForward_none n, fun x hx => ?_⟩
  obtain ⟨xs, hs, hxs⟩ := lstsqForward_ok n sol x hx
  have e : toVec n x.get = toVec n xs := by rw [hxs, toVec_tab]
  exact ⟨⟨xs, hs, e⟩, by rw [e]; exact ls_certificate _ _ _ (hK xs hs)⟩

/-! ### the truncated-SVD law (pass 3): `pinv` reduced to a singular value decomposition -/

/-- **Truncated-SVD law** over an abstract SVD: for ANY factors with orthonormal columns (`UᵀU = 1`, `VᵀV = 1`), any
singular values and any cut-off `≥ 0`, `P = V Σ⁺_cut Uᵀ` is the Moore–Penrose inverse of the TRUNCATED matrix
`A_cut = U Σ_cut Vᵀ` — hence `P b` is the minimum-norm least-squares solution of the truncated system.  (This is the law
of the configured tolerances `atol` / `rtol` / `rcond`; for the statement about `A x = b` itself see `tsvd_law_exact`.) -/
theorem tsvd_law {m n r : ℕ} (U : Matrix (Fin m) (Fin r) ℝ) (V : Matrix (Fin n) (Fin r) ℝ) (σ : Fin r → ℝ) (cut : ℝ)
    (hU : Uᵀ * U = 1) (hV : Vᵀ * V = 1) (hc : 0 ≤ cut) (b : Fin m → ℝ) :
    let A := U * diagonal (svKeep σ cut) * Vᵀ
    let P := V * diagonal (svInv σ cut) * Uᵀ
    IsPinv A P ∧
    (∀ y, nrm2 (A *ᵥ (P *ᵥ b) - b) ≤ nrm2 (A *ᵥ y - b)) ∧
    (∀ y, Aᵀ *ᵥ (A *ᵥ y - b) = 0 → nrm2 (P *ᵥ b) ≤ nrm2 y ∧ (nrm2 y = nrm2 (P *ᵥ b) → y = P *ᵥ b)) := by
  intro A P
  have h := tsvd_isPinv U V σ cut hU hV hc
  exact ⟨h, isPinv_minnorm A P b h⟩

/-- **…about `A x = b` itself**: if `A = U Σ Vᵀ` is a singular value decomposition and every singular value is either
above the cut-off or exactly zero (the default cut-off `max(m,n)·eps·σ₁` on an exactly rank-deficient or full-rank `A`),
then `P = V Σ⁺_cut Uᵀ` is the Moore–Penrose inverse of `A`, and `P b` is THE minimum-norm least-squares solution of
`A x = b` — for every shape and every rank. -/
theorem tsvd_law_exact {m n r : ℕ} (A : Matrix (Fin m) (Fin n) ℝ) (U : Matrix (Fin m) (Fin r) ℝ)
    (V : Matrix (Fin n) (Fin r) ℝ) (σ : Fin r → ℝ) (cut : ℝ)
    (hA : A = U * diagonal σ * Vᵀ) (hU : Uᵀ * U = 1) (hV : Vᵀ * V = 1) (hc : 0 ≤ cut)
    (hgap : ∀ i, cut < σ i ∨ σ i = 0) (b : Fin m → ℝ) :
    let P := V * diagonal (svInv σ cut) * Uᵀ
    IsPinv A P ∧
    (∀ y, nrm2 (A *ᵥ (P *ᵥ b) - b) ≤ nrm2 (A *ᵥ y - b)) ∧
    (∀ y, Aᵀ *ᵥ (A *ᵥ y - b) = 0 → nrm2 (P *ᵥ b) ≤ nrm2 y ∧ (nrm2 y = nrm2 (P *ᵥ b) → y = P *ᵥ b)) := by
  intro P
  have h := tsvd_isPinv_exact A U V σ cut hA hU hV hc hgap
  exact ⟨h, isPinv_minnorm A P b h⟩

/-- **`PINV.forward` with the kernel unfolded to an SVD** (`pinvForwardSvd`: tolerance defaulting `pinvCutoff`, reciprocal
of the singular values above the cut-off, `V Σ⁺ Uᵀ b`): for every `atol ≥ 0` / `rtol` / defaults, the returned vector is
the minimum-norm least-squares solution of the system truncated at the documented cut-off. -/
theorem pinv_svd_forward_minnorm (m n r : Nat) (U V : Nat → Nat → ℝ) (σ : Nat → ℝ) (atol rtol : Option ℝ) (eps : ℝ)
    (b : Nat → ℝ) (hU : (toMat m r U)ᵀ * toMat m r U = 1) (hV : (toMat n r V)ᵀ * toMat n r V = 1)
    (ha : ∀ a, atol = some a → 0 ≤ a) :
    let cut := pinvCutoff atol rtol m n eps (σ 0)
    let A := toMat m r U * diagonal (svKeep (toVec r σ) cut) * (toMat n r V)ᵀ
    let x := toVec n (pinvForwardSvd m n r U V σ atol rtol eps b).get
    (∀ y, nrm2 (A *ᵥ x - toVec m b) ≤ nrm2 (A *ᵥ y - toVec m b)) ∧
    (∀ y, Aᵀ *ᵥ (A *ᵥ y - toVec m b) = 0 → nrm2 x ≤ nrm2 y ∧ (nrm2 y = nrm2 x → y = x)) := by
  intro cut A x
  have hx : x = (toMat n r V * diagonal (svInv (toVec r σ) cut) * (toMat m r U)ᵀ) *ᵥ toVec m b := by
    show toVec n (pinvForward m n _ b).get = _
    rw [toVec_pinvForward, toMat_pinvOfSvd]
  have hc : 0 ≤ cut := pinvCutoff_nonneg atol rtol m n eps (σ 0) ha
  have h := tsvd_isPinv (toMat m r U) (toMat n r V) (toVec r σ) cut hU hV hc
  rw [hx]
  exact isPinv_minnorm A _ (toVec m b) h

/-- **`PINV.forward` solves `A x = b` in the least-squares, minimum-norm sense** (kernel unfolded to an SVD): whenever
`(U, σ, V)` is a singular value decomposition of `A` and no non-zero singular value lies at or below the cut-off computed
from the solver's `atol` / `rtol` / defaults, the vector returned by the model `pinvForwardSvd` minimises `‖A y − b‖` and
has the smallest norm among the minimisers. -/
theorem pinv_svd_forward_minnorm_exact (m n r : Nat) (A U V : Nat → Nat → ℝ) (σ : Nat → ℝ) (atol rtol : Option ℝ) (eps : ℝ)
    (b : Nat → ℝ) (hA : toMat m n A = toMat m r U * diagonal (toVec r σ) * (toMat n r V)ᵀ)
    (hU : (toMat m r U)ᵀ * toMat m r U = 1) (hV : (toMat n r V)ᵀ * toMat n r V = 1)
    (ha : ∀ a, atol = some a → 0 ≤ a)
    (hgap : ∀ t, t < r → pinvCutoff atol rtol m n eps (σ 0) < σ t ∨ σ t = 0) :
    let x := toVec n (pinvForwardSvd m n r U V σ atol rtol eps b).get
    (∀ y, nrm2 (toMat m n A *ᵥ x - toVec m b) ≤ nrm2 (toMat m n A *ᵥ y - toVec m b)) ∧
    (∀ y, (toMat m n A)ᵀ *ᵥ (toMat m n A *ᵥ y - toVec m b) = 0 → nrm2 x ≤ nrm2 y ∧ (nrm2 y = nrm2 x → y = x)) := by
  intro x
  have hx : x = (toMat n r V * diagonal (svInv (toVec r σ) (pinvCutoff atol rtol m n eps (σ 0))) * (toMat m r U)ᵀ)
      *ᵥ toVec m b := by
    show toVec n (pinvForward m n _ b).get = _
    rw [toVec_pinvForward, toMat_pinvOfSvd]
  have hc := pinvCutoff_nonneg atol rtol m n eps (σ 0) ha
  have h := tsvd_isPinv_exact (toMat m n A) (toMat m r U) (toMat n r V) (toVec r σ) _ hA hU hV hc
    (fun i => hgap i.val i.isLt)
  rw [hx]
  exact isPinv_minnorm _ _ (toVec m b) h

/-- **`LSTSQ.forward` with `rcond` on an SVD driver (`gelsd`, `gelss`)** — the clause that pass 3 left to wrapper
correspondence.  Model `lstsqForwardSvd`: threshold `lstsqCutoff` (`rcond = None` ↦ `max(m,n)·eps`, `rcond < 0` ↦ the
driver's machine precision, else `rcond`; times `σ₁`), reciprocals of the singular values strictly above it,
`V Σ⁺ Uᵀ b`, then the NaN assertion.  For every orthonormal pair of factors, every spectrum and every `rcond`: the call
returns (no assertion), and the returned vector is the minimum-norm least-squares solution of the system truncated at
the threshold. -/
theorem lstsq_rcond_svd_forward_minnorm (m n r : Nat) (U V : Nat → Nat → ℝ) (σ : Nat → ℝ) (rcond : Option ℝ)
    (eps mach : ℝ) (b : Nat → ℝ) (hU : (toMat m r U)ᵀ * toMat m r U = 1) (hV : (toMat n r V)ᵀ * toMat n r V = 1)
    (he : 0 ≤ eps) (hm : 0 ≤ mach) (hs : 0 ≤ σ 0) :
    let cut := lstsqCutoff rcond m n eps mach (σ 0)
    let A := toMat m r U * diagonal (svKeep (toVec r σ) cut) * (toMat n r V)ᵀ
    ∃ xt, lstsqForwardSvd m n r U V σ rcond eps mach b = .ok xt ∧
      (∀ y, nrm2 (A *ᵥ toVec n xt.get - toVec m b) ≤ nrm2 (A *ᵥ y - toVec m b)) ∧
      (∀ y, Aᵀ *ᵥ (A *ᵥ y - toVec m b) = 0 →
        nrm2 (toVec n xt.get) ≤ nrm2 y ∧ (nrm2 y = nrm2 (toVec n xt.get) → y = toVec n xt.get)) := by
  intro cut A
  obtain ⟨xt, hok, hx⟩ := lstsqForwardSvd_ok m n r U V σ rcond eps mach b
  refine ⟨xt, hok, ?_⟩
  have hc : 0 ≤ cut := lstsqCutoff_nonneg rcond m n eps mach (σ 0) he hm hs
  have h := tsvd_isPinv (toMat m r U) (toMat n r V) (toVec r σ) cut hU hV hc
  rw [hx]
  exact isPinv_minnorm A _ (toVec m b) h

/-- **`LSTSQ.forward` (SVD drivers) solves `A x = b` in the least-squares, minimum-norm sense**: whenever `(U, σ, V)` is
a singular value decomposition of `A` and no non-zero singular value lies at or below `rcond·σ₁` (with the documented
defaulting), the returned vector minimises `‖A y − b‖` and has the smallest norm among the minimisers. -/
theorem lstsq_rcond_svd_forward_minnorm_exact (m n r : Nat) (A U V : Nat → Nat → ℝ) (σ : Nat → ℝ) (rcond : Option ℝ)
    (eps mach : ℝ) (b : Nat → ℝ) (hA : toMat m n A = toMat m r U * diagonal (toVec r σ) * (toMat n r V)ᵀ)
    (hU : (toMat m r U)ᵀ * toMat m r U = 1) (hV : (toMat n r V)ᵀ * toMat n r V = 1)
    (he : 0 ≤ eps) (hm : 0 ≤ mach) (hs : 0 ≤ σ 0)
    (hgap : ∀ t, t < r → lstsqCutoff rcond m n eps mach (σ 0) < σ t ∨ σ t = 0) :
    ∃ xt, lstsqForwardSvd m n r U V σ rcond eps mach b = .ok xt ∧
      (∀ y, nrm2 (toMat m n A *ᵥ toVec n xt.get - toVec m b) ≤ nrm2 (toMat m n A *ᵥ y - toVec m b)) ∧
      (∀ y, (toMat m n A)ᵀ *ᵥ (toMat m n A *ᵥ y - toVec m b) = 0 →
        nrm2 (toVec n xt.get) ≤ nrm2 y ∧ (nrm2 y = nrm2 (toVec n xt.get) → y = toVec n xt.get)) := by
  obtain ⟨xt, hok, hx⟩ := lstsqForwardSvd_ok m n r U V σ rcond eps mach b
  refine ⟨xt, hok, ?_⟩
  have hc := lstsqCutoff_nonneg rcond m n eps mach (σ 0) he hm hs
  have h := tsvd_isPinv_exact (toMat m n A) (toMat m r U) (toMat n r V) (toVec r σ) _ hA hU hV hc
    (fun i => hgap i.val i.isLt)
  rw [hx]
  exact isPinv_minnorm _ _ (toVec m b) h

/-- **the `rcond` defaulting table of `torch.linalg.lstsq`** (SVD drivers): `None` ↦ `max(m,n)·eps·σ₁`; negative ↦
machine precision of the driver times `σ₁`; otherwise `rcond·σ₁`. -/
theorem lstsq_rcond_defaulting (m n : Nat) (eps mach s1 r : ℝ) :
    lstsqCutoff none m n eps mach s1 = (max m n : ℕ) * eps * s1 ∧
    (r < 0 → lstsqCutoff (some r) m n eps mach s1 = mach * s1) ∧
    (0 ≤ r → lstsqCutoff (some r) m n eps mach s1 = r * s1) :=
  lstsqCutoff_cases m n eps mach s1 r

/-- **`LSTSQ.forward` on an orthogonal-factorisation driver (the default `gelsy`)** — so far wrapper correspondence only.
Whatever numerical rank `r` the driver decides on: if `Q : m × r`, `Z : n × r` have orthonormal columns and `T` is invertible
(`A_r = Q T Zᵀ` is the part of `A` the driver keeps — a complete orthogonal decomposition; LAPACK's `T` is triangular, which
is not needed), then the model `lstsqForwardCod` (`x = Z T⁻¹ Qᵀ b`, then the NaN assertion) returns, and the returned
vector is the minimum-norm least-squares solution of `A_r x = b`. -/
theorem lstsq_cod_forward_minnorm (m n r : Nat) (Q Z T Ti : Nat → Nat → ℝ) (b : Nat → ℝ)
    (hQ : (toMat m r Q)ᵀ * toMat m r Q = 1) (hZ : (toMat n r Z)ᵀ * toMat n r Z = 1)
    (hT : toMat r r T * toMat r r Ti = 1) :
    let A := toMat m r Q * toMat r r T * (toMat n r Z)ᵀ
    ∃ xt, lstsqForwardCod m n r Q Z Ti b = .ok xt ∧
      (∀ y, nrm2 (A *ᵥ toVec n xt.get - toVec m b) ≤ nrm2 (A *ᵥ y - toVec m b)) ∧
      (∀ y, Aᵀ *ᵥ (A *ᵥ y - toVec m b) = 0 →
        nrm2 (toVec n xt.get) ≤ nrm2 y ∧ (nrm2 y = nrm2 (toVec n xt.get) → y = toVec n xt.get)) := by
  intro A
  obtain ⟨xt, hok, hx⟩ := lstsqForwardCod_ok m n r Q Z Ti b
  refine ⟨xt, hok, ?_⟩
  rw [hx]
  exact isPinv_minnorm A _ (toVec m b) (cod_isPinv _ _ _ _ hQ hZ hT)

/-- **… and of `A x = b` itself** when the decomposition is one of `A` (nothing discarded: `A = Q T Zᵀ`, e.g. `r = rank A`):
the returned vector minimises `‖A y − b‖` and is the shortest minimiser; if the system is consistent it solves it exactly. -/
theorem lstsq_cod_forward_minnorm_exact (m n r : Nat) (A Q Z T Ti : Nat → Nat → ℝ) (b : Nat → ℝ)
    (hA : toMat m n A = toMat m r Q * toMat r r T * (toMat n r Z)ᵀ)
    (hQ : (toMat m r Q)ᵀ * toMat m r Q = 1) (hZ : (toMat n r Z)ᵀ * toMat n r Z = 1)
    (hT : toMat r r T * toMat r r Ti = 1) :
    ∃ xt, lstsqForwardCod m n r Q Z Ti b = .ok xt ∧
      (∀ y, nrm2 (toMat m n A *ᵥ toVec n xt.get - toVec m b) ≤ nrm2 (toMat m n A *ᵥ y - toVec m b)) ∧
      (∀ y, (toMat m n A)ᵀ *ᵥ (toMat m n A *ᵥ y - toVec m b) = 0 →
        nrm2 (toVec n xt.get) ≤ nrm2 y ∧ (nrm2 y = nrm2 (toVec n xt.get) → y = toVec n xt.get)) ∧
      (∀ y, toMat m n A *ᵥ y = toVec m b → toMat m n A *ᵥ toVec n xt.get = toVec m b) := by
  obtain ⟨xt, hok, hx⟩ := lstsqForwardCod_ok m n r Q Z Ti b
  have hP := cod_isPinv _ _ _ _ hQ hZ hT
  rw [← hA] at hP
  refine ⟨xt, hok, ?_⟩
  rw [hx]
  have h := isPinv_minnorm _ _ (toVec m b) hP
  exact ⟨h.1, h.2, fun y hy => (isPinv_consistent _ _ _ hP y hy).1⟩

/-- **A consistent system** (the clause the shortcut of round-6 seed C07-6 broke): if `A y = b` has a solution at all, the
vector `P b` computed from the Moore–Penrose inverse (contract `IsPinv` of the kernel; derived from an SVD in `tsvd_law`)
solves the system exactly, is no longer than ANY solution `y`, and every other solution is strictly longer — so on a
singular square `A` an "exact solve" that returns a solution with a component in `null(A)` is NOT what `PINV.forward`
returns. -/
theorem pinv_forward_consistent (m n : Nat) (A P : Nat → Nat → ℝ) (b : Nat → ℝ) (hP : IsPinv (toMat m n A) (toMat n m P))
    (y : Fin n → ℝ) (hy : toMat m n A *ᵥ y = toVec m b) :
    let x := toVec n (pinvForward m n P b).get
    toMat m n A *ᵥ x = toVec m b ∧ nrm2 x ≤ nrm2 y ∧ (nrm2 y = nrm2 x → y = x) := by
  intro x
  have hx : x = toMat n m P *ᵥ toVec m b := toVec_pinvForward m n P b
  rw [hx]
  exact isPinv_consistent _ _ _ hP y hy

/-- **A nonsingular square system**: `PINV.forward` returns THE solution `A⁻¹ b` (the only regime in which a direct solve
and the pseudo-inverse agree). -/
theorem pinv_forward_nonsingular (n : Nat) (A Ai P : Nat → Nat → ℝ) (b : Nat → ℝ)
    (hP : IsPinv (toMat n n A) (toMat n n P)) (hA : toMat n n Ai * toMat n n A = 1) :
    toVec n (pinvForward n n P b).get = toMat n n Ai *ᵥ toVec n b := by
  rw [toVec_pinvForward]
  exact isPinv_nonsingular _ _ _ _ hP hA

/-- **All least-squares solvers return the same vector.**  Two kernels that satisfy the Moore–Penrose contract for the same
matrix (`torch.linalg.pinv` behind `PINV`, any of the `lstsq` drivers behind `LSTSQ`, each through whatever factorisation)
give the same `PINV.forward` result for every right-hand side — and the pseudo-inverses themselves coincide. -/
theorem ls_solvers_agree (m n : Nat) (A P₁ P₂ : Nat → Nat → ℝ) (b : Nat → ℝ)
    (h₁ : IsPinv (toMat m n A) (toMat n m P₁)) (h₂ : IsPinv (toMat m n A) (toMat n m P₂)) :
    toVec n (pinvForward m n P₁ b).get = toVec n (pinvForward m n P₂ b).get ∧ toMat n m P₁ = toMat n m P₂ := by
  rw [toVec_pinvForward, toVec_pinvForward]
  exact ⟨isPinv_solution_unique _ _ _ _ h₁ h₂, isPinv_unique _ _ _ h₁ h₂⟩

/-- **The default driver and the SVD route agree**: for ANY complete orthogonal decomposition `A = Q T Zᵀ` and ANY singular
value decomposition `A = U Σ Vᵀ` of the same matrix, with no non-zero singular value at or below the documented cut-off
`max(atol, rtol·σ₁)` (defaults included), the model of `LSTSQ.forward` on gelsy (`lstsqForwardCod`) and the model of
`PINV.forward` (`pinvForwardSvd`) return the same vector. -/
theorem lstsq_cod_eq_pinv_svd (m n r r' : Nat) (A Q Z T Ti U V : Nat → Nat → ℝ) (σ : Nat → ℝ) (atol rtol : Option ℝ)
    (eps : ℝ) (b : Nat → ℝ)
    (hA : toMat m n A = toMat m r Q * toMat r r T * (toMat n r Z)ᵀ)
    (hQ : (toMat m r Q)ᵀ * toMat m r Q = 1) (hZ : (toMat n r Z)ᵀ * toMat n r Z = 1)
    (hT : toMat r r T * toMat r r Ti = 1)
    (hA' : toMat m n A = toMat m r' U * diagonal (toVec r' σ) * (toMat n r' V)ᵀ)
    (hU : (toMat m r' U)ᵀ * toMat m r' U = 1) (hV : (toMat n r' V)ᵀ * toMat n r' V = 1)
    (ha : ∀ a, atol = some a → 0 ≤ a)
    (hgap : ∀ t, t < r' → pinvCutoff atol rtol m n eps (σ 0) < σ t ∨ σ t = 0) :
    ∃ xt, lstsqForwardCod m n r Q Z Ti b = .ok xt ∧
      toVec n xt.get = toVec n (pinvForwardSvd m n r' U V σ atol rtol eps b).get := by
  obtain ⟨xt, hok, hx⟩ := lstsqForwardCod_ok m n r Q Z Ti b
  refine ⟨xt, hok, ?_⟩
  have h₁ := cod_isPinv _ _ _ _ hQ hZ hT
  rw [← hA] at h₁
  have h₂ := tsvd_isPinv_exact (toMat m n A) (toMat m r' U) (toMat n r' V) (toVec r' σ) _ hA' hU hV
    (pinvCutoff_nonneg atol rtol m n eps (σ 0) ha) (fun i => hgap i.val i.isLt)
  have hs : toVec n (pinvForwardSvd m n r' U V σ atol rtol eps b).get
      = (toMat n r' V * diagonal (svInv (toVec r' σ) (pinvCutoff atol rtol m n eps (σ 0))) * (toMat m r' U)ᵀ) *ᵥ toVec m b := by
    show toVec n (pinvForward m n _ b).get = _
    rw [toVec_pinvForward, toMat_pinvOfSvd]
  rw [hx, hs]
  exact isPinv_solution_unique _ _ _ _ h₁ h₂

/-- **`PINV(hermitian=True).forward`** (the branch `pinv(..., hermitian=self.hermitian)` of solver.py): the kernel
diagonalises the symmetric matrix it reads from one triangle, `A = Q Λ Qᵀ`, takes `|λ|` as singular values and returns
`Q Λ⁺_cut Qᵀ b`.  For every orthogonal `Q`, every spectrum (indefinite, singular) and every tolerance setting this is the
minimum-norm least-squares solution of the system whose eigenvalues of modulus `≤ cut` are replaced by zero — and of
`A x = b` itself when no non-zero eigenvalue is that small. -/
theorem pinv_hermitian_forward_minnorm (n : Nat) (Q : Nat → Nat → ℝ) (lam : Nat → ℝ) (atol rtol : Option ℝ) (eps : ℝ)
    (b : Nat → ℝ) (hQ : (toMat n n Q)ᵀ * toMat n n Q = 1) (ha : ∀ a, atol = some a → 0 ≤ a) :
    let cut := pinvCutoff atol rtol n n eps (maxN n fun t => sabs (lam t))
    let A := toMat n n Q * diagonal (fun i : Fin n => if cut < |lam i| then lam i else 0) * (toMat n n Q)ᵀ
    let x := toVec n (pinvForwardEigh n Q lam atol rtol eps b).get
    (∀ y, nrm2 (A *ᵥ x - toVec n b) ≤ nrm2 (A *ᵥ y - toVec n b)) ∧
    (∀ y, Aᵀ *ᵥ (A *ᵥ y - toVec n b) = 0 → nrm2 x ≤ nrm2 y ∧ (nrm2 y = nrm2 x → y = x)) ∧
    ((∀ i : Fin n, cut < |lam i| ∨ lam i = 0) → A = toMat n n Q * diagonal (toVec n lam) * (toMat n n Q)ᵀ) := by
  intro cut A x
  have hx : x = toMat n n (pinvOfEigh n Q lam cut) *ᵥ toVec n b := by
    show toVec n (pinvForward n n _ b).get = _
    rw [toVec_pinvForward]
  have hc : 0 ≤ cut := pinvCutoff_nonneg atol rtol n n eps _ ha
  have h := eigh_isPinv n Q lam cut hQ hc
  rw [hx]
  refine ⟨(isPinv_minnorm A _ (toVec n b) h).1, (isPinv_minnorm A _ (toVec n b) h).2, fun hgap => ?_⟩
  have hf : (fun i : Fin n => if cut < |lam i| then lam i else 0) = toVec n lam := by
    funext i
    show (if cut < |lam i| then lam i else 0) = lam i
    rcases hgap i with h1 | h1
    · rw [if_pos h1]
    · by_cases h2 : cut < |lam i|
      · rw [if_pos h2]
      · rw [if_neg h2, h1]
  show toMat n n Q * diagonal (fun i : Fin n => if cut < |lam i| then lam i else 0) * _ = _
  rw [hf]

/-! ## Cholesky: soundness, completeness, failure clause -/

/-- **`Cholesky.forward`** for ANY pair of kernels meeting the contract, on every symmetric `A` and every `b`
(`IsSymm` is a hypothesis: `cholesky_ex` reads ONE triangle only, so for a non-symmetric argument all statements are
about the symmetric matrix completed from that triangle — the property quantifies over symmetric matrices; the executable
kernels `chol`/`cholSolve` meet the contract for both triangles: `cholesky_std_kernels_contract` in C10Support):
* positive definite ⟹ a vector is returned and it solves `A x = b`;
* not positive definite ⟹ the call raises — it never returns a vector (the failure clause);
* conversely, whatever is returned solves `A x = b` and certifies that `A` is positive definite. -/
theorem cholesky_forward_spec (n : Nat) (cholEx : (Nat → Nat → ℝ) → (Nat → Nat → ℝ) × Nat)
    (solveK : (Nat → Nat → ℝ) → (Nat → ℝ) → Tab ℝ) (hK : CholContract n cholEx solveK)
    (A : Nat → Nat → ℝ) (b : Nat → ℝ) (hs : IsSymm n A) :
    (IsSPD n A → ∃ x, choleskyForward cholEx solveK A b = .ok x ∧
        ∀ i, i < n → ∑ j ∈ range n, A i j * x.get j = b i) ∧
    (¬ IsSPD n A → ∃ e, choleskyForward cholEx solveK A b = .error e) ∧
    (∀ x, choleskyForward cholEx solveK A b = .ok x →
        IsSPD n A ∧ ∀ i, i < n → ∑ j ∈ range n, A i j * x.get j = b i) := by
  have back : ∀ x, choleskyForward cholEx solveK A b = .ok x →
      IsSPD n A ∧ ∀ i, i < n → ∑ j ∈ range n, A i j * x.get j = b i := by
    intro x hx
    obtain ⟨h0, rfl⟩ := choleskyForward_ok cholEx solveK A b x hx
    exact ⟨(hK.info_iff A hs).mp h0, hK.solves A b hs h0⟩
  refine ⟨fun hspd => ?_, fun hn => ?_, back⟩
  · obtain ⟨x, hx⟩ := (choleskyForward_ok_iff cholEx solveK A b).mpr ((hK.info_iff A hs).mpr hspd)
    exact ⟨x, hx, (back x hx).2⟩
  · cases hc : choleskyForward cholEx solveK A b with
    | error e => exact ⟨e, rfl⟩
    | ok x => exact absurd (back x hc).1 hn

/-- **batched `Cholesky.forward`** (one `torch.any(info != 0)` assertion for the whole batch): the call returns iff every
item is positive definite, then every item is solved; one non-PD item makes the whole call raise — a partially wrong
batch is never returned. -/
theorem cholesky_forward_batch_spec (n : Nat) (cholEx : (Nat → Nat → ℝ) → (Nat → Nat → ℝ) × Nat)
    (solveK : (Nat → Nat → ℝ) → (Nat → ℝ) → Tab ℝ) (hK : CholContract n cholEx solveK)
    (items : List ((Nat → Nat → ℝ) × (Nat → ℝ))) (hs : ∀ it ∈ items, IsSymm n it.1) :
    ((∃ xs, choleskyForwardBatch cholEx solveK items = .ok xs) ↔ ∀ it ∈ items, IsSPD n it.1) ∧
    (∀ xs, choleskyForwardBatch cholEx solveK items = .ok xs →
      xs.length = items.length ∧
      ∀ k (hk : k < items.length) (hk' : k < xs.length), ∀ i, i < n →
        ∑ j ∈ range n, (items[k]).1 i j * (xs[k]).get j = (items[k]).2 i) :=
  choleskyForwardBatch_spec n cholEx solveK hK items hs

/-- **item-wise = batched** (`Cholesky.forward`, any kernels): the batched call returns exactly when the call on every
item ALONE returns, and position `k` of the result is the result of the call on item `k` alone. -/
theorem cholesky_batch_itemwise (cholEx : (Nat → Nat → ℝ) → (Nat → Nat → ℝ) × Nat)
    (solveK : (Nat → Nat → ℝ) → (Nat → ℝ) → Tab ℝ) (items : List ((Nat → Nat → ℝ) × (Nat → ℝ))) :
    ((∃ xs, choleskyForwardBatch cholEx solveK items = .ok xs) ↔
      ∀ it ∈ items, ∃ x, choleskyForward cholEx solveK it.1 it.2 = .ok x) ∧
    (∀ xs, choleskyForwardBatch cholEx solveK items = .ok xs →
      List.Forall₂ (fun x it => choleskyForward cholEx solveK it.1 it.2 = .ok x) xs items) :=
  choleskyForwardBatch_itemwise cholEx solveK items

/-- **item-wise = batched** (`LSTSQ.forward`, one NaN assertion for the batch; `PINV.forward` is a plain map,
`pinvForwardBatch`). -/
theorem lstsq_batch_itemwise (n : Nat) (sols : List (Option (Nat → ℝ))) :
    ((∃ xs, lstsqForwardBatch n sols = .ok xs) ↔ ∀ s ∈ sols, ∃ x, lstsqForward n s = .ok x) ∧
    (∀ xs, lstsqForwardBatch n sols = .ok xs →
      List.Forall₂ (fun x s => lstsqForward n s = .ok x) xs sols) :=
  lstsqForwardBatch_itemwise n sols

/-! ## CG: residual invariant, early return, `b = 0`, iteration bound, exact convergence

All statements are in EXACT arithmetic.  The model's division is total (`x/0 = 0`) while the code's produces `inf`/`NaN`
and then never stops early: model and code describe the same run exactly as long as no denominator (`pᵀAp`, `rho_prev`)
vanishes — hypothesis `NoBreakdown … k` ("none in the first `k` passes").  On the property's domain (SPD `A`, SPD or no
`M`, `tol > 0`) this hypothesis is a theorem: `cg_spd_no_breakdown`.  Off that domain (e.g. the indefinite
`A = [[2,1,-1],[1,1,-1],[-1,-1,-1]]`, `b = (3,0,0)`, `tol = 0.5`) a denominator does vanish, the code returns `nan`, and
nothing is claimed. -/

/-- **`cg_residual_invariant`** — for every `A` (no symmetry needed), every initial guess, every preconditioner, every
`tol`, every budget, as long as no denominator vanished on the way: the residual carried by the recurrence in the
returned state IS the true residual `b − A x` of the returned `x` (exact arithmetic). -/
theorem cg_residual_invariant (n : Nat) (tol : ℝ) (maxiter : Option Nat) (A : Nat → Nat → ℝ) (b : Nat → ℝ)
    (x0 : Option (Nat → ℝ)) (M : Option (Nat → Nat → ℝ))
    (_hok : NoBreakdown n A M (cgInit n A b x0) (cgForward n tol maxiter A b x0 M).iter) :
    ∀ i, i < n → (cgForward n tol maxiter A b x0 M).r.get i
      = b i - ∑ j ∈ range n, A i j * (cgForward n tol maxiter A b x0 M).x.get j :=
  cgForward_resid n tol maxiter A b x0 M

/-- on the property's domain the guard is automatic: SPD `A`, SPD or no preconditioner, `tol > 0` ⟹ no denominator
vanishes in any pass the loop makes (every pass starts from a non-zero residual, so `rho > 0` and `pᵀAp > 0`). -/
theorem cg_spd_no_breakdown (n : Nat) (tol : ℝ) (maxiter : Option Nat) (A : Nat → Nat → ℝ) (b : Nat → ℝ)
    (x0 : Option (Nat → ℝ)) (M : Option (Nat → Nat → ℝ))
    (hA : IsSPD n A) (hM : ∀ M', M = some M' → IsSPD n M') (htol : 0 < tol) :
    NoBreakdown n A M (cgInit n A b x0) (cgForward n tol maxiter A b x0 M).iter :=
  spd_run_noBreakdown n tol maxiter A b x0 M hA hM htol

/-- in exact arithmetic and without breakdown, the early `return x` certifies the TRUE residual: `‖b − A x‖ < tol ‖b‖`
(in floating point the recurrence residual drifts from the true one; that part is measured, not proved). -/
theorem cg_early_return_certified (n : Nat) (tol : ℝ) (maxiter : Option Nat) (A : Nat → Nat → ℝ) (b : Nat → ℝ)
    (x0 : Option (Nat → ℝ)) (M : Option (Nat → Nat → ℝ)) (hb : ∃ i, i < n ∧ b i ≠ 0)
    (_hok : NoBreakdown n A M (cgInit n A b x0) (cgForward n tol maxiter A b x0 M).iter)
    (hs : (cgForward n tol maxiter A b x0 M).stopped = true) :
    norm n (fun i => b i - ∑ j ∈ range n, A i j * (cgForward n tol maxiter A b x0 M).x.get j) < tol * norm n b :=
  cgForward_certified n tol maxiter A b x0 M hb hs

/-- `b = 0 ↦ 0`, without a single pass, whatever the initial guess and preconditioner. -/
theorem cg_zero_rhs (n : Nat) (tol : ℝ) (maxiter : Option Nat) (A : Nat → Nat → ℝ) (b : Nat → ℝ)
    (x0 : Option (Nat → ℝ)) (M : Option (Nat → Nat → ℝ)) (hb : ∀ i, i < n → b i = 0) :
    (∀ i, (cgForward n tol maxiter A b x0 M).x.get i = 0) ∧ (cgForward n tol maxiter A b x0 M).iter = 0 :=
  cgForward_zero n tol maxiter A b x0 M hb

/-- at most `maxiter` passes (`10 n` by default). -/
theorem cg_iterations_le (n : Nat) (tol : ℝ) (maxiter : Option Nat) (A : Nat → Nat → ℝ) (b : Nat → ℝ)
    (x0 : Option (Nat → ℝ)) (M : Option (Nat → Nat → ℝ)) :
    (cgForward n tol maxiter A b x0 M).iter ≤ (match maxiter with | some m => m | none => n * 10) :=
  cgForward_iter_le n tol maxiter A b x0 M

/-- **exact-arithmetic convergence** — for every symmetric positive definite `A` (any condition number), every
initial guess, no or any symmetric positive definite preconditioner, `b ≠ 0`, `tol > 0` and a budget `≥ n + 1`
(the default `10 n` qualifies): the loop returns early after at most `n` passes with `‖b − A x‖ < tol ‖b‖`.
(What is NOT proved is that the floating-point iteration also needs at most `10 n` passes — partial, sampled.) -/
theorem cg_exact_convergence_spd (n : Nat) (tol : ℝ) (maxiter : Option Nat) (A : Nat → Nat → ℝ) (b : Nat → ℝ)
    (x0 : Option (Nat → ℝ)) (M : Option (Nat → Nat → ℝ))
    (hA : IsSPD n A) (hM : ∀ M', M = some M' → IsSPD n M') (htol : 0 < tol)
    (hb : ∃ i, i < n ∧ b i ≠ 0) (hbud : n + 1 ≤ (match maxiter with | some m => m | none => n * 10)) :
    (cgForward n tol maxiter A b x0 M).stopped = true ∧ (cgForward n tol maxiter A b x0 M).iter ≤ n ∧
    norm n (fun i => b i - ∑ j ∈ range n, A i j * (cgForward n tol maxiter A b x0 M).x.get j) < tol * norm n b :=
  cg_exact_convergence n tol maxiter A b x0 M hA hM htol hb hbud

/-- **no breakdown before convergence** — on the property's domain (SPD `A`, SPD or no preconditioner) both
denominators of pass `k` (`rho`, `pᵀAp`) are positive as long as the residuals of passes `0..k` are non-zero: the
divisions of `CG.forward` are never `x/0` before the loop has converged. (`cgIter` = `k` unconditional passes.) -/
theorem cg_no_breakdown (n : Nat) (A : Nat → Nat → ℝ) (b : Nat → ℝ) (x0 : Option (Nat → ℝ)) (M : Option (Nat → Nat → ℝ))
    (hA : IsSPD n A) (hM : ∀ M', M = some M' → IsSPD n M') (k : Nat)
    (hne : ∀ j, j ≤ k → ∃ i, i < n ∧ (cgIter n A M (cgInit n A b x0) j).r.get i ≠ 0) :
    0 < cgRho n M (cgIter n A M (cgInit n A b x0) k) ∧
    0 < dot n (cgP n M (cgIter n A M (cgInit n A b x0) k)).get (cgQ n A M (cgIter n A M (cgInit n A b x0) k)).get :=
  cg_no_breakdown_model n A b x0 M hA hM k hne

/-- the default budget `10 n` always suffices in exact arithmetic -/
theorem cg_default_budget_suffices (n : Nat) (tol : ℝ) (A : Nat → Nat → ℝ) (b : Nat → ℝ)
    (x0 : Option (Nat → ℝ)) (M : Option (Nat → Nat → ℝ))
    (hA : IsSPD n A) (hM : ∀ M', M = some M' → IsSPD n M') (htol : 0 < tol) (hb : ∃ i, i < n ∧ b i ≠ 0) :
    (cgForward n tol none A b x0 M).stopped = true ∧
    norm n (fun i => b i - ∑ j ∈ range n, A i j * (cgForward n tol none A b x0 M).x.get j) < tol * norm n b := by
  obtain ⟨i, hi, _⟩ := hb
  have hbud : n + 1 ≤ (match (none : Option Nat) with | some m => m | none => n * 10) := by
    show n + 1 ≤ n * 10
    omega
  have := cg_exact_convergence n tol none A b x0 M hA hM htol ⟨i, hi, ‹_›⟩ hbud
  exact ⟨this.1, this.2.2⟩

/-! ### the decision logic of `CG.forward`, completely (pass 3) -/

/-- **The loop, completely.** For `b ≠ 0` and any `A`, `x0`, `M`, `tol`, budget, as long as no denominator vanishes in the
passes made: the returned state is the state after `k` unconditional passes (`cgIter`), where `k` is the FIRST pass index
at which the documented test `‖r‖ < tol‖b‖` holds, or the budget if it holds at none of the tested states
`0 … budget−1`; the flag `stopped` tells which. -/
theorem cg_loop_complete (n : Nat) (tol : ℝ) (maxiter : Option Nat) (A : Nat → Nat → ℝ) (b : Nat → ℝ)
    (x0 : Option (Nat → ℝ)) (M : Option (Nat → Nat → ℝ)) (hb : ∃ i, i < n ∧ b i ≠ 0)
    (_hok : NoBreakdown n A M (cgInit n A b x0) (cgForward n tol maxiter A b x0 M).iter) :
    ∃ k, k ≤ cgBudget n maxiter ∧
      cgForward n tol maxiter A b x0 M =
        { cgIter n A M (cgInit n A b x0) k with stopped := (cgForward n tol maxiter A b x0 M).stopped } ∧
      (∀ j, j < k → ¬ norm n (cgIter n A M (cgInit n A b x0) j).r.get < tol * norm n b) ∧
      ((cgForward n tol maxiter A b x0 M).stopped = true →
        k < cgBudget n maxiter ∧ norm n (cgIter n A M (cgInit n A b x0) k).r.get < tol * norm n b) ∧
      ((cgForward n tol maxiter A b x0 M).stopped = false → k = cgBudget n maxiter) :=
  cgForward_spec n tol maxiter A b x0 M ((norm_pos_iff n b).mpr hb)

/-- **Return trichotomy** — whatever `CG.forward` returns without breakdown: either `b = 0` (and `x = 0`), or the
documented stopping criterion holds for the TRUE residual of the returned `x` (`‖b − A x‖ < tol ‖b‖`), or the budget was
exhausted: exactly `maxiter` (default `10 n`) passes were made and the test failed before each of them. -/
theorem cg_return_trichotomy (n : Nat) (tol : ℝ) (maxiter : Option Nat) (A : Nat → Nat → ℝ) (b : Nat → ℝ)
    (x0 : Option (Nat → ℝ)) (M : Option (Nat → Nat → ℝ))
    (_hok : NoBreakdown n A M (cgInit n A b x0) (cgForward n tol maxiter A b x0 M).iter) :
    ((∀ i, i < n → b i = 0) ∧ ∀ i, (cgForward n tol maxiter A b x0 M).x.get i = 0) ∨
    ((cgForward n tol maxiter A b x0 M).stopped = true ∧
      norm n (fun i => b i - ∑ j ∈ range n, A i j * (cgForward n tol maxiter A b x0 M).x.get j) < tol * norm n b) ∨
    ((cgForward n tol maxiter A b x0 M).stopped = false ∧
      (cgForward n tol maxiter A b x0 M).iter = cgBudget n maxiter ∧
      ∀ j, j < cgBudget n maxiter → ¬ norm n (cgIter n A M (cgInit n A b x0) j).r.get < tol * norm n b) :=
  cgForward_trichotomy_model n tol maxiter A b x0 M

/-- **…on the property's domain, for every history**: every call on an SPD system (SPD or no preconditioner) made through
one solver object with `tol > 0` — whatever was solved before on it — returns `0` for `b = 0`, or an `x` whose true
residual satisfies the documented criterion, or has used exactly its own budget `cgBudget c.n maxiter`; no call breaks
down. -/
theorem cg_history_trichotomy_spd (o : CGObj ℝ) (htol : 0 < o.tol) (cs : List (CGCall ℝ))
    (hspd : ∀ c ∈ cs, IsSPD c.n c.A ∧ ∀ M', c.M = some M' → IsSPD c.n M') :
    List.Forall₂ (fun (s : CGState ℝ) (c : CGCall ℝ) =>
        NoBreakdown c.n c.A c.M (cgInit c.n c.A c.b c.x0) s.iter ∧
        (((∀ i, i < c.n → c.b i = 0) ∧ ∀ i, s.x.get i = 0) ∨
         (s.stopped = true ∧ norm c.n (fun i => c.b i - ∑ j ∈ range c.n, c.A i j * s.x.get j) < o.tol * norm c.n c.b) ∨
         (s.stopped = false ∧ s.iter = cgBudget c.n o.maxiter)))
      (cgHistory o cs).2 cs := by
  have hl := cg_history_trichotomy o cs
  rw [cgHistory_eq] at hl ⊢
  simp only [] at hl ⊢
  induction cs with
  | nil => exact List.Forall₂.nil
  | cons c cs ih =>
    rw [List.map_cons] at hl ⊢
    cases hl with
    | cons h1 h2 =>
      obtain ⟨hA, hM⟩ := hspd c (List.mem_cons_self ..)
      exact List.Forall₂.cons ⟨spd_run_noBreakdown c.n o.tol o.maxiter c.A c.b c.x0 c.M hA hM htol, h1⟩
        (ih (fun c' hc' => hspd c' (List.mem_cons_of_mem _ hc')) h2)

/-- `M = None` is the identity preconditioner: same stopping decision, same number of passes, same returned `x` -/
theorem cg_M_none_eq_identity (n : Nat) (tol : ℝ) (maxiter : Option Nat) (A : Nat → Nat → ℝ) (b : Nat → ℝ)
    (x0 : Option (Nat → ℝ)) :
    (cgForward n tol maxiter A b x0 none).stopped = (cgForward n tol maxiter A b x0 (some idMat)).stopped ∧
    (cgForward n tol maxiter A b x0 none).iter = (cgForward n tol maxiter A b x0 (some idMat)).iter ∧
    ∀ i, i < n → (cgForward n tol maxiter A b x0 none).x.get i = (cgForward n tol maxiter A b x0 (some idMat)).x.get i :=
  cgForward_M_identity n tol maxiter A b x0

/-- shape glue of `CG.forward`: a call is accepted exactly when `b` has the rank of `A` or one less, and `b` is
unsqueezed exactly in the second case.  The rule itself accepts ANY rank pair of that form (batched `A`, several
right-hand sides): those are outside the property's quantifier ("single systems, as documented") — the domain is
`cgInDomain`: a rank-2 `A` with ONE right-hand side of shape `(n,)` or `(n, 1)`; every in-domain call is accepted. -/
theorem cg_entry_spec (ndimA ndimB nrhs : Nat) :
    (cgEntry ndimA ndimB = .ok true ↔ ndimA = ndimB + 1) ∧
    (cgEntry ndimA ndimB = .ok false ↔ ndimA = ndimB) ∧
    ((∃ e, cgEntry ndimA ndimB = .error e) ↔ ndimA ≠ ndimB + 1 ∧ ndimA ≠ ndimB) ∧
    (cgInDomain ndimA ndimB nrhs = true → ∃ u, cgEntry ndimA ndimB = .ok u ∧ (u = true ↔ ndimB = 1)) := by
  unfold cgEntry cgInDomain
  refine ⟨?_, ?_, ?_, ?_⟩
  · by_cases h1 : ndimA = ndimB + 1
    · simp [h1]
    · by_cases h2 : ndimA = ndimB <;> simp [h1, h2]
  · by_cases h1 : ndimA = ndimB + 1
    · have h2 : ndimA ≠ ndimB := by omega
      simp [h1]
    · by_cases h2 : ndimA = ndimB <;> simp [h1, h2]
  · by_cases h1 : ndimA = ndimB + 1
    · simp [h1]
    · by_cases h2 : ndimA = ndimB <;> simp [h1, h2]
  · intro h
    simp only [Bool.and_eq_true, Bool.or_eq_true, beq_iff_eq] at h
    obtain ⟨hA, hB⟩ := h
    rcases hB with hB | ⟨hB, _⟩
    · exact ⟨true, by simp [hA, hB], by simp [hB]⟩
    · exact ⟨false, by simp [hA, hB], by simp [hB]⟩

/-! ## histories: one `CG` object reused for many systems -/

end PP.LinSolve

namespace PP.SparseMM

/-! ## block-sparse product: the merge join is the dense product -/

/-- the pairs selected by the two-pointer loop for cell `(i, j)` are exactly the coincidences of a stored block
column index of block row `i` with a stored block row index of block column `j`, each once — for ALL sorted
patterns, empty rows / columns included. -/
theorem merge_join_pairs (crow col ccol row : Nat → Nat) (sm sp : Nat) (hA : WF crow col sm) (hB : WF ccol row sp)
    (i j : Nat) (hi : i < sm) (hj : j < sp) :
    (∀ k1 k2, (k1, k2) ∈ joinIJ crow col ccol row i j ↔
      (crow i ≤ k1 ∧ k1 < crow (i+1)) ∧ (ccol j ≤ k2 ∧ k2 < ccol (j+1)) ∧ row k2 = col k1) ∧
    (joinIJ crow col ccol row i j).Nodup :=
  ⟨fun k1 k2 => mem_joinIJ crow col ccol row sm sp hA hB i j hi hj k1 k2,
   joinIJ_nodup crow col ccol row sm sp hA hB i j hi hj⟩

/-- **`merge_join_correct`** — for every block size (blocks are an arbitrary additive monoid with a product that
annihilates zero blocks) and every pair of sorted index patterns the accumulated block of cell `(i, j)` is
`Σ_c A[i,c] · B[c,j]`, the block of the dense product. -/
theorem merge_join_correct {β₁ β₂ β₃ : Type} [AddCommMonoid β₃] (mul : β₁ → β₂ → β₃) (z₁ : β₁) (z₂ : β₂)
    (hz1 : ∀ y, mul z₁ y = 0) (hz2 : ∀ x, mul x z₂ = 0)
    (crow col ccol row : Nat → Nat) (va : Nat → β₁) (vb : Nat → β₂)
    (sm sn sp : Nat) (hA : WF crow col sm) (hB : WF ccol row sp)
    (i j : Nat) (hi : i < sm) (hj : j < sp)
    (hcol : ∀ k1, crow i ≤ k1 → k1 < crow (i+1) → col k1 < sn) :
    blockSum 0 (· + ·) mul va vb (joinIJ crow col ccol row i j)
      = ∑ c ∈ Finset.range sn, mul (getBlock z₁ crow col va i c) (getBlock z₂ ccol row vb j c) :=
  blockSum_eq_dense mul z₁ z₂ hz1 hz2 crow col ccol row va vb sm sn sp hA hB i j hi hj hcol

/-- a result block is produced for cell `(i, j)` iff block row `i` and block column `j` share an index: an
all-zero row / column pair produces no block. -/
theorem merge_join_no_block_iff (crow col ccol row : Nat → Nat) (sm sp : Nat) (hA : WF crow col sm)
    (hB : WF ccol row sp) (i j : Nat) (hi : i < sm) (hj : j < sp) :
    (∀ ps, (i, j, ps) ∉ joinAll sm sp crow col ccol row) ↔
      ∀ c, findIdx crow col i c = none ∨ findIdx ccol row j c = none := by
  rw [← joinIJ_eq_nil_iff crow col ccol row sm sp hA hB i j hi hj]
  constructor
  · intro h
    by_contra hne
    exact h _ ((mem_joinAll sm sp crow col ccol row i j _).mpr ⟨hi, hj, rfl, hne⟩)
  · intro h ps hps
    obtain ⟨_, _, rfl, hne⟩ := (mem_joinAll sm sp crow col ccol row i j ps).mp hps
    exact hne h

/-- cells are emitted in strictly increasing row-major order (so `coalesce()` does not permute them and
`reduced[result_step]` lines up with the CSR structure of the result). -/
theorem merge_join_emission_sorted (sm sp : Nat) (crow col ccol row : Nat → Nat) :
    (joinAll sm sp crow col ccol row).Pairwise (fun a b => a.1 < b.1 ∨ (a.1 = b.1 ∧ a.2.1 < b.2.1)) :=
  joinAll_sorted sm sp crow col ccol row

/-- the assembled result is a well-formed BSR structure -/
theorem bsr_bsc_matmul_wf {β₁ β₂ β₃ : Type} [AddCommMonoid β₃] (mul : β₁ → β₂ → β₃)
    (sm sp : Nat) (crow col ccol row : Nat → Nat) (va : Nat → β₁) (vb : Nat → β₂) :
    let R := bsrBscMatmul (0 : β₃) (· + ·) mul sm sp crow col va ccol row vb
    WF (fun t => R.1.getD t 0) (fun t => R.2.1.getD t 0) sm ∧
    R.2.1.length = R.2.2.length ∧ R.1.getD 0 0 = 0 ∧ R.1.getD sm 0 = R.2.1.length ∧
    ∀ t, t < R.2.1.length → R.2.1.getD t 0 < sp :=
  bsrBscMatmul_wf mul sm sp crow col ccol row va vb

/-- **`bsr_bsc_matmul` returns the dense product**: reading the result triple back with the same dense semantics
as the operands gives `Σ_c A[i,c] · B[c,j]` for EVERY cell `(i, j)` — stored or not. -/
theorem bsr_bsc_matmul_dense {β₁ β₂ β₃ : Type} [AddCommMonoid β₃] (mul : β₁ → β₂ → β₃) (z₁ : β₁) (z₂ : β₂)
    (hz1 : ∀ y, mul z₁ y = 0) (hz2 : ∀ x, mul x z₂ = 0)
    (crow col ccol row : Nat → Nat) (va : Nat → β₁) (vb : Nat → β₂)
    (sm sn sp : Nat) (hA : WF crow col sm) (hB : WF ccol row sp)
    (hcol : ∀ i, i < sm → ∀ k1, crow i ≤ k1 → k1 < crow (i+1) → col k1 < sn)
    (i j : Nat) (hi : i < sm) (hj : j < sp) :
    let R := bsrBscMatmul (0 : β₃) (· + ·) mul sm sp crow col va ccol row vb
    getBlock (0 : β₃) (fun t => R.1.getD t 0) (fun t => R.2.1.getD t 0) (fun t => R.2.2.getD t 0) i j
      = ∑ c ∈ Finset.range sn, mul (getBlock z₁ crow col va i c) (getBlock z₂ ccol row vb j c) :=
  bsrBscMatmul_dense mul z₁ z₂ hz1 hz2 crow col ccol row va vb sm sn sp hA hB hcol i j hi hj

/-- the block formula is the ordinary matrix product of the dense matrices, for every block size -/
theorem block_formula_is_dense_product {sm sn sp dm dn dp : Nat}
    (A : Fin sm → Fin sn → Matrix (Fin dm) (Fin dn) ℝ) (B : Fin sn → Fin sp → Matrix (Fin dn) (Fin dp) ℝ) :
    denseOf (fun i j => ∑ c, A i c * B c j) = denseOf A * denseOf B :=
  denseOf_blockMul A B

/-- **End to end, as real matrices**: `bsr_bsc_matmul(A, B).to_dense() = A.to_dense() @ B.to_dense()` for every block
grid `sm × sn × sp`, every block size `dm × dn × dp` and every pair of well-formed sparsity patterns (`denseBSR`,
`denseBSC` = the `.to_dense()` of the compressed structures). -/
theorem bsr_bsc_matmul_to_dense {dm dn dp : Nat} (sm sn sp : Nat) (crow col ccol row : Nat → Nat)
    (va : Nat → Matrix (Fin dm) (Fin dn) ℝ) (vb : Nat → Matrix (Fin dn) (Fin dp) ℝ)
    (hA : WF crow col sm) (hB : WF ccol row sp)
    (hcol : ∀ i, i < sm → ∀ k1, crow i ≤ k1 → k1 < crow (i+1) → col k1 < sn) :
    let R := bsrBscMatmul (0 : Matrix (Fin dm) (Fin dp) ℝ) (· + ·) (fun x y => x * y) sm sp crow col va ccol row vb
    denseBSR sm sp (fun t => R.1.getD t 0) (fun t => R.2.1.getD t 0) (fun t => R.2.2.getD t 0)
      = denseBSR sm sn crow col va * denseBSC sn sp ccol row vb :=
  bsrBscMatmul_toDense sm sn sp crow col ccol row va vb hA hB hcol

/-- the argument checks of `bsr_bsc_matmul` (`bsrBscGuard`): whatever is accepted has equal inner dimensions, equal
inner block sizes and a block grid that tiles the three matrices exactly. -/
theorem bsr_bsc_guard_spec (m n n' p dm dn dn' dp sm sn sp : Nat)
    (h : bsrBscGuard m n n' p dm dn dn' dp = .ok (sm, sn, sp)) :
    n = n' ∧ dn = dn' ∧ sm * dm = m ∧ sn * dn = n ∧ sp * dp = p :=
  bsrBscGuard_ok m n n' p dm dn dn' dp sm sn sp h

/-! ## `_sparse_csr_mm` layout dispatch (a finite table: `decide` is a proof here, not a sample) -/

/-- every layout pair ends — after at most two conversion steps — in a product kernel or in a raise, never in a loop -/
theorem dispatch_total (l1 l2 : Layout) :
    finalRoute 2 l1 l2 = .mergeJoin ∨ finalRoute 2 l1 l2 = .addmmCsr ∨ finalRoute 2 l1 l2 = .addmmDense ∨
    finalRoute 2 l1 l2 = .raiseNotImplemented ∨ finalRoute 2 l1 l2 = .raiseTuple := by
  cases l1 <;> cases l2 <;> decide

/-- the merge join is used exactly for BSR × BSC -/
theorem dispatch_mergeJoin_iff (l1 l2 : Layout) : finalRoute 2 l1 l2 = .mergeJoin ↔ l1 = .bsr ∧ l2 = .bsc := by
  cases l1 <;> cases l2 <;> decide

/-- the pairs that reach a product kernel (and hence return the dense product, given the kernels' contracts); every
other pair raises -/
theorem dispatch_returns_iff (l1 l2 : Layout) :
    (finalRoute 2 l1 l2 = .mergeJoin ∨ finalRoute 2 l1 l2 = .addmmCsr ∨ finalRoute 2 l1 l2 = .addmmDense) ↔
    ((l1 = .bsr ∧ l2 = .bsc) ∨ ((l1 = .csr ∨ l1 = .csc) ∧ (l2 = .csr ∨ l2 = .csc)) ∨ l2 = .strided) := by
  cases l1 <;> cases l2 <;> decide

/-- conversions only ever move an operand to CSR, and a second dispatch after them never converts again -/
theorem dispatch_conversion_terminates (l1 l2 : Layout) :
    (dispatch l1 l2 = .convertBoth → dispatch .csr .csr = .addmmCsr) ∧
    (dispatch l1 l2 = .convertLeft → l2 = .strided ∧ dispatch .csr l2 = .addmmDense) := by
  cases l1 <;> cases l2 <;> decide

end PP.SparseMM

/-! ## non-vacuity of the hypotheses -/
namespace PP.LinSolve

/-- a concrete SPD matrix: `[[2,1],[1,2]]` -/
example : IsSPD 2 (fun i j => if i = j then 2 else 1) := by
  refine ⟨fun i j _ _ => by by_cases h : i = j <;> simp [h, eq_comm], fun v hv => ?_⟩
  simp only [Finset.sum_range_succ, Finset.sum_range_zero, zero_add]
  norm_num
  obtain ⟨i, hi, hvi⟩ := hv
  have h01 : v 0 ≠ 0 ∨ v 1 ≠ 0 := by
    interval_cases i
    · exact Or.inl hvi
    · exact Or.inr hvi
  rcases h01 with h | h
  · nlinarith [sq_nonneg (v 0 + v 1), sq_nonneg (v 1), sq_pos_of_ne_zero h]
  · nlinarith [sq_nonneg (v 0 + v 1), sq_nonneg (v 0), sq_pos_of_ne_zero h]

/-- the Moore–Penrose contract is satisfiable by a non-trivial rank-deficient pair: `A = diag(1,0)`, `P = A` -/
example : IsPinv (!![1, 0; 0, 0] : Matrix (Fin 2) (Fin 2) ℝ) !![1, 0; 0, 0] := by
  constructor <;> ext i j <;> fin_cases i <;> fin_cases j <;> simp [Matrix.mul_apply, Fin.sum_univ_two]

/-- a symmetric matrix that is not positive definite, e.g. `[[1,2],[2,1]]` (the D6 witness): `chol` reports
`info = 2` -/
example : ¬ IsSPD 2 (fun i j => if i = j then 1 else 2) := by
  intro h
  have := h.pos (fun i => if i = 0 then 1 else -1) ⟨0, by omega, by norm_num⟩
  simp only [Finset.sum_range_succ, Finset.sum_range_zero, zero_add] at this
  norm_num at this

/-- the hypotheses of the truncated-SVD law are satisfiable by a non-trivial rank-deficient decomposition:
`U = V = 1`, `σ = (2, 0)`, cut-off `1` -/
example : ((1 : Matrix (Fin 2) (Fin 2) ℝ)ᵀ * 1 = 1) ∧ (0 : ℝ) ≤ 1 ∧
    svKeep (![2, 0] : Fin 2 → ℝ) 1 = ![2, 0] ∧ svInv (![2, 0] : Fin 2 → ℝ) 1 = ![2⁻¹, 0] := by
  refine ⟨by simp, by norm_num, ?_, ?_⟩ <;> funext i <;> fin_cases i <;> simp [svKeep, svInv]

/-- the hypotheses of `lstsq_rcond_svd_forward_minnorm` are satisfiable, with a singular value exactly AT the threshold
(dropped) and one above it (kept): `U = V = 1` (2×2), `σ = (4, 1)`, `rcond = 1/4` gives the threshold `1`; and the
three rows of the defaulting table are distinct on a concrete input -/
example : ((toMat 2 2 fun i j => if i = j then (1 : ℝ) else 0)ᵀ * (toMat 2 2 fun i j => if i = j then (1 : ℝ) else 0) = 1) ∧
    lstsqCutoff (some (1 / 4 : ℝ)) 2 2 (1 / 8) (1 / 16) 4 = 1 ∧
    svKeep (![4, 1] : Fin 2 → ℝ) 1 = ![4, 0] ∧
    lstsqCutoff (none : Option ℝ) 2 2 (1 / 8) (1 / 16) 4 = 1 ∧
    lstsqCutoff (some (-1 : ℝ)) 2 2 (1 / 8) (1 / 16) 4 = 1 / 4 := by
  refine ⟨?_, ?_, ?_, ?_, ?_⟩
  · ext i j; fin_cases i <;> fin_cases j <;> simp [toMat, Matrix.mul_apply, Fin.sum_univ_two]
  · rw [(lstsqCutoff_cases 2 2 (1 / 8) (1 / 16) 4 (1 / 4)).2.2 (by norm_num)]; norm_num
  · funext i; fin_cases i <;> simp [svKeep]
  · rw [(lstsqCutoff_cases 2 2 (1 / 8) (1 / 16) 4 0).1]; norm_num
  · rw [(lstsqCutoff_cases 2 2 (1 / 8) (1 / 16) 4 (-1)).2.1 (by norm_num)]; norm_num

/-- the hypotheses of `lstsq_cod_forward_minnorm` are satisfiable by a rank-deficient 2 × 2 system with
`Q = Z = e₁` (2 × 1), `T = (2)`, `T⁻¹ = (1/2)` — i.e. `A = diag(2, 0)` — and the model
returns `x = (b₀/2, 0)` -/
example : ((toMat 2 1 fun i _ => if i = 0 then (1 : ℝ) else 0)ᵀ * (toMat 2 1 fun i _ => if i = 0 then (1 : ℝ) else 0) = 1) ∧
    (toMat 1 1 (fun _ _ => (2 : ℝ)) * toMat 1 1 (fun _ _ => (1 / 2 : ℝ)) = 1) ∧
    (lstsqOfCod 2 2 1 (fun i _ => if i = 0 then (1 : ℝ) else 0) (fun i _ => if i = 0 then (1 : ℝ) else 0)
      (fun _ _ => (1 / 2 : ℝ)) (fun i => if i = 0 then 6 else 5)).get 0 = 3 ∧
    (lstsqOfCod 2 2 1 (fun i _ => if i = 0 then (1 : ℝ) else 0) (fun i _ => if i = 0 then (1 : ℝ) else 0)
      (fun _ _ => (1 / 2 : ℝ)) (fun i => if i = 0 then 6 else 5)).get 1 = 0 := by
  refine ⟨?_, ?_, ?_, ?_⟩
  · ext i j; fin_cases i; fin_cases j; simp [toMat, Matrix.mul_apply]
  · ext i j; fin_cases i; fin_cases j; simp [toMat, Matrix.mul_apply]
  · simp [lstsqOfCod, pinvForward, tab_get, matVec_eq, transpose, Finset.sum_range_succ]; norm_num
  · simp [lstsqOfCod, pinvForward, tab_get, matVec_eq, transpose, Finset.sum_range_succ]

/-- a consistent singular system with a longer second solution: `A = diag(1, 0)`, `b = (1, 0)`, `P = A`; `y = (1, 7)` solves
it too, `P b = (1, 0)` is shorter (hypotheses of `pinv_forward_consistent` with a strict conclusion) -/
example : (!![1, 0; 0, 0] : Matrix (Fin 2) (Fin 2) ℝ) *ᵥ ![1, 7] = ![1, 0] ∧
    nrm2 ((!![1, 0; 0, 0] : Matrix (Fin 2) (Fin 2) ℝ) *ᵥ ![1, 0]) < nrm2 (![1, 7] : Fin 2 → ℝ) := by
  constructor
  · funext i; fin_cases i <;> simp [Matrix.mulVec, dotProduct, Fin.sum_univ_two]
  · simp [nrm2, Matrix.mulVec, dotProduct, Fin.sum_univ_two]

/-- `ls_solvers_agree` is not vacuous and not trivial: `diag(1, 0)` has the Moore–Penrose inverse `diag(1, 0)`, while the
(1,3)-only generalised inverse `!![1, 0; 5, 0]` gives ANOTHER least-squares solution — it violates condition 4 of the contract,
which is exactly what rules it out -/
example : IsPinv (!![1, 0; 0, 0] : Matrix (Fin 2) (Fin 2) ℝ) !![1, 0; 0, 0] ∧
    ((!![1, 0; 5, 0] : Matrix (Fin 2) (Fin 2) ℝ) * !![1, 0; 0, 0])ᵀ ≠ (!![1, 0; 5, 0] : Matrix (Fin 2) (Fin 2) ℝ) * !![1, 0; 0, 0] := by
  constructor
  · constructor <;> ext i j <;> fin_cases i <;> fin_cases j <;> simp [Matrix.mul_apply, Fin.sum_univ_two]
  · intro h
    have := congrFun (congrFun h 0) 1
    simp [Matrix.mul_apply, Fin.sum_univ_two] at this

/-- the shape glue accepts `(2, 1)` with an unsqueeze, `(2, 2)` without, and rejects `(2, 3)` -/
example : cgEntry 2 1 = .ok true ∧ cgEntry 2 2 = .ok false ∧ cgEntry 2 3 = .error "assert:ndim" := by decide

end PP.LinSolve

namespace PP.SparseMM

/-- the argument checks accept a fitting pair and name the first violated requirement otherwise -/
example : bsrBscGuard 4 6 6 2 2 3 3 1 = .ok (2, 2, 2) ∧ bsrBscGuard 4 6 5 2 2 3 3 1 = .error "assert:inner-dimension" ∧
    bsrBscGuard 4 4 4 2 2 2 4 1 = .error "bmm:inner-block-size" := by decide

/-- a concrete run of the two-pointer loop: block row with columns `[0,2,5]` against block column with rows
`[1,2,4,5]` selects the coincidences at `2` and `5` -/
example : joinRow (fun k => [0, 2, 5].getD k 0) (fun k => [1, 2, 4, 5].getD k 0) 4 [0, 1, 2] 0 = [(1, 1), (2, 3)] := by
  decide

/-- a well-formed pattern with an empty row -/
example : WF (fun i => [0, 2, 2, 3].getD i 0) (fun k => [0, 3, 1].getD k 0) 3 := by
  constructor
  · intro i hi; interval_cases i <;> decide
  · intro i hi a b h1 h2 h3
    interval_cases i <;> simp at h1 h3
    · have ha : a = 0 := by omega
      have hb : b = 1 := by omega
      subst ha hb
      decide
    · omega
    · omega

end PP.SparseMM
