import Proofs.Lemmas.LinSolve
import Proofs.Lemmas.LinSolveMat
/-!
# C10 — support facts about the MODEL itself

Moved out of `Proofs/Props/C10.lean` (pass 4, on the auditor's advice): these are true, proved statements, but they are
facts about the model's own objects — the executable stand-in kernels (`chol`, `cholSolve`, `lsRef`), the tolerance
table, `rfl`-level equalities, and map-lifts of single-call theorems to call lists — not clauses of the property about
the code.  The property file cites them.  The CG facts are about the model's TOTAL division (`x/0 = 0`); they describe
`CG.forward` while no denominator vanishes (`NoBreakdown`, guaranteed on SPD systems by `spd_run_noBreakdown`).
-/
open Finset Matrix

namespace PP.LinSolve

/-- the model's own reference solve (run by the driver against the implementation): from ANY exact factorisation
`A = B C` on which both Gram factorisations succeed, `lsRef` is a least-squares solution of `A x = b` in the range of
`Aᵀ`, hence the minimum-norm one. -/
theorem lsRef_minnorm (m r n : Nat) (B C : Nat → Nat → ℝ) (b : Nat → ℝ) (x : Tab ℝ)
    (h : lsRef m r n B C b = .ok x) :
    let A := toMat m r B * toMat r n C
    (∀ y, nrm2 (A *ᵥ toVec n x.get - toVec m b) ≤ nrm2 (A *ᵥ y - toVec m b)) ∧
    (∀ y, Aᵀ *ᵥ (A *ᵥ y - toVec m b) = 0 →
      nrm2 (toVec n x.get) ≤ nrm2 y ∧ (nrm2 y = nrm2 (toVec n x.get) → y = toVec n x.get)) := by
  intro A
  obtain ⟨hn, w, hw⟩ := lsRef_ok m r n B C b x h
  exact ⟨ls_certificate _ _ _ hn, fun y hy => minnorm_certificate _ _ _ w hn hw y hy⟩

/-- nothing is truncated when every discarded singular value is zero: then `A_cut` is `U Σ Vᵀ = A` itself -/
theorem tsvd_exact {m n r : ℕ} (U : Matrix (Fin m) (Fin r) ℝ) (V : Matrix (Fin n) (Fin r) ℝ) (σ : Fin r → ℝ) (cut : ℝ)
    (h0 : ∀ i, ¬ cut < σ i → σ i = 0) :
    U * diagonal (svKeep σ cut) * Vᵀ = U * diagonal σ * Vᵀ :=
  tsvd_no_truncation U V σ cut h0

/-- the tolerance defaulting of `torch.linalg.pinv` as modelled by `pinvCutoff`: `max(atol, rtol·σ₁)` with `atol = 0` when
absent and `rtol = max(m,n)·eps` when absent — unless a positive `atol` was given, then `0`. -/
theorem pinv_cutoff_defaulting (m n : Nat) (eps s1 a r : ℝ) :
    pinvCutoff none none m n eps s1 = max 0 ((max m n : ℕ) * eps * s1) ∧
    pinvCutoff none (some r) m n eps s1 = max 0 (r * s1) ∧
    (0 < a → pinvCutoff (some a) none m n eps s1 = a) ∧
    (a ≤ 0 → pinvCutoff (some a) none m n eps s1 = max a ((max m n : ℕ) * eps * s1)) ∧
    pinvCutoff (some a) (some r) m n eps s1 = max a (r * s1) :=
  pinvCutoff_cases m n eps s1 a r

/-- the elementary positive-definiteness used below is Mathlib's `Matrix.PosDef` -/
theorem spd_iff_posDef (n : Nat) (A : Nat → Nat → ℝ) : IsSPD n A ↔ (toMat n n A).PosDef :=
  isSPD_iff_posDef n A

/-- **`chol_sound`** — if the factorisation of a symmetric `A` succeeds, the result is lower triangular with positive
diagonal, `L Lᵀ = A`, and `A` is positive definite. -/
theorem chol_sound_spd (n : Nat) (A : Nat → Nat → ℝ) (L : Tab2 ℝ) (hs : IsSymm n A) (h : chol A n = .ok L) :
    (∀ i j, i < j → L.get i j = 0) ∧ (∀ i, i < n → 0 < L.get i i) ∧
    (∀ i j, i < n → j < n → ∑ t ∈ range n, L.get i t * L.get j t = A i j) ∧ IsSPD n A := by
  have c := chol_sound A n L h
  exact ⟨c.upper, c.pos, fun i j hi hj => c.prod_full hs i j hi hj, c.spd hs⟩

/-- **completeness** — on every symmetric positive definite matrix, of every size, the factorisation succeeds. -/
theorem chol_complete_spd (n : Nat) (A : Nat → Nat → ℝ) (h : IsSPD n A) : ∃ L, chol A n = .ok L :=
  chol_complete A n h

/-- **failure clause at kernel level** — for symmetric `A`: the factorisation reports an error exactly when `A` is
not positive definite, and the reported `info` is the order of a leading block (`1 ≤ info ≤ n`). -/
theorem chol_fails_iff_not_spd (n : Nat) (A : Nat → Nat → ℝ) (hs : IsSymm n A) :
    (∃ e, chol A n = .error e) ↔ ¬ IsSPD n A := by
  constructor
  · rintro ⟨e, he⟩; exact chol_error_not_spd A n e he
  · intro hn
    cases hc : chol A n with
    | error e => exact ⟨e, rfl⟩
    | ok L => exact absurd ((chol_sound A n L hc).spd hs) hn

theorem chol_info_range (n e : Nat) (A : Nat → Nat → ℝ) (h : chol A n = .error e) : 1 ≤ e ∧ e ≤ n :=
  chol_error_range A n e h

/-- `info` has LAPACK's meaning: for symmetric `A` the leading block of order `info − 1` is positive definite and the
one of order `info` is not. -/
theorem chol_info_leading_minor (n e : Nat) (A : Nat → Nat → ℝ) (hs : IsSymm n A) (h : chol A n = .error e) :
    IsSPD (e - 1) A ∧ ¬ IsSPD e A := by
  obtain ⟨⟨L, hL⟩, he⟩ := chol_info_meaning A n e h
  have hr := chol_error_range A n e h
  refine ⟨(chol_sound A (e - 1) L hL).spd (fun i j hi hj => hs i j (by omega) (by omega)), ?_⟩
  exact chol_error_not_spd A e e he

/-- forward + back substitution with a Cholesky factor returns `x` with `A x = b` -/
theorem cholSolve_solves (n : Nat) (A : Nat → Nat → ℝ) (L : Tab2 ℝ) (b : Nat → ℝ) (hs : IsSymm n A)
    (h : chol A n = .ok L) : ∀ i, i < n → ∑ j ∈ range n, A i j * (cholSolve n L.get b).get j = b i :=
  fun i hi => cholSolve_correct n A L.get b (chol_sound A n L h) hs i hi

/-- the solution of a positive definite system is unique (so "the solution" is well defined) -/
theorem spd_solution_unique (n : Nat) (A : Nat → Nat → ℝ) (h : IsSPD n A) (x y : Nat → ℝ)
    (hxy : ∀ i, i < n → ∑ j ∈ range n, A i j * x j = ∑ j ∈ range n, A i j * y j) : ∀ i, i < n → x i = y i :=
  spd_unique n A h x y hxy

/-- the executable kernels run by the driver (`chol`, forward/back substitution; `upper` = either triangle) meet the
contract — so `cholesky_forward_spec` is not vacuous and the driver's stand-in needs no run-time re-check. -/
theorem cholesky_std_kernels_contract (n : Nat) (upper : Bool) :
    CholContract n (cholExStd n upper) (cholSolveStd n upper) :=
  cholExStd_contract n upper

/-- `x = None` is the zero initial guess: identical final state -/
theorem cg_x0_none_eq_zeros (n : Nat) (tol : ℝ) (maxiter : Option Nat) (A : Nat → Nat → ℝ) (b : Nat → ℝ)
    (M : Option (Nat → Nat → ℝ)) :
    cgForward n tol maxiter A b none M = cgForward n tol maxiter A b (some fun _ => k 0) M := rfl

/-- **statelessness** — for every history of calls (any sizes, in any order) on one solver object: the object comes
back unchanged, and call `k` returns exactly what a FRESH solver with the same constructor arguments returns on system
`k`. -/
theorem cg_history_stateless (o : CGObj ℝ) (cs : List (CGCall ℝ)) :
    (cgHistory o cs).1 = o ∧
    (cgHistory o cs).2 = cs.map (fun c => cgForward c.n o.tol o.maxiter c.A c.b c.x0 c.M) := by
  rw [cgHistory_eq]; exact ⟨rfl, rfl⟩

/-- **atomicity of a failing call** — in a history in which some calls raise (`none`) and the caller goes on with the
same object: the object is unchanged at the end, a failed call contributes nothing, and the successful calls return
exactly what they return in the history WITHOUT the failed calls. -/
theorem cg_history_atomic (o : CGObj ℝ) (cs : List (Option (CGCall ℝ))) :
    (cgHistoryE o cs).1 = o ∧
    (cgHistoryE o cs).2.filterMap id = (cgHistory o (cs.filterMap id)).2 := by
  rw [cgHistoryE_eq, cgHistory_eq]
  refine ⟨rfl, ?_⟩
  simp only []
  induction cs with
  | nil => rfl
  | cons c cs ih =>
    cases c with
    | none => simpa using ih
    | some c => simpa using ih

/-- **independence of copies** — two solver objects used alternately (an object and its `deepcopy` / `copy` / unpickled /
`state_dict`-loaded copy): both come back unchanged and every call returns what ITS OWN object alone returns on that
system; in particular with `o2 = o1` (a faithful copy) every call equals a fresh solver's. -/
theorem cg_copies_independent (o1 o2 : CGObj ℝ) (cs : List (Bool × CGCall ℝ)) :
    (cgHistory2 o1 o2 cs).1 = (o1, o2) ∧
    (cgHistory2 o1 o2 cs).2 = cs.map (fun wc =>
      cgForward wc.2.n (if wc.1 then o1 else o2).tol (if wc.1 then o1 else o2).maxiter wc.2.A wc.2.b wc.2.x0 wc.2.M) := by
  rw [cgHistory2_eq]; exact ⟨rfl, rfl⟩

/-- **the budget of call `k` depends only on call `k`'s own `n`**: with the default `maxiter = None` the pass counts
of a history are bounded, position by position, by `map (fun c => 10 · c.n)` — never by the size of an earlier system. -/
theorem cg_history_budgets (tol : ℝ) (cs : List (CGCall ℝ)) :
    List.Forall₂ (fun (s : CGState ℝ) (c : CGCall ℝ) => s.iter ≤ c.n * 10) (cgHistory ⟨none, tol⟩ cs).2 cs := by
  rw [cgHistory_eq]
  simp only []
  induction cs with
  | nil => exact List.Forall₂.nil
  | cons c cs ih =>
    rw [List.map_cons]
    exact List.Forall₂.cons (cgForward_iter_le c.n tol none c.A c.b c.x0 c.M) ih

/-- **every call of every history converges** (exact arithmetic): on one default-budget object, each call whose system
is SPD (SPD or no preconditioner) with `b ≠ 0` takes its early return within its OWN `n` passes and returns `x` with
`‖b − A x‖ < tol ‖b‖` — whatever was solved before on the same object. -/
theorem cg_history_converges (tol : ℝ) (htol : 0 < tol) (cs : List (CGCall ℝ))
    (hspd : ∀ c ∈ cs, IsSPD c.n c.A ∧ (∀ M', c.M = some M' → IsSPD c.n M') ∧ ∃ i, i < c.n ∧ c.b i ≠ 0) :
    List.Forall₂ (fun (s : CGState ℝ) (c : CGCall ℝ) =>
        s.stopped = true ∧ s.iter ≤ c.n ∧
        norm c.n (fun i => c.b i - ∑ j ∈ range c.n, c.A i j * s.x.get j) < tol * norm c.n c.b)
      (cgHistory ⟨none, tol⟩ cs).2 cs := by
  rw [cgHistory_eq]
  simp only []
  induction cs with
  | nil => exact List.Forall₂.nil
  | cons c cs ih =>
    rw [List.map_cons]
    obtain ⟨hA, hM, hb⟩ := hspd c (List.mem_cons_self ..)
    refine List.Forall₂.cons ?_ (ih fun c' hc' => hspd c' (List.mem_cons_of_mem _ hc'))
    obtain ⟨i, hi, hbi⟩ := hb
    have hbud : c.n + 1 ≤ cgBudget c.n none := by
      show c.n + 1 ≤ c.n * 10
      omega
    exact cg_exact_convergence c.n tol none c.A c.b c.x0 c.M hA hM htol ⟨i, hi, hbi⟩ hbud

/-- the same for EVERY call of EVERY history on one solver object -/
theorem cg_history_trichotomy (o : CGObj ℝ) (cs : List (CGCall ℝ)) :
    List.Forall₂ (fun (s : CGState ℝ) (c : CGCall ℝ) =>
        ((∀ i, i < c.n → c.b i = 0) ∧ ∀ i, s.x.get i = 0) ∨
        (s.stopped = true ∧ norm c.n (fun i => c.b i - ∑ j ∈ range c.n, c.A i j * s.x.get j) < o.tol * norm c.n c.b) ∨
        (s.stopped = false ∧ s.iter = cgBudget c.n o.maxiter))
      (cgHistory o cs).2 cs := by
  rw [cgHistory_eq]
  simp only []
  induction cs with
  | nil => exact List.Forall₂.nil
  | cons c cs ih =>
    rw [List.map_cons]
    refine List.Forall₂.cons ?_ ih
    rcases cgForward_trichotomy_model c.n o.tol o.maxiter c.A c.b c.x0 c.M with h | h | h
    · exact Or.inl h
    · exact Or.inr (Or.inl h)
    · exact Or.inr (Or.inr ⟨h.1, h.2.1⟩)

end PP.LinSolve
