import Proofs.Lemmas.Convert
import Proofs.Lemmas.ConvertGeneral
import Pose.Model.ConvertCall
import Proofs.Lemmas.ConvertGlue
/-!
# C11 — matrix and Euler conversions are exact inverses of `matrix()` / of each other

All statements are about the model `Pose/Model/Convert.lean` (+ `matrix()` of `Pose/Model/Lie.lean`) at `α = ℝ`.
`detK` is the determinant kernel (`torch.det`), a parameter with the contract `hdet : ∀ M, detK M = M.det`.
`canonQ atol p` is `p` or `−p` — the representative whose dominant component (the one the selected candidate
divides by) is positive; `canonQ_cases`, `canonQ_normSq`, `SO3matrix_canonQ` say it is the same rotation.
Floating-point rounding is outside the theorems (measured by the correspondence check).
-/

namespace PP

open Vec3 Quat Mat3

/-! `C11.ValidSE3 / ValidSim3 / ValidRxSO3` (unit quaternion, positive scale — "an element") are defined in
`Proofs/Lemmas/ConvertGlue.lean`. -/

/-! ## 1. `mat2SO3` inverts `matrix()` — all four branch regions, every angle incl. π -/

/-- in whichever of the four mask regions the matrix of a unit quaternion falls, the selected `t_i` is
`≥ 1 − |atol|` : the square root is taken of a positive number and nothing is divided by ~0 -/
theorem mat2SO3_selected_t_pos (p : Quat ℝ) (h : p.normSq = 1) (atol : ℝ) :
    1 - |atol| ≤ (candOf (SO3matrix p).transpose (mat2SO3Region atol (SO3matrix p).transpose)).t :=
  selected_t_ge p h atol

/-- branch agreement: *any* of the four candidates whose own component is non-zero gives `±p`, so a different
(e.g. rounded) mask decision changes at most the sign of the result -/
theorem mat2SO3_any_branch (p : Quat ℝ) (h : p.normSq = 1) (r : Nat) (hr : domComp r p ≠ 0) :
    (candOf (SO3matrix p).transpose r).toQuat = p ∨ (candOf (SO3matrix p).transpose r).toQuat = p.neg := by
  rw [cand_any_branch p h r hr]; split_ifs <;> simp

/-- the conversion proper on `matrix()` of a unit quaternion: exactly `±p` -/
theorem mat2SO3Raw_matrix (p : Quat ℝ) (h : p.normSq = 1) (atol : ℝ) (ha : |atol| < 1) :
    mat2SO3Raw atol (SO3matrix p) = canonQ atol p := mat2SO3Raw_rot p h atol ha

/-- **`mat2SO3(X.matrix())`**, `check` on or off, any tolerances `0 ≤ rtol`, `0 ≤ atol < 1`: never raises and
returns `±X` -/
theorem mat2SO3_matrix (detK : Mat3 ℝ → ℝ) (hdet : ∀ M, detK M = M.det) (check : Bool) (rtol atol : ℝ)
    (hr : 0 ≤ rtol) (ha0 : 0 ≤ atol) (ha1 : atol < 1) (p : Quat ℝ) (h : p.normSq = 1) :
    mat2SO3 detK check rtol atol (SO3matrix p) = .ok (canonQ atol p) := by
  unfold mat2SO3
  rw [orthOk_rot p h _ _ hr ha0, hdet, detOk_rot p h _ _ hr ha0, mat2SO3Raw_rot p h atol (by rw [abs_of_nonneg ha0]; exact ha1)]
  simp

/-- … hence same matrix, unit quaternion, equal to `X` up to sign -/
theorem mat2SO3_matrix_spec (detK : Mat3 ℝ → ℝ) (hdet : ∀ M, detK M = M.det) (check : Bool) (rtol atol : ℝ)
    (hr : 0 ≤ rtol) (ha0 : 0 ≤ atol) (ha1 : atol < 1) (p : Quat ℝ) (h : p.normSq = 1) :
    ∃ r, mat2SO3 detK check rtol atol (SO3matrix p) = .ok r ∧ SO3matrix r = SO3matrix p ∧ r.normSq = 1 ∧
      (r = p ∨ r = p.neg) ∧ ∀ v, r.act v = p.act v :=
  ⟨canonQ atol p, mat2SO3_matrix detK hdet check rtol atol hr ha0 ha1 p h, SO3matrix_canonQ atol p,
    by rw [canonQ_normSq, h], canonQ_cases atol p, canonQ_act atol p⟩

/-- batches of any length (the `allclose` tests look at the whole batch) -/
theorem mat2SO3Batch_matrix (detK : Mat3 ℝ → ℝ) (hdet : ∀ M, detK M = M.det) (check : Bool) (rtol atol : ℝ)
    (hr : 0 ≤ rtol) (ha0 : 0 ≤ atol) (ha1 : atol < 1) (ps : List (Quat ℝ)) (h : ∀ p ∈ ps, p.normSq = 1) :
    mat2SO3Batch detK check rtol atol (ps.map SO3matrix) = .ok (ps.map (canonQ atol)) := by
  rw [mat2SO3Batch_ok_of_all, List.map_map]
  · congr 1; apply List.map_congr_left; intro p hp
    exact mat2SO3Raw_rot p (h p hp) atol (by rw [abs_of_nonneg ha0]; exact ha1)
  · intro R hR
    obtain ⟨p, hp, rfl⟩ := List.mem_map.mp hR
    exact ⟨orthOk_rot p (h p hp) _ _ hr ha0, by rw [hdet]; exact detOk_rot p (h p hp) _ _ hr ha0⟩

/-- the double cover is exactly two-to-one: unit quaternions with the same matrix are equal up to sign -/
theorem SO3matrix_injective_up_to_sign (p r : Quat ℝ) (hp : p.normSq = 1) (hr : r.normSq = 1)
    (h : SO3matrix p = SO3matrix r) : p = r ∨ p = r.neg := SO3matrix_inj p r hp hr h

/-- **general form**: for *any* proper rotation matrix `R` (`R Rᵀ = 1`, `det R = 1` — not assumed to come from
`matrix()`), `mat2SO3` (check on or off) returns a unit quaternion whose matrix is `R` again -/
theorem mat2SO3_general (detK : Mat3 ℝ → ℝ) (hdet : ∀ M, detK M = M.det) (check : Bool) (rtol atol : ℝ)
    (hr : 0 ≤ rtol) (ha0 : 0 ≤ atol) (ha1 : atol < 1) (R : Mat3 ℝ) (hO : R.mul R.transpose = Mat3.one)
    (hD : R.det = 1) :
    ∃ r, mat2SO3 detK check rtol atol R = .ok r ∧ r.normSq = 1 ∧ SO3matrix r = R := by
  refine ⟨mat2SO3Raw atol R, ?_, mat2SO3Raw_general R hO hD atol (by rw [abs_of_nonneg ha0]; exact ha1)⟩
  have h1 : orthOk rtol atol R = true := by unfold orthOk; rw [hO]; exact Mat3.allclose_self _ _ _ hr ha0
  have h2 : detOk rtol atol (detK R) = true := by
    unfold detOk; rw [hdet, hD]; simpa using closeTo_self rtol atol 1 hr ha0
  unfold mat2SO3; simp [h1, h2]

/-- every proper rotation matrix is the matrix of a unit quaternion (surjectivity of the double cover), the
witness being what `mat2SO3` computes -/
theorem rotation_has_quaternion (R : Mat3 ℝ) (hO : R.mul R.transpose = Mat3.one) (hD : R.det = 1) :
    ∃ r : Quat ℝ, r.normSq = 1 ∧ SO3matrix r = R :=
  ⟨mat2SO3Raw 0 R, mat2SO3Raw_general R hO hD 0 (by simp)⟩

/-- on *any* matrix at all (valid or not) the selected `t_i` is positive — the mask inequalities alone give
`t0 > 1 − atol` in region 0, …, `t3 ≥ 1 + atol` in region 3 — so `mat2SO3(check=False)` never takes the root of a
negative number or divides by zero -/
theorem mat2SO3_selected_t_pos_any (R : Mat3 ℝ) (atol : ℝ) (ha : |atol| < 1) :
    0 < (candOf R.transpose (mat2SO3Region atol R.transpose)).t := selected_t_pos_general R atol ha

/-! ## 2. layouts 3×3 / 3×4 / 4×4, translation and scale blocks -/

/-- `mat2SE3` on `X.matrix()` given as 3×3 (translation dropped → zeros), 3×4 or 4×4, batch of any length -/
theorem mat2SE3Batch_matrix (detK : Mat3 ℝ → ℝ) (hdet : ∀ M, detK M = M.det) (check : Bool) (rtol atol : ℝ)
    (hr : 0 ≤ rtol) (ha0 : 0 ≤ atol) (ha1 : atol < 1) (lay : Layout) (Xs : List (SE3 ℝ))
    (h : ∀ X ∈ Xs, C11.ValidSE3 X) :
    mat2SE3Batch detK check rtol atol (Xs.map fun X => MatIn.ofDMat lay (SE3matrix X))
      = .ok (Xs.map fun X => ⟨if lay = .m33 then Vec3.zero else X.t, canonQ atol X.q⟩) := by
  unfold mat2SE3Batch
  have hR : (Xs.map fun X => MatIn.ofDMat lay (SE3matrix X)).map (·.R) = (Xs.map (·.q)).map SO3matrix := by
    rw [List.map_map, List.map_map]; apply List.map_congr_left; intro X _
    simp [MatIn.ofDMat_SE3]
  rw [hR, mat2SO3Batch_matrix detK hdet check rtol atol hr ha0 ha1 (Xs.map (·.q))
    (by intro p hp; obtain ⟨X, hX, rfl⟩ := List.mem_map.mp hp; exact h X hX)]
  simp only [List.map_map, List.zipWith_map, List.zipWith_self]
  congr 1; apply List.map_congr_left; intro X _
  simp only [MatIn.ofDMat_SE3, MatIn.tOf, Function.comp]
  cases lay <;> simp

/-- scale extraction: the cube root of the determinant of `s·R(q)` is `s` -/
theorem cbrt_det (s : ℝ) (hs : 0 < s) (p : Quat ℝ) (h : p.normSq = 1) :
    powThird (Mat3.smul s (SO3matrix p)).det = some s := by
  rw [Mat3.det_smul, rot_det p h, mul_one, powThird_cube s hs]

/-- `mat2Sim3` on `X.matrix()` in any layout, batch of any length (incl. empty), not all scales `≤ atol`:
same translation, `±` same quaternion, same scale.
(`hbig` is implied by the property's range `s ∈ [1e-3, 1e3]` and the default `atol = 1e-5`.) -/
theorem mat2Sim3Batch_matrix (detK : Mat3 ℝ → ℝ) (hdet : ∀ M, detK M = M.det) (check : Bool)
    (rtol atol : ℝ) (hr : 0 ≤ rtol) (ha0 : 0 ≤ atol) (ha1 : atol < 1) (lay : Layout) (Xs : List (Sim3 ℝ))
    (h : ∀ X ∈ Xs, C11.ValidSim3 X) (hbig : Xs ≠ [] → ∃ X ∈ Xs, atol < X.s) :
    mat2Sim3Batch detK check rtol atol (Xs.map fun X => MatIn.ofDMat lay (Sim3matrix X))
      = .ok (Xs.map fun X => ⟨if lay = .m33 then Vec3.zero else X.t, canonQ atol X.q, X.s⟩) := by
  unfold mat2Sim3Batch
  have hR : (Xs.map fun X => MatIn.ofDMat lay (Sim3matrix X)).map (·.R)
      = (Xs.map fun X => (X.q, X.s)).map fun p => Mat3.smul p.2 (SO3matrix p.1) := by
    rw [List.map_map, List.map_map]; apply List.map_congr_left; intro X _
    simp [MatIn.ofDMat_Sim3]
  rw [hR, scaledRotBatch_valid detK hdet check rtol atol hr ha0 ha1 (Xs.map fun X => (X.q, X.s))
    (by intro p hp; obtain ⟨X, hX, rfl⟩ := List.mem_map.mp hp; exact h X hX)
    (by intro hne; obtain ⟨X, hX, hb⟩ := hbig (by intro h0; rw [h0] at hne; exact hne rfl)
        exact ⟨(X.q, X.s), List.mem_map.mpr ⟨X, hX, rfl⟩, hb⟩)]
  simp only [List.map_map, List.zipWith_map, List.zipWith_self]
  congr 1; apply List.map_congr_left; intro X _
  simp only [MatIn.ofDMat_Sim3, MatIn.tOf, Function.comp]
  cases lay <;> simp

/-- `mat2RxSO3` likewise (the translation column of a 3×4 / 4×4 input is ignored) -/
theorem mat2RxSO3Batch_matrix (detK : Mat3 ℝ → ℝ) (hdet : ∀ M, detK M = M.det) (check : Bool)
    (rtol atol : ℝ) (hr : 0 ≤ rtol) (ha0 : 0 ≤ atol) (ha1 : atol < 1) (lay : Layout) (Xs : List (RxSO3 ℝ))
    (h : ∀ X ∈ Xs, C11.ValidRxSO3 X) (hbig : Xs ≠ [] → ∃ X ∈ Xs, atol < X.s) :
    mat2RxSO3Batch detK check rtol atol (Xs.map fun X => MatIn.ofDMat lay (RxSO3matrix X))
      = .ok (Xs.map fun X => ⟨canonQ atol X.q, X.s⟩) := by
  unfold mat2RxSO3Batch
  have hR : (Xs.map fun X => MatIn.ofDMat lay (RxSO3matrix X)).map (·.R)
      = (Xs.map fun X => (X.q, X.s)).map fun p => Mat3.smul p.2 (SO3matrix p.1) := by
    rw [List.map_map, List.map_map]; apply List.map_congr_left; intro X _
    simp [MatIn.ofDMat_RxSO3]
  rw [hR, scaledRotBatch_valid detK hdet check rtol atol hr ha0 ha1 (Xs.map fun X => (X.q, X.s))
    (by intro p hp; obtain ⟨X, hX, rfl⟩ := List.mem_map.mp hp; exact h X hX)
    (by intro hne; obtain ⟨X, hX, hb⟩ := hbig (by intro h0; rw [h0] at hne; exact hne rfl)
        exact ⟨(X.q, X.s), List.mem_map.mpr ⟨X, hX, rfl⟩, hb⟩)]
  simp only [List.map_map]
  congr 1

/-- one item -/
theorem mat2Sim3_matrix (detK : Mat3 ℝ → ℝ) (hdet : ∀ M, detK M = M.det) (check : Bool) (rtol atol : ℝ)
    (hr : 0 ≤ rtol) (ha0 : 0 ≤ atol) (ha1 : atol < 1) (lay : Layout) (X : Sim3 ℝ) (h : C11.ValidSim3 X)
    (hbig : atol < X.s) :
    mat2Sim3 detK check rtol atol (MatIn.ofDMat lay (Sim3matrix X))
      = .ok ⟨if lay = .m33 then Vec3.zero else X.t, canonQ atol X.q, X.s⟩ := by
  have := mat2Sim3Batch_matrix detK hdet check rtol atol hr ha0 ha1 lay [X]
    (by intro Y hY; rw [List.mem_singleton.mp hY]; exact h) (fun _ => ⟨X, by simp, hbig⟩)
  simp only [List.map_cons, List.map_nil] at this
  unfold mat2Sim3; rw [this]

theorem mat2RxSO3_matrix (detK : Mat3 ℝ → ℝ) (hdet : ∀ M, detK M = M.det) (check : Bool) (rtol atol : ℝ)
    (hr : 0 ≤ rtol) (ha0 : 0 ≤ atol) (ha1 : atol < 1) (lay : Layout) (X : RxSO3 ℝ) (h : C11.ValidRxSO3 X)
    (hbig : atol < X.s) :
    mat2RxSO3 detK check rtol atol (MatIn.ofDMat lay (RxSO3matrix X)) = .ok ⟨canonQ atol X.q, X.s⟩ := by
  have := mat2RxSO3Batch_matrix detK hdet check rtol atol hr ha0 ha1 lay [X]
    (by intro Y hY; rw [List.mem_singleton.mp hY]; exact h) (fun _ => ⟨X, by simp, hbig⟩)
  simp only [List.map_cons, List.map_nil] at this
  unfold mat2RxSO3; rw [this]

/-- **general form** of the scaled conversion: any `[s·R | t]` with `R` a proper rotation (not assumed to come from
a quaternion), `s > atol`: same translation, same scale, a unit quaternion with matrix `R` -/
theorem mat2Sim3_general (detK : Mat3 ℝ → ℝ) (hdet : ∀ M, detK M = M.det) (check : Bool) (rtol atol : ℝ)
    (hr : 0 ≤ rtol) (ha0 : 0 ≤ atol) (ha1 : atol < 1) (lay : Layout) (R : Mat3 ℝ)
    (hO : R.mul R.transpose = Mat3.one) (hD : R.det = 1) (t : Vec3 ℝ) (s : ℝ) (hs : atol < s) :
    ∃ X, mat2Sim3 detK check rtol atol ⟨lay, Mat3.smul s R, t, ⟨0, 0, 0⟩, 1⟩ = .ok X ∧ X.s = s ∧
      X.t = (if lay = .m33 then Vec3.zero else t) ∧ X.q.normSq = 1 ∧ SO3matrix X.q = R := by
  obtain ⟨r, hr1, hrR⟩ := rotation_has_quaternion R hO hD
  have h := mat2Sim3_matrix detK hdet check rtol atol hr ha0 ha1 lay ⟨t, r, s⟩ ⟨hr1, lt_of_le_of_lt ha0 hs⟩ hs
  rw [MatIn.ofDMat_Sim3] at h
  simp only [hrR] at h
  exact ⟨_, h, rfl, rfl, by rw [canonQ_normSq]; exact hr1, by rw [SO3matrix_canonQ]; exact hrR⟩

theorem mat2RxSO3_general (detK : Mat3 ℝ → ℝ) (hdet : ∀ M, detK M = M.det) (check : Bool) (rtol atol : ℝ)
    (hr : 0 ≤ rtol) (ha0 : 0 ≤ atol) (ha1 : atol < 1) (lay : Layout) (R : Mat3 ℝ)
    (hO : R.mul R.transpose = Mat3.one) (hD : R.det = 1) (s : ℝ) (hs : atol < s) :
    ∃ X, mat2RxSO3 detK check rtol atol ⟨lay, Mat3.smul s R, ⟨0, 0, 0⟩, ⟨0, 0, 0⟩, 1⟩ = .ok X ∧ X.s = s ∧
      X.q.normSq = 1 ∧ SO3matrix X.q = R := by
  obtain ⟨r, hr1, hrR⟩ := rotation_has_quaternion R hO hD
  have h := mat2RxSO3_matrix detK hdet check rtol atol hr ha0 ha1 lay ⟨r, s⟩ ⟨hr1, lt_of_le_of_lt ha0 hs⟩ hs
  rw [MatIn.ofDMat_RxSO3] at h
  simp only [hrR] at h
  exact ⟨_, h, rfl, by rw [canonQ_normSq]; exact hr1, by rw [SO3matrix_canonQ]; exact hrR⟩

theorem mat2SE3_general (detK : Mat3 ℝ → ℝ) (hdet : ∀ M, detK M = M.det) (check : Bool) (rtol atol : ℝ)
    (hr : 0 ≤ rtol) (ha0 : 0 ≤ atol) (ha1 : atol < 1) (m : MatIn ℝ)
    (hO : m.R.mul m.R.transpose = Mat3.one) (hD : m.R.det = 1) :
    ∃ X, mat2SE3 detK check rtol atol m = .ok X ∧ X.t = m.tOf ∧ X.q.normSq = 1 ∧ SO3matrix X.q = m.R := by
  obtain ⟨r, h1, h2, h3⟩ := mat2SO3_general detK hdet check rtol atol hr ha0 ha1 m.R hO hD
  exact ⟨⟨m.tOf, r⟩, by unfold mat2SE3; rw [h1], rfl, h2, h3⟩

/-! ## 3. Euler angles -/

/-- `euler2SO3 (roll, pitch, yaw)` is the rotation `Rz(yaw)·Ry(pitch)·Rx(roll)`, for all real angles -/
theorem euler2SO3_eq (e : Vec3 ℝ) : SO3matrix (euler2SO3 e) = eulerMat e := euler2SO3_matrix' e

/-- … and a unit quaternion -/
theorem euler2SO3_unit (e : Vec3 ℝ) : (euler2SO3 e).normSq = 1 := euler2SO3_normSq' e

/-- `euler ∘ euler2SO3 = id` on the principal ranges whenever `|sin pitch| < 1 − eps` -/
theorem euler_inverse (eps : ℝ) (heps : 0 ≤ eps) (e : Vec3 ℝ)
    (hr : e.x ∈ Set.Ioc (-Real.pi) Real.pi) (hp : e.y ∈ Set.Icc (-(Real.pi / 2)) (Real.pi / 2))
    (hy : e.z ∈ Set.Ioc (-Real.pi) Real.pi) (hreg : |Real.sin e.y| < 1 - eps) :
    SO3euler eps (euler2SO3 e) = e := SO3euler_euler2SO3 eps e hr hp hy hreg heps

/-- **converse**: for every unit `X` away from gimbal lock (`|sin pitch| = |t2| < 1 − eps`),
`euler2SO3 (X.euler())` has the matrix of `X` … -/
theorem euler2SO3_euler_same_rotation (eps : ℝ) (heps : 0 ≤ eps) (p : Quat ℝ) (h : p.normSq = 1)
    (hreg : eulerRegular eps p = true) : SO3matrix (euler2SO3 (SO3euler eps p)) = SO3matrix p := by
  rw [euler2SO3_matrix', eulerMat_SO3euler eps heps p h hreg]

/-- … i.e. it is `X` or `−X` -/
theorem euler2SO3_euler (eps : ℝ) (heps : 0 ≤ eps) (p : Quat ℝ) (h : p.normSq = 1)
    (hreg : eulerRegular eps p = true) :
    euler2SO3 (SO3euler eps p) = p ∨ euler2SO3 (SO3euler eps p) = p.neg :=
  SO3matrix_inj _ _ (euler2SO3_normSq' _) h (euler2SO3_euler_same_rotation eps heps p h hreg)

/-- **inside the gimbal-lock band, documented expectation**: exactly at lock (`sin pitch = ±1`) the singular-branch
formulas of `euler()` (`roll = 0`, `pitch = ±π/2`, `yaw = −2·pm(t2)·atan2(x, w)`) reproduce the rotation exactly,
`Rz(yaw)·Ry(pitch)·Rx(0) = R(X)`; away from lock inside the band the deviation grows with `acos|sin pitch| ≤ √(2·eps)`
(measured ≤ 1.12·acos|t2| by the harness oracle `gimbal`, not proved) -/
theorem euler_gimbal_lock_exact (eps : ℝ) (heps : 0 ≤ eps) (p : Quat ℝ) (h : p.normSq = 1)
    (hlock : 2 * (p.w * p.y - p.z * p.x) = 1 ∨ 2 * (p.w * p.y - p.z * p.x) = -1) :
    SO3matrix (euler2SO3 (SO3euler eps p)) = SO3matrix p ∧
      (euler2SO3 (SO3euler eps p) = p ∨ euler2SO3 (SO3euler eps p) = p.neg) := by
  have hm : SO3matrix (euler2SO3 (SO3euler eps p)) = SO3matrix p := by
    rw [euler2SO3_matrix', eulerMat_SO3euler_gimbal eps heps p h hlock]
  exact ⟨hm, SO3matrix_inj _ _ (euler2SO3_normSq' _) h hm⟩

/-- `eulerRegular` is the stated condition: on a unit quaternion `t2 = 2(wy − zx) = sin(pitch)` -/
theorem eulerRegular_iff (eps : ℝ) (p : Quat ℝ) (h : p.normSq = 1) :
    eulerRegular eps p = true ↔ |2 * (p.w * p.y - p.z * p.x)| < 1 - eps := by
  simp [eulerRegular, eulerT_unit p h, sabs_real]

/-- returned angles are in their principal ranges: roll, yaw ∈ (−π, π] (regular branch), pitch ∈ [−π/2, π/2] (always).
Guard `0 < ‖p‖²`: for the zero quaternion the code divides `0/0` (NaN) while the model's real division gives 0 — the
statement is made for what the code can be given -/
theorem euler_ranges (eps : ℝ) (p : Quat ℝ) (_hp : 0 < p.normSq) (hreg : eulerRegular eps p = true) :
    (SO3euler eps p).x ∈ Set.Ioc (-Real.pi) Real.pi ∧ (SO3euler eps p).y ∈ Set.Icc (-(Real.pi / 2)) (Real.pi / 2) ∧
    (SO3euler eps p).z ∈ Set.Ioc (-Real.pi) Real.pi :=
  ⟨(SO3euler_ranges eps p hreg).1, SO3euler_pitch_range eps p, (SO3euler_ranges eps p hreg).2⟩

/-- the pitch returned is `arcsin` of the clamped `sin pitch` — in range for every non-zero quaternion, also at gimbal lock -/
theorem euler_pitch_range (eps : ℝ) (p : Quat ℝ) (_hp : 0 < p.normSq) :
    (SO3euler eps p).y ∈ Set.Icc (-(Real.pi / 2)) (Real.pi / 2) := SO3euler_pitch_range eps p

/-! ## 4. `check=True` : accepts every valid input, rejects beyond the tolerances -/

/-- valid inputs never raise (SO3 block tests): exact rotations pass both `allclose` tests for any
`rtol, atol ≥ 0` -/
theorem check_accepts_valid (rtol atol : ℝ) (hr : 0 ≤ rtol) (ha : 0 ≤ atol) (p : Quat ℝ) (h : p.normSq = 1) :
    orthOk rtol atol (SO3matrix p) = true ∧ detOk rtol atol (SO3matrix p).det = true :=
  ⟨orthOk_rot p h rtol atol hr ha, detOk_rot p h rtol atol hr ha⟩

/-- the acceptance test, spelled out: `mat2SO3(check=True)` returns iff every entry of `R Rᵀ − 1` is within
`atol` (`atol + rtol` on the diagonal) and `|det R − 1| ≤ atol + rtol`; the value is then the conversion proper -/
theorem mat2SO3_check_iff (detK : Mat3 ℝ → ℝ) (hdet : ∀ M, detK M = M.det) (rtol atol : ℝ) (R : Mat3 ℝ) (q : Quat ℝ) :
    mat2SO3 detK true rtol atol R = .ok q ↔
      ((|(R.mul R.transpose).r0.x - 1| ≤ atol + rtol ∧ |(R.mul R.transpose).r1.y - 1| ≤ atol + rtol ∧
        |(R.mul R.transpose).r2.z - 1| ≤ atol + rtol) ∧
       (|(R.mul R.transpose).r0.y| ≤ atol ∧ |(R.mul R.transpose).r0.z| ≤ atol ∧ |(R.mul R.transpose).r1.x| ≤ atol ∧
        |(R.mul R.transpose).r1.z| ≤ atol ∧ |(R.mul R.transpose).r2.x| ≤ atol ∧ |(R.mul R.transpose).r2.y| ≤ atol)) ∧
      |R.det - 1| ≤ atol + rtol ∧ q = mat2SO3Raw atol R := by
  rw [mat2SO3_ok_iff, orthOk_iff, hdet, detOk_iff]

/-- in a batch one bad item anywhere makes the whole call raise -/
theorem check_rejects_batch (detK : Mat3 ℝ → ℝ) (rtol atol : ℝ) (Rs : List (Mat3 ℝ))
    (h : ∃ R ∈ Rs, orthOk rtol atol R = false ∨ detOk rtol atol (detK R) = false) :
    ∃ e, mat2SO3Batch detK true rtol atol Rs = .error e := mat2SO3Batch_error_of_bad detK rtol atol Rs h

/-- and a batch is accepted iff every item passes both tests -/
theorem check_batch_iff (detK : Mat3 ℝ → ℝ) (rtol atol : ℝ) (Rs : List (Mat3 ℝ)) :
    mat2SO3Batch detK true rtol atol Rs = .ok (Rs.map (mat2SO3Raw atol)) ↔
      ∀ R ∈ Rs, orthOk rtol atol R = true ∧ detOk rtol atol (detK R) = true := by
  constructor
  · intro hok R hR
    by_contra hc
    have hbad : orthOk rtol atol R = false ∨ detOk rtol atol (detK R) = false := by
      by_cases h1 : orthOk rtol atol R = true
      · right; simpa [h1] using hc
      · left; simpa using h1
    obtain ⟨e, he⟩ := mat2SO3Batch_error_of_bad detK rtol atol Rs ⟨R, hR, hbad⟩
    rw [he] at hok; exact absurd hok (by simp)
  · exact mat2SO3Batch_ok_of_all detK true rtol atol Rs

/-- a uniformly scaled rotation `c·R(q)` with `|c² − 1| > atol + rtol` is *not* a rotation: `mat2SO3` raises -/
theorem check_rejects_scaled (detK : Mat3 ℝ → ℝ) (rtol atol c : ℝ) (p : Quat ℝ) (h : p.normSq = 1)
    (hc : atol + rtol < |c * c - 1|) :
    mat2SO3 detK true rtol atol (Mat3.smul c (SO3matrix p)) = .error .notOrthogonal := by
  have horth : orthOk rtol atol (Mat3.smul c (SO3matrix p)) = false := by
    apply Bool.eq_false_iff.mpr; intro hok
    have h00 := ((orthOk_iff _ _ _).mp hok).1.1
    have e : ((Mat3.smul c (SO3matrix p)).mul (Mat3.smul c (SO3matrix p)).transpose).r0.x
        = c * c * ((SO3matrix p).mul (SO3matrix p).transpose).r0.x := by lie_unfold; ring
    rw [e, rot_orthogonal p h] at h00
    simp only [Mat3.one, Vec3.e0, k_real, Nat.cast_one, mul_one] at h00
    linarith
  unfold mat2SO3; simp [horth]

/-- scaled conversions: a non-empty rank-deficient batch (every determinant `0`) raises "not full rank" whatever `check` -/
theorem scaled_rejects_rank_deficient (detK : Mat3 ℝ → ℝ) (check : Bool) (rtol atol : ℝ) (hr : 0 ≤ rtol)
    (ha : 0 ≤ atol) (Rs : List (Mat3 ℝ)) (hne : Rs ≠ []) (h : ∀ R ∈ Rs, detK R = 0) :
    scaledRotBatch detK check rtol atol Rs = .error .notFullRank := by
  have : rankTestFails rtol atol (Rs.map fun R => powThird (detK R)) = true := by
    unfold rankTestFails
    rw [Bool.and_eq_true]
    refine ⟨by simpa using hne, ?_⟩
    apply List.all_eq_true.mpr; intro s hs
    obtain ⟨R, hR, rfl⟩ := List.mem_map.mp hs
    rw [h R hR]
    have : powThird (0 : ℝ) = some 0 := by simp [powThird]
    rw [this]; simpa [scaleTiny] using closeTo_self rtol atol 0 hr ha
  unfold scaledRotBatch; simp only [this, if_true]

/-- scaled conversions with `check=True`: an item with non-positive determinant (reflection, rank-deficient
item in a batch of good ones) makes the call raise -/
theorem scaled_rejects_nonpositive_det (detK : Mat3 ℝ → ℝ) (rtol atol : ℝ) (Rs : List (Mat3 ℝ))
    (h : ∃ R ∈ Rs, detK R ≤ 0) : ∃ e, scaledRotBatch detK true rtol atol Rs = .error e := by
  obtain ⟨R, hR, hd⟩ := h
  unfold scaledRotBatch
  by_cases h1 : rankTestFails rtol atol (Rs.map fun R => powThird (detK R)) = true
  · exact ⟨.notFullRank, by simp only [h1, if_true]⟩
  · have h2 : ((Rs.map fun R => powThird (detK R)).all fun s => (scaleUsable s).isSome) = false := by
      apply Bool.eq_false_iff.mpr; intro hall
      have := List.all_eq_true.mp hall (powThird (detK R)) (List.mem_map.mpr ⟨R, hR, rfl⟩)
      have hnp : ¬ (0 : ℝ) < detK R := not_lt.mpr hd
      by_cases hneg : detK R < 0
      · simp [powThird, hnp, hneg, scaleUsable] at this
      · simp [powThird, hnp, hneg, scaleUsable] at this
    exact ⟨.notOrthogonal, by simp [h1, h2]⟩

/-- rejection for the scaled conversions: a block with positive determinant whose normalisation `R / det^{1/3}`
fails the orthogonality or determinant test makes the call raise -/
theorem scaled_rejects_nonrotation (detK : Mat3 ℝ → ℝ) (rtol atol : ℝ) (Rs : List (Mat3 ℝ))
    (h : ∃ R ∈ Rs, 0 < detK R ∧ (orthOk rtol atol (Mat3.divS R (cbrtOf (detK R))) = false ∨
      detOk rtol atol (detK (Mat3.divS R (cbrtOf (detK R)))) = false)) :
    ∃ e, scaledRotBatch detK true rtol atol Rs = .error e := by
  by_cases hrank : rankTestFails rtol atol (Rs.map fun R => powThird (detK R)) = true
  · exact ⟨.notFullRank, by unfold scaledRotBatch; simp only [hrank, if_true]⟩
  · by_cases hpos : ∀ R ∈ Rs, 0 < detK R
    · rw [scaledRotBatch_pos detK true rtol atol Rs hpos (by simpa using hrank)]
      obtain ⟨R, hR, _, hbad⟩ := h
      obtain ⟨e, he⟩ := mat2SO3Batch_error_of_bad detK rtol atol (Rs.map fun R => Mat3.divS R (cbrtOf (detK R)))
        ⟨_, List.mem_map.mpr ⟨R, hR, rfl⟩, hbad⟩
      exact ⟨e, by rw [he]⟩
    · have hpos' : ∃ R ∈ Rs, detK R ≤ 0 := by
        by_contra hc
        exact hpos (fun R hR => by by_contra hn; exact hc ⟨R, hR, not_lt.mp hn⟩)
      obtain ⟨R, hR, hd⟩ := hpos'
      have h2 : ((Rs.map fun R => powThird (detK R)).all fun s => (scaleUsable s).isSome) = false := by
        apply Bool.eq_false_iff.mpr; intro hall
        have := List.all_eq_true.mp hall (powThird (detK R)) (List.mem_map.mpr ⟨R, hR, rfl⟩)
        have hnp : ¬ (0 : ℝ) < detK R := not_lt.mpr hd
        by_cases hneg : detK R < 0
        · simp [powThird, hnp, hneg, scaleUsable] at this
        · simp [powThird, hnp, hneg, scaleUsable] at this
      exact ⟨.notOrthogonal, by unfold scaledRotBatch; simp [hrank, h2]⟩

/-- acceptance, complete: with every determinant positive and not all scales tiny, the scaled conversions return
iff every normalised block passes both tests; the value is then `(mat2SO3Raw (R/ŝ), ŝ)` item-wise -/
theorem scaled_check_iff (detK : Mat3 ℝ → ℝ) (rtol atol : ℝ) (Rs : List (Mat3 ℝ))
    (hpos : ∀ R ∈ Rs, 0 < detK R)
    (hrank : rankTestFails rtol atol (Rs.map fun R => powThird (detK R)) = false) :
    scaledRotBatch detK true rtol atol Rs
        = .ok (Rs.map fun R => (mat2SO3Raw atol (Mat3.divS R (cbrtOf (detK R))), cbrtOf (detK R))) ↔
      ∀ R ∈ Rs, orthOk rtol atol (Mat3.divS R (cbrtOf (detK R))) = true ∧
        detOk rtol atol (detK (Mat3.divS R (cbrtOf (detK R)))) = true := by
  rw [scaledRotBatch_pos detK true rtol atol Rs hpos hrank]
  constructor
  · intro hok R hR
    by_contra hc
    have hbad : orthOk rtol atol (Mat3.divS R (cbrtOf (detK R))) = false ∨
        detOk rtol atol (detK (Mat3.divS R (cbrtOf (detK R)))) = false := by
      by_cases h1 : orthOk rtol atol (Mat3.divS R (cbrtOf (detK R))) = true
      · right; simpa [h1] using hc
      · left; simpa using h1
    obtain ⟨e, he⟩ := mat2SO3Batch_error_of_bad detK rtol atol (Rs.map fun R => Mat3.divS R (cbrtOf (detK R)))
      ⟨_, List.mem_map.mpr ⟨R, hR, rfl⟩, hbad⟩
    rw [he] at hok; exact absurd hok (by simp)
  · intro hall
    rw [mat2SO3Batch_ok_of_all detK true rtol atol _ (by
      intro Q hQ; obtain ⟨R, hR, rfl⟩ := List.mem_map.mp hQ; exact hall R hR)]
    simp only [List.map_map, List.zip_eq_zipWith, List.zipWith_map, List.zipWith_self, Function.comp]

/-! ## 5. batched vs item-wise for the scaled conversions (holds only when no item's scale is inside the rank-test tolerance) -/

/-- batched = item-wise for the scaled conversions **under `hnt`** (no item's scale inside the rank-test tolerance) and positive
determinants: a batch is accepted iff each of its items is accepted when converted alone, with the same values. Without `hnt` it
is false: `rank_test_is_batch_level` -/
theorem scaledRotBatch_itemwise (detK : Mat3 ℝ → ℝ) (rtol atol : ℝ) (Rs : List (Mat3 ℝ))
    (hpos : ∀ R ∈ Rs, 0 < detK R) (hnt : ∀ R ∈ Rs, scaleTiny rtol atol (powThird (detK R)) = false) :
    scaledRotBatch detK true rtol atol Rs
        = .ok (Rs.map fun R => (mat2SO3Raw atol (Mat3.divS R (cbrtOf (detK R))), cbrtOf (detK R))) ↔
      ∀ R ∈ Rs, scaledRotBatch detK true rtol atol [R]
        = .ok [(mat2SO3Raw atol (Mat3.divS R (cbrtOf (detK R))), cbrtOf (detK R))] := by
  have hrank : rankTestFails rtol atol (Rs.map fun R => powThird (detK R)) = false := by
    unfold rankTestFails
    cases Rs with
    | nil => simp
    | cons R rest =>
      have := hnt R (by simp)
      simp [this]
  rw [scaled_check_iff detK rtol atol Rs hpos hrank]
  constructor
  · intro h R hR
    have h1 : rankTestFails rtol atol ([R].map fun R => powThird (detK R)) = false := by
      simp [rankTestFails, hnt R hR]
    have := (scaled_check_iff detK rtol atol [R] (by intro Q hQ; rw [List.mem_singleton.mp hQ]; exact hpos R hR) h1).mpr
      (by intro Q hQ; rw [List.mem_singleton.mp hQ]; exact h R hR)
    simpa using this
  · intro h R hR
    have h1 : rankTestFails rtol atol ([R].map fun R => powThird (detK R)) = false := by
      simp [rankTestFails, hnt R hR]
    have := (scaled_check_iff detK rtol atol [R] (by intro Q hQ; rw [List.mem_singleton.mp hQ]; exact hpos R hR) h1).mp
      (by simpa using h R hR)
    exact this R (by simp)

/-! ## 6. the optional arguments: what the result may and may not depend on -/

/-! ## 7. pass 3: ties, exact guards, guard band, calling glue -/

set_option linter.unusedTactic false

set_option linter.unreachableTactic false

set_option linter.unusedSimpArgs false

/-! ## which mask wins — the comparison operators of the code, ties included -/

/-! ## the exact guard on `atol` -/

/-- **exact guard**: the round trip `mat2SO3Raw atol (R(p)) = ±p` holds for every mask threshold `−1 < atol ≤ 1`
(the property theorems assumed `0 ≤ atol < 1`) -/
theorem mat2SO3Raw_matrix_exact_guard (p : Quat ℝ) (h : p.normSq = 1) (atol : ℝ) (h1 : -1 < atol) (h2 : atol ≤ 1) :
    mat2SO3Raw atol (SO3matrix p) = canonQ atol p := by
  unfold mat2SO3Raw canonQ
  exact cand_any_branch p h _ (region_dom_ne_zero p h atol h1 h2)

/-- … and the guard is sharp above: for every `atol > 1` the identity matrix is sent to the zero quaternion
(candidate 1 with `t1 = 0`; in floating point `0/0 = NaN`) -/
theorem mat2SO3Raw_guard_sharp_above (atol : ℝ) (h : 1 < atol) :
    (mat2SO3Raw atol (SO3matrix (Quat.one : Quat ℝ))).normSq = 0 := by
  have e : SO3matrix (Quat.one : Quat ℝ) = Mat3.one := by unfold SO3matrix; ext <;> lie_unfold <;> ring
  rw [e]
  have hr : mat2SO3Region atol (Mat3.one : Mat3 ℝ).transpose = 1 := by
    rw [mat2SO3Region_one_iff]; lie_unfold; constructor <;> linarith
  unfold mat2SO3Raw
  simp only [hr, candOf, cand1, Cand.toQuat]
  lie_unfold
  simp

/-- … and below: for every `atol ≤ −1` the rotation by π about the x axis is sent to the zero quaternion -/
theorem mat2SO3Raw_guard_sharp_below (atol : ℝ) (h : atol ≤ -1) :
    (mat2SO3Raw atol (SO3matrix (⟨1, 0, 0, 0⟩ : Quat ℝ))).normSq = 0 := by
  have e : SO3matrix (⟨1, 0, 0, 0⟩ : Quat ℝ) = ⟨⟨1, 0, 0⟩, ⟨0, -1, 0⟩, ⟨0, 0, -1⟩⟩ := by
    unfold SO3matrix; ext <;> lie_unfold <;> ring
  rw [e]
  have hr : mat2SO3Region atol (⟨⟨1, 0, 0⟩, ⟨0, -1, 0⟩, ⟨0, 0, -1⟩⟩ : Mat3 ℝ).transpose = 3 := by
    rw [mat2SO3Region_three_iff]; lie_unfold; constructor <;> linarith
  unfold mat2SO3Raw
  simp only [hr, candOf, cand3, Cand.toQuat]
  lie_unfold
  simp

/-! ## ties: which candidate wins and which sign comes out -/

/-- tie `R00 = R11` (i.e. `x² = y²`) with `R22 < atol`: the code's strict `>` hands the tie to candidate 1, the result
has the sign of `y` -/
theorem mat2SO3Raw_tie_xy (p : Quat ℝ) (h : p.normSq = 1) (atol : ℝ) (h1 : -1 < atol) (h2 : atol ≤ 1)
    (hd2 : 1 - 2 * (p.x * p.x + p.y * p.y) < atol) (htie : p.x * p.x = p.y * p.y) :
    mat2SO3Raw atol (SO3matrix p) = if 0 < p.y then p else p.neg := by
  rw [mat2SO3Raw_matrix_exact_guard p h atol h1 h2]
  obtain ⟨e0, e1, e2⟩ := rot_diag p
  have hr : mat2SO3Region atol (SO3matrix p).transpose = 1 := by
    rw [mat2SO3Region_one_iff, e0, e1, e2]; exact ⟨hd2, by rw [htie]⟩
  unfold canonQ; rw [hr]; rfl

/-- tie `R00 = −R11` (i.e. `z² = w²`) with `R22 ≥ atol`: the strict `<` hands the tie to candidate 3, sign of `w` -/
theorem mat2SO3Raw_tie_zw (p : Quat ℝ) (h : p.normSq = 1) (atol : ℝ) (h1 : -1 < atol) (h2 : atol ≤ 1)
    (hd2 : atol ≤ 1 - 2 * (p.x * p.x + p.y * p.y)) (htie : p.z * p.z = p.w * p.w) :
    mat2SO3Raw atol (SO3matrix p) = if 0 < p.w then p else p.neg := by
  have h' : p.x * p.x + p.y * p.y + p.z * p.z + p.w * p.w = 1 := h
  rw [mat2SO3Raw_matrix_exact_guard p h atol h1 h2]
  obtain ⟨e0, e1, e2⟩ := rot_diag p
  have hr : mat2SO3Region atol (SO3matrix p).transpose = 3 := by
    rw [mat2SO3Region_three_iff, e0, e1, e2]; exact ⟨hd2, by nlinarith⟩
  unfold canonQ; rw [hr]; rfl

/-! ## exact guards of the acceptance clause -/

/-- exact rotations pass the two `allclose` tests **iff** `0 ≤ atol` and `0 ≤ atol + rtol` (the earlier theorems
assumed `0 ≤ rtol`, `0 ≤ atol`, which is stronger than what the tests need) -/
theorem check_accepts_valid_iff (rtol atol : ℝ) (p : Quat ℝ) (h : p.normSq = 1) :
    (orthOk rtol atol (SO3matrix p) = true ∧ detOk rtol atol (SO3matrix p).det = true) ↔
      0 ≤ atol ∧ 0 ≤ atol + rtol := by
  rw [orthOk_iff, detOk_iff, rot_orthogonal p h, rot_det p h]
  simp only [Mat3.one, Vec3.e0, Vec3.e1, Vec3.e2, k_real, Nat.cast_one, Nat.cast_zero, sub_self, abs_zero]
  constructor
  · rintro ⟨⟨⟨a, _, _⟩, ⟨b, _⟩⟩, _⟩; exact ⟨b, a⟩
  · rintro ⟨a, b⟩; exact ⟨⟨⟨b, b, b⟩, ⟨a, a, a, a, a, a⟩⟩, b⟩

/-- the rank test on valid elements, both directions: a non-empty batch of valid `s·R(q)` blocks is refused with
"not full rank" **iff** every scale is `≤ atol` -/
theorem scaled_valid_rank_iff (detK : Mat3 ℝ → ℝ) (hdet : ∀ M, detK M = M.det) (check : Bool) (rtol atol : ℝ)
    (hr : 0 ≤ rtol) (ha0 : 0 ≤ atol) (ha1 : atol < 1) (ps : List (Quat ℝ × ℝ)) (hne : ps ≠ [])
    (hv : ∀ p ∈ ps, p.1.normSq = 1 ∧ 0 < p.2) :
    scaledRotBatch detK check rtol atol (ps.map fun p => Mat3.smul p.2 (SO3matrix p.1)) = .error .notFullRank ↔
      ∀ p ∈ ps, p.2 ≤ atol := by
  constructor
  · intro herr p hp
    by_contra hc
    have := scaledRotBatch_valid detK hdet check rtol atol hr ha0 ha1 ps hv (fun _ => ⟨p, hp, not_le.mp hc⟩)
    rw [this] at herr; exact absurd herr (by simp)
  · intro hall
    have hss : (ps.map fun p => Mat3.smul p.2 (SO3matrix p.1)).map (fun R => powThird (detK R))
        = ps.map (fun p => some p.2) := by
      rw [List.map_map]; apply List.map_congr_left; intro p hp
      obtain ⟨h1, h2⟩ := hv p hp
      simp only [Function.comp, hdet, Mat3.det_smul, rot_det p.1 h1, mul_one, powThird_cube p.2 h2]
    have hrank : rankTestFails rtol atol (ps.map (fun p => some p.2)) = true := by
      unfold rankTestFails
      rw [Bool.and_eq_true]
      refine ⟨by simpa using hne, List.all_eq_true.mpr ?_⟩
      intro s hs
      obtain ⟨p, hp, rfl⟩ := List.mem_map.mp hs
      rw [scaleTiny_some _ _ _ (hv p hp).2]; simpa using hall p hp
    unfold scaledRotBatch
    simp only [hss, hrank, if_true]

/-! ## the guard band of the rejection clause, as a theorem

The float code evaluates `R Rᵀ` and `det R` with some absolute error `δ`. If the *exact* matrix passes with the
tolerance reduced by `δ` the float evaluation passes; if the exact matrix fails with the tolerance enlarged by `δ` the
float evaluation fails. Between the two (the band the harness accepts either verdict in) nothing is claimed. -/

/-! ## the calling glue: shape validation, dispatch, defaults -/

/-- **round trip through the public call**, any subset of the optional arguments given: a batch of valid Sim3 elements
passed as 4×4 matrices to `from_matrix(·, Sim3_type, …)` or `mat2Sim3(·, …)` comes back (up to the quaternion sign), as
long as the given tolerances are admissible (`0 ≤ rtol`, `0 ≤ atol < 1`; the defaults are) and not all scales are `≤ atol` -/
theorem convCall_Sim3_matrix (detK : Mat3 ℝ → ℝ) (hdet : ∀ M, detK M = M.det) (e : Entry)
    (he : e = .fromMatrix (some .Sim3) ∨ e = .direct .Sim3) (rank : Nat) (hrank : 2 ≤ rank) (a : CallArgs ℝ)
    (hr : ∀ r, a.rtol = some r → 0 ≤ r) (ha : ∀ t, a.atol = some t → 0 ≤ t ∧ t < 1) (Xs : List (Sim3 ℝ))
    (h : ∀ X ∈ Xs, C11.ValidSim3 X) (hbig : Xs ≠ [] → ∃ X ∈ Xs, a.effAtol < X.s) :
    convCall detK e rank 4 4 a (Xs.map Sim3matrix)
      = .ok (Xs.map fun X => Sim3.toList ⟨X.t, canonQ a.effAtol X.q, X.s⟩) := by
  have hrt : 0 ≤ a.effRtol := by
    unfold CallArgs.effRtol; cases hh : a.rtol with
    | none => simp [defRtol]
    | some r => simpa using hr r hh
  have hat : 0 ≤ a.effAtol ∧ a.effAtol < 1 := by
    unfold CallArgs.effAtol; cases hh : a.atol with
    | none => simp [defAtol]; norm_num
    | some t => simpa using ha t hh
  have hl : layoutOf rank 4 4 = some .m44 := (layoutOf_some_iff rank 4 4 .m44).mpr ⟨hrank, Or.inr (Or.inr ⟨rfl, rfl, rfl⟩)⟩
  have core := mat2Sim3Batch_matrix detK hdet a.effCheck a.effRtol a.effAtol hrt hat.1 hat.2 .m44 Xs h hbig
  have hmap : (Xs.map Sim3matrix).map (MatIn.ofDMat .m44) = Xs.map fun X => MatIn.ofDMat .m44 (Sim3matrix X) := by
    rw [List.map_map]; rfl
  rcases he with rfl | rfl <;>
  · unfold convCall; rw [hl]; simp only [fromMatrixBatch, hmap, core]
    simp [Except.map, List.map_map, Function.comp]

/-- … so the converse holds for the call as the user makes it, with the code's own default band -/
theorem eulerCall_default_converse (p : Quat ℝ) (h : p.normSq = 1) (hreg : |2 * (p.w * p.y - p.z * p.x)| < 1 - 1 / 5000) :
    euler2SO3 (SO3eulerCall none p) = p ∨ euler2SO3 (SO3eulerCall none p) = p.neg := by
  rw [SO3eulerCall_default]
  exact euler2SO3_euler (1 / 5000) (by norm_num) p h ((eulerRegular_iff _ p h).mpr hreg)

/-! ## 8. pass 3: the round trip is not a contraction; coincidences with the tolerance -/

/-! ## 9. pass 3: the gimbal band -/

/-- **inside (and outside) the gimbal band the pitch is exact and the third row is off by at most `2·cos(pitch)`**: for every
unit `X` and every `eps`, `Rz(yaw)Ry(pitch)Rx(roll)` of the angles returned by `euler()` has third row `(−sin pitch, ·, ·)` with
`−sin pitch = R20(X)` exactly; in the band (`roll = 0`) that row is `(−t2, 0, √(1−t2²))` while `R(X)` has `(−t2, a, b)` with
`a² + b² = 1 − t2²`, and in the band `1 − t2² ≤ 2·eps` (last conjunct, `0 ≤ eps`). The full 3×3 bound `O(√(2·eps))` is measured by
the `gimbal` oracle (worst case `1.12·acos|t2|`); only this row is proved — hence `_partial`. -/
theorem euler_band_third_row_partial (eps : ℝ) (p : Quat ℝ) (h : p.normSq = 1) :
    (eulerMat (SO3euler eps p)).r2.x = (SO3matrix p).r2.x ∧
    (eulerRegular eps p = false →
      (eulerMat (SO3euler eps p)).r2 = ⟨-(2 * (p.w * p.y - p.z * p.x)), 0, Real.sqrt (1 - (2 * (p.w * p.y - p.z * p.x)) ^ 2)⟩) ∧
    ((SO3matrix p).r2.y) ^ 2 + ((SO3matrix p).r2.z) ^ 2 = 1 - (2 * (p.w * p.y - p.z * p.x)) ^ 2 ∧
    (eulerRegular eps p = false → 0 ≤ eps → 1 - (2 * (p.w * p.y - p.z * p.x)) ^ 2 ≤ 2 * eps) := by
  obtain ⟨hb, hrow, h20⟩ := euler_t2_bounds p h
  have hT := eulerT_unit p h
  obtain ⟨hlo, hhi⟩ := abs_le.mp hb
  have hclamp := sclamp_of_mem _ hlo hhi
  have hasin := sasin_real _ hb
  have hpitch : (SO3euler eps p).y = Real.arcsin (2 * (p.w * p.y - p.z * p.x)) := by
    unfold SO3euler; simp only [hT, k_real, Nat.cast_one, hclamp, hasin]
  refine ⟨?_, ?_, hrow, ?_⟩
  · rw [h20]
    unfold eulerMat rotX rotY rotZ
    lie_unfold
    simp only [sin_real, cos_real, hpitch, Real.sin_arcsin hlo hhi]
    ring
  · intro hreg
    have hroll : (SO3euler eps p).x = 0 := by
      unfold SO3euler; simp [hreg]
    unfold eulerMat rotX rotY rotZ
    ext <;> lie_unfold <;> simp only [sin_real, cos_real, hpitch, hroll, Real.sin_arcsin hlo hhi, Real.cos_arcsin,
      Real.sin_zero, Real.cos_zero] <;> ring
  · intro hreg heps
    have hnot : ¬ |2 * (p.w * p.y - p.z * p.x)| < 1 - eps := by
      intro hlt; have := (eulerRegular_iff eps p h).mpr hlt; rw [hreg] at this; exact absurd this (by simp)
    have hge : 1 - eps ≤ |2 * (p.w * p.y - p.z * p.x)| := not_lt.mp hnot
    have habs0 := abs_nonneg (2 * (p.w * p.y - p.z * p.x))
    rw [← sq_abs]
    by_cases h1 : eps ≤ 1
    · nlinarith
    · nlinarith [sq_nonneg (|2 * (p.w * p.y - p.z * p.x)|)]

/-! ## 10. audit follow-up: public calls for every type and layout, rejection at the public converters, the rank-test observation, the warning -/
set_option linter.unusedVariables false
/-! ### round trip through the public call, every type and layout -/

/-- **`from_matrix(X.matrix()[..., :r, :c], Sim3_type, …)` / `mat2Sim3(…)`**, layouts 3×3 / 3×4 / 4×4, any batch length, any
subset of `check, rtol, atol` given (admissible values; the defaults are), not all scales `≤ atol`: the call returns `⟨t, ±q, s⟩`
(`t = 0` for the 3×3 layout) -/
theorem convCall_Sim3_roundtrip (detK : Mat3 ℝ → ℝ) (hdet : ∀ M, detK M = M.det) (e : Entry)
    (he : e = .fromMatrix (some .Sim3) ∨ e = .direct .Sim3) (rank r c : Nat) (lay : Layout) (hrank : 2 ≤ rank)
    (hl : (r = 3 ∧ c = 3 ∧ lay = .m33) ∨ (r = 3 ∧ c = 4 ∧ lay = .m34) ∨ (r = 4 ∧ c = 4 ∧ lay = .m44)) (a : CallArgs ℝ)
    (hr : ∀ r, a.rtol = some r → 0 ≤ r) (ha : ∀ t, a.atol = some t → 0 ≤ t ∧ t < 1) (Xs : List (Sim3 ℝ))
    (h : ∀ X ∈ Xs, C11.ValidSim3 X) (hbig : Xs ≠ [] → ∃ X ∈ Xs, a.effAtol < X.s) :
    convCall detK e rank r c a (Xs.map fun X => sliceD r c (Sim3matrix X))
      = .ok (Xs.map fun X => Sim3.toList ⟨if lay = .m33 then Vec3.zero else X.t, canonQ a.effAtol X.q, X.s⟩) := by
  obtain ⟨h1, h2, h3⟩ := effArgs_admissible a hr ha
  have core := mat2Sim3Batch_blocks detK hdet a.effCheck a.effRtol a.effAtol h1 h2 h3
    ((Xs.map fun X => sliceD r c (Sim3matrix X)).map (MatIn.ofDMat lay)) Xs (fun X => if lay = .m33 then Vec3.zero else X.t)
    (by rw [List.map_map, List.map_map]; apply List.map_congr_left; intro X _; exact (slice_Sim3 lay r c hl X).1)
    (by rw [List.map_map, List.map_map]; apply List.map_congr_left; intro X _; exact (slice_Sim3 lay r c hl X).2) h hbig
  rcases he with rfl | rfl <;>
  · unfold convCall; rw [layoutOf_of rank r c lay hrank hl]; simp only [fromMatrixBatch, core]
    simp [Except.map, List.map_map, Function.comp]

theorem convCall_SE3_roundtrip (detK : Mat3 ℝ → ℝ) (hdet : ∀ M, detK M = M.det) (e : Entry)
    (he : e = .fromMatrix (some .SE3) ∨ e = .direct .SE3) (rank r c : Nat) (lay : Layout) (hrank : 2 ≤ rank)
    (hl : (r = 3 ∧ c = 3 ∧ lay = .m33) ∨ (r = 3 ∧ c = 4 ∧ lay = .m34) ∨ (r = 4 ∧ c = 4 ∧ lay = .m44)) (a : CallArgs ℝ)
    (hr : ∀ r, a.rtol = some r → 0 ≤ r) (ha : ∀ t, a.atol = some t → 0 ≤ t ∧ t < 1) (Xs : List (SE3 ℝ))
    (h : ∀ X ∈ Xs, C11.ValidSE3 X) :
    convCall detK e rank r c a (Xs.map fun X => sliceD r c (SE3matrix X))
      = .ok (Xs.map fun X => SE3.toList ⟨if lay = .m33 then Vec3.zero else X.t, canonQ a.effAtol X.q⟩) := by
  obtain ⟨h1, h2, h3⟩ := effArgs_admissible a hr ha
  have core := mat2SE3Batch_blocks detK hdet a.effCheck a.effRtol a.effAtol h1 h2 h3
    ((Xs.map fun X => sliceD r c (SE3matrix X)).map (MatIn.ofDMat lay)) Xs (fun X => if lay = .m33 then Vec3.zero else X.t)
    (by rw [List.map_map, List.map_map]; apply List.map_congr_left; intro X _; exact (slice_SE3 lay r c hl X).1)
    (by rw [List.map_map, List.map_map]; apply List.map_congr_left; intro X _; exact (slice_SE3 lay r c hl X).2) h
  rcases he with rfl | rfl <;>
  · unfold convCall; rw [layoutOf_of rank r c lay hrank hl]; simp only [fromMatrixBatch, core]
    simp [Except.map, List.map_map, Function.comp]

theorem convCall_RxSO3_roundtrip (detK : Mat3 ℝ → ℝ) (hdet : ∀ M, detK M = M.det) (e : Entry)
    (he : e = .fromMatrix (some .RxSO3) ∨ e = .direct .RxSO3) (rank r c : Nat) (lay : Layout) (hrank : 2 ≤ rank)
    (hl : (r = 3 ∧ c = 3 ∧ lay = .m33) ∨ (r = 3 ∧ c = 4 ∧ lay = .m34) ∨ (r = 4 ∧ c = 4 ∧ lay = .m44)) (a : CallArgs ℝ)
    (hr : ∀ r, a.rtol = some r → 0 ≤ r) (ha : ∀ t, a.atol = some t → 0 ≤ t ∧ t < 1) (Xs : List (RxSO3 ℝ))
    (h : ∀ X ∈ Xs, C11.ValidRxSO3 X) (hbig : Xs ≠ [] → ∃ X ∈ Xs, a.effAtol < X.s) :
    convCall detK e rank r c a (Xs.map fun X => sliceD r c (RxSO3matrix X))
      = .ok (Xs.map fun X => RxSO3.toList ⟨canonQ a.effAtol X.q, X.s⟩) := by
  obtain ⟨h1, h2, h3⟩ := effArgs_admissible a hr ha
  have core := mat2RxSO3Batch_blocks detK hdet a.effCheck a.effRtol a.effAtol h1 h2 h3
    ((Xs.map fun X => sliceD r c (RxSO3matrix X)).map (MatIn.ofDMat lay)) Xs
    (by rw [List.map_map, List.map_map]; apply List.map_congr_left; intro X _; exact slice_RxSO3 lay r c hl X) h hbig
  rcases he with rfl | rfl <;>
  · unfold convCall; rw [layoutOf_of rank r c lay hrank hl]; simp only [fromMatrixBatch, core]
    simp [Except.map, List.map_map, Function.comp]

/-- `from_matrix(·, SO3_type)` / `mat2SO3` on the matrix of an **SE3** element in any layout (only the 3×3 block is read),
in particular on `X.matrix()` of an SO3 element (3×3) -/
theorem convCall_SO3_roundtrip (detK : Mat3 ℝ → ℝ) (hdet : ∀ M, detK M = M.det) (e : Entry)
    (he : e = .fromMatrix (some .SO3) ∨ e = .direct .SO3) (rank r c : Nat) (lay : Layout) (hrank : 2 ≤ rank)
    (hl : (r = 3 ∧ c = 3 ∧ lay = .m33) ∨ (r = 3 ∧ c = 4 ∧ lay = .m34) ∨ (r = 4 ∧ c = 4 ∧ lay = .m44)) (a : CallArgs ℝ)
    (hr : ∀ r, a.rtol = some r → 0 ≤ r) (ha : ∀ t, a.atol = some t → 0 ≤ t ∧ t < 1) (Xs : List (SE3 ℝ))
    (h : ∀ X ∈ Xs, C11.ValidSE3 X) :
    convCall detK e rank r c a (Xs.map fun X => sliceD r c (SE3matrix X))
      = .ok (Xs.map fun X => Quat.toList (canonQ a.effAtol X.q)) := by
  obtain ⟨h1, h2, h3⟩ := effArgs_admissible a hr ha
  have hR : ((Xs.map fun X => sliceD r c (SE3matrix X)).map (MatIn.ofDMat lay)).map (·.R) = (Xs.map (·.q)).map SO3matrix := by
    rw [List.map_map, List.map_map, List.map_map]; apply List.map_congr_left; intro X _; exact (slice_SE3 lay r c hl X).1
  have core := mat2SO3Batch_matrix detK hdet a.effCheck a.effRtol a.effAtol h1 h2 h3 (Xs.map (·.q))
    (by intro p hp; obtain ⟨X, hX, rfl⟩ := List.mem_map.mp hp; exact h X hX)
  rcases he with rfl | rfl <;>
  · unfold convCall; rw [layoutOf_of rank r c lay hrank hl]; simp only [fromMatrixBatch, hR, core]
    simp [Except.map, List.map_map, Function.comp]


/-! ### rejection lifted to the public converters -/

/-- an item is not a rotation beyond the tolerances -/
def C11.BadRot (detK : Mat3 ℝ → ℝ) (rtol atol : ℝ) (R : Mat3 ℝ) : Prop :=
  orthOk rtol atol R = false ∨ detOk rtol atol (detK R) = false
/-- an item is not a *scaled* rotation: non-positive determinant, or its normalisation `R / det^{1/3}` fails a test -/
def C11.BadScaled (detK : Mat3 ℝ → ℝ) (rtol atol : ℝ) (R : Mat3 ℝ) : Prop :=
  detK R ≤ 0 ∨ (0 < detK R ∧ C11.BadRot detK rtol atol (Mat3.divS R (cbrtOf (detK R))))
def C11.BadFor (ty : GTy) (detK : Mat3 ℝ → ℝ) (rtol atol : ℝ) (m : MatIn ℝ) : Prop :=
  match ty with
  | .SO3 => C11.BadRot detK rtol atol m.R
  | .SE3 => C11.BadRot detK rtol atol m.R
  | .Sim3 => C11.BadScaled detK rtol atol m.R
  | .RxSO3 => C11.BadScaled detK rtol atol m.R

theorem scaledRotBatch_rejects (detK : Mat3 ℝ → ℝ) (rtol atol : ℝ) (Rs : List (Mat3 ℝ))
    (h : ∃ R ∈ Rs, C11.BadScaled detK rtol atol R) : ∃ e, scaledRotBatch detK true rtol atol Rs = .error e := by
  obtain ⟨R, hR, hb⟩ := h
  rcases hb with hd | ⟨hp, hbad⟩
  · exact scaled_rejects_nonpositive_det detK rtol atol Rs ⟨R, hR, hd⟩
  · exact scaled_rejects_nonrotation detK rtol atol Rs ⟨R, hR, hp, hbad⟩

/-- **rejection, public converters**: with `check=True`, one item anywhere in the batch that is not a (scaled) rotation beyond
the tolerances makes `mat2SO3 / mat2SE3 / mat2Sim3 / mat2RxSO3` (= `from_matrix` for that ltype) raise -/
theorem fromMatrixBatch_rejects (ty : GTy) (detK : Mat3 ℝ → ℝ) (rtol atol : ℝ) (ms : List (MatIn ℝ))
    (h : ∃ m ∈ ms, C11.BadFor ty detK rtol atol m) : ∃ e, fromMatrixBatch ty detK true rtol atol ms = .error e := by
  obtain ⟨m, hm, hb⟩ := h
  cases ty with
  | SO3 =>
    obtain ⟨e, he⟩ := mat2SO3Batch_error_of_bad detK rtol atol (ms.map (·.R)) ⟨m.R, List.mem_map.mpr ⟨m, hm, rfl⟩, hb⟩
    exact ⟨e, by simp [fromMatrixBatch, he, Except.map]⟩
  | SE3 =>
    obtain ⟨e, he⟩ := mat2SO3Batch_error_of_bad detK rtol atol (ms.map (·.R)) ⟨m.R, List.mem_map.mpr ⟨m, hm, rfl⟩, hb⟩
    exact ⟨e, by simp [fromMatrixBatch, mat2SE3Batch, he, Except.map]⟩
  | Sim3 =>
    obtain ⟨e, he⟩ := scaledRotBatch_rejects detK rtol atol (ms.map (·.R)) ⟨m.R, List.mem_map.mpr ⟨m, hm, rfl⟩, hb⟩
    exact ⟨e, by simp [fromMatrixBatch, mat2Sim3Batch, he, Except.map]⟩
  | RxSO3 =>
    obtain ⟨e, he⟩ := scaledRotBatch_rejects detK rtol atol (ms.map (·.R)) ⟨m.R, List.mem_map.mpr ⟨m, hm, rfl⟩, hb⟩
    exact ⟨e, by simp [fromMatrixBatch, mat2RxSO3Batch, he, Except.map]⟩

/-- … and so does the public call (`check` given as `True` or left at its default), as a conversion error (not a shape /
ltype error) -/
theorem convCall_rejects (detK : Mat3 ℝ → ℝ) (ty : GTy) (e : Entry) (he : e = .fromMatrix (some ty) ∨ e = .direct ty)
    (rank r c : Nat) (lay : Layout) (hl : layoutOf rank r c = some lay) (a : CallArgs ℝ) (hc : a.effCheck = true)
    (Ms : List (DMat ℝ)) (h : ∃ M ∈ Ms, C11.BadFor ty detK a.effRtol a.effAtol (MatIn.ofDMat lay M)) :
    ∃ err, convCall detK e rank r c a Ms = .error (.conv err) := by
  obtain ⟨M, hM, hb⟩ := h
  obtain ⟨err, herr⟩ := fromMatrixBatch_rejects ty detK a.effRtol a.effAtol (Ms.map (MatIn.ofDMat lay))
    ⟨MatIn.ofDMat lay M, List.mem_map.mpr ⟨M, hM, rfl⟩, hb⟩
  refine ⟨err, ?_⟩
  rcases he with rfl | rfl <;> (unfold convCall; rw [hl]; simp only [hc, herr])

/-! ### "same matrix" stated on what the converter returns -/

/-- `mat2SE3(X.matrix())` (4×4 or 3×4) returns an element whose `matrix()` is `X.matrix()`; for the 3×3 layout the rotation
block is the same and the translation is zero -/
theorem mat2SE3_roundtrip_matrix (detK : Mat3 ℝ → ℝ) (hdet : ∀ M, detK M = M.det) (check : Bool) (rtol atol : ℝ)
    (hr : 0 ≤ rtol) (ha0 : 0 ≤ atol) (ha1 : atol < 1) (lay : Layout) (X : SE3 ℝ) (h : C11.ValidSE3 X) :
    ∃ r, mat2SE3 detK check rtol atol (MatIn.ofDMat lay (SE3matrix X)) = .ok r ∧ r.q.normSq = 1 ∧
      (lay ≠ .m33 → SE3matrix r = SE3matrix X) ∧ (lay = .m33 → SE3matrix r = SE3matrix ⟨Vec3.zero, X.q⟩) := by
  refine ⟨⟨if lay = .m33 then Vec3.zero else X.t, canonQ atol X.q⟩, ?_, by rw [canonQ_normSq]; exact h, ?_, ?_⟩
  · unfold mat2SE3
    rw [MatIn.ofDMat_SE3]
    simp only [mat2SO3_on_rot detK hdet check rtol atol hr ha0 ha1 X.q h, MatIn.tOf]
    cases lay <;> simp
  · intro hne; simp only [hne, if_false, SE3matrix, matrix4, SE3Act4, canonQ_act]
  · intro he; simp only [he, if_true, SE3matrix, matrix4, SE3Act4, canonQ_act]

theorem mat2Sim3_roundtrip_matrix (detK : Mat3 ℝ → ℝ) (hdet : ∀ M, detK M = M.det) (check : Bool) (rtol atol : ℝ)
    (hr : 0 ≤ rtol) (ha0 : 0 ≤ atol) (ha1 : atol < 1) (lay : Layout) (X : Sim3 ℝ) (h : C11.ValidSim3 X) (hbig : atol < X.s) :
    ∃ r, mat2Sim3 detK check rtol atol (MatIn.ofDMat lay (Sim3matrix X)) = .ok r ∧ r.q.normSq = 1 ∧ r.s = X.s ∧
      (lay ≠ .m33 → Sim3matrix r = Sim3matrix X) ∧ (lay = .m33 → Sim3matrix r = Sim3matrix ⟨Vec3.zero, X.q, X.s⟩) := by
  refine ⟨⟨if lay = .m33 then Vec3.zero else X.t, canonQ atol X.q, X.s⟩,
    mat2Sim3_matrix detK hdet check rtol atol hr ha0 ha1 lay X h hbig, by rw [canonQ_normSq]; exact h.1, rfl, ?_, ?_⟩
  · intro hne; simp only [hne, if_false, Sim3matrix, matrix4, Sim3Act4, canonQ_act]
  · intro he; simp only [he, if_true, Sim3matrix, matrix4, Sim3Act4, canonQ_act]

theorem mat2RxSO3_roundtrip_matrix (detK : Mat3 ℝ → ℝ) (hdet : ∀ M, detK M = M.det) (check : Bool) (rtol atol : ℝ)
    (hr : 0 ≤ rtol) (ha0 : 0 ≤ atol) (ha1 : atol < 1) (lay : Layout) (X : RxSO3 ℝ) (h : C11.ValidRxSO3 X) (hbig : atol < X.s) :
    ∃ r, mat2RxSO3 detK check rtol atol (MatIn.ofDMat lay (RxSO3matrix X)) = .ok r ∧ r.q.normSq = 1 ∧ r.s = X.s ∧
      RxSO3matrix r = RxSO3matrix X := by
  refine ⟨⟨canonQ atol X.q, X.s⟩, mat2RxSO3_matrix detK hdet check rtol atol hr ha0 ha1 lay X h hbig,
    by rw [canonQ_normSq]; exact h.1, rfl, ?_⟩
  simp only [RxSO3matrix, matrix4, RxSO3Act4, canonQ_act]

/-! ### OBSERVATION: the rank test is a batch-level decision -/

/-- **observation (outside the property's quantifier: scales ≥ 1e-3 with the default `atol = 1e-5`).** A *valid* scaled
rotation with `0 < s ≤ atol` is refused ("not full rank") when converted alone, and accepted when the batch also contains a
scale above `atol`: for such inputs neither "valid inputs never raise" nor "batch = item-wise" holds — the code tests
`allclose(s, 0)` over the whole batch (convert.py, `mat2Sim3` / `mat2RxSO3`) -/
theorem rank_test_is_batch_level (detK : Mat3 ℝ → ℝ) (hdet : ∀ M, detK M = M.det) (check : Bool) (rtol atol : ℝ)
    (hr : 0 ≤ rtol) (ha0 : 0 ≤ atol) (ha1 : atol < 1) (p : Quat ℝ) (hp : p.normSq = 1) (s s' : ℝ) (hs : 0 < s)
    (hsa : s ≤ atol) (hs' : atol < s') :
    scaledRotBatch detK check rtol atol [Mat3.smul s (SO3matrix p)] = .error .notFullRank ∧
    scaledRotBatch detK check rtol atol [Mat3.smul s (SO3matrix p), Mat3.smul s' (SO3matrix p)]
      = .ok [(canonQ atol p, s), (canonQ atol p, s')] := by
  constructor
  · have := (scaled_valid_rank_iff detK hdet check rtol atol hr ha0 ha1 [(p, s)] (by simp)
      (by intro x hx; rw [List.mem_singleton.mp hx]; exact ⟨hp, hs⟩)).mpr
      (by intro x hx; rw [List.mem_singleton.mp hx]; exact hsa)
    simpa using this
  · have := scaledRotBatch_valid detK hdet check rtol atol hr ha0 ha1 [(p, s), (p, s')]
      (by intro x hx; simp at hx; rcases hx with rfl | rfl
          · exact ⟨hp, hs⟩
          · exact ⟨hp, lt_of_le_of_lt ha0 hs'⟩)
      (fun _ => ⟨(p, s'), by simp, hs'⟩)
    simpa using this

/-! ### the last-row warning -/

/-- `mat2SO3` and `mat2RxSO3` never look at the last row; only 4×4 inputs can warn; `check=False` never warns -/
theorem lastRowWarn_scope (check : Bool) (rtol atol : ℝ) (ms : List (MatIn ℝ)) :
    lastRowWarnBatch .SO3 check rtol atol ms = false ∧ lastRowWarnBatch .RxSO3 check rtol atol ms = false ∧
    (∀ ty, (∀ m ∈ ms, m.lay ≠ .m44) → lastRowWarnBatch ty check rtol atol ms = false) ∧
    (∀ ty, lastRowWarnBatch ty false rtol atol ms = false) := by
  refine ⟨rfl, rfl, ?_, ?_⟩
  · intro ty hl
    have hany : ms.any (lastRowWarn check rtol atol) = false := by
      apply Bool.eq_false_iff.mpr; intro h
      obtain ⟨m, hm, hw⟩ := List.any_eq_true.mp h
      have := hl m hm
      unfold lastRowWarn at hw
      cases hlay : m.lay <;> simp [hlay] at hw this
    cases ty <;> simp [lastRowWarnBatch, hany]
  · intro ty
    have hany : ms.any (lastRowWarn false rtol atol) = false := by
      apply Bool.eq_false_iff.mpr; intro h
      obtain ⟨m, hm, hw⟩ := List.any_eq_true.mp h
      unfold lastRowWarn at hw
      cases hlay : m.lay <;> simp [hlay] at hw
    cases ty <;> simp [lastRowWarnBatch, hany]

/-- the matrices produced by `matrix()` have last row `(0 0 0 1)` exactly: converting them never warns -/
theorem no_warning_on_matrix (check : Bool) (rtol atol : ℝ) (hr : 0 ≤ rtol) (ha : 0 ≤ atol) (lay : Layout) (Xs : List (Sim3 ℝ))
    (Ys : List (SE3 ℝ)) :
    lastRowWarnBatch .Sim3 check rtol atol (Xs.map fun X => MatIn.ofDMat lay (Sim3matrix X)) = false ∧
    lastRowWarnBatch .SE3 check rtol atol (Ys.map fun X => MatIn.ofDMat lay (SE3matrix X)) = false := by
  have hrow : Vec3.allclose rtol atol (⟨0, 0, 0⟩ : Vec3 ℝ) Vec3.zero = true := by
    simp only [Vec3.allclose, Vec3.zero, k_real, Nat.cast_zero, closeTo_self _ _ _ hr ha, Bool.and_self]
  have h1 : closeTo rtol atol (1 : ℝ) (k 1) = true := by simpa using closeTo_self rtol atol 1 hr ha
  have h1' : closeTo rtol atol (1 : ℝ) 1 = true := closeTo_self rtol atol 1 hr ha
  constructor
  · apply Bool.eq_false_iff.mpr; intro h
    simp only [lastRowWarnBatch] at h
    obtain ⟨m, hm, hw⟩ := List.any_eq_true.mp h
    obtain ⟨X, _, rfl⟩ := List.mem_map.mp hm
    rw [MatIn.ofDMat_Sim3] at hw
    unfold lastRowWarn at hw
    cases lay <;> simp [hrow, h1, h1'] at hw
  · apply Bool.eq_false_iff.mpr; intro h
    simp only [lastRowWarnBatch] at h
    obtain ⟨m, hm, hw⟩ := List.any_eq_true.mp h
    obtain ⟨X, _, rfl⟩ := List.mem_map.mp hm
    rw [MatIn.ofDMat_SE3] at hw
    unfold lastRowWarn at hw
    cases lay <;> simp [hrow, h1, h1'] at hw

/-! ## 11. pass 7: valid up to rounding ⇒ accepted -/
/-- **valid up to rounding ⇒ accepted.** A matrix whose entries are within `δ` of an exact rotation matrix `R₀` (what `X.matrix()`
is in floating point, `δ` a few ulps) passes the orthogonality test as soon as `6δ + 3δ² ≤ atol`, and the determinant test as soon
as `6(3δ + 3δ² + δ³) ≤ atol + rtol`: "valid inputs never raise" holds for every input in a `δ`-neighbourhood of the valid ones, not
only for the exact matrices of the other theorems. (The size of `δ` for the float code is measured, a few ulps; with the default tolerances `1e-5` the orthogonality bound admits
`δ ≤ 1.6·10⁻⁶`, i.e. ≈ 14 float32 ulps and ≈ 7·10⁹ float64 ulps.) -/
theorem check_accepts_near_rotation (detK : Mat3 ℝ → ℝ) (hdet : ∀ M, detK M = M.det) (rtol atol δ : ℝ) (hr : 0 ≤ rtol) (hδ : 0 ≤ δ)
    (R R₀ : Mat3 ℝ) (hO : R₀.mul R₀.transpose = Mat3.one) (hD : R₀.det = 1) (hn : Mat3.Near δ R R₀)
    (hb : 6 * δ + 3 * δ ^ 2 ≤ atol) (hb' : 6 * (3 * δ + 3 * δ ^ 2 + δ ^ 3) ≤ atol + rtol) :
    mat2SO3 detK true rtol atol R = .ok (mat2SO3Raw atol R) := by
  obtain ⟨n0, n1, n2⟩ := hn
  -- rows of R₀ are orthonormal
  have o00 : R₀.r0.x * R₀.r0.x + R₀.r0.y * R₀.r0.y + R₀.r0.z * R₀.r0.z = 1 := by
    have := congrArg (fun M : Mat3 ℝ => M.r0.x) hO; lie_unfold_at this; linarith
  have o11 : R₀.r1.x * R₀.r1.x + R₀.r1.y * R₀.r1.y + R₀.r1.z * R₀.r1.z = 1 := by
    have := congrArg (fun M : Mat3 ℝ => M.r1.y) hO; lie_unfold_at this; linarith
  have o22 : R₀.r2.x * R₀.r2.x + R₀.r2.y * R₀.r2.y + R₀.r2.z * R₀.r2.z = 1 := by
    have := congrArg (fun M : Mat3 ℝ => M.r2.z) hO; lie_unfold_at this; linarith
  have o01 : R₀.r0.dot R₀.r1 = 0 := by
    have := congrArg (fun M : Mat3 ℝ => M.r0.y) hO; lie_unfold_at this; simp only [Vec3.dot]; linarith
  have o02 : R₀.r0.dot R₀.r2 = 0 := by
    have := congrArg (fun M : Mat3 ℝ => M.r0.z) hO; lie_unfold_at this; simp only [Vec3.dot]; linarith
  have o12 : R₀.r1.dot R₀.r2 = 0 := by
    have := congrArg (fun M : Mat3 ℝ => M.r1.z) hO; lie_unfold_at this; simp only [Vec3.dot]; linarith
  have b0 := row_entries_le_one R₀.r0 o00
  have b1 := row_entries_le_one R₀.r1 o11
  have b2 := row_entries_le_one R₀.r2 o22
  have d00 := dot_near R.r0 R.r0 R₀.r0 R₀.r0 δ hδ n0 n0 b0 b0
  have d11 := dot_near R.r1 R.r1 R₀.r1 R₀.r1 δ hδ n1 n1 b1 b1
  have d22 := dot_near R.r2 R.r2 R₀.r2 R₀.r2 δ hδ n2 n2 b2 b2
  have d01 := dot_near R.r0 R.r1 R₀.r0 R₀.r1 δ hδ n0 n1 b0 b1
  have d02 := dot_near R.r0 R.r2 R₀.r0 R₀.r2 δ hδ n0 n2 b0 b2
  have d12 := dot_near R.r1 R.r2 R₀.r1 R₀.r2 δ hδ n1 n2 b1 b2
  have s00 : R₀.r0.dot R₀.r0 = 1 := by simp only [Vec3.dot]; exact o00
  have s11 : R₀.r1.dot R₀.r1 = 1 := by simp only [Vec3.dot]; exact o11
  have s22 : R₀.r2.dot R₀.r2 = 1 := by simp only [Vec3.dot]; exact o22
  rw [s00] at d00; rw [s11] at d11; rw [s22] at d22; rw [o01, sub_zero] at d01; rw [o02, sub_zero] at d02; rw [o12, sub_zero] at d12
  have horth : orthOk rtol atol R = true := by
    rw [orthOk_iff]
    have e : ∀ a b : Vec3 ℝ, a.dot b = b.dot a := by intro a b; simp only [Vec3.dot]; ring
    have m00 : (R.mul R.transpose).r0.x = R.r0.dot R.r0 := by lie_unfold
    have m11 : (R.mul R.transpose).r1.y = R.r1.dot R.r1 := by lie_unfold
    have m22 : (R.mul R.transpose).r2.z = R.r2.dot R.r2 := by lie_unfold
    have m01 : (R.mul R.transpose).r0.y = R.r0.dot R.r1 := by lie_unfold
    have m02 : (R.mul R.transpose).r0.z = R.r0.dot R.r2 := by lie_unfold
    have m10 : (R.mul R.transpose).r1.x = R.r0.dot R.r1 := by lie_unfold; ring
    have m12 : (R.mul R.transpose).r1.z = R.r1.dot R.r2 := by lie_unfold
    have m20 : (R.mul R.transpose).r2.x = R.r0.dot R.r2 := by lie_unfold; ring
    have m21 : (R.mul R.transpose).r2.y = R.r1.dot R.r2 := by lie_unfold; ring
    rw [m00, m11, m22, m01, m02, m10, m12, m20, m21]
    refine ⟨⟨?_, ?_, ?_⟩, ?_, ?_, ?_, ?_, ?_, ?_⟩ <;> linarith
  have hdetok : detOk rtol atol (detK R) = true := by
    rw [hdet, detOk_iff, ← hD]
    obtain ⟨a1, a2, a3⟩ := n0
    obtain ⟨c1, c2, c3⟩ := n1
    obtain ⟨e1, e2, e3⟩ := n2
    have t1 := mul3_near R.r0.x R.r1.y R.r2.z R₀.r0.x R₀.r1.y R₀.r2.z δ hδ a1 c2 e3 b0.1 b1.2.1 b2.2.2
    have t2 := mul3_near R.r0.x R.r1.z R.r2.y R₀.r0.x R₀.r1.z R₀.r2.y δ hδ a1 c3 e2 b0.1 b1.2.2 b2.2.1
    have t3 := mul3_near R.r0.y R.r1.z R.r2.x R₀.r0.y R₀.r1.z R₀.r2.x δ hδ a2 c3 e1 b0.2.1 b1.2.2 b2.1
    have t4 := mul3_near R.r0.y R.r1.x R.r2.z R₀.r0.y R₀.r1.x R₀.r2.z δ hδ a2 c1 e3 b0.2.1 b1.1 b2.2.2
    have t5 := mul3_near R.r0.z R.r1.x R.r2.y R₀.r0.z R₀.r1.x R₀.r2.y δ hδ a3 c1 e2 b0.2.2 b1.1 b2.2.1
    have t6 := mul3_near R.r0.z R.r1.y R.r2.x R₀.r0.z R₀.r1.y R₀.r2.x δ hδ a3 c2 e1 b0.2.2 b1.2.1 b2.1
    have ed : R.det - R₀.det = (R.r0.x * R.r1.y * R.r2.z - R₀.r0.x * R₀.r1.y * R₀.r2.z) - (R.r0.x * R.r1.z * R.r2.y - R₀.r0.x * R₀.r1.z * R₀.r2.y)
        + (R.r0.y * R.r1.z * R.r2.x - R₀.r0.y * R₀.r1.z * R₀.r2.x) - (R.r0.y * R.r1.x * R.r2.z - R₀.r0.y * R₀.r1.x * R₀.r2.z)
        + (R.r0.z * R.r1.x * R.r2.y - R₀.r0.z * R₀.r1.x * R₀.r2.y) - (R.r0.z * R.r1.y * R.r2.x - R₀.r0.z * R₀.r1.y * R₀.r2.x) := by
      lie_unfold; ring
    rw [ed]
    rw [abs_le] at t1 t2 t3 t4 t5 t6 ⊢
    constructor <;> linarith [t1.1, t1.2, t2.1, t2.2, t3.1, t3.2, t4.1, t4.2, t5.1, t5.2, t6.1, t6.2]
  exact (mat2SO3_ok_iff detK rtol atol R _).mpr ⟨horth, hdetok, rfl⟩

/-! ## 12. pass 10: the in-band Euler bound on all nine entries -/
/-- **in-band Euler bound, first column and third row**: for every unit `X` and `eps ≥ 0`, inside the gimbal band the entries
(0,0), (1,0), (2,1), (2,2) of the matrix rebuilt from `euler()` are within `2·√(1−t2²)` of `X.matrix()`, entry (2,0) is equal, and
`1−t2² ≤ 2·eps` -/
theorem euler_band_column_row (eps : ℝ) (heps : 0 ≤ eps) (p : Quat ℝ) (h : p.normSq = 1) (hband : eulerRegular eps p = false) :
    let M := eulerMat (SO3euler eps p)
    let R := SO3matrix p
    let d := Real.sqrt (1 - (2 * (p.w * p.y - p.z * p.x)) ^ 2)
    |M.r0.x - R.r0.x| ≤ 2 * d ∧ |M.r1.x - R.r1.x| ≤ 2 * d ∧ M.r2.x = R.r2.x ∧ |M.r2.y - R.r2.y| ≤ 2 * d ∧ |M.r2.z - R.r2.z| ≤ 2 * d ∧
      d ^ 2 ≤ 2 * eps := by
  intro M R d
  obtain ⟨hb, hrow, h20⟩ := euler_t2_bounds p h
  obtain ⟨e20, erow, _, hsmall⟩ := euler_band_third_row_partial eps p h
  have hcol := euler_first_column p h
  have hd0 : 0 ≤ d := Real.sqrt_nonneg _
  have hnn : 0 ≤ 1 - (2 * (p.w * p.y - p.z * p.x)) ^ 2 := by rw [← hrow]; positivity
  have hdd : d ^ 2 = 1 - (2 * (p.w * p.y - p.z * p.x)) ^ 2 := Real.sq_sqrt hnn
  obtain ⟨c1, c2⟩ := abs_le_of_sq_add_sq _ _ d hd0 (by rw [hcol, hdd])
  obtain ⟨r1, r2⟩ := abs_le_of_sq_add_sq _ _ d hd0 (by rw [hrow, hdd])
  have hr2 := erow hband
  -- the model's matrix in the band: roll = 0, cos(pitch) = d
  have hT := eulerT_unit p h
  obtain ⟨hlo, hhi⟩ := abs_le.mp hb
  have hclamp := sclamp_of_mem _ hlo hhi
  have hasin := sasin_real _ hb
  have hpitch : (SO3euler eps p).y = Real.arcsin (2 * (p.w * p.y - p.z * p.x)) := by
    unfold SO3euler; simp only [hT, k_real, Nat.cast_one, hclamp, hasin]
  have hroll : (SO3euler eps p).x = 0 := by unfold SO3euler; simp [hband]
  have m00 : M.r0.x = Real.cos (SO3euler eps p).z * d := by
    show (eulerMat (SO3euler eps p)).r0.x = _
    unfold eulerMat rotX rotY rotZ
    lie_unfold
    simp only [sin_real, cos_real, hpitch, hroll, Real.cos_arcsin, Real.sin_zero, Real.cos_zero]
    ring
  have m10 : M.r1.x = Real.sin (SO3euler eps p).z * d := by
    show (eulerMat (SO3euler eps p)).r1.x = _
    unfold eulerMat rotX rotY rotZ
    lie_unfold
    simp only [sin_real, cos_real, hpitch, hroll, Real.cos_arcsin, Real.sin_zero, Real.cos_zero]
    ring
  have hc := Real.cos_le_one (SO3euler eps p).z
  have hc' := Real.neg_one_le_cos (SO3euler eps p).z
  have hs := Real.sin_le_one (SO3euler eps p).z
  have hs' := Real.neg_one_le_sin (SO3euler eps p).z
  have m2 : M.r2 = ⟨-(2 * (p.w * p.y - p.z * p.x)), 0, d⟩ := hr2
  refine ⟨?_, ?_, e20, ?_, ?_, ?_⟩
  · rw [m00]; exact abs_mul_sub_le _ _ _ (abs_le.mpr ⟨hc', hc⟩) hd0 c1
  · rw [m10]; exact abs_mul_sub_le _ _ _ (abs_le.mpr ⟨hs', hs⟩) hd0 c2
  · rw [m2]; simp only []; rw [abs_le] at r1 ⊢; constructor <;> linarith
  · rw [m2]; simp only []; rw [abs_le] at r2 ⊢; constructor <;> linarith
  · rw [hdd]; exact hsmall hband heps

/-- **in-band Euler bound, remaining 2×2 block**: for every unit `X` and `0 ≤ eps ≤ 1/25`, inside the gimbal band the entries
(0,1), (0,2), (1,1), (1,2) of the rebuilt matrix are within `48·√(1−|t2|)` of `X.matrix()`, and `1−|t2| ≤ eps` -/
theorem euler_band_block (eps : ℝ) (heps : 0 ≤ eps) (heps1 : eps ≤ 1 / 25) (p : Quat ℝ) (h : p.normSq = 1)
    (hband : eulerRegular eps p = false) :
    let M := eulerMat (SO3euler eps p)
    let R := SO3matrix p
    let e := Real.sqrt (1 - |2 * (p.w * p.y - p.z * p.x)|)
    |M.r0.y - R.r0.y| ≤ 48 * e ∧ |M.r0.z - R.r0.z| ≤ 48 * e ∧ |M.r1.y - R.r1.y| ≤ 48 * e ∧ |M.r1.z - R.r1.z| ≤ 48 * e ∧
      e ^ 2 ≤ eps := by
  intro M R e
  obtain ⟨hb, hrow, h20⟩ := euler_t2_bounds p h
  have h' : p.x * p.x + p.y * p.y + p.z * p.z + p.w * p.w = 1 := h
  have hT := eulerT_unit p h
  obtain ⟨hlo, hhi⟩ := abs_le.mp hb
  have hclamp := sclamp_of_mem _ hlo hhi
  have hasin := sasin_real _ hb
  have hpitch : (SO3euler eps p).y = Real.arcsin (2 * (p.w * p.y - p.z * p.x)) := by
    unfold SO3euler; simp only [hT, k_real, Nat.cast_one, hclamp, hasin]
  have hroll : (SO3euler eps p).x = 0 := by unfold SO3euler; simp [hband]
  have hyaw : (SO3euler eps p).z = -2 * spm (2 * (p.w * p.y - p.z * p.x)) * Complex.arg ⟨p.w, p.x⟩ := by
    unfold SO3euler; simp [hband, hT]
  have hnn : 0 ≤ 1 - |2 * (p.w * p.y - p.z * p.x)| := by linarith
  have he0 : 0 ≤ e := Real.sqrt_nonneg _
  have hee : e * e = 1 - |2 * (p.w * p.y - p.z * p.x)| := Real.mul_self_sqrt hnn
  have hnot : ¬ |2 * (p.w * p.y - p.z * p.x)| < 1 - eps := by
    intro hlt; have := (eulerRegular_iff eps p h).mpr hlt; rw [hband] at this; exact absurd this (by simp)
  have hge : 1 - eps ≤ |2 * (p.w * p.y - p.z * p.x)| := not_lt.mp hnot
  have hsmall : e * e ≤ eps := by linarith
  have he1 : e ≤ 1 / 5 := by
    by_contra hc
    have hc' := not_le.mp hc
    nlinarith
  obtain ⟨hC, hS⟩ := cos_sin_two_arg p.w p.x
  -- entries of the model's matrix in the band
  have m01 : M.r0.y = -Real.sin (SO3euler eps p).z := by
    show (eulerMat (SO3euler eps p)).r0.y = _
    unfold eulerMat rotX rotY rotZ
    lie_unfold
    simp only [sin_real, cos_real, hroll, Real.sin_zero, Real.cos_zero]
    ring
  have m02 : M.r0.z = Real.cos (SO3euler eps p).z * (2 * (p.w * p.y - p.z * p.x)) := by
    show (eulerMat (SO3euler eps p)).r0.z = _
    unfold eulerMat rotX rotY rotZ
    lie_unfold
    simp only [sin_real, cos_real, hpitch, hroll, Real.sin_arcsin hlo hhi, Real.sin_zero, Real.cos_zero]
    ring
  have m11 : M.r1.y = Real.cos (SO3euler eps p).z := by
    show (eulerMat (SO3euler eps p)).r1.y = _
    unfold eulerMat rotX rotY rotZ
    lie_unfold
    simp only [sin_real, cos_real, hroll, Real.sin_zero, Real.cos_zero]
    ring
  have m12 : M.r1.z = Real.sin (SO3euler eps p).z * (2 * (p.w * p.y - p.z * p.x)) := by
    show (eulerMat (SO3euler eps p)).r1.z = _
    unfold eulerMat rotX rotY rotZ
    lie_unfold
    simp only [sin_real, cos_real, hpitch, hroll, Real.sin_arcsin hlo hhi, Real.sin_zero, Real.cos_zero]
    ring
  have r01 : R.r0.y = 2 * (p.x * p.y - p.w * p.z) := by
    show (SO3matrix p).r0.y = _
    unfold SO3matrix; lie_unfold; ring
  have r02 : R.r0.z = 2 * (p.x * p.z + p.w * p.y) := by
    show (SO3matrix p).r0.z = _
    unfold SO3matrix; lie_unfold; ring
  have r11 : R.r1.y = 1 - 2 * (p.x * p.x + p.z * p.z) := by
    show (SO3matrix p).r1.y = _
    unfold SO3matrix; lie_unfold; ring
  have r12 : R.r1.z = 2 * (p.y * p.z - p.w * p.x) := by
    show (SO3matrix p).r1.z = _
    unfold SO3matrix; lie_unfold; ring
  rw [m01, m02, m11, m12, r01, r02, r11, r12, hyaw]
  refine (and_assoc.mp (and_assoc.mp (and_assoc.mp ⟨?_, by rw [pow_two]; exact hsmall⟩)))
  by_cases ht : 2 * (p.w * p.y - p.z * p.x) < 0
  · have hσ : spm (2 * (p.w * p.y - p.z * p.x)) = -1 := by simp [spm, ht]
    have habs : |2 * (p.w * p.y - p.z * p.x)| = -(2 * (p.w * p.y - p.z * p.x)) := abs_of_neg ht
    have e1 : -2 * (-1 : ℝ) * Complex.arg ⟨p.w, p.x⟩ = 2 * Complex.arg ⟨p.w, p.x⟩ := by ring
    rw [hσ, e1]
    obtain ⟨c1, c2, c3, c4⟩ := band_block_core p.x (-p.y) (-p.z) p.w e _ _ (by linarith) he0 he1
      (by rw [hee, habs]; ring) hC hS
    refine ⟨⟨⟨?_, ?_⟩, ?_⟩, ?_⟩
    · exact le_of_eq_of_le ((congrArg abs (by ring)).trans (abs_neg _)) c1
    · exact le_of_eq_of_le ((congrArg abs (by ring)).trans (abs_neg _)) c2
    · exact le_of_eq_of_le (congrArg abs (by ring)) c3
    · exact le_of_eq_of_le (congrArg abs (by ring)) c4
  · have hσ : spm (2 * (p.w * p.y - p.z * p.x)) = 1 := by simp [spm, ht]
    have habs : |2 * (p.w * p.y - p.z * p.x)| = 2 * (p.w * p.y - p.z * p.x) := abs_of_nonneg (not_lt.mp ht)
    have e1 : -2 * (1 : ℝ) * Complex.arg ⟨p.w, p.x⟩ = -(2 * Complex.arg ⟨p.w, p.x⟩) := by ring
    rw [hσ, e1, Real.sin_neg, Real.cos_neg]
    obtain ⟨c1, c2, c3, c4⟩ := band_block_core p.x p.y p.z p.w e _ _ h' he0 he1
      (by rw [hee, habs]) hC hS
    refine ⟨⟨⟨?_, ?_⟩, ?_⟩, ?_⟩
    · exact le_of_eq_of_le (congrArg abs (by ring)) c1
    · exact le_of_eq_of_le (congrArg abs (by ring)) c2
    · exact le_of_eq_of_le (congrArg abs (by ring)) c3
    · exact le_of_eq_of_le (congrArg abs (by ring)) c4

/-- **the full in-band Euler bound** (`LieTensor.euler` docstring: in the gimbal band "roll is set to zero and yaw carries the
whole rotation"): for every unit `X`, every `0 ≤ eps ≤ 1/25` (the code's `eps = 2e-4` included) and `X` inside the band
(`eulerRegular eps X = false`, i.e. `|t2| ≥ 1 − eps`), the matrix rebuilt from the returned angles is within `48·√eps` of
`X.matrix()` in **every one of the nine entries**.  (Outside the band the rebuild is exact, `euler2SO3_euler`; at exact lock it
is exact too, `euler_gimbal_lock_exact`.  The constant 48 is not tight.) -/
theorem euler_band_full (eps : ℝ) (heps : 0 ≤ eps) (heps1 : eps ≤ 1 / 25) (p : Quat ℝ) (h : p.normSq = 1)
    (hband : eulerRegular eps p = false) :
    Mat3.Near (48 * Real.sqrt eps) (eulerMat (SO3euler eps p)) (SO3matrix p) := by
  obtain ⟨a00, a10, a20, a21, a22, hd⟩ := euler_band_column_row eps heps p h hband
  obtain ⟨b01, b02, b11, b12, he⟩ := euler_band_block eps heps heps1 p h hband
  have hs0 : 0 ≤ Real.sqrt eps := Real.sqrt_nonneg _
  have hss : Real.sqrt eps * Real.sqrt eps = eps := Real.mul_self_sqrt heps
  have hd0 : 0 ≤ Real.sqrt (1 - (2 * (p.w * p.y - p.z * p.x)) ^ 2) := Real.sqrt_nonneg _
  have he0 : 0 ≤ Real.sqrt (1 - |2 * (p.w * p.y - p.z * p.x)|) := Real.sqrt_nonneg _
  generalize Real.sqrt (1 - (2 * (p.w * p.y - p.z * p.x)) ^ 2) = d at *
  generalize Real.sqrt (1 - |2 * (p.w * p.y - p.z * p.x)|) = e at *
  generalize Real.sqrt eps = s at *
  have hds : d ≤ 2 * s := by
    by_contra hc
    have hc' := not_le.mp hc
    nlinarith
  have hes : e ≤ s := by
    by_contra hc
    have hc' := not_le.mp hc
    nlinarith
  refine ⟨⟨?_, ?_, ?_⟩, ⟨?_, ?_, ?_⟩, ⟨?_, ?_, ?_⟩⟩
  · linarith
  · linarith
  · linarith
  · linarith
  · linarith
  · linarith
  · rw [a20]; simp; positivity
  · linarith
  · linarith

/-! ### pass 11: the rebuild bound without regime or `eps` hypotheses -/
/-- **`euler()` is an approximate right inverse of `euler2SO3` everywhere** (no regime hypothesis, no bound on `eps`): for every
unit `X` and every `eps ≥ 0`, the matrix rebuilt from `X.euler(eps)` — equivalently `euler2SO3(X.euler(eps)).matrix()` — is
within `48·√eps` of `X.matrix()` in every entry: exactly equal outside the gimbal band, `euler_band_full` inside it, and for
`eps > 1/25` the bound exceeds the diameter 2 of rotation-matrix entries. -/
theorem euler_rebuild_near_always (eps : ℝ) (heps : 0 ≤ eps) (p : Quat ℝ) (h : p.normSq = 1) :
    Mat3.Near (48 * Real.sqrt eps) (eulerMat (SO3euler eps p)) (SO3matrix p) ∧
    Mat3.Near (48 * Real.sqrt eps) (SO3matrix (euler2SO3 (SO3euler eps p))) (SO3matrix p) := by
  have hs0 : 0 ≤ Real.sqrt eps := Real.sqrt_nonneg _
  have hss : Real.sqrt eps * Real.sqrt eps = eps := Real.mul_self_sqrt heps
  have key : Mat3.Near (48 * Real.sqrt eps) (eulerMat (SO3euler eps p)) (SO3matrix p) := by
    cases hreg : eulerRegular eps p with
    | true =>
      rw [eulerMat_SO3euler eps heps p h hreg]
      exact Mat3.Near.refl' (by positivity) _
    | false =>
      by_cases hle : eps ≤ 1 / 25
      · exact euler_band_full eps heps hle p h hreg
      · have hgt := not_le.mp hle
        have hs : 1 / 5 ≤ Real.sqrt eps := by
          by_contra hc
          have hc' := not_le.mp hc
          nlinarith
        rw [← euler2SO3_eq]
        exact Mat3.Near.mono (by linarith) (SO3matrix_near_two _ _ (euler2SO3_unit _) h)
  exact ⟨key, by rw [euler2SO3_eq]; exact key⟩

/-! ### non-vacuity: the hypotheses are satisfiable by non-trivial values -/

/-- rotation by exactly π about the x axis (`w = 0`): region 0, recovered exactly -/
example : mat2SO3Raw (1 / 100000) (SO3matrix (⟨1, 0, 0, 0⟩ : Quat ℝ)) = ⟨1, 0, 0, 0⟩ := by
  rw [mat2SO3Raw_rot _ (by lie_unfold; norm_num) _ (by rw [abs_of_pos] <;> norm_num)]
  unfold canonQ
  have : mat2SO3Region (1 / 100000 : ℝ) (SO3matrix (⟨1, 0, 0, 0⟩ : Quat ℝ)).transpose = 0 := by
    obtain ⟨e0, e1, e2⟩ := rot_diag (⟨1, 0, 0, 0⟩ : Quat ℝ)
    simp only [mat2SO3Region, lt_real, e0, e1, e2]; norm_num
  rw [this]; simp [domComp]

example : C11.ValidSim3 (⟨⟨1, 2, 3⟩, ⟨0, 0.6, 0, 0.8⟩, 2⟩ : Sim3 ℝ) := by
  refine ⟨?_, by norm_num⟩; lie_unfold; norm_num

example : (⟨0.3, -0.5, 2⟩ : Vec3 ℝ).x ∈ Set.Ioc (-Real.pi) Real.pi ∧
    (⟨0.3, -0.5, 2⟩ : Vec3 ℝ).y ∈ Set.Icc (-(Real.pi / 2)) (Real.pi / 2) := by
  have := Real.two_le_pi
  refine ⟨⟨by simp only []; linarith, by simp only []; linarith⟩, ⟨by simp only []; linarith, by simp only []; linarith⟩⟩

/-- `check_rejects_scaled` has instances: `c = 2`, default tolerances -/
example : (1 / 100000 : ℝ) + 1 / 100000 < |(2 : ℝ) * 2 - 1| := by rw [abs_of_pos] <;> norm_num

/-- exact gimbal lock is attained by a unit quaternion: `p = (0, √½, 0, √½)` has `2(wy − zx) = 1` -/
example : ∃ p : Quat ℝ, p.normSq = 1 ∧ 2 * (p.w * p.y - p.z * p.x) = 1 := by
  refine ⟨⟨0, Real.sqrt (1 / 2), 0, Real.sqrt (1 / 2)⟩, ?_, ?_⟩
  · lie_unfold; have := Real.mul_self_sqrt (show (0 : ℝ) ≤ 1 / 2 by norm_num); linarith
  · simp only []; have := Real.mul_self_sqrt (show (0 : ℝ) ≤ 1 / 2 by norm_num); linarith

/-- identity is regular for the default `eps = 2e-4` -/
example : eulerRegular (2 / 10000 : ℝ) (⟨0, 0, 0, 1⟩ : Quat ℝ) = true := by
  rw [eulerRegular_iff _ _ (by lie_unfold; norm_num)]; norm_num

/-- `mat2SO3_general` applies to matrices that are not written as `R(q)`: the cyclic permutation matrix -/
example : (⟨⟨0, 0, 1⟩, ⟨1, 0, 0⟩, ⟨0, 1, 0⟩⟩ : Mat3 ℝ).mul (⟨⟨0, 0, 1⟩, ⟨1, 0, 0⟩, ⟨0, 1, 0⟩⟩ : Mat3 ℝ).transpose = Mat3.one ∧
    (⟨⟨0, 0, 1⟩, ⟨1, 0, 0⟩, ⟨0, 1, 0⟩⟩ : Mat3 ℝ).det = 1 := by
  constructor
  · ext <;> lie_unfold <;> norm_num
  · lie_unfold; norm_num

/-- hypotheses of `scaled_check_iff` / `scaled_rejects_nonrotation`: `2·1` has determinant `8 > 0` -/
example : (0 : ℝ) < (Mat3.smul 2 Mat3.one : Mat3 ℝ).det := by lie_unfold; norm_num

/-- tie hypotheses of `mat2SO3Raw_tie_xy` are met by the rotation by π about the `(1,−1,0)` diagonal -/
example : (⟨Real.sqrt (1 / 2), -Real.sqrt (1 / 2), 0, 0⟩ : Quat ℝ).normSq = 1 ∧
    (Real.sqrt (1 / 2)) * (Real.sqrt (1 / 2)) = (-Real.sqrt (1 / 2)) * (-Real.sqrt (1 / 2)) := by
  have := Real.mul_self_sqrt (show (0 : ℝ) ≤ 1 / 2 by norm_num)
  constructor
  · lie_unfold; linarith
  · ring

/-- `scaled_valid_rank_iff` / `convCall_Sim3_matrix`: a non-empty valid batch with a scale above the default `atol` -/
example : ([(⟨0, 0.6, 0, 0.8⟩, 2)] : List (Quat ℝ × ℝ)) ≠ [] ∧ (1 / 100000 : ℝ) < 2 := ⟨by simp, by norm_num⟩

/-- the band of `euler_band_third_row_partial` is inhabited: exact gimbal lock is not regular for any `eps ≥ 0` -/
example : eulerRegular (1 / 5000 : ℝ) (⟨0, Real.sqrt (1 / 2), 0, Real.sqrt (1 / 2)⟩ : Quat ℝ) = false := by
  have hs := Real.mul_self_sqrt (show (0 : ℝ) ≤ 1 / 2 by norm_num)
  have hu : (⟨0, Real.sqrt (1 / 2), 0, Real.sqrt (1 / 2)⟩ : Quat ℝ).normSq = 1 := by lie_unfold; linarith
  apply Bool.eq_false_iff.mpr; intro hc
  have := (eulerRegular_iff _ _ hu).mp hc
  simp only [] at this
  rw [show 2 * (Real.sqrt (1 / 2) * Real.sqrt (1 / 2) - 0 * 0) = 1 by rw [hs]; norm_num, abs_one] at this
  norm_num at this
/-- **end-to-end instance of a main theorem** (the auditor's witness): a Sim3 element with rotation angle π (w = 0) about
(0.6, 0, 0.8), scale 2, translation (1,2,3), passed as a 3×4 matrix to `mat2Sim3` with the real determinant and the default
tolerances comes back with the same translation, scale and `±q` -/
example : mat2Sim3 Mat3.det true (1/100000) (1/100000) (MatIn.ofDMat .m34 (Sim3matrix (⟨⟨1,2,3⟩, ⟨0.6, 0, 0.8, 0⟩, 2⟩ : Sim3 ℝ)))
    = .ok ⟨⟨1,2,3⟩, canonQ (1/100000) ⟨0.6, 0, 0.8, 0⟩, 2⟩ := by
  have := mat2Sim3_matrix Mat3.det (fun _ => rfl) true (1/100000) (1/100000) (by norm_num) (by norm_num) (by norm_num)
    .m34 (⟨⟨1,2,3⟩, ⟨0.6, 0, 0.8, 0⟩, 2⟩ : Sim3 ℝ) ⟨by simp [Quat.normSq]; norm_num, by norm_num⟩ (by norm_num)
  simpa using this
/-- the same element through the public call with every optional argument left out, 4×4 -/
example : convCall Mat3.det (.fromMatrix (some .Sim3)) 2 4 4 ⟨none, none, none⟩
      [sliceD 4 4 (Sim3matrix (⟨⟨1,2,3⟩, ⟨0.6, 0, 0.8, 0⟩, 2⟩ : Sim3 ℝ))]
    = .ok [Sim3.toList ⟨⟨1,2,3⟩, canonQ (1/100000) ⟨0.6, 0, 0.8, 0⟩, 2⟩] := by
  have hat : (⟨none, none, none⟩ : CallArgs ℝ).effAtol = 1 / 100000 := by simp [CallArgs.effAtol, defAtol]
  have := convCall_Sim3_roundtrip Mat3.det (fun _ => rfl) (.fromMatrix (some .Sim3)) (Or.inl rfl) 2 4 4 .m44 (le_refl 2)
    (Or.inr (Or.inr ⟨rfl, rfl, rfl⟩)) ⟨none, none, none⟩ (by intro r h; cases h) (by intro t h; cases h)
    [(⟨⟨1,2,3⟩, ⟨0.6, 0, 0.8, 0⟩, 2⟩ : Sim3 ℝ)]
    (by intro X hX; rw [List.mem_singleton.mp hX]; exact ⟨by simp [Quat.normSq]; norm_num, by norm_num⟩)
    (fun _ => ⟨(⟨⟨1,2,3⟩, ⟨0.6, 0, 0.8, 0⟩, 2⟩ : Sim3 ℝ), by simp, by rw [hat]; norm_num⟩)
  rw [hat] at this
  simpa using this
/-- the observation `rank_test_is_batch_level`, concretely: identity rotation with scale `5·10⁻⁶ ≤ atol = 10⁻⁵` is refused alone … -/
example : scaledRotBatch Mat3.det true (1/100000) (1/100000)
      ([((⟨0,0,0,1⟩ : Quat ℝ), (1/200000 : ℝ))].map fun p => Mat3.smul p.2 (SO3matrix p.1)) = .error .notFullRank := by
  rw [scaled_valid_rank_iff Mat3.det (fun _ => rfl) true _ _ (by norm_num) (by norm_num) (by norm_num) _ (by simp)]
  · intro p hp; simp at hp; subst hp; norm_num
  · intro p hp; simp at hp; subst hp; constructor
    · simp [Quat.normSq]
    · norm_num
/-- a reflection is a `BadFor` item for every type: `fromMatrixBatch_rejects` / `convCall_rejects` have instances -/
example : C11.BadRot Mat3.det (1/100000) (1/100000) (⟨⟨1, 0, 0⟩, ⟨0, 1, 0⟩, ⟨0, 0, -1⟩⟩ : Mat3 ℝ) := by
  right
  apply Bool.eq_false_iff.mpr; intro h
  have := (detOk_iff _ _ _).mp h
  revert this; lie_unfold; norm_num [abs_of_neg]
/-- `check_accepts_near_rotation` has non-trivial instances: the identity with one entry off by `10⁻⁷`, `δ = 10⁻⁷`, default tolerances -/
example : mat2SO3 Mat3.det true (1/100000) (1/100000) (⟨⟨1, 1/10000000, 0⟩, ⟨0, 1, 0⟩, ⟨0, 0, 1⟩⟩ : Mat3 ℝ)
    = .ok (mat2SO3Raw (1/100000) (⟨⟨1, 1/10000000, 0⟩, ⟨0, 1, 0⟩, ⟨0, 0, 1⟩⟩ : Mat3 ℝ)) := by
  apply check_accepts_near_rotation Mat3.det (fun _ => rfl) (1/100000) (1/100000) (1/10000000) (by norm_num) (by norm_num) _ Mat3.one
  · ext <;> lie_unfold <;> norm_num
  · lie_unfold; norm_num
  · refine ⟨⟨?_, ?_, ?_⟩, ⟨?_, ?_, ?_⟩, ⟨?_, ?_, ?_⟩⟩ <;> lie_unfold <;> norm_num [abs_of_pos]
  · norm_num
  · norm_num

/-- `euler_band_full` / `euler_band_column_row` / `euler_band_block` have an instance: exact gimbal lock with the code's
`eps = 2e-4` (hypotheses `0 ≤ eps ≤ 1/25`, unit norm, inside the band all hold) -/
example : Mat3.Near (48 * Real.sqrt (1 / 5000))
    (eulerMat (SO3euler (1 / 5000 : ℝ) (⟨0, Real.sqrt (1 / 2), 0, Real.sqrt (1 / 2)⟩ : Quat ℝ)))
    (SO3matrix (⟨0, Real.sqrt (1 / 2), 0, Real.sqrt (1 / 2)⟩ : Quat ℝ)) := by
  have hs := Real.mul_self_sqrt (show (0 : ℝ) ≤ 1 / 2 by norm_num)
  have hu : (⟨0, Real.sqrt (1 / 2), 0, Real.sqrt (1 / 2)⟩ : Quat ℝ).normSq = 1 := by lie_unfold; linarith
  refine euler_band_full _ (by norm_num) (by norm_num) _ hu ?_
  apply Bool.eq_false_iff.mpr; intro hc
  have := (eulerRegular_iff _ _ hu).mp hc
  simp only [] at this
  rw [show 2 * (Real.sqrt (1 / 2) * Real.sqrt (1 / 2) - 0 * 0) = 1 by rw [hs]; norm_num, abs_one] at this
  norm_num at this

/-- `euler_rebuild_near_always` has an instance outside the range of `euler_band_full`: `eps = 1` (every unit quaternion is in
the band), exact gimbal lock -/
example : Mat3.Near (48 * Real.sqrt 1)
    (eulerMat (SO3euler (1 : ℝ) (⟨0, Real.sqrt (1 / 2), 0, Real.sqrt (1 / 2)⟩ : Quat ℝ)))
    (SO3matrix (⟨0, Real.sqrt (1 / 2), 0, Real.sqrt (1 / 2)⟩ : Quat ℝ)) := by
  have hs := Real.mul_self_sqrt (show (0 : ℝ) ≤ 1 / 2 by norm_num)
  have hu : (⟨0, Real.sqrt (1 / 2), 0, Real.sqrt (1 / 2)⟩ : Quat ℝ).normSq = 1 := by lie_unfold; linarith
  exact (euler_rebuild_near_always 1 (by norm_num) _ hu).1

end PP
