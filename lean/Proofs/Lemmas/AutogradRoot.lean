/-
C04 (pass 7): group-valued roots.  `.grad` of a leaf for a program whose OUTPUT is a group element, with the storage cotangent `(c, 0)`,
pairs with a direction `τ` to the derivative of `⟨c, chart⟩`, the chart being `Log(Y(t)·Y(0)⁻¹)` — the property's reading of the
Jacobian of a group-valued program ("the last storage slot of the cotangent is ignored by every backward pass").
-/
import Proofs.Lemmas.AutogradGrad
set_option linter.unusedSimpArgs false
set_option linter.unusedVariables false
namespace PP.AD
open PP

/-- moving one leaf along a valid curve, all others fixed: the family of environments is valid for the chain-rule theorems -/
theorem curveEnv_setup (lt : List Ty) (env0 : List (DVec ℝ)) (hP : PointOK lt env0) (i : Nat) (ti : Ty) (hi : lt[i]? = some ti)
    (γ : ℝ → DVec ℝ) (τ : DVec ℝ) (hγ : CurveOK ti γ τ) (hγ0 : γ 0 = env0.getD i []) (hτ : τ.length = ti.tdim) :
    curveEnv env0 i γ 0 = env0 ∧ EnvOK lt (curveEnv env0 i γ 0) (oneTan lt i τ) ∧
    ∀ j t, lt[j]? = some t → CurveOK t (fun s => (curveEnv env0 i γ s).getD j []) ((oneTan lt i τ).getD j []) := by
  have hil : i < lt.length := lt_of_getElem? _ _ _ hi
  have hie : i < env0.length := by rw [hP.1]; exact hil
  have h0 := curveEnv_zero env0 i γ hie hγ0
  refine ⟨h0, ?_, ?_⟩
  · rw [h0]
    intro j t hj
    exact ⟨(hP.2 j t hj).1, oneTan_length lt i τ j t hj ti hi hτ⟩
  · intro j t hj
    have hjl : j < lt.length := lt_of_getElem? _ _ _ hj
    by_cases hji : j = i
    · subst hji
      rw [hi] at hj; cases hj
      have e : (fun s => (curveEnv env0 j γ s).getD j []) = γ := by
        funext s; simp [curveEnv, hie]
      rw [e, oneTan_self lt j τ hil]
      exact hγ
    · have e : (fun s => (curveEnv env0 i γ s).getD j []) = fun _ => env0.getD j [] := by
        funext s; simp [curveEnv, List.getD_eq_getElem?_getD, List.getElem?_set_ne (Ne.symm hji)]
      have hjt : lt[j] = t := by rw [List.getElem?_eq_getElem hjl] at hj; exact Option.some.inj hj
      have et : (oneTan lt i τ).getD j [] = DVec.zero t.tdim := by simp [oneTan, hjl, hji, hjt]
      rw [e, et]
      have hXj := hP.2 j t hj
      cases t with
      | G g' =>
        exact curveOK_G.mpr ⟨gtangent_const g' _, (hXj.2 g' rfl).1, (hXj.2 g' rfl).2, by simp [DVec.zero, Ty.tdim]⟩
      | V m =>
        refine curveOK_V.mpr ⟨?_, fun _ => hXj.1, by simp [DVec.zero, Ty.tdim]⟩
        intro k hk
        rw [show nth (DVec.zero (Ty.V m).tdim : DVec ℝ) k = 0 from nth_dzero _ _]
        exact hasDerivAt_const _ _

/-- **group-valued roots: `.grad` is the derivative read through the chart.**  `p`: any well-typed program whose value is an element of the
group `g'`, transcendental nodes in proved regimes; leaf `i` moves along a valid curve with tangent `τ` (left-perturbation tangent if it
is a group leaf), all other leaves fixed.  Then for every `c ∈ ℝ^{adim}`

  `d/dt ⟨c, Log(p(env(t)) · p(env(0))⁻¹)⟩ |_{t=0} = ⟨gradᵢ, τ⟩`,

where `gradᵢ` is what the reverse sweep started with the storage cotangent `(c, 0)` accumulates in `.grad` of leaf `i`. -/
theorem group_root_curve_gradient_exact (dJ : DJ ℝ) (hdJ : DJShape dJ) (eps : ℝ) (heps : 0 < eps) (lt : List Ty) (env0 : List (DVec ℝ))
    (hP : PointOK lt env0) (i : Nat) (ti : Ty) (hi : lt[i]? = some ti) (γ : ℝ → DVec ℝ) (τ : DVec ℝ)
    (hγ : CurveOK ti γ τ) (hγ0 : γ 0 = env0.getD i []) (hτ : τ.length = ti.tdim)
    (p : Prog) (hR : Regimes dJ eps env0 p) (g' : Grp) (hty : tyOf lt p = some (.G g')) (c : DVec ℝ) (hc : c.length = g'.adim) :
    HasDerivAt (fun t => DVec.dot c (chartF g' eps (eval eps env0 p) (eval eps (curveEnv env0 i γ t) p)))
      (DVec.dot (grad ti.dim i (backprop dJ eps env0 p (pad0 c))) τ) 0 := by
  have hil : i < lt.length := lt_of_getElem? _ _ _ hi
  obtain ⟨h0, hE, hleaf⟩ := curveEnv_setup lt env0 hP i ti hi γ τ hγ hγ0 hτ
  have hR' : Regimes dJ eps (curveEnv env0 i γ 0) p := by rw [h0]; exact hR
  have hT := transSpec_of_regimes dJ hdJ eps heps lt (curveEnv env0 i γ) (oneTan lt i τ) hleaf p hR'
  obtain ⟨hG, hu, hs, hτl⟩ := curveOK_G.mp (eval_tangent_of_transSpec dJ eps lt (curveEnv env0 i γ) (oneTan lt i τ) hleaf p hT (.G g') hty)
  have hch := chart_tangent g' eps heps (fun s => eval eps (curveEnv env0 i γ s) p) _ hτl hG hu hs
  simp only [h0] at hch hτl
  have hd := hasDerivAt_dot g'.adim c (fun t => chartF g' eps (eval eps env0 p) (eval eps (curveEnv env0 i γ t) p)) _
    (fun t => by simp only [chartF]; exact length_logF g' eps _) hτl hch
  have hpad : (pad0 c).length = (Ty.G g').dim := by simp [pad0, Ty.dim, gdim_eq, hc]
  have hadj := (backprop_adjoint_aux dJ hdJ eps lt (curveEnv env0 i γ 0) (oneTan lt i τ) hE p (.G g') (pad0 c) hty hpad).1
  rw [h0] at hadj
  rw [ddot_pad0 c _ (le_of_eq (by rw [hτl, hc]))] at hadj
  rw [← hadj, pairSum_oneTan lt i ti.dim τ hil _ (fun c' hc' hci =>
    backprop_lengths dJ hdJ eps lt env0 p (.G g') (pad0 c) hty hpad c' hc' ti (by rw [hci]; exact hi))] at hd
  exact hd

/-- the same along the true retraction of a group leaf: **`X.grad` of a group-valued program is its left-perturbation Jacobian in the
chart of the output** -/
theorem group_root_leaf_gradient_exact (dJ : DJ ℝ) (hdJ : DJShape dJ) (eps : ℝ) (heps : 0 < eps) (lt : List Ty) (env0 : List (DVec ℝ))
    (hP : PointOK lt env0) (i : Nat) (g : Grp) (hi : lt[i]? = some (.G g)) (τ : DVec ℝ) (hτ : τ.length = g.adim)
    (p : Prog) (hR : Regimes dJ eps env0 p) (g' : Grp) (hty : tyOf lt p = some (.G g')) (c : DVec ℝ) (hc : c.length = g'.adim) :
    HasDerivAt (fun t => DVec.dot c (chartF g' eps (eval eps env0 p)
        (eval eps (curveEnv env0 i (fun s => retrF g eps (env0.getD i []) (DVec.smul s τ)) t) p)))
      (DVec.dot (grad g.gdim i (backprop dJ eps env0 p (pad0 c))) τ) 0 := by
  have hXi := hP.2 i _ hi
  have h0 : (fun s => retrF g eps (env0.getD i []) (DVec.smul s τ)) 0 = env0.getD i [] := by
    show retrF g eps (env0.getD i []) (DVec.smul 0 τ) = env0.getD i []
    rw [smul_zero_left, hτ, retrF_zero g eps heps _ hXi.1]
  refine group_root_curve_gradient_exact dJ hdJ eps heps lt env0 hP i (.G g) hi _ τ ?_ h0 hτ p hR g' hty c hc
  refine curveOK_G.mpr ⟨retr_tangent g eps heps _ τ hτ, ?_, ?_, hτ⟩
  · have h0' : retrF g eps (env0.getD i []) (DVec.smul 0 τ) = env0.getD i [] := h0
    rw [h0']; exact (hXi.2 g rfl).1
  · have h0' : retrF g eps (env0.getD i []) (DVec.smul 0 τ) = env0.getD i [] := h0
    rw [h0']; exact (hXi.2 g rfl).2

end PP.AD
