import Proofs.Lemmas.AutogradChain
import Proofs.Lemmas.AutogradExp
import Proofs.Lemmas.AutogradExpSE3
import Proofs.Lemmas.AutogradRxSO3
import Proofs.Lemmas.AutogradLog
import Proofs.Lemmas.AutogradZero
import Proofs.Lemmas.AutogradLocalSO3a
import Proofs.Lemmas.AutogradLocalSO3b
import Proofs.Lemmas.AutogradLocalSE3a
import Proofs.Lemmas.AutogradLocalSE3b
import Proofs.Lemmas.AutogradLocalRxSO3a
import Proofs.Lemmas.AutogradLocalRxSO3b
import Proofs.Lemmas.AutogradLocalSim3a
import Proofs.Lemmas.AutogradLocalSim3b
/-!
# C04 — the forward tangent of a program is its true derivative (semantic chain rule)

`CurveOK ty γ τ`: a curve of valid stored values of type `ty` moving with tangent `τ` (left-perturbation tangent for group
types).  By structural induction over `Prog`, using the local lemmas of `AutogradLocal*.lean` at every node, the value of
every program moves with the forward tangent `tangent` — unconditionally for programs over the algebraic operators, and
for arbitrary programs given local correctness of their `Exp`/`Log`/`Jinvp` nodes (`TransSpec`).  Together with
`backprop_adjoint_aux` this yields the exact-gradient theorems.
-/
set_option linter.unusedSimpArgs false
set_option linter.unusedVariables false
namespace PP.AD
open PP

/-- a curve of stored values of type `ty` that is valid at `t = 0` and moves with tangent `τ` -/
def CurveOK (ty : Ty) (γ : ℝ → DVec ℝ) (τ : DVec ℝ) : Prop :=
  match ty with
  | .G g => GTangent g γ τ ∧ UnitQ g (γ 0) ∧ ScalePos g (γ 0) ∧ τ.length = g.adim
  | .V n => LCurve n γ τ ∧ (∀ t, (γ t).length = n) ∧ τ.length = n

/-- offset of the quaternion block in the storage of a group element -/
def qoff (g : Grp) : Nat := match g with | .SO3 | .RxSO3 => 0 | .SE3 | .Sim3 => 3

theorem unitQ_iff (g : Grp) (X : DVec ℝ) : UnitQ g X ↔ (qt X (qoff g)).normSq = 1 := by cases g <;> rfl

theorem qt_mulF (g : Grp) (X Y : DVec ℝ) : qt (mulF g X Y) (qoff g) = (qt X (qoff g)).mul (qt Y (qoff g)) := by
  cases g <;> simp [mulF, qoff, SE3Mul, RxSO3Mul, Sim3Mul, SE3.toList, RxSO3.toList, Sim3.toList, Quat.toList, Vec3.toList,
    qt, toSE3, toRx, toSim]

theorem qt_invF (g : Grp) (X : DVec ℝ) : qt (invF g X) (qoff g) = (qt X (qoff g)).conj := by
  cases g <;> simp [invF, qoff, SE3Inv, RxSO3Inv, Sim3Inv, SE3.toList, RxSO3.toList, Sim3.toList, Quat.toList, Vec3.toList,
    qt, toSE3, toRx, toSim]

theorem unitQ_mulF (g : Grp) (X Y : DVec ℝ) (hX : UnitQ g X) (hY : UnitQ g Y) : UnitQ g (mulF g X Y) := by
  rw [unitQ_iff] at *; rw [qt_mulF, Quat.normSq_mul, hX, hY]; norm_num

theorem unitQ_invF (g : Grp) (X : DVec ℝ) (hX : UnitQ g X) : UnitQ g (invF g X) := by
  rw [unitQ_iff] at *; rw [qt_invF, Quat.normSq_conj, hX]

theorem scaleNZ_mulF (g : Grp) (X Y : DVec ℝ) (hX : ScaleNZ g X) (hY : ScaleNZ g Y) : ScaleNZ g (mulF g X Y) := by
  cases g <;> simp only [ScaleNZ] at hX hY ⊢ <;>
    simp [mulF, RxSO3Mul, Sim3Mul, RxSO3.toList, Sim3.toList, Quat.toList, Vec3.toList, toRx, toSim, hX, hY]

theorem scaleNZ_invF (g : Grp) (X : DVec ℝ) (hX : ScaleNZ g X) : ScaleNZ g (invF g X) := by
  cases g <;> simp only [ScaleNZ] at hX ⊢ <;>
    simp [invF, RxSO3Inv, Sim3Inv, RxSO3.toList, Sim3.toList, Quat.toList, Vec3.toList, toRx, toSim, hX]

theorem scalePos_mulF (g : Grp) (X Y : DVec ℝ) (hX : ScalePos g X) (hY : ScalePos g Y) : ScalePos g (mulF g X Y) := by
  cases g <;> simp only [ScalePos] at hX hY ⊢ <;>
    simp [mulF, RxSO3Mul, Sim3Mul, RxSO3.toList, Sim3.toList, Quat.toList, Vec3.toList, toRx, toSim, hX, hY, mul_pos]

theorem scalePos_invF (g : Grp) (X : DVec ℝ) (hX : ScalePos g X) : ScalePos g (invF g X) := by
  cases g <;> simp only [ScalePos] at hX ⊢ <;>
    simp [invF, RxSO3Inv, Sim3Inv, RxSO3.toList, Sim3.toList, Quat.toList, Vec3.toList, toRx, toSim, hX]

/-! ## the local lemmas for lists of the right length (all groups at once) -/
theorem expand3 (l : DVec ℝ) (h : l.length = 3) : [nth l 0, nth l 1, nth l 2] = l := by
  obtain ⟨a0, a1, a2, rfl⟩ := len3 l h
  simp

theorem expand4 (l : DVec ℝ) (h : l.length = 4) : [nth l 0, nth l 1, nth l 2, nth l 3] = l := by
  obtain ⟨a0, a1, a2, a3, rfl⟩ := len4 l h
  simp

theorem expand6 (l : DVec ℝ) (h : l.length = 6) : [nth l 0, nth l 1, nth l 2, nth l 3, nth l 4, nth l 5] = l := by
  obtain ⟨a0, a1, a2, a3, a4, a5, rfl⟩ := len6 l h
  simp

theorem expand7 (l : DVec ℝ) (h : l.length = 7) : [nth l 0, nth l 1, nth l 2, nth l 3, nth l 4, nth l 5, nth l 6] = l := by
  obtain ⟨a0, a1, a2, a3, a4, a5, a6, rfl⟩ := len7 l h
  simp

theorem mul_tangent (g : Grp) (X Y : ℝ → DVec ℝ) (τx τy : DVec ℝ) (hx : τx.length = g.adim) (hy : τy.length = g.adim)
    (hX : GTangent g X τx) (hY : GTangent g Y τy) (hu : UnitQ g (X 0)) :
    GTangent g (fun t => mulF g (X t) (Y t)) (DVec.add τx ((AdjMat g (X 0)).mulVec τy)) := by
  cases g
  · obtain ⟨a0, a1, a2, rfl⟩ := len3 τx hx
    obtain ⟨b0, b1, b2, rfl⟩ := len3 τy hy
    exact mul_tangent_SO3 X Y a0 a1 a2 b0 b1 b2 hX hY hu
  · obtain ⟨a0, a1, a2, a3, a4, a5, rfl⟩ := len6 τx hx
    obtain ⟨b0, b1, b2, b3, b4, b5, rfl⟩ := len6 τy hy
    exact mul_tangent_SE3 X Y a0 a1 a2 a3 a4 a5 b0 b1 b2 b3 b4 b5 hX hY hu
  · obtain ⟨a0, a1, a2, a3, rfl⟩ := len4 τx hx
    obtain ⟨b0, b1, b2, b3, rfl⟩ := len4 τy hy
    exact mul_tangent_RxSO3 X Y a0 a1 a2 a3 b0 b1 b2 b3 hX hY hu
  · obtain ⟨a0, a1, a2, a3, a4, a5, a6, rfl⟩ := len7 τx hx
    obtain ⟨b0, b1, b2, b3, b4, b5, b6, rfl⟩ := len7 τy hy
    exact mul_tangent_Sim3 X Y a0 a1 a2 a3 a4 a5 a6 b0 b1 b2 b3 b4 b5 b6 hX hY hu

theorem inv_tangent (g : Grp) (X : ℝ → DVec ℝ) (τ : DVec ℝ) (hx : τ.length = g.adim)
    (hX : GTangent g X τ) (hu : UnitQ g (X 0)) (hs : ScaleNZ g (X 0)) :
    GTangent g (fun t => invF g (X t)) (DVec.neg ((AdjMat g (invF g (X 0))).mulVec τ)) := by
  cases g
  · obtain ⟨a0, a1, a2, rfl⟩ := len3 τ hx
    exact inv_tangent_SO3 X a0 a1 a2 hX hu
  · obtain ⟨a0, a1, a2, a3, a4, a5, rfl⟩ := len6 τ hx
    exact inv_tangent_SE3 X a0 a1 a2 a3 a4 a5 hX hu
  · obtain ⟨a0, a1, a2, a3, rfl⟩ := len4 τ hx
    exact inv_tangent_RxSO3 X a0 a1 a2 a3 hX hu hs
  · obtain ⟨a0, a1, a2, a3, a4, a5, a6, rfl⟩ := len7 τ hx
    exact inv_tangent_Sim3 X a0 a1 a2 a3 a4 a5 a6 hX hu hs

theorem act_tangent (g : Grp) (X p : ℝ → DVec ℝ) (τ dp : DVec ℝ) (hx : τ.length = g.adim) (hp' : dp.length = 3)
    (hX : GTangent g X τ) (hp : LCurve 3 p dp) (hu : UnitQ g (X 0)) :
    LCurve 3 (fun t => actF g (X t) (p t))
      (DVec.add ((ActJac g (v3 (actF g (X 0) (p 0)))).mulVec τ) (DMat.mulVec (Mat33 g (X 0)).toRows dp)) := by
  obtain ⟨b0, b1, b2, rfl⟩ := len3 dp hp'
  cases g
  · obtain ⟨a0, a1, a2, rfl⟩ := len3 τ hx
    exact act_tangent_SO3 X p a0 a1 a2 b0 b1 b2 hX hp hu
  · obtain ⟨a0, a1, a2, a3, a4, a5, rfl⟩ := len6 τ hx
    exact act_tangent_SE3 X p a0 a1 a2 a3 a4 a5 b0 b1 b2 hX hp hu
  · obtain ⟨a0, a1, a2, a3, rfl⟩ := len4 τ hx
    exact act_tangent_RxSO3 X p a0 a1 a2 a3 b0 b1 b2 hX hp hu
  · obtain ⟨a0, a1, a2, a3, a4, a5, a6, rfl⟩ := len7 τ hx
    exact act_tangent_Sim3 X p a0 a1 a2 a3 a4 a5 a6 b0 b1 b2 hX hp hu

theorem act4_tangent (g : Grp) (X p : ℝ → DVec ℝ) (τ dp : DVec ℝ) (hx : τ.length = g.adim) (hp' : dp.length = 4)
    (hX : GTangent g X τ) (hp : LCurve 4 p dp) (hu : UnitQ g (X 0)) :
    LCurve 4 (fun t => act4F g (X t) (p t))
      (DVec.add ((Act4Jac g (v3 (act4F g (X 0) (p 0))) (nth (act4F g (X 0) (p 0)) 3)).mulVec τ) ((Mat44 g (X 0)).mulVec dp)) := by
  obtain ⟨b0, b1, b2, b3, rfl⟩ := len4 dp hp'
  cases g
  · obtain ⟨a0, a1, a2, rfl⟩ := len3 τ hx
    exact act4_tangent_SO3 X p a0 a1 a2 b0 b1 b2 b3 hX hp hu
  · obtain ⟨a0, a1, a2, a3, a4, a5, rfl⟩ := len6 τ hx
    exact act4_tangent_SE3 X p a0 a1 a2 a3 a4 a5 b0 b1 b2 b3 hX hp hu
  · obtain ⟨a0, a1, a2, a3, rfl⟩ := len4 τ hx
    exact act4_tangent_RxSO3 X p a0 a1 a2 a3 b0 b1 b2 b3 hX hp hu
  · obtain ⟨a0, a1, a2, a3, a4, a5, a6, rfl⟩ := len7 τ hx
    exact act4_tangent_Sim3 X p a0 a1 a2 a3 a4 a5 a6 b0 b1 b2 b3 hX hp hu

theorem adj_tangent (g : Grp) (X a : ℝ → DVec ℝ) (τ da : DVec ℝ) (hx : τ.length = g.adim) (hd : da.length = g.adim)
    (hl : ∀ t, (a t).length = g.adim) (hX : GTangent g X τ) (ha : LCurve g.adim a da) (hu : UnitQ g (X 0)) :
    LCurve g.adim (fun t => adjF g (X t) (a t))
      (DVec.add (DVec.neg ((adMat g (adjF g (X 0) (a 0))).mulVec τ)) ((AdjMat g (X 0)).mulVec da)) := by
  cases g
  · obtain ⟨a0, a1, a2, rfl⟩ := len3 τ hx
    obtain ⟨b0, b1, b2, rfl⟩ := len3 da hd
    have e : (fun t => adjF .SO3 (X t) (a t)) = fun t => adjF .SO3 (X t) [nth (a t) 0, nth (a t) 1, nth (a t) 2] := by
      funext t; rw [expand3 (a t) (hl t)]
    have e0 : a 0 = [nth (a 0) 0, nth (a 0) 1, nth (a 0) 2] := (expand3 (a 0) (hl 0)).symm
    rw [e, e0]
    have := adj_tangent_SO3 X (fun t => nth (a t) 0) (fun t => nth (a t) 1) (fun t => nth (a t) 2) a0 a1 a2 b0 b1 b2 hX (by simpa using ha 0 (by simp [Grp.adim])) (by simpa using ha 1 (by simp [Grp.adim])) (by simpa using ha 2 (by simp [Grp.adim])) hu
    exact this
  · obtain ⟨a0, a1, a2, a3, a4, a5, rfl⟩ := len6 τ hx
    obtain ⟨b0, b1, b2, b3, b4, b5, rfl⟩ := len6 da hd
    have e : (fun t => adjF .SE3 (X t) (a t)) = fun t => adjF .SE3 (X t) [nth (a t) 0, nth (a t) 1, nth (a t) 2, nth (a t) 3, nth (a t) 4, nth (a t) 5] := by
      funext t; rw [expand6 (a t) (hl t)]
    have e0 : a 0 = [nth (a 0) 0, nth (a 0) 1, nth (a 0) 2, nth (a 0) 3, nth (a 0) 4, nth (a 0) 5] := (expand6 (a 0) (hl 0)).symm
    rw [e, e0]
    have := adj_tangent_SE3 X (fun t => nth (a t) 0) (fun t => nth (a t) 1) (fun t => nth (a t) 2) (fun t => nth (a t) 3) (fun t => nth (a t) 4) (fun t => nth (a t) 5) a0 a1 a2 a3 a4 a5 b0 b1 b2 b3 b4 b5 hX (by simpa using ha 0 (by simp [Grp.adim])) (by simpa using ha 1 (by simp [Grp.adim])) (by simpa using ha 2 (by simp [Grp.adim])) (by simpa using ha 3 (by simp [Grp.adim])) (by simpa using ha 4 (by simp [Grp.adim])) (by simpa using ha 5 (by simp [Grp.adim])) hu
    exact this
  · obtain ⟨a0, a1, a2, a3, rfl⟩ := len4 τ hx
    obtain ⟨b0, b1, b2, b3, rfl⟩ := len4 da hd
    have e : (fun t => adjF .RxSO3 (X t) (a t)) = fun t => adjF .RxSO3 (X t) [nth (a t) 0, nth (a t) 1, nth (a t) 2, nth (a t) 3] := by
      funext t; rw [expand4 (a t) (hl t)]
    have e0 : a 0 = [nth (a 0) 0, nth (a 0) 1, nth (a 0) 2, nth (a 0) 3] := (expand4 (a 0) (hl 0)).symm
    rw [e, e0]
    have := adj_tangent_RxSO3 X (fun t => nth (a t) 0) (fun t => nth (a t) 1) (fun t => nth (a t) 2) (fun t => nth (a t) 3) a0 a1 a2 a3 b0 b1 b2 b3 hX (by simpa using ha 0 (by simp [Grp.adim])) (by simpa using ha 1 (by simp [Grp.adim])) (by simpa using ha 2 (by simp [Grp.adim])) (by simpa using ha 3 (by simp [Grp.adim])) hu
    exact this
  · obtain ⟨a0, a1, a2, a3, a4, a5, a6, rfl⟩ := len7 τ hx
    obtain ⟨b0, b1, b2, b3, b4, b5, b6, rfl⟩ := len7 da hd
    have e : (fun t => adjF .Sim3 (X t) (a t)) = fun t => adjF .Sim3 (X t) [nth (a t) 0, nth (a t) 1, nth (a t) 2, nth (a t) 3, nth (a t) 4, nth (a t) 5, nth (a t) 6] := by
      funext t; rw [expand7 (a t) (hl t)]
    have e0 : a 0 = [nth (a 0) 0, nth (a 0) 1, nth (a 0) 2, nth (a 0) 3, nth (a 0) 4, nth (a 0) 5, nth (a 0) 6] := (expand7 (a 0) (hl 0)).symm
    rw [e, e0]
    have := adj_tangent_Sim3 X (fun t => nth (a t) 0) (fun t => nth (a t) 1) (fun t => nth (a t) 2) (fun t => nth (a t) 3) (fun t => nth (a t) 4) (fun t => nth (a t) 5) (fun t => nth (a t) 6) a0 a1 a2 a3 a4 a5 a6 b0 b1 b2 b3 b4 b5 b6 hX (by simpa using ha 0 (by simp [Grp.adim])) (by simpa using ha 1 (by simp [Grp.adim])) (by simpa using ha 2 (by simp [Grp.adim])) (by simpa using ha 3 (by simp [Grp.adim])) (by simpa using ha 4 (by simp [Grp.adim])) (by simpa using ha 5 (by simp [Grp.adim])) (by simpa using ha 6 (by simp [Grp.adim])) hu
    exact this

theorem adjT_tangent (g : Grp) (X a : ℝ → DVec ℝ) (τ da : DVec ℝ) (hx : τ.length = g.adim) (hd : da.length = g.adim)
    (hl : ∀ t, (a t).length = g.adim) (hX : GTangent g X τ) (ha : LCurve g.adim a da) (hu : UnitQ g (X 0)) (hs : ScaleNZ g (X 0)) :
    LCurve g.adim (fun t => adjTF g (X t) (a t))
      (DVec.add ((AdjMat g (invF g (X 0))).mulVec ((adMat g (a 0)).mulVec τ)) ((AdjMat g (invF g (X 0))).mulVec da)) := by
  cases g
  · obtain ⟨a0, a1, a2, rfl⟩ := len3 τ hx
    obtain ⟨b0, b1, b2, rfl⟩ := len3 da hd
    have e : (fun t => adjTF .SO3 (X t) (a t)) = fun t => adjTF .SO3 (X t) [nth (a t) 0, nth (a t) 1, nth (a t) 2] := by
      funext t; rw [expand3 (a t) (hl t)]
    have e0 : a 0 = [nth (a 0) 0, nth (a 0) 1, nth (a 0) 2] := (expand3 (a 0) (hl 0)).symm
    rw [e, e0]
    have := adjT_tangent_SO3 X (fun t => nth (a t) 0) (fun t => nth (a t) 1) (fun t => nth (a t) 2) a0 a1 a2 b0 b1 b2 hX (by simpa using ha 0 (by simp [Grp.adim])) (by simpa using ha 1 (by simp [Grp.adim])) (by simpa using ha 2 (by simp [Grp.adim])) hu
    exact this
  · obtain ⟨a0, a1, a2, a3, a4, a5, rfl⟩ := len6 τ hx
    obtain ⟨b0, b1, b2, b3, b4, b5, rfl⟩ := len6 da hd
    have e : (fun t => adjTF .SE3 (X t) (a t)) = fun t => adjTF .SE3 (X t) [nth (a t) 0, nth (a t) 1, nth (a t) 2, nth (a t) 3, nth (a t) 4, nth (a t) 5] := by
      funext t; rw [expand6 (a t) (hl t)]
    have e0 : a 0 = [nth (a 0) 0, nth (a 0) 1, nth (a 0) 2, nth (a 0) 3, nth (a 0) 4, nth (a 0) 5] := (expand6 (a 0) (hl 0)).symm
    rw [e, e0]
    have := adjT_tangent_SE3 X (fun t => nth (a t) 0) (fun t => nth (a t) 1) (fun t => nth (a t) 2) (fun t => nth (a t) 3) (fun t => nth (a t) 4) (fun t => nth (a t) 5) a0 a1 a2 a3 a4 a5 b0 b1 b2 b3 b4 b5 hX (by simpa using ha 0 (by simp [Grp.adim])) (by simpa using ha 1 (by simp [Grp.adim])) (by simpa using ha 2 (by simp [Grp.adim])) (by simpa using ha 3 (by simp [Grp.adim])) (by simpa using ha 4 (by simp [Grp.adim])) (by simpa using ha 5 (by simp [Grp.adim])) hu
    exact this
  · obtain ⟨a0, a1, a2, a3, rfl⟩ := len4 τ hx
    obtain ⟨b0, b1, b2, b3, rfl⟩ := len4 da hd
    have e : (fun t => adjTF .RxSO3 (X t) (a t)) = fun t => adjTF .RxSO3 (X t) [nth (a t) 0, nth (a t) 1, nth (a t) 2, nth (a t) 3] := by
      funext t; rw [expand4 (a t) (hl t)]
    have e0 : a 0 = [nth (a 0) 0, nth (a 0) 1, nth (a 0) 2, nth (a 0) 3] := (expand4 (a 0) (hl 0)).symm
    rw [e, e0]
    have := adjT_tangent_RxSO3 X (fun t => nth (a t) 0) (fun t => nth (a t) 1) (fun t => nth (a t) 2) (fun t => nth (a t) 3) a0 a1 a2 a3 b0 b1 b2 b3 hX (by simpa using ha 0 (by simp [Grp.adim])) (by simpa using ha 1 (by simp [Grp.adim])) (by simpa using ha 2 (by simp [Grp.adim])) (by simpa using ha 3 (by simp [Grp.adim])) hu hs
    exact this
  · obtain ⟨a0, a1, a2, a3, a4, a5, a6, rfl⟩ := len7 τ hx
    obtain ⟨b0, b1, b2, b3, b4, b5, b6, rfl⟩ := len7 da hd
    have e : (fun t => adjTF .Sim3 (X t) (a t)) = fun t => adjTF .Sim3 (X t) [nth (a t) 0, nth (a t) 1, nth (a t) 2, nth (a t) 3, nth (a t) 4, nth (a t) 5, nth (a t) 6] := by
      funext t; rw [expand7 (a t) (hl t)]
    have e0 : a 0 = [nth (a 0) 0, nth (a 0) 1, nth (a 0) 2, nth (a 0) 3, nth (a 0) 4, nth (a 0) 5, nth (a 0) 6] := (expand7 (a 0) (hl 0)).symm
    rw [e, e0]
    have := adjT_tangent_Sim3 X (fun t => nth (a t) 0) (fun t => nth (a t) 1) (fun t => nth (a t) 2) (fun t => nth (a t) 3) (fun t => nth (a t) 4) (fun t => nth (a t) 5) (fun t => nth (a t) 6) a0 a1 a2 a3 a4 a5 a6 b0 b1 b2 b3 b4 b5 b6 hX (by simpa using ha 0 (by simp [Grp.adim])) (by simpa using ha 1 (by simp [Grp.adim])) (by simpa using ha 2 (by simp [Grp.adim])) (by simpa using ha 3 (by simp [Grp.adim])) (by simpa using ha 4 (by simp [Grp.adim])) (by simpa using ha 5 (by simp [Grp.adim])) (by simpa using ha 6 (by simp [Grp.adim])) hu hs
    exact this

theorem matrix_tangent (g : Grp) (X : ℝ → DVec ℝ) (τ : DVec ℝ) (hx : τ.length = g.adim)
    (hX : GTangent g X τ) (hu : UnitQ g (X 0)) :
    LCurve (matN g) (fun t => matrixF g (X t)) (matrixT g (X 0) τ) := by
  cases g
  · obtain ⟨a0, a1, a2, rfl⟩ := len3 τ hx
    exact matrix_tangent_SO3 X a0 a1 a2 hX hu
  · obtain ⟨a0, a1, a2, a3, a4, a5, rfl⟩ := len6 τ hx
    exact matrix_tangent_SE3 X a0 a1 a2 a3 a4 a5 hX hu
  · obtain ⟨a0, a1, a2, a3, rfl⟩ := len4 τ hx
    exact matrix_tangent_RxSO3 X a0 a1 a2 a3 hX hu
  · obtain ⟨a0, a1, a2, a3, a4, a5, a6, rfl⟩ := len7 τ hx
    exact matrix_tangent_Sim3 X a0 a1 a2 a3 a4 a5 a6 hX hu


/-! ## all programs over the algebraic operators: the forward tangent is the true derivative -/

/-- programs over `{Inv, Mul, Act, Act4, Adj, AdjT, matrix()}` (no `Exp`, `Log`, `Jinvp` node) -/
def Prog.algebraic : Prog → Bool
  | .leaf _ => true
  | .un o _ p => (match o with | .Inv | .Matrix => true | _ => false) && p.algebraic
  | .bin o _ p q => (match o with | .Jinvp => false | _ => true) && p.algebraic && q.algebraic

theorem curveOK_G {g : Grp} {γ : ℝ → DVec ℝ} {τ : DVec ℝ} :
    CurveOK (.G g) γ τ ↔ (GTangent g γ τ ∧ UnitQ g (γ 0) ∧ ScalePos g (γ 0) ∧ τ.length = g.adim) := Iff.rfl
theorem curveOK_V {n : Nat} {γ : ℝ → DVec ℝ} {τ : DVec ℝ} :
    CurveOK (.V n) γ τ ↔ (LCurve n γ τ ∧ (∀ t, (γ t).length = n) ∧ τ.length = n) := Iff.rfl

/-- the statement "this node's value moves with the forward tangent" -/
def NodeOK (dJ : DJ ℝ) (eps : ℝ) (lt : List Ty) (env : ℝ → List (DVec ℝ)) (tan : List (DVec ℝ)) (p : Prog) : Prop :=
  ∀ ty, tyOf lt p = some ty → CurveOK ty (fun s => eval eps (env s) p) (tangent dJ eps (env 0) tan p)

/-- hypothesis of the partial chain rule: local correctness of the transcendental nodes (`Exp`, `Log`, `Jinvp`) of `p`,
each at its own position in the program -/
def TransSpec (dJ : DJ ℝ) (eps : ℝ) (lt : List Ty) (env : ℝ → List (DVec ℝ)) (tan : List (DVec ℝ)) : Prog → Prop
  | .leaf _ => True
  | .un o g p => TransSpec dJ eps lt env tan p ∧
      (match o with
       | .Exp | .Log => NodeOK dJ eps lt env tan (.un o g p)
       | _ => True)
  | .bin o g p q => TransSpec dJ eps lt env tan p ∧ TransSpec dJ eps lt env tan q ∧
      (match o with
       | .Jinvp => NodeOK dJ eps lt env tan (.bin o g p q)
       | _ => True)

theorem eval_tangent_of_transSpec (dJ : DJ ℝ) (eps : ℝ) (lt : List Ty) (env : ℝ → List (DVec ℝ)) (tan : List (DVec ℝ))
    (hleaf : ∀ i t, lt[i]? = some t → CurveOK t (fun s => (env s).getD i []) (tan.getD i []))
    (p : Prog) (hT : TransSpec dJ eps lt env tan p) :
    ∀ ty, tyOf lt p = some ty → CurveOK ty (fun s => eval eps (env s) p) (tangent dJ eps (env 0) tan p) := by
  induction p with
  | leaf i =>
    intro ty hty
    simpa [eval, tangent] using hleaf i ty hty
  | un o g p ih =>
    intro ty hty
    simp only [TransSpec] at hT
    obtain ⟨hpa, ho⟩ := hT
    have hty0 := hty
    simp only [tyOf] at hty
    cases hpt : tyOf lt p with
    | none => simp [hpt] at hty
    | some t =>
      simp only [hpt, Option.bind_some] at hty
      have IH := ih hpa t hpt
      cases o with
      | Exp => exact ho ty hty0
      | Log => exact ho ty hty0
      | Inv =>
        simp only [ty1] at hty
        split at hty <;> simp at hty
        rename_i ht; subst ht; subst hty
        obtain ⟨hX, hu, hs, hτ⟩ := curveOK_G.mp IH
        refine curveOK_G.mpr ⟨?_, ?_, ?_, ?_⟩
        · exact inv_tangent g _ _ hτ hX hu (scalePos_nz hs)
        · exact unitQ_invF g _ hu
        · exact scalePos_invF g _ hs
        · simp only [tangent, jvp1, length_dneg, length_mulVec _ (Shape_AdjMat g _)]
      | Matrix =>
        simp only [ty1] at hty
        split at hty <;> simp at hty
        rename_i ht; subst ht; subst hty
        obtain ⟨hX, hu, hs, hτ⟩ := curveOK_G.mp IH
        refine curveOK_V.mpr ⟨?_, ?_, ?_⟩
        · exact matrix_tangent g _ _ hτ hX hu
        · intro t; simp only [eval, fwd1]; exact length_matrixF g _
        · simp only [tangent, jvp1]; exact length_matrixT g _ _
  | bin o g p q ihp ihq =>
    intro ty hty
    simp only [TransSpec] at hT
    obtain ⟨hpa, hqa, ho⟩ := hT
    have hty0 := hty
    simp only [tyOf] at hty
    cases hpt : tyOf lt p with
    | none => simp [hpt] at hty
    | some t =>
      cases hqt : tyOf lt q with
      | none => simp [hpt, hqt] at hty
      | some t' =>
        simp only [hpt, hqt, Option.bind_some] at hty
        have IHp := ihp hpa t hpt
        have IHq := ihq hqa t' hqt
        cases o with
        | Jinvp => exact ho ty hty0
        | Mul =>
          simp only [ty2] at hty
          split at hty <;> simp at hty
          rename_i ht; obtain ⟨h1, h2⟩ := ht; subst h1; subst h2; subst hty
          obtain ⟨hX, hu, hs, hτ⟩ := curveOK_G.mp IHp
          obtain ⟨hY, hu', hs', hτ'⟩ := curveOK_G.mp IHq
          refine curveOK_G.mpr ⟨?_, ?_, ?_, ?_⟩
          · exact mul_tangent g _ _ _ _ hτ hτ' hX hY hu
          · exact unitQ_mulF g _ _ hu hu'
          · exact scalePos_mulF g _ _ hs hs'
          · simp only [tangent, jvp2]
            rw [length_dadd _ _ (by rw [hτ, length_mulVec _ (Shape_AdjMat g _)]), hτ]
        | Act =>
          simp only [ty2] at hty
          split at hty <;> simp at hty
          rename_i ht; obtain ⟨h1, h2⟩ := ht; subst h1; subst h2; subst hty
          obtain ⟨hX, hu, hs, hτ⟩ := curveOK_G.mp IHp
          obtain ⟨hP, hl, hτ'⟩ := curveOK_V.mp IHq
          refine curveOK_V.mpr ⟨?_, ?_, ?_⟩
          · exact act_tangent g _ _ _ _ hτ hτ' hX hP hu
          · intro t; simp only [eval, fwd2]; exact length_actF g _ _
          · simp only [tangent, jvp2]
            rw [length_dadd _ _ (by rw [length_mulVec _ (Shape_ActJac g _), length_mulVec _ (Shape_toRows _)]),
              length_mulVec _ (Shape_ActJac g _)]
        | Act4 =>
          simp only [ty2] at hty
          split at hty <;> simp at hty
          rename_i ht; obtain ⟨h1, h2⟩ := ht; subst h1; subst h2; subst hty
          obtain ⟨hX, hu, hs, hτ⟩ := curveOK_G.mp IHp
          obtain ⟨hP, hl, hτ'⟩ := curveOK_V.mp IHq
          refine curveOK_V.mpr ⟨?_, ?_, ?_⟩
          · exact act4_tangent g _ _ _ _ hτ hτ' hX hP hu
          · intro t; simp only [eval, fwd2]; exact length_act4F g _ _
          · simp only [tangent, jvp2]
            rw [length_dadd _ _ (by rw [length_mulVec _ (Shape_Act4Jac g _ _), length_mulVec _ (Shape_Mat44 _ _)]),
              length_mulVec _ (Shape_Act4Jac g _ _)]
        | Adj =>
          simp only [ty2] at hty
          split at hty <;> simp at hty
          rename_i ht; obtain ⟨h1, h2⟩ := ht; subst h1; subst h2; subst hty
          obtain ⟨hX, hu, hs, hτ⟩ := curveOK_G.mp IHp
          obtain ⟨hA, hl, hτ'⟩ := curveOK_V.mp IHq
          refine curveOK_V.mpr ⟨?_, ?_, ?_⟩
          · exact adj_tangent g _ _ _ _ hτ hτ' hl hX hA hu
          · intro t; simp only [eval, fwd2]; exact length_adjF g _ _
          · simp only [tangent, jvp2]
            rw [length_dadd _ _ (by rw [length_dneg, length_mulVec _ (Shape_adMat g _), length_mulVec _ (Shape_AdjMat g _)]),
              length_dneg, length_mulVec _ (Shape_adMat g _)]
        | AdjT =>
          simp only [ty2] at hty
          split at hty <;> simp at hty
          rename_i ht; obtain ⟨h1, h2⟩ := ht; subst h1; subst h2; subst hty
          obtain ⟨hX, hu, hs, hτ⟩ := curveOK_G.mp IHp
          obtain ⟨hA, hl, hτ'⟩ := curveOK_V.mp IHq
          refine curveOK_V.mpr ⟨?_, ?_, ?_⟩
          · exact adjT_tangent g _ _ _ _ hτ hτ' hl hX hA hu (scalePos_nz hs)
          · intro t; simp only [eval, fwd2]; exact length_adjTF g _ _
          · simp only [tangent, jvp2]
            rw [length_dadd _ _ (by rw [length_mulVec _ (Shape_AdjMat g _), length_mulVec _ (Shape_AdjMat g _)]),
              length_mulVec _ (Shape_AdjMat g _)]

theorem transSpec_of_algebraic (dJ : DJ ℝ) (eps : ℝ) (lt : List Ty) (env : ℝ → List (DVec ℝ)) (tan : List (DVec ℝ))
    (p : Prog) (hp : p.algebraic = true) : TransSpec dJ eps lt env tan p := by
  induction p with
  | leaf i => trivial
  | un o g p ih =>
    simp only [Prog.algebraic, Bool.and_eq_true] at hp
    obtain ⟨ho, hpa⟩ := hp
    refine ⟨ih hpa, ?_⟩
    cases o <;> simp at ho ⊢
  | bin o g p q ihp ihq =>
    simp only [Prog.algebraic, Bool.and_eq_true] at hp
    obtain ⟨⟨ho, hpa⟩, hqa⟩ := hp
    refine ⟨ihp hpa, ihq hqa, ?_⟩
    cases o <;> simp at ho ⊢

theorem eval_tangent_algebraic (dJ : DJ ℝ) (eps : ℝ) (lt : List Ty) (env : ℝ → List (DVec ℝ)) (tan : List (DVec ℝ))
    (hleaf : ∀ i t, lt[i]? = some t → CurveOK t (fun s => (env s).getD i []) (tan.getD i []))
    (p : Prog) (hp : p.algebraic = true) :
    ∀ ty, tyOf lt p = some ty → CurveOK ty (fun s => eval eps (env s) p) (tangent dJ eps (env 0) tan p) :=
  eval_tangent_of_transSpec dJ eps lt env tan hleaf p (transSpec_of_algebraic dJ eps lt env tan p hp)

theorem hasDerivAt_dot (n : Nat) : ∀ (c : DVec ℝ) (γ : ℝ → DVec ℝ) (d : DVec ℝ), (∀ t, (γ t).length = n) → d.length = n →
    LCurve n γ d → HasDerivAt (fun t => DVec.dot c (γ t)) (DVec.dot c d) 0 := by
  induction n with
  | zero =>
    intro c γ d hl hd _
    have : ∀ t, γ t = [] := fun t => List.eq_nil_of_length_eq_zero (hl t)
    have hd' : d = [] := List.eq_nil_of_length_eq_zero hd
    simp only [this, hd', ddot_nil_right]
    exact hasDerivAt_const _ _
  | succ n ih =>
    intro c γ d hl hd hc
    cases c with
    | nil => simp only [ddot_nil_left]; exact hasDerivAt_const _ _
    | cons c0 c' =>
      cases d with
      | nil => simp at hd
      | cons d0 d' =>
        have hγ : ∀ t, γ t = nth (γ t) 0 :: (γ t).tail := by
          intro t
          have := hl t
          cases h : γ t with
          | nil => rw [h] at this; simp at this
          | cons a l => simp
        have e : (fun t => DVec.dot (c0 :: c') (γ t)) = fun t => c0 * nth (γ t) 0 + DVec.dot c' ((γ t).tail) := by
          funext t
          conv_lhs => rw [hγ t]
          simp
        rw [e, ddot_cons]
        have h0 := hc 0 (Nat.succ_pos n)
        simp only [nth_cons_zero] at h0
        have htail : LCurve n (fun t => (γ t).tail) d' := by
          intro i hi
          have := hc (i+1) (Nat.succ_lt_succ hi)
          simp only [nth_cons_succ] at this
          have e2 : (fun t => nth ((γ t).tail) i) = fun t => nth (γ t) (i+1) := by
            funext t
            conv_rhs => rw [hγ t]
            simp
          rw [e2]; exact this
        exact (h0.const_mul c0).add (ih c' (fun t => (γ t).tail) d' (fun t => by simp [hl t]) (by simpa using hd) htail)

/-- **Exact gradients for every program over the algebraic operators.**  Let the leaves move along arbitrary curves —
group leaves with left-perturbation tangents `tan[i]` (e.g. `Exp(t·τᵢ)·Xᵢ`), algebra / Euclidean leaves with ordinary
velocities — all at once.  Then for every well-typed program `p` over `{Inv, @, Act (3- and 4-vectors), Adj, AdjT,
matrix()}` with vector-valued output, of any depth and with any sharing of leaves, and every cotangent `c`:

  `d/dt ⟨c, p(leaves(t))⟩ |_{t=0}  =  Σ_leaves ⟨contribution of the reverse sweep, tan[i]⟩`.

Choosing `tan` = a basis vector at one leaf and `0` elsewhere reads off every entry of `.grad`: the first
manifold-dimension slots of the gradient of a group leaf are the left-perturbation Jacobian, Euclidean leaves get the
ordinary Jacobian. -/
theorem alg_program_gradient_exact (dJ : DJ ℝ) (hdJ : DJShape dJ) (eps : ℝ) (lt : List Ty) (env : ℝ → List (DVec ℝ))
    (tan : List (DVec ℝ)) (hE : EnvOK lt (env 0) tan)
    (hleaf : ∀ i t, lt[i]? = some t → CurveOK t (fun s => (env s).getD i []) (tan.getD i []))
    (p : Prog) (hp : p.algebraic = true) (n : Nat) (hty : tyOf lt p = some (.V n)) (c : DVec ℝ) (hc : c.length = n) :
    HasDerivAt (fun s => DVec.dot c (eval eps (env s) p)) (pairSum tan (backprop dJ eps (env 0) p c)) 0 := by
  obtain ⟨hL, hl, hτ⟩ := curveOK_V.mp (eval_tangent_algebraic dJ eps lt env tan hleaf p hp (.V n) hty)
  rw [(backprop_adjoint_aux dJ hdJ eps lt (env 0) tan hE p (.V n) c hty hc).1]
  exact hasDerivAt_dot n c _ _ hl hτ hL

/-- the same for arbitrary programs, *given* local correctness of their `Exp` / `Log` / `Jinvp` nodes (`TransSpec`) -/
theorem program_gradient_exact_of_transSpec (dJ : DJ ℝ) (hdJ : DJShape dJ) (eps : ℝ) (lt : List Ty) (env : ℝ → List (DVec ℝ))
    (tan : List (DVec ℝ)) (hE : EnvOK lt (env 0) tan)
    (hleaf : ∀ i t, lt[i]? = some t → CurveOK t (fun s => (env s).getD i []) (tan.getD i []))
    (p : Prog) (hT : TransSpec dJ eps lt env tan p) (n : Nat) (hty : tyOf lt p = some (.V n)) (c : DVec ℝ) (hc : c.length = n) :
    HasDerivAt (fun s => DVec.dot c (eval eps (env s) p)) (pairSum tan (backprop dJ eps (env 0) p c)) 0 := by
  obtain ⟨hL, hl, hτ⟩ := curveOK_V.mp (eval_tangent_of_transSpec dJ eps lt env tan hleaf p hT (.V n) hty)
  rw [(backprop_adjoint_aux dJ hdJ eps lt (env 0) tan hE p (.V n) c hty hc).1]
  exact hasDerivAt_dot n c _ _ hl hτ hL

/-- local correctness of an `so3` `Exp` node on the closed-form branch, in the form needed by `TransSpec` -/
theorem so3_Exp_nodeOK (dJ : DJ ℝ) (eps : ℝ) (heps : 0 ≤ eps) (lt : List Ty) (env : ℝ → List (DVec ℝ)) (tan : List (DVec ℝ))
    (p : Prog) (hp : NodeOK dJ eps lt env tan p) (hth : eps < (v3 (eval eps (env 0) p)).norm) :
    NodeOK dJ eps lt env tan (.un .Exp .SO3 p) := by
  intro ty hty
  simp only [tyOf] at hty
  cases hpt : tyOf lt p with
  | none => simp [hpt] at hty
  | some t =>
    simp only [hpt, Option.bind_some, ty1] at hty
    split at hty <;> simp at hty
    rename_i ht; subst ht; subst hty
    obtain ⟨hL, hl, hτ⟩ := curveOK_V.mp (hp _ hpt)
    obtain ⟨d0, d1, d2, hd⟩ := len3 _ hτ
    refine curveOK_G.mpr ⟨?_, ?_, trivial, ?_⟩
    · have := so3Exp_tangent eps heps (fun s => eval eps (env s) p) d0 d1 d2 (by rw [← hd]; exact hL) hth
      simp only [tangent, jvp1, hd]
      exact this
    · show (qt (expF .SO3 eps (eval eps (env 0) p))).normSq = 1
      have := so3Exp_normSq_closed eps (v3 (eval eps (env 0) p)) heps hth
      simpa [expF, qt, Quat.toList] using this
    · simp only [tangent, jvp1, length_mulVec _ (Shape_JlMat .SO3 eps _)]
/-- local correctness of an `SO3` `Log` node in regime 1, in the form needed by `TransSpec` -/
theorem so3_Log_nodeOK (dJ : DJ ℝ) (eps : ℝ) (heps : 0 ≤ eps) (lt : List Ty) (env : ℝ → List (DVec ℝ)) (tan : List (DVec ℝ))
    (p : Prog) (hp : NodeOK dJ eps lt env tan p)
    (hv : eps < (qt (eval eps (env 0) p)).vec.norm) (hw : eps < |(qt (eval eps (env 0) p)).w|)
    (hφ : eps < (v3 (logF .SO3 eps (eval eps (env 0) p))).norm) :
    NodeOK dJ eps lt env tan (.un .Log .SO3 p) := by
  intro ty hty
  simp only [tyOf] at hty
  cases hpt : tyOf lt p with
  | none => simp [hpt] at hty
  | some t =>
    simp only [hpt, Option.bind_some, ty1] at hty
    split at hty <;> simp at hty
    rename_i ht; subst ht; subst hty
    obtain ⟨hX, hu, hs, hτ⟩ := curveOK_G.mp (hp _ hpt)
    obtain ⟨a0, a1, a2, ha⟩ := len3 _ hτ
    refine curveOK_V.mpr ⟨?_, ?_, ?_⟩
    · have := SO3Log_tangent eps heps (fun s => eval eps (env s) p) a0 a1 a2 (by rw [← ha]; exact hX) hu hv hw hφ
      simp only [tangent, jvp1, ha]
      exact this
    · intro t; simp only [eval, fwd1]; exact length_logF .SO3 eps _
    · simp only [tangent, jvp1, length_mulVec _ (Shape_JlInvMat .SO3 eps _)]

/-- **the true retraction has the tangent `liftG` describes** (`SO3`): `t ↦ so3_Exp(t·τ) @ X` — the curve along which
`X.grad` is defined — is a curve through `X` with left-perturbation tangent `τ`. -/
theorem retr_tangent_SO3 (eps : ℝ) (heps : 0 < eps) (X τ : DVec ℝ) (hX : X.length = 4) (hτ : τ.length = 3) :
    GTangent .SO3 (fun t => retrF .SO3 eps X [t * nth τ 0, t * nth τ 1, t * nth τ 2]) τ := by
  obtain ⟨a0, a1, a2, rfl⟩ := len3 τ hτ
  simp only [nth_cons_zero, nth_cons_succ]
  -- the algebra curve t ↦ t·τ through 0
  have hx : LCurve 3 (fun t : ℝ => [t * a0, t * a1, t * a2]) [a0, a1, a2] := by
    intro i hi
    interval_cases i
    · simpa using (hasDerivAt_id (0:ℝ)).mul_const a0
    · simpa using (hasDerivAt_id (0:ℝ)).mul_const a1
    · simpa using (hasDerivAt_id (0:ℝ)).mul_const a2
  have hE := so3Exp_tangent_zero eps heps (fun t : ℝ => [t * a0, t * a1, t * a2]) a0 a1 a2 hx (by simp [v3])
  -- Jl(0) = 1, Exp(0) = identity
  have hJ : (JlMat .SO3 eps ((fun t : ℝ => [t * a0, t * a1, t * a2]) 0)).mulVec [a0, a1, a2] = [a0, a1, a2] := by
    have h0 : ((fun t : ℝ => [t * a0, t * a1, t * a2]) 0) = DVec.zero (Grp.SO3).adim := by simp [DVec.zero, Grp.adim]
    rw [h0, JlMat_zero .SO3 eps (le_of_lt heps)]
    simp [DMat.one, DMat.mulVec, DVec.basis, Grp.adim, List.range, List.range.loop, ddot_cons]
  rw [hJ] at hE
  -- the constant curve X with zero tangent
  have hY : LCurve 4 (fun _ : ℝ => X) (liftG .SO3 X [0, 0, 0]) := by
    intro i hi
    have : nth (liftG .SO3 X [0, 0, 0]) i = 0 := by
      interval_cases i <;> simp [liftG, liftQ, Quat.toList, Quat.mul, Quat.mk', Vec3.smul, v3]
    rw [this]; exact hasDerivAt_const _ _
  have hval : expF .SO3 eps ((fun t : ℝ => [t * a0, t * a1, t * a2]) 0) = [0, 0, 0, 1] := by
    have h : ¬ eps < (v3 ([0 * a0, 0 * a1, 0 * a2] : DVec ℝ)).norm := by
      simp [v3, Vec3.norm, Vec3.normSq]; exact le_of_lt heps
    simp only [expF, so3Exp_taylor eps _ h]
    simp [Quat.mk', Vec3.smul, Quat.toList, Vec3.normSq, v3]
  have hu : (qt (expF .SO3 eps ((fun t : ℝ => [t * a0, t * a1, t * a2]) 0)) 0).normSq = 1 := by
    rw [hval]; simp [qt, Quat.normSq]
  have := mul_tangent_SO3 (fun t => expF .SO3 eps [t * a0, t * a1, t * a2]) (fun _ => X) a0 a1 a2 0 0 0 hE hY hu
  unfold GTangent retrF
  have e : DVec.add [a0, a1, a2] ((AdjMat .SO3 ((fun t => expF .SO3 eps [t * a0, t * a1, t * a2]) 0)).mulVec [0, 0, 0]) = [a0, a1, a2] := by
    simp [DVec.add, DMat.mulVec, AdjMat, Mat3.toRows, Vec3.toList, ddot_cons]
  rw [e] at this
  exact this

/-- local correctness of an `se3` `Exp` node on the closed-form branches, in the form needed by `TransSpec` -/
theorem se3_Exp_nodeOK (dJ : DJ ℝ) (eps : ℝ) (heps : 0 ≤ eps) (lt : List Ty) (env : ℝ → List (DVec ℝ)) (tan : List (DVec ℝ))
    (p : Prog) (hp : NodeOK dJ eps lt env tan p) (hth : eps < (v3 (eval eps (env 0) p) 3).norm)
    (hq : (5:ℝ)/100 < (v3 (eval eps (env 0) p) 3).norm) :
    NodeOK dJ eps lt env tan (.un .Exp .SE3 p) := by
  intro ty hty
  simp only [tyOf] at hty
  cases hpt : tyOf lt p with
  | none => simp [hpt] at hty
  | some t =>
    simp only [hpt, Option.bind_some, ty1] at hty
    split at hty <;> simp at hty
    rename_i ht; subst ht; subst hty
    obtain ⟨hL, hl, hτ⟩ := curveOK_V.mp (hp _ hpt)
    obtain ⟨d0, d1, d2, d3, d4, d5, hd⟩ := len6 _ hτ
    refine curveOK_G.mpr ⟨?_, ?_, trivial, ?_⟩
    · have := se3Exp_tangent eps heps (fun s => eval eps (env s) p) d0 d1 d2 d3 d4 d5 (by rw [← hd]; exact hL) hth hq
      simp only [tangent, jvp1, hd]
      exact this
    · show (qt (expF .SE3 eps (eval eps (env 0) p)) 3).normSq = 1
      have := so3Exp_normSq_closed eps (v3 (eval eps (env 0) p) 3) heps hth
      simpa [expF, se3Exp, SE3.toList, tose3, qt, Quat.toList, Vec3.toList] using this
    · simp only [tangent, jvp1, length_mulVec _ (Shape_JlMat .SE3 eps _)]

/-- local correctness of an `rxso3` `Exp` node on the closed-form branch -/
theorem rxso3_Exp_nodeOK (dJ : DJ ℝ) (eps : ℝ) (heps : 0 ≤ eps) (lt : List Ty) (env : ℝ → List (DVec ℝ)) (tan : List (DVec ℝ))
    (p : Prog) (hp : NodeOK dJ eps lt env tan p) (hth : eps < (v3 (eval eps (env 0) p)).norm) :
    NodeOK dJ eps lt env tan (.un .Exp .RxSO3 p) := by
  intro ty hty
  simp only [tyOf] at hty
  cases hpt : tyOf lt p with
  | none => simp [hpt] at hty
  | some t =>
    simp only [hpt, Option.bind_some, ty1] at hty
    split at hty <;> simp at hty
    rename_i ht; subst ht; subst hty
    obtain ⟨hL, hl, hτ⟩ := curveOK_V.mp (hp _ hpt)
    obtain ⟨d0, d1, d2, d3, hd⟩ := len4 _ hτ
    refine curveOK_G.mpr ⟨?_, ?_, ?_, ?_⟩
    · have := rxso3Exp_tangent eps heps (fun s => eval eps (env s) p) d0 d1 d2 d3 (by rw [← hd]; exact hL) hth
      simp only [tangent, jvp1, hd]
      exact this
    · show (qt (expF .RxSO3 eps (eval eps (env 0) p))).normSq = 1
      have := so3Exp_normSq_closed eps (v3 (eval eps (env 0) p)) heps hth
      simpa [expF, rxso3Exp, RxSO3.toList, torx, qt, Quat.toList] using this
    · show 0 < nth (expF .RxSO3 eps (eval eps (env 0) p)) 4
      simp [expF, rxso3Exp, RxSO3.toList, torx, Quat.toList, Real.exp_pos]
    · simp only [tangent, jvp1, length_mulVec _ (Shape_JlMat .RxSO3 eps _)]

/-- local correctness of an `RxSO3` `Log` node in regime 1 -/
theorem rxso3_Log_nodeOK (dJ : DJ ℝ) (eps : ℝ) (heps : 0 ≤ eps) (lt : List Ty) (env : ℝ → List (DVec ℝ)) (tan : List (DVec ℝ))
    (p : Prog) (hp : NodeOK dJ eps lt env tan p)
    (hv : eps < (qt (eval eps (env 0) p)).vec.norm) (hw : eps < |(qt (eval eps (env 0) p)).w|)
    (hφ : eps < (v3 (logF .SO3 eps [nth (eval eps (env 0) p) 0, nth (eval eps (env 0) p) 1, nth (eval eps (env 0) p) 2,
      nth (eval eps (env 0) p) 3])).norm) :
    NodeOK dJ eps lt env tan (.un .Log .RxSO3 p) := by
  intro ty hty
  simp only [tyOf] at hty
  cases hpt : tyOf lt p with
  | none => simp [hpt] at hty
  | some t =>
    simp only [hpt, Option.bind_some, ty1] at hty
    split at hty <;> simp at hty
    rename_i ht; subst ht; subst hty
    obtain ⟨hX, hu, hs, hτ⟩ := curveOK_G.mp (hp _ hpt)
    obtain ⟨a0, a1, a2, a3, ha⟩ := len4 _ hτ
    refine curveOK_V.mpr ⟨?_, ?_, ?_⟩
    · have := RxSO3Log_tangent eps heps (fun s => eval eps (env s) p) a0 a1 a2 a3 (by rw [← ha]; exact hX) hu hs hv hw hφ
      simp only [tangent, jvp1, ha]
      exact this
    · intro t; simp only [eval, fwd1]; exact length_logF .RxSO3 eps _
    · simp only [tangent, jvp1, length_mulVec _ (Shape_JlInvMat .RxSO3 eps _)]
end PP.AD
