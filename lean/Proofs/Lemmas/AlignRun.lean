import Proofs.Lemmas.Align
/-!
# Lemmas for C17, second part: contracts (`NNOk`, `AlignOk`), Umeyama bookkeeping, rigid-map algebra for the ICP run,
uniqueness of a rigid map through three non-collinear points
-/
namespace PP.C17
open PP Vec3 Quat Mat3 Align

/-- the rigid map of an `SE3` element is the affine map of its rotation matrix and translation -/
theorem SE3Act_eq_affine (X : SE3 ℝ) : SE3Act X = affine (SO3matrix X.q) X.t := by
  funext p
  simp only [SE3Act, affine, SO3matrix_mulVec]
  apply Vec3.ext' <;> simp only [Vec3.add] <;> ring

/-- the matrix `svdstf` decomposes: `H = target_ᵀ source_ / N` -/
noncomputable def Hmat (ps : Pairs ℝ) : Mat3 ℝ := Mat3.smul (1 / (ps.length : ℝ)) (crossCov (centered ps))

/-- the scale `svdstf` computes: `(d₁ + d₂ + sign·d₃) / var_source` -/
noncomputable def umeyamaScale (d : SVD3 ℝ) (ps : Pairs ℝ) : ℝ :=
  (d.S.x + d.S.y + (d.U.mul d.Vh).det * d.S.z) / varSource ps

theorem frob_Hmat (R : Mat3 ℝ) (ps : Pairs ℝ) :
    Mat3.frob R (Hmat ps) = 1 / (ps.length : ℝ) * Mat3.frob R (crossCov (centered ps)) := by
  rw [Hmat, Mat3.frob_smul]

/-- what `svdstf` hands to `mat2Sim3`: same rotation `rotOf` as `svdtf`, Umeyama's scale, `t = c_t − s R c_s` -/
theorem svdstfMat_eq (svd : Mat3 ℝ → SVD3 ℝ) (detK : Mat3 ℝ → ℝ) (hdet : ∀ M, detK M = M.det) (ws : Bool)
    (ps : Pairs ℝ) (h : SVDOk (Hmat ps) (svd (Hmat ps))) :
    svdstfMat svd detK ws ps =
      (if ws then umeyamaScale (svd (Hmat ps)) ps else 1, rotOf (svd (Hmat ps)),
        (mean (tgts ps)).sub ((Mat3.smul (if ws then umeyamaScale (svd (Hmat ps)) ps else 1)
          (rotOf (svd (Hmat ps)))).mulVec (mean (srcs ps)))) := by
  obtain ⟨hrot, hsg⟩ := svdstf_rot_eq (svd (Hmat ps)) h.orthU h.orthV
  have hH : Mat3.smul (k 1 / k ps.length) (crossCov (centered ps)) = Hmat ps := by
    simp only [Hmat, k_real, Nat.cast_one]
  rw [hsg] at hrot
  simp only [svdstfMat, hH, hdet, hsg]
  simp only [k_real, Nat.cast_one, one_mul, hrot, umeyamaScale]

theorem varSource_eq (ps : Pairs ℝ) : varSource ps = energyS (centered ps) * (1 / (ps.length : ℝ)) := by
  simp only [varSource, energyS, k_real, Nat.cast_one]

/-- Umeyama's scale is `⟨R*, M⟩ / Σ‖s̃‖²` with `M = Σ t̃ s̃ᵀ` -/
theorem umeyamaScale_eq (ps : Pairs ℝ) (hN : ps ≠ []) (hA : energyS (centered ps) ≠ 0) (d : SVD3 ℝ)
    (h : SVDOk (Hmat ps) d) :
    umeyamaScale d ps * energyS (centered ps) = Mat3.frob (rotOf d) (crossCov (centered ps)) := by
  have hN' : (ps.length : ℝ) ≠ 0 := by
    have : 0 < ps.length := List.length_pos_of_ne_nil hN
    positivity
  have hf := frob_rotOf (Hmat ps) d h
  rw [frob_Hmat] at hf
  unfold umeyamaScale
  rw [← hf, varSource_eq]
  field_simp

/-- contract of `knn(…, k=1)` (= `topk(k=1, largest=False)` over Euclidean distances) on a target cloud: the
returned index designates a target point that is at least as close as every other target point -/
def NNOk (nn : Cloud ℝ → Vec3 ℝ → Nat) (tgt : Cloud ℝ) : Prop :=
  ∀ p : Vec3 ℝ, tgt.getD (nn tgt p) Vec3.zero ∈ tgt ∧
    ∀ q ∈ tgt, (p.sub (tgt.getD (nn tgt p) Vec3.zero)).normSq ≤ (p.sub q).normSq

/-- contract of the aligner used inside ICP: a valid `SE3` element that is optimal among rigid transforms -/
structure AlignOk (align : Pairs ℝ → SE3 ℝ) : Prop where
  unit : ∀ ps, (align ps).q.normSq = 1
  opt : ∀ ps (X' : SE3 ℝ), X'.q.normSq = 1 → cost (SE3Act (align ps)) ps ≤ cost (SE3Act X') ps

theorem SE3Act_one (p : Vec3 ℝ) : SE3Act (SE3one : SE3 ℝ) p = p := by
  simp only [SE3Act, SE3one, Quat.one_act]; apply Vec3.ext' <;> simp [Vec3.add, Vec3.zero]

theorem SE3Act_mul (X Y : SE3 ℝ) (hX : X.q.normSq = 1) (hY : Y.q.normSq = 1) (p : Vec3 ℝ) :
    SE3Act (SE3Mul X Y) p = SE3Act X (SE3Act Y p) := by
  simp only [SE3Act, SE3Mul, Quat.act_mul X.q Y.q hX hY, Quat.act_add]
  apply Vec3.ext' <;> simp only [Vec3.add] <;> ring

theorem sscd_eq_cost (nn : Cloud ℝ → Vec3 ℝ → Nat) (tgt cur : Cloud ℝ) :
    sscd nn tgt cur = cost (SE3Act SE3one) (matchNN nn tgt cur) := by
  simp only [sscd, cost, SE3Act_one]

/-- the iterate stays a rigid image of the source cloud -/
theorem icpIter_rigid (align : Pairs ℝ → SE3 ℝ) (hal : AlignOk align) (nn : Cloud ℝ → Vec3 ℝ → Nat)
    (tgt : Cloud ℝ) (src : Cloud ℝ) (n : Nat) (X₀ : SE3 ℝ) (h₀ : X₀.q.normSq = 1) :
    ∃ X : SE3 ℝ, X.q.normSq = 1 ∧ icpIter align nn tgt n (src.map (SE3Act X₀)) = src.map (SE3Act X) := by
  induction n generalizing X₀ with
  | zero => exact ⟨X₀, h₀, rfl⟩
  | succ n ih =>
    simp only [icpIter, icpStep, List.map_map]
    have hT := hal.unit (matchNN nn tgt (src.map (SE3Act X₀)))
    obtain ⟨X, hX, hXe⟩ := ih (SE3Mul (align (matchNN nn tgt (src.map (SE3Act X₀)))) X₀)
      (by simp only [SE3Mul, Quat.normSq_mul, hT, h₀]; ring)
    refine ⟨X, hX, ?_⟩
    rw [← hXe]; congr 1
    apply List.map_congr_left; intro p _
    simp only [Function.comp, SE3Act_mul _ _ hT h₀]

theorem icpStart_rigid (init : Option (SE3 ℝ)) (hinit : ∀ T, init = some T → T.q.normSq = 1) (src : Cloud ℝ) :
    ∃ X₀ : SE3 ℝ, X₀.q.normSq = 1 ∧ icpStart init src = src.map (SE3Act X₀) := by
  cases init with
  | none =>
    refine ⟨SE3one, by simp [SE3one, Quat.one, Quat.normSq], ?_⟩
    simp only [icpStart]
    rw [List.map_congr_left (g := id) (fun p _ => SE3Act_one p), List.map_id]
  | some T => exact ⟨T, hinit T rfl, rfl⟩

theorem cost_zip_map (X : SE3 ℝ) (src : Cloud ℝ) : cost (SE3Act X) (src.zip (src.map (SE3Act X))) = 0 := by
  rw [cost_eq_zero_iff]
  intro p hp
  induction src with
  | nil => simp at hp
  | cons s ss ih =>
    simp only [List.map_cons, List.zip_cons_cons, List.mem_cons] at hp
    rcases hp with rfl | hp
    · rfl
    · exact ih hp

/-- the final `svdtf(source, temporal)` reproduces the accumulated rigid motion on every source point -/
theorem icp_final_exact (align : Pairs ℝ → SE3 ℝ) (hal : AlignOk align) (X : SE3 ℝ) (hX : X.q.normSq = 1)
    (src : Cloud ℝ) :
    src.map (SE3Act (align (src.zip (src.map (SE3Act X))))) = src.map (SE3Act X) := by
  have h0 := cost_zip_map X src
  have h1 := hal.opt (src.zip (src.map (SE3Act X))) X hX
  have h2 := cost_nonneg (SE3Act (align (src.zip (src.map (SE3Act X))))) (src.zip (src.map (SE3Act X)))
  have hz := (cost_eq_zero_iff _ _).mp (le_antisymm (by linarith) h2)
  generalize align (src.zip (src.map (SE3Act X))) = Y at hz ⊢
  clear h0 h1 h2
  induction src with
  | nil => rfl
  | cons s ss ih =>
    simp only [List.map_cons, List.zip_cons_cons] at hz ⊢
    rw [hz (s, SE3Act X s) (List.mem_cons_self ..), ih fun p hp => hz p (List.mem_cons_of_mem _ hp)]

/-- the loop driven by a stepper runs some number `m ≤ fuel` of passes -/
theorem icpLoop_eq_iter (align : Pairs ℝ → SE3 ℝ) (nn : Cloud ℝ → Vec3 ℝ → Nat) (cont : List ℝ → Bool)
    (tgt : Cloud ℝ) (fuel : Nat) (cur : Cloud ℝ) (errs : List ℝ) :
    ∃ m ≤ fuel, (icpLoop align nn cont tgt fuel cur errs).1 = icpIter align nn tgt m cur := by
  induction fuel generalizing cur errs with
  | zero => exact ⟨0, le_refl _, rfl⟩
  | succ f ih =>
    simp only [icpLoop]
    split_ifs with hc
    · obtain ⟨m, hm, he⟩ := ih (icpStep align nn tgt cur) (icpError nn tgt cur :: errs)
      exact ⟨m + 1, by omega, by rw [he]; rfl⟩
    · exact ⟨0, by omega, rfl⟩

theorem normSq_sub_comm (a b : Vec3 ℝ) : (a.sub b).normSq = (b.sub a).normSq := by lie_unfold; ring

theorem SE3Act_inv_left' (X : SE3 ℝ) (h : X.q.normSq = 1) (p : Vec3 ℝ) : SE3Act (SE3Inv X) (SE3Act X p) = p := by
  simp only [SE3Act, SE3Inv, Quat.act_add, Quat.conj_act_act X.q h]
  apply Vec3.ext' <;> simp only [Vec3.add, Vec3.neg] <;> ring

theorem SE3Inv_unit (X : SE3 ℝ) (h : X.q.normSq = 1) : (SE3Inv X).q.normSq = 1 := by
  simp only [SE3Inv, Quat.normSq_conj, h]

theorem map_act_eq_of_cost_zero (Y : SE3 ℝ) (l : Cloud ℝ) (f : Vec3 ℝ → Vec3 ℝ)
    (h : cost (SE3Act Y) (l.map fun p => (p, f p)) = 0) : l.map (SE3Act Y) = l.map f := by
  have hz := (cost_eq_zero_iff _ _).mp h
  apply List.map_congr_left
  intro p hp
  exact hz (p, f p) (List.mem_map.mpr ⟨p, hp, rfl⟩)

/-- a proper rotation commutes with the cross product -/
theorem IsRot.mulVec_cross {P : Mat3 ℝ} (h : Mat3.IsRot P) (u v : Vec3 ℝ) :
    (P.mulVec u).cross (P.mulVec v) = P.mulVec (u.cross v) := by
  have H := h.rotEqs
  apply Vec3.ext' <;> lie_unfold
  · linear_combination (u.y * v.z - u.z * v.y) * H.ha00 + (u.z * v.x - u.x * v.z) * H.ha10 + (u.x * v.y - u.y * v.x) * H.ha20
  · linear_combination (u.y * v.z - u.z * v.y) * H.ha01 + (u.z * v.x - u.x * v.z) * H.ha11 + (u.x * v.y - u.y * v.x) * H.ha21
  · linear_combination (u.y * v.z - u.z * v.y) * H.ha02 + (u.z * v.x - u.x * v.z) * H.ha12 + (u.x * v.y - u.y * v.x) * H.ha22

/-- a matrix fixing three linearly independent vectors is the identity -/
theorem eq_one_of_fix (P : Mat3 ℝ) (u v w : Vec3 ℝ) (hu : P.mulVec u = u) (hv : P.mulVec v = v) (hw : P.mulVec w = w)
    (hdet : (Mat3.ofCols u v w).det ≠ 0) : P = Mat3.one := by
  have hPW : P.mul (Mat3.ofCols u v w) = Mat3.ofCols u v w := by
    have e : ∀ a b c : Vec3 ℝ, P.mul (Mat3.ofCols a b c) = Mat3.ofCols (P.mulVec a) (P.mulVec b) (P.mulVec c) := by
      intro a b c; mat3_ext <;> lie_unfold
    rw [e, hu, hv, hw]
  have h1 : (P.mul (Mat3.ofCols u v w)).mul (Mat3.ofCols u v w).adjugate = (Mat3.ofCols u v w).mul (Mat3.ofCols u v w).adjugate := by
    rw [hPW]
  rw [Mat3.mul_assoc', Mat3.mul_adjugate, Mat3.mul_smul, Mat3.mul_one'] at h1
  have h2 := congrArg (Mat3.smul (1 / (Mat3.ofCols u v w).det)) h1
  rw [Mat3.smul_smul, Mat3.smul_smul, one_div, inv_mul_cancel₀ hdet, Mat3.one_smul', Mat3.one_smul'] at h2
  exact h2

theorem det_ofCols_cross (u v : Vec3 ℝ) : (Mat3.ofCols u v (u.cross v)).det = (u.cross v).normSq := by
  lie_unfold; ring

/-- two rigid maps that agree on three non-collinear points are the same map: same rotation matrix, same translation -/
theorem rigid_unique (R₁ R₂ : Mat3 ℝ) (h₁ : Mat3.IsRot R₁) (h₂ : Mat3.IsRot R₂) (t₁ t₂ a b c : Vec3 ℝ)
    (ha : affine R₁ t₁ a = affine R₂ t₂ a) (hb : affine R₁ t₁ b = affine R₂ t₂ b) (hc : affine R₁ t₁ c = affine R₂ t₂ c)
    (hnc : ((b.sub a).cross (c.sub a)).normSq ≠ 0) : R₁ = R₂ ∧ t₁ = t₂ := by
  -- R₁ u = R₂ u on the two edge vectors
  have hu : R₁.mulVec (b.sub a) = R₂.mulVec (b.sub a) := by
    have e1 := congrArg Vec3.x ha; have e2 := congrArg Vec3.y ha; have e3 := congrArg Vec3.z ha
    have f1 := congrArg Vec3.x hb; have f2 := congrArg Vec3.y hb; have f3 := congrArg Vec3.z hb
    simp only [affine, Vec3.add] at e1 e2 e3 f1 f2 f3
    rw [Mat3.mulVec_sub, Mat3.mulVec_sub]
    apply Vec3.ext' <;> simp only [Vec3.sub] <;> linarith
  have hv : R₁.mulVec (c.sub a) = R₂.mulVec (c.sub a) := by
    have e1 := congrArg Vec3.x ha; have e2 := congrArg Vec3.y ha; have e3 := congrArg Vec3.z ha
    have f1 := congrArg Vec3.x hc; have f2 := congrArg Vec3.y hc; have f3 := congrArg Vec3.z hc
    simp only [affine, Vec3.add] at e1 e2 e3 f1 f2 f3
    rw [Mat3.mulVec_sub, Mat3.mulVec_sub]
    apply Vec3.ext' <;> simp only [Vec3.sub] <;> linarith
  -- P = R₂ᵀ R₁ fixes u, v and u×v
  have hP : Mat3.IsRot (R₂.transpose.mul R₁) :=
    ⟨(Mat3.IsOrth.transpose h₂.1).mul h₁.1, by rw [Mat3.det_mul, Mat3.det_transpose, h₁.2, h₂.2]; ring⟩
  have hfix : ∀ x, R₁.mulVec x = R₂.mulVec x → (R₂.transpose.mul R₁).mulVec x = x := by
    intro x hx
    rw [Mat3.mulVec_mul, hx, ← Mat3.mulVec_mul, Mat3.IsOrth.tmul h₂.1, Mat3.one_mulVec]
  have hPu := hfix _ hu
  have hPv := hfix _ hv
  have hPw : (R₂.transpose.mul R₁).mulVec ((b.sub a).cross (c.sub a)) = (b.sub a).cross (c.sub a) := by
    rw [← IsRot.mulVec_cross hP, hPu, hPv]
  have hone := eq_one_of_fix _ _ _ _ hPu hPv hPw (by rw [det_ofCols_cross]; exact hnc)
  have hR : R₁ = R₂ := by
    calc R₁ = (R₂.mul R₂.transpose).mul R₁ := by rw [h₂.1, Mat3.one_mul']
      _ = R₂.mul (R₂.transpose.mul R₁) := Mat3.mul_assoc' _ _ _
      _ = R₂ := by rw [hone, Mat3.mul_one']
  refine ⟨hR, ?_⟩
  subst hR
  have e1 := congrArg Vec3.x ha; have e2 := congrArg Vec3.y ha; have e3 := congrArg Vec3.z ha
  simp only [affine, Vec3.add] at e1 e2 e3
  apply Vec3.ext' <;> linarith

end PP.C17
